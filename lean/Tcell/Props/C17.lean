/-
C17 — Legacy charsets: output valid in the locale encoding, with faithful fallbacks.

Theorems about the model `Tcell.Model.Encode` (tscreen.go encodeRune / drawCell payload / CanDisplay /
Register-UnregisterRuneFallback / buildAcsMap).  Everything is generic in the encoder `enc : Rune → EncResult`
(the external charset library is a parameter), in the ACS map, in the fallback map and in the runes; the
`acs_map_*` theorems are kernel evaluations over the regenerated database `Tcell.Gen.db` and the regenerated
`Tcell.Gen.vtACSNames`.
-/
import Tcell.Model.Encode
import Tcell.Gen.TerminfoDB
import Tcell.Gen.Acs
import Tcell.Spec.TermCaps
import Tcell.Lemmas.TPuts
import Tcell.Spec.Ecma48
namespace Tcell.Props.C17
open Tcell

/-! ### the decision chain -/

/-- The property's chain for one rune drawn first in a cell: its encoding if representable, else the terminal's ACS
string, else the registered fallback, else `?` — in that priority. -/
def chainSpec (t : EncState) (r : Rune) : Bytes :=
  if (t.enc r).bad then
    match t.acs.get? r with
    | some a => a
    | none =>
      match t.fallback.get? r with
      | some f => f
      | none => [63]
  else (t.enc r).out

/-- width padding of the property: a wide cell shown as `?` is written as `? ` -/
def widen (width : Int) (s : Bytes) : Bytes := if width > 1 ∧ s = [63] then [63, 32] else s

theorem encodeRune_first (t : EncState) (r : Rune) : t.encodeRune r [] = chainSpec t r := by
  unfold EncState.encodeRune chainSpec
  cases h : (t.enc r).bad <;> simp
  cases t.acs.get? r <;> simp
  cases t.fallback.get? r <;> simp

/-- **chain**: the payload of a cell holding the single rune `r` (any reported width, any column where it fits) is
`enc r` if representable, else the ACS glyph string if the map has one, else the registered fallback, else `?`,
in that priority, with `? ` for a wide cell. -/
theorem chain (t : EncState) (tw x : Int) (r : Rune) (width : Int)
    (hfit : ¬ x > tw - (if width < 1 then 1 else width)) :
    (t.cellPayload tw x r [] width).str = widen (if width < 1 then 1 else width) (chainSpec t r) := by
  unfold EncState.cellPayload EncState.encodeCell widen
  simp only [List.foldl_nil, encodeRune_first]
  rw [if_neg hfit]
  by_cases hw : (if width < 1 then 1 else width) > 1 <;> by_cases hq : chainSpec t r = [63] <;> simp [hw, hq]

/-- the four branches of the chain, spelled out -/
theorem chain_encoded (t : EncState) (r : Rune) (h : (t.enc r).bad = false) : chainSpec t r = (t.enc r).out := by
  simp [chainSpec, h]
theorem chain_acs (t : EncState) (r : Rune) (a : Bytes) (h : (t.enc r).bad = true) (ha : t.acs.get? r = some a) :
    chainSpec t r = a := by simp [chainSpec, h, ha]
theorem chain_fallback (t : EncState) (r : Rune) (f : Bytes) (h : (t.enc r).bad = true) (ha : t.acs.get? r = none)
    (hf : t.fallback.get? r = some f) : chainSpec t r = f := by simp [chainSpec, h, ha, hf]
theorem chain_question (t : EncState) (r : Rune) (h : (t.enc r).bad = true) (ha : t.acs.get? r = none)
    (hf : t.fallback.get? r = none) : chainSpec t r = [63] := by simp [chainSpec, h, ha, hf]

/-- a wide rune that does not fit in the last column is written as one blank of width 1 -/
theorem last_column_blank (t : EncState) (tw x : Int) (r : Rune) (comb : List Rune) (width : Int)
    (h : x > tw - (if width < 1 then 1 else width)) :
    t.cellPayload tw x r comb width = { str := [32], width := 1, resetCx := false } := by
  unfold EncState.cellPayload; simp [h]

/-- combining runes: an encodable one is appended, one that is not is elided (once something has been emitted) -/
theorem comb_encoded (t : EncState) (r : Rune) (buf : Bytes) (h : (t.enc r).bad = false) :
    t.encodeRune r buf = buf ++ (t.enc r).out := by simp [EncState.encodeRune, h]
theorem comb_elided (t : EncState) (r : Rune) (buf : Bytes) (h : (t.enc r).bad = true) (hb : buf ≠ []) :
    t.encodeRune r buf = buf := by
  have : buf.isEmpty = false := by cases buf <;> simp_all
  simp [EncState.encodeRune, h, this]

/-! ### never raw UTF-8, never the substitution byte -/

/-- where a piece of payload may come from: the encoder's own output for a rune of the cell that it accepted
(no error, non-empty, not starting with the substitution byte 0x1A), the terminal's ACS string or the registered
fallback for a rune of the cell, or the literal `?`. -/
inductive Piece (t : EncState) (rs : List Rune) : Bytes → Prop
  | enc (r : Rune) : r ∈ rs → (t.enc r).err = false → (t.enc r).out ≠ [] → (t.enc r).out.head? ≠ some 0x1A → Piece t rs (t.enc r).out
  | acs (r : Rune) (a : Bytes) : r ∈ rs → t.acs.get? r = some a → Piece t rs a
  | fallback (r : Rune) (f : Bytes) : r ∈ rs → t.fallback.get? r = some f → Piece t rs f
  | question : Piece t rs [63]

theorem bad_false (e : EncResult) (h : e.bad = false) : e.err = false ∧ e.out ≠ [] ∧ e.out.head? ≠ some 0x1A := by
  unfold EncResult.bad at h
  simp only [Bool.or_eq_false_iff] at h
  obtain ⟨⟨h1, h2⟩, h3⟩ := h
  refine ⟨h1, ?_, ?_⟩
  · intro hn; simp [hn] at h2
  · intro hn; simp [hn] at h3

theorem encodeRune_pieces (t : EncState) (rs : List Rune) (r : Rune) (hr : r ∈ rs) (buf : Bytes) :
    t.encodeRune r buf = buf ∨ ∃ p, Piece t rs p ∧ t.encodeRune r buf = buf ++ p := by
  unfold EncState.encodeRune
  cases h : (t.enc r).bad
  · right
    obtain ⟨h1, h2, h3⟩ := bad_false _ h
    exact ⟨_, Piece.enc r hr h1 h2 h3, by simp⟩
  · simp only [if_true]
    cases hb : buf.isEmpty
    · left; simp
    · right
      simp only [if_true]
      cases ha : t.acs.get? r with
      | some a => exact ⟨a, Piece.acs r a hr ha, rfl⟩
      | none =>
        cases hf : t.fallback.get? r with
        | some f => exact ⟨f, Piece.fallback r f hr hf, rfl⟩
        | none => exact ⟨[63], Piece.question, rfl⟩

theorem foldl_pieces (t : EncState) (rs : List Rune) (comb : List Rune) (hc : ∀ r ∈ comb, r ∈ rs) (buf : Bytes)
    (hb : ∃ ps : List Bytes, buf = ps.flatten ∧ ∀ p ∈ ps, Piece t rs p) :
    ∃ ps : List Bytes, comb.foldl (fun b r => t.encodeRune r b) buf = ps.flatten ∧ ∀ p ∈ ps, Piece t rs p := by
  induction comb generalizing buf with
  | nil => simpa using hb
  | cons c cs ih =>
    simp only [List.foldl_cons]
    apply ih (fun r hr => hc r (List.mem_cons_of_mem _ hr))
    obtain ⟨ps, hps, hall⟩ := hb
    rcases encodeRune_pieces t rs c (hc c (List.mem_cons_self ..)) buf with h | ⟨p, hp, h⟩
    · exact ⟨ps, by rw [h, hps], hall⟩
    · refine ⟨ps ++ [p], by rw [h, hps]; simp, ?_⟩
      intro q hq
      rcases List.mem_append.mp hq with hq | hq
      · exact hall q hq
      · simp at hq; subst hq; exact hp

/-- **never_raw_utf8**: whatever the cell holds (main rune, any combining runes, any width, any column), the bytes written
are a blank (last column), or a concatenation of pieces each of which is the encoder's accepted output for a rune of the
cell, the ACS string / registered fallback for a rune of the cell, or `?` — optionally followed by the padding blank of
`? `.  In particular the UTF-8 bytes of a rune appear only if the locale's encoder produced them (or a registered
string consists of them), and an encoder piece never starts with the substitution byte 0x1A. -/
theorem never_raw_utf8 (t : EncState) (tw x : Int) (mainc : Rune) (comb : List Rune) (width : Int) :
    (t.cellPayload tw x mainc comb width).str = [32] ∨
    ∃ ps : List Bytes, (∀ p ∈ ps, Piece t (mainc :: comb) p) ∧
      ((t.cellPayload tw x mainc comb width).str = ps.flatten ∨ (t.cellPayload tw x mainc comb width).str = ps.flatten ++ [32]) := by
  have hcell : ∃ ps : List Bytes, t.encodeCell mainc comb = ps.flatten ∧ ∀ p ∈ ps, Piece t (mainc :: comb) p := by
    unfold EncState.encodeCell
    apply foldl_pieces t (mainc :: comb) comb (fun r hr => List.mem_cons_of_mem _ hr)
    rcases encodeRune_pieces t (mainc :: comb) mainc (List.mem_cons_self ..) [] with h | ⟨p, hp, h⟩
    · exact ⟨[], by simp [h], by simp⟩
    · exact ⟨[p], by simp [h], by intro q hq; simp at hq; subst hq; exact hp⟩
  obtain ⟨ps, hps, hall⟩ := hcell
  unfold EncState.cellPayload
  by_cases hx : x > tw - (if width < 1 then 1 else width)
  · left; simp [hx]
  · right
    refine ⟨ps, hall, ?_⟩
    simp only [if_neg hx]
    by_cases hq : (decide ((if width < 1 then 1 else width) > 1) && t.encodeCell mainc comb == [63]) = true
    · right
      simp only [hq, if_true]
      have : t.encodeCell mainc comb = [63] := by simp at hq; exact hq.2
      rw [← hps, this]; rfl
    · left
      simp only [hq]
      simpa using hps

/-! ### CanDisplay -/

/-- **canDisplay_iff** (without fallbacks): true exactly when the rune is shown as itself (the encoder accepts it and its
output is what is written) or as the ACS glyph the map has for it. -/
theorem canDisplay_iff (t : EncState) (r : Rune) :
    t.canDisplay r false = true ↔
      ((t.enc r).bad = false ∧ t.encodeRune r [] = (t.enc r).out) ∨
      ((t.enc r).bad = true ∧ ∃ a, t.acs.get? r = some a ∧ t.encodeRune r [] = a) := by
  rw [encodeRune_first]
  unfold EncState.canDisplay chainSpec
  cases h : (t.enc r).bad <;> cases ha : t.acs.get? r <;> simp

/-- **canDisplay_iff** (fallbacks allowed): additionally true when a fallback string is registered (and is then what is written). -/
theorem canDisplay_fallbacks_iff (t : EncState) (r : Rune) :
    t.canDisplay r true = true ↔
      (t.enc r).bad = false ∨ (t.acs.get? r).isSome ∨ (t.fallback.get? r).isSome := by
  unfold EncState.canDisplay
  cases h : (t.enc r).bad <;> cases ha : t.acs.get? r <;> cases hf : t.fallback.get? r <;> simp

/-- a rune CanDisplay rejects even with fallbacks is drawn as `?` -/
theorem not_canDisplay_question (t : EncState) (r : Rune) (h : t.canDisplay r true = false) : t.encodeRune r [] = [63] := by
  rw [encodeRune_first]
  unfold EncState.canDisplay at h
  unfold chainSpec
  cases hb : (t.enc r).bad <;> cases ha : t.acs.get? r <;> cases hf : t.fallback.get? r <;> simp_all

/-! ### RegisterRuneFallback / UnregisterRuneFallback -/

theorem get_insert_self (m : RuneMap) (r : Rune) (s : Bytes) : (m.insert r s).get? r = some s := by
  simp [RuneMap.insert, RuneMap.get?, List.find?]
theorem get_insert_other (m : RuneMap) (r r' : Rune) (s : Bytes) (h : r' ≠ r) : (m.insert r s).get? r' = m.get? r' := by
  have : (r == r') = false := by simp; exact fun e => h e.symm
  simp [RuneMap.insert, RuneMap.get?, List.find?, this]
theorem get_erase_self (m : RuneMap) (r : Rune) : (m.erase r).get? r = none := by
  simp [RuneMap.erase, RuneMap.get?, List.find?_eq_none]
theorem get_erase_other (m : RuneMap) (r r' : Rune) (h : r' ≠ r) : (m.erase r).get? r' = m.get? r' := by
  unfold RuneMap.erase RuneMap.get?
  congr 1
  induction m with
  | nil => rfl
  | cons p ps ih =>
    by_cases hp : p.1 = r
    · have h1 : (p.1 != r) = false := by simp [hp]
      have h2 : (p.1 == r') = false := by simp [hp]; exact fun e => h e.symm
      simp [List.filter, h1, List.find?, h2, ih]
    · have h1 : (p.1 != r) = true := by simp [hp]
      by_cases hq : p.1 = r'
      · have h2 : (p.1 == r') = true := by simp [hq]
        simp [List.filter, h1, List.find?, h2]
      · have h2 : (p.1 == r') = false := by simp [hq]
        simp [List.filter, h1, List.find?, h2, ih]

/-- **register_takes_effect**: after `RegisterRuneFallback(r, s)` the next draw of a rune that is neither representable nor
in the ACS map writes `s`, CanDisplay(r, true) is true, and every other rune is drawn as before. -/
theorem register_takes_effect (t : EncState) (r : Rune) (s : Bytes) (hb : (t.enc r).bad = true) (ha : t.acs.get? r = none) :
    (t.registerFallback r s).encodeRune r [] = s ∧ (t.registerFallback r s).canDisplay r true = true ∧
    ∀ r', r' ≠ r → ∀ buf, (t.registerFallback r s).encodeRune r' buf = t.encodeRune r' buf := by
  refine ⟨?_, ?_, ?_⟩
  · rw [encodeRune_first]; unfold chainSpec EncState.registerFallback; simp [hb, ha, get_insert_self]
  · unfold EncState.canDisplay EncState.registerFallback; simp [hb, ha, get_insert_self]
  · intro r' hr buf; unfold EncState.encodeRune EncState.registerFallback; simp [get_insert_other _ _ _ _ hr]

/-- **unregister_takes_effect**: after `UnregisterRuneFallback(r)` such a rune is drawn as `?` again, CanDisplay(r, true) is
false, and every other rune is drawn as before. -/
theorem unregister_takes_effect (t : EncState) (r : Rune) (hb : (t.enc r).bad = true) (ha : t.acs.get? r = none) :
    (t.unregisterFallback r).encodeRune r [] = [63] ∧ (t.unregisterFallback r).canDisplay r true = false ∧
    ∀ r', r' ≠ r → ∀ buf, (t.unregisterFallback r).encodeRune r' buf = t.encodeRune r' buf := by
  refine ⟨?_, ?_, ?_⟩
  · rw [encodeRune_first]; unfold chainSpec EncState.unregisterFallback; simp [hb, ha, get_erase_self]
  · unfold EncState.canDisplay EncState.unregisterFallback; simp [hb, ha, get_erase_self]
  · intro r' hr buf; unfold EncState.encodeRune EncState.unregisterFallback; simp [get_erase_other _ _ _ hr]

/-! ### the ACS map of every database entry -/

/-- terminfo(5): `acsc` is a list of pairs (vt100 name, the terminal's character) -/
def pairs : Bytes → List (Nat × Nat)
  | n :: d :: rest => (n, d) :: pairs rest
  | _ => []

/-- for every listed pair `(n, d)` whose name is in `names`, the map sends the rune named `n` to `smacs ++ [d] ++ rmacs` -/
def acsSpecOn (v : EncVariant) (names : List (Nat × Rune)) (e : Terminfo) (ps : List (Nat × Nat)) : Bool :=
  ps.all fun p =>
    match names.find? (fun q => q.1 == p.1) with
    | some (_, r) => (buildAcsMap v names e).get? r == some (e.enterAcs ++ [p.2] ++ e.exitAcs)
    | none => true

theorem acsSpecOn_iff (v : EncVariant) (names : List (Nat × Rune)) (e : Terminfo) (ps : List (Nat × Nat)) :
    acsSpecOn v names e ps = true ↔
      ∀ p ∈ ps, ∀ q, names.find? (fun q => q.1 == p.1) = some q →
        (buildAcsMap v names e).get? q.2 = some (e.enterAcs ++ [p.2] ++ e.exitAcs) := by
  unfold acsSpecOn
  rw [List.all_eq_true]
  constructor
  · intro h p hp q hq
    have := h p hp
    rw [hq] at this
    simpa using this
  · intro h p hp
    cases hq : names.find? (fun q => q.1 == p.1) with
    | none => rfl
    | some q => simpa using h p hp q hq

/-- the variant of `buildAcsMap` the tree under test implements, as found by the translator's behavioural probe
(`harness/cmd/extract/acs.go` `acsProbe`; engine `acs` asks the same three questions and the correspondence ties
`buildAcsMap treeVariant` to the real function on every database entry and on synthetic descriptions) -/
def treeVariant : EncVariant :=
  { acsAll := Gen.acsAll, acsRawByte := Gen.acsRawByte, acsStrip := Gen.acsStripsPadding }

/-- the current tree has both repairs of /repo 1c34022 (loop `>= 2`, raw terminal byte); with
fixes/C17-acs-strip-padding.patch it is `.stripped`, without it `.repaired` — the kernel decides which -/
theorem tree_variant_repaired : treeVariant = if Gen.acsStripsPadding then .stripped else .repaired := by decide

/-- the database entries whose `smacs`/`rmacs` carry a padding specification (terminfo(5) `$<…>`) -/
def acsPadded (e : Terminfo) : Bool :=
  !(Spec.TermCaps.stripPadding e.enterAcs == e.enterAcs && Spec.TermCaps.stripPadding e.exitAcs == e.exitAcs)

/-- **acs_map_spec** (current tree): for EVERY entry of the regenerated database and EVERY pair `(n, d)` of
its `AltChars` with `n ∈ vtACSNames` – the last pair and terminal characters ≥ 0x80 included –
`acs (rune n) = EnterAcs ++ [d] ++ ExitAcs`, for the `buildAcsMap` of the tree under test.  Holds since /repo 1c34022;
on the pinned tree only `acs_map_spec_pinned_extent` held (witnesses `acs_map_spec_pinned_fails`,
`acs_map_pinned_high_byte`).  `EnterAcs`/`ExitAcs` are the capability strings as the database has them, i.e. including
any `$<n>` padding; on a tree that removes the padding (`Gen.acsStripsPadding`) this reading is therefore stated for the
entries without padding only — what reaches the terminal, for EVERY entry, is the subject of `acs_map_wire` below. -/
theorem acs_map_spec :
    ∀ e ∈ Gen.db, (Gen.acsStripsPadding = false ∨ acsPadded e = false) →
      acsSpecOn treeVariant Gen.vtACSNames e (pairs e.altChars) = true := by decide

/-- the same about the model variant `.repaired` (/repo 1c34022 … before the padding repair), every entry, whatever the tree -/
theorem acs_map_spec_repaired :
    ∀ e ∈ Gen.db, acsSpecOn .repaired Gen.vtACSNames e (pairs e.altChars) = true := by decide

/-- the entries with padding in smacs/rmacs: vt220 and vt420.  (A fact about the database; together with
`acs_wire_unstripped_extent` it says which entries the finding `C17-acs-padding` concerns on a tree WITHOUT
fixes/C17-acs-strip-padding.patch.) -/
theorem acs_padded_entries : (Gen.db.filter acsPadded).map (·.name) = ["vt220", "vt420"] := by decide

/-- what the terminal must receive for the glyph `d`: `smacs`, the character, `rmacs`, each capability string as `TPuts`
would emit it (terminfo(5): padding is a delay, never bytes; `C15.tputs_spec`: `TPuts` writes `stripPadding s`) -/
def acsWire (e : Terminfo) (d : Nat) : Bytes :=
  Spec.TermCaps.stripPadding e.enterAcs ++ [d] ++ Spec.TermCaps.stripPadding e.exitAcs

def acsWireOn (v : EncVariant) (names : List (Nat × Rune)) (e : Terminfo) (ps : List (Nat × Nat)) : Bool :=
  ps.all fun p =>
    match names.find? (fun q => q.1 == p.1) with
    | some (_, r) => (buildAcsMap v names e).get? r == some (acsWire e p.2)
    | none => true

/-- **acs_map_wire** (the property's reading; current tree): the string `drawCell` writes for the glyph (it is written with
`writeString`, not `TPuts`: tscreen.go encodeRune/drawCell) is byte for byte what the terminal must receive —
on a tree with fixes/C17-acs-strip-padding.patch (`Gen.acsStripsPadding = true`: the hypothesis is trivially true) for
EVERY database entry and every listed pair, with no exception; on a tree without it for every entry other than vt220 and
vt420 (for those two the statement is then FALSE: `acs_wire_padded_fails`, finding `C17-acs-padding`, oracle class
`acs-padding-literal`). -/
theorem acs_map_wire :
    ∀ e ∈ Gen.db, (Gen.acsStripsPadding = true ∨ (e.name ≠ "vt220" ∧ e.name ≠ "vt420")) →
      acsWireOn treeVariant Gen.vtACSNames e (pairs e.altChars) = true := by
  decide

/-- the premise of `acs_map_wire` is satisfiable on either tree (xterm), and the entries it may exclude exist (vt220) -/
example : (∃ e ∈ Gen.db, e.name = "xterm" ∧ (Gen.acsStripsPadding = true ∨ (e.name ≠ "vt220" ∧ e.name ≠ "vt420")) ∧
      (pairs e.altChars).length ≥ 20) ∧ (∃ e ∈ Gen.db, e.name = "vt220" ∧ acsPadded e = true) := by decide

/-- **acs_map_wire, repaired variant**: for the model variant with fixes/C17-acs-strip-padding.patch, EVERY database entry,
every listed pair, no exception, whatever the tree under test (it is what `acs_map_wire` reduces to on a patched tree). -/
theorem acs_map_wire_stripped :
    ∀ e ∈ Gen.db, acsWireOn .stripped Gen.vtACSNames e (pairs e.altChars) = true := by
  decide

/-- the repair changes nothing but the padding: on every entry without padding in smacs/rmacs the two variants build the
same map -/
theorem acs_strip_conservative :
    ∀ e ∈ Gen.db, acsPadded e = false → buildAcsMap .stripped Gen.vtACSNames e = buildAcsMap .repaired Gen.vtACSNames e := by
  decide

/-- the unrepaired variant (`.repaired` = /repo before fixes/C17-acs-strip-padding.patch) is wire-exact on precisely the
entries without padding: the extent of the finding `C17-acs-padding` -/
theorem acs_wire_unstripped_extent :
    ∀ e ∈ Gen.db, acsWireOn .repaired Gen.vtACSNames e (pairs e.altChars) = !acsPadded e := by
  decide

/-- the pinned counterexample (kept; about the model variant WITHOUT the padding repair, whatever the tree): on vt220 the
horizontal-line glyph is written as `ESC ( 0 $ < 2 > q ESC ( B $ < 4 >`; the repaired variant writes `ESC ( 0 q ESC ( B`. -/
theorem acs_wire_padded_fails :
    ∃ e ∈ Gen.db, e.name = "vt220" ∧ acsWireOn .repaired Gen.vtACSNames e (pairs e.altChars) = false ∧
      (buildAcsMap .repaired Gen.vtACSNames e).get? 9472 = some [27, 40, 48, 36, 60, 50, 62, 113, 27, 40, 66, 36, 60, 52, 62] ∧
      acsWire e 113 = [27, 40, 48, 113, 27, 40, 66] ∧
      (buildAcsMap .stripped Gen.vtACSNames e).get? 9472 = some [27, 40, 48, 113, 27, 40, 66] := by
  decide

/-! #### any description, not only the database: every string of the repaired map is wire-exact -/

/-- the repaired `strip` is the terminfo(5) reference: `TPuts` of the tree with an empty pad character writes
`stripPadding s` (`Lemmas.TPuts.tputsAux_bytes`, the lemma behind `C15.tputs_spec`) -/
theorem acsCap_stripped (v : EncVariant) (h : v.acsStrip = true) (s : Bytes) :
    acsCap v s = Spec.TermCaps.stripPadding s := by
  have := TPuts.tputsAux_bytes [] (s.length + 1) s {} (Nat.lt_succ_self _)
  simpa [acsCap, h, TPuts.tputs, TPuts.tputsV, TPuts.currentStrict] using this

theorem acsCap_unstripped (v : EncVariant) (h : v.acsStrip = false) (s : Bytes) : acsCap v s = s := by
  simp [acsCap, h]

/-- every binding the loop adds is `enter ++ dstv ++ exit` for a pair of the `acsc` string -/
theorem acsLoop_values (v : EncVariant) (names : List (Nat × Rune)) (enter exit : Bytes) (s : Bytes) (m : RuneMap)
    (r : Rune) (a : Bytes) (h : (acsLoop v names enter exit s m).get? r = some a) :
    m.get? r = some a ∨ ∃ p ∈ pairs s, a = enter ++ acsDstv v p.2 ++ exit := by
  induction s using pairs.induct generalizing m with
  | case1 n d rest ih =>
    unfold acsLoop at h
    split at h
    · rcases ih _ h with h1 | ⟨p, hp, ha⟩
      · split at h1
        · rename_i r' _
          by_cases hr : r = r'
          · subst hr
            rw [get_insert_self] at h1
            right
            exact ⟨(n, d), by simp [pairs], by simpa using h1.symm⟩
          · rw [get_insert_other _ _ _ _ hr] at h1
            left; exact h1
        · left; exact h1
      · right; exact ⟨p, by simp [pairs, hp], ha⟩
    · left; exact h
  | case2 s hs =>
    left
    unfold acsLoop at h
    split at h
    · exact absurd rfl (hs _ _ _)
    · exact h

/-- **acs_values_wire** (repaired variant, ANY terminal description and any name table — not only the database): every
string of the ACS map, i.e. everything `encodeRune` can hand to `writeString` for an ACS glyph, is
`stripPadding EnterAcs ++ dstv ++ stripPadding ExitAcs` for a pair `(n, d)` of the description's `acsc` string: the two
capability strings exactly as `TPuts` would emit them (terminfo(5) reference `stripPadding`), the terminal's character in
between — nothing of the padding, nothing else removed, whatever form the padding has and wherever it stands. -/
theorem acs_values_wire (v : EncVariant) (hs : v.acsStrip = true) (names : List (Nat × Rune)) (e : Terminfo)
    (r : Rune) (a : Bytes) (h : (buildAcsMap v names e).get? r = some a) :
    ∃ p ∈ pairs e.altChars,
      a = Spec.TermCaps.stripPadding e.enterAcs ++ acsDstv v p.2 ++ Spec.TermCaps.stripPadding e.exitAcs := by
  unfold buildAcsMap at h
  rcases acsLoop_values v names _ _ _ _ r a h with h0 | ⟨p, hp, ha⟩
  · simp [RuneMap.get?] at h0
  · exact ⟨p, hp, by rw [ha, acsCap_stripped v hs, acsCap_stripped v hs]⟩

/-- the same for a tree without the repair: the capability strings verbatim — so a padding specification in smacs/rmacs
reaches `writeString` (the defect, for any description) -/
theorem acs_values_verbatim (v : EncVariant) (hs : v.acsStrip = false) (names : List (Nat × Rune)) (e : Terminfo)
    (r : Rune) (a : Bytes) (h : (buildAcsMap v names e).get? r = some a) :
    ∃ p ∈ pairs e.altChars, a = e.enterAcs ++ acsDstv v p.2 ++ e.exitAcs := by
  unfold buildAcsMap at h
  rcases acsLoop_values v names _ _ _ _ r a h with h0 | ⟨p, hp, ha⟩
  · simp [RuneMap.get?] at h0
  · exact ⟨p, hp, by rw [ha, acsCap_unstripped v hs, acsCap_unstripped v hs]⟩

/-- hypotheses satisfiable, on forms of padding the database does not have: padding in the middle and at the start, `*` `/`
flags and a decimal, a `$<x>` that is no padding specification (kept), the `$` `<` characters of the terminal kept -/
example : (buildAcsMap .stripped Gen.vtACSNames
      { (default : Terminfo) with altChars := [113, 36], enterAcs := [27, 36, 60, 53, 62, 40, 48, 36, 60, 120, 62],
                                   exitAcs := [36, 60, 49, 46, 53, 42, 47, 62, 27, 40, 66] }).get? 9472 =
    some [27, 40, 48, 36, 60, 120, 62, 36, 27, 40, 66] := by decide

/-! #### "always occupying the cell's width": the ACS string on the reference terminal -/

/-- the reference ECMA-48 terminal (`Spec.Ecma48`, 8-bit locale, 40 columns, cursor at the origin) after receiving `s` -/
def acsTerm (e : Terminfo) (s : Bytes) : Spec.Ecma48.Term :=
  ((Spec.Ecma48.Term.init { w := 40, h := 2, utf8 := false, ffClears := (e.clear == [12]) }).feed s).finish

/-- the string shows ONE glyph and leaves the terminal as it was: no complaint of the strict tokenizer, the cursor one cell
to the right of where it was, every mode register (G0/G1 designation, shift state, alternate font, …) back at its value -/
def oneCell (e : Terminfo) (s : Bytes) : Bool :=
  let t := acsTerm e s
  t.malformed.isEmpty && t.cx == 1 && t.cy == 0 && !t.pendingWrap && t.modes == (acsTerm e []).modes

/-- ECMA-48 family (the scope of the reference terminal): cursor addressing starts with CSI -/
def isEcma (e : Terminfo) : Bool := match e.setCursor with | 27 :: 91 :: _ => true | _ => false

/-- for every listed, named pair whose terminal character is a graphic byte, the map's string for the rune occupies one cell -/
def acsOneCellOn (v : EncVariant) (names : List (Nat × Rune)) (e : Terminfo) (ps : List (Nat × Nat)) : Bool :=
  ps.all fun p =>
    match names.find? (fun q => q.1 == p.1) with
    | some (_, r) =>
      if p.2 < 32 || p.2 == 127 then true
      else match (buildAcsMap v names e).get? r with
        | some a => oneCell e a
        | none => false
    | none => true

set_option maxRecDepth 100000 in
/-- **acs_glyph_one_cell** (the property's "always occupying the cell's width", ACS branch; tree under test): on a tree with
fixes/C17-acs-strip-padding.patch, for EVERY ECMA-48-family entry of the database and every listed pair whose terminal
character is a graphic byte, the string written for the glyph moves the reference terminal's cursor by exactly one cell,
raises no complaint and restores every mode; on a tree without the repair the same for every entry but vt220 and vt420.
(Pairs whose terminal character is a C0 byte — the PC-font positions of ansi, cygwin, pcansi — are outside the reference
terminal's scope: `C09.acs_pc_font_controls`.) -/
theorem acs_glyph_one_cell :
    (Gen.db.filter isEcma).all (fun e =>
      (Gen.acsStripsPadding || (e.name != "vt220" && e.name != "vt420")) →
        acsOneCellOn treeVariant Gen.vtACSNames e (pairs e.altChars)) = true := by
  decide +kernel

set_option maxRecDepth 100000 in
/-- the same about the repaired model variant: every ECMA entry, no exception, whatever the tree -/
theorem acs_glyph_one_cell_stripped :
    (Gen.db.filter isEcma).all (fun e => acsOneCellOn .stripped Gen.vtACSNames e (pairs e.altChars)) = true := by
  decide +kernel

set_option maxRecDepth 100000 in
/-- pinned counterexample (variant without the padding repair): on vt220 the horizontal line occupies NINE cells — the glyph
and the eight characters of `$<2>` `$<4>` (the first four of them shown in the special-graphics set) -/
theorem acs_glyph_unstripped_nine_cells :
    ∃ e ∈ Gen.db, e.name = "vt220" ∧ acsOneCellOn .repaired Gen.vtACSNames e (pairs e.altChars) = false ∧
      (acsTerm e [27, 40, 48, 36, 60, 50, 62, 113, 27, 40, 66, 36, 60, 52, 62]).cx = 9 ∧
      (acsTerm e [27, 40, 48, 113, 27, 40, 66]).cx = 1 := by
  decide +kernel

/-- non-vacuity: the database has entries with an ACS map, their pair lists are non-trivial (xterm: 30-odd pairs, all
named), the last pair of xterm (`~~`, bullet) and the ≥ 0x80 character of `ansi` are covered -/
example : (Gen.db.filter (fun e => !(pairs e.altChars).isEmpty)).length ≥ 20 ∧
    (∃ e ∈ Gen.db, e.name = "xterm" ∧ (pairs e.altChars).getLast? = some (126, 126) ∧
      (buildAcsMap treeVariant Gen.vtACSNames e).get? 183 = some [27, 40, 48, 126, 27, 40, 66]) ∧
    (∃ e ∈ Gen.db, e.name = "ansi" ∧ (113, 196) ∈ pairs e.altChars ∧
      (buildAcsMap treeVariant Gen.vtACSNames e).get? 9472 = some [27, 91, 49, 49, 109, 196, 27, 91, 49, 48, 109]) := by
  decide

/-- On the pinned tree (`for len(acsstr) > 2`) the statement is **false**: the last pair of the xterm entry (`~~`, bullet) is
missing from the map. -/
theorem acs_map_spec_pinned_fails :
    ∃ e ∈ Gen.db, e.name = "xterm" ∧ acsSpecOn .pinned Gen.vtACSNames e (pairs e.altChars) = false ∧
      (buildAcsMap .pinned Gen.vtACSNames e).get? 183 = none ∧
      (buildAcsMap .repaired Gen.vtACSNames e).get? 183 = some [27, 40, 48, 126, 27, 40, 66] := by
  decide

/-- second defect of the pinned loop: `string(acsstr[1])` UTF-8-encodes a terminal character ≥ 0x80 (entry `ansi`: `q` ↦ 0xC4). -/
theorem acs_map_pinned_high_byte :
    ∃ e ∈ Gen.db, e.name = "ansi" ∧
      (buildAcsMap .pinned Gen.vtACSNames e).get? 9472 = some [27, 91, 49, 49, 109, 195, 132, 27, 91, 49, 48, 109] ∧
      (buildAcsMap .repaired Gen.vtACSNames e).get? 9472 = some [27, 91, 49, 49, 109, 196, 27, 91, 49, 48, 109] := by
  decide

/-- what held for the PINNED loop (model variant `.pinned`, not the current tree; kept as the record of the defect's
extent): every pair but the last one of each entry, as long as the terminal's character is below 0x80. -/
theorem acs_map_spec_pinned_extent :
    ∀ e ∈ Gen.db, acsSpecOn .pinned Gen.vtACSNames e ((pairs e.altChars).dropLast.filter (fun p => p.2 < 128)) = true := by
  decide

/-! ### non-vacuity -/

/-- a Latin-1-like encoder: bytes below 0x100 map to themselves, everything else is the substitution byte -/
def exEnc : Encoder := fun r => if 32 ≤ r ∧ r < 256 then { out := [r.toNat] } else { out := [0x1A] }
def exState : EncState := { enc := exEnc, acs := [(9472, [27, 40, 48, 113, 27, 40, 66])], fallback := [(9474, [124]), (9472, [45])] }

example : (exState.cellPayload 80 0 233 [] 1).str = [233] := by decide            -- é: encoded
example : (exState.cellPayload 80 0 9472 [] 1).str = [27, 40, 48, 113, 27, 40, 66] := by decide  -- ─: ACS wins over the fallback
example : (exState.cellPayload 80 0 9474 [] 1).str = [124] := by decide           -- │: fallback
example : (exState.cellPayload 80 0 19990 [] 2).str = [63, 32] := by decide       -- 世: "? "
example : (exState.cellPayload 80 79 19990 [] 2).str = [32] := by decide          -- last column
example : (exState.cellPayload 80 0 97 [769, 233] 1).str = [97, 233] := by decide -- combining U+0301 elided, é kept
example : exState.canDisplay 9472 false = true ∧ exState.canDisplay 9474 false = false ∧ exState.canDisplay 9474 true = true := by decide
example : (exEnc 8364).bad = true ∧ exState.acs.get? 8364 = none := by decide     -- hypotheses of register_takes_effect
example : ((exState.registerFallback 8364 [69]).cellPayload 80 0 8364 [] 1).str = [69] := by decide
example : (((exState.registerFallback 8364 [69]).unregisterFallback 8364).cellPayload 80 0 8364 [] 1).str = [63] := by decide

end Tcell.Props.C17
