/-
C04, Layer B: the strings behind the mode model's capabilities, for every ECMA-family entry of the regenerated
database, do on the reference emulator (`Tcell.Spec.Ecma48`) what Layer A (`Tcell.ModesA.capEffect` / `cmdEffect`)
says they do on the abstract registers — by kernel evaluation.  Also: every such entry satisfies the pairing facts
`Paired` under which `modes_restored` holds.
-/
import Tcell.Props.C04
import Tcell.Model.Render
import Tcell.Spec.Ecma48
import Tcell.Gen.TerminfoDB
namespace Tcell.Props.C04
open Tcell Tcell.Modes Tcell.ModesA Tcell.Spec.Ecma48

def isEcma (e : Terminfo) : Bool := match e.setCursor with | 27 :: 91 :: _ => true | _ => false

/-- the abstract description of a database entry, read off its strings and the strings the constructor derives -/
def adOf (ti : Terminfo) : AD :=
  let d := derive ti
  { mouse := !ti.mouse.isEmpty, pasteOn := !d.enablePaste.isEmpty, pasteOff := !d.disablePaste.isEmpty,
    focusOn := !d.enableFocus.isEmpty, focusOff := !d.disableFocus.isEmpty, saveTitle := !d.saveTitle.isEmpty,
    restoreTitle := !d.restoreTitle.isEmpty, setTitle := !d.setTitle.isEmpty, cursorFg := !d.cursorFg.isEmpty,
    cursorRGB := !d.cursorRGB.isEmpty,
    cursorStyles := d.cursorStyles.map (fun l cs => !(l.getD cs []).isEmpty),
    enterCA := !ti.enterCA.isEmpty, exitCA := !ti.exitCA.isEmpty, caTitle := bytesContains ti.enterCA (str "[22;0;0t"),
    showCursor := !ti.showCursor.isEmpty, hideCursor := !ti.hideCursor.isEmpty,
    enterKeypad := !ti.enterKeypad.isEmpty, exitKeypad := !ti.exitKeypad.isEmpty,
    disableAM := !ti.disableAutoMargin.isEmpty, enableAM := !ti.enableAutoMargin.isEmpty,
    attrOff := !ti.attrOff.isEmpty, resetFgBg := !ti.resetFgBg.isEmpty, url := !d.enterUrl.isEmpty }

/-- the model's guards for an entry are those of its abstract description -/
theorem caps_of_adOf (ti : Terminfo) : Modes.ModeCaps.of ti (derive ti) = (adOf ti).caps := by
  simp [Modes.ModeCaps.of, adOf, AD.caps, Option.isSome_map]

/-- `Paired`, decidably -/
def pairedB (ad : AD) : Bool :=
  (ad.exitCA == ad.enterCA) && (!ad.hideCursor || ad.showCursor) && (!ad.enterKeypad || ad.exitKeypad) &&
  (!ad.disableAM || ad.enableAM) && (ad.restoreTitle == ad.saveTitle) &&
  (match ad.cursorStyles with | some p => p 0 | none => true) &&
  (!ad.cursorRGB || ad.cursorFg) && (!ad.pasteOn || ad.pasteOff) && (!ad.focusOn || ad.focusOff) && ad.attrOff

theorem paired_of_pairedB (ad : AD) (h : pairedB ad = true) : Paired ad := by
  simp only [pairedB, Bool.and_eq_true, Bool.or_eq_true, Bool.not_eq_true', beq_iff_eq] at h
  obtain ⟨⟨⟨⟨⟨⟨⟨⟨⟨h1, h2⟩, h3⟩, h4⟩, h5⟩, h6⟩, h7⟩, h8⟩, h9⟩, h10⟩ := h
  refine ⟨h1, ?_, ?_, ?_, h5, ?_, ?_, ?_, ?_, h10⟩
  · intro h; rcases h2 with h2 | h2 <;> simp_all
  · intro h; rcases h3 with h3 | h3 <;> simp_all
  · intro h; rcases h4 with h4 | h4 <;> simp_all
  · intro p hp; rw [hp] at h6; exact h6
  · intro h; rcases h7 with h7 | h7 <;> simp_all
  · intro h; rcases h8 with h8 | h8 <;> simp_all
  · intro h; rcases h9 with h9 | h9 <;> simp_all

set_option maxRecDepth 100000 in
/-- every ECMA-family entry of the regenerated database has, for each mode it can switch on, the string that switches
    it off (rmcup with smcup, cnorm with civis, rmkx with smkx, smam with rmam, title restore with title save, a default
    cursor shape string, a cursor colour reset, paste / focus off strings, sgr0) -/
theorem db_pairedB : (Gen.db.filter isEcma).all (fun e => pairedB (adOf e)) = true := by decide +kernel

theorem db_paired (e : Terminfo) (he : e ∈ Gen.db.filter isEcma) : Paired (adOf e) :=
  paired_of_pairedB _ (List.all_eq_true.mp db_pairedB e he)

/-! ### the emulator's registers as abstract registers -/

def strBytes (s : String) : Bytes := s.toUTF8.toList.map (·.toNat)

def toRegs (t : Term) : Regs :=
  let m := t.modes
  { alt := m.altScreen, cv := m.cursorVisible, shape := m.cursorShape,
    tinted := m.cursorColor.isSome || !m.cursorColorName.isEmpty,
    penSet := !(decide ({ t.pen with link := none } = ({} : Pen))), link := t.pen.link.isSome,
    keypad := m.keypadApp || m.cursorKeysApp || m.smoothScroll,
    m1000 := m.mouse1000, m1002 := m.mouse1002, m1003 := m.mouse1003, m1006 := m.mouse1006, paste := m.paste2004,
    focus := m.focus1004, am := m.autoMargin, title := strBytes m.title, tstack := m.titleStack.map strBytes }

/-- the emulator agrees with the abstract effect: equal registers, except that the abstract `penSet` / `link` may
    over-approximate ("possibly set") -/
def agree (emu abs : Regs) : Bool :=
  decide ({ emu with penSet := false, link := false } = { abs with penSet := false, link := false }) &&
  (!emu.penSet || abs.penSet) && (!emu.link || abs.link)

/-- Layer A's meaning of one capability string / one draw command -/
def capEffect (ad : AD) (k : Cap) (r : Regs) : Regs := evEffect ad (.put k) r
def cmdEffect (ad : AD) (c : Cmd) (r : Regs) : Regs := evEffect ad (.frame [c]) r

def rcOf (e : Terminfo) : RenderCfg := { ti := e, d := derive e, truecolor := false, fit := id, fit0 := id }

/-- sample capabilities (all the fixed ones; SetTitle with a sample title) -/
def sampleCaps : List Cap :=
  [.mouseOff, .mouseOn 1000, .mouseOn 1002, .mouseOn 1003, .mouseOn 1006, .pasteOn, .pasteOff, .focusOn, .focusOff,
   .enterCA, .saveTitle, .enterKeypad, .hideCursor, .enableAcs, .disableAM, .clear, .setTitle (str "ab"), .showCursor,
   .cursorDefault, .cursorColorReset, .resetFgBg, .attrOff, .exitKeypad, .enableAM, .restoreTitle, .exitCA, .exitUrl, .bell]

/-- sample draw commands touching mode registers: every cursor style with no colour / a colour / colour reset -/
def sampleCmds : List Cmd :=
  [.hideCursor, .showCursor 0 0, .showCursor 1 0, .showCursor 2 (2^32 + 2^33 + 0x010203), .showCursor 3 0, .showCursor 4 colorReset,
   .showCursor 5 0, .showCursor 6 (2^32 + 2^33 + 0xff8000), .clear {}, .setPen { attrs := 1 },
   .setPen { url := "http://x/", urlId := "id=1" }]

def term0 (e : Terminfo) : Term := (Term.init { w := 4, h := 2, ffClears := (e.clear == [12]) }).feed ([27, 93, 50, 59, 115, 104, 7])

/-- start states: the default terminal (title "sh"), and the terminal after the entry's own enabling strings -/
def starts (e : Terminfo) : List Term :=
  let rc := rcOf e
  let on : List Cap := [.enterCA, .saveTitle, .enterKeypad, .hideCursor, .disableAM, .mouseOff, .mouseOn 1000, .mouseOn 1002,
                        .mouseOn 1003, .mouseOn 1006] ++ (if (adOf e).pasteOn then [.pasteOn] else []) ++
                        (if (adOf e).focusOn then [.focusOn] else [])
  let t1 := (term0 e).feed (on.flatMap (capBytes rc))
  let t2 := t1.feed (Render.renderAll rc [.showCursor 6 (2^32 + 2^33 + 0x102030), .setPen { attrs := 1, url := "http://y/" }])
  [term0 e, t1, t2]

/-- a capability the model can actually emit for this entry (guarded ones only when their string exists) -/
def emittable (ad : AD) : Cap → Bool
  | .mouseOff | .mouseOn _ => ad.mouse
  | .pasteOn => ad.pasteOn | .pasteOff => ad.pasteOff | .focusOn => ad.focusOn | .focusOff => ad.focusOff
  | .saveTitle => ad.saveTitle | .restoreTitle => ad.restoreTitle | .setTitle _ => ad.setTitle
  | .cursorDefault => ad.cursorStyles.isSome | .cursorColorReset => ad.cursorFg
  | _ => true

def layerBEntry (e : Terminfo) : Bool :=
  let ad := adOf e
  let rc := rcOf e
  (starts e).all fun t =>
    (sampleCaps.all fun k => !emittable ad k || agree (toRegs (t.feed (capBytes rc k))) (capEffect ad k (toRegs t))) &&
    (sampleCmds.all fun c => agree (toRegs (t.feed (Render.render rc c))) (cmdEffect ad c (toRegs t)))

set_option maxRecDepth 1000000 in
/-- **Layer B, per string (partial).**  For every ECMA-family entry of the regenerated database, from each of three
    start states (the default terminal; the terminal after the entry's own mode-enabling strings; the same with a cursor
    style, cursor colour, SGR attribute and hyperlink in force), every capability string the mode model can emit and the
    mode-relevant draw commands change the reference emulator's registers exactly as `capEffect` / `cmdEffect` change the
    abstract registers (`penSet` / `link` may over-approximate).
    What is missing for the full transport `emu (bytes history) = applyEvs (events history)`: the start states are three
    samples rather than all terminals (the strings' effects are state-independent register assignments except the title
    stack and `?47`, which the samples exercise in both states); the composition over histories is validated, not
    proved, by the engine `modes` (byte-exact tie + the emulator judging the implementation's own bytes). -/
theorem layerB_samples_partial : (Gen.db.filter isEcma).all layerBEntry = true := by decide +kernel

end Tcell.Props.C04
