/-
C04, Layer B.  Two generations of results live here:

(1) `layerB_samples_partial` (older): per string, three sample start states per entry, kernel evaluation; also covers the
    SGR / hyperlink over-approximation and sample cursor-style draw commands.
(2) **the byte-level transport** (`db_mode_strings_known`, `modes_restored_bytes`, `resume_reapplies_bytes`): for ALL start
    states of the reference emulator whose parser is in the ground state, and composed over whole histories with
    `feed_append` — see the section "the byte-level theorems" at the end of this file and `Lemmas/ModesB{Emu,Seq,Sim}.lean`.

C04, Layer B: the strings behind the mode model's capabilities, for every ECMA-family entry of the regenerated
database, do on the reference emulator (`Tcell.Spec.Ecma48`) what Layer A (`Tcell.ModesA.capEffect` / `cmdEffect`)
says they do on the abstract registers — by kernel evaluation.  Also: every such entry satisfies the pairing facts
`Paired` under which `modes_restored` holds.
-/
import Tcell.Props.C04
import Tcell.Model.Render
import Tcell.Spec.Ecma48
import Tcell.Gen.TerminfoDB
import Tcell.Lemmas.ModesBSim
namespace Tcell.Props.C04
open Tcell Tcell.Modes Tcell.ModesA Tcell.Spec.Ecma48

def isEcma (e : Terminfo) : Bool := match e.setCursor with | 27 :: 91 :: _ => true | _ => false

/-- the abstract description of a database entry, read off its strings and the strings the constructor derives -/
def adOf (ti : Terminfo) : AD :=
  let d := derive ti
  { mouse := !ti.mouse.isEmpty, pasteOn := !d.enablePaste.isEmpty, pasteOff := !d.disablePaste.isEmpty,
    focusOn := !d.enableFocus.isEmpty, focusOff := !d.disableFocus.isEmpty, saveTitle := !d.saveTitle.isEmpty,
    restoreTitle := !d.restoreTitle.isEmpty, setTitle := !d.setTitle.isEmpty, cursorFg := !d.cursorFg.isEmpty,
    cursorRGB := !d.cursorRGB.isEmpty,
    cursorStyles := d.cursorStyles.map (fun l cs => !(l.getD cs []).isEmpty),
    enterCA := !ti.enterCA.isEmpty, exitCA := !ti.exitCA.isEmpty, caTitle := bytesContains ti.enterCA (str "[22;0;0t"),
    showCursor := !ti.showCursor.isEmpty, hideCursor := !ti.hideCursor.isEmpty,
    enterKeypad := !ti.enterKeypad.isEmpty, exitKeypad := !ti.exitKeypad.isEmpty,
    disableAM := !ti.disableAutoMargin.isEmpty, enableAM := !ti.enableAutoMargin.isEmpty,
    attrOff := !ti.attrOff.isEmpty, resetFgBg := !ti.resetFgBg.isEmpty, url := !d.enterUrl.isEmpty }

/-- the model's guards for an entry are those of its abstract description -/
theorem caps_of_adOf (ti : Terminfo) : Modes.ModeCaps.of ti (derive ti) = (adOf ti).caps := by
  simp [Modes.ModeCaps.of, adOf, AD.caps, Option.isSome_map]

/-- `Paired`, decidably -/
def pairedB (ad : AD) : Bool :=
  (ad.exitCA == ad.enterCA) && (!ad.hideCursor || ad.showCursor) && (!ad.enterKeypad || ad.exitKeypad) &&
  (!ad.disableAM || ad.enableAM) && (ad.restoreTitle == ad.saveTitle) &&
  (match ad.cursorStyles with | some p => p 0 | none => true) &&
  (!ad.cursorRGB || ad.cursorFg) && (!ad.pasteOn || ad.pasteOff) && (!ad.focusOn || ad.focusOff) && ad.attrOff

theorem paired_of_pairedB (ad : AD) (h : pairedB ad = true) : Paired ad := by
  simp only [pairedB, Bool.and_eq_true, Bool.or_eq_true, Bool.not_eq_true', beq_iff_eq] at h
  obtain ⟨⟨⟨⟨⟨⟨⟨⟨⟨h1, h2⟩, h3⟩, h4⟩, h5⟩, h6⟩, h7⟩, h8⟩, h9⟩, h10⟩ := h
  refine ⟨h1, ?_, ?_, ?_, h5, ?_, ?_, ?_, ?_, h10⟩
  · intro h; rcases h2 with h2 | h2 <;> simp_all
  · intro h; rcases h3 with h3 | h3 <;> simp_all
  · intro h; rcases h4 with h4 | h4 <;> simp_all
  · intro p hp; rw [hp] at h6; exact h6
  · intro h; rcases h7 with h7 | h7 <;> simp_all
  · intro h; rcases h8 with h8 | h8 <;> simp_all
  · intro h; rcases h9 with h9 | h9 <;> simp_all

set_option maxRecDepth 100000 in
/-- every ECMA-family entry of the regenerated database has, for each mode it can switch on, the string that switches
    it off (rmcup with smcup, cnorm with civis, rmkx with smkx, smam with rmam, title restore with title save, a default
    cursor shape string, a cursor colour reset, paste / focus off strings, sgr0) -/
theorem db_pairedB : (Gen.db.filter isEcma).all (fun e => pairedB (adOf e)) = true := by decide +kernel

theorem db_paired (e : Terminfo) (he : e ∈ Gen.db.filter isEcma) : Paired (adOf e) :=
  paired_of_pairedB _ (List.all_eq_true.mp db_pairedB e he)

/-! ### the emulator's registers as abstract registers -/

def strBytes (s : String) : Bytes := s.toUTF8.toList.map (·.toNat)

def toRegs (t : Term) : Regs :=
  let m := t.modes
  { alt := m.altScreen, cv := m.cursorVisible, shape := m.cursorShape,
    tinted := m.cursorColor.isSome || !m.cursorColorName.isEmpty,
    penSet := !(decide ({ t.pen with link := none } = ({} : Pen))), link := t.pen.link.isSome,
    keypad := m.keypadApp || m.cursorKeysApp || m.smoothScroll,
    m1000 := m.mouse1000, m1002 := m.mouse1002, m1003 := m.mouse1003, m1006 := m.mouse1006, paste := m.paste2004,
    focus := m.focus1004, am := m.autoMargin, title := strBytes m.title, tstack := m.titleStack.map strBytes }

/-- the emulator agrees with the abstract effect: equal registers, except that the abstract `penSet` / `link` may
    over-approximate ("possibly set") -/
def agree (emu abs : Regs) : Bool :=
  decide ({ emu with penSet := false, link := false } = { abs with penSet := false, link := false }) &&
  (!emu.penSet || abs.penSet) && (!emu.link || abs.link)

/-- Layer A's meaning of one capability string / one draw command -/
def capEffect (ad : AD) (k : Cap) (r : Regs) : Regs := evEffect ad (.put k) r
def cmdEffect (ad : AD) (c : Cmd) (r : Regs) : Regs := evEffect ad (.frame [c]) r

def rcOf (e : Terminfo) : RenderCfg := { ti := e, d := derive e, truecolor := false, fit := id, fit0 := id }

/-- sample capabilities (all the fixed ones; SetTitle with a sample title) -/
def sampleCaps : List Cap :=
  [.mouseOff, .mouseOn 1000, .mouseOn 1002, .mouseOn 1003, .mouseOn 1006, .pasteOn, .pasteOff, .focusOn, .focusOff,
   .enterCA, .saveTitle, .enterKeypad, .hideCursor, .enableAcs, .disableAM, .clear, .setTitle (str "ab"), .showCursor,
   .cursorDefault, .cursorColorReset, .resetFgBg, .attrOff, .exitKeypad, .enableAM, .restoreTitle, .exitCA, .exitUrl, .bell]

/-- sample draw commands touching mode registers: every cursor style with no colour / a colour / colour reset -/
def sampleCmds : List Cmd :=
  [.hideCursor, .showCursor 0 0, .showCursor 1 0, .showCursor 2 (2^32 + 2^33 + 0x010203), .showCursor 3 0, .showCursor 4 colorReset,
   .showCursor 5 0, .showCursor 6 (2^32 + 2^33 + 0xff8000), .clear {}, .setPen { attrs := 1 },
   .setPen { url := "http://x/", urlId := "id=1" }]

def term0 (e : Terminfo) : Term := (Term.init { w := 4, h := 2, ffClears := (e.clear == [12]) }).feed ([27, 93, 50, 59, 115, 104, 7])

/-- start states: the default terminal (title "sh"), and the terminal after the entry's own enabling strings -/
def starts (e : Terminfo) : List Term :=
  let rc := rcOf e
  let on : List Cap := [.enterCA, .saveTitle, .enterKeypad, .hideCursor, .disableAM, .mouseOff, .mouseOn 1000, .mouseOn 1002,
                        .mouseOn 1003, .mouseOn 1006] ++ (if (adOf e).pasteOn then [.pasteOn] else []) ++
                        (if (adOf e).focusOn then [.focusOn] else [])
  let t1 := (term0 e).feed (on.flatMap (capBytes rc))
  let t2 := t1.feed (Render.renderAll rc [.showCursor 6 (2^32 + 2^33 + 0x102030), .setPen { attrs := 1, url := "http://y/" }])
  [term0 e, t1, t2]

/-- a capability the model can actually emit for this entry (guarded ones only when their string exists) -/
def emittable (ad : AD) : Cap → Bool
  | .mouseOff | .mouseOn _ => ad.mouse
  | .pasteOn => ad.pasteOn | .pasteOff => ad.pasteOff | .focusOn => ad.focusOn | .focusOff => ad.focusOff
  | .saveTitle => ad.saveTitle | .restoreTitle => ad.restoreTitle | .setTitle _ => ad.setTitle
  | .cursorDefault => ad.cursorStyles.isSome | .cursorColorReset => ad.cursorFg
  | _ => true

def layerBEntry (e : Terminfo) : Bool :=
  let ad := adOf e
  let rc := rcOf e
  (starts e).all fun t =>
    (sampleCaps.all fun k => !emittable ad k || agree (toRegs (t.feed (capBytes rc k))) (capEffect ad k (toRegs t))) &&
    (sampleCmds.all fun c => agree (toRegs (t.feed (Render.render rc c))) (cmdEffect ad c (toRegs t)))

set_option maxRecDepth 1000000 in
/-- **Layer B, per string (partial).**  For every ECMA-family entry of the regenerated database, from each of three
    start states (the default terminal; the terminal after the entry's own mode-enabling strings; the same with a cursor
    style, cursor colour, SGR attribute and hyperlink in force), every capability string the mode model can emit and the
    mode-relevant draw commands change the reference emulator's registers exactly as `capEffect` / `cmdEffect` change the
    abstract registers (`penSet` / `link` may over-approximate).
    What is missing for the full transport `emu (bytes history) = applyEvs (events history)`: the start states are three
    samples rather than all terminals (the strings' effects are state-independent register assignments except the title
    stack and `?47`, which the samples exercise in both states).  SUPERSEDED for the mode registers by
    `db_mode_strings_known` + `modes_restored_bytes` / `resume_reapplies_bytes` below (all start states, whole histories);
    kept because it is still the only Layer-B statement about SGR state / hyperlink (`penSet`, `link`) and about the
    cursor-colour draw commands. -/
theorem layerB_samples_partial : (Gen.db.filter isEcma).all layerBEntry = true := by decide +kernel

/-! ## the byte-level theorems: Layer A transported to the reference emulator, all start states, whole histories -/

open Tcell.ModesB Tcell.Spec.Ecma48.Term

/-- membership of an entry in the proved class (`ModesB.Known`): every fixed string the mode path can write for the entry
    (after TPuts removed its padding) is a list of tokens with proved effects (`ModesB.Tok.sim`), and the total effect on
    the emulator's registers is exactly Layer A's meaning of the capability -/
def ModeStringsKnown (e : Terminfo) : Bool := Known (rcOf e) (adOf e) (selOf (rcOf e))

set_option maxRecDepth 1000000 in
/-- **ALL 45 ECMA-family entries of the regenerated database are in the proved class** (kernel evaluation; no entry is
    left out: the distinct strings are `CSI ? n h/l` for n ∈ {1, 4, 7, 12, 25, 47, 1000, 1002, 1003, 1004, 1006, 1049, 2004},
    `ESC =`/`ESC >`, `ESC 7`/`ESC 8`, `CSI 22;0;0 t`/`CSI 23;0;0 t`/`CSI 22;2 t`/`CSI 23;2 t`, `CSI n SP q`, `OSC 112 BEL`,
    `OSC 8 ; ; ST`, `ESC ( B`, `ESC ) 0`, SI, FF, BEL, `CSI ? n c`, `CSI " q`, `CSI 34 h`, `CSI r` and the plain
    SGR / CUP / ED forms) -/
theorem db_mode_strings_known : (Gen.db.filter isEcma).all ModeStringsKnown = true := by decide +kernel

/-- the events of a history, in order, from a state of the screen -/
def evsOf (cf : ModeCfg) (v : Bool) : MState → List MOp → List Ev
  | _, [] => []
  | st, op :: ops => (stepV v cf st op).2 ++ evsOf cf v (stepV v cf st op).1 ops

section
variable (ad : AD) (v a : Bool) (rw : Rune → Int) (payload : Rune → List Rune → List Nat) (corner : Bool)

/-- the terminal registers of `execAll` are the events of the history applied to the initial registers -/
theorem execAll_r : ∀ (ops : List MOp) (wd : World),
    (execAll ad v a rw payload corner wd ops).r = applyEvs ad (evsOf (mkCf ad rw payload corner a) v wd.st ops) wd.r := by
  intro ops
  induction ops with
  | nil => intro wd; rfl
  | cons op l ih =>
    intro wd
    show (execAll ad v a rw payload corner (execOp ad v a rw payload corner wd op) l).r = _
    rw [ih]
    simp [execOp, evsOf, applyEvs, List.foldl_append]

theorem evsOf_ok : ∀ (ops : List MOp) (st : MState), (evsOf (mkCf ad rw payload corner a) v st ops).all (putOk ad) = true := by
  intro ops
  induction ops with
  | nil => intro st; rfl
  | cons op l ih =>
    intro st
    simp only [evsOf, List.all_append, Bool.and_eq_true]
    exact ⟨step_ok ad v a rw payload corner st op, ih _⟩

/-- everything the screen writes from the call of Init to the end of the history `ops` (Init is `engage` on the fresh
    screen — the op `.resume` — plus one WindowSize call that writes nothing) -/
def histEvs (w h : Int) (ops : List MOp) : List Ev :=
  evsOf (mkCf ad rw payload corner a) v (Modes.fresh w h) (.resume :: ops)

/-- … as bytes on the wire -/
def histBytes (rc : RenderCfg) (w h : Int) (ops : List MOp) : Bytes :=
  (histEvs ad v a rw payload corner w h ops).flatMap (evBytes rc)

/-- NAMED HYPOTHESIS about the draw path (not proved here): every command of every draw frame of the history does on the
    emulator's mode registers what Layer A says (`ModesB.CmdOk`: nothing for cursor addressing, style changes, cell
    contents, clear; cursor visibility / shape / colour for the cursor commands) and returns the parser to the ground
    state.  `ModesB.cmdOk_of_eff` discharges it for any concrete command whose bytes tokenize (see the example below);
    in general it is what C01B's `CapsFx` / C09's `output_wellformed_partial` are about, validated on every run by the
    engine `modes` (emulator registers after every frame). -/
def FramesOk (rc : RenderCfg) (sel : Sel) (evs : List Ev) : Prop :=
  ∀ cmds, Ev.frame cmds ∈ evs → ∀ c ∈ cmds, CmdOk rc ad sel c

/-- every title written is printable ASCII without `$` (otherwise the title bytes themselves could be control sequences:
    `SetTitle("\a\x1b[?1000h")` does switch the mouse on — outside the property) -/
def TitlesPlain (evs : List Ev) : Prop := ∀ t, Ev.put (.setTitle t) ∈ evs → PlainTitle t

theorem hist_evSim (rc : RenderCfg) (sel : Sel) (hk : Known rc ad sel = true) (evs : List Ev)
    (hok : evs.all (putOk ad) = true) (hfr : FramesOk ad rc sel evs) (hti : TitlesPlain evs) :
    ∀ e ∈ evs, EvSim rc ad sel e := by
  intro e he
  have hp := List.all_eq_true.mp hok e he
  cases e with
  | call c => exact evSim_call rc ad sel c
  | frame cmds => exact evSim_frame rc ad sel cmds (hfr cmds he)
  | put k =>
    simp only [putOk, Bool.and_eq_true] at hp
    by_cases ht : ∃ t, k = .setTitle t
    · obtain ⟨t, rfl⟩ := ht
      exact evSim_setTitle rc ad sel hk (by simpa [emit] using hp.1) t (hti t he)
    · exact evSim_put rc ad sel hk k (fun t h => ht ⟨t, h⟩) hp.2 hp.1

/-- **the transport**: for a description in the proved class, from ANY emulator state `t0` with the parser in the ground
    state and registers `m0` satisfying the keypad invariant, the emulator fed ALL bytes of the history has exactly the
    registers Layer A computes (SGR state and hyperlink apart) -/
theorem hist_transport (rc : RenderCfg) (sel : Sel) (hk : Known rc ad sel = true) (w h : Int) (ops : List MOp)
    (hfr : FramesOk ad rc sel (histEvs ad v a rw payload corner w h ops))
    (hti : TitlesPlain (histEvs ad v a rw payload corner w h ops))
    (t0 : Term) (hst : t0.st = .ground) (r0 : Regs) (hR : absOf (mr t0) = eraseP r0) (hj : J sel (mr t0)) :
    (t0.feed (histBytes ad v a rw payload corner rc w h ops)).st = .ground ∧
    absOf (mr (t0.feed (histBytes ad v a rw payload corner rc w h ops))) =
      eraseP (applyEvs ad (histEvs ad v a rw payload corner w h ops) r0) ∧
    J sel (mr (t0.feed (histBytes ad v a rw payload corner rc w h ops))) :=
  evs_sim rc ad sel _ (hist_evSim ad rc sel hk _ (evsOf_ok ad v a rw payload corner _ _) hfr hti) t0 r0 hst hR hj

theorem map_cps_inj : ∀ (x y : List String), x.map cps = y.map cps → x = y
  | [], [], _ => rfl
  | [], _ :: _, h => by simp at h
  | _ :: _, [], h => by simp at h
  | p :: ps, q :: qs, h => by
    simp only [List.map_cons, List.cons.injEq] at h
    rw [cps_inj h.1, map_cps_inj ps qs h.2]

/-- the emulator's registers in their default state, showing `ttl` with saved titles `stk` -/
def mr0 (ttl : String) (stk : List String) : MR := { title := ttl, tstack := stk }

theorem absOf_mr0 (ttl : String) (stk : List String) :
    absOf (mr0 ttl stk) = eraseP (world0 0 0 (cps ttl) (stk.map cps)).r := rfl

theorem J_mr0 (sel : Sel) (ttl : String) (stk : List String) : J sel (mr0 ttl stk) := ⟨fun _ => rfl, fun _ => rfl, fun _ => rfl⟩

set_option maxHeartbeats 1600000 in
/-- **C04, modes restored — at the byte level.**  For every terminal description in the proved class (all 45 ECMA-family
    entries: `db_mode_strings_known`, with `db_paired`), TCELL_ALTSCREEN either way, every screen size and every history
    `ops` (as in `modes_restored`: any calls in any order, no Resume after Fini) ending in Suspend or Fini:
    take ANY state `t0` of the reference emulator whose parser is in the ground state and whose mode registers are the
    defaults (whatever its grid, cursor, pen, saved cursor, charsets, title `ttl` and title stack `stk`), and feed it ALL the
    bytes the model writes from Init to the end of that last call (`histBytes`; the model is byte-exact with tscreen.go by
    the engine `modes`).  Then the parser is in the ground state again and the emulator is off the alternate screen, the
    cursor is visible with default shape and no colour set, keypad-application / cursor-key-application / smooth-scroll
    modes are off, mouse modes 1000/1002/1003/1006, bracketed paste 2004 and focus reporting 1004 are off, auto-margin is
    on, the title stack is `stk` again, and if a title was saved the title shown is Layer A's ghost title.
    Hypotheses beyond Layer A's: `FramesOk` (named hypothesis on the draw frames) and `TitlesPlain`.  NOT transported:
    SGR state and hyperlink (Layer A's `penSet` / `link`; `rmcup`'s cursor restore brings back a saved pen). -/
theorem modes_restored_bytes (rc : RenderCfg) (sel : Sel) (hk : Known rc ad sel = true) (hp : Paired ad)
    (w h : Int) (ops : List MOp) (last : MOp) (hl : last = .suspend ∨ last = .fini) (hwf : wfFrom false (ops ++ [last]) = true)
    (hfr : FramesOk ad rc sel (histEvs ad v a rw payload corner w h (ops ++ [last])))
    (hti : TitlesPlain (histEvs ad v a rw payload corner w h (ops ++ [last])))
    (t0 : Term) (hst : t0.st = .ground) (ttl : String) (stk : List String) (hm : mr t0 = mr0 ttl stk) :
    let m1 := mr (t0.feed (histBytes ad v a rw payload corner rc w h (ops ++ [last])))
    (t0.feed (histBytes ad v a rw payload corner rc w h (ops ++ [last]))).st = .ground ∧
    m1.alt = false ∧ m1.cv = true ∧ m1.shape = 0 ∧ m1.color = none ∧ m1.colorName = "" ∧
    m1.kpApp = false ∧ m1.ckApp = false ∧ m1.smooth = false ∧
    m1.m1000 = false ∧ m1.m1002 = false ∧ m1.m1003 = false ∧ m1.m1006 = false ∧ m1.paste = false ∧ m1.focus = false ∧
    m1.am = true ∧ m1.tstack = stk ∧
    (0 < nSaved ad a → cps m1.title =
      (execAll ad v a rw payload corner (world0 w h (cps ttl) (stk.map cps)) (.resume :: (ops ++ [last]))).g) := by
  intro m1
  have hA := modes_restored ad v a rw payload corner hp w h (cps ttl) (stk.map cps) ops last hl hwf
  rw [execAll_r] at hA
  obtain ⟨s1, s2, _⟩ := hist_transport ad v a rw payload corner rc sel hk w h (ops ++ [last]) hfr hti t0 hst
    (world0 w h (cps ttl) (stk.map cps)).r (by rw [hm]; rfl) (by rw [hm]; exact J_mr0 sel ttl stk)
  have hE : absOf m1 = eraseP (applyEvs ad (histEvs ad v a rw payload corner w h (ops ++ [last]))
      (world0 w h (cps ttl) (stk.map cps)).r) := s2
  have hA' : Idle ad v a (applyEvs ad (histEvs ad v a rw payload corner w h (ops ++ [last])) (world0 w h (cps ttl) (stk.map cps)).r)
      (execAll ad v a rw payload corner (world0 w h (cps ttl) (stk.map cps)) (.resume :: (ops ++ [last]))).g (stk.map cps) := hA
  generalize applyEvs ad (histEvs ad v a rw payload corner w h (ops ++ [last])) (world0 w h (cps ttl) (stk.map cps)).r = rA at hE hA'
  have htint : (m1.color.isSome || !m1.colorName.isEmpty) = false := (congrArg Regs.tinted hE).trans hA'.tinted
  have hkp : (m1.kpApp || m1.ckApp || m1.smooth) = false := (congrArg Regs.keypad hE).trans hA'.keypad
  have hstk : m1.tstack.map cps = stk.map cps := (congrArg Regs.tstack hE).trans hA'.tstack
  simp only [Bool.or_eq_false_iff, Bool.not_eq_false', Option.isSome_eq_false_iff, Option.isNone_iff_eq_none] at htint hkp
  refine ⟨s1, (congrArg Regs.alt hE).trans hA'.alt, (congrArg Regs.cv hE).trans hA'.cv, (congrArg Regs.shape hE).trans hA'.shape,
    htint.1, by simpa using htint.2, hkp.1.1, hkp.1.2, hkp.2,
    (congrArg Regs.m1000 hE).trans hA'.m1000, (congrArg Regs.m1002 hE).trans hA'.m1002, (congrArg Regs.m1003 hE).trans hA'.m1003,
    (congrArg Regs.m1006 hE).trans hA'.m1006, (congrArg Regs.paste hE).trans hA'.paste, (congrArg Regs.focus hE).trans hA'.focus,
    (congrArg Regs.am hE).trans hA'.am, map_cps_inj _ _ hstk, fun hn => (congrArg Regs.title hE).trans (hA'.title hn)⟩

/-- **C04, Resume re-applies — at the byte level.**  Same setting as `modes_restored_bytes`, for a history `ops` after Init
    that leaves the screen suspended: feed the emulator (any ground state with default registers) ALL bytes from Init to
    the end of the following `Resume`.  Then mouse modes 1000/1002/1003/1006, bracketed paste and focus reporting are on in
    the emulator EXACTLY if the application's last request — wherever in the history, also while suspended — enabled
    them (and the description has the string); the alternate screen is shown iff TCELL_ALTSCREEN allows it and the description
    has smcup, the cursor is hidden, auto-margin is off, keypad mode is on (where the description can), and a requested
    plain title is the title shown. -/
theorem resume_reapplies_bytes (rc : RenderCfg) (sel : Sel) (hk : Known rc ad sel = true) (hp : Paired ad)
    (w h : Int) (ops : List MOp) (hwf : wfFrom false ops = true)
    (hsusp : (execAll ad v a rw payload corner (world0 w h [] []) (.resume :: ops)).st.running = false)
    (hfr : FramesOk ad rc sel (histEvs ad v a rw payload corner w h (ops ++ [.resume])))
    (hti : TitlesPlain (histEvs ad v a rw payload corner w h (ops ++ [.resume])))
    (t0 : Term) (hst : t0.st = .ground) (ttl : String) (stk : List String) (hm : mr t0 = mr0 ttl stk) :
    let m1 := mr (t0.feed (histBytes ad v a rw payload corner rc w h (ops ++ [.resume])))
    let q := reqAfter {} ops
    (t0.feed (histBytes ad v a rw payload corner rc w h (ops ++ [.resume]))).st = .ground ∧
    m1.m1000 = (ad.mouse && decide (q.mouseFlags % 2 = 1)) ∧ m1.m1002 = (ad.mouse && decide (q.mouseFlags / 2 % 2 = 1)) ∧
    m1.m1003 = (ad.mouse && decide (q.mouseFlags / 4 % 2 = 1)) ∧ m1.m1006 = (ad.mouse && decide (q.mouseFlags % 8 ≠ 0)) ∧
    m1.paste = (q.paste && ad.pasteOn) ∧ m1.focus = (q.focus && ad.focusOn) ∧
    m1.alt = (a && ad.enterCA) ∧ (m1.kpApp || m1.ckApp || m1.smooth) = ad.enterKeypad ∧ m1.cv = !ad.hideCursor ∧
    m1.am = !ad.disableAM ∧ (q.title ≠ [] ∧ ad.setTitle = true → cps m1.title = q.title) := by
  intro m1 q
  have hrun : ∀ t s, (execAll ad v a rw payload corner (world0 w h t s) (.resume :: ops)).st =
      (execAll ad v a rw payload corner (world0 w h [] []) (.resume :: ops)).st := by
    intro t s
    suffices H : ∀ (l : List MOp) (w1 w2 : World), w1.st = w2.st →
        (execAll ad v a rw payload corner w1 l).st = (execAll ad v a rw payload corner w2 l).st from H _ _ _ rfl
    intro l
    induction l with
    | nil => intro w1 w2 h; exact h
    | cons op r ih =>
      intro w1 w2 h
      exact ih (execOp ad v a rw payload corner w1 op) (execOp ad v a rw payload corner w2 op) (by simp [execOp, h])
  have hA := resume_reapplies ad v a rw payload corner hp w h (cps ttl) (stk.map cps) ops hwf (by rw [hrun]; exact hsusp)
  simp only at hA
  rw [execAll_r] at hA
  obtain ⟨s1, s2, _⟩ := hist_transport ad v a rw payload corner rc sel hk w h (ops ++ [.resume]) hfr hti t0 hst
    (world0 w h (cps ttl) (stk.map cps)).r (by rw [hm]; rfl) (by rw [hm]; exact J_mr0 sel ttl stk)
  have hE : absOf m1 = eraseP (applyEvs ad (histEvs ad v a rw payload corner w h (ops ++ [.resume]))
      (world0 w h (cps ttl) (stk.map cps)).r) := s2
  have hrA : applyEvs ad (evsOf (mkCf ad rw payload corner a) v (world0 w h (cps ttl) (stk.map cps)).st
      (.resume :: (ops ++ [.resume]))) (world0 w h (cps ttl) (stk.map cps)).r =
      applyEvs ad (histEvs ad v a rw payload corner w h (ops ++ [.resume])) (world0 w h (cps ttl) (stk.map cps)).r := rfl
  rw [hrA] at hA
  generalize applyEvs ad (histEvs ad v a rw payload corner w h (ops ++ [.resume])) (world0 w h (cps ttl) (stk.map cps)).r = rA at hE hA
  obtain ⟨a1, a2, a3, a4, a5, a6, a7, a8, a9, a10, a11⟩ := hA
  exact ⟨s1, (congrArg Regs.m1000 hE).trans a1, (congrArg Regs.m1002 hE).trans a2, (congrArg Regs.m1003 hE).trans a3,
    (congrArg Regs.m1006 hE).trans a4, (congrArg Regs.paste hE).trans a5, (congrArg Regs.focus hE).trans a6,
    (congrArg Regs.alt hE).trans a7, (congrArg Regs.keypad hE).trans a8, (congrArg Regs.cv hE).trans a9,
    (congrArg Regs.am hE).trans a10, fun hq => (congrArg Regs.title hE).trans (a11 hq)⟩

end

/-! ### decidable certificates for the two hypotheses, and non-vacuity on xterm-256color -/

def titlesCert (evs : List Ev) : Bool :=
  evs.all fun e => match e with
    | .put (.setTitle t) => t.all fun b => decide (0x20 ≤ b) && decide (b < 0x7f) && b != 36
    | _ => true

theorem titlesPlain_of_cert (evs : List Ev) (h : titlesCert evs = true) : TitlesPlain evs := by
  intro t ht b hb
  have h1 := List.all_eq_true.mp h _ ht
  have h2 := List.all_eq_true.mp h1 b hb
  simp only [Bool.and_eq_true, decide_eq_true_eq, bne_iff_ne, ne_eq] at h2
  exact ⟨h2.1.1, h2.1.2, h2.2⟩

/-- `FramesOk` for a concrete history by evaluation (`ModesB.framesCert`: the bytes of every command of every frame
    tokenize with the effect Layer A expects) -/
theorem framesOk_of_cert' (ad : AD) (rc : RenderCfg) (sel : Sel) (evs : List Ev) (h : framesCert rc ad evs = true) :
    FramesOk ad rc sel evs := framesOk_of_cert rc ad sel evs h

def xterm256 : Terminfo := (Gen.db.find? (fun e => e.name == "xterm-256color")).getD {}

/-- mouse (buttons + motion), paste, focus, a title, a steady-bar cursor, a bold cell, Show; Suspend; mouse requests
    changed while suspended; Resume; Sync -/
def histB : List MOp :=
  [.enableMouse 5, .enablePaste, .enableFocus, .setTitle [116], .scr (.setCursorStyle 6 0),
   .scr (.showCursor 0 0), .scr (.setContent 0 0 120 [] { attrs := 1 }), .scr .show, .suspend, .disableMouse, .enableMouse 2,
   .resume, .scr .sync]

set_option maxRecDepth 1000000 in
theorem xterm256_known : Known (rcOf xterm256) (adOf xterm256) (selOf (rcOf xterm256)) = true := by decide +kernel
set_option maxRecDepth 100000 in
theorem xterm256_paired : Paired (adOf xterm256) := paired_of_pairedB _ (by decide +kernel)
set_option maxRecDepth 1000000 in
theorem histB_frames : framesCert (rcOf xterm256) (adOf xterm256)
    (histEvs (adOf xterm256) true true rw1 pay1 false 2 1 (histB ++ [.fini])) = true := by decide +kernel
set_option maxRecDepth 1000000 in
theorem histB_titles : titlesCert (histEvs (adOf xterm256) true true rw1 pay1 false 2 1 (histB ++ [.fini])) = true := by
  decide +kernel

/-- the hypotheses of `modes_restored_bytes` are satisfiable on xterm-256color (both named hypotheses discharged by
    evaluation), for EVERY emulator start state with default registers -/
example (t0 : Term) (hst : t0.st = .ground) (ttl : String) (stk : List String) (hm : mr t0 = mr0 ttl stk) :
    let m1 := mr (t0.feed (histBytes (adOf xterm256) true true rw1 pay1 false (rcOf xterm256) 2 1 (histB ++ [.fini])))
    m1.alt = false ∧ m1.cv = true ∧ m1.shape = 0 ∧ m1.kpApp = false ∧ m1.ckApp = false ∧ m1.m1000 = false ∧ m1.m1002 = false ∧
    m1.m1003 = false ∧ m1.m1006 = false ∧ m1.paste = false ∧ m1.focus = false ∧ m1.am = true ∧ m1.tstack = stk := by
  have h := modes_restored_bytes (adOf xterm256) true true rw1 pay1 false (rcOf xterm256) (selOf (rcOf xterm256)) xterm256_known
    xterm256_paired 2 1 histB .fini (Or.inr rfl) (by decide)
    (framesOk_of_cert' _ _ _ _ histB_frames) (titlesPlain_of_cert _ histB_titles) t0 hst ttl stk hm
  exact ⟨h.2.1, h.2.2.1, h.2.2.2.1, h.2.2.2.2.2.2.1, h.2.2.2.2.2.2.2.1, h.2.2.2.2.2.2.2.2.2.1, h.2.2.2.2.2.2.2.2.2.2.1,
    h.2.2.2.2.2.2.2.2.2.2.2.1, h.2.2.2.2.2.2.2.2.2.2.2.2.1, h.2.2.2.2.2.2.2.2.2.2.2.2.2.1, h.2.2.2.2.2.2.2.2.2.2.2.2.2.2.1,
    h.2.2.2.2.2.2.2.2.2.2.2.2.2.2.2.1, h.2.2.2.2.2.2.2.2.2.2.2.2.2.2.2.2.1⟩

/-- the bytes up to and including the first Show / up to and including the Resume, on a concrete 2×1 emulator -/
def tMid : Term := (Term.init { w := 2, h := 1 }).feed (histBytes (adOf xterm256) true true rw1 pay1 false (rcOf xterm256) 2 1 (histB.take 8))
def tRes : Term := (Term.init { w := 2, h := 1 }).feed (histBytes (adOf xterm256) true true rw1 pay1 false (rcOf xterm256) 2 1 (histB.take 12))

set_option maxRecDepth 1000000 in
/-- … and not trivially so: in the middle of that history the modes really are on in the emulator (alternate screen,
    mouse 1000/1003/1006, paste, focus, keypad + cursor keys application, auto-margin off, steady-bar cursor, two titles
    saved); after the Resume the mouse mode requested *while suspended* (drag = 1002) is on, 1000/1003 are not -/
example :
    (mr tMid).alt = true ∧ (mr tMid).m1000 = true ∧ (mr tMid).m1002 = false ∧ (mr tMid).m1003 = true ∧ (mr tMid).m1006 = true ∧
    (mr tMid).paste = true ∧ (mr tMid).focus = true ∧ (mr tMid).kpApp = true ∧ (mr tMid).ckApp = true ∧ (mr tMid).am = false ∧
    (mr tMid).shape = 6 ∧ (mr tMid).tstack.length = 2 ∧ tMid.st = .ground ∧
    (mr tRes).alt = true ∧ (mr tRes).m1000 = false ∧ (mr tRes).m1002 = true ∧ (mr tRes).m1003 = false ∧ (mr tRes).m1006 = true ∧
    (mr tRes).paste = true ∧ (mr tRes).focus = true := by
  decide +kernel

end Tcell.Props.C04
