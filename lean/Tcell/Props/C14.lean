import Tcell.Model.Lookup
import Tcell.Lemmas.Lookup
import Tcell.Spec.TermSyntax
import Tcell.Gen.TerminfoDB
import Tcell.Gen.TerminfoKeys
import Tcell.Gen.LookupMode
import Tcell.Lemmas.PrefixFree
/-!
# C14 — the built-in terminal database is complete and well-formed, lookups are stable

Two layers.

**Database layer** (`db_*`): statements about `Tcell.Gen.db` / `Tcell.Gen.names`, which `harness/cmd/extract` regenerates from
the entries the tree under test really registers; they are decided by kernel evaluation (`decide +kernel`, no
`native_decide`), each in time linear in the database.

**Lookup layer**: `Tcell.Lookup.lookup` mirrors `terminfo.LookupTerminfo` (terminfo.go:693-781) including the in-place
edits of the entry it found.  The property clause "what a lookup returns does not depend on which other names were looked
up earlier" is **false** for the pinned code (`lookup_order_independent_false`, witnesses on the regenerated database);
it is proved in full for the repaired variant `lookupRepaired` (copy before amending, `fixes/C14-lookup-copy.patch`) and,
for the pinned code, on the class of first lookups that do not amend (`lookup_result_independent_partial`).

Hook (C07): the semantic well-formedness of parameterised strings (evaluation with the terminfo(5) interpreter, e.g.
"`Colors ≥ 256` ⇒ `setaf` handles 0..255") belongs to C07's `WellFormed`; `db_param_strings_wellformed` uses the
syntactic `TermSyntax.wellFormed`.  To switch, replace `wf` below by C07's predicate (one line) and re-run the `decide`.
-/
namespace Tcell.Props.C14
open Tcell Tcell.Lookup

/-- well-formedness predicate used for parameterised strings (one-line hook, see header) -/
abbrev wf : Nat → Bytes → Bool := TermSyntax.wellFormed

/-- the registry after the `init` functions of terminfo/base and terminfo/extended ran: every regenerated entry
    registered through the model of `AddTerminfo` -/
def R₀ : Registry := Registry.ofList Gen.db

abbrev nm (s : String) : Name := s.toList

/-! ## Database layer -/

/-- Every registered name/alias (as listed by the `VerifEntries` hook) resolves in the model registry built with the
    model of `AddTerminfo` to an entry of the database carrying the expected `Name`; conversely the model registers
    nothing else.  (Ties `Registry.add` to the real registrations.) -/
theorem db_names_resolve :
    (∀ p ∈ Gen.names, ∃ id, R₀.find (nm p.1) = some id ∧ (R₀.deref id).name = p.2 ∧ ∃ e ∈ Gen.db, e.name = p.2) ∧
    (∀ q ∈ R₀.names, ∃ p ∈ Gen.names, nm p.1 = q.1) := by
  have h1 : (Gen.names.all fun p => match R₀.find (nm p.1) with
      | some id => (R₀.deref id).name == p.2 && Gen.db.any (fun e => e.name == p.2)
      | none => false) = true := by decide +kernel
  have h2 : (R₀.names.all fun q => Gen.names.any fun p => nm p.1 == q.1) = true := by decide +kernel
  constructor
  · intro p hp
    have := List.all_eq_true.mp h1 p hp
    split at this
    · rename_i id hid
      simp only [Bool.and_eq_true, beq_iff_eq, List.any_eq_true] at this
      exact ⟨id, hid, this.1, this.2⟩
    · cases this
  · intro q hq
    have := List.all_eq_true.mp h2 q hq
    simp only [List.any_eq_true, beq_iff_eq] at this
    exact this

/-- Every registered name/alias, looked up with `LookupTerminfo` in the neutral environment from the pristine
    registry, is found and yields the entry carrying the expected `Name`. -/
theorem db_lookup_resolves :
    ∀ p ∈ Gen.names, (resultOf (lookup {} R₀ (nm p.1))).map (·.name) = some p.2 := by
  have h : (Gen.names.all fun p => (resultOf (lookup {} R₀ (nm p.1))).map (·.name) == some p.2) = true := by
    decide +kernel
  intro p hp
  exact beq_iff_eq.mp (List.all_eq_true.mp h p hp)

/-- Every entry has cursor addressing. -/
theorem db_cursor_addressing : ∀ e ∈ Gen.db, e.setCursor ≠ [] := by
  have h : (Gen.db.all fun e => !e.setCursor.isEmpty) = true := by decide +kernel
  intro e he hc
  have := List.all_eq_true.mp h e he
  simp [hc] at this

/-- Every parameterised capability string of every entry is a well-formed terminfo program that only uses
    parameters the library supplies for that capability (`TermSyntax.paramStrings` lists them with their arities). -/
theorem db_param_strings_wellformed :
    ∀ e ∈ Gen.db, ∀ p ∈ TermSyntax.paramStrings e, wf p.1 p.2 = true := by
  have h : (Gen.db.all fun e => (TermSyntax.paramStrings e).all fun p => wf p.1 p.2) = true := by decide +kernel
  intro e he p hp
  exact List.all_eq_true.mp (List.all_eq_true.mp h e he) p hp

/-- the strings `LookupTerminfo` itself writes are well-formed as well -/
theorem synthesized_strings_wellformed :
    wf 3 stdSetFgRGB = true ∧ wf 3 stdSetBgRGB = true ∧ wf 6 stdSetFgBgRGB = true ∧
    wf 1 stdSetFg256 = true ∧ wf 1 stdSetBg256 = true ∧ wf 2 stdSetFgBg256 = true ∧ wf 0 stdResetFgBg = true := by
  decide +kernel

/-- "colour count consistent with colour strings": the count is not negative; a terminal with colours has both
    `SetFg` and `SetBg`; a terminal without colours has no colour string, no RGB string and no `TrueColor` flag;
    the combined `SetFgBg` only comes with the single ones. -/
def colorsConsistent (t : Terminfo) : Bool :=
  decide (0 ≤ t.colors) &&
  (if t.colors > 0 then !t.setFg.isEmpty && !t.setBg.isEmpty
   else t.setFg.isEmpty && t.setBg.isEmpty && t.setFgBg.isEmpty && rgbAllEmpty t && !t.trueColor) &&
  (t.setFgBg.isEmpty || (!t.setFg.isEmpty && !t.setBg.isEmpty))

theorem db_colors_consistent : ∀ e ∈ Gen.db, colorsConsistent e = true := by
  have h : (Gen.db.all colorsConsistent) = true := by decide +kernel
  exact fun e he => List.all_eq_true.mp h e he

example : colorsConsistent { colors := 8, setFg := [1], setBg := [2] } = true := by decide
example : colorsConsistent { colors := 8, setFg := [1] } = false := by decide

/-- the non-empty `Key*` capability strings of an entry -/
def keyStrings (t : Terminfo) : List Bytes := t.keys.all.filter (fun s => !s.isEmpty)

/-- Among the key sequences of an entry none is a proper prefix of another (two capabilities may carry the same
    string).  Stated over the raw `Key*` capability strings; the table `prepareKeys` builds from them (with the
    synthesized modifier variants) is C03's.  Decided with the sorted-adjacent certificate of `Lemmas/PrefixFree`
    (`check_sound` lifts it to all pairs), linear in the number of keys. -/
theorem db_keys_prefix_free :
    ∀ e ∈ Gen.db, ∀ a ∈ keyStrings e, ∀ b ∈ keyStrings e, a ≠ b → ¬ a <+: b := by
  have h : (Gen.db.all fun e => PrefixFree.check (keyStrings e)) = true := by decide +kernel
  intro e he
  exact PrefixFree.check_sound _ (List.all_eq_true.mp h e he)

example : keyStrings { keys := { keyUp := [27, 79, 65], keyF1 := [27, 79, 80] } } = [[27, 79, 80], [27, 79, 65]] := by decide

/-! ## Lookup layer: not found -/

/-- `LookupTerminfo("")` fails (terminfo.go:694-698) and leaves the registry alone. -/
theorem empty_not_found (copy : Bool) (env : Env) (R : Registry) : lookupG copy env R [] = (none, R) := by
  simp [lookupG, lookupF, lookupBody]

/-- A name that is not registered and is not a `-truecolor` / `-256color` variant fails with `ErrTermNotFound`,
    whatever the environment, and the registry is untouched. -/
theorem unknown_not_found (copy : Bool) (env : Env) (R : Registry) (name : Name)
    (h1 : R.find name = none) (h2 : sfxTruecolor.isSuffixOf name = false) (h3 : sfx256color.isSuffixOf name = false) :
    lookupG copy env R name = (none, R) := by
  rw [lookupG_eq]
  simp [lookupBody, searchTC, search256, h1, stripSuffix, h2, h3]

example : R₀.find (nm "nosuchterm") = none ∧ sfxTruecolor.isSuffixOf (nm "nosuchterm") = false ∧
    sfx256color.isSuffixOf (nm "nosuchterm") = false := by decide +kernel

/-- A `-256color` name none of whose `-88color`/`-color` siblings resolves, and a `-truecolor` name none of whose
    `-256color`/`-88color`/`-color`/bare siblings resolves, fail as well. -/
theorem unknown_variant_not_found (copy : Bool) (env : Env) (R : Registry) (base : Name) :
    (R.find (base ++ sfx256color) = none → (∀ s ∈ suf256, (lookupG copy env R (base ++ s)).1 = none) →
      lookupG copy env R (base ++ sfx256color) = (none, R)) ∧
    (R.find (base ++ sfxTruecolor) = none → (∀ s ∈ sufTrue, (lookupG copy env R (base ++ s)).1 = none) →
      lookupG copy env R (base ++ sfxTruecolor) = (none, R)) := by
  have hnone : ∀ (ss : List Name), (∀ s ∈ ss, (lookupG copy env R (base ++ s)).1 = none) →
      firstFound (lookupG copy env) base ss R = (none, R) := by
    intro ss
    induction ss with
    | nil => intro _; rfl
    | cons s ss ih =>
      intro h
      have h1 := h s (List.mem_cons_self ..)
      have h2 := lookupF_none_reg copy env _ R (base ++ s) h1
      simp only [firstFound]
      cases hl : lookupG copy env R (base ++ s) with
      | mk o R' =>
        have e1 : o = none := by rw [hl] at h1; exact h1
        have e2 : R' = R := by
          have : (lookupG copy env R (base ++ s)).2 = R := h2
          rw [hl] at this; exact this
        subst e1; subst e2
        exact ih (fun s' hs' => h s' (List.mem_cons_of_mem _ hs'))
  constructor
  · intro h0 hs
    rw [lookupG_eq]
    have hne : base ++ sfx256color ≠ [] := by simp [sfx256color]
    simp [lookupBody, hne, searchTC, search256, h0, stripSuffix_truecolor_256, stripSuffix_append, hnone suf256 hs]
  · intro h0 hs
    rw [lookupG_eq]
    have hne : base ++ sfxTruecolor ≠ [] := by simp [sfxTruecolor]
    have h256 : stripSuffix sfx256color (base ++ sfxTruecolor) = none := by
      apply stripSuffix_none_of_not_suffix
      simp [List.isSuffixOf, sfxTruecolor, sfx256color, List.isPrefixOf]
    simp [lookupBody, hne, searchTC, search256, h0, h256, stripSuffix_append, hnone sufTrue hs]

example : (∀ s ∈ suf256, (lookupG false {} R₀ (nm "nosuch" ++ s)).1 = none) ∧ R₀.find (nm "nosuch" ++ sfx256color) = none := by
  decide +kernel

/-- A failing lookup never edits the registry (pinned and repaired code alike). -/
theorem not_found_pure (copy : Bool) (env : Env) (R : Registry) (name : Name)
    (h : (lookupG copy env R name).1 = none) : (lookupG copy env R name).2 = R :=
  lookupF_none_reg copy env _ R name h

/-! ## Lookup layer: what a successful lookup returns -/

/-- A registered name: the entry found, amended with the ISO 8613-6 RGB strings exactly when 24-bit colour is
    requested (COLORTERM or the entry's `TrueColor` flag, overridden by TCELL_TRUECOLOR) and it has none. -/
theorem lookup_registered (copy : Bool) (env : Env) (R : Registry) (name : Name) (id : EntryId)
    (hne : name ≠ []) (h : R.find name = some id) :
    lookupG copy env R name =
      (some (finish copy env R (.ptr id) (env.colortermOn || (R.deref id).trueColor) false).1,
       (finish copy env R (.ptr id) (env.colortermOn || (R.deref id).trueColor) false).2) := by
  rw [lookupG_eq]
  simp [lookupBody, hne, searchTC, search256, h]

theorem lookup_registered_value (copy : Bool) (env : Env) (R : Registry) (name : Name) (id : EntryId)
    (hne : name ≠ []) (h : R.find name = some id) :
    resultOf (lookupG copy env R name) =
      some (finishVal env (R.deref id) (env.colortermOn || (R.deref id).trueColor) false) := by
  rw [lookup_registered copy env R name id hne h]
  simp only [resultOf, Option.map_some]
  rw [get_finish]; rfl

/-- Which names resolve, stated independently of the lookup algorithm: a non-empty registered name; an unregistered
    `B-truecolor` one of whose siblings `B-256color`, `B-88color`, `B-color`, `B` resolves; an unregistered `B-256color`
    one of whose siblings `B-88color`, `B-color` resolves.  Nothing else. -/
inductive Resolvable (R : Registry) : Name → Prop
  | registered {n : Name} : n ≠ [] → (R.find n).isSome = true → Resolvable R n
  | truecolor {base s : Name} : R.find (base ++ sfxTruecolor) = none → s ∈ sufTrue → Resolvable R (base ++ s) →
      Resolvable R (base ++ sfxTruecolor)
  | c256 {base s : Name} : R.find (base ++ sfx256color) = none → s ∈ suf256 → Resolvable R (base ++ s) →
      Resolvable R (base ++ sfx256color)

theorem resolvable_of_found (copy : Bool) (env : Env) :
    ∀ (f : Nat) (R : Registry) (n : Name), (lookupF copy env f R n).1.isSome = true → Resolvable R n
  | 0, _, _, h => by simp [lookupF] at h
  | f + 1, R, n, h => by
    simp only [lookupF, lookupBody] at h
    by_cases hn : n = []
    · simp [hn] at h
    · simp only [hn, if_false] at h
      cases hf : R.find n with
      | some id => exact .registered hn (by simp [hf])
      | none =>
        cases hs : stripSuffix sfxTruecolor n with
        | some base =>
          have hnb := stripSuffix_some hs
          cases hff : firstFound (lookupF copy env f) base sufTrue R with
          | mk o R' =>
            cases o with
            | some r =>
              obtain ⟨s, hs', hl⟩ := firstFound_some (lookupF_none_reg copy env f) base _ _ _ _ hff
              have := resolvable_of_found copy env f R (base ++ s) (by rw [hl]; rfl)
              subst hnb
              exact .truecolor hf hs' this
            | none =>
              have h256 : stripSuffix sfx256color n = none := by rw [hnb]; exact stripSuffix_256_truecolor base
              simp [searchTC, hf, hs, hff, search256, h256] at h
        | none =>
          cases hs2 : stripSuffix sfx256color n with
          | some base =>
            have hnb := stripSuffix_some hs2
            cases hff : firstFound (lookupF copy env f) base suf256 R with
            | mk o R' =>
              cases o with
              | some r =>
                obtain ⟨s, hs', hl⟩ := firstFound_some (lookupF_none_reg copy env f) base _ _ _ _ hff
                have := resolvable_of_found copy env f R (base ++ s) (by rw [hl]; rfl)
                subst hnb
                exact .c256 hf hs' this
              | none => simp [searchTC, hf, hs, hff, search256, hs2] at h
          | none => simp [searchTC, hf, hs, search256, hs2] at h

theorem found_of_resolvable (copy : Bool) (env : Env) (R : Registry) (n : Name) (h : Resolvable R n) :
    (lookupG copy env R n).1.isSome = true := by
  induction h with
  | @registered n hn hf =>
    cases hid : R.find n with
    | none => simp [hid] at hf
    | some id => rw [lookup_registered copy env R n id hn hid]; rfl
  | @truecolor base s h0 hs _ ih =>
    have hne : base ++ sfxTruecolor ≠ [] := by simp [sfxTruecolor]
    have hff := firstFound_isSome_of_exists (look := lookupG copy env)
      (fun R n => lookupF_none_reg copy env _ R n) base sufTrue R ⟨s, hs, ih⟩
    rw [lookupG_eq]
    cases hfv : firstFound (lookupG copy env) base sufTrue R with
    | mk o R' =>
      rw [hfv] at hff
      cases o with
      | none => cases hff
      | some r => simp [lookupBody, hne, searchTC, h0, stripSuffix_append, hfv, search256]
  | @c256 base s h0 hs _ ih =>
    have hne : base ++ sfx256color ≠ [] := by simp [sfx256color]
    have hff := firstFound_isSome_of_exists (look := lookupG copy env)
      (fun R n => lookupF_none_reg copy env _ R n) base suf256 R ⟨s, hs, ih⟩
    rw [lookupG_eq]
    cases hfv : firstFound (lookupG copy env) base suf256 R with
    | mk o R' =>
      rw [hfv] at hff
      cases o with
      | none => cases hff
      | some r => simp [lookupBody, hne, searchTC, h0, stripSuffix_truecolor_256, stripSuffix_append, hfv, search256]

/-- **unknown_not_found, full strength**: in every registry and environment, for the pinned and the repaired code, a
    lookup succeeds exactly for the resolvable names; every other name (in particular `""`) yields `ErrTermNotFound`. -/
theorem found_iff_resolvable (copy : Bool) (env : Env) (R : Registry) (n : Name) :
    (lookupG copy env R n).1.isSome = true ↔ Resolvable R n :=
  ⟨resolvable_of_found copy env _ R n, found_of_resolvable copy env R n⟩

example : Resolvable R₀ (nm "eterm-256color") :=
  .c256 (base := nm "eterm") (s := sfxColor) (by decide +kernel) (by decide) (.registered (by decide) (by decide +kernel))

/-! ### the COLORTERM / TCELL_TRUECOLOR table -/

theorem colortermOn_iff (env : Env) :
    env.colortermOn = true ↔ env.colorterm = "truecolor" ∨ env.colorterm = "24bit" ∨ env.colorterm = "24-bit" := by
  simp [Env.colortermOn, or_assoc]

theorem finalTC_table (env : Env) (x : Bool) :
    (env.tcellTruecolor = "" → env.finalTC x = x) ∧
    (env.tcellTruecolor = "disable" → env.finalTC x = false) ∧
    (env.tcellTruecolor ≠ "" → env.tcellTruecolor ≠ "disable" → env.finalTC x = true) := by
  refine ⟨?_, ?_, ?_⟩
  · intro h; simp [Env.finalTC, Env.override, h]
  · intro h; simp [Env.finalTC, Env.override, h]
  · intro h1 h2; simp [Env.finalTC, Env.override, h1, h2]

/-- **env_truecolor**: for a registered name, with `t` the registered entry and `v` the value the lookup returns:
    * `TCELL_TRUECOLOR=disable`: `v = t` (direct colour is never added);
    * `TCELL_TRUECOLOR` set to anything else: the RGB strings are supplied if `t` has none;
    * `TCELL_TRUECOLOR` unset: they are supplied iff `COLORTERM ∈ {truecolor, 24bit, 24-bit}` or `t.TrueColor`, and `t` has none. -/
theorem env_truecolor (copy : Bool) (env : Env) (R : Registry) (name : Name) (id : EntryId)
    (hne : name ≠ []) (h : R.find name = some id) :
    (env.tcellTruecolor = "disable" → resultOf (lookupG copy env R name) = some (R.deref id)) ∧
    (env.tcellTruecolor ≠ "" → env.tcellTruecolor ≠ "disable" →
      resultOf (lookupG copy env R name) =
        some (if rgbAllEmpty (R.deref id) then addRGB (R.deref id) else R.deref id)) ∧
    (env.tcellTruecolor = "" →
      resultOf (lookupG copy env R name) =
        some (if (env.colortermOn || (R.deref id).trueColor) && rgbAllEmpty (R.deref id)
              then addRGB (R.deref id) else R.deref id)) := by
  rw [lookup_registered_value copy env R name id hne h]
  have T := finalTC_table env (env.colortermOn || (R.deref id).trueColor)
  refine ⟨fun h1 => ?_, fun h1 h2 => ?_, fun h1 => ?_⟩
  · simp [finishVal, T.2.1 h1]
  · simp [finishVal, T.2.2 h1 h2]
  · simp [finishVal, T.1 h1]

/-- the hypotheses of `env_truecolor` / `lookup_registered` hold on the real database -/
example : nm "xterm-kitty" ≠ [] ∧ (R₀.find (nm "xterm-kitty")).isSome = true := by decide +kernel

example : ({ colorterm := "24bit" } : Env).colortermOn = true ∧ ({ colorterm := "yes" } : Env).colortermOn = false ∧
    ({ tcellTruecolor := "disable" } : Env).finalTC true = false ∧ ({ tcellTruecolor := "1" } : Env).finalTC false = true := by
  decide

/-! ### synthesis -/

theorem rgbAllEmpty_addRGB (t : Terminfo) : rgbAllEmpty (addRGB t) = false := rfl

theorem finalTC_mono (env : Env) (a b : Bool) (h : a = true → b = true) : env.finalTC a = true → env.finalTC b = true := by
  unfold Env.finalTC
  cases env.override <;> simp <;> exact h

/-- **synth_256**: `NAME-256color` is not registered but `NAME-88color` is (or it is not and `NAME-color` is): the lookup
    succeeds and returns that sibling's entry — amended for direct colour exactly as a lookup of the sibling itself
    would be — with `Colors = 256` and exactly the standard xterm 256-colour `SetFg`, `SetBg`, `SetFgBg`, `ResetFgBg`. -/
theorem synth_256 (copy : Bool) (env : Env) (R : Registry) (base : Name) (id : EntryId)
    (h0 : R.find (base ++ sfx256color) = none)
    (hs : R.find (base ++ sfx88color) = some id ∨
          (R.find (base ++ sfx88color) = none ∧ R.find (base ++ sfxColor) = some id)) :
    resultOf (lookupG copy env R (base ++ sfx256color)) =
      some (set256 (finishVal env (R.deref id) (env.colortermOn || (R.deref id).trueColor) false)) := by
  have hne : base ++ sfx256color ≠ [] := by simp [sfx256color]
  have hne88 : base ++ sfx88color ≠ [] := by simp [sfx88color]
  have hneC : base ++ sfxColor ≠ [] := by simp [sfxColor]
  -- the first sibling that resolves
  have hff : firstFound (lookupG copy env) base suf256 R =
      (some (finish copy env R (.ptr id) (env.colortermOn || (R.deref id).trueColor) false).1,
       (finish copy env R (.ptr id) (env.colortermOn || (R.deref id).trueColor) false).2) := by
    rcases hs with h88 | ⟨h88, hC⟩
    · simp [suf256, firstFound, lookup_registered copy env R _ id hne88 h88]
    · have hnf : lookupG copy env R (base ++ sfx88color) = (none, R) := by
        apply unknown_not_found copy env R _ h88
        · simp [List.isSuffixOf, sfxTruecolor, sfx88color, List.isPrefixOf]
        · simp [List.isSuffixOf, sfx256color, sfx88color, List.isPrefixOf]
      simp [suf256, firstFound, hnf, lookup_registered copy env R _ id hneC hC]
  rw [lookupG_eq]
  simp only [lookupBody, hne, if_false, searchTC, h0, stripSuffix_truecolor_256, search256, stripSuffix_append, hff,
    resultOf, Option.map_some]
  rw [get_finish, get_finish]
  -- the outer direct-colour step is a no-op after the inner one
  simp only [Registry.get]
  generalize R.deref id = t
  unfold finishVal
  simp only [Bool.false_eq_true, if_false, if_true]
  by_cases hin : (env.finalTC (env.colortermOn || t.trueColor) && rgbAllEmpty t) = true
  · simp only [hin, if_true, rgbAllEmpty_addRGB, Bool.and_false, Bool.false_eq_true, if_false]
  · have hout : (env.finalTC env.colortermOn && rgbAllEmpty t) = false := by
      cases hr : rgbAllEmpty t
      · simp
      · simp only [hr, Bool.and_true] at hin ⊢
        cases hc : env.finalTC env.colortermOn
        · rfl
        · exact absurd (finalTC_mono env _ _ (by intro h; simp [h]) hc) hin
    simp only [hin, hout, Bool.false_eq_true, if_false]

/-- consequences of `synth_256` in the words of the property: 256 colours and exactly the standard sequences -/
theorem synth_256_standard (copy : Bool) (env : Env) (R : Registry) (base : Name) (id : EntryId)
    (h0 : R.find (base ++ sfx256color) = none)
    (hs : R.find (base ++ sfx88color) = some id ∨
          (R.find (base ++ sfx88color) = none ∧ R.find (base ++ sfxColor) = some id)) :
    ∃ t, resultOf (lookupG copy env R (base ++ sfx256color)) = some t ∧ t.colors = 256 ∧
      t.setFg = stdSetFg256 ∧ t.setBg = stdSetBg256 ∧ t.setFgBg = stdSetFgBg256 ∧ t.resetFgBg = stdResetFgBg ∧
      t.name = (R.deref id).name ∧ t.setCursor = (R.deref id).setCursor ∧ t.keys = (R.deref id).keys := by
  refine ⟨_, synth_256 copy env R base id h0 hs, rfl, rfl, rfl, rfl, rfl, ?_, ?_, ?_⟩ <;>
  · unfold finishVal; simp only [Bool.false_eq_true, if_false]; split <;> rfl

/-- the hypotheses of `synth_256` hold on the real database: `eterm-256color` (from `eterm-color`) -/
example : R₀.find (nm "eterm" ++ sfx256color) = none ∧ R₀.find (nm "eterm" ++ sfx88color) = none ∧
    (R₀.find (nm "eterm" ++ sfxColor)).isSome = true := by decide +kernel

/-- **synth_truecolor**: `NAME-truecolor` is not registered and `r` is what the first resolving sibling among
    `NAME-256color`, `NAME-88color`, `NAME-color`, `NAME` returned: the lookup returns that entry with direct colour
    requested, i.e. unless `TCELL_TRUECOLOR=disable` it has RGB strings — the ISO 8613-6 ones if it had none. -/
theorem synth_truecolor (copy : Bool) (env : Env) (R R' : Registry) (base : Name) (r : Res)
    (h0 : R.find (base ++ sfxTruecolor) = none)
    (hff : firstFound (lookupG copy env) base sufTrue R = (some r, R')) :
    resultOf (lookupG copy env R (base ++ sfxTruecolor)) = some (finishVal env (R'.get r) true false) ∧
    (env.tcellTruecolor ≠ "disable" → rgbAllEmpty (R'.get r) = true →
      resultOf (lookupG copy env R (base ++ sfxTruecolor)) = some (addRGB (R'.get r))) ∧
    (env.tcellTruecolor ≠ "disable" →
      ∃ t, resultOf (lookupG copy env R (base ++ sfxTruecolor)) = some t ∧ rgbAllEmpty t = false) := by
  have hne : base ++ sfxTruecolor ≠ [] := by simp [sfxTruecolor]
  have hval : resultOf (lookupG copy env R (base ++ sfxTruecolor)) = some (finishVal env (R'.get r) true false) := by
    rw [lookupG_eq]
    simp only [lookupBody, hne, if_false, searchTC, h0, stripSuffix_append, hff, search256, resultOf, Option.map_some]
    rw [get_finish]
  have hfin : env.tcellTruecolor ≠ "disable" → env.finalTC true = true := by
    intro h
    by_cases he : env.tcellTruecolor = ""
    · simp [(finalTC_table env true).1 he]
    · exact (finalTC_table env true).2.2 he h
  refine ⟨hval, fun hd he => ?_, fun hd => ?_⟩
  · rw [hval]; simp [finishVal, hfin hd, he]
  · refine ⟨_, hval, ?_⟩
    simp only [finishVal, hfin hd, Bool.true_and, Bool.false_eq_true, if_false]
    cases he : rgbAllEmpty (R'.get r)
    · simp [he]
    · simp only [if_true, rgbAllEmpty_addRGB]

/-- the hypotheses of `synth_truecolor` hold on the real database: `screen-truecolor` (from `screen-256color`) -/
example : R₀.find (nm "screen" ++ sfxTruecolor) = none ∧
    (firstFound (lookupG false {}) (nm "screen") sufTrue R₀).1.isSome = true := by decide +kernel

/-- on the real database, neutral environment: for every registered NAME, `NAME-256color` (when a `-88color`/`-color`
    sibling exists) has 256 colours and the standard sequences, and `NAME-truecolor` resolves with RGB strings -/
theorem db_synthesis :
    (∀ p ∈ Gen.names, ∀ s ∈ suf256, ∀ base, stripSuffix s (nm p.1) = some base →
      R₀.find (base ++ sfx256color) = none →
      (resultOf (lookup {} R₀ (base ++ sfx256color))).map (fun t => (t.colors, t.setFg, t.setBg, t.setFgBg, t.resetFgBg))
        = some (256, stdSetFg256, stdSetBg256, stdSetFgBg256, stdResetFgBg)) ∧
    (∀ p ∈ Gen.names, (resultOf (lookup {} R₀ (nm p.1 ++ sfxTruecolor))).map rgbAllEmpty = some false) := by
  have h1 : (Gen.names.all fun p => suf256.all fun s => match stripSuffix s (nm p.1) with
      | none => true
      | some base => (R₀.find (base ++ sfx256color)).isSome ||
          (resultOf (lookup {} R₀ (base ++ sfx256color))).map (fun t => (t.colors, t.setFg, t.setBg, t.setFgBg, t.resetFgBg))
            == some (256, stdSetFg256, stdSetBg256, stdSetFgBg256, stdResetFgBg)) = true := by decide +kernel
  have h2 : (Gen.names.all fun p =>
      (resultOf (lookup {} R₀ (nm p.1 ++ sfxTruecolor))).map rgbAllEmpty == some false) = true := by decide +kernel
  constructor
  · intro p hp s hs base hb hnf
    have := List.all_eq_true.mp (List.all_eq_true.mp h1 p hp) s hs
    rw [hb] at this
    simp only [hnf, Option.isSome_none, Bool.false_or, beq_iff_eq] at this
    exact this
  · intro p hp
    exact beq_iff_eq.mp (List.all_eq_true.mp h2 p hp)

/-! ## Lookup layer: stability -/

/-- **lookup_pure (repaired code)**: a lookup does not change the registry. -/
theorem lookup_pure (env : Env) (R : Registry) (n : Name) : (lookupRepaired env R n).2 = R :=
  lookupF_true_reg env _ R n

/-- **lookup_order_independent (repaired code)**: for all names `a b`, all registries and all environments (even a
    different one for each lookup), looking up `b` gives the same result whether or not `a` was looked up first. -/
theorem lookup_order_independent (envA envB : Env) (R : Registry) (a b : Name) :
    lookupRepaired envB (lookupRepaired envA R a).2 b = lookupRepaired envB R b := by
  rw [lookup_pure]

/-- Conditional form (true on any tree): `Gen.lookupCopies` is what the translator's probe found; the driver ties
    `lookupG Gen.lookupCopies` to the real code.  If the tree copies before amending, its model is order independent. -/
theorem tree_lookup_order_independent (h : Gen.lookupCopies = true) (envA envB : Env) (R : Registry) (a b : Name) :
    lookupG Gen.lookupCopies envB (lookupG Gen.lookupCopies envA R a).2 b = lookupG Gen.lookupCopies envB R b := by
  rw [h]; exact lookup_order_independent envA envB R a b

/-- the variant in force: the tree under test copies before amending (/repo 56dac96 "LookupTerminfo amends a copy, not the
    registered entry").  On a tree that still amends in place this declaration fails to check and the `lookup` engine's
    oracle reports the order dependence with a concrete history (class `lookup-order-dependent`). -/
theorem tree_lookup_copies : Gen.lookupCopies = true := by decide

/-- the model of the tree under test: `LookupTerminfo` as the current source implements it -/
abbrev lookupTree (env : Env) (R : Registry) (n : Name) : Option Res × Registry := lookupG Gen.lookupCopies env R n

/-- **lookup_pure_tree** (headline, current tree): a lookup does not change the registry — any environment, registry, name. -/
theorem lookup_pure_tree (env : Env) (R : Registry) (n : Name) : (lookupTree env R n).2 = R := by
  show (lookupG Gen.lookupCopies env R n).2 = R
  rw [tree_lookup_copies]; exact lookup_pure env R n

/-- **lookup_order_independent_tree** (headline, current tree, full strength): for all names `a b`, all registries and all
    environments (even a different one for each lookup), looking up `b` gives the same result — returned entry AND registry
    left behind — whether or not `a` was looked up first.  No restriction on `a` (synthesizing `-256color` / `-truecolor`
    lookups and RGB amendment included: exactly the cases `lookup_order_dependent_*` refute for the pinned code). -/
theorem lookup_order_independent_tree (envA envB : Env) (R : Registry) (a b : Name) :
    lookupTree envB (lookupTree envA R a).2 b = lookupTree envB R b :=
  tree_lookup_order_independent tree_lookup_copies envA envB R a b

/-- **history_independent_tree**: every lookup of a history of any length returns what it returns in the initial registry,
    and the registry at the end is the initial one. -/
theorem history_independent_tree (env : Env) (R : Registry) (ns : List Name) :
    runHistory (lookupTree env) R ns = (ns.map fun n => resultOf (lookupTree env R n), R) := by
  induction ns with
  | nil => rfl
  | cons n ns ih => simp only [runHistory, lookup_pure_tree, ih, List.map_cons]

/-- non-vacuity on the real database, for the tree's own model: the three histories that were order dependent on the pinned
    code now agree, and the lookups still synthesize / amend (256 colours, RGB strings present) -/
example :
    (resultOf (lookupTree {} (lookupTree {} R₀ (nm "eterm-256color")).2 (nm "eterm-color"))).map (·.colors) = some 8 ∧
    (resultOf (lookupTree {} R₀ (nm "eterm-256color"))).map (·.colors) = some 256 ∧
    (resultOf (lookupTree {} (lookupTree {} R₀ (nm "screen-truecolor")).2 (nm "screen-256color"))).map rgbAllEmpty = some true ∧
    (resultOf (lookupTree {} R₀ (nm "screen-truecolor"))).map rgbAllEmpty = some false ∧
    (resultOf (lookupTree {} (lookupTree { colorterm := "truecolor" } R₀ (nm "xterm")).2 (nm "xterm"))).map rgbAllEmpty = some true := by
  decide +kernel

/-- … and for histories of any length: every lookup of a history returns what it returns in the initial registry,
    and the registry at the end is the initial one. -/
theorem history_independent (env : Env) (R : Registry) (ns : List Name) :
    runHistory (lookupRepaired env) R ns = (ns.map fun n => resultOf (lookupRepaired env R n), R) := by
  induction ns with
  | nil => rfl
  | cons n ns ih => simp only [runHistory, lookup_pure, ih, List.map_cons]

example : resultOf (lookupRepaired {} (lookupRepaired {} R₀ (nm "eterm-256color")).2 (nm "eterm-color"))
    = resultOf (lookupRepaired {} R₀ (nm "eterm-color")) := by rw [lookup_pure]

/-- the repaired code still synthesizes: the statement above is not vacuous -/
example : (resultOf (lookupRepaired {} R₀ (nm "eterm-256color"))).map (·.colors) = some 256 ∧
    (resultOf (lookupRepaired {} R₀ (nm "eterm-color"))).map (·.colors) = some 8 := by decide +kernel

/-- **The repair keeps the behaviour of every single lookup**: in any registry and environment the pinned code and the
    repaired code return the same entry value for the same name (they differ only in what they leave behind). -/
theorem repair_preserves_lookup_value (env : Env) (R : Registry) (n : Name) :
    resultOf (lookup env R n) = resultOf (lookupRepaired env R n) :=
  lookupF_agree env _ R n

/-- No lookup — pinned or repaired — registers or unregisters a name: the pinned code only edits entry contents. -/
theorem lookup_names_unchanged (copy : Bool) (env : Env) (R : Registry) (n : Name) :
    (lookupG copy env R n).2.names = R.names :=
  lookupF_names copy env _ R n

theorem resolvable_congr {R R' : Registry} (h : R'.names = R.names) {n : Name} (hr : Resolvable R n) : Resolvable R' n := by
  have hf : ∀ m, R'.find m = R.find m := fun m => by simp [Registry.find, h]
  induction hr with
  | @registered n hn hs => exact .registered hn (by rw [hf]; exact hs)
  | @truecolor base s h0 hs _ ih => exact .truecolor (by rw [hf]; exact h0) hs ih
  | @c256 base s h0 hs _ ih => exact .c256 (by rw [hf]; exact h0) hs ih

/-- **found_order_independent (pinned code too)**: whether a lookup succeeds or fails with `ErrTermNotFound` never depends on
    earlier lookups or on the environment — only the *contents* of the returned entry can (see the witnesses below). -/
theorem found_order_independent (copy : Bool) (envA envB envC : Env) (R : Registry) (a b : Name) :
    (lookupG copy envB (lookupG copy envA R a).2 b).1.isSome = (lookupG copy envC R b).1.isSome := by
  have hn := lookup_names_unchanged copy envA R a
  apply Bool.eq_iff_iff.mpr
  rw [found_iff_resolvable, found_iff_resolvable]
  exact ⟨resolvable_congr hn.symm, resolvable_congr hn⟩

/-- **Pinned code, witness 1** (probe of the design round): looking up `eterm-256color` turns the registered
    `eterm-color` entry into a 256-colour entry — a later lookup of `eterm-color` returns 256 colours instead of 8. -/
theorem lookup_order_dependent_eterm :
    (resultOf (lookup {} R₀ (nm "eterm-color"))).map (·.colors) = some 8 ∧
    (resultOf (lookup {} (lookup {} R₀ (nm "eterm-256color")).2 (nm "eterm-color"))).map (·.colors) = some 256 := by
  decide +kernel

/-- **Pinned code, witness 2**: `screen-truecolor` leaves RGB strings in the registered `screen-256color`. -/
theorem lookup_order_dependent_screen :
    (resultOf (lookup {} R₀ (nm "screen-256color"))).map rgbAllEmpty = some true ∧
    (resultOf (lookup {} (lookup {} R₀ (nm "screen-truecolor")).2 (nm "screen-256color"))).map rgbAllEmpty = some false := by
  decide +kernel

/-- **Pinned code, witness 3**: with `COLORTERM=truecolor` a plain lookup permanently adds RGB strings to the registered
    entry: after the variable is unset the entry still has them. -/
theorem lookup_env_leaks_xterm :
    (resultOf (lookup {} R₀ (nm "xterm"))).map rgbAllEmpty = some true ∧
    (resultOf (lookup {} (lookup { colorterm := "truecolor" } R₀ (nm "xterm")).2 (nm "xterm"))).map rgbAllEmpty = some false := by
  decide +kernel

/-- `lookup_pure` and `lookup_order_independent` are **false** for the pinned code. -/
theorem lookup_order_independent_false :
    ¬ (∀ (env : Env) (R : Registry) (a b : Name), resultOf (lookup env (lookup env R a).2 b) = resultOf (lookup env R b)) ∧
    ¬ (∀ (env : Env) (R : Registry) (n : Name), (lookup env R n).2 = R) := by
  have w := lookup_order_dependent_eterm
  constructor
  · intro h
    have := congrArg (Option.map (·.colors)) (h {} R₀ (nm "eterm-256color") (nm "eterm-color"))
    rw [w.1, w.2] at this
    cases this
  · intro h
    have := w.2
    rw [h, w.1] at this
    cases this

/-- **pinned code only** (`lookup` = `lookupG false`, the model of the tree before 56dac96; NOT the variant in force — for the
    current tree see `lookup_order_independent_tree`, which has no hypothesis on `a`): the clause holds for every second
    lookup `b` when the first lookup `a` either fails, or is a direct hit that needs no amendment (24-bit colour not requested,
    or the entry already has an RGB string).  For first lookups that synthesize (`-256color`, `-truecolor` variants) or add RGB
    strings the statement is false for the pinned code, see the witnesses above.  Kept as the exact extent of the former
    defect (renamed from `lookup_result_independent_partial`: it is no longer a weakening of the headline claim). -/
theorem pinned_lookup_result_independent (envA envB : Env) (R : Registry) (a b : Name)
    (h : (lookup envA R a).1 = none ∨
         ∃ id, a ≠ [] ∧ R.find a = some id ∧
           (envA.finalTC (envA.colortermOn || (R.deref id).trueColor) = false ∨ rgbAllEmpty (R.deref id) = false)) :
    lookup envB (lookup envA R a).2 b = lookup envB R b := by
  have : (lookup envA R a).2 = R := by
    rcases h with h | ⟨id, hne, hf, hc⟩
    · exact not_found_pure false envA R a h
    · show (lookupG false envA R a).2 = R
      rw [lookup_registered false envA R a id hne hf]
      rcases hc with hc | hc <;> simp [finish, hc, Registry.get]
  rw [this]

/-- the hypotheses are satisfiable on the real database: `xterm` in the neutral environment is such a first lookup -/
example : ∃ id, nm "xterm" ≠ [] ∧ R₀.find (nm "xterm") = some id ∧
    (({} : Env).finalTC (({} : Env).colortermOn || (R₀.deref id).trueColor) = false ∨ rgbAllEmpty (R₀.deref id) = false) :=
  ⟨(R₀.find (nm "xterm")).getD 0, by decide +kernel, by decide +kernel, Or.inl (by decide +kernel)⟩

end Tcell.Props.C14
