import Tcell.Model.Lookup
import Tcell.Spec.TermSyntax
import Tcell.Gen.TerminfoDB
namespace Tcell.Props.C14
open Tcell Tcell.Lookup

theorem empty_not_found (copy : Bool) (env : Env) (R : Registry) : lookupG copy env R [] = (none, R) := by
  simp [lookupG, lookupF, lookupBody]

end Tcell.Props.C14
