/-
Audit helper: lists every theorem in a given namespace together with the axioms it depends on
(`Lean.collectAxioms`, the same computation `#print axioms` does), one JSON object per line.
The check script generates a two-line file importing the property module and calling `auditNamespace`.
-/
import Lean
open Lean Elab Command

namespace Tcell.Audit

def jsonStr (s : String) : String := "\"" ++ s ++ "\""

elab "#audit_namespace " ns:ident : command => do
  let env ← getEnv
  let pfx := ns.getId
  let mut names : Array Name := #[]
  for (n, ci) in env.constants.toList do
    if pfx.isPrefixOf n && !n.isInternal then
      match ci with
      | .thmInfo _ => names := names.push n
      | _ => pure ()
  let sorted := names.qsort (fun a b => a.toString < b.toString)
  for n in sorted do
    let axs ← liftCoreM (collectAxioms n)
    let axs := axs.qsort (fun a b => a.toString < b.toString)
    let l := ", ".intercalate (axs.toList.map (fun a => jsonStr a.toString))
    IO.println s!"AUDIT \{\"theorem\": {jsonStr n.toString}, \"axioms\": [{l}]}"

end Tcell.Audit
