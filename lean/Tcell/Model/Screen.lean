/-
Screen-level operation language for the terminfo screen's draw path (the histories C01/C13/C09 quantify
over): the Screen API calls of screen.go / tscreen.go that touch the cell buffer, the style, the cursor
and the lock regions, Show and Sync, and the environment's moves (window resize with or without
notification, external corruption of the display).  Core-only, executable.
-/
import Tcell.Model.Draw
import Tcell.Model.LockRegion
namespace Tcell

inductive ScrOp where
  | setContent (x y : Int) (mainc : Rune) (combc : List Rune) (st : Style)   -- screen.go:404 (SetCell goes through it)
  | fill (r : Rune) (st : Style)                                             -- screen.go:397 (Clear = Fill ' ' StyleDefault)
  | setStyle (st : Style)                                                    -- tscreen.go:687
  | showCursor (x y : Int)                                                   -- tscreen.go:951 (HideCursor = ShowCursor(-1,-1))
  | setCursorStyle (cs cc : Nat)                                             -- tscreen.go:958
  | lockRegion (x y w h : Int) (lock : Bool)                                 -- screen.go:424
  | «show»                                                                   -- tscreen.go:1018
  | sync                                                                     -- tscreen.go:1900
  | ttyResizeQuiet (w h : Int)     -- the window changes size, no notification reaches the library
  | ttyResizeNotify (w h : Int)    -- the window changes size and mainLoop's resize branch runs (tscreen.go:1823)
  | corrupt                        -- something else wrote to the terminal
deriving Repr

/-- the screen together with the size its tty currently reports -/
structure ScrW where
  s : Scr := {}
  ttyw : Int := 0
  ttyh : Int := 0

/-- effect of an op on the library side, with the commands it sends to the terminal -/
def ScrW.step (c : DrawCfg) (wd : ScrW) : ScrOp → ScrW × List Cmd
  | .setContent x y m comb st => ({ wd with s := { wd.s with cells := wd.s.cells.setContent c.rw x y m comb st } }, [])
  | .fill r st => ({ wd with s := { wd.s with cells := wd.s.cells.fillV c.fillZW c.rw r st } }, [])
  | .setStyle st => ({ wd with s := if wd.s.fini then wd.s else { wd.s with style := st } }, [])
  | .showCursor x y => ({ wd with s := { wd.s with cursorx := x, cursory := y } }, [])
  | .setCursorStyle cs cc => ({ wd with s := { wd.s with cursorStyle := cs, cursorColor := cc } }, [])
  | .lockRegion x y w h lock =>
    ({ wd with s := { wd.s with cells := if c.guardLocked then lockRowsG wd.s.cells x y w lock h.toNat
                                         else lockRows wd.s.cells x y w lock h.toNat } }, [])
  | .show => let r := wd.s.show c (some (wd.ttyw, wd.ttyh)); ({ wd with s := r.1 }, r.2)
  | .sync => let r := wd.s.sync c (some (wd.ttyw, wd.ttyh)); ({ wd with s := r.1 }, r.2)
  | .ttyResizeQuiet w h => ({ wd with ttyw := w, ttyh := h }, [])
  | .ttyResizeNotify w h =>
    let r := wd.s.onResize c (some (w, h)); ({ s := r.1, ttyw := w, ttyh := h }, r.2)
  | .corrupt => (wd, [])

/-- state right after Init on a tty of size w×h (tscreen.go:231-242): empty buffer of that size, everything dirty -/
def ScrW.init (w h : Int) : ScrW :=
  { s := { w := w, h := h, cells := (Buf.empty.resize w h), style := {}, cx := -1, cy := -1, cursorx := -1, cursory := -1 },
    ttyw := w, ttyh := h }

end Tcell
