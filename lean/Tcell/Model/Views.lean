/-
Model of views/view.go (ViewPort) and of the layout arithmetic of views/boxlayout.go (hLayout/vLayout).
Core-only, executable, no proofs.

Representation choices: Go `int` is `Int` (unbounded; the harness stays far inside int64), runes are `Int`,
a style is an opaque `Nat` tag (ViewPort never looks at it).  The parent `View` of a ViewPort is not part of
the record: methods that talk to the parent return the list of calls forwarded to it (`PCall`), and `Resize`
takes the parent's `Size()` as an argument.  `hasView` is `v.v != nil`.

The share computation of BoxLayout is generic in the number type `F` (class `LayoutNum`): exactly the
operations boxlayout.go applies to `float64` (conversion from int, `+ * / -`, truncation `int(·)`,
`>`/`==` comparisons).  Instances: `Float` (IEEE binary64, used by the driver for bit-exact correspondence
with Go) and `Rat` (exact arithmetic, used by the theorems in Tcell.Props.C20).
-/
namespace Tcell.Views

/-! ## ViewPort (view.go:53-297) -/

/-- a call a ViewPort forwards to its parent View -/
structure PCall where
  x : Int
  y : Int
  ch : Int
  comb : List Int
  style : Nat
deriving DecidableEq, Repr, Inhabited

/-- view.go:53-64 -/
structure ViewPort where
  physx : Int := 0
  physy : Int := 0
  viewx : Int := 0
  viewy : Int := 0
  limx : Int := 0
  limy : Int := 0
  width : Int := 0
  height : Int := 0
  locked : Bool := false
  hasView : Bool := true
deriving DecidableEq, Repr, Inhabited

namespace ViewPort

/-- view.go:108-113: auto-grow of the content limits (note: the limit becomes `x`, not `x+1`) -/
def grow (v : ViewPort) (x y : Int) : ViewPort :=
  let v1 := if x > v.limx ∧ !v.locked then { v with limx := x } else v
  if y > v1.limy ∧ !v1.locked then { v1 with limy := y } else v1

/-- view.go:114-122: the clip test of SetContent (true = the cell is inside the visible window) -/
def visible (v : ViewPort) (x y : Int) : Bool :=
  !(x < v.viewx || y < v.viewy) && !(x ≥ v.viewx + v.width) && !(y ≥ v.viewy + v.height)

/-- view.go:123: the translated call -/
def translate (v : ViewPort) (x y ch : Int) (comb : List Int) (s : Nat) : PCall :=
  { x := x - v.viewx + v.physx, y := y - v.viewy + v.physy, ch := ch, comb := comb, style := s }

/-- view.go:104-124 SetContent: new state and the calls forwarded to the parent -/
def setContent (v : ViewPort) (x y ch : Int) (comb : List Int) (s : Nat) : ViewPort × List PCall :=
  if !v.hasView then (v, [])
  else
    let v' := v.grow x y
    if v'.visible x y then (v', [v'.translate x y ch comb s]) else (v', [])

/-- view.go:73-81 Fill: one parent SetContent per cell of the window, row-major -/
def fill (v : ViewPort) (ch : Int) (s : Nat) : List PCall :=
  if !v.hasView then []
  else (List.range v.height.toNat).flatMap fun (j : Nat) =>
    (List.range v.width.toNat).map fun (i : Nat) =>
      { x := (i : Int) + v.physx, y := (j : Int) + v.physy, ch := ch, comb := [], style := s }

/-- view.go:68 Clear -/
def clear (v : ViewPort) : List PCall := v.fill 32 0

/-- view.go:91-96 -/
def reset (v : ViewPort) : ViewPort := { v with limx := 0, limy := 0, viewx := 0, viewy := 0 }

/-- view.go:159-166 -/
def validateViewX (v : ViewPort) : ViewPort :=
  let v1 := if v.viewx > v.limx - v.width then { v with viewx := v.limx - v.width } else v
  if v1.viewx < 0 then { v1 with viewx := 0 } else v1

/-- view.go:148-155 -/
def validateViewY (v : ViewPort) : ViewPort :=
  let v1 := if v.viewy > v.limy - v.height then { v with viewy := v.limy - v.height } else v
  if v1.viewy < 0 then { v1 with viewy := 0 } else v1

/-- view.go:170-173 -/
def validateView (v : ViewPort) : ViewPort := v.validateViewX.validateViewY

/-- view.go:131-136: the two x steps of MakeVisible -/
def mvX (v : ViewPort) (x : Int) : ViewPort :=
  let v1 := if x < v.limx ∧ x ≥ v.viewx + v.width then { v with viewx := x - (v.width - 1) } else v
  if x ≥ 0 ∧ x < v1.viewx then { v1 with viewx := x } else v1

/-- view.go:137-142 -/
def mvY (v : ViewPort) (y : Int) : ViewPort :=
  let v1 := if y < v.limy ∧ y ≥ v.viewy + v.height then { v with viewy := y - (v.height - 1) } else v
  if y ≥ 0 ∧ y < v1.viewy then { v1 with viewy := y } else v1

/-- view.go:130-144 MakeVisible -/
def makeVisible (v : ViewPort) (x y : Int) : ViewPort := ((v.mvX x).mvY y).validateView

/-- view.go:177 the guard of Center (true = Center does nothing) -/
def centerSkips (v : ViewPort) (x y : Int) : Bool :=
  x < 0 || y < 0 || x ≥ v.limx || y ≥ v.limy || !v.hasView

/-- view.go:176-183 Center; Go's `/` truncates toward zero (`Int.tdiv`) -/
def center (v : ViewPort) (x y : Int) : ViewPort :=
  if v.centerSkips x y then v
  else ({ v with viewx := x - v.width.tdiv 2, viewy := y - v.height.tdiv 2 } : ViewPort).validateView

def scrollUp (v : ViewPort) (n : Int) : ViewPort := ({ v with viewy := v.viewy - n } : ViewPort).validateViewY
def scrollDown (v : ViewPort) (n : Int) : ViewPort := ({ v with viewy := v.viewy + n } : ViewPort).validateViewY
def scrollLeft (v : ViewPort) (n : Int) : ViewPort := ({ v with viewx := v.viewx - n } : ViewPort).validateViewX
def scrollRight (v : ViewPort) (n : Int) : ViewPort := ({ v with viewx := v.viewx + n } : ViewPort).validateViewX

/-- view.go:211-215 -/
def setSize (v : ViewPort) (w h : Int) : ViewPort := ({ v with height := h, width := w } : ViewPort).validateView

/-- view.go:239-244 -/
def setContentSize (v : ViewPort) (w h : Int) (locked : Bool) : ViewPort :=
  ({ v with limx := w, limy := h, locked := locked } : ViewPort).validateView

def getVisible (v : ViewPort) : Int × Int × Int × Int :=
  (v.viewx, v.viewy, v.viewx + v.width - 1, v.viewy + v.height - 1)
def getPhysical (v : ViewPort) : Int × Int × Int × Int :=
  (v.physx, v.physy, v.physx + v.width - 1, v.physy + v.height - 1)
def getContentSize (v : ViewPort) : Int × Int := (v.limx, v.limy)
def size (v : ViewPort) : Int × Int := (v.width, v.height)

/-- view.go:257-277 Resize; `px py` is the parent's `Size()`.  Note: no ValidateView, an out-of-range
origin leaves physx/physy unchanged but is still used for the width computation. -/
def resize (v : ViewPort) (px py x y width height : Int) : ViewPort :=
  if !v.hasView then v
  else
    let physx := if x ≥ 0 ∧ x < px then x else v.physx
    let physy := if y ≥ 0 ∧ y < py then y else v.physy
    let width := if width < 0 ∨ width > px - x then px - x else width
    let height := if height < 0 ∨ height > py - y then py - y else height
    { v with physx := physx, physy := physy, width := width, height := height }

def setView (v : ViewPort) (b : Bool) : ViewPort := { v with hasView := b }

/-- view.go:289-297 NewViewPort; `parent = none` is a nil View -/
def new (parent : Option (Int × Int)) (x y width height : Int) : ViewPort :=
  let v : ViewPort := { hasView := parent.isSome, limx := width, limy := height }
  match parent with
  | some (px, py) => v.resize px py x y width height
  | none => v

end ViewPort

/-! ## BoxLayout share computation (boxlayout.go:43-105, 107-169) -/

/-- the operations boxlayout.go applies to float64 -/
class LayoutNum (F : Type) where
  ofInt : Int → F
  zero : F
  add : F → F → F
  mul : F → F → F
  div : F → F → F
  sub : F → F → F
  /-- Go `int(f)`: truncation toward zero -/
  trunc : F → Int
  /-- Go `a > b` -/
  gt : F → F → Bool
  /-- Go `a == b` -/
  eq : F → F → Bool

instance : LayoutNum Float where
  ofInt := Float.ofInt
  zero := 0.0
  add := (· + ·)
  mul := (· * ·)
  div := (· / ·)
  sub := (· - ·)
  trunc f := f.toInt64.toInt       -- exact for |f| < 2^63 (Go: implementation-defined beyond; not reached)
  gt a b := a > b
  eq a b := a == b

/-- truncation toward zero of a rational -/
def ratTrunc (q : Rat) : Int := q.num.tdiv q.den

instance : LayoutNum Rat where
  ofInt := fun i => (i : Rat)
  zero := 0
  add := (· + ·)
  mul := (· * ·)
  div := (· / ·)
  sub := (· - ·)
  trunc := ratTrunc
  gt a b := decide (a > b)
  eq a b := decide (a = b)

open LayoutNum

/-- boxLayoutCell's arithmetic fields (boxlayout.go:35-41) -/
structure PCell (F : Type) where
  fill : F
  pad : Int := 0
  frac : F
deriving Repr

variable {F : Type} [LayoutNum F]

/-- `totf += c.fill` over the cells, left to right from 0.0 (boxlayout.go:46-49) -/
def totFill (fills : List F) : F := fills.foldl (fun (a : F) f => add a f) (zero : F)

/-- boxlayout.go:68-73: the share of one cell; cells with `fill > 0` only -/
def shareCell (extra : Int) (totf : F) (fill : F) : PCell F :=
  if gt fill (zero : F) then
    let fr : F := div (mul (ofInt extra : F) fill) totf
    let pad := trunc fr
    { fill := fill, pad := pad, frac := sub fr (ofInt pad : F) }
  else { fill := fill, pad := 0, frac := zero }

/-- boxlayout.go:80-88: index of the first cell with `fill != 0` whose `frac` is maximal (strict `>`) -/
def bestFrom : List (PCell F) → Nat → Option (Nat × F) → Option (Nat × F)
  | [], _, best => best
  | c :: cs, i, best =>
    if eq c.fill (zero : F) then bestFrom cs (i + 1) best
    else match best with
      | none => bestFrom cs (i + 1) (some (i, c.frac))
      | some (_, bf) => if gt c.frac bf then bestFrom cs (i + 1) (some (i, c.frac)) else bestFrom cs (i + 1) best

def best (cs : List (PCell F)) : Option Nat := (bestFrom cs 0 none).map (·.1)

/-- boxlayout.go:89-90: `best.pad++; best.frac = 0` -/
def bump (cs : List (PCell F)) (i : Nat) : List (PCell F) :=
  cs.modify i fun c => { c with pad := c.pad + 1, frac := (zero : F) }

/-- boxlayout.go:79-92: `for resid > 0 { … resid-- }`; `n = resid`.  `best == nil` is a nil dereference in Go
(a panic); the model stops instead, and `pads_total` shows it is not reached when `resid > 0`. -/
def distribute : Nat → List (PCell F) → List (PCell F)
  | 0, cs => cs
  | n + 1, cs => match best cs with
    | some i => distribute n (bump cs i)
    | none => cs

def sumInt (l : List Int) : Int := l.sum

/-- boxlayout.go:58-92: the padding each cell receives: `avail` = extent of the layout's view along the
axis, `used` = sum of the preferred extents. -/
def pads (avail used : Int) (fills : List F) : List Int :=
  let totf : F := totFill fills
  let extra := if avail - used < 0 then 0 else avail - used
  let cells := fills.map (shareCell extra totf)
  let resid0 := if eq totf (zero : F) then 0 else extra
  let resid := resid0 - sumInt (cells.map (·.pad))
  ((distribute resid.toNat cells).map (·.pad))

/-- one child as the layout sees it: preferred size and fill factor -/
structure Child (F : Type) where
  w : Int
  h : Int
  fill : F

/-- the arguments of `c.view.Resize(x, y, w, h)` for one child -/
structure Place where
  x : Int
  y : Int
  w : Int
  h : Int
deriving DecidableEq, Repr, Inhabited

/-- boxlayout.go:94-104 / 159-168: positions from extents (running sum) -/
def placeAlong (horizontal : Bool) (vw vh : Int) : Int → List Int → List Place
  | _, [] => []
  | pos, e :: es =>
    (if horizontal then { x := pos, y := 0, w := e, h := vh } else { x := 0, y := pos, w := vw, h := e })
      :: placeAlong horizontal vw vh (pos + e) es

/-- preferred extent along the axis -/
def Child.ext (horizontal : Bool) (c : Child F) : Int := if horizontal then c.w else c.h
def Child.cross (horizontal : Bool) (c : Child F) : Int := if horizontal then c.h else c.w

/-- hLayout / vLayout as a function: the `Resize` arguments of every child's ViewPort.
`(vw, vh)` is `b.view.Size()`. -/
def layoutPlaces (horizontal : Bool) (vw vh : Int) (cs : List (Child F)) : List Place :=
  let avail := if horizontal then vw else vh
  let used := sumInt (cs.map (Child.ext horizontal))
  let ps := pads avail used (cs.map (·.fill))
  placeAlong horizontal vw vh 0 (List.zipWith (· + ·) (cs.map (Child.ext horizontal)) ps)

/-- `b.width, b.height` after layout (boxlayout.go:50-53 / 113-117): the layout's own preferred size -/
def layoutPref (horizontal : Bool) (cs : List (Child F)) : Int × Int :=
  let along := sumInt (cs.map (Child.ext horizontal))
  let cross := (cs.map (Child.cross horizontal)).foldl (fun m c => if c > m then c else m) 0
  if horizontal then (along, cross) else (cross, along)

/-- the rectangle a child's ViewPort occupies after `Resize` with the given arguments inside a parent view
of size `(vw, vh)`, starting from viewport `v` -/
def applyPlace (vw vh : Int) (v : ViewPort) (p : Place) : ViewPort := v.resize vw vh p.x p.y p.w p.h

end Tcell.Views
