/-
Model of simulation.go (SimulationScreen, C18) over the CellBuffer model of C08.  Core-only, executable, no proofs.

Parameters (external libraries, DESIGN §6):
* `enc r` = what `s.encoder.Transform(lbuf, utf8.EncodeRune(r), true)` reports (`out = lbuf[:nout]`, `err`).  simscreen.drawCell
  (simulation.go:206) does **not** call `encoder.Reset()` (tScreen.encodeRune does) and ignores the error: for the stateless
  encoders the property quantifies over this makes no difference, and the model, like the code, looks only at `nout`/`lbuf[0]`.
* `dec p` = what `s.decoder.Reset(); s.decoder.Transform(utfb, p, true)` reports for the byte string `p`: `nout`, `nin` and
  `r = utf8.DecodeRune(utfb[:nout])` (the first rune of the output).
* `rw` = go-runewidth (as in Model/Cell).
The front buffer is a total function `Int → Int → SimCell` plus `physw physh` (every access in simulation.go is behind
the guard `x < physw ∧ y < physh ∧ 0 ≤ x ∧ 0 ≤ y`, :170, or the loop bounds of SetSize, :408-412; `nil` and empty slices are
identified: `Bytes == nil` at :221 is only reached after appends of non-empty or to-nil-appended-empty strings).
The event channel (capacity 10, simulation.go:108) is a FIFO list; `postEvent` blocks when it is full, so in the model a
post on a full queue is a precondition violation (`Sim.canPost`); the harness keeps a poller running.
-/
import Tcell.Model.Cell
import Tcell.Model.LockRegion
import Tcell.Model.Encode
namespace Tcell

structure SimCell where
  bytes : Bytes := []
  style : Style := {}
  runes : List Rune := []
deriving DecidableEq, Repr, Inhabited

inductive SimEv where
  | resize (w h : Int)
  | key (k : Int) (ch : Rune) (mod : Int)
  | mouse (x y : Int) (btn mod : Int)
deriving DecidableEq, Repr, Inhabited

/-- key.go:243 NewEventKey (KeyRune = 256, ModCtrl = 2; KeyBackspace 8, KeyTab 9, KeyEnter 13, KeyEsc 27).
`Key(ch)` is an int16 conversion in Go; callers in this model pass `ch` in the int16 range when `ch < 32`. -/
def newEventKey (k : Int) (ch : Rune) (mod : Int) : SimEv :=
  if k = 256 ∧ (ch < 32 ∨ ch = 127) then
    let mod' := if mod = 0 ∧ ch < 32 then (if ch = 8 ∨ ch = 9 ∨ ch = 27 ∨ ch = 13 then 0 else 2) else mod
    .key ch ch mod'
  else .key k ch mod

structure DecResult where
  nout : Nat := 0
  nin : Nat := 0
  r : Rune := 0
deriving DecidableEq, Repr, Inhabited

abbrev Decoder := Bytes → DecResult

/-- sides of the known defect sites (HACKING.md): all `false` = the pinned tree.
`injectLE`: inner loop `l <= len(b)` instead of `l < len(b)` (simulation.go:368);
`injectSkipErr`: a prefix that decodes to U+FFFD is skipped (`continue`) instead of consumed (:373-378);
`setSizeEvent`: SetSize calls `s.resize()` instead of `s.back.Resize(w, h)` (:417);
`lastColClean`: drawCell marks the cell clean before the early return for a wide rune in the last column (:195-199);
`combElide`: a rune that is not encodable is substituted (fallback / raw ASCII / `?`) only when nothing has been emitted
yet, i.e. combining runes are elided as on the real screen (:214-223). -/
structure SimVariant where
  injectLE : Bool := false
  injectSkipErr : Bool := false
  setSizeEvent : Bool := false
  lastColClean : Bool := false
  combElide : Bool := false
  fillZW : Bool := false        -- CellBuffer.Fill stores a blank for a zero-width rune (fixes/C09-fill-zero-width.patch)
deriving DecidableEq, Repr, Inhabited

def SimVariant.pinned : SimVariant := {}
def SimVariant.repaired : SimVariant := { injectLE := true, injectSkipErr := true, setSizeEvent := true, lastColClean := true, combElide := true }

structure Sim where
  physw : Int := 80
  physh : Int := 25
  style : Style := {}
  front : Int → Int → SimCell := fun _ _ => {}
  back : Buf := {}
  clear : Bool := false
  cursorx : Int := -1
  cursory : Int := -1
  cursorvis : Bool := false
  fallback : RuneMap := []
  evq : List SimEv := []     -- oldest first

namespace Sim

/-- simulation.go:107 Init (after `NewSimulationScreen`): 80×25, back resized, default fallbacks -/
def init (fallbacks : RuneMap) : Sim :=
  { back := ({} : Buf).resize 80 25, fallback := fallbacks }

def canPost (s : Sim) : Prop := s.evq.length < 10

/-- simulation.go:326 postEvent on a queue with room -/
def post (s : Sim) (ev : SimEv) : Sim := { s with evq := s.evq ++ [ev] }

/-- PollEvent (screen.go:459) when an event is queued -/
def poll (s : Sim) : Option SimEv × Sim :=
  match s.evq with
  | [] => (none, s)
  | e :: rest => (some e, { s with evq := rest })

def inPhys (s : Sim) (x y : Int) : Prop := 0 ≤ x ∧ 0 ≤ y ∧ x < s.physw ∧ y < s.physh
instance (s : Sim) (x y : Int) : Decidable (s.inPhys x y) := by unfold inPhys; infer_instance

def setFront (s : Sim) (x y : Int) (c : SimCell) : Sim :=
  { s with front := fun i j => if i = x ∧ j = y then c else s.front i j }

/-- one iteration of the rune loop of drawCell (simulation.go:202-228): the simulator's fallback rules —
fallback map first, then a printable ASCII rune raw, then `?` only when nothing has been emitted; no ACS. -/
def encStep (v : SimVariant) (enc : Encoder) (fb : RuneMap) (bytes : Bytes) (r : Rune) : Bytes :=
  let e := enc r
  if e.out.isEmpty || e.out.head? == some 0x1A then
    if v.combElide && !bytes.isEmpty then bytes else
    match fb.get? r with
    | some subst => bytes ++ subst
    | none =>
      if 32 ≤ r ∧ r ≤ 126 then bytes ++ [r.toNat % 256]
      else if bytes.isEmpty then bytes ++ [63]
      else bytes
  else bytes ++ e.out

def simBytes (v : SimVariant) (enc : Encoder) (fb : RuneMap) (runes : List Rune) : Bytes :=
  runes.foldl (encStep v enc fb) []

/-- the style resolution of drawCell (:175): `if style == StyleDefault { style = s.style }` -/
def resolve (s : Sim) (st : Style) : Style := if st = {} then s.style else st

/-- what drawCell stores for the cell (x,y) when it draws it (simulation.go:173-229) -/
def render (v : SimVariant) (enc : Encoder) (s : Sim) (x y : Int) : SimCell :=
  let (mainc, combc, style, width) := s.back.getContent x y
  if x > s.physw - width then
    { bytes := [32], style := s.resolve style, runes := [32] }
  else
    { bytes := simBytes v enc s.fallback (mainc :: combc), style := s.resolve style, runes := mainc :: combc }

/-- simulation.go:163 drawCell; returns the new state and the width -/
def drawCell (v : SimVariant) (enc : Encoder) (s : Sim) (x y : Int) : Sim × Int :=
  let width := (s.back.getContent x y).2.2.2
  if !s.back.dirty x y then (s, width)
  else if ¬ s.inPhys x y then (s, width)
  else if x > s.physw - width ∧ !v.lastColClean then
    -- early return: the cell is NOT marked clean (:195-199)
    (s.setFront x y (s.render v enc x y), width)
  else
    ({ (s.setFront x y (s.render v enc x y)) with back := s.back.setDirty x y false }, width)

/-- inner loop of draw (:268-271): `for x := 0; x < w; x++ { width := drawCell(x,y); x += width-1 }`; `n` is fuel
(`w` suffices: GetContent reports width ≥ 1 for every in-range cell) -/
def drawRow (v : SimVariant) (enc : Encoder) (y : Int) : Nat → Sim → Int → Sim
  | 0, s, _ => s
  | n + 1, s, x =>
    if x < s.back.w then
      let (s', width) := s.drawCell v enc x y
      drawRow v enc y n s' (x + width)
    else s

/-- rows `y0 .. y0+n-1` -/
def drawRows (v : SimVariant) (enc : Encoder) : Nat → Sim → Int → Sim
  | 0, s, _ => s
  | n + 1, s, y => drawRows v enc n (drawRow v enc y s.back.w.toNat s 0) (y + 1)

/-- simulation.go:237 showCursor -/
def showCursor (s : Sim) : Sim :=
  { s with cursorvis := !(decide (s.cursorx < 0) || decide (s.cursory < 0) || decide (s.cursorx ≥ s.physw) || decide (s.cursory ≥ s.physh)) }

/-- simulation.go:254 clearScreen: fill the front buffer with 'X' -/
def clearScreen (s : Sim) : Sim :=
  { s with front := fun _ _ => { bytes := [88], style := {}, runes := [88] }, clear := false }

/-- simulation.go:263 draw -/
def draw (v : SimVariant) (enc : Encoder) (s : Sim) : Sim :=
  let s := { s with cursorvis := false }
  let s := if s.clear then s.clearScreen else s
  let s := drawRows v enc s.back.h.toNat s 0
  s.showCursor

/-- simulation.go:314 resize -/
def resize (s : Sim) : Sim :=
  if s.physw ≠ s.back.w ∨ s.physh ≠ s.back.h then
    ({ s with back := s.back.resize s.physw s.physh }).post (.resize s.physw s.physh)
  else s

/-- simulation.go:247 Show -/
def showScr (v : SimVariant) (enc : Encoder) (s : Sim) : Sim := (s.resize).draw v enc

/-- simulation.go:393 Sync -/
def sync (v : SimVariant) (enc : Encoder) (s : Sim) : Sim :=
  let s := { s with clear := true }
  let s := s.resize
  let s := { s with back := s.back.invalidate }
  s.draw v enc

/-- simulation.go:226 ShowCursor -/
def setCursor (s : Sim) (x y : Int) : Sim := ({ s with cursorx := x, cursory := y }).showCursor

/-- simulation.go:235 HideCursor: `s.ShowCursor(-1, -1)` -/
def hideCursorApi (s : Sim) : Sim := s.setCursor (-1) (-1)

/-- simulation.go:435 GetCursor -/
def getCursor (s : Sim) : Int × Int × Bool := (s.cursorx, s.cursory, s.cursorvis)

/-- simulation.go:406 SetSize (`w h ≥ 0`: Go's `make` panics otherwise) -/
def setSize (v : SimVariant) (s : Sim) (w h : Int) : Sim :=
  let newc : Int → Int → SimCell := fun x y =>
    if 0 ≤ x ∧ 0 ≤ y ∧ x < w ∧ y < h ∧ x < s.physw ∧ y < s.physh then s.front x y else {}
  let s' := { s with cursorx := -1, cursory := -1, physw := w, physh := h, front := newc }
  if v.setSizeEvent then s'.resize else { s' with back := s'.back.resize w h }

/-- simulation.go:336 / 341 -/
def injectMouse (s : Sim) (x y btn mod : Int) : Sim := s.post (.mouse x y btn mod)
def injectKey (s : Sim) (k : Int) (r : Rune) (mod : Int) : Sim := s.post (newEventKey k r mod)

/-- the inner loop of InjectKeyBytes (:368-381) over the candidate lengths `ls`: the first prefix with `nout ≠ 0`
(and, repaired, not decoding to U+FFFD) decides; result: `some (event?, nin)` or `none` when no prefix decoded -/
def injectTry (v : SimVariant) (dec : Decoder) (b : Bytes) : List Nat → Option (Option SimEv × Nat)
  | [] => none
  | l :: ls =>
    let d := dec (b.take l)
    if d.nout ≠ 0 then
      if d.r ≠ 0xFFFD then some (some (newEventKey 256 d.r 0), d.nin)
      else if v.injectSkipErr then injectTry v dec b ls
      else some (none, d.nin)
    else injectTry v dec b ls

/-- candidate lengths: `for l := 1; l < len(b); l++` (pinned) / `l <= len(b)` (repaired) -/
def injectLens (v : SimVariant) (b : Bytes) : List Nat :=
  (List.range (if v.injectLE then b.length else b.length - 1)).map (· + 1)

/-- simulation.go:345 InjectKeyBytes, outer loop with fuel (every iteration with `nin ≥ 1` consumes input).
Returns the events posted in order and `failed`. -/
def injectLoop (v : SimVariant) (dec : Decoder) : Nat → Bytes → List SimEv → Bool → List SimEv × Bool
  | 0, _, evs, failed => (evs, failed)
  | _ + 1, [], evs, failed => (evs, failed)
  | n + 1, c :: rest, evs, failed =>
    if 32 ≤ c ∧ c ≤ 127 then
      injectLoop v dec n rest (evs ++ [newEventKey 256 (c : Int) 0]) failed
    else if c < 128 then
      -- KeyCtrlA = 1 .. KeyCtrlZ = 26
      let mod : Int := if 1 ≤ c ∧ c ≤ 26 then 2 else 0
      injectLoop v dec n rest (evs ++ [newEventKey (c : Int) 0 mod]) failed
    else
      match injectTry v dec (c :: rest) (injectLens v (c :: rest)) with
      | some (ev, nin) =>
        injectLoop v dec n ((c :: rest).drop nin) (match ev with | some e => evs ++ [e] | none => evs) failed
      | none => injectLoop v dec n rest evs true

/-- InjectKeyBytes: (state with the events posted, return value).  Fuel `2·len+1` (each iteration with
`nin ≥ 1` shortens the buffer; with `nin = 0` Go would spin forever — excluded by the codec laws). -/
def injectKeyBytes (v : SimVariant) (dec : Decoder) (s : Sim) (b : Bytes) : Sim × Bool :=
  let (evs, failed) := injectLoop v dec (b.length + 1) b [] false
  ({ s with evq := s.evq ++ evs }, !failed)

/-- simulation.go:441 / 447 -/
def registerFallback (s : Sim) (r : Rune) (subst : Bytes) : Sim := { s with fallback := s.fallback.insert r subst }
def unregisterFallback (s : Sim) (r : Rune) : Sim := { s with fallback := s.fallback.erase r }

/-- simulation.go:453 CanDisplay (no ACS in the simulator) -/
def canDisplay (enc : Encoder) (s : Sim) (r : Rune) (checkFallbacks : Bool) : Bool :=
  if !(enc r).bad then true
  else if !checkFallbacks then false
  else (s.fallback.get? r).isSome

end Sim
end Tcell

namespace Tcell

/-- the operation language of draw histories on a SimulationScreen: SetContent, Fill, Show, Sync, SetSize, ShowCursor,
InjectKey, InjectMouse exactly as the `sim` engine's case lines S F W N Z C K M are executed by `Driver.Sim.stepOp`, plus
`LockRegion` (screen.go:424, the code shared by every backend: `Tcell.lockRowsG`, engine op L) and its per-cell steps
`LockCell` / `UnlockCell` of the C08 buffer -/
inductive SimOp where
  | setContent (x y : Int) (mainc : Rune) (combc : List Rune) (style : Style)
  | fill (r : Rune) (style : Style)
  | lockCell (x y : Int)
  | unlockCell (x y : Int)
  | lockRegion (x y w h : Int) (lock : Bool)   -- screen.go:424 (`Tcell.lockRowsG`; engine op L)
  | present
  | sync
  | setSize (w h : Int)
  | setCursor (x y : Int)
  | injectKey (k : Int) (r : Rune) (mod : Int)
  | injectMouse (x y btn mod : Int)
deriving Repr

/-- `Fill` "doesn't support … characters with a width larger than one" (cell.go:218-222, it stores width 1 whatever the
rune): a history is within the API contract when every Fill rune is one column wide -/
def SimOp.ok (rw : Rune → Int) : SimOp → Prop
  | .fill r _ => rw r = 1
  | _ => True

def Sim.stepS (rw : Rune → Int) (v : SimVariant) (enc : Encoder) (s : Sim) : SimOp → Sim
  | .setContent x y m c st => { s with back := s.back.setContent rw x y m c st }
  | .fill r st => { s with back := s.back.fill r st }
  | .lockCell x y => { s with back := s.back.lockCell x y }
  | .unlockCell x y => { s with back := s.back.unlockCell x y }
  | .lockRegion x y w h lock => { s with back := lockRowsG s.back x y w lock h.toNat }
  | .present => s.showScr v enc
  | .sync => s.sync v enc
  | .setSize w h => s.setSize v w h
  | .setCursor x y => s.setCursor x y
  | .injectKey k r m => s.injectKey k r m
  | .injectMouse x y b m => s.injectMouse x y b m

def Sim.runS (rw : Rune → Int) (v : SimVariant) (enc : Encoder) (s : Sim) (ops : List SimOp) : Sim :=
  ops.foldl (Sim.stepS rw v enc) s

end Tcell
