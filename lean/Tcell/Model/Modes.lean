/-
State machine of the mode-changing API of tScreen (C04): EnableMouse/DisableMouse (tscreen.go:1098-1147),
EnablePaste/DisablePaste (1149-1177), EnableFocus/DisableFocus (1179-1207), SetTitle (2175), Beep (2149), the draw
API (through `ScrW.step`; Show 1028 and Sync 1938 are gated by `t.running`), Suspend/Resume (2022-2029),
engage (2038-2093), disengage (2099-2146), Fini/finish/finalize (685-692, 2158-2161).

The model produces, per call, the ordered list of *events* seen at the Tty: the Tty method calls and, for every
`TPuts`/`writeString` that is not buffered, a symbolic capability (`Cap`); a buffered draw is one `frame` of draw
commands.  `Modes.renderEv` turns the events into bytes and the canonical call log (what the `modes` engine
compares with the FakeTty's log); `Props/C04.lean` interprets the same events on an abstract register file.

The control flow depends on the terminal description only through `ModeCaps` (which of the synthesised strings are
non-empty: the `if s != ""` guards of the Go code) and the `DrawCfg` of the draw path.  Core-only, executable.
-/
import Tcell.Model.Screen
import Tcell.Model.Engage
namespace Tcell

/-- calls on the Tty interface other than Write (tty.go:23-60); Read is issued by inputLoop only -/
inductive TtyCall where
  | start | stop | drain | notifyFn | notifyNil | windowSize | close
deriving Repr, DecidableEq

/-- everything the mode path writes, by name.  Each is one unbuffered `TPuts(s)` / `writeString(s)`: at least one
    `Write` call reaches the tty even when `s` is empty (io.WriteString on a writer without WriteString). -/
inductive Cap where
  | mouseOff                    -- "\x1b[?1000l\x1b[?1002l\x1b[?1003l\x1b[?1006l"  (tscreen.go:1123)
  | mouseOn (n : Nat)           -- "\x1b[?<n>h", n ∈ {1000, 1002, 1003, 1006}       (1124-1135)
  | pasteOn | pasteOff          -- t.enablePaste / t.disablePaste                   (1167-1177)
  | focusOn | focusOff          -- t.enableFocus / t.disableFocus                   (1197-1207)
  | enterCA | saveTitle | enterKeypad | hideCursor | enableAcs | disableAM | clear   -- engage 2071-2084
  | setTitle (title : Bytes)    -- TParm(t.setTitle, title)                         (2085-2087, 2178-2180)
  | showCursor | cursorDefault | cursorColorReset | resetFgBg | attrOff | exitKeypad | enableAM
  | restoreTitle | exitCA       -- disengage 2119-2141
  | exitUrl                     -- t.exitUrl: only in the repaired disengage (fixes/C04-exit-url.patch)
  | bell                        -- Beep 2151
deriving Repr, DecidableEq

inductive Ev where
  | call (c : TtyCall)
  | put (k : Cap)
  | frame (cmds : List Cmd)     -- `t.buf.WriteTo(t.tty)` at the end of draw (tscreen.go:1095): one Write, none if empty
deriving Repr

/-- the `!= ""` / `!= nil` guards of the mode path -/
structure ModeCaps where
  mouse : Bool          -- len(t.mouse) != 0          (tscreen.go:84, 1121)
  pasteOn : Bool        -- t.enablePaste != ""
  pasteOff : Bool       -- t.disablePaste != ""
  focusOn : Bool        -- t.enableFocus != ""
  focusOff : Bool       -- t.disableFocus != ""
  saveTitle : Bool      -- t.saveTitle != ""
  restoreTitle : Bool   -- t.restoreTitle != ""
  setTitle : Bool       -- t.setTitle != ""
  cursorStyles : Bool   -- t.cursorStyles != nil
  cursorFg : Bool       -- t.cursorFg != ""
deriving Repr, DecidableEq

structure ModeCfg where
  dc : DrawCfg
  caps : ModeCaps
  altscreen : Bool      -- os.Getenv("TCELL_ALTSCREEN") != "disable"

/-- the API calls the property quantifies over -/
inductive MOp where
  | enableMouse (f : Nat)       -- EnableMouse(flags…) with the flags or-ed (no flag = 7)
  | disableMouse
  | enablePaste | disablePaste
  | enableFocus | disableFocus
  | setTitle (title : Bytes)
  | scr (op : ScrOp)            -- SetContent / Fill / SetStyle / ShowCursor / SetCursorStyle / LockRegion / Show / Sync / quiet window resize
  | suspend | resume | fini
  | beep
deriving Repr

structure MState where
  wd : ScrW := {}
  req : ModeReq := {}           -- mouseFlags, pasteEnabled, focusEnabled, title (`running` lives below)
  running : Bool := false
  finished : Bool := false      -- t.finiOnce has fired

namespace Modes

/-- tscreen.go:1117 enableMouse -/
def enableMouse (cf : ModeCfg) (f : Nat) : List Ev :=
  if cf.caps.mouse then
    [.put .mouseOff] ++
    (if f % 2 = 1 then [.put (.mouseOn 1000)] else []) ++          -- MouseButtonEvents = 1
    (if f / 2 % 2 = 1 then [.put (.mouseOn 1002)] else []) ++      -- MouseDragEvents = 2
    (if f / 4 % 2 = 1 then [.put (.mouseOn 1003)] else []) ++      -- MouseMotionEvents = 4
    (if f % 8 ≠ 0 then [.put (.mouseOn 1006)] else [])
  else []

/-- tscreen.go:1167 enablePasting -/
def enablePasting (cf : ModeCfg) (on : Bool) : List Ev :=
  if on then (if cf.caps.pasteOn then [.put .pasteOn] else [])
  else (if cf.caps.pasteOff then [.put .pasteOff] else [])

def enableFocusReporting (cf : ModeCfg) : List Ev := if cf.caps.focusOn then [.put .focusOn] else []
def disableFocusReporting (cf : ModeCfg) : List Ev := if cf.caps.focusOff then [.put .focusOff] else []

/-- what engage writes once the tty is started (tscreen.go:2063-2088) -/
def engageEvs (cf : ModeCfg) (r : ModeReq) : List Ev :=
  enableMouse cf r.mouseFlags ++ enablePasting cf r.paste ++
  (if r.focus then enableFocusReporting cf else []) ++
  (if cf.altscreen then [.put .enterCA] ++ (if cf.caps.saveTitle then [.put .saveTitle] else []) else []) ++
  [.put .enterKeypad, .put .hideCursor, .put .enableAcs, .put .disableAM, .put .clear] ++
  (if !r.title.isEmpty ∧ cf.caps.setTitle then [.put (.setTitle r.title)] else [])

/-- tscreen.go:2038 engage (Init and Resume).  NotifyResize is called before the `running` test. -/
def engage (cf : ModeCfg) (st : MState) : MState × List Ev :=
  if st.running then (st, [.call .notifyFn])        -- "already engaged"
  else
    let s := st.wd.s
    let cells := if st.wd.ttyw ≠ 0 ∧ st.wd.ttyh ≠ 0 then s.cells.resize st.wd.ttyw st.wd.ttyh else s.cells
    ({ st with running := true, wd := { st.wd with s := { s with cells := cells } } },
     [.call .notifyFn, .call .start, .call .windowSize] ++ engageEvs cf st.req)

/-- what disengage writes after the loops have stopped (tscreen.go:2119-2144).  `closes = false` is the pinned code;
    `closes = true` is the code repaired by fixes/C04-exit-url.patch: `t.TPuts(t.exitUrl)` right after `ti.AttrOff`
    (as clearScreen does, tscreen.go:1038-1039), so that a hyperlink left open by the last draw is closed. -/
def disengageEvsV (closes : Bool) (cf : ModeCfg) (shaped tinted : Bool) : List Ev :=
  [.put .showCursor] ++
  (if cf.caps.cursorStyles ∧ shaped then [.put .cursorDefault] else []) ++
  (if cf.caps.cursorFg ∧ tinted then [.put .cursorColorReset] else []) ++
  [.put .resetFgBg, .put .attrOff] ++ (if closes then [.put .exitUrl] else []) ++ [.put .exitKeypad, .put .enableAM] ++
  (if cf.altscreen then (if cf.caps.restoreTitle then [.put .restoreTitle] else []) ++ [.put .clear, .put .exitCA] else []) ++
  enableMouse cf 0 ++ enablePasting cf false ++ disableFocusReporting cf

/-- THE SWITCH for the hyperlink repair: `false` = pinned tree, `true` once fixes/C04-exit-url.patch is committed in /repo -/
def currentClosesLink : Bool := true

/-- tscreen.go:2099 disengage (Suspend and, through finalize, Fini) -/
def disengageV (closes : Bool) (cf : ModeCfg) (st : MState) : MState × List Ev :=
  if !st.running then (st, [])
  else
    let s := st.wd.s
    let s' := { s with cells := s.cells.resize 0 0,
                       cursorShaped := if cf.caps.cursorStyles ∧ s.cursorShaped then false else s.cursorShaped,
                       cursorTinted := if cf.caps.cursorFg ∧ s.cursorTinted then false else s.cursorTinted }
    ({ st with running := false, wd := { st.wd with s := s' } },
     [.call .drain, .call .notifyNil] ++ disengageEvsV closes cf s.cursorShaped s.cursorTinted ++ [.call .stop])

/-- tscreen.go:685 Fini = finiOnce.Do(finish); finish 689; finalize 2158 -/
def finiV (closes : Bool) (cf : ModeCfg) (st : MState) : MState × List Ev :=
  if st.finished then (st, [])
  else ({ (disengageV closes cf st).1 with finished := true }, (disengageV closes cf st).2 ++ [.call .close])

/-- THE SWITCH for the resize repair: `false` = pinned tree, `true` once fixes/C04-resize-after-resume.patch is committed -/
def currentResizeChecksCells : Bool := true

/-- `resize()` repaired (fixes/C04-resize-after-resume.patch) also compares the size of the cell buffer, which engage
    re-creates from the tty without updating `t.w`/`t.h`: when the buffer disagrees with `t.w`/`t.h` the resize is carried
    out even if the tty reports `t.w`×`t.h`.  Modelled by making `t.w` differ from the tty width, which sends
    `Scr.resize` down its resizing branch (whose result does not depend on the old `t.w`).
    The pinned code (switch off) has no such test: there Show/Sync on such a screen loop forever when the buffer is smaller
    than `t.w`×`t.h` (known finding C04-show-hang-after-resume), which the fuelled draw loops of the model do not show. -/
def fixW (on : Bool) (wd : ScrW) : ScrW :=
  if on ∧ (wd.s.cells.w ≠ wd.s.w ∨ wd.s.cells.h ≠ wd.s.h) then { wd with s := { wd.s with w := wd.ttyw + 1 } } else wd

/-- the draw API; Show and Sync do nothing (but Sync forgets the cursor) unless running (tscreen.go:1028, 1938) -/
def scrStep (cf : ModeCfg) (st : MState) (op : ScrOp) : MState × List Ev :=
  match op with
  | .show =>
    if st.running then
      let r := (fixW currentResizeChecksCells st.wd).step cf.dc .show
      ({ st with wd := r.1 }, [.call .windowSize, .frame r.2])
    else (st, [])
  | .sync =>
    if st.running then
      let r := (fixW currentResizeChecksCells st.wd).step cf.dc .sync
      ({ st with wd := r.1 }, [.call .windowSize, .frame r.2])
    else ({ st with wd := { st.wd with s := st.wd.s.forgetCursor } }, [])
  | .ttyResizeNotify _ _ => (st, [])      -- needs mainLoop: not part of the mode histories
  | op => ({ st with wd := (st.wd.step cf.dc op).1 }, [])

def stepV (closes : Bool) (cf : ModeCfg) (st : MState) : MOp → MState × List Ev
  | .enableMouse f =>
    ({ st with req := { st.req with mouseFlags := f } }, if st.running then enableMouse cf f else [])
  | .disableMouse =>
    ({ st with req := { st.req with mouseFlags := 0 } }, if st.running then enableMouse cf 0 else [])
  | .enablePaste =>
    ({ st with req := { st.req with paste := true } }, if st.running then enablePasting cf true else [])
  | .disablePaste =>
    ({ st with req := { st.req with paste := false } }, if st.running then enablePasting cf false else [])
  | .enableFocus =>
    ({ st with req := { st.req with focus := true } }, if st.running then enableFocusReporting cf else [])
  | .disableFocus =>
    ({ st with req := { st.req with focus := false } }, if st.running then disableFocusReporting cf else [])
  | .setTitle title =>
    ({ st with req := { st.req with title := title } },
     if cf.caps.setTitle ∧ st.running then [.put (.setTitle title)] else [])
  | .scr op => scrStep cf st op
  | .suspend => disengageV closes cf st
  | .resume => engage cf st
  | .fini => finiV closes cf st
  | .beep => (st, [.put .bell])

/-- the model of the tree as it is -/
def step (cf : ModeCfg) (st : MState) (op : MOp) : MState × List Ev := stepV currentClosesLink cf st op

/-- the screen right after NewTerminfoScreen…: not yet engaged; `Init` = `engage` on it (tscreen.go:186-250) -/
def fresh (w h : Int) : MState := { wd := ScrW.init w h }

/-- Init (tscreen.go:186): the buffer is sized from the description / environment and then from the tty
    (`t.resize()`, one WindowSize call; `ScrW.init` is the state after it), then `engage` -/
def init (cf : ModeCfg) (w h : Int) : MState × List Ev :=
  let r := engage cf (fresh w h)
  (r.1, .call .windowSize :: r.2)      -- `t.resize()` at tscreen.go:241

/-- run a history from a state, collecting the events of every call -/
def run (cf : ModeCfg) : MState → List MOp → MState × List (List Ev)
  | st, [] => (st, [])
  | st, op :: ops =>
    let (st1, evs) := step cf st op
    let (st2, rest) := run cf st1 ops
    (st2, evs :: rest)

/-! ### rendering to bytes and to the canonical call log -/

open Render in
/-- the string behind a `Cap` (before TPuts removes padding) -/
def capStr (c : RenderCfg) : Cap → Bytes
  | .mouseOff => esc "[?1000l" ++ esc "[?1002l" ++ esc "[?1003l" ++ esc "[?1006l"
  | .mouseOn n => esc ("[?" ++ toString n ++ "h")
  | .pasteOn => c.d.enablePaste
  | .pasteOff => c.d.disablePaste
  | .focusOn => c.d.enableFocus
  | .focusOff => c.d.disableFocus
  | .enterCA => c.ti.enterCA
  | .saveTitle => c.d.saveTitle
  | .enterKeypad => c.ti.enterKeypad
  | .hideCursor => c.ti.hideCursor
  | .enableAcs => c.ti.enableAcs
  | .disableAM => c.ti.disableAutoMargin
  | .clear => c.ti.clear
  | .setTitle title => parm c.d.setTitle [TParm.Value.str title]
  | .showCursor => c.ti.showCursor
  | .cursorDefault => (c.d.cursorStyles.getD []).headD []
  | .cursorColorReset => c.d.cursorFg
  | .resetFgBg => c.ti.resetFgBg
  | .attrOff => c.ti.attrOff
  | .exitKeypad => c.ti.exitKeypad
  | .enableAM => c.ti.enableAutoMargin
  | .restoreTitle => c.d.restoreTitle
  | .exitCA => c.ti.exitCA
  | .exitUrl => c.d.exitUrl
  | .bell => [7]

/-- bytes reaching the tty for a `Cap`.  Beep uses writeString (no padding removal): a BEL has none anyway. -/
def capBytes (c : RenderCfg) (k : Cap) : Bytes := Render.tp c (capStr c k)

/-- one entry of the observable Tty log: a call, or a (maximal) run of Write calls with the bytes they carried -/
inductive LogItem where
  | call (c : TtyCall)
  | write (bytes : Bytes)
deriving Repr, DecidableEq

def evItem (c : RenderCfg) : Ev → Option LogItem
  | .call k => some (.call k)
  | .put k => some (.write (capBytes c k))
  | .frame cmds => let b := Render.renderAll c cmds; if b.isEmpty then none else some (.write b)

/-- merge adjacent writes (the segmentation of a TPuts into Write calls is not part of the observation) -/
def mergeLog : List LogItem → List LogItem
  | [] => []
  | .write a :: rest =>
    match mergeLog rest with
    | .write b :: r => .write (a ++ b) :: r
    | r => .write a :: r
  | x :: rest => x :: mergeLog rest

def renderEvs (c : RenderCfg) (evs : List Ev) : List LogItem := mergeLog (evs.filterMap (evItem c))

def ModeCaps.of (ti : Terminfo) (d : Derived) : ModeCaps :=
  { mouse := !ti.mouse.isEmpty, pasteOn := !d.enablePaste.isEmpty, pasteOff := !d.disablePaste.isEmpty,
    focusOn := !d.enableFocus.isEmpty, focusOff := !d.disableFocus.isEmpty, saveTitle := !d.saveTitle.isEmpty,
    restoreTitle := !d.restoreTitle.isEmpty, setTitle := !d.setTitle.isEmpty,
    cursorStyles := d.cursorStyles.isSome, cursorFg := !d.cursorFg.isEmpty }

end Modes
end Tcell
