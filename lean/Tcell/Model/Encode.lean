/-
Model of the legacy-charset output path of the terminfo screen (C17): tscreen.go `encodeRune` (695-723), the
payload part of `drawCell` (912-948), `buildAcsMap` (1282-1294), `CanDisplay` (1929-1954),
`RegisterRuneFallback`/`UnregisterRuneFallback` (1917-1927).  Core-only, executable, no proofs.

Parameters (not modelled, DESIGN §6): the external character-set encoder.  `enc r` is what
`t.encoder.Reset(); t.encoder.Transform(nb, utf8.EncodeRune(r), true)` reports for a fresh 6-byte `nb`:
`out = nb[:dst]`, `err = (err != nil)`.  (`nb[0]` is only inspected when `dst ≠ 0`, where it is `out.head`;
for `dst = 0` the test `dst == 0` already decides, so the pair determines the Go condition.)  tScreen calls
`enc.Reset()` before every Transform, so `enc` is a function of the rune alone even for a stateful encoder;
a nil encoder (impossible after a successful Init, tscreen.go:194-199) behaves like `out = []`.
Maps are association lists, the first binding wins (`insert` = Go map assignment, `erase` = `delete`).
-/
import Tcell.Model.Cell
import Tcell.Model.TPuts
import Tcell.Gen.TerminfoStruct
namespace Tcell

/-- result of one `encoder.Transform(nb, utf8(r), true)` call -/
structure EncResult where
  out : Bytes := []
  err : Bool := false
deriving DecidableEq, Repr, Inhabited

/-- the Go test `err != nil || dst == 0 || nb[0] == '\x1a'` (tscreen.go:707, 1937 negated) -/
def EncResult.bad (e : EncResult) : Bool :=
  e.err || e.out.isEmpty || e.out.head? == some 0x1A

abbrev Encoder := Rune → EncResult

/-- `map[rune]string` as an association list -/
abbrev RuneMap := List (Rune × Bytes)

def RuneMap.get? (m : RuneMap) (r : Rune) : Option Bytes := (m.find? (fun p => p.1 == r)).map (·.2)
def RuneMap.insert (m : RuneMap) (r : Rune) (s : Bytes) : RuneMap := (r, s) :: m
def RuneMap.erase (m : RuneMap) (r : Rune) : RuneMap := m.filter (fun p => p.1 != r)

/-- which side of the known defect sites the model takes (HACKING.md "Known defects"):
`acsAll = false` is the pinned loop `for len(acsstr) > 2`, `true` the repaired `>= 2`;
`acsRawByte`: see `acsDstv`; `acsStrip`: see `acsCap` (fixes/C17-acs-strip-padding.patch). -/
structure EncVariant where
  acsAll : Bool := false
  acsRawByte : Bool := false
  acsStrip : Bool := false
deriving DecidableEq, Repr, Inhabited

def EncVariant.pinned : EncVariant := {}
/-- /repo since 1c34022 (loop `>= 2`, raw terminal byte); smacs/rmacs still composed as the database has them -/
def EncVariant.repaired : EncVariant := { acsAll := true, acsRawByte := true }
/-- … plus fixes/C17-acs-strip-padding.patch: padding specifications removed from smacs/rmacs -/
def EncVariant.stripped : EncVariant := { acsAll := true, acsRawByte := true, acsStrip := true }

/-- `dstv := string(acsstr[1])` (tscreen.go:1288): converting a *byte* with `string(…)` is Go's integer→string conversion,
i.e. the UTF-8 encoding of the code point U+00dd — two bytes for `d ≥ 0x80` (pinned).  Repaired: the byte itself. -/
def acsDstv (v : EncVariant) (d : Nat) : Bytes :=
  if v.acsRawByte || d < 128 then [d] else [192 + d / 64, 128 + d % 64]

/-- the loop of buildAcsMap (tscreen.go:1285-1292) **as it is**: `for len(acsstr) > 2 { srcv, dstv := acsstr[0], acsstr[1];
if r, ok := vtACSNames[srcv]; ok { acs[r] = EnterAcs + dstv + ExitAcs }; acsstr = acsstr[2:] }`.
The loop guard for the remaining string `s :: d :: rest` is `rest.length + 2 > 2`, i.e. `rest ≠ []`
(repaired variant: `≥ 2`, always true here). -/
def acsLoop (v : EncVariant) (names : List (Nat × Rune)) (enter exit : Bytes) : Bytes → RuneMap → RuneMap
  | s :: d :: rest, m =>
    if v.acsAll || !rest.isEmpty then
      let m' := match names.find? (fun p => p.1 == s) with
        | some (_, r) => m.insert r (enter ++ acsDstv v d ++ exit)
        | none => m
      acsLoop v names enter exit rest m'
    else m
  | _, m => m

/-- how buildAcsMap takes `EnterAcs` / `ExitAcs`.  Pinned (`acsStrip = false`): the capability string as the database has
it, `$<n>` padding included — and drawCell writes the map's strings with `writeString`, not `TPuts`.
Repaired (fixes/C17-acs-strip-padding.patch): `strip(s)` = the bytes `(&terminfo.Terminfo{}).TPuts(&b, s)` writes into a
`strings.Builder` — the TPuts of the tree under test (`TPuts.tputs`) with an empty `PadChar` (so it never sleeps). -/
def acsCap (v : EncVariant) (s : Bytes) : Bytes :=
  if v.acsStrip then (TPuts.tputs [] s).bytes else s

/-- tscreen.go:1337 buildAcsMap -/
def buildAcsMap (v : EncVariant) (names : List (Nat × Rune)) (ti : Terminfo) : RuneMap :=
  acsLoop v names (acsCap v ti.enterAcs) (acsCap v ti.exitAcs) ti.altChars []

/-- the state the output path reads (tscreen.go:137-141) -/
structure EncState where
  enc : Encoder
  acs : RuneMap := []
  fallback : RuneMap := []

/-- tscreen.go:695 encodeRune -/
def EncState.encodeRune (t : EncState) (r : Rune) (buf : Bytes) : Bytes :=
  if (t.enc r).bad then
    -- "Combining characters are elided"
    if buf.isEmpty then
      match t.acs.get? r with
      | some a => buf ++ a
      | none =>
        match t.fallback.get? r with
        | some f => buf ++ f
        | none => buf ++ [63]
    else buf
  else buf ++ (t.enc r).out

/-- `buf = encodeRune(mainc, buf); for _, r := range combc { buf = encodeRune(r, buf) }` (tscreen.go:924-927) -/
def EncState.encodeCell (t : EncState) (mainc : Rune) (combc : List Rune) : Bytes :=
  combc.foldl (fun b r => t.encodeRune r b) (t.encodeRune mainc [])

structure Payload where
  str : Bytes      -- what writeString receives
  width : Int      -- the value drawCell returns / adds to cx
  resetCx : Bool   -- `t.cx = -1` executed (wide "?" or width > 1)
deriving DecidableEq, Repr, Inhabited

/-- the payload part of drawCell (tscreen.go:916-948); `tw` = t.w, `x` the column, `width` what GetContent reported -/
def EncState.cellPayload (t : EncState) (tw x : Int) (mainc : Rune) (combc : List Rune) (width : Int) : Payload :=
  let width1 := if width < 1 then 1 else width
  let buf := t.encodeCell mainc combc
  let wideQ := decide (width1 > 1) && buf == [63]
  let str := if wideQ then [63, 32] else buf
  if x > tw - width1 then
    -- too wide to fit; emit a single space instead
    { str := [32], width := 1, resetCx := false }
  else
    { str := str, width := width1, resetCx := decide (width1 > 1) }

/-- tscreen.go:1929 CanDisplay -/
def EncState.canDisplay (t : EncState) (r : Rune) (checkFallbacks : Bool) : Bool :=
  if !(t.enc r).bad then true
  else if (t.acs.get? r).isSome then true
  else if !checkFallbacks then false
  else (t.fallback.get? r).isSome

/-- tscreen.go:1917 / 1923 -/
def EncState.registerFallback (t : EncState) (r : Rune) (s : Bytes) : EncState := { t with fallback := t.fallback.insert r s }
def EncState.unregisterFallback (t : EncState) (r : Rune) : EncState := { t with fallback := t.fallback.erase r }

end Tcell
