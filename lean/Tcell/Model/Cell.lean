/-
Model of cell.go (CellBuffer).  Core-only, executable, no proofs.

Representation choices (recorded in DESIGN.md §6): runes are `Int` (Go `rune` = int32; the harness only
produces values in the int32 range), the cell array is a total function `Int → Int → Cell` together with
`w h`; every access in cell.go is behind the same range guard the model has, so Go's row-major index
arithmetic is not mirrored.  `rw` is go-runewidth's `RuneWidth` (a parameter; the driver instantiates it
with the table regenerated from the library, `gen/runewidth.txt`).
Each Go function is a composition of small named per-cell steps so that proofs are per-step lemmas.
-/
namespace Tcell

abbrev Rune := Int

/-- style.go `Style`; colours are the raw uint64 values. -/
structure Style where
  fg : Nat := 0
  bg : Nat := 0
  ulStyle : Nat := 0
  ulColor : Nat := 0
  attrs : Nat := 0
  url : String := ""
  urlId : String := ""
deriving DecidableEq, Repr, Inhabited

def colorNone : Nat := 2^34 + 1     -- ColorSpecial | 1; equality with color.go's constant is a generated obligation
def colorReset : Nat := 2^34        -- ColorSpecial | 0

/-- the ColorNone merge of SetContent / Fill: `new` with ColorNone components taken from `old` -/
def Style.merge (old new : Style) : Style :=
  { new with fg := if new.fg = colorNone then old.fg else new.fg,
             bg := if new.bg = colorNone then old.bg else new.bg }

structure Cell where
  currMain : Rune := 0
  currComb : List Rune := []
  currStyle : Style := {}
  lastMain : Rune := 0
  lastComb : List Rune := []
  lastStyle : Style := {}
  width : Int := 0
  lock : Bool := false
deriving Repr, Inhabited

/-- THE SWITCH for the Fill repair (fixes/C09-fill-zero-width.patch): `false` = pinned tree (Fill stores width 1 for
    every rune, cell.go:244, so GetContent does not blank a DEL / C1 / zero-width rune written by Fill), `true` once the
    patch is committed in /repo (Fill replaces a rune whose RuneWidth is 0 by ' ' before storing it: the same blank
    GetContent substitutes for such a rune stored by SetContent; the width stays 1, so SetContent's forced-dirty
    branch and the guarded-blank invariant `BlankOk` of the draw path are unaffected).
    The constant is only the *default* of `DrawCfg.fillZW`; both behaviours stay modelled (`Buf.fillV`), the theorems
    quantify over the variant, and the correspondence drivers take it from the case line (`+fz` after the entry name,
    pseudo-op `V fz` for cb, sixth variant letter for sim, `variant fz` for wasm draw; probed by `fillZWSuffix` in
    harness/engines/cb.go). -/
def currentFillBlanksZeroWidth : Bool := true

namespace Cell

/-- `lastMain = 0` is the "needs repaint" sentinel -/
def markDirty (c : Cell) : Cell := { c with lastMain := 0 }

/-- SetDirty(false): remember current content (a zero rune is normalised to a blank first) -/
def markClean (c : Cell) : Cell :=
  let cm := if c.currMain = 0 then 32 else c.currMain
  { c with currMain := cm, lastMain := cm, lastComb := c.currComb, lastStyle := c.currStyle }

def setLock (c : Cell) (v : Bool) : Cell := { c with lock := v }

/-- the cell Resize creates for a position that existed before (cell.go:204-210) -/
def carry (oc : Cell) : Cell :=
  { currMain := oc.currMain, currComb := oc.currComb, currStyle := oc.currStyle, width := oc.width, lastMain := 0 }

/-- the per-cell effect of Fill (cell.go:225-236) -/
def filled (c : Cell) (r : Rune) (style : Style) : Cell :=
  { c with currMain := r, currComb := [], currStyle := c.currStyle.merge style, width := 1 }

/-- the rune Fill stores for `r`: the pinned tree stores `r` itself (cell.go:234); the tree repaired by
    fixes/C09-fill-zero-width.patch substitutes a blank for a rune that has no width
    (`if runewidth.RuneWidth(r) == 0 { r = ' ' }` before the loop): controls, DEL, C1, zero-width / format characters,
    invalid code points.  The recorded width is 1 on both trees. -/
def fillRune (fz : Bool) (rw : Rune → Int) (r : Rune) : Rune := if fz = true ∧ rw r = 0 then 32 else r

/-- step 2 of SetContent: store (cell.go:67-79) -/
def store (rw : Rune → Int) (c : Cell) (mainc : Rune) (combc : List Rune) (style : Style) : Cell :=
  { c with currComb := combc,
           width := if c.currMain ≠ mainc then rw mainc else c.width,
           currMain := mainc,
           currStyle := c.currStyle.merge style }

/-- cell.go:118-140, the comparison part of Dirty -/
def isDirty (c : Cell) : Bool :=
  if c.lock then false
  else if c.lastMain = 0 then true
  else if c.lastMain ≠ c.currMain then true
  else if c.lastStyle ≠ c.currStyle then true
  else if c.lastComb ≠ c.currComb then true
  else false

end Cell

structure Buf where
  w : Int := 0
  h : Int := 0
  cells : Int → Int → Cell := fun _ _ => {}

namespace Buf

def empty : Buf := {}

def inRange (b : Buf) (x y : Int) : Prop := 0 ≤ x ∧ 0 ≤ y ∧ x < b.w ∧ y < b.h

instance (b : Buf) (x y : Int) : Decidable (b.inRange x y) := by unfold inRange; infer_instance

theorem inRange_iff (b : Buf) (x y : Int) : b.inRange x y ↔ (0 ≤ x ∧ 0 ≤ y ∧ x < b.w ∧ y < b.h) := Iff.rfl

/-- pointwise update of one cell -/
def upd (b : Buf) (x y : Int) (f : Cell → Cell) : Buf :=
  { b with cells := fun i j => if i = x ∧ j = y then f (b.cells i j) else b.cells i j }

/-- cell.go:148 SetDirty -/
def setDirty (b : Buf) (x y : Int) (dirty : Bool) : Buf :=
  if b.inRange x y then
    if dirty then b.upd x y Cell.markDirty else b.upd x y Cell.markClean
  else b

/-- the loop `for i := 0; i < c.width; i++ { cb.SetDirty(x+i, y, true) }` (cell.go:62), counting down -/
def dirtySpan (b : Buf) (x y : Int) : Nat → Buf
  | 0 => b
  | n + 1 => (dirtySpan b x y n).setDirty (x + n) y true

/-- step 1 of SetContent: dirty every column of the old rune when main or combining change (cell.go:61) -/
def preDirty (b : Buf) (x y : Int) (mainc : Rune) (combc : List Rune) : Buf :=
  if (b.cells x y).width > 0 ∧ (mainc ≠ (b.cells x y).currMain ∨ combc ≠ (b.cells x y).currComb)
  then b.dirtySpan x y (b.cells x y).width.toNat else b

/-- cell.go:51 SetContent -/
def setContent (rw : Rune → Int) (b : Buf) (x y : Int) (mainc : Rune) (combc : List Rune) (style : Style) : Buf :=
  if b.inRange x y then
    (b.preDirty x y mainc combc).upd x y (fun c => c.store rw mainc combc style)
  else b

/-- cell.go:87 GetContent -/
def getContent (b : Buf) (x y : Int) : Rune × List Rune × Style × Int :=
  if b.inRange x y then
    let c := b.cells x y
    if c.width = 0 ∨ c.currMain < 32 then (32, c.currComb, c.currStyle, 1)
    else (c.currMain, c.currComb, c.currStyle, c.width)
  else (0, [], {}, 0)

/-- cell.go:118 Dirty -/
def dirty (b : Buf) (x y : Int) : Bool :=
  if b.inRange x y then (b.cells x y).isDirty else false

/-- cell.go:109 Invalidate -/
def invalidate (b : Buf) : Buf :=
  { b with cells := fun i j => (b.cells i j).markDirty }

/-- cell.go:169 LockCell -/
def lockCell (b : Buf) (x y : Int) : Buf :=
  if b.inRange x y then b.upd x y (·.setLock true) else b

/-- cell.go:181 UnlockCell -/
def unlockCell (b : Buf) (x y : Int) : Buf :=
  if b.inRange x y then (b.upd x y (·.setLock false)).setDirty x y true else b

/-- cell.go:196 Resize (w, h ≥ 0 is the caller's obligation: Go panics on a negative product) -/
def resize (b : Buf) (w h : Int) : Buf :=
  if b.h = h ∧ b.w = w then b
  else
    { w := w, h := h,
      cells := fun x y =>
        if 0 ≤ x ∧ 0 ≤ y ∧ x < w ∧ y < h ∧ x < b.w ∧ y < b.h then (b.cells x y).carry else {} }

/-- cell.go:223 Fill -/
def fill (b : Buf) (r : Rune) (style : Style) : Buf :=
  { b with cells := fun i j => (b.cells i j).filled r style }

/-- Fill of either tree: `fz = false` the pinned one (= `fill`, see `fillV_false`), `fz = true` the one repaired by
    fixes/C09-fill-zero-width.patch -/
def fillV (fz : Bool) (rw : Rune → Int) (b : Buf) (r : Rune) (style : Style) : Buf :=
  b.fill (Cell.fillRune fz rw r) style

def size (b : Buf) : Int × Int := (b.w, b.h)

end Buf
end Tcell
