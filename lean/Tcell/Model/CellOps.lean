/-
Operation language over the CellBuffer model: the histories C08 quantifies over, and the *ghost*
"content when last marked clean" that the dirty-tracking theorems are stated against.
-/
import Tcell.Model.Cell
namespace Tcell

inductive CbOp where
  | setContent (x y : Int) (mainc : Rune) (combc : List Rune) (style : Style)
  | fill (r : Rune) (style : Style)
  | resize (w h : Int)
  | invalidate
  | setDirty (x y : Int) (d : Bool)
  | lockCell (x y : Int)
  | unlockCell (x y : Int)
deriving Repr

def Buf.apply (rw : Rune → Int) (b : Buf) : CbOp → Buf
  | .setContent x y m c s => b.setContent rw x y m c s
  | .fill r s => b.fill r s
  | .resize w h => b.resize w h
  | .invalidate => b.invalidate
  | .setDirty x y d => b.setDirty x y d
  | .lockCell x y => b.lockCell x y
  | .unlockCell x y => b.unlockCell x y

def Buf.run (rw : Rune → Int) (b : Buf) (ops : List CbOp) : Buf := ops.foldl (Buf.apply rw) b

/-- one op on the tree of variant `fz` (`Tcell.currentFillBlanksZeroWidth`): only Fill differs; `fz = false` is `apply` -/
def Buf.applyV (fz : Bool) (rw : Rune → Int) (b : Buf) : CbOp → Buf
  | .fill r s => b.fillV fz rw r s
  | op => b.apply rw op

def Buf.runV (fz : Bool) (rw : Rune → Int) (b : Buf) (ops : List CbOp) : Buf := ops.foldl (Buf.applyV fz rw) b

/-- What an observer remembers of a cell: raw rune, combining runes, style. -/
abbrev Content := Rune × List Rune × Style

def Cell.content (c : Cell) : Content := (c.currMain, c.currComb, c.currStyle)

/-- Specification-side ghost: for each position, the content the cell had when it was last marked clean
(`SetDirty(x,y,false)`), forgotten by anything the statement says must force a repaint
(`SetDirty(x,y,true)`, `Invalidate`, an effective `Resize`, `UnlockCell`).  Written from the property
text, not from cell.go: it never looks at `last*`. -/
abbrev Ghost := Int → Int → Option Content

def Ghost.none : Ghost := fun _ _ => Option.none

/-- ghost step; takes the buffer *before* and *after* the op (it reads only `w h` and `curr*`). -/
def Ghost.step (g : Ghost) (before after : Buf) : CbOp → Ghost
  | .setDirty x y d =>
      if before.inRange x y then
        fun i j => if i = x ∧ j = y then (if d then Option.none else some (after.cells x y).content) else g i j
      else g
  | .invalidate => Ghost.none
  | .resize w h => if before.h = h ∧ before.w = w then g else Ghost.none
  | .unlockCell x y =>
      if before.inRange x y then fun i j => if i = x ∧ j = y then Option.none else g i j else g
  | .setContent x y m c _ =>
      -- "changing a wide rune also dirties every column it covered"
      if before.inRange x y then
        let old := before.cells x y
        if old.width > 0 ∧ (m ≠ old.currMain ∨ c ≠ old.currComb) then
          fun i j => if j = y ∧ x ≤ i ∧ i < x + old.width then Option.none else g i j
        else g
      else g
  | .fill _ _ => g
  | .lockCell _ _ => g

/-- run a history keeping buffer and ghost side by side -/
def runGhost (rw : Rune → Int) : Buf × Ghost → List CbOp → Buf × Ghost
  | s, [] => s
  | (b, g), op :: ops =>
      let b' := b.apply rw op
      runGhost rw (b', g.step b b' op) ops

/-- `runGhost` on the tree of variant `fz` -/
def runGhostV (fz : Bool) (rw : Rune → Int) : Buf × Ghost → List CbOp → Buf × Ghost
  | s, [] => s
  | (b, g), op :: ops =>
      let b' := b.applyV fz rw op
      runGhostV fz rw (b', g.step b b' op) ops

end Tcell
