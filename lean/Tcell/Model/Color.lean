import Tcell.Gen.Colors
/-
Model of color.go (type Color and its conversions) and colorfit.go (FindColor).  Core-only, executable.

Representation: a `Color` (Go `uint64`) is a raw `Nat`; every function below maps values `< 2^64` to values
`< 2^64` (theorem `…_lt` in Lemmas/Color).  Go `int32` / `int` values are `Int`s in the respective range; the
int→uint64 conversion `Color(v)` is two's-complement sign extension (`ofSigned`).  The two tables
`ColorValues` / `ColorNames` are the regenerated `Gen.colorValues` / `Gen.colorNames` (Go maps: keys are
distinct, so first-match list lookup is map lookup).
FindColor is generic in the metric (`Metric α`): the CIE76 distance over float64 computed by go-colorful is
an external, trusted function; the driver instantiates `α` with the IEEE-754 bit patterns sent by the harness.
-/
namespace Tcell.Color

/-! ## constants (color.go:37-55); equality with the source constants is checked in Props/C16 against Gen/Consts -/
def cDefault : Nat := 0
def fValid : Nat := 2^32
def fIsRGB : Nat := 2^33
def fSpecial : Nat := 2^34

/-- Go conversion of a signed integer (int32 or int) to uint64: two's complement, i.e. the value mod 2^64. -/
def ofSigned (v : Int) : Nat := (v % 2^64).toNat

/-- `x & 0xff` on an int32 (two's complement): the residue mod 256, in 0..255. -/
def and255 (x : Int) : Nat := (x % 256).toNat

/-- color.go:1001 `Valid`: `c&ColorValid != 0` -/
def valid (c : Nat) : Bool := c &&& fValid != 0

/-- color.go:1006 `IsRGB` -/
def isRGB (c : Nat) : Bool := c &&& (fValid ||| fIsRGB) == (fValid ||| fIsRGB)

/-- map lookup `ColorValues[c]` -/
def lookupValue (c : Nat) : Option Int := Gen.colorValues.lookup c

/-- map lookup `ColorNames[name]` -/
def lookupName (name : String) : Option Nat := Gen.colorNames.lookup name

/-- color.go:1056 `Hex`.  `int32(c & 0xffffff)` is the identity on a value below 2^24. -/
def hex (c : Nat) : Int :=
  if !valid c then -1
  else if c &&& fIsRGB != 0 then ((c &&& 0xffffff : Nat) : Int)
  else match lookupValue c with
    | some v => v
    | none => -1

/-- color.go:1072 `RGB`.  In the second branch `v ≥ 0`, so the arithmetic shifts/masks on int32 are the ones on `Nat`. -/
def rgb (c : Nat) : Int × Int × Int :=
  let v := hex c
  if v < 0 then (-1, -1, -1)
  else
    let n := v.toNat
    ((((n >>> 16) &&& 0xff : Nat) : Int), (((n >>> 8) &&& 0xff : Nat) : Int), ((n &&& 0xff : Nat) : Int))

/-- color.go:1083 `TrueColor` (note `Color(c.Hex())` sign-extends a `-1` of an unmapped palette colour) -/
def trueColor (c : Nat) : Nat :=
  if !valid c then cDefault
  else if c &&& fIsRGB != 0 then c ||| fValid
  else ofSigned (hex c) ||| fIsRGB ||| fValid

/-- color.go:1101 `NewHexColor(v int32)`: `ColorIsRGB | Color(v) | ColorValid` -/
def newHexColor (v : Int) : Nat := fIsRGB ||| ofSigned v ||| fValid

/-- color.go:1095 `NewRGBColor(r, g, b int32)`; the int32 expression `((r&0xff)<<16)|((g&0xff)<<8)|(b&0xff)` is
non-negative and below 2^24 -/
def newRGBColor (r g b : Int) : Nat :=
  newHexColor ((((and255 r) <<< 16 ||| (and255 g) <<< 8 ||| and255 b : Nat)) : Int)

/-- color.go:1119 `PaletteColor(index int)` -/
def paletteColor (index : Int) : Nat := ofSigned index ||| fValid

/-- color.go:1127 `FromImageColor`: the uint32 channels of `RGBA()` shifted right by 8, converted to int32 (they are
below 2^24, so non-negative) -/
def fromImageColor (r g b : Nat) : Nat :=
  newRGBColor ((r >>> 8 : Nat) : Int) ((g >>> 8 : Nat) : Int) ((b >>> 8 : Nat) : Int)

/-! ### strconv.ParseInt(s, 16, 32) -/

/-- digit value as in strconv.ParseUint (base ≤ 36): '0'-'9', 'a'-'z' / 'A'-'Z' (via `lower`), rejected when ≥ 16 -/
def hexDigit? (c : Char) : Option Nat :=
  if '0' ≤ c ∧ c ≤ '9' then some (c.toNat - 48)
  else if 'a' ≤ c ∧ c ≤ 'f' then some (c.toNat - 97 + 10)
  else if 'A' ≤ c ∧ c ≤ 'F' then some (c.toNat - 65 + 10)
  else none

/-- left-to-right accumulation of hex digits; `none` on a non-digit -/
def parseHexDigits : Nat → List Char → Option Nat
  | acc, [] => some acc
  | acc, c :: cs => match hexDigit? c with
    | some d => parseHexDigits (acc * 16 + d) cs
    | none => none

/-- strconv.ParseInt(s, 16, 32) with `e == nil` ↦ `some`: optional sign, at least one hex digit, no prefix, no
underscores (base is explicit), magnitude within int32 (otherwise ErrRange, an error). -/
def parseInt16 (s : List Char) : Option Int :=
  let neg := s.head? == some '-'
  let ds := if s.head? == some '+' || s.head? == some '-' then s.tail else s
  if ds.isEmpty then none else
  match parseHexDigits 0 ds with
  | none => none
  | some n =>
    if neg then (if n > 2^31 then none else some (-(n : Int)))
    else (if n ≥ 2^31 then none else some (n : Int))

/-- color.go:1107 `GetColor`.  `len(name) == 7` is the byte length; `name[0] == '#'` on a valid UTF-8 string is
"first character is #" (`name[1:]` is then the rest of the characters). -/
def getColor (name : String) : Nat :=
  match lookupName name with
  | some c => c
  | none =>
    let cs := name.toList
    if name.utf8ByteSize == 7 && cs.head? == some '#' then
      match parseInt16 cs.tail with
      | some v => newHexColor v
      | none => cDefault
    else cDefault

/-! ### fmt.Sprintf("#%06X", int32) -/

def upperHexDigit (n : Nat) : Char := if n < 10 then Char.ofNat (48 + n) else Char.ofNat (55 + n)

/-- upper-case hex digits of `n`, most significant first, at least `w` of them (zero padded); fuel 16 covers 2^64 -/
def hexDigitsPad : Nat → Nat → Nat → List Char
  | 0, _, _ => []
  | fuel + 1, w, n =>
    if n < 16 ∧ w ≤ 1 then [upperHexDigit n]
    else hexDigitsPad fuel (w - 1) (n / 16) ++ [upperHexDigit (n % 16)]

/-- `%06X` of an int32: width 6 including the sign, zero padded -/
def fmt06X (v : Int) : List Char :=
  if v < 0 then '-' :: hexDigitsPad 16 5 (-v).toNat else hexDigitsPad 16 6 v.toNat

/-- color.go:1012 `CSS` -/
def css (c : Nat) : String :=
  if !valid c then "" else String.ofList ('#' :: fmt06X (hex c))

/-- color.go:1042 `Name()` iterates the map and returns *some* name whose value is `c` (aliases: map order); the
deterministic part is whether a name exists. -/
def hasName (c : Nat) : Bool := Gen.colorNames.any (·.2 == c)

/-! ## FindColor (colorfit.go:26-55) -/

/-- The external metric and the float64 operations FindColor applies to its results. -/
structure Metric (α : Type) where
  /-- `c1.DistanceCIE76(c2)` as a function of the two tcell colours (through `RGB()` and `/255.0`) -/
  dist : Nat → Nat → α
  /-- `math.IsNaN` -/
  isNaN : α → Bool
  /-- `math.Inf(1)` -/
  inf : α
  /-- float64 `<` -/
  lt : α → α → Bool
  /-- `float64(0)`, the initial value of `dist` (never read before it is overwritten, see `findColor_zero_irrelevant`) -/
  zero : α

namespace Metric
/-- colorfit.go:46-49: `nd := …; if math.IsNaN(nd) { nd = math.Inf(1) }` -/
def nd (m : Metric α) (c q : Nat) : α := if m.isNaN (m.dist c q) then m.inf else m.dist c q
end Metric

/-- loop state: `(match, dist)` -/
abbrev FCState (α : Type) := Nat × α

/-- one iteration of colorfit.go:37-54 -/
def fcStep (m : Metric α) (c : Nat) (st : FCState α) (q : Nat) : FCState α :=
  let nd := m.nd c q
  if st.1 == cDefault || m.lt nd st.2 then (q, nd) else st

/-- the loop from an arbitrary state -/
def fcScan (m : Metric α) (c : Nat) (st : FCState α) (palette : List Nat) : FCState α :=
  palette.foldl (fcStep m c) st

/-- colorfit.go:26 `FindColor(c, palette)` -/
def findColor (m : Metric α) (c : Nat) (palette : List Nat) : Nat :=
  (fcScan m c (cDefault, m.zero) palette).1

/-! ## IEEE-754 binary64 values as bit patterns (what the harness sends for distances)

`<` of float64 on the bit patterns: NaN (exponent all ones, non-zero mantissa) compares false with everything; otherwise
sign-magnitude order with `-0 = +0`.  Used by the driver so that the generic scan runs on exactly the numbers go-colorful
produced; `Props.C16.bitsMetric_ordered` shows it satisfies the order hypotheses of the FindColor theorems. -/

def f64IsNaN (b : Nat) : Bool := decide (b % 2^63 > 0x7FF0000000000000)
def f64Key (b : Nat) : Int := if b % 2^64 ≥ 2^63 then -((b % 2^63 : Nat) : Int) else ((b % 2^63 : Nat) : Int)
def f64Lt (a b : Nat) : Bool := !f64IsNaN a && !f64IsNaN b && decide (f64Key a < f64Key b)
def f64Inf : Nat := 0x7FF0000000000000
def f64NaN : Nat := 0x7FF8000000000001

/-- metric given as a table `palette colour ↦ bits of DistanceCIE76(c, colour)` (the colour `c` is fixed by the line) -/
def bitsMetric (table : List (Nat × Nat)) : Metric Nat :=
  { dist := fun _ q => (table.lookup q).getD f64NaN, isNaN := f64IsNaN, inf := f64Inf, lt := f64Lt, zero := 0 }

end Tcell.Color
