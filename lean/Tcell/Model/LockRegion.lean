/-
`baseScreen.LockRegion` (screen.go:424): the loops over `LockCell` / `UnlockCell` and the re-dirtying of a wide rune just
left of a row whose first cell was really unlocked.  The code is shared by every backend (terminfo screen, js/wasm
screen, SimulationScreen), so the model lives here and is used by Model/Screen.lean, Model/WScreen.lean and Model/Sim.lean.
Core-only, executable.
-/
import Tcell.Model.Cell
namespace Tcell

/-- repaired tree only: `CellBuffer.locked` (added to cell.go by fixes/C13-wide-left-of-locked.patch): in range and locked -/
def Buf.locked (b : Buf) (x y : Int) : Bool := if b.inRange x y then (b.cells x y).lock else false

/-- one row of LockRegion's inner loop: columns x … x+n-1 -/
def lockRow (b : Buf) (x y : Int) (lock : Bool) : Nat → Buf
  | 0 => b
  | n + 1 =>
    let b' := lockRow b x y lock n
    if lock then b'.lockCell (x + n) y else b'.unlockCell (x + n) y

/-- LockRegion's outer loop: rows y … y+m-1 (screen.go:427) -/
def lockRows (b : Buf) (x y w : Int) (lock : Bool) : Nat → Buf
  | 0 => b
  | m + 1 => lockRow (lockRows b x y w lock m) x (y + m) lock w.toNat

/-- repaired tree only (fixes/C13-wide-left-of-locked.patch, screen.go LockRegion): after a row of the region has been
    unlocked, a wide rune in the column just left of it (which drawCell showed as a blank while its right half was locked)
    is marked dirty: `if _, _, _, w := cells.GetContent(x-1, j); w > 1 { cells.SetDirty(x-1, j, true) }` -/
def redirtyLeft (b : Buf) (x y : Int) : Buf :=
  if (b.getContent (x - 1) y).2.2.2 > 1 then b.setDirty (x - 1) y true else b

/-- LockRegion of the repaired tree (screen.go:424): `lockRows` with the re-dirtying step after each unlocked, non-empty
    row whose FIRST cell was locked before this call (`wasLocked := !lock && width > 0 && cells.locked(x, j)`, evaluated
    before the row's inner loop; fixes/C19-unlock-redirty-waslocked.patch): only then can the wide rune left of the region
    have been shown as a blank.  An "unlock" of cells that were not locked re-dirties nothing outside the region. -/
def lockRowsG (b : Buf) (x y w : Int) (lock : Bool) : Nat → Buf
  | 0 => b
  | m + 1 =>
    let b0 := lockRowsG b x y w lock m
    let b' := lockRow b0 x (y + m) lock w.toNat
    if lock = false ∧ w > 0 ∧ b0.locked x (y + m) = true then redirtyLeft b' x (y + m) else b'

end Tcell
