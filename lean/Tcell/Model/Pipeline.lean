import Tcell.Gen.TerminfoStruct
/-
Transition-system model of the event pipeline and of shutdown of the terminfo screen (properties C05, C06).

Mirrors, **as they are**, with the schedule points of hooks/C05C06-sched-points.patch as step granularity:

  /repo/tscreen.go  inputLoop 1907-1937   (select stopQ/default; tty.Read; on error: running? select{eventQ<-err, quit};
                                           `t.keychan <- chunk[:n]` — an UNCONDITIONAL send)
                    mainLoop  1852-1905   (select{stopQ, quit, resizeQ, keytimer.C, keychan}; scanInput after a chunk
                                           and after an expired timer; timer re-armed iff bytes stay buffered)
                    scanInput 1745-1758   (collectEventsFromInput, then per event select{eventQ<-ev, quit} — NOT stopQ)
                    resize    1216-1236   (non-blocking post of EventResize: select{eventQ<-ev, default})
                    finish    689-692     (close(quit); finalize = disengage; tty.Close)
                    disengage 2099-2147   (lock; !running → return; running=false; close(stopQ); Drain; unlock;
                                           NotifyResize(nil); wg.Wait; restore modes; tty.Stop)
                    engage    2038-2093   (NotifyResize(cb: non-blocking resizeQ<-true); running → error; Start;
                                           running=true; new stopQ; wg.Add(2); go inputLoop; go mainLoop)
  /repo/screen.go   ChannelEvents 440-458, PollEvent 460-467, HasPendingEvent 469-471, PostEventWait 473-478,
                    PostEvent 480-487
  Tty contract (tty.go): Read blocks until data, an error, Drain, Stop or Close ("Drain ensures that the reader wakes up").

`Cfg.fixed = false` is the pinned tree; `true` the variant of fixes/C06-shutdown-selects-stopq.patch (scanInput and both
sends of inputLoop also select on stopQ).  Channels are bounded FIFOs whose capacities are parameters.  The parser is a
parameter (`Parser`): the driver instantiates it with the real parser model `Tcell.Model.collect`, the theorems need only
the chunk law.  The 50 ms escape timer is the nondeterministic label `mainTimer` (enabled while the timer is armed),
followed by `timerScan` or not (the wall-clock test `time.Now().After(t.keyexpire)`).  The screen mutex only protects
straight-line regions that contain no schedule point, so each such region is one atomic step.
Not modelled: the Go scheduler, real timers, real tty drivers, several concurrent Fini/Suspend/Resume callers.
Ghost fields (never read by a guard): `log`, `delivered`, `decoded`, `received`, `allInput`, `lossy`, `expired`.
Core Lean only.
-/
namespace Tcell.Model.Pipeline

/-- abstraction of `collectEventsFromInput(buf, expire)`: events, new parser registers, bytes left in the buffer -/
structure Parser (Ev PSt : Type) where
  collect : PSt → Bytes → Bool → List Ev × PSt × Bytes

structure Cfg where
  eqCap : Nat
  kcCap : Nat
  chCap : Nat := 1
  fixed : Bool := false
deriving DecidableEq, Repr

/-- what travels through `eventQ` -/
inductive Item (Ev : Type) where
  | key (e : Ev)
  | posted (seq : Nat)
  | resize
  | error
deriving DecidableEq, Repr

inductive InPc where
  | idle | top | reading | errChk | errSend | hold (chunk : Bytes) | exiting
deriving DecidableEq, Repr

inductive After where | chunk | timer
deriving DecidableEq, Repr

inductive MainPc (Ev : Type) where
  | idle | sel | scan (pending : List Ev) (after : After) | timerCase | resizing | exiting
deriving DecidableEq, Repr

/-- the (single) application goroutine that calls Fini / Suspend / Resume -/
inductive CallPc where
  | idle
  | finStart            -- inside finish(), before close(quit)
  | dis (fini : Bool)   -- at the top of disengage()
  | wait (fini : Bool)  -- at wg.Wait()
  | ret (fini : Bool)   -- after wg.Wait(): modes restored, tty.Stop() called
deriving DecidableEq, Repr

inductive CePc (Ev : Type) where
  | idle | sel | fwd (it : Item Ev) | closing | closed
deriving DecidableEq, Repr

structure State (Ev PSt : Type) where
  -- tty
  unread : List Bytes := []
  fault : Bool := false
  draining : Bool := false
  ttyStopped : Bool := true
  closed : Bool := false
  -- inputLoop
  inPc : InPc := .idle
  keychan : List Bytes := []
  -- mainLoop
  mainPc : MainPc Ev := .idle
  buf : Bytes := []
  pst : PSt
  timer : Bool := true          -- armed or fired-and-unread (Init arms it, tscreen.go:192)
  resizeQ : Nat := 0            -- capacity 1 (tscreen.go:89)
  -- queues and flags
  eventQ : List (Item Ev) := []
  quit : Bool := false
  stop : Bool := true           -- the stopQ of the current engage is closed (no engage yet = nothing to wait for)
  running : Bool := false
  wg : Nat := 0
  finiOnce : Bool := false
  -- shutdown caller
  callPc : CallPc := .idle
  -- ChannelEvents
  cePc : CePc Ev := .idle
  ch : List (Item Ev) := []
  chClosed : Bool := false
  userQuit : Bool := false
  -- ghosts
  log : List (Item Ev) := []        -- everything ever enqueued in eventQ, in order
  delivered : List (Item Ev) := []  -- everything handed to the application, in order
  decoded : List Ev := []           -- everything collectEventsFromInput returned, in order
  received : Bytes := []            -- every byte mainLoop took out of keychan
  allInput : Bytes := []            -- every byte injected into the tty
  lossy : Bool := false             -- something was discarded (only possible once a shutdown has begun)
  expired : Bool := false           -- the escape timer decoded buffered bytes
  nextSeq : Nat := 0
deriving Repr

instance {Ev PSt} [DecidableEq Ev] [DecidableEq PSt] : DecidableEq (State Ev PSt) := by
  intro a b
  cases a; cases b
  simp only [State.mk.injEq]
  exact inferInstance

inductive Label where
  -- environment: tty
  | inject (c : Bytes) | setFault | notify
  -- inputLoop
  | inStop | inToRead | inReadErr | inReadChunk | inReadEmpty | inErr | inErrSent | inErrQuit | inErrStop
  | inSent | inSendStop | inExit
  -- mainLoop
  | mainStop | mainQuit | mainResize | mainResizeEnd | mainTimer | timerScan | timerEnd | mainChunk
  | scanSent | scanQuit | scanStop | chunkEnd | mainExit
  -- any goroutine inside resize()
  | resizeSent | resizeDrop
  -- application: events
  | pollEv | pollNil | post | postWaitSent | postWaitStop
  | ceStart | ceEv | ceQuit | ceStop | ceFwdSent | ceFwdQuit | ceFwdStop | ceClose | recv | closeUserQuit
  -- application: life cycle
  | callInit | callFini | finClosed | callSuspend | disIdle | disStopped | disJoined | callRet | callResume
deriving DecidableEq, Repr

variable {Ev PSt : Type}

def MainPc.isIdle : MainPc Ev → Bool | .idle => true | _ => false
def MainPc.isSel : MainPc Ev → Bool | .sel => true | _ => false
def MainPc.isTimerCase : MainPc Ev → Bool | .timerCase => true | _ => false
def MainPc.isResizing : MainPc Ev → Bool | .resizing => true | _ => false
def MainPc.isExiting : MainPc Ev → Bool | .exiting => true | _ => false
def CePc.isIdle : CePc Ev → Bool | .idle => true | _ => false
def CePc.isSel : CePc Ev → Bool | .sel => true | _ => false
def CePc.isClosing : CePc Ev → Bool | .closing => true | _ => false

def full (cap : Nat) (q : List α) : Bool := cap ≤ q.length

/-- push on eventQ (the guard is checked by the caller) -/
def push (s : State Ev PSt) (it : Item Ev) : State Ev PSt :=
  { s with eventQ := s.eventQ ++ [it], log := s.log ++ [it] }

/-- `engage` (tscreen.go:2038): only the part after the `running` test -/
def engage (s : State Ev PSt) : State Ev PSt :=
  { s with running := true, stop := false, draining := false, ttyStopped := false, wg := s.wg + 2,
           inPc := .top, mainPc := .sel, buf := [], lossy := s.lossy || !s.buf.isEmpty }

def guard (b : Bool) (s : State Ev PSt) : Option (State Ev PSt) := if b then some s else none

/-- one step; `none` = the label is not enabled in `s` -/
def step (P : Parser Ev PSt) (c : Cfg) (s : State Ev PSt) : Label → Option (State Ev PSt)
  -- ---- environment
  | .inject ch => some { s with unread := s.unread ++ [ch], allInput := s.allInput ++ ch }
  | .setFault => some { s with fault := true }
  | .notify => some { s with resizeQ := if s.resizeQ < 1 then s.resizeQ + 1 else s.resizeQ }
  -- ---- inputLoop (tscreen.go:1907)
  | .inStop => guard (s.inPc == .top && s.stop) { s with inPc := .exiting }
  | .inToRead => guard (s.inPc == .top && !s.stop) { s with inPc := .reading }
  | .inReadErr => guard (s.inPc == .reading && (s.closed || s.fault))
      { s with inPc := .errChk, fault := if s.closed then s.fault else false }
  | .inReadChunk =>
    match s.unread with
    | ch :: rest => guard (s.inPc == .reading && !s.closed && !s.fault) { s with inPc := .hold ch, unread := rest }
    | [] => none
  | .inReadEmpty => guard (s.inPc == .reading && !s.closed && !s.fault && s.unread.isEmpty && (s.draining || s.ttyStopped))
      { s with inPc := .top }
  | .inErr => guard (s.inPc == .errChk) { s with inPc := if s.running then .errSend else .exiting }
  | .inErrSent => guard (s.inPc == .errSend && !full c.eqCap s.eventQ) { push s .error with inPc := .exiting }
  | .inErrQuit => guard (s.inPc == .errSend && s.quit) { s with inPc := .exiting }
  | .inErrStop => guard (s.inPc == .errSend && c.fixed && s.stop) { s with inPc := .exiting }
  | .inSent =>
    match s.inPc with
    | .hold ch => guard (!full c.kcCap s.keychan) { s with inPc := .top, keychan := s.keychan ++ [ch] }
    | _ => none
  | .inSendStop =>
    match s.inPc with
    | .hold _ => guard (c.fixed && s.stop) { s with inPc := .exiting, lossy := true }
    | _ => none
  | .inExit => guard (s.inPc == .exiting) { s with inPc := .idle, wg := s.wg - 1 }
  -- ---- mainLoop (tscreen.go:1852)
  | .mainStop => guard (s.mainPc.isSel && s.stop) { s with mainPc := .exiting }
  | .mainQuit => guard (s.mainPc.isSel && s.quit) { s with mainPc := .exiting }
  | .mainResize => guard (s.mainPc.isSel && 0 < s.resizeQ) { s with mainPc := .resizing, resizeQ := s.resizeQ - 1 }
  | .mainResizeEnd => guard (s.mainPc.isResizing) { s with mainPc := .sel }
  | .mainTimer => guard (s.mainPc.isSel && s.timer) { s with mainPc := .timerCase, timer := false }
  | .timerScan => guard (s.mainPc.isTimerCase && !s.buf.isEmpty)
      (let r := P.collect s.pst s.buf true
       { s with mainPc := .scan r.1 .timer, pst := r.2.1, buf := r.2.2, decoded := s.decoded ++ r.1,
                expired := s.expired || !r.1.isEmpty })
  | .timerEnd =>
    match s.mainPc with
    | .timerCase => some { s with mainPc := .sel, timer := !s.buf.isEmpty }
    | .scan [] .timer => some { s with mainPc := .sel, timer := !s.buf.isEmpty }
    | _ => none
  | .mainChunk =>
    match s.keychan with
    | ch :: rest => guard (s.mainPc.isSel)
      (let r := P.collect s.pst (s.buf ++ ch) false
       { s with mainPc := .scan r.1 .chunk, keychan := rest, pst := r.2.1, buf := r.2.2, decoded := s.decoded ++ r.1,
                received := s.received ++ ch })
    | [] => none
  | .scanSent =>
    match s.mainPc with
    | .scan (e :: rest) a => guard (!full c.eqCap s.eventQ) { push s (.key e) with mainPc := .scan rest a }
    | _ => none
  | .scanQuit =>
    match s.mainPc with
    | .scan (_ :: _) a => guard s.quit { s with mainPc := .scan [] a, lossy := true }
    | _ => none
  | .scanStop =>
    match s.mainPc with
    | .scan (_ :: _) a => guard (c.fixed && s.stop) { s with mainPc := .scan [] a, lossy := true }
    | _ => none
  | .chunkEnd =>
    match s.mainPc with
    | .scan [] .chunk => some { s with mainPc := .sel, timer := !s.buf.isEmpty }
    | _ => none
  | .mainExit => guard (s.mainPc.isExiting) { s with mainPc := .idle, wg := s.wg - 1 }
  -- ---- resize() (tscreen.go:1216), from mainLoop, Sync, Init …
  | .resizeSent => guard (!full c.eqCap s.eventQ) (push s .resize)
  | .resizeDrop => guard (full c.eqCap s.eventQ) s
  -- ---- PollEvent / PostEvent / PostEventWait (screen.go:460-487)
  | .pollEv =>
    match s.eventQ with
    | it :: rest => some { s with eventQ := rest, delivered := s.delivered ++ [it] }
    | [] => none
  | .pollNil => guard s.quit s
  | .post =>   -- never blocks; the result is `postOk`
    if full c.eqCap s.eventQ then some { s with nextSeq := s.nextSeq + 1 }
    else some { push s (.posted s.nextSeq) with nextSeq := s.nextSeq + 1 }
  | .postWaitSent => guard (!full c.eqCap s.eventQ) { push s (.posted s.nextSeq) with nextSeq := s.nextSeq + 1 }
  | .postWaitStop => guard s.quit { s with nextSeq := s.nextSeq + 1 }
  -- ---- ChannelEvents (screen.go:440)
  | .ceStart => guard (s.cePc.isIdle) { s with cePc := .sel }
  | .ceEv =>
    match s.eventQ with
    | it :: rest => guard (s.cePc.isSel) { s with eventQ := rest, cePc := .fwd it }
    | [] => none
  | .ceQuit => guard (s.cePc.isSel && s.userQuit) { s with cePc := .closing }
  | .ceStop => guard (s.cePc.isSel && s.quit) { s with cePc := .closing }
  | .ceFwdSent =>
    match s.cePc with
    | .fwd it => guard (!full c.chCap s.ch) { s with cePc := .sel, ch := s.ch ++ [it] }
    | _ => none
  | .ceFwdQuit =>
    match s.cePc with
    | .fwd _ => guard s.userQuit { s with cePc := .closing, lossy := true }
    | _ => none
  | .ceFwdStop =>
    match s.cePc with
    | .fwd _ => guard s.quit { s with cePc := .closing, lossy := true }
    | _ => none
  | .ceClose => guard (s.cePc.isClosing) { s with cePc := .closed, chClosed := true }
  | .recv =>
    match s.ch with
    | it :: rest => some { s with ch := rest, delivered := s.delivered ++ [it] }
    | [] => none
  | .closeUserQuit => some { s with userQuit := true }
  -- ---- life cycle
  | .callInit => guard (s.callPc == .idle && !s.running && s.inPc == .idle && s.mainPc.isIdle) (engage s)
  | .callFini => guard (s.callPc == .idle) (if s.finiOnce then s else { s with callPc := .finStart, finiOnce := true })
  | .finClosed => guard (s.callPc == .finStart) { s with quit := true, callPc := .dis true }
  | .callSuspend => guard (s.callPc == .idle) { s with callPc := .dis false }
  | .disIdle =>
    match s.callPc with
    | .dis f => guard (!s.running) { s with callPc := .ret f }
    | _ => none
  | .disStopped =>
    match s.callPc with
    | .dis f => guard s.running { s with running := false, stop := true, draining := true, callPc := .wait f }
    | _ => none
  | .disJoined =>
    match s.callPc with
    | .wait f => guard (s.wg == 0) { s with callPc := .ret f, ttyStopped := true }
    | _ => none
  | .callRet =>
    match s.callPc with
    | .ret f => some { s with callPc := .idle, closed := s.closed || f }
    | _ => none
  | .callResume => guard (s.callPc == .idle)
      (if s.running || s.inPc != .idle || !s.mainPc.isIdle then s else engage s)

/-- run a list of labels; `none` as soon as one is not enabled -/
def run (P : Parser Ev PSt) (c : Cfg) : State Ev PSt → List Label → Option (State Ev PSt)
  | s, [] => some s
  | s, l :: ls => match step P c s l with
    | some s' => run P c s' ls
    | none => none

def init (pst0 : PSt) : State Ev PSt := { pst := pst0 }

/-- reachable from the initial state (before `Init`) by some label list -/
def Reachable (P : Parser Ev PSt) (c : Cfg) (pst0 : PSt) (s : State Ev PSt) : Prop :=
  ∃ ls, run P c (init pst0) ls = some s

/-- the value `PostEvent` returns: `true` = nil, `false` = ErrEventQFull (screen.go:480) -/
def postOk (c : Cfg) (s : State Ev PSt) : Bool := !full c.eqCap s.eventQ

/-- `HasPendingEvent` (screen.go:469) -/
def hasPending (s : State Ev PSt) : Bool := !s.eventQ.isEmpty

/-- steps of the library's own goroutines and of the shutdown caller inside Fini/Suspend -/
def Label.internal : Label → Bool
  | .inStop | .inToRead | .inReadErr | .inReadChunk | .inReadEmpty | .inErr | .inErrSent | .inErrQuit | .inErrStop
  | .inSent | .inSendStop | .inExit
  | .mainStop | .mainQuit | .mainResize | .mainResizeEnd | .mainTimer | .timerScan | .timerEnd | .mainChunk
  | .scanSent | .scanQuit | .scanStop | .chunkEnd | .mainExit
  | .finClosed | .disIdle | .disStopped | .disJoined | .callRet => true
  | _ => false

/-- a shutdown call (Fini or Suspend) is in progress -/
def shutdownInProgress (s : State Ev PSt) : Bool := s.callPc != .idle

def enabled (P : Parser Ev PSt) (c : Cfg) (s : State Ev PSt) (l : Label) : Bool := (step P c s l).isSome

end Tcell.Model.Pipeline
