import Tcell.Gen.TerminfoStruct
/-!
# Model of the terminal registry: `terminfo.AddTerminfo` / `terminfo.LookupTerminfo`

Source: `/repo/terminfo/terminfo.go` 677–781.

* `terminfos map[string]*Terminfo` (line 679) is a map from names to **pointers**; several names share one
  pointer (`AddTerminfo` registers `t.Name` and every alias with the same `t`, 683–690) and `LookupTerminfo`
  edits the entry it found **through that pointer** (761–779).  The model therefore separates the name table
  (`names : name → EntryId`) from the heap (`store : EntryId → Terminfo`), so that aliasing is representable.
* the environment is the pair of strings `(COLORTERM, TCELL_TRUECOLOR)` (`os.Getenv`, 702 and 750).
* `lookupF` mirrors `LookupTerminfo` branch for branch.  The Go function is recursive (724, 739); every recursive
  call is on a strictly shorter name (`-truecolor` is replaced by a shorter suffix, `-256color` by a shorter
  suffix), so the recursion is structural on a fuel that `lookupG` initialises with `name.length + 1`;
  `lookupF_fuel` proves that any larger fuel gives the same answer (the fuel never runs out).
* `copy = false` is the pinned code (amend in place); `copy = true` is the **repaired** variant
  (`fixes/C14-lookup-copy.patch`: `c := *t; t = &c` before each of the two amendments, nothing is registered).

`tcell.LookupTerminfo` (tscreen.go:52) falls back to `loadDynamicTerminfo` (infocmp) when this lookup fails and
registers the result with `AddTerminfo`; that path runs an external program and is out of scope here — `add`
models the registration it performs.
-/
namespace Tcell.Lookup
open Tcell

abbrev Name := List Char
abbrev EntryId := Nat

/-- the process environment as far as `LookupTerminfo` reads it -/
structure Env where
  colorterm : String := ""
  tcellTruecolor : String := ""

/-- terminfo.go:702-705 `switch os.Getenv("COLORTERM") { case "truecolor", "24bit", "24-bit": addtruecolor = true }` -/
def Env.colortermOn (e : Env) : Bool :=
  e.colorterm == "truecolor" || e.colorterm == "24bit" || e.colorterm == "24-bit"

inductive Override | none | disable | force
deriving DecidableEq, Repr

/-- terminfo.go:750-756 `switch os.Getenv("TCELL_TRUECOLOR") { case "": case "disable": …=false default: …=true }` -/
def Env.override (e : Env) : Override :=
  if e.tcellTruecolor == "" then .none else if e.tcellTruecolor == "disable" then .disable else .force

/-- value of `addtruecolor` after the `TCELL_TRUECOLOR` switch, given its value before -/
def Env.finalTC (e : Env) (addTC : Bool) : Bool :=
  match e.override with
  | .none => addTC
  | .disable => false
  | .force => true

/-- name table and heap -/
structure Registry where
  names : List (Name × EntryId) := []
  store : EntryId → Terminfo := fun _ => default

/-- `terminfos[name]` (nil = `none`) -/
def Registry.find (R : Registry) (n : Name) : Option EntryId := R.names.lookup n

def Registry.deref (R : Registry) (id : EntryId) : Terminfo := R.store id

/-- assignment through a registered pointer: `t.F = …` -/
def Registry.update (R : Registry) (id : EntryId) (f : Terminfo → Terminfo) : Registry :=
  { R with store := fun j => if j = id then f (R.store id) else R.store j }

/-- `AddTerminfo` (683-690) with `id` the (fresh) address of `t`: the name, then every alias, map to `t`;
    a later registration of the same name overrides an earlier one (map assignment). -/
def Registry.add (R : Registry) (id : EntryId) (t : Terminfo) : Registry :=
  { names := (t.aliases.reverse.map fun a => (a.toList, id)) ++ (t.name.toList, id) :: R.names
    store := fun j => if j = id then t else R.store j }

/-- the registry obtained by registering the entries of `db` in order at addresses 0,1,2,… -/
def Registry.ofList (db : List Terminfo) : Registry :=
  (db.foldl (fun (p : Registry × Nat) t => (p.1.add p.2 t, p.2 + 1)) ({}, 0)).1

/-- what a lookup hands back: a registered pointer or (repaired variant only) a fresh copy -/
inductive Res
  | ptr (id : EntryId)
  | fresh (t : Terminfo)

def Registry.get (R : Registry) : Res → Terminfo
  | .ptr id => R.deref id
  | .fresh t => t

/-! ## the strings `LookupTerminfo` writes (terminfo.go:767-778) -/

/-- `"\x1b[38;2;%p1%d;%p2%d;%p3%dm"` -/
def stdSetFgRGB : Bytes := [27,91,51,56,59,50,59,37,112,49,37,100,59,37,112,50,37,100,59,37,112,51,37,100,109]
/-- `"\x1b[48;2;%p1%d;%p2%d;%p3%dm"` -/
def stdSetBgRGB : Bytes := [27,91,52,56,59,50,59,37,112,49,37,100,59,37,112,50,37,100,59,37,112,51,37,100,109]
/-- `"\x1b[38;2;%p1%d;%p2%d;%p3%d;48;2;%p4%d;%p5%d;%p6%dm"` -/
def stdSetFgBgRGB : Bytes := [27,91,51,56,59,50,59,37,112,49,37,100,59,37,112,50,37,100,59,37,112,51,37,100,59,52,56,59,50,59,37,112,52,37,100,59,37,112,53,37,100,59,37,112,54,37,100,109]
/-- `"\x1b[%?%p1%{8}%<%t3%p1%d%e%p1%{16}%<%t9%p1%{8}%-%d%e38;5;%p1%d%;m"` -/
def stdSetFg256 : Bytes := [27,91,37,63,37,112,49,37,123,56,125,37,60,37,116,51,37,112,49,37,100,37,101,37,112,49,37,123,49,54,125,37,60,37,116,57,37,112,49,37,123,56,125,37,45,37,100,37,101,51,56,59,53,59,37,112,49,37,100,37,59,109]
/-- `"\x1b[%?%p1%{8}%<%t4%p1%d%e%p1%{16}%<%t10%p1%{8}%-%d%e48;5;%p1%d%;m"` -/
def stdSetBg256 : Bytes := [27,91,37,63,37,112,49,37,123,56,125,37,60,37,116,52,37,112,49,37,100,37,101,37,112,49,37,123,49,54,125,37,60,37,116,49,48,37,112,49,37,123,56,125,37,45,37,100,37,101,52,56,59,53,59,37,112,49,37,100,37,59,109]
/-- `SetFgBg` of the 256-colour synthesis (fg conditional `;` bg conditional `m`) -/
def stdSetFgBg256 : Bytes := [27,91,37,63,37,112,49,37,123,56,125,37,60,37,116,51,37,112,49,37,100,37,101,37,112,49,37,123,49,54,125,37,60,37,116,57,37,112,49,37,123,56,125,37,45,37,100,37,101,51,56,59,53,59,37,112,49,37,100,37,59,59,37,63,37,112,50,37,123,56,125,37,60,37,116,52,37,112,50,37,100,37,101,37,112,50,37,123,49,54,125,37,60,37,116,49,48,37,112,50,37,123,56,125,37,45,37,100,37,101,52,56,59,53,59,37,112,50,37,100,37,59,109]
/-- `"\x1b[39;49m"` -/
def stdResetFgBg : Bytes := [27,91,51,57,59,52,57,109]

/-- guard of terminfo.go:761-764 -/
def rgbAllEmpty (t : Terminfo) : Bool := t.setFgBgRGB.isEmpty && t.setFgRGB.isEmpty && t.setBgRGB.isEmpty

/-- terminfo.go:767-770 -/
def addRGB (t : Terminfo) : Terminfo :=
  { t with setFgRGB := stdSetFgRGB, setBgRGB := stdSetBgRGB, setFgBgRGB := stdSetFgBgRGB }

/-- terminfo.go:774-778 -/
def set256 (t : Terminfo) : Terminfo :=
  { t with colors := 256, setFg := stdSetFg256, setBg := stdSetBg256, setFgBg := stdSetFgBg256, resetFgBg := stdResetFgBg }

/-- One amendment of the found entry.  Pinned code: assignment through the pointer that was found (which is the
    registered one).  Repaired code: copy first, amend the copy, leave the registry alone. -/
def amend (copy : Bool) (R : Registry) (r : Res) (f : Terminfo → Terminfo) : Res × Registry :=
  match copy, r with
  | false, .ptr id => (.ptr id, R.update id f)
  | false, .fresh t => (.fresh (f t), R)
  | true, r => (.fresh (f (R.get r)), R)

/-- terminfo.go:750-779: the TCELL_TRUECOLOR switch and the two amendments, given the found entry and the flags -/
def finish (copy : Bool) (env : Env) (R : Registry) (r : Res) (addTC add256 : Bool) : Res × Registry :=
  let p := if env.finalTC addTC && rgbAllEmpty (R.get r) then amend copy R r addRGB else (r, R)
  if add256 then amend copy p.2 p.1 set256 else p

/-! ## suffix handling -/

def sfxTruecolor : Name := ['-','t','r','u','e','c','o','l','o','r']
def sfx256color : Name := ['-','2','5','6','c','o','l','o','r']
def sfx88color : Name := ['-','8','8','c','o','l','o','r']
def sfxColor : Name := ['-','c','o','l','o','r']

/-- terminfo.go:716-721 -/
def sufTrue : List Name := [sfx256color, sfx88color, sfxColor, []]
/-- terminfo.go:733-736 -/
def suf256 : List Name := [sfx88color, sfxColor]

/-- `strings.HasSuffix(name, suf)` together with `name[:len(name)-len(suf)]` -/
def stripSuffix (suf name : Name) : Option Name :=
  if suf.isSuffixOf name then some (name.take (name.length - suf.length)) else none

/-- the `for _, s := range suffixes { if t, _ = LookupTerminfo(base + s); t != nil { …; break } }` loops -/
def firstFound (look : Registry → Name → Option Res × Registry) (base : Name) :
    List Name → Registry → Option Res × Registry
  | [], R => (none, R)
  | s :: ss, R =>
    match look R (base ++ s) with
    | (some r, R') => (some r, R')
    | (none, R') => firstFound look base ss R'

/-- terminfo.go:712-729: the `TrueColor` flag of a direct hit, or the `-truecolor` search.
    Returns `t`, `addtruecolor`, registry. -/
def searchTC (look : Registry → Name → Option Res × Registry) (env : Env) (R : Registry) (name : Name) :
    Option Res × Bool × Registry :=
  match R.find name with
  | some id => (some (.ptr id), env.colortermOn || (R.deref id).trueColor, R)
  | none =>
    match stripSuffix sfxTruecolor name with
    | some base =>
      match firstFound look base sufTrue R with
      | (some r, R') => (some r, true, R')
      | (none, R') => (none, env.colortermOn, R')
    | none => (none, env.colortermOn, R)

/-- terminfo.go:732-744: the `-256color` search when nothing was found so far.  Returns `t`, `add256color`, registry. -/
def search256 (look : Registry → Name → Option Res × Registry) (t : Option Res) (R : Registry) (name : Name) :
    Option Res × Bool × Registry :=
  match t with
  | some r => (some r, false, R)
  | none =>
    match stripSuffix sfx256color name with
    | some base =>
      match firstFound look base suf256 R with
      | (some r, R') => (some r, true, R')
      | (none, R') => (none, false, R')
    | none => (none, false, R)

/-- body of `LookupTerminfo` with the recursive calls abstracted as `look` -/
def lookupBody (copy : Bool) (env : Env) (look : Registry → Name → Option Res × Registry)
    (R : Registry) (name : Name) : Option Res × Registry :=
  if name = [] then (none, R) else          -- 694-698
  let s1 := searchTC look env R name        -- 700-729
  let s2 := search256 look s1.1 s1.2.2 name -- 732-744
  match s2.1 with
  | none => (none, s2.2.2)                  -- 746-748 ErrTermNotFound
  | some r =>
    let p := finish copy env s2.2.2 r s1.2.1 s2.2.1  -- 750-779
    (some p.1, p.2)                         -- 780

/-- `LookupTerminfo` with explicit recursion fuel (out of fuel = not found; never happens, see `lookupF_fuel`) -/
def lookupF (copy : Bool) (env : Env) : Nat → Registry → Name → Option Res × Registry
  | 0, R, _ => (none, R)
  | fuel + 1, R, name => lookupBody copy env (lookupF copy env fuel) R name

def lookupG (copy : Bool) (env : Env) (R : Registry) (name : Name) : Option Res × Registry :=
  lookupF copy env (name.length + 1) R name

/-- `terminfo.LookupTerminfo` as pinned (amends the registered entry in place) -/
def lookup (env : Env) (R : Registry) (name : Name) : Option Res × Registry := lookupG false env R name

/-- `terminfo.LookupTerminfo` with `fixes/C14-lookup-copy.patch` (copies before amending) -/
def lookupRepaired (env : Env) (R : Registry) (name : Name) : Option Res × Registry := lookupG true env R name

/-- the entry value a lookup yields (what a caller can observe through the returned pointer right after the call) -/
def resultOf (p : Option Res × Registry) : Option Terminfo := p.1.map p.2.get

/-- a history of lookups; returns the observed entry values and the final registry -/
def runHistory (look : Registry → Name → Option Res × Registry) : Registry → List Name → List (Option Terminfo) × Registry
  | R, [] => ([], R)
  | R, n :: ns =>
    let p := look R n
    let q := runHistory look p.2 ns
    (resultOf p :: q.1, q.2)

end Tcell.Lookup
