import Tcell.Model.Keys
/-
Model of the terminfo screen's input parser, /repo/tscreen.go:1295-1812 (`collectEventsFromInput` and the six
parsers it tries in order), shared by C02, C03, C11 and C12.  Each Go parser `func (t *tScreen) parseX(buf, evs)
(partial, complete bool)` becomes a function `… → PState → Bytes → Verdict`:

  (true,  true)  ↦ `complete n evs st'`  (n bytes removed from the front of the buffer, events appended, new state)
  (true,  false) ↦ `part`
  (false, false) ↦ `reject`

The code is mirrored **as it is**, including the oddities of `parseClipboard` (terminator stripped relative to the
end of the buffer, 7-byte prefix skipped unchecked, `buf.ReadBytes` consumption) and `parseSgrMouse` (unknown bytes
ignored; `Cfg.sgrStrict` selects the repaired variant that rejects them), the X11 parser passing `Cb` with its +32 offset to `buildMouseEvent`, the `t.escaped` Alt handling and the
`t.buttondn` debounce.  `parseFunctionKey` iterates a Go map; the model returns the unique matching entry and the
explicit verdict `ambiguous` when two entries match (the Go result then depends on iteration order).
Go `int` arithmetic in the SGR parser is 64-bit two's complement (`wrap64`).  Core Lean only.
-/
namespace Tcell.Model

/-- canonical events (`K key rune mods | M x y btn mods | P start | F in | C data`) -/
inductive Event where
  | key (k : Nat) (r : Int) (m : Nat)
  | mouse (x y : Int) (btn : Nat) (m : Nat)
  | paste (start : Bool)
  | focus (focused : Bool)
  | clipboard (data : Bytes)
deriving DecidableEq, Repr, Inhabited

/-- the two parser registers of `tScreen` (tscreen.go:145-146) -/
structure PState where
  escaped : Bool := false
  buttondn : Bool := false
deriving DecidableEq, Repr, Inhabited

inductive Verdict where
  | complete (n : Nat) (evs : List Event) (st : PState)
  | part
  | reject
  | ambiguous
deriving DecidableEq, Repr, Inhabited

/-- what `decoder.Transform(utf, b[:l], atEOF = true)` reports for a prefix (tscreen.go:1682-1686):
`shortSrc` = `ErrShortSrc`; `out r nIn` = `nOut ≠ 0` with `r` the first rune of the output; `nothing` otherwise -/
inductive DecResult where
  | shortSrc
  | out (r : Int) (nIn : Nat)
  | nothing
deriving DecidableEq, Repr, Inhabited

structure Cfg where
  keys : KeyTable
  mouse : Bool          -- `t.ti.Mouse != ""`
  clipboard : Bool      -- `t.setClipboard != ""`
  dec : Bytes → DecResult
  w : Int
  h : Int
  /-- `false` = the pinned tree (X11 button byte passed to `buildMouseEvent` with its +32 offset, no button state);
  `true` = the repaired variant of fixes/C12-x11-offset.patch (offset removed, press/drag/release handled as in the SGR path) -/
  x11Fixed : Bool := false
  /-- `false` = the pinned `parseClipboard`; `true` = the repaired one of fixes/C02-clipboard.patch (`parseClipboardF`) -/
  clipFixed : Bool := false
  /-- `false` = the pinned `parseSgrMouse` (bytes with no `case` are skipped); `true` = the repaired one of
  fixes/C02-sgr-strict.patch (`default: return false, false`) -/
  sgrStrict : Bool := false

/-! ### NewEventKey (key.go:243-262) -/

def runeError : Int := 0xFFFD

/-- `NewEventKey(k, ch, mod)`: control runes and DEL passed as `KeyRune` become the key with that code, and get
`ModCtrl` when no modifier was given, except Backspace, Tab, Esc, Enter.  (`Key(ch)` is applied only to
`ch < ' '` or `ch = 0x7f`; the parser never passes a negative rune.) -/
def newEventKey (k : Nat) (ch : Int) (mod : Nat) : Event :=
  if k = keyRune ∧ (ch < 32 ∨ ch = 127) then
    let k' := ch.toNat
    if mod = modNone ∧ ch < 32 then
      if k' = keyBackspace ∨ k' = keyTab ∨ k' = keyEsc ∨ k' = keyEnter then .key k' ch mod
      else .key k' ch modCtrl
    else .key k' ch mod
  else .key k ch mod

/-- modifier contributed by a pending ESC -/
def altOf (st : PState) : Nat := if st.escaped then modAlt else modNone

/-! ### parseRune (tscreen.go:1660-1705) -/

/-- the `for l := 1; l <= len(b); l++` loop; `fuel` counts the remaining iterations -/
def runeLoop (dec : Bytes → DecResult) (st : PState) (b : Bytes) : (fuel : Nat) → (l : Nat) → Verdict
  | 0, _ => .part
  | fuel + 1, l =>
    match dec (b.take l) with
    | .shortSrc => runeLoop dec st b fuel (l + 1)
    | .nothing => runeLoop dec st b fuel (l + 1)
    | .out r nIn =>
      if r ≠ runeError then .complete nIn [newEventKey keyRune r (altOf st)] { st with escaped := false }
      else .complete nIn [] st

def parseRune (dec : Bytes → DecResult) (st : PState) (b : Bytes) : Verdict :=
  match b with
  | [] => .reject   -- never called on an empty buffer (Go would panic on b[0])
  | b0 :: _ =>
    if 32 ≤ b0 ∧ b0 ≤ 127 then
      .complete 1 [newEventKey keyRune (b0 : Int) (altOf st)] { st with escaped := false }
    else if b0 < 128 then .reject
    else runeLoop dec st b b.length 1

/-! ### parseFunctionKey (tscreen.go:1621-1658) -/

/-- the entries the Go loop could return on: not the lone-ESC entry, and a prefix of the buffer -/
def keyMatches (T : KeyTable) (b : Bytes) : List KeyEntry :=
  T.filter (fun e => !bytesEq e.seq [27] && hasPrefix b e.seq)

/-- some entry (not lone ESC) has the buffer as a prefix -/
def keyPartial (T : KeyTable) (b : Bytes) : Bool :=
  T.any (fun e => !bytesEq e.seq [27] && hasPrefix e.seq b)

def keyEvent (st : PState) (b : Bytes) (e : KeyEntry) : Verdict :=
  let r : Int := if e.seq.length = 1 then (b.headD 0 : Nat) else 0
  let mod := if st.escaped then e.mod ||| modAlt else e.mod
  let ev := if e.key = keyPasteStart then Event.paste true
            else if e.key = keyPasteEnd then Event.paste false
            else newEventKey e.key r mod
  .complete e.seq.length [ev] { st with escaped := false }

def parseFunctionKey (T : KeyTable) (st : PState) (b : Bytes) : Verdict :=
  match keyMatches T b with
  | [] => if keyPartial T b then .part else .reject
  | [e] => keyEvent st b e
  | _ => .ambiguous

/-! ### parseFocus (tscreen.go:1486-1513) -/

def parseFocus (st : PState) (b : Bytes) : Verdict :=
  match b with
  | [] => .part
  | c0 :: r0 =>
    if c0 ≠ 27 then .reject else
    match r0 with
    | [] => .part
    | c1 :: r1 =>
      if c1 ≠ 91 then .reject else
      match r1 with
      | [] => .part
      | c2 :: _ => if c2 = 73 ∨ c2 = 79 then .complete 3 [.focus (c2 = 73)] st else .reject

/-! ### clip / buildMouseEvent (tscreen.go:1295-1360) -/

def clip1 (v lim : Int) : Int :=
  let v := if v < 0 then 0 else v
  if v > lim - 1 then lim - 1 else v

/-- `buildMouseEvent(x, y, btn)`.  Go's `&` on `int` looks only at bits 0..6 here, i.e. at `btn mod 128`
(two's complement = Euclidean remainder).  `btn & 0x43` selects the button, bits 2,3,4 Shift, Alt, Ctrl. -/
def buildMouseEvent (cfg : Cfg) (x y btn : Int) : Event :=
  let c := (btn % 128).toNat
  let sel := c % 4 + 64 * (c / 64)
  let button : Nat :=
    if sel = 0 then 1          -- Button1
    else if sel = 1 then 4     -- Button3 ("we prefer to treat right as button 2")
    else if sel = 2 then 2     -- Button2
    else if sel = 3 then 0
    else if sel = 64 then 256  -- WheelUp
    else if sel = 65 then 512  -- WheelDown
    else 0
  let mod := (if c / 4 % 2 = 1 then modShift else 0) + (if c / 8 % 2 = 1 then modAlt else 0)
             + (if c / 16 % 2 = 1 then modCtrl else 0)
  .mouse (clip1 x cfg.w) (clip1 y cfg.h) button mod

/-! ### parseSgrMouse (tscreen.go:1367-1484) -/

/-- Go `int` (64-bit two's complement) -/
def wrap64 (v : Int) : Int := (v + 9223372036854775808) % 18446744073709551616 - 9223372036854775808

structure SgrSt where
  state : Nat := 0
  val : Int := 0
  dig : Bool := false
  neg : Bool := false
  btn : Int := 0
  x : Int := 0
deriving DecidableEq, Repr, Inhabited

inductive SgrRes where
  | cont (s : SgrSt)
  | rej
  | fin (x y btn : Int) (release : Bool)
deriving DecidableEq, Repr

def inNum (s : SgrSt) : Bool := s.state == 3 || s.state == 4 || s.state == 5

/-- value of the number just read (`if neg { val = -val }`) -/
def sgrVal (s : SgrSt) : Int := if s.neg then wrap64 (-s.val) else s.val

/-- one iteration of the `for i = range b { switch b[i] {…} }` loop; bytes with no `case` are ignored -/
def sgrStep (s : SgrSt) (c : Nat) : SgrRes :=
  if c = 27 then (if s.state ≠ 0 then .rej else .cont { s with state := 1 })
  else if c = 0x9b then (if s.state ≠ 0 then .rej else .cont { s with state := 2 })
  else if c = 91 then (if s.state ≠ 1 then .rej else .cont { s with state := 2 })
  else if c = 60 then (if s.state ≠ 2 then .rej else .cont { s with state := 3, val := 0, dig := false, neg := false })
  else if c = 45 then
    (if !inNum s then .rej else if s.dig || s.neg then .rej else .cont { s with neg := true })
  else if 48 ≤ c ∧ c ≤ 57 then
    (if !inNum s then .rej else .cont { s with val := wrap64 (s.val * 10 + ((c : Int) - 48)), dig := true })
  else if c = 59 then
    (if s.state = 3 then .cont { s with btn := sgrVal s, val := 0, neg := false, dig := false, state := 4 }
     else if s.state = 4 then .cont { s with x := wrap64 (sgrVal s - 1), val := 0, neg := false, dig := false, state := 5 }
     else .rej)
  else if c = 109 ∨ c = 77 then
    (if s.state ≠ 5 then .rej else .fin s.x (wrap64 (sgrVal s - 1)) s.btn (c = 109))
  else .cont s

/-- the bytes that have a `case` in the switch of `parseSgrMouse`: `ESC 0x9B [ < - 0…9 ; m M` -/
def sgrKnown (c : Nat) : Bool :=
  c == 27 || c == 0x9b || c == 91 || c == 60 || c == 45 || (48 ≤ c && c ≤ 57) || c == 59 || c == 109 || c == 77

/-- one iteration of the loop of the tree under test: with fixes/C02-sgr-strict.patch (`strict`) the switch has
`default: return false, false`, i.e. a byte without a `case` rejects; the cases themselves are unchanged -/
def sgrStepV (strict : Bool) (s : SgrSt) (c : Nat) : SgrRes :=
  if strict && !sgrKnown c then .rej else sgrStep s c

/-- button code handed to `buildMouseEvent` (bits 0..6) and the new `buttondn` (tscreen.go:1449-1471) -/
def sgrButtons (st : PState) (btn : Int) (release : Bool) : Nat × Bool :=
  let c := (btn % 128).toNat
  let motion := c / 32 % 2 = 1            -- btn & 32
  let scroll := c / 64 % 2 = 1 ∧ c / 2 % 2 = 0   -- (btn & 0x42) == 0x40
  let c1 := c - 32 * (c / 32 % 2)         -- btn &^= 32
  let none := c1 - c1 % 4 + 3 - 64 * (c1 / 64 % 2)   -- btn |= 3; btn &^= 0x40
  if release then (none, false)
  else if motion then (if st.buttondn then (c1, st.buttondn) else (none, st.buttondn))
  else if scroll then (c1, st.buttondn)
  else (c1, true)

def sgrFinish (cfg : Cfg) (st : PState) (x y btn : Int) (release : Bool) (consumed : Nat) : Verdict :=
  let (c, dn) := sgrButtons st btn release
  .complete consumed [buildMouseEvent cfg x y (c : Int)] { st with buttondn := dn }

/-! ### parseXtermMouse (tscreen.go:1572-1619); placed after `sgrFinish`, which the repaired variant shares -/

/-- states 2.. of the X11 parser: after the introducer (`n` bytes long) expect `M Cb Cx Cy` -/
def x11Body (cfg : Cfg) (st : PState) (n : Nat) (r : Bytes) : Verdict :=
  match r with
  | [] => .part
  | m :: r2 =>
    if m ≠ 77 then .reject else
    match r2 with
    | cb :: cx :: cy :: _ =>
      if cfg.x11Fixed then
        -- repaired variant: btn = int(b[i]) - 32, then the motion / release / press bookkeeping of the SGR path;
        -- an X11 release is the code with low bits 3 and no wheel bit
        let c := (((cb : Int) - 32) % 128).toNat
        let rel : Bool := c % 4 = 3 ∧ c / 64 % 2 = 0 ∧ c / 32 % 2 = 0
        sgrFinish cfg st ((cx : Int) - 32 - 1) ((cy : Int) - 32 - 1) ((cb : Int) - 32) rel (n + 4)
      else
      -- tscreen.go:1603-1609: btn = int(b[i]) (offset 32 NOT removed), x = int(b[i]) - 32 - 1
      .complete (n + 4) [buildMouseEvent cfg ((cx : Int) - 32 - 1) ((cy : Int) - 32 - 1) (cb : Int)] st
    | _ => .part

def parseXtermMouse (cfg : Cfg) (st : PState) (b : Bytes) : Verdict :=
  match b with
  | [] => .part
  | c0 :: r0 =>
    if c0 = 27 then
      match r0 with
      | [] => .part
      | c1 :: r1 => if c1 ≠ 91 then .reject else x11Body cfg st 2 r1
    else if c0 = 0x9b then x11Body cfg st 1 r0
    else .reject

def sgrRun (cfg : Cfg) (st : PState) : SgrSt → Bytes → (i : Nat) → Verdict
  | _, [], _ => .part
  | s, c :: rest, i =>
    match sgrStepV cfg.sgrStrict s c with
    | .rej => .reject
    | .cont s' => sgrRun cfg st s' rest (i + 1)
    | .fin x y btn rel => sgrFinish cfg st x y btn rel (i + 1)

def parseSgrMouse (cfg : Cfg) (st : PState) (b : Bytes) : Verdict := sgrRun cfg st {} b 0

/-! ### parseClipboard (tscreen.go:1515-1568) -/

def isB64 (c : Nat) : Bool :=
  (65 ≤ c && c ≤ 90) || (97 ≤ c && c ≤ 122) || (48 ≤ c && c ≤ 57) || c == 43 || c == 47 || c == 61

/-- value of a base64 alphabet character (standard alphabet), `none` for anything else incl. '=' -/
def b64Val (c : Nat) : Option Nat :=
  if 65 ≤ c ∧ c ≤ 90 then some (c - 65)
  else if 97 ≤ c ∧ c ≤ 122 then some (c - 71)
  else if 48 ≤ c ∧ c ≤ 57 then some (c + 4)
  else if c = 43 then some 62
  else if c = 47 then some 63
  else none

/-- `base64.StdEncoding.Decode` on input with CR/LF already removed (Go skips them everywhere): quanta of four;
padding only in the last quantum (`xx==`, `xxx=`) and nothing after it; `none` = the `err != nil` result -/
def b64Quanta : (fuel : Nat) → Bytes → Option Bytes
  | 0, _ => some []
  | _ + 1, [] => some []
  | fuel + 1, c0 :: c1 :: c2 :: c3 :: rest =>
    match b64Val c0, b64Val c1 with
    | some v0, some v1 =>
      match b64Val c2 with
      | some v2 =>
        match b64Val c3 with
        | some v3 =>
          let n := v0 * 262144 + v1 * 4096 + v2 * 64 + v3
          (b64Quanta fuel rest).map (fun t => n / 65536 % 256 :: n / 256 % 256 :: n % 256 :: t)
        | none =>
          if c3 = 61 ∧ rest = [] then
            let n := v0 * 262144 + v1 * 4096 + v2 * 64
            some [n / 65536 % 256, n / 256 % 256]
          else none
      | none =>
        if c2 = 61 ∧ c3 = 61 ∧ rest = [] then
          let n := v0 * 262144 + v1 * 4096
          some [n / 65536 % 256]
        else none
    | _, _ => none
  | _ + 1, _ => none   -- 1..3 characters left: CorruptInputError (StdEncoding pads)

def b64Decode (src : Bytes) : Option Bytes :=
  let s := src.filter (fun c => c != 10 && c != 13)
  b64Quanta (s.length + 1) s

/-- `buf.ReadBytes(delim)`: bytes up to and including the first `delim` (all of the buffer if there is none) -/
def readBytesLen (b : Bytes) (delim : Nat) : Nat :=
  match b with
  | [] => 0
  | c :: r => if c = delim then 1 else 1 + readBytesLen r delim

/-- events of a terminated reply: `data` is what the code hands to the base64 decoder -/
def clipEvents (data : Bytes) : List Event :=
  match b64Decode data with
  | some d => [.clipboard d]
  | none => []

/-- the `for _, c := range b` loop after the unchecked 7-byte skip; `whole` is the complete buffer, `body = whole[7:]` -/
def clipLoop (st : PState) (whole body : Bytes) : (state : Nat) → Bytes → Verdict
  | _, [] => .part
  | 0, c :: rest =>
    if isB64 c then clipLoop st whole body 0 rest
    else if c = 27 then clipLoop st whole body 1 rest
    else if c = 7 then
      -- b = b[:len(b)-1] drops the LAST byte of the buffer, not the BEL just seen (tscreen.go:1542)
      .complete (readBytesLen whole 7) (clipEvents body.dropLast) st
    else .reject
  | _ + 1, c :: _ =>
    if c = 92 then
      -- b = b[:len(b)-2] (tscreen.go:1554); buf.ReadBytes('\\') consumes up to the first backslash of the buffer
      .complete (readBytesLen whole 92) (clipEvents (body.dropLast.dropLast)) st
    else .reject

def clipPrefix : Bytes := [27, 93, 53, 50, 59, 99, 59]

def parseClipboard (st : PState) (b : Bytes) : Verdict :=
  if b.length ≤ 7 then (if hasPrefix clipPrefix b then .part else .reject)
  else clipLoop st b (b.drop 7) 0 (b.drop 7)

/-! ### parseClipboard as repaired by fixes/C02-clipboard.patch

```go
if !bytes.HasPrefix(b, prefix) { return false, false }      // the 7 prefix bytes are checked
b = b[len(prefix):]
for i, c := range b {                                       // `seen` below is b[:i]
    … case '\a':  b = b[:i];   decode; buf.Next(len(prefix) + i + 1); return true, true
    … case '\\':  b = b[:i-1]; decode; buf.Next(len(prefix) + i + 1); return true, true   // state 1: b[i-1] is the ESC
```
-/

/-- the repaired loop: `seen = b[:i]` are the payload bytes already scanned (in state 1 the last one is the ESC) -/
def clipLoopF (st : PState) : (state : Nat) → (seen : Bytes) → Bytes → Verdict
  | _, _, [] => .part
  | 0, seen, c :: rest =>
    if isB64 c then clipLoopF st 0 (seen ++ [c]) rest
    else if c = 27 then clipLoopF st 1 (seen ++ [c]) rest
    else if c = 7 then .complete (7 + seen.length + 1) (clipEvents seen) st
    else .reject
  | _ + 1, seen, c :: _ =>
    if c = 92 then .complete (7 + seen.length + 1) (clipEvents seen.dropLast) st
    else .reject

def parseClipboardF (st : PState) (b : Bytes) : Verdict :=
  if b.length ≤ 7 then (if hasPrefix clipPrefix b then .part else .reject)
  else if !hasPrefix b clipPrefix then .reject
  else clipLoopF st 0 [] (b.drop 7)

/-- the clipboard parser of the tree under test -/
def parseClipboardV (fixed : Bool) : PState → Bytes → Verdict :=
  if fixed then parseClipboardF else parseClipboard

/-! ### collectEventsFromInput (tscreen.go:1722-1812) -/

inductive Step where
  | emit (evs : List Event) (st : PState) (rest : Bytes)
  | wait
  | ambiguous
deriving DecidableEq, Repr, Inhabited

/-- the parsers in the order of `collectEventsFromInput`; mouse and clipboard parsers only when configured -/
def parsers (cfg : Cfg) : List (PState → Bytes → Verdict) :=
  [parseRune cfg.dec, parseFunctionKey cfg.keys, parseFocus]
  ++ (if cfg.mouse then [parseXtermMouse cfg, parseSgrMouse cfg] else [])
  ++ (if cfg.clipboard then [parseClipboardV cfg.clipFixed] else [])

/-- the fall-through of tscreen.go:1781-1804: a lone ESC becomes `KeyEsc`, an ESC followed by more sets
`escaped`, any other byte is delivered as `KeyRune` -/
def fallThrough (st : PState) (b : Bytes) : Step :=
  match b with
  | [] => .wait
  | b0 :: rest =>
    if b0 = 27 then
      (match rest with
       | [] => .emit [newEventKey keyEsc 0 modNone] { st with escaped := false } []
       | _ => .emit [] { st with escaped := true } rest)
    else .emit [newEventKey keyRune (b0 : Int) (altOf st)] { st with escaped := false } rest

/-- try the parsers in order: first `complete` wins; `partials` counts the ones that reported partial -/
def tryParsers (st : PState) (b : Bytes) (expire : Bool) : List (PState → Bytes → Verdict) → (partials : Nat) → Step
  | [], partials => if partials = 0 ∨ expire then fallThrough st b else .wait
  | p :: ps, partials =>
    match p st b with
    | .complete n evs st' => .emit evs st' (b.drop n)
    | .part => tryParsers st b expire ps (partials + 1)
    | .reject => tryParsers st b expire ps partials
    | .ambiguous => .ambiguous

/-- one iteration of the `for` loop on a non-empty buffer -/
def step1 (cfg : Cfg) (st : PState) (b : Bytes) (expire : Bool) : Step :=
  tryParsers st b expire (parsers cfg) 0

/-- result of a `Feed`: events, new state, bytes still buffered; `amb` is set when the run stopped at an
order-dependent function-key match -/
structure Collected where
  evs : List Event
  st : PState
  rest : Bytes
  amb : Bool := false
deriving DecidableEq, Repr

def collectAux (cfg : Cfg) (expire : Bool) : (fuel : Nat) → PState → Bytes → Collected
  | 0, st, b => ⟨[], st, b, false⟩
  | fuel + 1, st, b =>
    match b with
    | [] => ⟨[], st, [], false⟩
    | _ :: _ =>
      match step1 cfg st b expire with
      | .wait => ⟨[], st, b, false⟩
      | .ambiguous => ⟨[], st, b, true⟩
      | .emit evs st' rest =>
        let r := collectAux cfg expire fuel st' rest
        { r with evs := evs ++ r.evs }

/-- `collectEventsFromInput(buf, expire)`; fuel = buffer length (every productive iteration removes ≥ 1 byte) -/
def collect (cfg : Cfg) (st : PState) (b : Bytes) (expire : Bool) : Collected :=
  collectAux cfg expire b.length st b

/-! ### decoders -/

/-- `utf8.DecodeRune` (unicode/utf8): (rune, size); invalid or incomplete input gives (U+FFFD, 1), empty (U+FFFD, 0) -/
def utf8DecodeRune (p : Bytes) : Int × Nat :=
  let cont (c : Nat) : Bool := 0x80 ≤ c && c ≤ 0xBF
  match p with
  | [] => (runeError, 0)
  | b0 :: r =>
    if b0 < 0x80 then ((b0 : Int), 1)
    else if b0 < 0xC2 then (runeError, 1)
    else if b0 < 0xE0 then
      (match r with
       | b1 :: _ => if cont b1 then ((((b0 - 0xC0) * 64 + (b1 - 0x80) : Nat) : Int), 2) else (runeError, 1)
       | _ => (runeError, 1))
    else if b0 < 0xF0 then
      (match r with
       | b1 :: b2 :: _ =>
         let lo := if b0 = 0xE0 then 0xA0 else 0x80
         let hi := if b0 = 0xED then 0x9F else 0xBF
         if lo ≤ b1 ∧ b1 ≤ hi ∧ cont b2 then
           ((((b0 - 0xE0) * 4096 + (b1 - 0x80) * 64 + (b2 - 0x80) : Nat) : Int), 3)
         else (runeError, 1)
       | _ => (runeError, 1))
    else if b0 < 0xF5 then
      (match r with
       | b1 :: b2 :: b3 :: _ =>
         let lo := if b0 = 0xF0 then 0x90 else 0x80
         let hi := if b0 = 0xF4 then 0x8F else 0xBF
         if lo ≤ b1 ∧ b1 ≤ hi ∧ cont b2 ∧ cont b3 then
           ((((b0 - 0xF0) * 262144 + (b1 - 0x80) * 4096 + (b2 - 0x80) * 64 + (b3 - 0x80) : Nat) : Int), 4)
         else (runeError, 1)
       | _ => (runeError, 1))
    else (runeError, 1)

/-- `encoding.UTF8Validator.Transform(dst[12], src, atEOF = true)` (golang.org/x/text/encoding/encoding.go:301):
copies leading valid runes; stops with `ErrInvalidUTF8` at the first invalid or truncated one; returns the count -/
def utf8Validate : (fuel : Nat) → (i : Nat) → (n : Nat) → Bytes → Nat
  | 0, i, _, _ => i
  | fuel + 1, i, n, src =>
    if i ≥ n then i else
    match src with
    | [] => i
    | c :: rest =>
      if c < 0x80 then utf8Validate fuel (i + 1) n rest
      else
        let size := (utf8DecodeRune src).2
        if size = 1 then i
        else if i + size > 12 then i
        else utf8Validate fuel (i + size) n (src.drop size)

/-- the decoder instance for charset UTF-8: never `ErrShortSrc` (atEOF = true); `nOut = nIn` = validated length -/
def decUtf8 (p : Bytes) : DecResult :=
  let n := utf8Validate (p.length + 1) 0 (min p.length 12) p
  if n = 0 then .nothing else .out (utf8DecodeRune p).1 n

/-- decoder instance for a single-byte charset given by the runes of bytes 0x80..0xFF (`tbl`, 128 entries):
one input byte, always some output (unmapped bytes decode to U+FFFD, which parseRune drops) -/
def decTable (tbl : List Int) (p : Bytes) : DecResult :=
  match p with
  | [] => .nothing
  | b0 :: _ => if b0 < 128 then .out (b0 : Int) p.length else .out (tbl.getD (b0 - 128) runeError) p.length

/-- configuration of the parser of a screen built for `ti` -/
def cfgOf (v : Variant) (ti : Terminfo) (dec : Bytes → DecResult) (w h : Int) : Cfg :=
  { keys := buildKeys v.keycaps ti, mouse := mouseActive ti, clipboard := clipboardActive ti, dec := dec, w := w, h := h,
    x11Fixed := v.x11, clipFixed := v.clip, sgrStrict := v.sgr }

end Tcell.Model
