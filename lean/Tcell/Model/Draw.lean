/-
Model of the draw path of tScreen (tscreen.go): Show / Sync / resize / draw / drawCell / showCursor /
hideCursor / clearScreen, over the CellBuffer model.  The model produces *abstract commands*; their
rendering to bytes (TPuts/TParm of capability strings) is `Tcell.Model.Render`.  Core-only, executable.

What is a parameter (trusted base): `rw` rune width; `payload` = the bytes encodeRune emits for a cell's
main+combining runes (Model/Encode instantiates it; for UTF-8 it is the UTF-8 encoding).
-/
import Tcell.Model.Cell
import Tcell.Model.LockRegion
namespace Tcell

def attrInvalid : Nat := 2^31
/-- style.go:40 -/
def styleInvalid : Style := { attrs := attrInvalid }

/-- THE SWITCH for the locked-neighbour repair (fixes/C13-wide-left-of-locked.patch): `false` = pinned tree (a wide rune in
    the column left of a locked cell is written as a two-column glyph, tscreen.go:943), `true` once the patch is committed
    in /repo: drawCell shows such a rune as a blank of width 1 (the policy of the last column) and LockRegion(…, false)
    marks a wide rune just left of the unlocked region dirty so that it is drawn again.  The constant is only the
    *default* of `DrawCfg.guardLocked`: both behaviours stay modelled, the theorems quantify over the configuration, and
    the correspondence driver takes the variant from the case line (`+lg` after the entry name, see Driver/Draw.lean). -/
def currentGuardsLockedNeighbour : Bool := true

/-- THE SWITCH for fixes/C13-locked-wide-walk.patch (proposed, NOT in /repo): `false` = the tree as it is — drawCell
    narrows a wide rune whose right neighbour is locked only when it *paints* it, so the width it returns to the draw
    loop (and hence which columns the loop skips) depends on whether the cell happened to be dirty; `true` = the narrowing is
    decided before the Dirty check, the loop's walk depends on contents and locks only.  See finding C13-locked-wide-walk. -/
def currentWalkGuard : Bool := true

/-- static configuration of a screen as far as drawing is concerned -/
structure DrawCfg where
  rw : Rune → Int
  payload : Rune → List Rune → List Nat        -- bytes written for (main, comb) by the encodeRune loop (tscreen.go:922-929)
  hasHide : Bool                                -- ti.HideCursor ≠ ""
  hasCursorStyle : Nat → Bool := fun _ => false -- t.cursorStyles has an entry for this style (tscreen.go:979)
  hasCursorRGB : Bool := false                  -- t.cursorRGB ≠ "" (always, after prepareCursorStyles)
  cornerTrick : Bool                            -- ti.AutoMargin ∧ ti.DisableAutoMargin = "" ∧ ti.InsertChar ≠ ""  (tscreen.go:815)
  guardLocked : Bool := currentGuardsLockedNeighbour  -- drawCell tests `t.cells.locked(x+1, y)` (repaired tree only)
  fillZW : Bool := currentFillBlanksZeroWidth         -- CellBuffer.Fill stores a blank for a zero-width rune (fixes/C09-fill-zero-width.patch)
  walkGuard : Bool := currentWalkGuard                -- drawCell applies that test *before* the Dirty check (proposed fix)

/-- the configurations the Layer-A invariant proofs of C01/C13 cover: no bottom-right insert-character trick; the
    locked-neighbour guard of drawCell may be compiled in or not (`guardLocked` arbitrary: the pinned tree, the tree
    repaired by fixes/C13-wide-left-of-locked.patch, and — `walkGuard = true`, which presupposes `guardLocked` — the tree
    with fixes/C13-locked-wide-walk.patch on top). -/
structure DrawCfg.Plain (c : DrawCfg) : Prop where
  ct : c.cornerTrick = false
  wg : c.walkGuard = true → c.guardLocked = true

/-- every configuration, the bottom-right insert-character trick included (`cornerTrick` arbitrary): all that is asked is
    that the walk fix presupposes the locked-neighbour guard.  The Layer-A invariant of C01/C13 is carried through the
    trick branch under the side condition `CornerSafe` (Lemmas/DrawDefs.lean). -/
structure DrawCfg.Walk (c : DrawCfg) : Prop where
  wg : c.walkGuard = true → c.guardLocked = true

theorem DrawCfg.Plain.walk {c : DrawCfg} (h : c.Plain) : c.Walk := ⟨h.wg⟩

/-- abstract commands emitted by the draw path, in order; `Render.render` turns each into bytes -/
inductive Cmd where
  | goto (x y : Int)                            -- TPuts(TGoto(x,y))
  | setPen (s : Style)                          -- the whole `if style != t.curstyle` block of drawCell (tscreen.go:841-910)
  | put (bytes : List Nat) (width : Int)        -- writeString(str): cell payload occupying `width` columns
  | hideCursor                                  -- TPuts(ti.HideCursor)
  | showCursor (style color : Nat)              -- cnorm + cursor style + cursor colour (tscreen.go:978-991), after a goto
  | clear (s : Style)                           -- clearScreen (tscreen.go:1027): sgr0, exitUrl, colours of `s`, clear
  | insertChar                                  -- TPuts(ti.InsertChar)
deriving Repr, DecidableEq

/-- the mutable fields of tScreen the draw path reads and writes -/
structure Scr where
  w : Int := 0
  h : Int := 0
  cells : Buf := {}
  style : Style := {}
  curstyle : Style := {}
  cx : Int := -1
  cy : Int := -1
  cursorx : Int := -1
  cursory : Int := -1
  cursorStyle : Nat := 0
  cursorColor : Nat := 0
  clear : Bool := false
  fini : Bool := false
  cursorShaped : Bool := false   -- a non-default cursor shape has been sent
  cursorTinted : Bool := false   -- a cursor colour has been sent


namespace Scr

/-- tscreen.go:1035 hideCursor -/
def hideCursor (c : DrawCfg) (s : Scr) : Scr × List Cmd :=
  if c.hasHide then (s, [.hideCursor])
  else
    let s' := { s with cx := s.cells.w, cy := s.cells.h }
    (s', [.goto s'.cx s'.cy])

/-- tscreen.go:1027 clearScreen -/
def clearScreen (s : Scr) : Scr × List Cmd := ({ s with clear := false }, [.clear s.style])

/-- the text a dirty cell is painted with: (bytes, columns occupied, cursor known afterwards?) — tscreen.go:916-948 -/
def cellText (c : DrawCfg) (w x : Int) (mainc : Rune) (combc : List Rune) (width : Int) : List Nat × Int :=
  let width1 := if width < 1 then 1 else width
  let str := c.payload mainc combc
  let str := if width1 > 1 ∧ str = [63] then [63, 32] else str
  if x > w - width1 then ([32], 1) else (str, width1)

/-- repaired tree only (fixes/C13-wide-left-of-locked.patch): `if x > t.w-width || (width > 1 && t.cells.locked(x+1, y))`
    — `nl` = the guard is compiled in and the next column is locked: the wide rune is shown as a blank of width 1 -/
def cellTextG (c : DrawCfg) (w x : Int) (mainc : Rune) (combc : List Rune) (width : Int) (nl : Bool) : List Nat × Int :=
  if nl = true ∧ width > 1 then ([32], 1) else cellText c w x mainc combc width

/-- painting part of drawCell for a dirty cell once the cursor is in place (tscreen.go:838-948) -/
def paint (c : DrawCfg) (s : Scr) (x y : Int) : Scr × List Cmd × Int :=
  let (mainc, combc, style, width) := s.cells.getContent x y
  let style := if style = ({} : Style) then s.style else style
  let penCmds := if style ≠ s.curstyle then [Cmd.setPen style] else []
  let (str, width2) := cellTextG c s.w x mainc combc width (c.guardLocked && s.cells.locked (x + 1) y)
  let cx := if width2 > 1 then -1 else s.cx + width2
  ({ s with curstyle := style, cx := cx, cells := s.cells.setDirty x y false }, penCmds ++ [.put str width2], width2)

/-- what drawCell returns for a cell that is not dirty (tscreen.go:819-822): GetContent's width; with
    fixes/C13-locked-wide-walk.patch a wide rune whose right neighbour is locked counts one column here too -/
def retWidth (c : DrawCfg) (s : Scr) (x y : Int) : Int :=
  if c.walkGuard = true ∧ (s.cells.getContent x y).2.2.2 > 1 ∧ s.cells.locked (x + 1) y = true then 1
  else (s.cells.getContent x y).2.2.2

/-- drawCell without the bottom-right corner trick (tscreen.go:806-813, 832-836, then `paint`) -/
def drawCellPlain (c : DrawCfg) (s : Scr) (x y : Int) : Scr × List Cmd × Int :=
  if ¬ s.cells.dirty x y then (s, [], s.retWidth c x y)
  else
    let (s1, g) := if s.cy ≠ y ∨ s.cx ≠ x then ({ s with cx := x, cy := y }, [Cmd.goto x y]) else (s, [])
    let (s2, cmds, wd) := paint c s1 x y
    (s2, g ++ cmds, wd)

/-- start column of the cell that covers column `x - 1` of row `y` in the row-major scan of `draw`: the Go loop
`px := 0; for cx := 0; cx < x; { w := width(cx, y) (at least 1); px = cx; cx += w }` of the repaired corner trick
(fix "the corner trick repaints the wide character it clobbered"); fuel = number of columns -/
def coverStart (cells : Buf) (y : Int) : Nat → Int → Int → Int
  | 0, cx, _ => cx
  | fuel + 1, cx, x =>
    let w := (cells.getContent cx y).2.2.2
    let w := if w < 1 then 1 else w
    if cx + w < x then coverStart cells y fuel (cx + w) x else cx

/-- `true`: the tree repaints, after `ich1`, the cell that *covers* the second to last column (the wide character whose
right half the trick clobbered); `false`: the pinned tree, which always repaints column `x - 1` itself -/
def currentCornerRepaintsCover : Bool := true

/-- the column repainted after `ich1` in the corner trick -/
def cornerPx (s1 : Scr) (x y : Int) : Int :=
  if currentCornerRepaintsCover then coverStart s1.cells y x.toNat 0 x else x - 1

/-- tscreen.go:806 drawCell -/
def drawCell (c : DrawCfg) (s : Scr) (x y : Int) : Scr × List Cmd × Int :=
  if ¬ s.cells.dirty x y then (s, [], s.retWidth c x y)
  else if y = s.h - 1 ∧ x = s.w - 1 ∧ c.cornerTrick then
    -- write what belongs in the last cell one column to the left, shift it into place with ich1, repaint the neighbour
    let (s1, cmds1, wd) := paint c s x y
    let px := cornerPx s1 x y
    let s2 := { s1 with cy := y, cx := x - 1, cells := s1.cells.setDirty px y true }
    let (s3, cmds3, _) := drawCellPlain c s2 px y
    ({ s3 with cx := 0, cy := 0 },
     [Cmd.goto (x - 1) y] ++ cmds1 ++ [.goto (x - 1) y, .insertChar] ++ cmds3 ++ [.goto 0 0], wd)
  else drawCellPlain c s x y

/-- one row of the double loop of draw (tscreen.go:1067-1080); fuel = number of columns left -/
def drawRow (c : DrawCfg) (y : Int) : Nat → Int → Scr → Scr × List Cmd
  | 0, _, s => (s, [])
  | fuel + 1, x, s =>
    if x < s.w then
      let (s1, cmds, width) := drawCell c s x y
      let s2 := if width > 1 ∧ x + 1 < s1.w then { s1 with cells := s1.cells.setDirty (x + 1) y true } else s1
      let (s3, rest) := drawRow c y fuel (x + width) s2
      (s3, cmds ++ rest)
    else (s, [])

def drawRows (c : DrawCfg) : Nat → Int → Scr → Scr × List Cmd
  | 0, _, s => (s, [])
  | fuel + 1, y, s =>
    if y < s.h then
      let (s1, cmds) := drawRow c y s.w.toNat 0 s
      let (s2, rest) := drawRows c fuel (y + 1) s1
      (s2, cmds ++ rest)
    else (s, [])

/-- tscreen.go:969 showCursor -/
def showCursor (c : DrawCfg) (s : Scr) : Scr × List Cmd :=
  let x := s.cursorx
  let y := s.cursory
  if x < 0 ∨ y < 0 ∨ x ≥ s.cells.w ∨ y ≥ s.cells.h then hideCursor c s
  else
    let shaped := if c.hasCursorStyle s.cursorStyle then decide (s.cursorStyle ≠ 0) else s.cursorShaped
    let tinted :=
      if c.hasCursorRGB then
        (if s.cursorColor = colorReset then false else if s.cursorColor / 2^32 % 2 = 1 then true else s.cursorTinted)
      else s.cursorTinted
    ({ s with cx := x, cy := y, cursorShaped := shaped, cursorTinted := tinted },
     [.goto x y, .showCursor s.cursorStyle s.cursorColor])

/-- tscreen.go:1047 draw -/
def draw (c : DrawCfg) (s : Scr) : Scr × List Cmd :=
  let s := { s with cx := -1, cy := -1, curstyle := styleInvalid }
  let (s, c1) := hideCursor c s
  let (s, c2) := if s.clear then clearScreen s else (s, [])
  let (s, c3) := drawRows c s.h.toNat 0 s
  let (s, c4) := showCursor c s
  (s, c1 ++ c2 ++ c3 ++ c4)

/-- tscreen.go:1194 resize, given what tty.WindowSize() reports (none = error) -/
def resize (s : Scr) (ws : Option (Int × Int)) : Scr :=
  match ws with
  | none => s
  | some (w, h) =>
    if w = s.w ∧ h = s.h then s
    else { s with cx := -1, cy := -1, cells := (s.cells.resize w h).invalidate, w := w, h := h }

/-- tscreen.go:1018 Show -/
def «show» (c : DrawCfg) (s : Scr) (ws : Option (Int × Int)) : Scr × List Cmd :=
  if s.fini then (s, []) else draw c (s.resize ws)

/-- `t.cx = -1; t.cy = -1` -/
def forgetCursor (s : Scr) : Scr := { s with cx := -1, cy := -1 }

/-- what Sync does before drawing: forget the cursor, resize, request a clear, invalidate (tscreen.go:1902-1907) -/
def prepSync (s : Scr) (ws : Option (Int × Int)) : Scr :=
  let s1 := s.forgetCursor.resize ws
  { s1 with clear := true, cells := s1.cells.invalidate }

/-- tscreen.go:1900 Sync -/
def sync (c : DrawCfg) (s : Scr) (ws : Option (Int × Int)) : Scr × List Cmd :=
  if s.fini then (s.forgetCursor, []) else draw c (s.prepSync ws)

/-- what the resize branch of mainLoop does before drawing (tscreen.go:1825-1828) -/
def prepResize (s : Scr) (ws : Option (Int × Int)) : Scr :=
  let s1 := s.forgetCursor.resize ws
  { s1 with cells := s1.cells.invalidate }

/-- the resize branch of mainLoop (tscreen.go:1823-1831) -/
def onResize (c : DrawCfg) (s : Scr) (ws : Option (Int × Int)) : Scr × List Cmd :=
  draw c (s.prepResize ws)

end Scr
end Tcell
