/-
Model of `(*Terminfo).TParm` (terminfo/terminfo.go:340-589) with its stack (256-297) and the package
global static variables `svars` (300), byte at a time, with the `skip` register exactly as in the Go code.

* Go `int` is 64 bit: every arithmetic result goes through `wrap64`.
* `Value` = what the Go `interface{}` on the stack / in `params` can hold: `int` or `string`.
  A parameter that was not supplied is the nil interface: `PopInt` gives 0 and `PopString` gives "" for it,
  which is exactly the behaviour of `.str []` (`strconv.Atoi("") = 0`), so absent parameters are `.str []`.
* variables (`dvars`, `svars`) hold strings (Go: `[26]string`), `%P` stores `PopString`, `%g` pushes the string.
* `NextCh` at the end of the input returns the zero byte (the error is ignored at every inner call site), so
  inner reads use `hd0`.
* `string(ch)` of a byte ≥ 0x80 is the UTF-8 encoding of U+00ch (two bytes): `strOfByte`.
* the printf path is Go's `fmt.Sprintf` for the formats the code can build: `%[+-# ]*[0-9.]*[doxXsc]`.
  NOT modelled (the harness does not compare such inputs, see harness/engines/terminfo.go SKIP rule):
  formats with two dots, width/precision above 99999, `%<w>s` padding/truncation of strings holding
  bytes ≥ 0x80 (Go counts runes).
The machine is fuelled by the input length; `step` consumes at least one byte (`Props.C07.tparm_total`).
-/
import Tcell.Gen.TerminfoStruct
namespace Tcell.TParm

/-! ### machine integers and decimal conversion -/

def two63 : Int := 9223372036854775808
def two64 : Int := 18446744073709551616
def maxInt64 : Int := 9223372036854775807
def minInt64 : Int := -9223372036854775808

/-- two's-complement wrap of a mathematical integer to Go's 64-bit `int` -/
def wrap64 (x : Int) : Int := (x + two63) % two64 - two63

/-- the unsigned 64-bit pattern of an `int` -/
def toU64 (x : Int) : Nat := (x % two64).toNat

/-- decimal digits (ASCII) of a natural number, most significant first; fuel `n+1` is always enough -/
def natDigitsAux : Nat → Nat → Bytes → Bytes
  | 0, _, acc => acc
  | fuel + 1, n, acc =>
    if n < 10 then (48 + n) :: acc else natDigitsAux fuel (n / 10) ((48 + n % 10) :: acc)

def natDigits (n : Nat) : Bytes := natDigitsAux (n + 1) n []

/-- digits in base 8 / 16 (lower or upper case) -/
def baseDigitsAux (base : Nat) (upper : Bool) : Nat → Nat → Bytes → Bytes
  | 0, _, acc => acc
  | fuel + 1, n, acc =>
    let d := n % base
    let c := if d < 10 then 48 + d else if upper then 55 + d else 87 + d
    if n < base then c :: acc else baseDigitsAux base upper fuel (n / base) (c :: acc)

def baseDigits (base : Nat) (upper : Bool) (n : Nat) : Bytes := baseDigitsAux base upper (n + 1) n []

/-- `strconv.Itoa` -/
def itoa (n : Int) : Bytes := if n < 0 then 45 :: natDigits n.natAbs else natDigits n.natAbs

def isDigit (c : Nat) : Bool := 48 ≤ c && c ≤ 57

/-- digit scan of `strconv.ParseUint(s, 10, 64)`: `none` = syntax error; on overflow the scan stops at once
and yields the maximal value (characters after the overflow point are never looked at). -/
def scanUint : Bytes → Nat → Option Nat
  | [], acc => some acc
  | c :: cs, acc =>
    if isDigit c then
      let acc' := acc * 10 + (c - 48)
      if acc' > 18446744073709551615 then some 18446744073709551615 else scanUint cs acc'
    else none

/-- `i, _ := strconv.Atoi(s)`: 0 on a syntax error, clamped on a range error (fast and slow path agree). -/
def atoi (s : Bytes) : Int :=
  match s with
  | [] => 0
  | c :: cs =>
    let neg := c == 45
    let ds := if c == 45 || c == 43 then cs else s
    match ds with
    | [] => 0
    | _ =>
      match scanUint ds 0 with
      | none => 0
      | some n =>
        if neg then (if n > 9223372036854775808 then minInt64 else -(n : Int))
        else (if n ≥ 9223372036854775808 then maxInt64 else (n : Int))

/-! ### values, stack (terminfo.go:256-297) -/

inductive Value where
  | int (n : Int)
  | str (s : Bytes)
  deriving DecidableEq, Repr, Inhabited

/-- what `PopInt` makes of a stack element -/
def Value.toInt : Value → Int
  | .int n => n
  | .str s => atoi s

/-- what `PopString` makes of a stack element -/
def Value.toStr : Value → Bytes
  | .int n => itoa n
  | .str s => s

abbrev Stack := List Value  -- head = top

/-- terminfo.go:284 -/
def popInt (st : Stack) : Int × Stack :=
  match st with
  | [] => (0, [])
  | v :: r => (v.toInt, r)

/-- terminfo.go:269 -/
def popStr (st : Stack) : Bytes × Stack :=
  match st with
  | [] => ([], [])
  | v :: r => (v.toStr, r)

/-- terminfo.go:258 `Push(bool)` -/
def ofBool (b : Bool) : Value := .int (if b then 1 else 0)

/-! ### Go's fmt.Sprintf for the formats TParm can build (terminfo.go:423-451) -/

def isFlag (c : Nat) : Bool := c == 43 || c == 45 || c == 35 || c == 32   -- + - # space
def isNum (c : Nat) : Bool := isDigit c || c == 46

def decVal (ds : Bytes) : Nat := ds.foldl (fun a c => a * 10 + (c - 48)) 0

structure Fmt where
  sharp : Bool := false
  zero : Bool := false
  plus : Bool := false
  minus : Bool := false
  space : Bool := false
  wid : Option Nat := none
  prec : Option Nat := none
  deriving DecidableEq, Repr, Inhabited

/-- Go's parse of the flag / width / precision part (fmt/print.go doPrintf): `flags` are the characters of
TParm's first loop, `nums` those of its second loop (digits and dots).  Leading zeros of `nums` are Go's `0` flag. -/
def parseFmt (flags nums : Bytes) : Fmt :=
  let f0 : Fmt := { sharp := flags.contains 35, plus := flags.contains 43, minus := flags.contains 45,
                    space := flags.contains 32 }
  let zs := nums.takeWhile (· == 48)
  let r := nums.dropWhile (· == 48)
  let w := r.takeWhile isDigit
  let r2 := r.dropWhile isDigit
  let f1 := { f0 with zero := !zs.isEmpty, wid := if w.isEmpty then none else some (decVal w) }
  match r2 with
  | 46 :: p => { f1 with prec := some (decVal (p.takeWhile isDigit)) }
  | _ => f1

def spaces (n : Nat) (c : Nat := 32) : Bytes := List.replicate n c

/-- fmt.pad / padString for ASCII content (one rune per byte) -/
def pad (f : Fmt) (b : Bytes) : Bytes :=
  match f.wid with
  | none => b
  | some w =>
    let p := spaces (w - b.length) (if f.zero && !f.minus then 48 else 32)
    if f.minus then b ++ p else p ++ b

/-- fmt.fmtInteger for a signed 64-bit argument, base 8, 10 or 16 -/
def fmtInteger (f : Fmt) (v : Int) (base : Nat) (upper : Bool) : Bytes :=
  let negative := v < 0
  let u := v.natAbs
  if f.prec == some 0 && u == 0 then spaces (f.wid.getD 0) else
  let prec : Nat :=
    match f.prec with
    | some p => p
    | none =>
      if f.zero && !f.minus && f.wid.isSome then
        (f.wid.getD 0) - (if negative || f.plus || f.space then 1 else 0)
      else 0
  let ds := if base == 10 then natDigits u else baseDigits base upper u
  let ds := spaces (prec - ds.length) 48 ++ ds
  let ds :=
    if f.sharp then
      if base == 8 then (if ds.head? == some 48 then ds else 48 :: ds)
      else if base == 16 then 48 :: (if upper then 88 else 120) :: ds
      else ds
    else ds
  let ds := if negative then 45 :: ds else if f.plus then 43 :: ds else if f.space then 32 :: ds else ds
  pad { f with zero := false } ds

/-- UTF-8 encoding of a rune (invalid ones become U+FFFD), utf8.AppendRune -/
def encodeRune (r : Int) : Bytes :=
  if r < 0 || r > 0x10FFFF || (0xD800 ≤ r && r ≤ 0xDFFF) then [0xEF, 0xBF, 0xBD] else
  let n := r.toNat
  if n < 0x80 then [n]
  else if n < 0x800 then [0xC0 + n / 64, 0x80 + n % 64]
  else if n < 0x10000 then [0xE0 + n / 4096, 0x80 + n / 64 % 64, 0x80 + n % 64]
  else [0xF0 + n / 262144, 0x80 + n / 4096 % 64, 0x80 + n / 64 % 64, 0x80 + n % 64]

/-- fmt.fmtC + pad (one rune) -/
def fmtChar (f : Fmt) (v : Int) : Bytes :=
  let b := encodeRune v
  match f.wid with
  | none => b
  | some w =>
    let p := spaces (w - 1) (if f.zero && !f.minus then 48 else 32)
    if w == 0 then b else if f.minus then b ++ p else p ++ b

/-- fmt.fmtS: truncate to the precision, pad (ASCII content assumed, see header) -/
def fmtStr (f : Fmt) (s : Bytes) : Bytes :=
  let s := match f.prec with | some p => s.take p | none => s
  pad f s

/-- `string(ch)` for a byte -/
def strOfByte (c : Nat) : Bytes := if c < 128 then [c] else [0xC0 + c / 64, 0x80 + c % 64]

/-! ### bit operations on 64-bit ints -/

def band (a b : Int) : Int := wrap64 (Nat.land (toU64 a) (toU64 b))
def bor (a b : Int) : Int := wrap64 (Nat.lor (toU64 a) (toU64 b))
def bxor (a b : Int) : Int := wrap64 (Nat.xor (toU64 a) (toU64 b))

/-! ### machine state -/

abbrev Vars := List Bytes   -- 26 strings

def noVars : Vars := List.replicate 26 []

def Vars.get (v : Vars) (i : Nat) : Bytes := v.getD i []
def Vars.put (v : Vars) (i : Nat) (s : Bytes) : Vars := v.set i s

structure St where
  stk : Stack := []
  params : List Value := []     -- 9 entries (terminfo.go:345,352)
  dvars : Vars := noVars
  svars : Vars := noVars
  out : Bytes := []
  deriving DecidableEq, Repr, Inhabited

/-- the `skip` register (terminfo.go:356-362).  The counters are used by the *repaired* variant only
(fixes/C07-nested-conditional.patch); the pinned code has no nesting depth and the model ignores them. -/
inductive Skip where
  | emit
  | toEnd (depth : Nat)
  | toElse (depth : Nat)
  deriving DecidableEq, Repr, Inhabited

/-- first byte / rest, with Go's "NextCh error ignored → zero byte" convention -/
def hd0 (l : Bytes) : Nat := l.headD 0

def pad9 (p : List Value) : List Value := (p ++ List.replicate 9 (Value.str [])).take 9

/-- `%i` on one parameter: only an `int` is incremented (terminfo.go:400-405) -/
def incParam : Value → Value
  | .int n => .int (wrap64 (n + 1))
  | y => y

/-- binary operator step: pops b then a (terminfo.go:498-567) -/
def binop (f : Int → Int → Value) (s : St) : St :=
  let (b, k1) := popInt s.stk
  let (a, k2) := popInt k1
  { s with stk := f a b :: k2 }

def put (s : St) (bs : Bytes) : St := { s with out := s.out ++ bs }

/-- the `switch ch` that ends the printf path (terminfo.go:441-451) -/
def fmtEffect (f : Fmt) (verb : Nat) (s : St) : St :=
  if verb == 100 then let (a, k) := popInt s.stk; put { s with stk := k } (fmtInteger f a 10 false)
  else if verb == 120 then let (a, k) := popInt s.stk; put { s with stk := k } (fmtInteger f a 16 false)
  else if verb == 88 then let (a, k) := popInt s.stk; put { s with stk := k } (fmtInteger f a 16 true)
  else if verb == 111 then let (a, k) := popInt s.stk; put { s with stk := k } (fmtInteger f a 8 false)
  else if verb == 115 then let (a, k) := popStr s.stk; put { s with stk := k } (fmtStr f a)
  else if verb == 99 then let (a, k) := popInt s.stk; put { s with stk := k } (fmtChar f a)
  else s

/-- the characters the two loops of the printf path look at: after an optional `:` (terminfo.go:429-431) -/
def fmtChars (c : Nat) (rest : Bytes) : Bytes := if c == 58 then hd0 rest :: rest.drop 1 else c :: rest

/-- the printf path (terminfo.go:423-451): `c` is the character after `%`, `rest` what follows it.
Returns the remaining input and the new state. -/
def stepFmt (c : Nat) (rest : Bytes) (s : St) : Bytes × St :=
  let all := fmtChars c rest
  let flags := all.takeWhile isFlag
  let r1 := all.dropWhile isFlag
  let nums := r1.takeWhile isNum
  let r2 := r1.dropWhile isNum
  (r2.drop 1, fmtEffect (parseFmt flags nums) (hd0 r2) s)

/-- `%{` … (terminfo.go:483-492): digits accumulated with 64-bit wrap, then one more character is consumed -/
def readInt : Bytes → Int → Int × Bytes
  | [], acc => (acc, [])
  | c :: cs, acc => if isDigit c then readInt cs (wrap64 (wrap64 (acc * 10) + (c - 48 : Nat))) else (acc, cs)

/-- `repaired = true` additionally implements `%A` / `%O` and the flags `#` / space without a colon
(fixes/C07-logical-and-or.patch, fixes/C07-format-flags.patch); see `execOp`. -/
structure Variant where
  nesting : Bool := false     -- nesting counter in the two skip states
  logAO : Bool := false       -- %A %O
  flagNoColon : Bool := false -- `%#x`, `% d`
  deriving DecidableEq, Repr, Inhabited

def pinned : Variant := {}
def repaired : Variant := { nesting := true, logAO := true, flagNoColon := true }

/-- the `switch ch` of the emit state (terminfo.go:395-585); `c` is the character after `%`. -/
def execOp (v : Variant) (c : Nat) (rest : Bytes) (s : St) : Bytes × St × Skip :=
  if c == 37 then (rest, put s [37], .emit)                                        -- %%
  else if c == 105 then                                                            -- %i
    (rest, { s with params := (s.params.modify 0 incParam).modify 1 incParam }, .emit)
  else if c == 115 then let (a, k) := popStr s.stk; (rest, put { s with stk := k } a, .emit)        -- %s
  else if c == 99 then let (a, k) := popInt s.stk; (rest, put { s with stk := k } [(a % 256).toNat], .emit)  -- %c
  else if c == 100 then let (a, k) := popInt s.stk; (rest, put { s with stk := k } (itoa a), .emit)  -- %d
  else if isDigit c || c == 120 || c == 88 || c == 111 || c == 58
          || (v.flagNoColon && (c == 35 || c == 32)) then
    let (r, s') := stepFmt c rest s; (r, s', .emit)
  else if c == 112 then                                                            -- %p
    let ch := hd0 rest
    let x : Value := if 49 ≤ ch && ch ≤ 57 then s.params.getD (ch - 49) (.str []) else .int 0
    (rest.drop 1, { s with stk := x :: s.stk }, .emit)
  else if c == 80 then                                                             -- %P
    let ch := hd0 rest
    if 65 ≤ ch && ch ≤ 90 then
      let (a, k) := popStr s.stk; (rest.drop 1, { s with stk := k, svars := s.svars.put (ch - 65) a }, .emit)
    else if 97 ≤ ch && ch ≤ 122 then
      let (a, k) := popStr s.stk; (rest.drop 1, { s with stk := k, dvars := s.dvars.put (ch - 97) a }, .emit)
    else (rest.drop 1, s, .emit)
  else if c == 103 then                                                            -- %g
    let ch := hd0 rest
    if 65 ≤ ch && ch ≤ 90 then (rest.drop 1, { s with stk := .str (s.svars.get (ch - 65)) :: s.stk }, .emit)
    else if 97 ≤ ch && ch ≤ 122 then (rest.drop 1, { s with stk := .str (s.dvars.get (ch - 97)) :: s.stk }, .emit)
    else (rest.drop 1, s, .emit)
  else if c == 39 then (rest.drop 2, { s with stk := .int (hd0 rest) :: s.stk }, .emit)   -- %'c'
  else if c == 123 then                                                            -- %{n}
    let (n, r) := readInt rest 0
    (r, { s with stk := .int n :: s.stk }, .emit)
  else if c == 108 then let (a, k) := popStr s.stk; (rest, { s with stk := .int a.length :: k }, .emit)  -- %l
  else if c == 43 then (rest, binop (fun a b => .int (wrap64 (a + b))) s, .emit)
  else if c == 45 then (rest, binop (fun a b => .int (wrap64 (a - b))) s, .emit)
  else if c == 42 then (rest, binop (fun a b => .int (wrap64 (a * b))) s, .emit)
  else if c == 47 then (rest, binop (fun a b => .int (if b != 0 then wrap64 (Int.tdiv a b) else 0)) s, .emit)
  else if c == 109 then (rest, binop (fun a b => .int (if b != 0 then Int.tmod a b else 0)) s, .emit)
  else if c == 38 then (rest, binop (fun a b => .int (band a b)) s, .emit)
  else if c == 124 then (rest, binop (fun a b => .int (bor a b)) s, .emit)
  else if c == 94 then (rest, binop (fun a b => .int (bxor a b)) s, .emit)
  else if c == 126 then let (a, k) := popInt s.stk; (rest, { s with stk := .int (-a - 1) :: k }, .emit)  -- %~
  else if c == 33 then let (a, k) := popInt s.stk; (rest, { s with stk := ofBool (a == 0) :: k }, .emit) -- %!
  else if c == 61 then (rest, binop (fun a b => ofBool (a == b)) s, .emit)
  else if c == 62 then (rest, binop (fun a b => ofBool (a > b)) s, .emit)
  else if c == 60 then (rest, binop (fun a b => ofBool (a < b)) s, .emit)
  else if v.logAO && c == 65 then (rest, binop (fun a b => ofBool (a != 0 && b != 0)) s, .emit)
  else if v.logAO && c == 79 then (rest, binop (fun a b => ofBool (a != 0 || b != 0)) s, .emit)
  else if c == 63 then (rest, s, .emit)                                            -- %?
  else if c == 59 then (rest, s, .emit)                                            -- %;
  else if c == 116 then                                                            -- %t
    let (a, k) := popInt s.stk
    (rest, { s with stk := k }, if a == 0 then .toElse 0 else .emit)
  else if c == 101 then (rest, s, .toEnd 0)                                        -- %e
  else (rest, put s (37 :: strOfByte c), .emit)                                    -- default

/-- what a `%`+`c` pair does in a skip state (terminfo.go:383-393) -/
def skipOp (v : Variant) (c : Nat) : Skip → Skip
  | .emit => .emit
  | .toEnd d =>
    if c == 59 then (if v.nesting && d > 0 then .toEnd (d - 1) else .emit)
    else if v.nesting && c == 63 then .toEnd (d + 1) else .toEnd d
  | .toElse d =>
    if c == 59 then (if v.nesting && d > 0 then .toElse (d - 1) else .emit)
    else if c == 101 then (if v.nesting && d > 0 then .toElse d else .emit)
    else if v.nesting && c == 63 then .toElse (d + 1) else .toElse d

/-- one iteration of the `for` loop (terminfo.go:364-586) on a non-empty input -/
def step (v : Variant) (inp : Bytes) (s : St) (k : Skip) : Bytes × St × Skip :=
  match inp with
  | [] => ([], s, k)
  | ch :: rest =>
    if ch != 37 then (rest, if k == .emit then put s [ch] else s, k)
    else match rest with
      | [] => ([], s, k)                       -- `%` at the very end: break
      | c :: rest' =>
        match k with
        | .emit => execOp v c rest' s
        | _ => (rest', s, skipOp v c k)

/-- the loop, fuelled -/
def run (v : Variant) : Nat → Bytes → St → Skip → St
  | 0, _, s, _ => s
  | fuel + 1, inp, s, k =>
    match inp with
    | [] => s
    | _ => let r := step v inp s k; run v fuel r.1 r.2.1 r.2.2

/-- `TParm(s, p...)` with the static variables threaded: output bytes and the new static variables -/
def tparmV (v : Variant) (prog : Bytes) (params : List Value) (svars : Vars) : Bytes × Vars :=
  let s := run v prog.length prog { params := pad9 params, svars := svars } .emit
  (s.out, s.svars)

/-- THE SWITCH: the variant that mirrors the tree under check.  Change `pinned` to `repaired` once
fixes/C07-*.patch are committed to /repo. -/
def current : Variant := repaired

def tparm (prog : Bytes) (params : List Value) (svars : Vars) : Bytes × Vars := tparmV current prog params svars

end Tcell.TParm
