import Tcell.Model.Keys
/-
Lexicographic order on byte strings and a fuel-based (kernel-reducible) merge sort of key tables, used
(a) by the driver to print a table canonically and (b) by C03 as the sorted-adjacent certificate for
prefix-freeness (`Tcell.Lemmas.PrefixFree`).  Core Lean only.
-/
namespace Tcell.Model

/-- `a ≤ b` lexicographically (Go string comparison on the bytes) -/
def lexLe : Bytes → Bytes → Bool
  | [], _ => true
  | _ :: _, [] => false
  | a :: as, b :: bs => if Nat.blt a b then true else if Nat.beq a b then lexLe as bs else false

def mergeK : (fuel : Nat) → KeyTable → KeyTable → KeyTable
  | 0, l, r => l ++ r
  | _ + 1, [], r => r
  | _ + 1, l, [] => l
  | fuel + 1, a :: as, b :: bs =>
    if lexLe a.seq b.seq then a :: mergeK fuel as (b :: bs) else b :: mergeK fuel (a :: as) bs

/-- split into the elements at even and odd positions -/
def splitK : KeyTable → KeyTable × KeyTable
  | [] => ([], [])
  | [a] => ([a], [])
  | a :: b :: rest => let p := splitK rest; (a :: p.1, b :: p.2)

def msortK : (fuel : Nat) → KeyTable → KeyTable
  | 0, l => l
  | _ + 1, [] => []
  | _ + 1, [a] => [a]
  | fuel + 1, l =>
    let p := splitK l
    mergeK (l.length + 1) (msortK fuel p.1) (msortK fuel p.2)

/-- the table sorted by sequence (fuel = length is more than the recursion depth log₂ n) -/
def sortKeys (T : KeyTable) : KeyTable := msortK T.length T

end Tcell.Model
