/-
Model of the mode-changing part of tScreen: EnableMouse/DisableMouse, EnablePaste/DisablePaste,
EnableFocus/DisableFocus, SetTitle, engage (Init/Resume) and disengage (Suspend/Fini) — tscreen.go 1088-1185,
1993-2110, 2124.  Produces the bytes written and the ordered log of Tty calls.  Core-only, executable.
-/
import Tcell.Model.Render
namespace Tcell

/-- what the application has asked for (survives Suspend/Resume) -/
structure ModeReq where
  mouseFlags : Nat := 0
  paste : Bool := false
  focus : Bool := false
  title : Bytes := []
  running : Bool := false
deriving Repr

namespace Engage
open Render

/-- tscreen.go:1105 enableMouse -/
def enableMouse (c : RenderCfg) (f : Nat) : Bytes :=
  if c.ti.mouse.isEmpty then []
  else
    tp c (esc "[?1000l" ++ esc "[?1002l" ++ esc "[?1003l" ++ esc "[?1006l") ++
    (if f % 2 = 1 then tp c (esc "[?1000h") else []) ++          -- MouseButtonEvents = 1
    (if f / 2 % 2 = 1 then tp c (esc "[?1002h") else []) ++      -- MouseDragEvents = 2
    (if f / 4 % 2 = 1 then tp c (esc "[?1003h") else []) ++      -- MouseMotionEvents = 4
    (if f % 8 ≠ 0 then tp c (esc "[?1006h") else [])

/-- tscreen.go:1149 enablePasting -/
def enablePasting (c : RenderCfg) (on : Bool) : Bytes :=
  let s := if on then c.d.enablePaste else c.d.disablePaste
  if s.isEmpty then [] else tp c s

def enableFocusReporting (c : RenderCfg) : Bytes := if c.d.enableFocus.isEmpty then [] else tp c c.d.enableFocus
def disableFocusReporting (c : RenderCfg) : Bytes := if c.d.disableFocus.isEmpty then [] else tp c c.d.disableFocus

/-- bytes written by engage once the tty is started (tscreen.go:2017-2042) -/
def engageBytes (c : RenderCfg) (m : ModeReq) (altscreen : Bool) : Bytes :=
  let ti := c.ti
  enableMouse c m.mouseFlags ++ enablePasting c m.paste ++ (if m.focus then enableFocusReporting c else []) ++
  (if altscreen then tp c ti.enterCA ++ (if !c.d.saveTitle.isEmpty then tp c c.d.saveTitle else []) else []) ++
  tp c ti.enterKeypad ++ tp c ti.hideCursor ++ tp c ti.enableAcs ++ tp c ti.disableAutoMargin ++ tp c ti.clear ++
  (if !m.title.isEmpty ∧ !c.d.setTitle.isEmpty then tp c (parm c.d.setTitle [TParm.Value.str m.title]) else [])

/-- bytes written by disengage after the loops have stopped (tscreen.go:2074-2094; `t.TPuts(t.exitUrl)` after AttrOff
since the fix "Fini/Suspend close a hyperlink left open by the last draw") -/
def disengageBytes (c : RenderCfg) (cursorShaped cursorTinted : Bool) (altscreen : Bool) : Bytes :=
  let ti := c.ti
  tp c ti.showCursor ++
  (match c.d.cursorStyles with
   | some l => if cursorShaped then tp c (l.headD []) else []
   | none => []) ++
  (if !c.d.cursorFg.isEmpty ∧ cursorTinted then tp c c.d.cursorFg else []) ++
  tp c ti.resetFgBg ++ tp c ti.attrOff ++ tp c c.d.exitUrl ++ tp c ti.exitKeypad ++ tp c ti.enableAutoMargin ++
  (if altscreen then (if !c.d.restoreTitle.isEmpty then tp c c.d.restoreTitle else []) ++ tp c ti.clear ++ tp c ti.exitCA else []) ++
  enableMouse c 0 ++ enablePasting c false ++ disableFocusReporting c

end Engage
end Tcell
