/-
Models of `TPuts` (terminfo/terminfo.go:596-644), `TGoto` (648) and `TColor` (654).

TPuts: output bytes plus the list of delays (in nanoseconds) it sleeps; it sleeps only when `PadChar` is
non-empty (terminfo.go:640).  The delay arithmetic is on naturals (Go: int / time.Duration, 64 bit; overflow of
absurdly long digit strings is not modelled – delays are not part of the compared observation).
`strict = false` is the pinned code (every `$<…>` is removed, whatever is inside); `strict = true` is the
repaired code (fixes/C15-tputs-nonpadding.patch): a `$<…>` whose content is not a padding specification is
written verbatim.
-/
import Tcell.Model.TParm
namespace Tcell.TPuts
open Tcell.TParm

/-- `strings.Index(s, "$<")`: the bytes before the first `$<` and the bytes after it -/
def findMarker : Bytes → Option (Bytes × Bytes)
  | [] => none
  | b :: r =>
    if b == 36 && r.head? == some 60 then some ([], r.tail)
    else match findMarker r with
      | some (pre, post) => some (b :: pre, post)
      | none => none

/-- `strings.Index(s, ">")`: before / after the first `>` -/
def findGt : Bytes → Option (Bytes × Bytes)
  | [] => none
  | 62 :: r => some ([], r)
  | b :: r => match findGt r with
    | some (pre, post) => some (b :: pre, post)
    | none => none

/-- the `loop:` over `val` (terminfo.go:617-635): (padus, unit in ns, dot) -/
def delayScan : Bytes → Nat → Nat → Bool → Nat × Nat
  | [], padus, unit, _ => (padus, unit)
  | c :: cs, padus, unit, dot =>
    if isDigit c then delayScan cs (padus * 10 + (c - 48)) (if dot then unit / 10 else unit) dot
    else if c == 46 then (if !dot then delayScan cs padus unit true else (padus, unit))
    else (padus, unit)

def delayOf (val : Bytes) : Nat := let r := delayScan val 0 1000000 false; r.1 * r.2

/-- content of a padding specification: digits+ [ '.' digits* ] ( '*' | '/' )*   (terminfo(5): `$<n[.m][*][/]>`) -/
def padContent (val : Bytes) : Bool :=
  let ds := val.takeWhile isDigit
  let r := val.dropWhile isDigit
  let r := match r with
    | 46 :: r' => r'.dropWhile isDigit
    | _ => r
  !ds.isEmpty && r.all (fun c => c == 42 || c == 47)

structure Out where
  bytes : Bytes := []
  delays : List Nat := []
  deriving DecidableEq, Repr, Inhabited

def tputsAux (strict : Bool) (padChar : Bytes) : Nat → Bytes → Out → Out
  | 0, _, o => o
  | fuel + 1, s, o =>
    match findMarker s with
    | none => { o with bytes := o.bytes ++ s }
    | some (pre, post) =>
      match findGt post with
      | none => { o with bytes := o.bytes ++ pre ++ [36, 60] ++ post }
      | some (val, rest) =>
        if strict && !padContent val then
          tputsAux strict padChar fuel post { o with bytes := o.bytes ++ pre ++ [36, 60] }
        else
          tputsAux strict padChar fuel rest
            { bytes := o.bytes ++ pre, delays := if padChar.isEmpty then o.delays else o.delays ++ [delayOf val] }

def tputsV (strict : Bool) (padChar : Bytes) (s : Bytes) : Out := tputsAux strict padChar (s.length + 1) s {}

/-- THE SWITCH for TPuts: `false` = pinned tree, `true` once fixes/C15-tputs-nonpadding.patch is committed -/
def currentStrict : Bool := true

def tputs (padChar : Bytes) (s : Bytes) : Out := tputsV currentStrict padChar s

/-- terminfo.go:648 `TGoto(col, row) = TParm(SetCursor, row, col)` -/
def tgoto (t : Terminfo) (col row : Int) (sv : Vars) : Bytes × Vars :=
  tparm t.setCursor [.int row, .int col] sv

/-- terminfo.go:654 -/
def tcolor (t : Terminfo) (fi bi : Int) (sv : Vars) : Bytes × Vars :=
  let fi := if t.colors == 8 && fi > 7 && fi < 16 then fi - 8 else fi
  let bi := if t.colors == 8 && bi > 7 && bi < 16 then bi - 8 else bi
  let (a, sv) := if t.colors > fi && fi ≥ 0 then tparm t.setFg [.int fi] sv else ([], sv)
  let (b, sv) := if t.colors > bi && bi ≥ 0 then tparm t.setBg [.int bi] sv else ([], sv)
  (a ++ b, sv)

end Tcell.TPuts
