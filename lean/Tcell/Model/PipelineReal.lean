import Tcell.Model.Parser
import Tcell.Model.Pipeline
/-
The pipeline transition system (`Tcell.Model.Pipeline`) instantiated with the REAL parser model (`Tcell.Model.collect` =
`collectEventsFromInput`, tscreen.go:1808).  One definition shared by
  * the trace replay of engine `pipe` (`lean/Driver/Pipe.lean`: every schedule point the real screen went through must be
    a transition of `step (realParser pcfg) …`), and
  * the theorems of `Tcell.Props.C05Real` / `Tcell.Props.C06Real` (which are therefore about the very instance the real
    code is replayed against, not about an abstract parser).
Core Lean only (the driver links this file).
-/
namespace Tcell.Model.Pipeline

/-- `scanInput`'s call `t.collectEventsFromInput(buf, expire)` (tscreen.go:1786) as a `Parser` record: events, new parser
registers (`escaped`, mouse button state, paste flag …), bytes left in `buf` -/
def realParser (cfg : Tcell.Model.Cfg) : Parser Tcell.Model.Event Tcell.Model.PState :=
  { collect := fun st b exp => let r := Tcell.Model.collect cfg st b exp; (r.evs, r.st, r.rest) }

@[simp] theorem realParser_collect (cfg : Tcell.Model.Cfg) (st : Tcell.Model.PState) (b : Bytes) (e : Bool) :
    (realParser cfg).collect st b e =
      ((Tcell.Model.collect cfg st b e).evs, (Tcell.Model.collect cfg st b e).st, (Tcell.Model.collect cfg st b e).rest) := rfl

end Tcell.Model.Pipeline
