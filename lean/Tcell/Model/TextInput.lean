import Tcell.Model.Parser
import Tcell.Base.Utf8
/-
C11 additions to the input-parser model (no change to `Parser.lean`):

* `feedAll` – the chunk loop of `mainLoop` (tscreen.go:1890-1893): every read is appended to what the previous
  `collectEventsFromInput(buf, false)` left in the buffer (`buf.Write(chunk); t.scanInput(buf, false)`);
* `decMulti` – what the decoders of the stateless multi-byte charsets of golang.org/x/text (GBK, GB18030, Big5,
  EUC-JP, EUC-KR, Shift_JIS) answer to `Transform(dst, src, atEOF)` on the inputs `parseRune` presents (a character, a
  truncated character, an invalid byte), parameterised by the charset's table and by `atEOF`;
* the text encoders `encChar` / `encText`, and the decidable key-table conditions the text theorems need.
Core Lean only.
-/
namespace Tcell.Model

/-! ### the read loop -/

/-- `mainLoop`'s `case chunk := <-t.keychan` iterated over a list of reads with no timer expiry in between:
`rest` is what the previous scan left in `buf`.  Events are concatenated; `amb` is the disjunction. -/
def feedAll (cfg : Cfg) : PState → Bytes → List Bytes → Collected
  | st, rest, [] => ⟨[], st, rest, false⟩
  | st, rest, c :: cs =>
    let r := collect cfg st (rest ++ c) false
    let r' := feedAll cfg r.st r.rest cs
    ⟨r.evs ++ r'.evs, r'.st, r'.rest, r.amb || r'.amb⟩

/-! ### multi-byte legacy decoders (golang.org/x/text/encoding/{simplifiedchinese,traditionalchinese,japanese,korean}) -/

/-- the characters of a multi-byte charset that are not ASCII: (encoding, rune); encodings start with a byte ≥ 0x80 -/
abbrev MbTable := List (Bytes × Int)

/-- `decoder.Reset(); decoder.Transform(utf, p, atEOF)` for a stateless multi-byte charset, on the inputs that
`parseRune` presents (`p = b[:l]`, first byte ≥ 0x80):

* `p` starts with a complete character → its rune, `nIn` = its length;
* `p` is a proper prefix of some character (a lone lead byte, …): the decoders answer `ErrShortSrc` when
  `atEOF = false`, and with `atEOF = true` emit U+FFFD and consume one byte
  (e.g. gbk.go:  `if nSrc+1 >= len(src) { if !atEOF { err = transform.ErrShortSrc; break loop }; r, size = utf8.RuneError, 1 }`);
* anything else is invalid: U+FFFD, one byte consumed.

`parseRune` of the pinned tree passes `atEOF = true` (tscreen.go:1721). -/
def decMulti (atEOF : Bool) (T : MbTable) (p : Bytes) : DecResult :=
  match p with
  | [] => .nothing
  | b0 :: _ =>
    if b0 < 128 then .out (b0 : Int) 1 else
    match T.find? (fun e => hasPrefix p e.1) with
    | some e => .out e.2 e.1.length
    | none =>
      if T.any (fun e => hasPrefix e.1 p) then (if atEOF then .out runeError 1 else .shortSrc)
      else .out runeError 1

/-! ### text as the terminal sends it -/

/-- printable ASCII is sent as itself whatever the charset (`parseRune` does not consult the decoder for it) -/
def encChar (enc : Int → Bytes) (c : Int) : Bytes := if 32 ≤ c ∧ c ≤ 126 then [c.toNat] else enc c

def encText (enc : Int → Bytes) (cs : List Int) : Bytes := cs.flatMap (encChar enc)

/-- the event a typed character must produce: `KeyRune` with that rune and no modifier -/
def runeEvent (c : Int) : Event := .key keyRune c modNone

/-- the domain of `utf8_text`: every Unicode scalar value except the C0 controls and DEL (which are keys, key.go:243),
and U+FFFD (which `parseRune` cannot tell from a decoding error, tscreen.go:1726) -/
def Utf8TextRune (r : Int) : Prop :=
  32 ≤ r ∧ r ≠ 127 ∧ r ≤ 0x10FFFF ∧ ¬ (0xD800 ≤ r ∧ r ≤ 0xDFFF) ∧ r ≠ 0xFFFD

instance (r : Int) : Decidable (Utf8TextRune r) := by unfold Utf8TextRune; exact inferInstance

/-! ### decidable key-table conditions -/

/-- every sequence of the table is non-empty and starts with a 7-bit byte -/
def keysAscii (T : KeyTable) : Bool :=
  T.all (fun e => match e.seq with | c :: _ => Nat.blt c 128 | [] => false)

/-- entries (other than lone ESC, which `parseFunctionKey` skips) comparable with `s` in the prefix order -/
def comparable (T : KeyTable) (s : Bytes) : KeyTable :=
  T.filter (fun e => !bytesEq e.seq [27] && (hasPrefix s e.seq || hasPrefix e.seq s))

def pasteStartSeq : Bytes := [27, 91, 50, 48, 48, 126]
def pasteEndSeq : Bytes := [27, 91, 50, 48, 49, 126]
def focusInSeq : Bytes := [27, 91, 73]
def focusOutSeq : Bytes := [27, 91, 79]

/-- bracketed paste is recognised: the only entries comparable with `ESC [ 2 0 0 ~` / `ESC [ 2 0 1 ~` are the
internal paste keys themselves -/
def pasteKeys (T : KeyTable) : Bool :=
  decide (comparable T pasteStartSeq = [⟨pasteStartSeq, keyPasteStart, modNone⟩]) &&
  decide (comparable T pasteEndSeq = [⟨pasteEndSeq, keyPasteEnd, modNone⟩])

/-- no function key shadows a focus report -/
def focusClear (T : KeyTable) : Bool :=
  (comparable T focusInSeq).isEmpty && (comparable T focusOutSeq).isEmpty

end Tcell.Model
