/-
Lockset model for property C10 (concurrent use of one Screen is free of data races).

Two layers.

* **Thread semantics.**  A goroutine is a list of actions `lock | unlock | rd f | wr f | emit b` over ONE exclusive
  mutex (tscreen.go:181, the embedded `sync.Mutex`; `baseScreen` reaches the same mutex through the embedded
  `screenImpl`, screen.go:366).  Configurations are maps thread-id → (holds?, critical-section counter, rest of the
  program) plus the output log (what reached the tty, tagged with the thread and critical section that emitted it).
  `Step` is the interleaving semantics, `Reach` its reflexive-transitive closure, `Race c f` says two different
  threads are both about to perform conflicting accesses to field `f` in `c`.
  What is *axiomatised* rather than derived from the Go memory model: the mutex is the only ordering between
  threads in the concurrent phase; the happens-before edges of `go`, channel operations, `WaitGroup.Wait` and
  `sync.Once` only enter through the classification of the facts (init phase / after `wg.Wait`), never through
  the semantics.  Unlocking a mutex one does not hold (a fatal error or a steal in Go) has no step here.

* **Facts and discipline.**  `Fact` is one record produced by the translator (harness/cmd/extract/lockfacts.go)
  for one field access of one entry point; `flaggedOf` is the decidable discipline check the kernel evaluates on the
  regenerated `Tcell.Gen.LockFacts.facts`.
-/
namespace Tcell.Model.Lockset

inductive Action where
  | lock | unlock
  | rd (f : Nat) | wr (f : Nat)
  | emit (b : Nat)
deriving DecidableEq, Repr

abbrev Thread := List Action

structure TState where
  holds : Bool
  sec : Nat
  rest : Thread

structure Cfg where
  th : Nat → TState
  /-- newest first: (thread, critical-section number of that thread, byte) -/
  log : List (Nat × Nat × Nat)

def upd (th : Nat → TState) (i : Nat) (s : TState) : Nat → TState := fun k => if k = i then s else th k

@[simp] theorem upd_same (th i s) : upd th i s i = s := by simp [upd]
theorem upd_other (th i s k) (h : k ≠ i) : upd th i s k = th k := by simp [upd, h]

/-- interleaving semantics: any thread whose next action is enabled may move -/
inductive Step : Cfg → Cfg → Prop
  | lock {c : Cfg} {i : Nat} {r : Thread} : (c.th i).rest = .lock :: r → (∀ j, (c.th j).holds = false) →
      Step c ⟨upd c.th i ⟨true, (c.th i).sec + 1, r⟩, c.log⟩
  | unlock {c : Cfg} {i : Nat} {r : Thread} : (c.th i).rest = .unlock :: r → (c.th i).holds = true →
      Step c ⟨upd c.th i ⟨false, (c.th i).sec, r⟩, c.log⟩
  | rd {c : Cfg} {i f : Nat} {r : Thread} : (c.th i).rest = .rd f :: r →
      Step c ⟨upd c.th i ⟨(c.th i).holds, (c.th i).sec, r⟩, c.log⟩
  | wr {c : Cfg} {i f : Nat} {r : Thread} : (c.th i).rest = .wr f :: r →
      Step c ⟨upd c.th i ⟨(c.th i).holds, (c.th i).sec, r⟩, c.log⟩
  | emit {c : Cfg} {i b : Nat} {r : Thread} : (c.th i).rest = .emit b :: r →
      Step c ⟨upd c.th i ⟨(c.th i).holds, (c.th i).sec, r⟩, (i, (c.th i).sec, b) :: c.log⟩

inductive Reach (c0 : Cfg) : Cfg → Prop
  | refl : Reach c0 c0
  | step {c c' : Cfg} : Reach c0 c → Step c c' → Reach c0 c'

/-- all threads at their first action, nobody holds the mutex, nothing written yet; thread ids beyond the list are
    idle (empty program), so one statement covers every finite number of threads -/
def initCfg (ts : List Thread) : Cfg := ⟨fun i => ⟨false, 0, ts.getD i []⟩, []⟩

/-- the access thread state `s` is about to perform on field `f`: `some true` a write, `some false` a read -/
def nextAccess (s : TState) (f : Nat) : Option Bool :=
  match s.rest with
  | .rd g :: _ => if g = f then some false else none
  | .wr g :: _ => if g = f then some true else none
  | _ => none

/-- a data race on `f`: two different threads are both about to access `f`, at least one of them writing -/
def Race (c : Cfg) (f : Nat) : Prop :=
  ∃ i j wi wj, i ≠ j ∧ nextAccess (c.th i) f = some wi ∧ nextAccess (c.th j) f = some wj ∧ (wi = true ∨ wj = true)

/-- static lock tracking along a thread: every access to `f` is made while the thread holds the mutex
    (`h` = does the thread hold it on entry) -/
def Guarded (f : Nat) : Bool → Thread → Prop
  | _, [] => True
  | _, .lock :: r => Guarded f true r
  | _, .unlock :: r => Guarded f false r
  | h, .rd g :: r => (g = f → h = true) ∧ Guarded f h r
  | h, .wr g :: r => (g = f → h = true) ∧ Guarded f h r
  | h, .emit _ :: r => Guarded f h r

/-- every emission to the output stream is made while holding the mutex -/
def EmitGuarded : Bool → Thread → Prop
  | _, [] => True
  | _, .lock :: r => EmitGuarded true r
  | _, .unlock :: r => EmitGuarded false r
  | h, .rd _ :: r => EmitGuarded h r
  | h, .wr _ :: r => EmitGuarded h r
  | h, .emit _ :: r => h = true ∧ EmitGuarded h r

/-- (newest first) every element is either new or equal to the element added just before it: the list is a
    sequence of runs with pairwise different values — no value's run is split by a foreign value -/
def Chunked {α : Type} : List α → Prop
  | [] => True
  | a :: l => Chunked l ∧ (a ∈ l → l.head? = some a)

/-- the tags (thread, critical section) of the output log -/
def tags (c : Cfg) : List (Nat × Nat) := c.log.map (fun e => (e.1, e.2.1))

/-! ## facts -/

/-- one extracted access: entry point id, field id, write?, lock held?, concurrent phase?, after `wg.Wait`? -/
structure Fact where
  entry : Nat
  field : Nat
  wr : Bool
  held : Bool
  conc : Bool
  noloops : Bool
deriving DecidableEq, Repr

/-- the field is written in the concurrent phase by some entry point -/
def concWrittenList (facts : List Fact) : List Nat := facts.filterMap fun x => if x.conc && x.wr then some x.field else none

def concWritten (facts : List Fact) (f : Nat) : Bool := (concWrittenList facts).contains f

/-- all concurrent-phase accesses of the field come from one entry point and that entry point is one of the
    library's own goroutines (kind 1; one live instance at a time: engage starts it only when not running and
    disengage waits for it — axiomatised) -/
def confinedTo (facts : List Fact) (kinds : List Nat) (f : Nat) : Bool :=
  match facts.find? (fun x => x.field == f && x.conc) with
  | none => false
  | some x0 => kinds.getD x0.entry 0 == 1 && facts.all (fun x => !(x.field == f && x.conc) || x.entry == x0.entry)

/-- a field needs no lock: synchronisation primitive (by declared type), init-only, or confined -/
def exemptField (facts : List Fact) (kinds syncs : List Nat) (f : Nat) : Bool :=
  syncs.contains f || !concWritten facts f || confinedTo facts kinds f

def exemptFields (facts : List Fact) (kinds syncs : List Nat) (nFields : Nat) : List Nat :=
  (List.range nFields).filter (exemptField facts kinds syncs)

/-- a fact respects the discipline: init phase, or lock held, or the field is exempt -/
def factOk (exempt : List Nat) (x : Fact) : Bool := !x.conc || x.held || exempt.contains x.field

/-- the facts violating the discipline (given the list of exempt fields), in extraction order -/
def flaggedWith (exempt : List Nat) (facts : List Fact) : List Fact := facts.filter fun x => !factOk exempt x

/-- the facts violating the discipline, in extraction order -/
def flaggedOf (facts : List Fact) (kinds syncs : List Nat) (nFields : Nat) : List Fact :=
  flaggedWith (exemptFields facts kinds syncs nFields) facts

/-- the (field, write?, held?) accesses of a thread under static lock tracking -/
def accessesOf : Bool → Thread → List (Nat × Bool × Bool)
  | _, [] => []
  | _, .lock :: r => accessesOf true r
  | _, .unlock :: r => accessesOf false r
  | h, .rd g :: r => (g, false, h) :: accessesOf h r
  | h, .wr g :: r => (g, true, h) :: accessesOf h r
  | h, .emit _ :: r => accessesOf h r

/-- thread `t` is an execution path of entry point `e` as far as the facts are concerned: each of its accesses,
    with the lock state static tracking gives it, is one of the concurrent-phase facts extracted for `e` -/
def Conforms (facts : List Fact) (e : Nat) (t : Thread) : Prop :=
  ∀ a ∈ accessesOf false t, ∃ nl, (⟨e, a.1, a.2.1, a.2.2, true, nl⟩ : Fact) ∈ facts

end Tcell.Model.Lockset
