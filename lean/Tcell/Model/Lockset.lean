/-
Lockset model for property C10 (concurrent use of one Screen is free of data races).

Two layers.

* **Thread semantics.**  A goroutine is a list of actions `lock m | unlock m | rd f | wr f | emit b` over ANY NUMBER of
  exclusive, non-reentrant mutexes (mutex ids are numbers; a thread may hold several).  Mutex 0 is by convention the
  screen mutex (tscreen.go:181, the embedded `sync.Mutex`; `baseScreen` reaches the same mutex through the embedded
  `screenImpl`, screen.go:366); the other mutexes are the named `sync.Mutex` fields of the screen types (the
  `lifecycle` mutex of fix C10-disengage-lifecycle; the translator numbers them in `Gen.LockFacts.mutexNames`).
  Configurations are maps thread-id → (set of mutexes held, critical-section counter of mutex 0, rest of the program)
  plus the output log (what reached the tty, tagged with the thread and the screen-mutex critical section that
  emitted it).  `Step` is the interleaving semantics, `Reach` its reflexive-transitive closure, `Race c f` says two
  different threads are both about to perform conflicting accesses to field `f` in `c`.
  What is *axiomatised* rather than derived from the Go memory model: the mutexes are the only ordering between
  threads in the concurrent phase; the happens-before edges of `go`, channel operations, `WaitGroup.Done → Wait` and
  `sync.Once` only enter through the classification of the facts (init phase / one live instance of a loop), never
  through the semantics.  Unlocking a mutex one does not hold (a fatal error or a steal in Go) has no step here;
  locking a mutex one already holds blocks for ever (Go's mutexes are not reentrant).

* **Facts and discipline.**  `Fact` is one record produced by the translator (harness/cmd/extract/lockfacts.go)
  for one field access of one entry point, with the SET of mutexes held at the access; `flaggedOf` is the decidable
  discipline check the kernel evaluates on the regenerated `Tcell.Gen.LockFacts.facts`: for every field that needs
  protection the lock sets of its concurrent-phase accesses must have a common mutex.
-/
namespace Tcell.Model.Lockset

inductive Action where
  | lock (m : Nat) | unlock (m : Nat)
  | rd (f : Nat) | wr (f : Nat)
  | emit (b : Nat)
deriving DecidableEq, Repr

abbrev Thread := List Action

/-- the screen mutex (the embedded `sync.Mutex` of tScreen): the mutex `blocks_contiguous` is about -/
def screenMutex : Nat := 0

structure TState where
  /-- the set of mutexes the thread holds -/
  holds : Nat → Bool
  /-- number of critical sections of the screen mutex the thread has entered -/
  sec : Nat
  rest : Thread

structure Cfg where
  th : Nat → TState
  /-- newest first: (thread, screen-mutex critical-section number of that thread, byte) -/
  log : List (Nat × Nat × Nat)

def upd (th : Nat → TState) (i : Nat) (s : TState) : Nat → TState := fun k => if k = i then s else th k

@[simp] theorem upd_same (th i s) : upd th i s i = s := by simp [upd]
theorem upd_other (th i s k) (h : k ≠ i) : upd th i s k = th k := by simp [upd, h]

/-- the lock set `h` with mutex `m` set to `v` -/
def setHold (h : Nat → Bool) (m : Nat) (v : Bool) : Nat → Bool := fun k => if k = m then v else h k

@[simp] theorem setHold_same (h m v) : setHold h m v m = v := by simp [setHold]
theorem setHold_other (h m v k) (hk : k ≠ m) : setHold h m v k = h k := by simp [setHold, hk]

/-- interleaving semantics: any thread whose next action is enabled may move; `lock m` is enabled when NO thread
    (the locker included) holds `m`; other mutexes held by anybody do not matter -/
inductive Step : Cfg → Cfg → Prop
  | lock {c : Cfg} {i m : Nat} {r : Thread} : (c.th i).rest = .lock m :: r → (∀ j, (c.th j).holds m = false) →
      Step c ⟨upd c.th i ⟨setHold (c.th i).holds m true, (c.th i).sec + (if m = 0 then 1 else 0), r⟩, c.log⟩
  | unlock {c : Cfg} {i m : Nat} {r : Thread} : (c.th i).rest = .unlock m :: r → (c.th i).holds m = true →
      Step c ⟨upd c.th i ⟨setHold (c.th i).holds m false, (c.th i).sec, r⟩, c.log⟩
  | rd {c : Cfg} {i f : Nat} {r : Thread} : (c.th i).rest = .rd f :: r →
      Step c ⟨upd c.th i ⟨(c.th i).holds, (c.th i).sec, r⟩, c.log⟩
  | wr {c : Cfg} {i f : Nat} {r : Thread} : (c.th i).rest = .wr f :: r →
      Step c ⟨upd c.th i ⟨(c.th i).holds, (c.th i).sec, r⟩, c.log⟩
  | emit {c : Cfg} {i b : Nat} {r : Thread} : (c.th i).rest = .emit b :: r →
      Step c ⟨upd c.th i ⟨(c.th i).holds, (c.th i).sec, r⟩, (i, (c.th i).sec, b) :: c.log⟩

inductive Reach (c0 : Cfg) : Cfg → Prop
  | refl : Reach c0 c0
  | step {c c' : Cfg} : Reach c0 c → Step c c' → Reach c0 c'

/-- all threads at their first action, nobody holds any mutex, nothing written yet; thread ids beyond the list are
    idle (empty program), so one statement covers every finite number of threads -/
def initCfg (ts : List Thread) : Cfg := ⟨fun i => ⟨fun _ => false, 0, ts.getD i []⟩, []⟩

/-- the access thread state `s` is about to perform on field `f`: `some true` a write, `some false` a read -/
def nextAccess (s : TState) (f : Nat) : Option Bool :=
  match s.rest with
  | .rd g :: _ => if g = f then some false else none
  | .wr g :: _ => if g = f then some true else none
  | _ => none

/-- a data race on `f`: two different threads are both about to access `f`, at least one of them writing -/
def Race (c : Cfg) (f : Nat) : Prop :=
  ∃ i j wi wj, i ≠ j ∧ nextAccess (c.th i) f = some wi ∧ nextAccess (c.th j) f = some wj ∧ (wi = true ∨ wj = true)

/-- static lock tracking along a thread, for ONE chosen mutex `m`: every access to `f` is made while the thread holds
    `m` (`h` = does the thread hold `m` on entry); what the thread does with other mutexes is irrelevant -/
def GuardedBy (m f : Nat) : Bool → Thread → Prop
  | _, [] => True
  | h, .lock k :: r => GuardedBy m f (if m = k then true else h) r
  | h, .unlock k :: r => GuardedBy m f (if m = k then false else h) r
  | h, .rd g :: r => (g = f → h = true) ∧ GuardedBy m f h r
  | h, .wr g :: r => (g = f → h = true) ∧ GuardedBy m f h r
  | h, .emit _ :: r => GuardedBy m f h r

/-- every emission to the output stream is made while holding the screen mutex (mutex 0) -/
def EmitGuarded : Bool → Thread → Prop
  | _, [] => True
  | h, .lock k :: r => EmitGuarded (if k = 0 then true else h) r
  | h, .unlock k :: r => EmitGuarded (if k = 0 then false else h) r
  | h, .rd _ :: r => EmitGuarded h r
  | h, .wr _ :: r => EmitGuarded h r
  | h, .emit _ :: r => h = true ∧ EmitGuarded h r

/-- (newest first) every element is either new or equal to the element added just before it: the list is a
    sequence of runs with pairwise different values — no value's run is split by a foreign value -/
def Chunked {α : Type} : List α → Prop
  | [] => True
  | a :: l => Chunked l ∧ (a ∈ l → l.head? = some a)

/-- the tags (thread, critical section) of the output log -/
def tags (c : Cfg) : List (Nat × Nat) := c.log.map (fun e => (e.1, e.2.1))

/-! ## facts -/

/-- one extracted access: entry point id, field id, write?, ids of the mutexes held (ascending, numbering of
    `Gen.LockFacts.mutexNames`), concurrent phase?, after `wg.Wait`? -/
structure Fact where
  entry : Nat
  field : Nat
  wr : Bool
  locks : List Nat
  conc : Bool
  noloops : Bool
deriving DecidableEq, Repr

/-- the access is made holding mutex `m` -/
def Fact.holds (x : Fact) (m : Nat) : Bool := x.locks.contains m

/-- the field is written in the concurrent phase by some entry point -/
def concWrittenList (facts : List Fact) : List Nat := facts.filterMap fun x => if x.conc && x.wr then some x.field else none

def concWritten (facts : List Fact) (f : Nat) : Bool := (concWrittenList facts).contains f

/-- all concurrent-phase accesses of the field come from one entry point and that entry point is one of the
    library's own goroutines (kind 1; one live instance at a time: engage starts it only when not running and
    disengage waits for it — axiomatised; with fix C10-disengage-lifecycle the `lifecycle` mutex makes it true,
    without it engine `race` reports the overlap as `race-loops-overlap`) -/
def confinedTo (facts : List Fact) (kinds : List Nat) (f : Nat) : Bool :=
  match facts.find? (fun x => x.field == f && x.conc) with
  | none => false
  | some x0 => kinds.getD x0.entry 0 == 1 && facts.all (fun x => !(x.field == f && x.conc) || x.entry == x0.entry)

/-- a field needs no lock: synchronisation primitive (by declared type), init-only, or confined -/
def exemptField (facts : List Fact) (kinds syncs : List Nat) (f : Nat) : Bool :=
  syncs.contains f || !concWritten facts f || confinedTo facts kinds f

def exemptFields (facts : List Fact) (kinds syncs : List Nat) (nFields : Nat) : List Nat :=
  (List.range nFields).filter (exemptField facts kinds syncs)

/-- every concurrent-phase access of field `f` is made holding mutex `m` -/
def guardedBy (facts : List Fact) (f m : Nat) : Bool := facts.all fun x => !(x.conc && x.field == f) || x.holds m

/-- some concurrent-phase access of field `f` is made holding mutex `m` -/
def heldBySome (facts : List Fact) (f m : Nat) : Bool := facts.any fun x => x.conc && x.field == f && x.holds m

/-- a mutex in the INTERSECTION of the lock sets of all concurrent-phase accesses of `f` (the lowest-numbered one) -/
def commonGuard (facts : List Fact) (nMutex f : Nat) : Option Nat := (List.range nMutex).find? (guardedBy facts f)

/-- the mutex the accesses of `f` are judged against: the common guard when the intersection is not empty; otherwise
    (discipline broken on `f`) the lowest-numbered mutex that at least one access holds — the accesses that do not hold
    it get the blame — and 0 when no access holds anything -/
def blameGuard (facts : List Fact) (nMutex f : Nat) : Nat :=
  match commonGuard facts nMutex f with
  | some m => m
  | none => ((List.range nMutex).find? (heldBySome facts f)).getD 0

def guardsOf (facts : List Fact) (nMutex nFields : Nat) : List Nat := (List.range nFields).map (blameGuard facts nMutex)

/-- a fact respects the discipline: init phase, or the field is exempt, or the field's guard is held -/
def factOk (exempt guards : List Nat) (x : Fact) : Bool :=
  !x.conc || exempt.contains x.field || x.holds (guards.getD x.field 0)

/-- the facts violating the discipline (given the exempt fields and the guard of every field), in extraction order -/
def flaggedWith (exempt guards : List Nat) (facts : List Fact) : List Fact := facts.filter fun x => !factOk exempt guards x

/-- the facts violating the discipline, in extraction order -/
def flaggedOf (facts : List Fact) (kinds syncs : List Nat) (nFields nMutex : Nat) : List Fact :=
  flaggedWith (exemptFields facts kinds syncs nFields) (guardsOf facts nMutex nFields) facts

/-- the (field, write?, lock set) accesses of a thread under static lock tracking -/
def accessesOf : (Nat → Bool) → Thread → List (Nat × Bool × (Nat → Bool))
  | _, [] => []
  | h, .lock k :: r => accessesOf (setHold h k true) r
  | h, .unlock k :: r => accessesOf (setHold h k false) r
  | h, .rd g :: r => (g, false, h) :: accessesOf h r
  | h, .wr g :: r => (g, true, h) :: accessesOf h r
  | h, .emit _ :: r => accessesOf h r

/-- thread `t` is an execution path of entry point `e` as far as the facts are concerned: each of its accesses is
    one of the concurrent-phase facts extracted for `e` (same field, same direction) and the thread holds, under
    static tracking, at least the mutexes that fact records -/
def Conforms (facts : List Fact) (e : Nat) (t : Thread) : Prop :=
  ∀ a ∈ accessesOf (fun _ => false) t, ∃ x ∈ facts, x.entry = e ∧ x.field = a.1 ∧ x.wr = a.2.1 ∧ x.conc = true ∧
    ∀ k ∈ x.locks, a.2.2 k = true

end Tcell.Model.Lockset
