/-
Model of `getCharset` (charset_unix.go:24-52): the character set the POSIX locale variables select.

  locale := ""
  if locale = os.Getenv("LC_ALL"); locale == "" { if locale = os.Getenv("LC_CTYPE"); locale == "" { locale = os.Getenv("LANG") } }
  if locale == "POSIX" || locale == "C" { return "US-ASCII" }
  if i := strings.IndexRune(locale, '@'); i >= 0 { locale = locale[:i] }
  if i := strings.IndexRune(locale, '.'); i >= 0 { locale = locale[i+1:] } else { return "UTF-8" }
  return locale

`os.Getenv` returns "" for an unset variable, so "set to the empty string" and "unset" are the same input of this function —
POSIX (XBD 8.2) says the same: a variable that is empty is treated as unset.  Strings are lists of characters (valid UTF-8).
-/
namespace Tcell.Locale

/-- the part before the first occurrence of `c` (everything when `c` does not occur): `s[:IndexRune(s,c)]` -/
def before (c : Char) : List Char → List Char
  | [] => []
  | x :: xs => if x = c then [] else x :: before c xs

/-- the part after the first occurrence of `c`, `none` when `c` does not occur: `s[IndexRune(s,c)+1:]` -/
def afterFirst (c : Char) : List Char → Option (List Char)
  | [] => none
  | x :: xs => if x = c then some xs else afterFirst c xs

/-- the three locale variables; `none` = not in the environment -/
structure Env where
  lcAll : Option String := none
  lcCtype : Option String := none
  lang : Option String := none

/-- `os.Getenv` -/
def getenv (v : Option String) : List Char := (v.getD "").toList

/-- the locale string: first non-empty of LC_ALL, LC_CTYPE, LANG -/
def localeOf (e : Env) : List Char :=
  if getenv e.lcAll ≠ [] then getenv e.lcAll else if getenv e.lcCtype ≠ [] then getenv e.lcCtype else getenv e.lang

/-- what a locale string selects -/
def charsetOf (locale : List Char) : List Char :=
  if locale = "POSIX".toList ∨ locale = "C".toList then "US-ASCII".toList
  else match afterFirst '.' (before '@' locale) with
    | some cs => cs
    | none => "UTF-8".toList

def getCharset (e : Env) : String := String.ofList (charsetOf (localeOf e))

end Tcell.Locale
