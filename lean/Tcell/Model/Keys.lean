import Tcell.Gen.TerminfoStruct
/-
Model of the key table a terminfo screen builds at construction time: `prepareKeys` and friends,
/repo/tscreen.go:251-676, **insertion by insertion**.  The Go table is `map[string]*tKeyCode`; here it is an
association list (order irrelevant: every operation is lookup / insert-if-absent / replace-in-place).
Key and modifier values are the numeric values of key.go (checked against the regenerated `Tcell.Gen.Keys`
by `example`s in `Tcell.Props.C03`).  Core Lean only.
-/
namespace Tcell.Model

/-! ### constants of key.go (300-383, 261-267) and mouse.go -/
def keyRune : Nat := 256
def keyUp : Nat := 257
def keyDown : Nat := 258
def keyRight : Nat := 259
def keyLeft : Nat := 260
def keyPgUp : Nat := 266
def keyPgDn : Nat := 267
def keyHome : Nat := 268
def keyEnd : Nat := 269
def keyInsert : Nat := 270
def keyDelete : Nat := 271
def keyHelp : Nat := 272
def keyExit : Nat := 273
def keyClear : Nat := 274
def keyCancel : Nat := 275
def keyPrint : Nat := 276
def keyPause : Nat := 277
def keyBacktab : Nat := 278
/-- `KeyF1 … KeyF64` are consecutive (key.go:324-387) -/
def keyF (n : Nat) : Nat := 278 + n
def keyPasteStart : Nat := 16384
def keyPasteEnd : Nat := 16385
def keyBackspace : Nat := 8   -- KeyBS
def keyTab : Nat := 9
def keyEnter : Nat := 13      -- KeyCR
def keyEsc : Nat := 27
def keyBackspace2 : Nat := 127 -- KeyDEL
def modNone : Nat := 0
def modShift : Nat := 1
def modCtrl : Nat := 2
def modAlt : Nat := 4
def modMeta : Nat := 8

/-- byte-string equality as a `Bool` built from `Nat.beq` (kernel-accelerated on literals) -/
def bytesEq : Bytes → Bytes → Bool
  | [], [] => true
  | a :: as, b :: bs => Nat.beq a b && bytesEq as bs
  | _, _ => false

/-- `bytes.HasPrefix(b, p)` -/
def hasPrefix : (b p : Bytes) → Bool
  | _, [] => true
  | [], _ :: _ => false
  | a :: as, b :: bs => Nat.beq a b && hasPrefix as bs

/-- one entry of `t.keycodes`: escape sequence ↦ (key, modifiers) -/
structure KeyEntry where
  seq : Bytes
  key : Nat
  mod : Nat
deriving DecidableEq, Repr, Inhabited

abbrev KeyTable := List KeyEntry

def lookup (T : KeyTable) (s : Bytes) : Option KeyEntry := T.find? (fun e => bytesEq e.seq s)

/-- `prepareKeyMod` (tscreen.go:251): insert unless `val` is empty or already present ("do not override") -/
def prepareKeyMod (T : KeyTable) (key mod : Nat) (val : Bytes) : KeyTable :=
  match val with
  | [] => T
  | _ => match lookup T val with
    | some _ => T
    | none => ⟨val, key, mod⟩ :: T

/-- `prepareKey` (tscreen.go:504) -/
def prepareKey (T : KeyTable) (key : Nat) (val : Bytes) : KeyTable := prepareKeyMod T key modNone val

/-- `prepareKeyModReplace` (tscreen.go:261): insert if absent, overwrite if the present entry's key is `replace` -/
def prepareKeyModReplace (T : KeyTable) (key replace mod : Nat) (val : Bytes) : KeyTable :=
  match val with
  | [] => T
  | _ => match lookup T val with
    | none => ⟨val, key, mod⟩ :: T
    | some old =>
      if Nat.beq old.key replace then T.map (fun e => if bytesEq e.seq val then ⟨val, key, mod⟩ else e) else T

/-- decimal digits of a small number (modifier parameter 2..16) -/
def dec2 (n : Nat) : Bytes := if n < 10 then [48 + n] else [48 + n / 10, 48 + n % 10]

/-- the fifteen (parameter, modifiers, replaced alias offset) rows of `prepareKeyModXTerm`, in source order of the
`ESC [ … ~` branch (tscreen.go:281-295); `none` = plain `prepareKeyMod` -/
def xtermRowsTilde : List (Nat × Nat × Option Nat) :=
  [(2, modShift, some 12), (3, modAlt, some 48), (4, modAlt + modShift, some 60), (5, modCtrl, some 24),
   (6, modCtrl + modShift, some 36), (7, modAlt + modCtrl, none), (8, modShift + modAlt + modCtrl, none),
   (9, modMeta, none), (10, modMeta + modShift, none), (11, modMeta + modAlt, none),
   (12, modMeta + modAlt + modShift, none), (13, modMeta + modCtrl, none), (14, modMeta + modCtrl + modShift, none),
   (15, modMeta + modCtrl + modAlt, none), (16, modMeta + modCtrl + modAlt + modShift, none)]

/-- the rows of the `ESC O x` branch in source order (tscreen.go:298-312; note 5,6 come before 4) -/
def xtermRowsSS3 : List (Nat × Nat × Option Nat) :=
  [(2, modShift, some 12), (3, modAlt, some 48), (5, modCtrl, some 24), (6, modCtrl + modShift, some 36),
   (4, modAlt + modShift, some 60), (7, modAlt + modCtrl, none), (8, modShift + modAlt + modCtrl, none),
   (9, modMeta, none), (10, modMeta + modShift, none), (11, modMeta + modAlt, none),
   (12, modMeta + modAlt + modShift, none), (13, modMeta + modCtrl, none), (14, modMeta + modCtrl + modShift, none),
   (15, modMeta + modCtrl + modAlt, none), (16, modMeta + modCtrl + modAlt + modShift, none)]

def applyRow (key : Nat) (mk : Nat → Bytes) (T : KeyTable) (row : Nat × Nat × Option Nat) : KeyTable :=
  match row.2.2 with
  | some off => prepareKeyModReplace T key (key + off) row.2.1 (mk row.1)
  | none => prepareKeyMod T key row.2.1 (mk row.1)

/-- `strings.HasSuffix(val, "~")` -/
def endsWithTilde (val : Bytes) : Bool := match val.getLast? with | some c => Nat.beq c 126 | none => false

/-- `prepareKeyModXTerm` (tscreen.go:271): both shapes -/
def prepareKeyModXTerm (T : KeyTable) (key : Nat) (val : Bytes) : KeyTable :=
  if hasPrefix val [27, 91] && endsWithTilde val then
    let stem := val.dropLast
    xtermRowsTilde.foldl (applyRow key (fun n => stem ++ [59] ++ dec2 n ++ [126])) T
  else if hasPrefix val [27, 79] && Nat.beq val.length 3 then
    let fin := val.drop 2
    xtermRowsSS3.foldl (applyRow key (fun n => [27, 91, 49, 59] ++ dec2 n ++ fin)) T
  else T

/-- the 22 (key, capability) pairs of `prepareXtermModifiers` (tscreen.go:320-341) in source order -/
def xtermModKeys (k : TermKeys) : List (Nat × Bytes) :=
  [(keyRight, k.keyRight), (keyLeft, k.keyLeft), (keyUp, k.keyUp), (keyDown, k.keyDown),
   (keyInsert, k.keyInsert), (keyDelete, k.keyDelete), (keyPgUp, k.keyPgUp), (keyPgDn, k.keyPgDn),
   (keyHome, k.keyHome), (keyEnd, k.keyEnd),
   (keyF 1, k.keyF1), (keyF 2, k.keyF2), (keyF 3, k.keyF3), (keyF 4, k.keyF4), (keyF 5, k.keyF5), (keyF 6, k.keyF6),
   (keyF 7, k.keyF7), (keyF 8, k.keyF8), (keyF 9, k.keyF9), (keyF 10, k.keyF10), (keyF 11, k.keyF11), (keyF 12, k.keyF12)]

/-- `terminfo.ModifiersXTerm` (terminfo.go) -/
def modifiersXTerm : Int := 1

/-- `prepareXtermModifiers` (tscreen.go:316) -/
def prepareXtermModifiers (T : KeyTable) (ti : Terminfo) : KeyTable :=
  if ti.modifiers = modifiersXTerm then
    (xtermModKeys ti.keys).foldl (fun T p => prepareKeyModXTerm T p.1 p.2) T
  else T

/-- `strings.HasPrefix(ti.Name, "xterm")` on the name's characters -/
def charsHavePrefix : List Char → List Char → Bool
  | _, [] => true
  | [], _ :: _ => false
  | a :: as, b :: bs => a == b && charsHavePrefix as bs

/-- `strings.Contains` -/
def charsContain : List Char → List Char → Bool
  | [], p => p.isEmpty
  | a :: as, p => charsHavePrefix (a :: as) p || charsContain as p

/-- `XTermLike` after `prepareKeys` line 510: the flag of the entry, or the name starts with "xterm" -/
def xtermLike (ti : Terminfo) : Bool := ti.xTermLike || charsHavePrefix ti.name.toList "xterm".toList

/-- `prepareBracketedPaste` (tscreen.go:344), key-table part -/
def prepareBracketedPaste (T : KeyTable) (ti : Terminfo) : KeyTable :=
  match ti.enablePaste with
  | _ :: _ => prepareKey (prepareKey T keyPasteStart ti.pasteStart) keyPasteEnd ti.pasteEnd
  | [] =>
    if !ti.mouse.isEmpty || xtermLike ti then
      prepareKey (prepareKey T keyPasteStart [27, 91, 50, 48, 48, 126]) keyPasteEnd [27, 91, 50, 48, 49, 126]
    else T

/-- the unconditional insertions of `prepareKeys` (tscreen.go:515-610) in source order: (key, mods, capability) -/
def baseKeyCaps (k : TermKeys) : List (Nat × Nat × Bytes) :=
  [(keyBackspace, modNone, k.keyBackspace)] ++
  ([
    (keyF 1, k.keyF1), (keyF 2, k.keyF2), (keyF 3, k.keyF3), (keyF 4, k.keyF4), (keyF 5, k.keyF5), (keyF 6, k.keyF6),
    (keyF 7, k.keyF7), (keyF 8, k.keyF8), (keyF 9, k.keyF9), (keyF 10, k.keyF10), (keyF 11, k.keyF11), (keyF 12, k.keyF12),
    (keyF 13, k.keyF13), (keyF 14, k.keyF14), (keyF 15, k.keyF15), (keyF 16, k.keyF16), (keyF 17, k.keyF17), (keyF 18, k.keyF18),
    (keyF 19, k.keyF19), (keyF 20, k.keyF20), (keyF 21, k.keyF21), (keyF 22, k.keyF22), (keyF 23, k.keyF23), (keyF 24, k.keyF24),
    (keyF 25, k.keyF25), (keyF 26, k.keyF26), (keyF 27, k.keyF27), (keyF 28, k.keyF28), (keyF 29, k.keyF29), (keyF 30, k.keyF30),
    (keyF 31, k.keyF31), (keyF 32, k.keyF32), (keyF 33, k.keyF33), (keyF 34, k.keyF34), (keyF 35, k.keyF35), (keyF 36, k.keyF36),
    (keyF 37, k.keyF37), (keyF 38, k.keyF38), (keyF 39, k.keyF39), (keyF 40, k.keyF40), (keyF 41, k.keyF41), (keyF 42, k.keyF42),
    (keyF 43, k.keyF43), (keyF 44, k.keyF44), (keyF 45, k.keyF45), (keyF 46, k.keyF46), (keyF 47, k.keyF47), (keyF 48, k.keyF48),
    (keyF 49, k.keyF49), (keyF 50, k.keyF50), (keyF 51, k.keyF51), (keyF 52, k.keyF52), (keyF 53, k.keyF53), (keyF 54, k.keyF54),
    (keyF 55, k.keyF55), (keyF 56, k.keyF56), (keyF 57, k.keyF57), (keyF 58, k.keyF58), (keyF 59, k.keyF59), (keyF 60, k.keyF60),
    (keyF 61, k.keyF61), (keyF 62, k.keyF62), (keyF 63, k.keyF63), (keyF 64, k.keyF64)
   ] : List (Nat × Bytes)).map (fun p => (p.1, modNone, p.2)) ++
  [(keyInsert, modNone, k.keyInsert), (keyDelete, modNone, k.keyDelete), (keyHome, modNone, k.keyHome),
   (keyEnd, modNone, k.keyEnd), (keyUp, modNone, k.keyUp), (keyDown, modNone, k.keyDown),
   (keyLeft, modNone, k.keyLeft), (keyRight, modNone, k.keyRight), (keyPgUp, modNone, k.keyPgUp),
   (keyPgDn, modNone, k.keyPgDn), (keyHelp, modNone, k.keyHelp), (keyPrint, modNone, k.keyPrint),
   (keyCancel, modNone, k.keyCancel), (keyExit, modNone, k.keyExit), (keyBacktab, modNone, k.keyBacktab),
   (keyRight, modShift, k.keyShfRight), (keyLeft, modShift, k.keyShfLeft), (keyUp, modShift, k.keyShfUp),
   (keyDown, modShift, k.keyShfDown), (keyHome, modShift, k.keyShfHome), (keyEnd, modShift, k.keyShfEnd),
   (keyPgUp, modShift, k.keyShfPgUp), (keyPgDn, modShift, k.keyShfPgDn),
   (keyRight, modCtrl, k.keyCtrlRight), (keyLeft, modCtrl, k.keyCtrlLeft), (keyUp, modCtrl, k.keyCtrlUp),
   (keyDown, modCtrl, k.keyCtrlDown), (keyHome, modCtrl, k.keyCtrlHome), (keyEnd, modCtrl, k.keyCtrlEnd)]

/-- the extra cursor/editing keys inserted when the entry has `EnterKeypad` (tscreen.go:623-642) -/
def keypadExtras : List (Nat × Nat × Bytes) :=
  [(keyUp, modNone, [27, 91, 65]), (keyDown, modNone, [27, 91, 66]), (keyRight, modNone, [27, 91, 67]),
   (keyLeft, modNone, [27, 91, 68]), (keyEnd, modNone, [27, 91, 70]), (keyHome, modNone, [27, 91, 72]),
   (keyDelete, modNone, [27, 91, 51, 126]), (keyHome, modNone, [27, 91, 49, 126]), (keyEnd, modNone, [27, 91, 52, 126]),
   (keyPgUp, modNone, [27, 91, 53, 126]), (keyPgDn, modNone, [27, 91, 54, 126]),
   (keyUp, modNone, [27, 79, 65]), (keyDown, modNone, [27, 79, 66]), (keyRight, modNone, [27, 79, 67]),
   (keyLeft, modNone, [27, 79, 68]), (keyHome, modNone, [27, 79, 72])]

def insertAll (T : KeyTable) (l : List (Nat × Nat × Bytes)) : KeyTable :=
  l.foldl (fun T p => prepareKeyMod T p.1 p.2.1 p.2.2) T

/-- some sequence of the table starts with byte `i` (inner loop of tscreen.go:660) -/
def startsSome (T : KeyTable) (i : Nat) : Bool :=
  T.any (fun e => match e.seq with | c :: _ => Nat.beq c i | [] => false)

/-- modifiers of a single control byte (tscreen.go:668-673): none for BS, TAB, ESC, CR, Ctrl otherwise -/
def ctrlByteMod (i : Nat) : Nat := if i = 8 ∨ i = 9 ∨ i = 27 ∨ i = 13 then modNone else modCtrl

/-- final loop of `prepareKeys` (tscreen.go:654-675) for `i = from … 31` -/
def addCtrlBytes (T : KeyTable) : (n : Nat) → (i : Nat) → KeyTable
  | 0, _ => T
  | n + 1, i =>
    let T' := if startsSome T i then T else (⟨[i], i, ctrlByteMod i⟩ : KeyEntry) :: T
    addCtrlBytes T' n (i + 1)

/-- the three key capabilities `prepareKeys` of the pinned tree never inserts although `terminfo.Terminfo` has the
fields and database entries define them (aixterm, hpterm: `KeyClear`; rxvt family: `KeyShfInsert`, `KeyShfDelete`);
the repaired variant (fixes/C03-ignored-key-caps.patch) inserts them right after `prepareXtermModifiers` -/
def ignoredKeyCaps (k : TermKeys) : List (Nat × Nat × Bytes) :=
  [(keyClear, modNone, k.keyClear), (keyInsert, modShift, k.keyShfInsert), (keyDelete, modShift, k.keyShfDelete)]

/-- which variant of the two known-defect sites the code under test implements (`false` = pinned tree) -/
structure Variant where
  x11 : Bool := false
  keycaps : Bool := false
  /-- fixes/C02-clipboard.patch applied (OSC 52 reply parser cuts at the terminator it found) -/
  clip : Bool := false
  /-- fixes/C02-sgr-strict.patch applied (`parseSgrMouse` rejects on a byte that has no `case`) -/
  sgr : Bool := false
deriving DecidableEq, Repr, Inhabited

/-- `prepareKeys` (tscreen.go:508-676): the key table of a screen built for `ti`
(`fixed = false`: the pinned tree; `true`: with the three ignored capabilities inserted) -/
def buildKeys (fixed : Bool) (ti : Terminfo) : KeyTable :=
  let T := insertAll [] (baseKeyCaps ti.keys)
  let T := match ti.enterKeypad with | _ :: _ => insertAll T keypadExtras | [] => T
  let T := prepareKey (prepareKey T keyPasteStart ti.pasteStart) keyPasteEnd ti.pasteEnd
  let T := prepareXtermModifiers T ti
  let T := if fixed then insertAll T (ignoredKeyCaps ti.keys) else T
  let T := prepareBracketedPaste T ti
  addCtrlBytes T 32 0

/-- `t.setClipboard != ""` after `prepareExtendedOSC` (tscreen.go:410-459): the OSC 52 reply parser is active
exactly on xterm-like entries whose name does not contain "linux" (the field starts empty and is only set there) -/
def clipboardActive (ti : Terminfo) : Bool :=
  !charsContain ti.name.toList "linux".toList && xtermLike ti

/-- `t.ti.Mouse != ""` (tscreen.go:1759): the two mouse parsers run -/
def mouseActive (ti : Terminfo) : Bool := !ti.mouse.isEmpty

end Tcell.Model
