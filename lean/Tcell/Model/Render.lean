/-
Rendering of the draw path's abstract commands (`Tcell.Cmd`) to the bytes the tScreen writes: the TPuts /
TParm calls of drawCell's style block (tscreen.go:841-910), sendFgBg (725), showCursor (977-991),
hideCursor (1037), clearScreen (1027).  `fit` is go-colorful's nearest-palette-colour search (a parameter:
`FindColor(c, palette)` for the screen's palette, `fit0` for the {black, white} palette of colourless terminals).
-/
import Tcell.Model.Draw
import Tcell.Model.Derived
import Tcell.Model.TParm
import Tcell.Model.TPuts
import Tcell.Model.Color
namespace Tcell

structure RenderCfg where
  ti : Terminfo
  d : Derived
  truecolor : Bool
  fit : Nat → Nat
  fit0 : Nat → Nat

namespace Render
open TParm (Value)

def attrBold : Nat := 1
def attrBlink : Nat := 2
def attrReverse : Nat := 4
def attrDim : Nat := 16
def attrItalic : Nat := 32
def attrStrike : Nat := 64
def colorBlack : Nat := 2^32
def colorWhite : Nat := 2^32 + 15

/-- t.TPuts(s): the bytes that reach the output (padding specifications removed) -/
def tp (c : RenderCfg) (s : Bytes) : Bytes := (TPuts.tputs c.ti.padChar s).bytes

def parm (prog : Bytes) (ps : List Value) : Bytes := (TParm.tparm prog ps TParm.noVars).1

def ints (l : List Int) : List Value := l.map Value.int

def rgbOf (col : Nat) : List Int := let r := Color.rgb col; [r.1, r.2.1, r.2.2]

/-- number of palette entries the screen keeps (tscreen.go:219-229) -/
def nColors (c : RenderCfg) : Nat := if c.ti.colors > 256 then 256 else c.ti.colors.toNat

/-- `t.colors[x]` lookup with FindColor fallback: identity on the palette itself -/
def fitColor (c : RenderCfg) (col : Nat) : Nat :=
  if col ≥ 2^32 ∧ col < 2^32 + nColors c then col else c.fit col

/-- tscreen.go:725 sendFgBg: bytes written and the (possibly reversed) attributes -/
def sendFgBg (c : RenderCfg) (fg bg attr : Nat) : Bytes × Nat :=
  let ti := c.ti
  let early : Option (Bytes × Nat) :=
    if ti.colors = 0 then
      if !Color.valid fg then some ([], attr)
      else
        let v := c.fit0 fg
        if v = colorWhite then some ([], attr)
        else if v = colorBlack then some ([], attr ^^^ attrReverse)
        else none
    else none
  match early with
  | some r => r
  | none =>
    let b0 := if fg = colorReset ∨ bg = colorReset then tp c ti.resetFgBg else []
    if c.truecolor ∧ !ti.setFgBgRGB.isEmpty ∧ Color.isRGB fg ∧ Color.isRGB bg then
      (b0 ++ tp c (parm ti.setFgBgRGB (ints (rgbOf fg ++ rgbOf bg))), attr)
    else
      let (b1, fg1) :=
        if c.truecolor ∧ Color.isRGB fg ∧ !ti.setFgRGB.isEmpty then (tp c (parm ti.setFgRGB (ints (rgbOf fg))), 0) else ([], fg)
      let (b2, bg1) :=
        if c.truecolor ∧ Color.isRGB bg ∧ !ti.setBgRGB.isEmpty then (tp c (parm ti.setBgRGB (ints (rgbOf bg))), 0) else ([], bg)
      let fg2 := if Color.valid fg1 then fitColor c fg1 else fg1
      let bg2 := if Color.valid bg1 then fitColor c bg1 else bg1
      let b3 :=
        if Color.valid fg2 ∧ Color.valid bg2 ∧ !ti.setFgBg.isEmpty then
          tp c (parm ti.setFgBg (ints [((fg2 % 256 : Nat) : Int), ((bg2 % 256 : Nat) : Int)]))
        else
          (if Color.valid fg2 ∧ !ti.setFg.isEmpty then tp c (parm ti.setFg (ints [((fg2 % 256 : Nat) : Int)])) else []) ++
          (if Color.valid bg2 ∧ !ti.setBg.isEmpty then tp c (parm ti.setBg (ints [((bg2 % 256 : Nat) : Int)])) else [])
      (b0 ++ b1 ++ b2 ++ b3, attr)

/-- the underline part of the style block (tscreen.go:850-883) -/
def underline (c : RenderCfg) (us uc : Nat) : Bytes :=
  if us = 0 then []
  else
    let d := c.d
    let colour :=
      if !d.underColor.isEmpty ∨ !d.underRGB.isEmpty then
        if uc = colorReset then tp c d.underFg
        else if Color.isRGB uc then
          if !d.underRGB.isEmpty then tp c (parm d.underRGB (ints (rgbOf uc)))
          else tp c (parm d.underColor (ints [((fitColor c uc % 256 : Nat) : Int)]))
        else if Color.valid uc then tp c (parm d.underColor (ints [((uc % 256 : Nat) : Int)]))
        else []
      else []
    let style :=
      if us = 2 then tp c d.doubleUnder else if us = 3 then tp c d.curlyUnder
      else if us = 4 then tp c d.dottedUnder else if us = 5 then tp c d.dashedUnder else []
    colour ++ tp c c.ti.underline ++ style

/-- the whole `if style != t.curstyle` block of drawCell -/
def setPen (c : RenderCfg) (s : Style) : Bytes :=
  let ti := c.ti
  let (cb, attrs) := sendFgBg c s.fg s.bg s.attrs
  let has (bit : Nat) : Bool := attrs / bit % 2 = 1
  tp c ti.attrOff ++ cb ++
  (if has attrBold then tp c ti.bold else []) ++
  underline c s.ulStyle s.ulColor ++
  (if has attrReverse then tp c ti.reverse else []) ++
  (if has attrBlink then tp c ti.blink else []) ++
  (if has attrDim then tp c ti.dim else []) ++
  (if has attrItalic then tp c ti.italic else []) ++
  (if has attrStrike then tp c ti.strikeThrough else []) ++
  (if !c.d.enterUrl.isEmpty then
     (if s.url ≠ "" then tp c (parm c.d.enterUrl [Value.str (str s.url), Value.str (str s.urlId)]) else tp c c.d.exitUrl)
   else [])

def render (c : RenderCfg) : Cmd → Bytes
  | .goto x y => tp c (TPuts.tgoto c.ti x y TParm.noVars).1
  | .setPen s => setPen c s
  | .put bytes _ => bytes
  | .hideCursor => tp c c.ti.hideCursor
  | .showCursor cs cc =>
    tp c c.ti.showCursor ++
    (match c.d.cursorStyles with
     | some l => (match l[cs]? with | some e => tp c e | none => [])
     | none => []) ++
    (if !c.d.cursorRGB.isEmpty then
       (if cc = colorReset then tp c c.d.cursorFg
        else if Color.valid cc then tp c (parm c.d.cursorRGB (ints (rgbOf cc))) else [])
     else [])
  | .clear s => tp c c.ti.attrOff ++ tp c c.d.exitUrl ++ (sendFgBg c s.fg s.bg 0).1 ++ tp c c.ti.clear
  | .insertChar => tp c c.ti.insertChar

def renderAll (c : RenderCfg) (cs : List Cmd) : Bytes := cs.flatMap (render c)

end Render
end Tcell
