/-
The control strings the tScreen constructor synthesises from a terminal description
(tscreen.go prepareBracketedPaste 344, prepareUnderlines 362, prepareExtendedOSC 410, prepareCursorStyles 462).
Tied to the code by the exhaustive `derived` engine (every registered entry, `tcell.VerifDerived`).
-/
import Tcell.Gen.TerminfoStruct
namespace Tcell

structure Derived where
  xtermLike : Bool := false
  enablePaste : Bytes := []
  disablePaste : Bytes := []
  enterUrl : Bytes := []
  exitUrl : Bytes := []
  setWinSize : Bytes := []
  enableFocus : Bytes := []
  disableFocus : Bytes := []
  doubleUnder : Bytes := []
  curlyUnder : Bytes := []
  dottedUnder : Bytes := []
  dashedUnder : Bytes := []
  underColor : Bytes := []
  underRGB : Bytes := []
  underFg : Bytes := []
  cursorStyles : Option (List Bytes) := none   -- 7 entries: Default, BlinkingBlock, SteadyBlock, BlinkingUnderline, SteadyUnderline, BlinkingBar, SteadyBar
  cursorRGB : Bytes := []
  cursorFg : Bytes := []
  setTitle : Bytes := []
  saveTitle : Bytes := []
  restoreTitle : Bytes := []
  setClipboard : Bytes := []

def str (s : String) : Bytes := s.toUTF8.toList.map (·.toNat)

def bytesHasPrefix : Bytes → Bytes → Bool
  | _, [] => true
  | [], _ :: _ => false
  | a :: as, b :: bs => a == b && bytesHasPrefix as bs

def bytesContains : Bytes → Bytes → Bool
  | [], p => p.isEmpty
  | a :: as, p => bytesHasPrefix (a :: as) p || bytesContains as p

/-- strings.Replace(s, old, new, 1) -/
def bytesReplace1 : Bytes → Bytes → Bytes → Bytes
  | [], _, _ => []
  | a :: as, old, new =>
    if !old.isEmpty && bytesHasPrefix (a :: as) old then new ++ (a :: as).drop old.length
    else a :: bytesReplace1 as old new

def esc (s : String) : Bytes := 27 :: str s

def derive (ti : Terminfo) : Derived :=
  let name := str ti.name
  let xt := ti.xTermLike || bytesHasPrefix name (str "xterm")     -- prepareKeys 510
  let mouseOrXt := !ti.mouse.isEmpty || xt
  -- prepareBracketedPaste
  let (ep, dp) :=
    if !ti.enablePaste.isEmpty then (ti.enablePaste, ti.disablePaste)
    else if mouseOrXt then (esc "[?2004h", esc "[?2004l") else ([], [])
  -- prepareCursorStyles
  let cstyles : Option (List Bytes) :=
    if !ti.cursorDefault.isEmpty then
      some [ti.cursorDefault, ti.cursorBlinkingBlock, ti.cursorSteadyBlock, ti.cursorBlinkingUnderline,
            ti.cursorSteadyUnderline, ti.cursorBlinkingBar, ti.cursorSteadyBar]
    else if mouseOrXt then
      some [esc "[0 q", esc "[1 q", esc "[2 q", esc "[3 q", esc "[4 q", esc "[5 q", esc "[6 q"]
    else none
  let crgb0 := ti.cursorColorRGB
  let cfg0 := ti.cursorColorReset
  let (crgb1, cfg1) := if crgb0.isEmpty then (esc "]12;%p1%s" ++ [7], esc "]112" ++ [7]) else (crgb0, cfg0)
  let crgb := bytesReplace1 crgb1 (str "%p1%s") (str "#%p1%02x%p2%02x%p3%02x")
  -- prepareUnderlines
  let du := if !ti.doubleUnderline.isEmpty then ti.doubleUnderline else if xt then esc "[4:2m" else []
  let cu := if !ti.curlyUnderline.isEmpty then ti.curlyUnderline else if xt then esc "[4:3m" else []
  let dou := if !ti.dottedUnderline.isEmpty then ti.dottedUnderline else if xt then esc "[4:4m" else []
  let dau := if !ti.dashedUnderline.isEmpty then ti.dashedUnderline else if xt then esc "[4:5m" else []
  let uc := if !ti.underlineColor.isEmpty then ti.underlineColor else if !cu.isEmpty then esc "[58:5:%p1%dm" else []
  let urgb := if !ti.underlineColorRGB.isEmpty then ti.underlineColorRGB
              else if !uc.isEmpty then esc "[58:2::%p1%d:%p2%d:%p3%dm" else []
  let ufg := if !ti.underlineColorReset.isEmpty then ti.underlineColorReset else if !cu.isEmpty then esc "[59m" else []
  let base : Derived :=
    { xtermLike := xt, enablePaste := ep, disablePaste := dp, cursorStyles := cstyles, cursorRGB := crgb, cursorFg := cfg1,
      doubleUnder := du, curlyUnder := cu, dottedUnder := dou, dashedUnder := dau, underColor := uc, underRGB := urgb,
      underFg := ufg }
  -- prepareExtendedOSC (skipped entirely for linux)
  if bytesContains name (str "linux") then base
  else
    let (eu, xu) :=
      if !ti.enterUrl.isEmpty then (ti.enterUrl, ti.exitUrl)
      else if mouseOrXt then (esc "]8;%p2%s;%p1%s" ++ [27, 92], esc "]8;;" ++ [27, 92]) else ([], [])
    let sws := if !ti.setWindowSize.isEmpty then ti.setWindowSize else if mouseOrXt then esc "[8;%p1%p2%d;%dt" else []
    let ef := if !ti.enableFocusReporting.isEmpty then ti.enableFocusReporting else if mouseOrXt then esc "[?1004h" else []
    let df := if !ti.disableFocusReporting.isEmpty then ti.disableFocusReporting else if mouseOrXt then esc "[?1004l" else []
    let (st, sv, rt) :=
      if !ti.setWindowTitle.isEmpty then (ti.setWindowTitle, [], [])
      else if xt then (esc "[>2t" ++ esc "]2;%p1%s" ++ [27, 92], esc "[22;2t", esc "[23;2t") else ([], [], [])
    let sc := if xt then esc "]52;c;%p1%s" ++ [27, 92] else []
    { base with enterUrl := eu, exitUrl := xu, setWinSize := sws, enableFocus := ef, disableFocus := df,
                setTitle := st, saveTitle := sv, restoreTitle := rt, setClipboard := sc }

end Tcell
