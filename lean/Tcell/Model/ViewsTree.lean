/-
Heap model of a tree of `views.BoxLayout`s and leaf widgets under op histories (boxlayout.go:171-331), used by
the `box` correspondence engine.  It mirrors the statefulness of the Go code: every cell owns a ViewPort
(created by NewViewPort in AddWidget/InsertWidget, boxlayout.go:252/269), a BoxLayout caches its preferred size
(`b.width, b.height`, recomputed only inside `layout`), `changed` defers re-layout to the next Draw, and content
events propagate `changed` to the watchers (boxlayout.go:231-238).  The layout arithmetic itself is
`Tcell.Views.layoutPlaces` / `layoutPref` (Model/Views.lean), the functions the C20 theorems are about.

Not modelled: what widgets paint (the Go oracle checks painting directly); the auto-grow of the content limits of
intermediate ViewPorts caused by painting (not observed by the engine and not read by any layout code).
Recursion over the widget tree takes fuel (the harness never builds cycles; with a cycle Go does not terminate).
-/
import Tcell.Model.Views
namespace Tcell.Views.Tree
open Tcell.Views

inductive VRef where
  | none
  | root
  | vp (k : Nat)
deriving DecidableEq, Repr, Inhabited

structure BCell (F : Type) where
  child : Nat
  fill : F
  vp : Nat

/-- a widget: a leaf (recording widget with a preferred size) or a BoxLayout -/
structure Node (F : Type) where
  id : Nat
  isBox : Bool
  /-- leaf: preferred size; box: `b.width`, `b.height` -/
  w : Int := 0
  h : Int := 0
  horizontal : Bool := true
  cells : List (BCell F) := []
  changed : Bool := false
  view : VRef := .none
  watchers : List Nat := []

structure Heap (F : Type) where
  nodes : List (Node F) := []          -- in creation order
  vps : Array (ViewPort × VRef) := #[]  -- every ViewPort ever created, with its parent View
  rootW : Int := 0
  rootH : Int := 0
  /-- variant switch: `false` = pinned tree, BoxLayout.Size() returns the `b.width, b.height` cached by the last
  layout() (boxlayout.go:214-216); `true` = Size() computed from the children on demand (proposed repair
  fixes/C20-boxlayout-size.patch).  The harness probes the linked code and says which one applies. -/
  fresh : Bool := false

variable {F : Type} [LayoutNum F]

namespace Heap

def get (hp : Heap F) (id : Nat) : Option (Node F) := hp.nodes.find? (·.id == id)

def set (hp : Heap F) (n : Node F) : Heap F :=
  { hp with nodes := hp.nodes.map fun m => if m.id == n.id then n else m }

def upd (hp : Heap F) (id : Nat) (f : Node F → Node F) : Heap F :=
  { hp with nodes := hp.nodes.map fun m => if m.id == id then f m else m }

/-- `view.Size()`; `none` for a nil View -/
def viewSize (hp : Heap F) : VRef → Option (Int × Int)
  | .none => none
  | .root => some (hp.rootW, hp.rootH)
  | .vp k => match hp.vps[k]? with
    | some (v, _) => some v.size
    | none => some (0, 0)

/-- widget.Size() -/
def sizeRec : Nat → Heap F → Nat → Int × Int
  | 0, _, _ => (0, 0)
  | fuel + 1, hp, id =>
    match hp.get id with
    | some n =>
      if n.isBox && hp.fresh then
        layoutPref n.horizontal (n.cells.map fun c =>
          let s := sizeRec fuel hp c.child
          ({ w := s.1, h := s.2, fill := c.fill } : Child F))
      else (n.w, n.h)
    | none => (0, 0)

def nodeSize (hp : Heap F) (id : Nat) : Int × Int := sizeRec (hp.nodes.length + 2) hp id

/-- NewViewPort(parent, 0, 0, 0, 0) -/
def newVP (hp : Heap F) (parent : VRef) : Heap F × Nat :=
  ({ hp with vps := hp.vps.push (ViewPort.new (hp.viewSize parent) 0 0 0 0, parent) }, hp.vps.size)

/-- ViewPort.SetView on viewport k -/
def vpSetView (hp : Heap F) (k : Nat) (v : VRef) : Heap F :=
  match hp.vps[k]? with
  | some (p, _) => { hp with vps := hp.vps.set! k (p.setView (v != .none), v) }
  | none => hp

/-- ViewPort.Resize on viewport k (the parent's Size() is read through the stored parent reference) -/
def vpResize (hp : Heap F) (k : Nat) (pl : Place) : Heap F :=
  match hp.vps[k]? with
  | some (p, par) =>
    match hp.viewSize par with
    | some (px, py) => { hp with vps := hp.vps.set! k (p.resize px py pl.x pl.y pl.w pl.h, par) }
    | none => hp
  | none => hp

/-- widget.SetView(view): leaf records it; BoxLayout.SetView (boxlayout.go:219-225) -/
def setView (hp : Heap F) (id : Nat) (v : VRef) : Heap F :=
  match hp.get id with
  | some n =>
    if n.isBox then
      let hp := hp.set { n with changed := true, view := v }
      n.cells.foldl (fun hp c => hp.vpSetView c.vp v) hp
    else hp.set { n with view := v }
  | none => hp

/-- PostEventWidgetContent(id): every watcher (a BoxLayout) sets `changed` and re-posts (boxlayout.go:233-237) -/
def postContent : Nat → Heap F → Nat → Heap F
  | 0, hp, _ => hp
  | fuel + 1, hp, id =>
    match hp.get id with
    | some n => n.watchers.foldl (fun hp w => postContent fuel (hp.upd w fun m => { m with changed := true }) w) hp
    | none => hp

mutual
/-- BoxLayout.layout (boxlayout.go:171-185) with hLayout/vLayout -/
def layout : Nat → Heap F → Nat → Heap F
  | 0, hp, _ => hp
  | fuel + 1, hp, id =>
    match hp.get id with
    | some n =>
      if !n.isBox then hp else
      match hp.viewSize n.view with
      | none => hp
      | some (vw, vh) =>
        let children : List (Child F) := n.cells.map fun c =>
          let s := hp.nodeSize c.child
          { w := s.1, h := s.2, fill := c.fill }
        let pref := layoutPref n.horizontal children
        let places := layoutPlaces n.horizontal vw vh children
        let hp := hp.upd id fun m => { m with w := pref.1, h := pref.2 }
        let hp := (n.cells.zip places).foldl (fun hp cp => resizeW fuel (hp.vpResize cp.1.vp cp.2) cp.1.child) hp
        hp.upd id fun m => { m with changed := false }
    | none => hp

/-- widget.Resize(): no-op for a leaf; BoxLayout.Resize (boxlayout.go:188-196) -/
def resizeW : Nat → Heap F → Nat → Heap F
  | 0, hp, _ => hp
  | fuel + 1, hp, id =>
    match hp.get id with
    | some n =>
      if !n.isBox then hp else
      let hp := layout fuel hp id
      n.cells.foldl (fun hp c => resizeW fuel hp c.child) hp
    | none => hp
end

/-- widget.Draw(): BoxLayout.Draw (boxlayout.go:199-211); painting itself is not modelled -/
def drawW : Nat → Heap F → Nat → Heap F
  | 0, hp, _ => hp
  | fuel + 1, hp, id =>
    match hp.get id with
    | some n =>
      if !n.isBox || n.view == .none then hp else
      let hp := if n.changed then layout fuel hp id else hp
      n.cells.foldl (fun hp c => drawW fuel hp c.child) hp
    | none => hp

def fuelOf (hp : Heap F) : Nat := 2 * hp.nodes.length + 4

/-- the cell both AddWidget and InsertWidget create (boxlayout.go:249-254 / 266-271) -/
def newCell (hp : Heap F) (p c : Nat) (f : F) : Heap F × BCell F :=
  let pv := match hp.get p with | some n => n.view | none => .none
  let (hp, k) := hp.newVP pv
  (hp.setView c (.vp k), { child := c, fill := f, vp := k })

/-- AddWidget (boxlayout.go:248-260) -/
def addWidget (hp : Heap F) (p c : Nat) (f : F) : Heap F :=
  let (hp, cell) := hp.newCell p c f
  let hp := hp.upd p fun m => { m with cells := m.cells ++ [cell], changed := true }
  let hp := hp.upd c fun m => { m with watchers := if m.watchers.contains p then m.watchers else m.watchers ++ [p] }
  let hp := layout hp.fuelOf hp p
  postContent hp.fuelOf hp p

/-- InsertWidget (boxlayout.go:265-284); does not set `changed` -/
def insertWidget (hp : Heap F) (p : Nat) (index : Int) (c : Nat) (f : F) : Heap F :=
  let (hp, cell) := hp.newCell p c f
  let hp := hp.upd p fun m =>
    let idx := if index < 0 then 0 else if index > m.cells.length then m.cells.length else index.toNat
    { m with cells := m.cells.take idx ++ [cell] ++ m.cells.drop idx }
  let hp := hp.upd c fun m => { m with watchers := if m.watchers.contains p then m.watchers else m.watchers ++ [p] }
  let hp := layout hp.fuelOf hp p
  postContent hp.fuelOf hp p

/-- the removal loop of RemoveWidget (boxlayout.go:289-294): after deleting index i the loop goes on with
i+1, i.e. it skips the element that moved into position i -/
def removeLoop (c : Nat) : Nat → List (BCell F) → Nat → Bool → List (BCell F) × Bool
  | 0, cells, _, ch => (cells, ch)
  | fuel + 1, cells, i, ch =>
    if i < cells.length then
      match cells[i]? with
      | some cell => if cell.child == c then removeLoop c fuel (cells.eraseIdx i) (i + 1) true
                     else removeLoop c fuel cells (i + 1) ch
      | none => (cells, ch)
    else (cells, ch)

/-- RemoveWidget (boxlayout.go:287-302) -/
def removeWidget (hp : Heap F) (p c : Nat) : Heap F :=
  match hp.get p with
  | some n =>
    let (cells, ch) := removeLoop c (n.cells.length + 1) n.cells 0 false
    if !ch then hp else
    let hp := hp.upd p fun m => { m with cells := cells, changed := true }
    let hp := hp.upd c fun m => { m with watchers := m.watchers.filter (· != p) }
    let hp := layout hp.fuelOf hp p
    postContent hp.fuelOf hp p
  | none => hp

/-- SetOrientation (boxlayout.go:314-320): no re-layout before the next Draw/Resize -/
def setOrientation (hp : Heap F) (p : Nat) (horizontal : Bool) : Heap F :=
  match hp.get p with
  | some n =>
    if n.horizontal != horizontal then
      postContent hp.fuelOf (hp.upd p fun m => { m with horizontal := horizontal, changed := true }) p
    else hp
  | none => hp

/-- is widget `a` equal to `id` or above it (through the cells lists) -/
def parentOf (hp : Heap F) (id : Nat) : Option Nat :=
  (hp.nodes.find? fun n => n.isBox && n.cells.any (·.child == id)).map (·.id)

def isAncestorOrSelf : Nat → Heap F → Nat → Nat → Bool
  | 0, _, _, _ => false
  | fuel + 1, hp, a, id =>
    if a == id then true else
    match hp.parentOf id with
    | some p => isAncestorOrSelf fuel hp a p
    | none => false

end Heap
end Tcell.Views.Tree
