/-
Model of wscreen.go (the js/wasm backend), C19.  Core-only, executable, no proofs.

The screen state is the C08 cell buffer (`Tcell.Buf`) plus the few wScreen fields; everything the backend
does to the page goes through `syscall/js` calls, which the model returns as a list of `JsCall`s (this is
what the recording stand-in for webfiles/tcell.js logs under Node).  The *page* is the abstract grid those
calls update.  Colour tables are parameters (`Pal`): the driver and the theorems instantiate them with the
tables regenerated from the source (`Tcell.Gen.wPalette`, `Tcell.Gen.wColorValues`).
-/
import Tcell.Model.CellOps
import Tcell.Model.LockRegion
namespace Tcell.WScreen
open Tcell

/-! ### colours (color.go, wscreen.go:94-121) -/

def colorValid : Nat := 2^32
def colorIsRGB : Nat := 2^33
def colorBlack : Nat := 2^32
def colorWhite : Nat := 2^32 + 15
/-- color.go `ColorLightGray` (the cursor colour SetCursor substitutes for an invalid one) -/
def colorLightGray : Nat := 2^33 + 2^32 + 0xD3D3D3

/-- color.go:1001 `Valid` -/
def valid (c : Nat) : Bool := c / 2^32 % 2 = 1
/-- color.go:1006 `IsRGB` -/
def isRGB (c : Nat) : Bool := c / 2^32 % 2 = 1 && c / 2^33 % 2 = 1

structure Pal where
  palette : List (Nat × Int) := []   -- wscreen.go `palette`
  values : List (Nat × Int) := []    -- color.go `ColorValues`

/-- color.go:1054 `Hex` -/
def hex (p : Pal) (c : Nat) : Int :=
  if !valid c then -1
  else if c / 2^33 % 2 = 1 then ((c % 2^24 : Nat) : Int)
  else match p.values.lookup c with
    | some v => v
    | none => -1

/-- wscreen.go:113 `paletteColor` (a colour missing from the Go map reads as 0) -/
def paletteColor (p : Pal) (c : Nat) : Int :=
  if isRGB c then ((c % 2^24 : Nat) : Int)
  else if colorBlack ≤ c ∧ c ≤ colorWhite then (p.palette.lookup c).getD 0
  else hex p c

/-! ### what one `drawCell` call hands to JavaScript -/

structure PageCell where
  text : List Int    -- code points of the string
  fg : Int
  bg : Int
  attrs : Nat
  us : Nat
  uc : Int
deriving DecidableEq, Repr, Inhabited

inductive JsCall where
  | drawCell (x y : Int) (c : PageCell)
  | clearScreen (fg bg : Int)
  | present                          -- JS `show()`
  | resize (w h : Int)
  | showCursor (x y : Int)
  | setCursorStyle (cls : String) (color : Int)   -- colour as the integer formatted with "#%06x"
  | beep
  | setTitle (t : List Nat)          -- bytes of the title
deriving DecidableEq, Repr

/-- Go `string(rune)`: an invalid code point becomes U+FFFD -/
def fixRune (r : Rune) : Int :=
  if r < 0 ∨ r > 0x10FFFF ∨ (0xD800 ≤ r ∧ r ≤ 0xDFFF) then 0xFFFD else r

/-- wscreen.go:130-157: the arguments of the JS call for content `(mainc, combc, style)` under screen style `scr` -/
def render (p : Pal) (scr : Style) (mainc : Rune) (combc : List Rune) (style : Style) : PageCell :=
  let st := if style = ({} : Style) then scr else style
  let fg := paletteColor p st.fg
  let bg := paletteColor p st.bg
  let uc := paletteColor p st.ulColor
  { text := (mainc :: combc).map fixRune,
    fg := if fg = -1 then 0xe5e5e5 else fg,
    bg := if bg = -1 then 0 else bg,
    attrs := st.attrs, us := st.ulStyle,
    uc := if uc = -1 then 0 else uc }

/-- the rendering of the logical contents of cell (x,y) as `GetContent` reports them -/
def view (p : Pal) (scr : Style) (b : Buf) (x y : Int) : PageCell :=
  let g := b.getContent x y
  render p scr g.1 g.2.1 g.2.2.1

/-- wscreen.go:123 `drawCell`: new buffer, JS calls, reported width -/
def drawCell (p : Pal) (scr : Style) (b : Buf) (x y : Int) : Buf × List JsCall × Int :=
  let width := (b.getContent x y).2.2.2
  if b.dirty x y then (b.setDirty x y false, [JsCall.drawCell x y (view p scr b x y)], width)
  else (b, [], width)

/-- the inner loop of wscreen.go:198-203 for row `y`, from column `x`; `fuel` bounds the iterations (the Go loop
advances by `width ≥ 1` per iteration, so `w - x` iterations suffice) -/
def drawRow (p : Pal) (scr : Style) (w y : Int) : Nat → Int → Buf → Buf × List JsCall
  | 0, _, b => (b, [])
  | fuel + 1, x, b =>
    if x < w then
      let r := drawCell p scr b x y
      let rest := drawRow p scr w y fuel (x + r.2.2) r.1
      (rest.1, r.2.1 ++ rest.2)
    else (b, [])

/-- the outer loop: rows `y, y+1, …` (`n` of them) -/
def drawRows (p : Pal) (scr : Style) (w : Int) : Nat → Int → Buf → Buf × List JsCall
  | 0, _, b => (b, [])
  | n + 1, y, b =>
    let r := drawRow p scr w y w.toNat 0 b
    let rest := drawRows p scr w n (y + 1) r.1
    (rest.1, r.2 ++ rest.2)

/-! ### the screen -/

structure WS where
  w : Int := 80
  h : Int := 24
  style : Style := {}
  cells : Buf := {}
  clear : Bool := false

/-- wscreen.go:59 `Init` -/
def WS.init : WS := { cells := (Buf.empty).resize 80 24 }

/-- wscreen.go:193 `draw` -/
def draw (p : Pal) (s : WS) : WS × List JsCall :=
  let pre := if s.clear then [JsCall.clearScreen (hex p s.style.fg) (hex p s.style.bg)] else []
  let r := drawRows p s.style s.w s.h.toNat 0 s.cells
  ({ s with clear := false, cells := r.1 }, pre ++ r.2 ++ [JsCall.present])

/-- wscreen.go:181 `Show` -/
def «show» (p : Pal) (s : WS) : WS × List JsCall := draw p s

/-- wscreen.go:417 `Sync` -/
def sync (p : Pal) (s : WS) : WS × List JsCall :=
  draw p { s with clear := true, cells := s.cells.invalidate }

/-- wscreen.go:463 `SetSize` (the posted resize event is modelled by the caller) -/
def setSize (s : WS) (w h : Int) : WS × List JsCall :=
  if w = s.w ∧ h = s.h then (s, [])
  else ({ s with cells := (s.cells.invalidate).resize w h, w := w, h := h }, [JsCall.resize w h])

/-- screen.go:404 `baseScreen.SetContent` -/
def setContent (rw : Rune → Int) (s : WS) (x y : Int) (m : Rune) (c : List Rune) (st : Style) : WS :=
  { s with cells := s.cells.setContent rw x y m c st }

/-- screen.go:397 `baseScreen.Fill` -/
def fill (s : WS) (r : Rune) (st : Style) : WS := { s with cells := s.cells.fill r st }

/-- `baseScreen.Fill` on the tree of variant `fz` (CellBuffer.Fill repaired by fixes/C09-fill-zero-width.patch when `fz`) -/
def fillV (fz : Bool) (rw : Rune → Int) (s : WS) (r : Rune) (st : Style) : WS := { s with cells := s.cells.fillV fz rw r st }

/-- screen.go:424 `baseScreen.LockRegion` — the code every backend shares (`Tcell.lockRowsG`, Model/LockRegion.lean): the
loops over LockCell / UnlockCell and, after a row whose first cell was really unlocked, the re-dirtying of a wide rune
just left of the region -/
def lockRegion (s : WS) (x y w h : Int) (lock : Bool) : WS :=
  { s with cells := lockRowsG s.cells x y w lock h.toNat }

/-! ### the page: the abstract grid the recorded calls update (what tcell.js keeps in `content.data`) -/

abbrev Page := Int → Int → Option PageCell

def Page.blank : Page := fun _ _ => none

def Page.apply (pg : Page) : JsCall → Page
  | .drawCell x y c => fun i j => if i = x ∧ j = y then some c else pg i j
  | .clearScreen _ _ => Page.blank
  | .resize _ _ => Page.blank
  | _ => pg

def Page.applyAll (pg : Page) (cs : List JsCall) : Page := cs.foldl Page.apply pg

/-! ### histories: the operations an application performs, and the page they leave (used by Props.C19) -/

inductive WOp where
  | setContent (x y : Int) (m : Rune) (c : List Rune) (st : Style)
  | fill (r : Rune) (st : Style)
  | lockCell (x y : Int)         -- CellBuffer.LockCell / UnlockCell (through GetCells)
  | unlockCell (x y : Int)
  | lockRegion (x y w h : Int) (lock : Bool)   -- screen.go:424
  | present                      -- Show
  | sync
  | setSize (w h : Int)
deriving Repr

/-- side condition of the history theorem: no zero-width rune is stored as the main rune of a cell (combining
characters belong in `combc`) -/
def WOp.ok (rw : Rune → Int) : WOp → Prop
  | .setContent _ _ m _ _ => m ≤ 32 ∨ rw m ≠ 0
  | _ => True

/-- one step of a history on the tree of Fill variant `fz` (`Tcell.currentFillBlanksZeroWidth` for the tree as it is; the
theorems of Props/C19Page are generic in it) -/
def stepW (p : Pal) (fz : Bool) (rw : Rune → Int) (sp : WS × Page) : WOp → WS × Page
  | .setContent x y m c st => (setContent rw sp.1 x y m c st, sp.2)
  | .fill r st => (fillV fz rw sp.1 r st, sp.2)
  | .lockCell x y => ({ sp.1 with cells := sp.1.cells.lockCell x y }, sp.2)
  | .unlockCell x y => ({ sp.1 with cells := sp.1.cells.unlockCell x y }, sp.2)
  | .lockRegion x y w h lock => (lockRegion sp.1 x y w h lock, sp.2)
  | .present => ((WScreen.show p sp.1).1, sp.2.applyAll (WScreen.show p sp.1).2)
  | .sync => ((sync p sp.1).1, sp.2.applyAll (sync p sp.1).2)
  | .setSize w h => ((setSize sp.1 w h).1, sp.2.applyAll (setSize sp.1 w h).2)

def runW (p : Pal) (fz : Bool) (rw : Rune → Int) (sp : WS × Page) (ops : List WOp) : WS × Page := ops.foldl (stepW p fz rw) sp

/-! ### callbacks: onKeyEvent / onMouseEvent / onPaste / onFocus (wscreen.go:319-411) -/

inductive Ev where
  | key (k : Nat) (r : Int) (mods : Nat)
  | mouse (x y : Int) (btn : Nat) (mods : Nat)
  | paste (start : Bool)
  | focus (on : Bool)
  | resize (w h : Int)
deriving DecidableEq, Repr

def modShift : Nat := 1
def modCtrl : Nat := 2
def modAlt : Nat := 4
def modMeta : Nat := 8
def keyRune : Nat := 256

def keyMods (sh al ct me : Bool) : Nat :=
  (if sh then modShift else 0) + (if al then modAlt else 0) + (if ct then modCtrl else 0) + (if me then modMeta else 0)

/-- key.go:243 `NewEventKey` (rune keys below ' ' and DEL become the control key codes) -/
def newEventKey (k : Nat) (ch : Int) (mods : Nat) : Ev :=
  if k = keyRune ∧ (ch < 32 ∨ ch = 0x7f) then
    let k' := ch.toNat   -- `Key(ch)`; the only runes reaching this are non-negative (DecodeRuneInString)
    let mods' := if mods = 0 ∧ ch < 32 then
        (if k' = 8 ∨ k' = 9 ∨ k' = 27 ∨ k' = 13 then mods else modCtrl) else mods
    .key k' ch mods'
  else .key k ch mods

/-- ASCII-only view of `strings.ToLower` used on key names (the generated cases keep to names where the full
Unicode mapping agrees: the model lower-cases A-Z and leaves every other code point alone) -/
def lowerAscii (s : String) : String := String.ofList (s.toList.map fun c => if 'A' ≤ c ∧ c ≤ 'Z' then Char.ofNat (c.toNat + 32) else c)

/-- first code point as `utf8.DecodeRuneInString` returns it (U+FFFD for the empty string) -/
def firstRune (s : String) : Int :=
  match s.toList with
  | [] => 0xFFFD
  | c :: _ => (c.toNat : Int)

/-- wscreen.go:354 `onKeyEvent`: the event posted for `KeyboardEvent.key = name`, if any -/
def onKey (table : List (String × Nat)) (name : String) (sh al ct me : Bool) : Option Ev :=
  if name = "Control" ∨ name = "Alt" ∨ name = "Meta" ∨ name = "Shift" then none
  else
    let mods := keyMods sh al ct me
    match (if mods = modCtrl then table.lookup ("Ctrl-" ++ lowerAscii name) else none) with
    | some k => some (newEventKey k 0 mods)
    | none =>
      match table.lookup name with
      | some k => some (newEventKey k 0 mods)
      | none => some (newEventKey keyRune (firstRune name) mods)

def mouseMods (sh al ct : Bool) : Nat :=
  (if sh then modShift else 0) + (if al then modAlt else 0) + (if ct then modCtrl else 0)

/-- wscreen.go:319 `onMouseEvent` (`which` = args[2]; `flags` = t.mouseFlags) -/
def onMouse (flags : Nat) (x y : Int) (which : Int) (sh al ct : Bool) : Option Ev :=
  if which = 0 ∧ flags / 4 % 2 = 0 then none
  else
    let btn : Nat := if which = 1 then 1 else if which = 2 then 4 else if which = 3 then 2 else 0
    some (.mouse x y btn (mouseMods sh al ct))

/-- which Go function a JS global is bound to -/
inductive Handler where
  | undefined | unset | active
deriving DecidableEq, Repr

/-- wscreen.go:225 `enableMouse`: the handlers of (onMouseClick, onMouseMove) -/
def mouseHandlers (f : Nat) : Handler × Handler :=
  (if f % 2 = 1 then .active else .unset,
   if f / 2 % 2 = 1 ∨ f / 4 % 2 = 1 then .active else .unset)

end Tcell.WScreen
