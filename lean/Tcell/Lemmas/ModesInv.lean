import Tcell.Lemmas.Modes
namespace Tcell.ModesA
open Tcell Tcell.Modes

/-- the pairing facts about a description under which the property holds: whatever can be switched on can be switched off -/
structure Paired (ad : AD) : Prop where
  ca : ad.exitCA = ad.enterCA
  cur : ad.hideCursor = true → ad.showCursor = true
  kp : ad.enterKeypad = true → ad.exitKeypad = true
  am : ad.disableAM = true → ad.enableAM = true
  title : ad.restoreTitle = ad.saveTitle
  style0 : ∀ p, ad.cursorStyles = some p → p 0 = true
  fg : ad.cursorRGB = true → ad.cursorFg = true
  paste : ad.pasteOn = true → ad.pasteOff = true
  focus : ad.focusOn = true → ad.focusOff = true
  sgr : ad.attrOff = true

/-- how many titles engage pushes on the terminal's title stack -/
def nSaved (ad : AD) (alt : Bool) : Nat :=
  (if alt = true ∧ ad.saveTitle = true then 1 else 0) + (if alt = true ∧ ad.enterCA = true ∧ ad.caTitle = true then 1 else 0)

/-- a mode is on only if the description has the string that switches it on -/
structure Glob (ad : AD) (a : Bool) (r : Regs) : Prop where
  alt : r.alt = true → ad.enterCA = true ∧ a = true
  cv : r.cv = false → ad.hideCursor = true
  kp : r.keypad = true → ad.enterKeypad = true
  am : r.am = false → ad.disableAM = true
  paste : r.paste = true → ad.pasteOn = true
  focus : r.focus = true → ad.focusOn = true
  link : r.link = true → ad.url = true
  shape : r.shape ≠ 0 → ad.cursorStyles.isSome = true
  tint : r.tinted = true → ad.cursorRGB = true
  mouse : (r.m1000 = true ∨ r.m1002 = true ∨ r.m1003 = true ∨ r.m1006 = true) → ad.mouse = true

/-- the registers of a terminal the application has handed back -/
structure Idle (ad : AD) (v a : Bool) (r : Regs) (g : Bytes) (base : List Bytes) : Prop where
  alt : r.alt = false
  cv : r.cv = true
  shape : r.shape = 0
  tinted : r.tinted = false
  penSet : r.penSet = false
  link : v = true → r.link = false
  keypad : r.keypad = false
  m1000 : r.m1000 = false
  m1002 : r.m1002 = false
  m1003 : r.m1003 = false
  m1006 : r.m1006 = false
  paste : r.paste = false
  focus : r.focus = false
  am : r.am = true
  tstack : r.tstack = base
  title : 0 < nSaved ad a → r.title = g

theorem ttlPop_replicate (t g : Bytes) (n : Nat) (base : List Bytes) :
    ttlPop (t, List.replicate (n + 1) g ++ base) = (g, List.replicate n g ++ base) := by
  simp [ttlPop, List.replicate_succ]

macro "modes_simp" : tactic =>
  `(tactic| simp [disengageEvsV, engageEvs, Modes.enableMouse, Modes.enablePasting, Modes.enableFocusReporting,
                  Modes.disableFocusReporting])

section
variable (ad : AD) (v alt : Bool) (rw : Rune → Int) (payload : Rune → List Rune → List Nat) (corner : Bool)

/-! ### disengage: every register goes back to its default -/

theorem dis_alt (hp : Paired ad) (sh ti b : Bool) (hb : b = true → ad.enterCA = true ∧ alt = true) :
    cAlt.run ad (disengageEvsV v (mkCf ad rw payload corner alt) sh ti) b = false := by
  have := hp.ca
  modes_simp
  grind

theorem dis_cv (hp : Paired ad) (sh ti b : Bool) (hb : b = false → ad.hideCursor = true) :
    cCv.run ad (disengageEvsV v (mkCf ad rw payload corner alt) sh ti) b = true := by
  have := hp.cur
  modes_simp
  grind

theorem dis_shape (hp : Paired ad) (sh ti : Bool) (n : Nat) (hn : n ≠ 0 → sh = true ∧ ad.cursorStyles.isSome = true) :
    cShape.run ad (disengageEvsV v (mkCf ad rw payload corner alt) sh ti) n = 0 := by
  have h0 : ad.cursorStyles.isSome = true → ad.styleStr 0 = true := by
    intro h
    cases hc : ad.cursorStyles with
    | none => simp [hc] at h
    | some p => simp [AD.styleStr, hc, hp.style0 p hc]
  modes_simp
  grind

theorem dis_tint (hp : Paired ad) (sh ti b : Bool) (hb : b = true → ti = true ∧ ad.cursorRGB = true) :
    cTint.run ad (disengageEvsV v (mkCf ad rw payload corner alt) sh ti) b = false := by
  have := hp.fg
  modes_simp
  grind

theorem dis_pen (hp : Paired ad) (sh ti b : Bool) :
    cPen.run ad (disengageEvsV v (mkCf ad rw payload corner alt) sh ti) b = false := by
  have := hp.sgr
  modes_simp
  grind

theorem dis_link (sh ti b : Bool) (hb : b = true → ad.url = true) :
    (v = true → cLink.run ad (disengageEvsV v (mkCf ad rw payload corner alt) sh ti) b = false) ∧
    (cLink.run ad (disengageEvsV v (mkCf ad rw payload corner alt) sh ti) b = true → ad.url = true) := by
  modes_simp
  grind

theorem dis_keypad (hp : Paired ad) (sh ti b : Bool) (hb : b = true → ad.enterKeypad = true) :
    cKeypad.run ad (disengageEvsV v (mkCf ad rw payload corner alt) sh ti) b = false := by
  have := hp.kp
  modes_simp
  grind

theorem dis_mouse (n : Nat) (sh ti b : Bool) (hb : b = true → ad.mouse = true) :
    (cMouse n).run ad (disengageEvsV v (mkCf ad rw payload corner alt) sh ti) b = false := by
  modes_simp
  grind

theorem dis_paste (hp : Paired ad) (sh ti b : Bool) (hb : b = true → ad.pasteOn = true) :
    cPaste.run ad (disengageEvsV v (mkCf ad rw payload corner alt) sh ti) b = false := by
  have := hp.paste
  modes_simp
  grind

theorem dis_focus (hp : Paired ad) (sh ti b : Bool) (hb : b = true → ad.focusOn = true) :
    cFocus.run ad (disengageEvsV v (mkCf ad rw payload corner alt) sh ti) b = false := by
  have := hp.focus
  modes_simp
  grind

theorem dis_am (hp : Paired ad) (sh ti b : Bool) (hb : b = false → ad.disableAM = true) :
    cAm.run ad (disengageEvsV v (mkCf ad rw payload corner alt) sh ti) b = true := by
  have := hp.am
  modes_simp
  grind

theorem dis_ttl (hp : Paired ad) (sh ti : Bool) (t g : Bytes) (base : List Bytes) :
    cTtl.run ad (disengageEvsV v (mkCf ad rw payload corner alt) sh ti) (t, List.replicate (nSaved ad alt) g ++ base) =
      (if 0 < nSaved ad alt then g else t, base) := by
  have h1 := hp.ca
  have h2 := hp.title
  modes_simp
  simp only [h1, h2]
  by_cases ha : alt = true <;> by_cases hs : ad.saveTitle = true <;> by_cases he : ad.enterCA = true <;>
    by_cases hc : ad.caTitle = true <;> simp [ha, hs, he, hc, nSaved, ttlPop, List.replicate]

/-! ### engage from a terminal in the default state: exactly the requested modes -/

theorem eng_alt (q : ModeReq) : cAlt.run ad (engageEvs (mkCf ad rw payload corner alt) q) false = (alt && ad.enterCA) := by
  modes_simp
theorem eng_cv (q : ModeReq) : cCv.run ad (engageEvs (mkCf ad rw payload corner alt) q) true = !ad.hideCursor := by
  modes_simp
theorem eng_shape (q : ModeReq) (n : Nat) : cShape.run ad (engageEvs (mkCf ad rw payload corner alt) q) n = n := by
  modes_simp
theorem eng_tint (q : ModeReq) (b : Bool) : cTint.run ad (engageEvs (mkCf ad rw payload corner alt) q) b = b := by
  modes_simp
theorem eng_pen (q : ModeReq) (b : Bool) : cPen.run ad (engageEvs (mkCf ad rw payload corner alt) q) b = b := by
  modes_simp
theorem eng_link (q : ModeReq) (b : Bool) : cLink.run ad (engageEvs (mkCf ad rw payload corner alt) q) b = b := by
  modes_simp
theorem eng_keypad (q : ModeReq) : cKeypad.run ad (engageEvs (mkCf ad rw payload corner alt) q) false = ad.enterKeypad := by
  modes_simp
theorem eng_am (q : ModeReq) : cAm.run ad (engageEvs (mkCf ad rw payload corner alt) q) true = !ad.disableAM := by
  modes_simp
theorem eng_paste (q : ModeReq) : cPaste.run ad (engageEvs (mkCf ad rw payload corner alt) q) false = (q.paste && ad.pasteOn) := by
  modes_simp
theorem eng_focus (q : ModeReq) : cFocus.run ad (engageEvs (mkCf ad rw payload corner alt) q) false = (q.focus && ad.focusOn) := by
  modes_simp
theorem eng_m1000 (q : ModeReq) : (cMouse 1000).run ad (engageEvs (mkCf ad rw payload corner alt) q) false =
    (ad.mouse && decide (q.mouseFlags % 2 = 1)) := by
  modes_simp
theorem eng_m1002 (q : ModeReq) : (cMouse 1002).run ad (engageEvs (mkCf ad rw payload corner alt) q) false =
    (ad.mouse && decide (q.mouseFlags / 2 % 2 = 1)) := by
  modes_simp
theorem eng_m1003 (q : ModeReq) : (cMouse 1003).run ad (engageEvs (mkCf ad rw payload corner alt) q) false =
    (ad.mouse && decide (q.mouseFlags / 4 % 2 = 1)) := by
  modes_simp
theorem eng_m1006 (q : ModeReq) : (cMouse 1006).run ad (engageEvs (mkCf ad rw payload corner alt) q) false =
    (ad.mouse && decide (q.mouseFlags % 8 ≠ 0)) := by
  modes_simp
theorem eng_ttl (q : ModeReq) (t : Bytes) (base : List Bytes) :
    cTtl.run ad (engageEvs (mkCf ad rw payload corner alt) q) (t, base) =
      (if q.title ≠ [] ∧ ad.setTitle = true then q.title else t, List.replicate (nSaved ad alt) t ++ base) := by
  modes_simp
  by_cases ha : alt = true <;> by_cases hs : ad.saveTitle = true <;> by_cases he : ad.enterCA = true <;>
    by_cases hc : ad.caTitle = true <;> by_cases ht : q.title = [] <;> by_cases hst : ad.setTitle = true <;>
    simp [ha, hs, he, hc, ht, hst, nSaved, ttlPush, List.replicate]

end

/-! ### the invariant -/

/-- while the application drives the terminal: the what-was-sent flags of the screen cover the cursor registers, and
    the title stack holds exactly the titles engage pushed -/
structure Run (ad : AD) (a : Bool) (s : Scr) (r : Regs) (g : Bytes) (base : List Bytes) : Prop where
  shape : r.shape ≠ 0 → s.cursorShaped = true
  tint : r.tinted = true → s.cursorTinted = true
  tstack : r.tstack = List.replicate (nSaved ad a) g ++ base

structure Inv (ad : AD) (v a : Bool) (st : MState) (r : Regs) (g : Bytes) (base : List Bytes) : Prop where
  glob : Glob ad a r
  idle : st.running = false → Idle ad v a r g base
  run : st.running = true → Run ad a st.wd.s r g base

macro "proj_simp" : tactic =>
  `(tactic| simp only [applyEvs_alt, applyEvs_cv, applyEvs_shape, applyEvs_tinted, applyEvs_penSet, applyEvs_link,
      applyEvs_keypad, applyEvs_m1000, applyEvs_m1002, applyEvs_m1003, applyEvs_m1006, applyEvs_paste, applyEvs_focus,
      applyEvs_am, applyEvs_title, applyEvs_tstack])

section
variable (ad : AD) (v a : Bool) (rw : Rune → Int) (payload : Rune → List Rune → List Nat) (corner : Bool)

/-- events that only switch mouse / paste / focus modes, set the title or ring the bell -/
def quietEv : Ev → Bool
  | .call _ => true
  | .put .mouseOff => true
  | .put (.mouseOn _) => true
  | .put .pasteOn => true
  | .put .pasteOff => true
  | .put .focusOn => true
  | .put .focusOff => true
  | .put (.setTitle _) => true
  | .put .bell => true
  | _ => false

theorem quiet_regs (evs : List Ev) (r : Regs) (h : ∀ e ∈ evs, quietEv e = true) :
    (applyEvs ad evs r).alt = r.alt ∧ (applyEvs ad evs r).cv = r.cv ∧ (applyEvs ad evs r).shape = r.shape ∧
    (applyEvs ad evs r).tinted = r.tinted ∧ (applyEvs ad evs r).penSet = r.penSet ∧ (applyEvs ad evs r).link = r.link ∧
    (applyEvs ad evs r).keypad = r.keypad ∧ (applyEvs ad evs r).am = r.am ∧ (applyEvs ad evs r).tstack = r.tstack := by
  induction evs generalizing r with
  | nil => simp
  | cons e l ih =>
    have h1 := ih (evEffect ad e r) (fun e he => h e (by simp [he]))
    have h2 := h e (by simp)
    rw [applyEvs_cons]
    obtain ⟨a1, a2, a3, a4, a5, a6, a7, a8, a9⟩ := h1
    rw [a1, a2, a3, a4, a5, a6, a7, a8, a9]
    cases e with
    | call k => simp [evEffect]
    | frame c => simp [quietEv] at h2
    | put k => cases k <;> simp [quietEv] at h2 <;> simp [evEffect]

/-- events that cannot change any register: Tty calls and the bell -/
def silentEv : Ev → Bool
  | .call _ => true
  | .put .bell => true
  | .frame [] => true
  | _ => false

theorem silent_regs (evs : List Ev) (r : Regs) (h : ∀ e ∈ evs, silentEv e = true) : applyEvs ad evs r = r := by
  induction evs generalizing r with
  | nil => rfl
  | cons e l ih =>
    have h2 := h e (by simp)
    rw [applyEvs_cons, ih _ (fun e he => h e (by simp [he]))]
    cases e with
    | call k => rfl
    | frame c => cases c with
      | nil => rfl
      | cons x y => simp [silentEv] at h2
    | put k => cases k <;> simp [silentEv] at h2 <;> rfl

/-- switching a mode on happens only with the string for it -/
def guardedEv : Ev → Bool
  | .put (.mouseOn _) => ad.mouse
  | .put .pasteOn => ad.pasteOn
  | .put .focusOn => ad.focusOn
  | _ => true

theorem guarded_glob (evs : List Ev) (r : Regs) (h : ∀ e ∈ evs, quietEv e = true ∧ guardedEv ad e = true)
    (hm : (r.m1000 = true ∨ r.m1002 = true ∨ r.m1003 = true ∨ r.m1006 = true) → ad.mouse = true)
    (hpa : r.paste = true → ad.pasteOn = true) (hf : r.focus = true → ad.focusOn = true) :
    (((applyEvs ad evs r).m1000 = true ∨ (applyEvs ad evs r).m1002 = true ∨ (applyEvs ad evs r).m1003 = true ∨
      (applyEvs ad evs r).m1006 = true) → ad.mouse = true) ∧
    ((applyEvs ad evs r).paste = true → ad.pasteOn = true) ∧ ((applyEvs ad evs r).focus = true → ad.focusOn = true) := by
  induction evs generalizing r with
  | nil => exact ⟨hm, hpa, hf⟩
  | cons e l ih =>
    have h2 := h e (by simp)
    rw [applyEvs_cons]
    apply ih _ (fun e he => h e (by simp [he]))
    · cases e with
      | call k => exact hm
      | frame c => simp [quietEv] at h2
      | put k => cases k <;> simp [quietEv, guardedEv] at h2 <;> simp [evEffect] <;> grind
    · cases e with
      | call k => exact hpa
      | frame c => simp [quietEv] at h2
      | put k => cases k <;> simp [quietEv, guardedEv] at h2 <;> simp [evEffect] <;> grind
    · cases e with
      | call k => exact hf
      | frame c => simp [quietEv] at h2
      | put k => cases k <;> simp [quietEv, guardedEv] at h2 <;> simp [evEffect] <;> grind

/-- S1: a call that writes nothing but a bell, made while the screen is not running, keeps the invariant -/
theorem inv_silent {st st' : MState} {r : Regs} {g : Bytes} {base : List Bytes} (hinv : Inv ad v a st r g base)
    (evs : List Ev) (h : ∀ e ∈ evs, silentEv e = true) (hr : st'.running = st.running)
    (hs : st'.wd.s.cursorShaped = st.wd.s.cursorShaped ∧ st'.wd.s.cursorTinted = st.wd.s.cursorTinted) :
    Inv ad v a st' (applyEvs ad evs r) g base := by
  rw [silent_regs ad evs r h]
  refine ⟨hinv.glob, fun h1 => hinv.idle (hr ▸ h1), fun h1 => ?_⟩
  have := hinv.run (hr ▸ h1)
  exact ⟨fun h => hs.1 ▸ this.shape h, fun h => hs.2 ▸ this.tint h, this.tstack⟩

/-- S2: mode switches, SetTitle and Beep while running -/
theorem inv_quiet {st st' : MState} {r : Regs} {g : Bytes} {base : List Bytes} (hinv : Inv ad v a st r g base)
    (evs : List Ev) (h : ∀ e ∈ evs, quietEv e = true ∧ guardedEv ad e = true) (hrun : st.running = true)
    (hr : st'.running = true)
    (hs : st'.wd.s.cursorShaped = st.wd.s.cursorShaped ∧ st'.wd.s.cursorTinted = st.wd.s.cursorTinted) :
    Inv ad v a st' (applyEvs ad evs r) g base := by
  obtain ⟨q1, q2, q3, q4, q5, q6, q7, q8, q9⟩ := quiet_regs ad evs r (fun e he => (h e he).1)
  obtain ⟨m1, m2, m3⟩ := guarded_glob ad evs r h hinv.glob.mouse hinv.glob.paste hinv.glob.focus
  have hg := hinv.glob
  have hrn := hinv.run hrun
  refine ⟨⟨?_, ?_, ?_, ?_, m2, m3, ?_, ?_, ?_, m1⟩, fun h1 => by simp [hr] at h1, fun _ => ⟨?_, ?_, ?_⟩⟩
  · rw [q1]; exact hg.alt
  · rw [q2]; exact hg.cv
  · rw [q7]; exact hg.kp
  · rw [q8]; exact hg.am
  · rw [q6]; exact hg.link
  · rw [q3]; exact hg.shape
  · rw [q4]; exact hg.tint
  · rw [q3, hs.1]; exact hrn.shape
  · rw [q4, hs.2]; exact hrn.tint
  · rw [q9]; exact hrn.tstack

theorem Idle.glob {r : Regs} {g : Bytes} {base : List Bytes} (h : Idle ad v a r g base) (hl : r.link = true → ad.url = true) :
    Glob ad a r := by
  refine ⟨?_, ?_, ?_, ?_, ?_, ?_, hl, ?_, ?_, ?_⟩ <;>
    simp [h.alt, h.cv, h.keypad, h.am, h.paste, h.focus, h.shape, h.tinted, h.m1000, h.m1002, h.m1003, h.m1006]

/-- S4: disengage from a running screen -/
theorem inv_disengage (hp : Paired ad) {st : MState} {r : Regs} {g : Bytes} {base : List Bytes}
    (hinv : Inv ad v a st r g base) (hrun : st.running = true) :
    Idle ad v a (applyEvs ad (disengageV v (mkCf ad rw payload corner a) st).2 r) g base ∧
    ((applyEvs ad (disengageV v (mkCf ad rw payload corner a) st).2 r).link = true → ad.url = true) ∧
    (disengageV v (mkCf ad rw payload corner a) st).1.running = false := by
  have hg := hinv.glob
  have hrn := hinv.run hrun
  have hst := hrn.tstack
  have httl := dis_ttl ad v a rw payload corner hp st.wd.s.cursorShaped st.wd.s.cursorTinted r.title g base
  have hl := dis_link ad v a rw payload corner st.wd.s.cursorShaped st.wd.s.cursorTinted r.link hg.link
  simp only [disengageV, hrun, Bool.not_true, Bool.false_eq_true, if_false]
  refine ⟨⟨?_, ?_, ?_, ?_, ?_, ?_, ?_, ?_, ?_, ?_, ?_, ?_, ?_, ?_, ?_, ?_⟩, ?_, trivial⟩
  · proj_simp; simp; exact dis_alt ad v a rw payload corner hp _ _ _ hg.alt
  · proj_simp; simp; exact dis_cv ad v a rw payload corner hp _ _ _ hg.cv
  · proj_simp; simp; exact dis_shape ad v a rw payload corner hp _ _ _ (fun h => ⟨hrn.shape h, hg.shape h⟩)
  · proj_simp; simp; exact dis_tint ad v a rw payload corner hp _ _ _ (fun h => ⟨hrn.tint h, hg.tint h⟩)
  · proj_simp; simp; exact dis_pen ad v a rw payload corner hp _ _ _
  · intro hv; proj_simp; simp; exact hl.1 hv
  · proj_simp; simp; exact dis_keypad ad v a rw payload corner hp _ _ _ hg.kp
  · proj_simp; simp; exact dis_mouse ad v a rw payload corner 1000 _ _ _ (fun h => hg.mouse (Or.inl h))
  · proj_simp; simp; exact dis_mouse ad v a rw payload corner 1002 _ _ _ (fun h => hg.mouse (Or.inr (Or.inl h)))
  · proj_simp; simp; exact dis_mouse ad v a rw payload corner 1003 _ _ _ (fun h => hg.mouse (Or.inr (Or.inr (Or.inl h))))
  · proj_simp; simp; exact dis_mouse ad v a rw payload corner 1006 _ _ _ (fun h => hg.mouse (Or.inr (Or.inr (Or.inr h))))
  · proj_simp; simp; exact dis_paste ad v a rw payload corner hp _ _ _ hg.paste
  · proj_simp; simp; exact dis_focus ad v a rw payload corner hp _ _ _ hg.focus
  · proj_simp; simp; exact dis_am ad v a rw payload corner hp _ _ _ hg.am
  · proj_simp; simp; rw [hst, httl]
  · intro hn; proj_simp; simp; rw [hst, httl]; simp [hn]
  · proj_simp; simp; exact hl.2

/-- S5: engage (Init / Resume) on a terminal in the default state; the title at this moment is what a save remembers -/
theorem inv_engage {st : MState} {r : Regs} {g : Bytes} {base : List Bytes}
    (hinv : Inv ad v a st r g base) (hrun : st.running = false) :
    Inv ad v a (engage (mkCf ad rw payload corner a) st).1 (applyEvs ad (engage (mkCf ad rw payload corner a) st).2 r) r.title base := by
  have hi := hinv.idle hrun
  have hg := hinv.glob
  simp only [engage, hrun, Bool.false_eq_true, if_false]
  refine ⟨⟨?_, ?_, ?_, ?_, ?_, ?_, ?_, ?_, ?_, ?_⟩, fun h => by simp at h, fun _ => ⟨?_, ?_, ?_⟩⟩
  · proj_simp; simp; rw [hi.alt, eng_alt]; simp; intro h1 h2; exact ⟨h2, h1⟩
  · proj_simp; simp; rw [hi.cv, eng_cv]; simp
  · proj_simp; simp; rw [hi.keypad, eng_keypad]; simp
  · proj_simp; simp; rw [hi.am, eng_am]; simp
  · proj_simp; simp; rw [hi.paste, eng_paste]; simp
  · proj_simp; simp; rw [hi.focus, eng_focus]; simp
  · proj_simp; simp; rw [eng_link]; exact hg.link
  · proj_simp; simp; rw [eng_shape]; exact hg.shape
  · proj_simp; simp; rw [eng_tint]; exact hg.tint
  · proj_simp; simp; rw [hi.m1000, hi.m1002, hi.m1003, hi.m1006, eng_m1000, eng_m1002, eng_m1003, eng_m1006]; simp; grind
  · proj_simp; simp; rw [eng_shape, hi.shape]; simp
  · proj_simp; simp; rw [eng_tint, hi.tinted]; simp
  · proj_simp; simp; rw [hi.tstack, eng_ttl]

/-! ### S3: draws -/

theorem foldl_cv (cmds : List Cmd) (b : Bool) (h : b = false → ad.hideCursor = true) :
    cmds.foldl (fun x k => cCv.cmd ad k x) b = false → ad.hideCursor = true := by
  induction cmds generalizing b with
  | nil => exact h
  | cons c l ih =>
    rw [List.foldl_cons]
    apply ih
    cases c <;> simp [cCv] <;> (try exact h) <;> grind

theorem hideCursor_body (dc : DrawCfg) (s : Scr) :
    sameCursorFlags s (s.hideCursor dc).1 ∧ ∀ c ∈ (s.hideCursor dc).2, bodyCmd c = true := by
  unfold Scr.hideCursor
  split
  · exact ⟨sameCursorFlags.refl s, by simp [bodyCmd]⟩
  · exact ⟨by simp [sameCursorFlags], by simp [bodyCmd]⟩

theorem styleStr_has (cs : Nat) (h : ad.styleStr cs = true) : ad.hasStyle cs = true ∧ ad.cursorStyles.isSome = true := by
  unfold AD.styleStr at h
  unfold AD.hasStyle
  cases hc : ad.cursorStyles with
  | none => simp [hc] at h
  | some p => simp [hc] at h ⊢; exact h.1
theorem hasStyle_some (cs : Nat) (h : ad.hasStyle cs = true) : ad.cursorStyles.isSome = true := by
  unfold AD.hasStyle at h
  cases hc : ad.cursorStyles with
  | none => simp [hc] at h
  | some p => rfl
theorem hasStyle_zero (hp : Paired ad) (h : ad.hasStyle 0 = true) : ad.styleStr 0 = true := by
  unfold AD.hasStyle at h
  unfold AD.styleStr
  cases hc : ad.cursorStyles with
  | none => simp [hc] at h
  | some p => simp [hp.style0 p hc]

theorem showCursor_cpl (hp : Paired ad) (s : Scr) (n : Nat) (b : Bool)
    (h1 : n ≠ 0 → s.cursorShaped = true ∧ ad.cursorStyles.isSome = true)
    (h2 : b = true → s.cursorTinted = true ∧ ad.cursorRGB = true) :
    (((s.showCursor (mkCf ad rw payload corner a).dc).2.foldl (fun x k => cShape.cmd ad k x) n) ≠ 0 →
        (s.showCursor (mkCf ad rw payload corner a).dc).1.cursorShaped = true ∧ ad.cursorStyles.isSome = true) ∧
    (((s.showCursor (mkCf ad rw payload corner a).dc).2.foldl (fun x k => cTint.cmd ad k x) b) = true →
        (s.showCursor (mkCf ad rw payload corner a).dc).1.cursorTinted = true ∧ ad.cursorRGB = true) := by
  unfold Scr.showCursor
  simp only
  split
  · have hb := hideCursor_body (mkCf ad rw payload corner a).dc s
    rw [foldl_body_shape ad _ n hb.2, foldl_body_tint ad _ b hb.2, hb.1.1, hb.1.2.1]
    exact ⟨h1, h2⟩
  · have hfg := hp.fg
    constructor
    · simp only [List.foldl_cons, List.foldl_nil, cShape]
      have f1 := styleStr_has ad s.cursorStyle
      have f2 := hasStyle_some ad s.cursorStyle
      have f3 := hasStyle_zero ad hp
      by_cases hz : s.cursorStyle = 0
      · rw [hz] at f1 f2 ⊢
        grind
      · grind
    · simp only [List.foldl_cons, List.foldl_nil, cTint]
      grind

theorem draw_cpl (hp : Paired ad) (s : Scr) (n : Nat) (b : Bool)
    (h1 : n ≠ 0 → s.cursorShaped = true ∧ ad.cursorStyles.isSome = true)
    (h2 : b = true → s.cursorTinted = true ∧ ad.cursorRGB = true) :
    (((s.draw (mkCf ad rw payload corner a).dc).2.foldl (fun x k => cShape.cmd ad k x) n) ≠ 0 →
        (s.draw (mkCf ad rw payload corner a).dc).1.cursorShaped = true ∧ ad.cursorStyles.isSome = true) ∧
    (((s.draw (mkCf ad rw payload corner a).dc).2.foldl (fun x k => cTint.cmd ad k x) b) = true →
        (s.draw (mkCf ad rw payload corner a).dc).1.cursorTinted = true ∧ ad.cursorRGB = true) := by
  rw [draw_eq]
  simp only
  generalize hs0 : ({ s with cx := -1, cy := -1, curstyle := styleInvalid } : Scr) = s0
  have f0 : sameCursorFlags s s0 := by subst hs0; simp [sameCursorFlags]
  have b1 := hideCursor_body (mkCf ad rw payload corner a).dc s0
  generalize hr1 : s0.hideCursor (mkCf ad rw payload corner a).dc = r1 at b1 ⊢
  have b2 : sameCursorFlags r1.1 (if r1.1.clear = true then r1.1.clearScreen else (r1.1, [])).1 ∧
      ∀ c ∈ (if r1.1.clear = true then r1.1.clearScreen else (r1.1, [])).2, bodyCmd c = true := by
    split
    · exact ⟨by simp [Scr.clearScreen, sameCursorFlags], by simp [Scr.clearScreen, bodyCmd]⟩
    · exact ⟨sameCursorFlags.refl _, by simp⟩
  generalize hr2 : (if r1.1.clear = true then r1.1.clearScreen else (r1.1, [])) = r2 at b2 ⊢
  have b3 := drawRows_body (mkCf ad rw payload corner a).dc r2.1.h.toNat 0 r2.1
  generalize hr3 : Scr.drawRows (mkCf ad rw payload corner a).dc r2.1.h.toNat 0 r2.1 = r3 at b3 ⊢
  have f3 : sameCursorFlags s r3.1 := (f0.trans b1.1).trans (b2.1.trans b3.1)
  simp only [List.foldl_append]
  rw [foldl_body_shape ad r1.2 n b1.2, foldl_body_shape ad r2.2 n b2.2, foldl_body_shape ad r3.2 n b3.2,
      foldl_body_tint ad r1.2 b b1.2, foldl_body_tint ad r2.2 b b2.2, foldl_body_tint ad r3.2 b b3.2]
  exact showCursor_cpl ad a rw payload corner hp r3.1 n b (fun h => by rw [f3.1]; exact h1 h) (fun h => by rw [f3.2.1]; exact h2 h)

theorem inv_frame (hp : Paired ad) {st st' : MState} {r : Regs} {g : Bytes} {base : List Bytes}
    (hinv : Inv ad v a st r g base) (hrun : st.running = true) (hr' : st'.running = true) (s0 : Scr)
    (hs0 : s0.cursorShaped = st.wd.s.cursorShaped ∧ s0.cursorTinted = st.wd.s.cursorTinted)
    (hst' : st'.wd.s = (s0.draw (mkCf ad rw payload corner a).dc).1) :
    Inv ad v a st' (applyEvs ad [.call .windowSize, .frame (s0.draw (mkCf ad rw payload corner a).dc).2] r) g base := by
  have hg := hinv.glob
  have hrn := hinv.run hrun
  have hc := draw_cpl ad a rw payload corner hp s0 r.shape r.tinted
    (fun h => ⟨hs0.1 ▸ hrn.shape h, hg.shape h⟩) (fun h => ⟨hs0.2 ▸ hrn.tint h, hg.tint h⟩)
  refine ⟨⟨?_, ?_, ?_, ?_, ?_, ?_, ?_, ?_, ?_, ?_⟩, fun h => by simp [hr'] at h, fun _ => ⟨?_, ?_, ?_⟩⟩
  · proj_simp; simp; exact hg.alt
  · proj_simp; simp [Comp.ev_frame]; exact foldl_cv ad _ _ hg.cv
  · proj_simp; simp; exact hg.kp
  · proj_simp; simp; exact hg.am
  · proj_simp; simp; exact hg.paste
  · proj_simp; simp; exact hg.focus
  · proj_simp; simp [Comp.ev_frame]; exact foldl_link ad _ _ hg.link
  · proj_simp; simp only [Comp.run_cons, Comp.run_nil, Comp.ev_call, Comp.ev_frame]; exact fun h => (hc.1 h).2
  · proj_simp; simp only [Comp.run_cons, Comp.run_nil, Comp.ev_call, Comp.ev_frame]; exact fun h => (hc.2 h).2
  · proj_simp; simp; exact hg.mouse
  · proj_simp; simp only [Comp.run_cons, Comp.run_nil, Comp.ev_call, Comp.ev_frame]; rw [hst']; exact fun h => (hc.1 h).1
  · proj_simp; simp only [Comp.run_cons, Comp.run_nil, Comp.ev_call, Comp.ev_frame]; rw [hst']; exact fun h => (hc.2 h).1
  · proj_simp; simp; exact hrn.tstack

/-- the buffer / cursor / style calls do not touch the what-was-sent flags -/
theorem scr_flags (dc : DrawCfg) (wd : ScrW) (op : ScrOp) (h1 : op ≠ .show) (h2 : op ≠ .sync)
    (h3 : ∀ w h, op ≠ .ttyResizeNotify w h) :
    (wd.step dc op).1.s.cursorShaped = wd.s.cursorShaped ∧ (wd.step dc op).1.s.cursorTinted = wd.s.cursorTinted := by
  cases op <;> simp_all [ScrW.step] <;> split <;> simp

theorem fixW_flags (on : Bool) (wd : ScrW) :
    (fixW on wd).s.cursorShaped = wd.s.cursorShaped ∧ (fixW on wd).s.cursorTinted = wd.s.cursorTinted := by
  unfold fixW; split <;> exact ⟨rfl, rfl⟩

/-- the ghost of the invariant: the title the terminal showed when the current session was engaged -/
def ghost (st : MState) (r : Regs) (g : Bytes) : MOp → Bytes
  | .resume => if st.running then g else r.title
  | _ => g

theorem resize_flags (s : Scr) (ws : Option (Int × Int)) :
    (s.resize ws).cursorShaped = s.cursorShaped ∧ (s.resize ws).cursorTinted = s.cursorTinted := by
  unfold Scr.resize
  split
  · exact ⟨rfl, rfl⟩
  · split <;> exact ⟨rfl, rfl⟩

theorem enableMouse_ok (f : Nat) : ∀ e ∈ Modes.enableMouse (mkCf ad rw payload corner a) f, quietEv e = true ∧ guardedEv ad e = true := by
  intro e he
  unfold Modes.enableMouse at he
  split at he
  · rename_i hm
    simp only [List.mem_append, List.mem_singleton] at he
    rcases he with (((he | he) | he) | he) | he
    · subst he; simp [quietEv, guardedEv]
    all_goals (split at he <;> simp at he; subst he; simp [quietEv, guardedEv]; exact hm)
  · simp at he

theorem enablePasting_ok (on : Bool) : ∀ e ∈ Modes.enablePasting (mkCf ad rw payload corner a) on, quietEv e = true ∧ guardedEv ad e = true := by
  intro e he
  unfold Modes.enablePasting at he
  split at he <;> split at he <;> simp at he
  · subst he; rename_i h; simp [quietEv, guardedEv]; exact h
  · subst he; simp [quietEv, guardedEv]

/-- every call keeps the invariant (the ghost title moves when a session starts) -/
theorem step_inv (hp : Paired ad) (st : MState) (r : Regs) (g : Bytes) (base : List Bytes) (op : MOp)
    (hinv : Inv ad v a st r g base) :
    Inv ad v a (stepV v (mkCf ad rw payload corner a) st op).1
      (applyEvs ad (stepV v (mkCf ad rw payload corner a) st op).2 r) (ghost st r g op) base := by
  by_cases hrun : st.running = true
  · -- the screen is running
    have quiet : ∀ st' : MState, st'.running = true → st'.wd = st.wd → ∀ evs,
        (∀ e ∈ evs, quietEv e = true ∧ guardedEv ad e = true) → Inv ad v a st' (applyEvs ad evs r) g base :=
      fun st' h1 h2 evs h3 => inv_quiet ad v a hinv evs h3 hrun h1 (by rw [h2]; exact ⟨rfl, rfl⟩)
    cases op with
    | enableMouse f =>
      simp only [stepV, hrun, ghost, if_true]; refine quiet _ ?_ ?_ _ (enableMouse_ok ad a rw payload corner f) <;> rfl
    | disableMouse =>
      simp only [stepV, hrun, ghost, if_true]; refine quiet _ ?_ ?_ _ (enableMouse_ok ad a rw payload corner 0) <;> rfl
    | enablePaste =>
      simp only [stepV, hrun, ghost, if_true]; refine quiet _ ?_ ?_ _ (enablePasting_ok ad a rw payload corner true) <;> rfl
    | disablePaste =>
      simp only [stepV, hrun, ghost, if_true]; refine quiet _ ?_ ?_ _ (enablePasting_ok ad a rw payload corner false) <;> rfl
    | enableFocus =>
      simp only [stepV, hrun, ghost, if_true]
      refine quiet _ ?_ ?_ _ ?_
      · rfl
      · rfl
      intro e he
      unfold Modes.enableFocusReporting at he
      split at he <;> simp at he
      subst he; rename_i h; simp [quietEv, guardedEv]; exact h
    | disableFocus =>
      simp only [stepV, hrun, ghost, if_true]
      refine quiet _ ?_ ?_ _ ?_
      · rfl
      · rfl
      intro e he
      unfold Modes.disableFocusReporting at he
      split at he <;> simp at he
      subst he; simp [quietEv, guardedEv]
    | setTitle t =>
      simp only [stepV, ghost]
      refine quiet _ ?_ ?_ _ ?_
      · exact hrun
      · rfl
      intro e he
      split at he <;> simp at he
      subst he; simp [quietEv, guardedEv]
    | beep => simp only [stepV, ghost]; exact quiet st hrun rfl _ (by simp [quietEv, guardedEv])
    | suspend =>
      simp only [stepV, ghost]
      have h := inv_disengage ad v a rw payload corner hp hinv hrun
      exact ⟨Idle.glob ad v a h.1 h.2.1, fun _ => h.1, fun h1 => by rw [h.2.2] at h1; simp at h1⟩
    | resume =>
      simp only [stepV, ghost, hrun, if_true, engage]
      exact inv_silent ad v a hinv _ (by simp [silentEv]) rfl ⟨rfl, rfl⟩
    | fini =>
      simp only [stepV, finiV, ghost]
      split
      · exact inv_silent ad v a hinv [] (by simp) rfl ⟨rfl, rfl⟩
      · have h := inv_disengage ad v a rw payload corner hp hinv hrun
        have e : applyEvs ad ((disengageV v (mkCf ad rw payload corner a) st).2 ++ [Ev.call TtyCall.close]) r =
            applyEvs ad (disengageV v (mkCf ad rw payload corner a) st).2 r := by
          simp only [applyEvs, List.foldl_append, List.foldl_cons, List.foldl_nil]; rfl
        simp only
        rw [e]
        exact ⟨Idle.glob ad v a h.1 h.2.1, fun _ => h.1, fun h1 => by simp only [] at h1; rw [h.2.2] at h1; simp at h1⟩
    | scr sop =>
      simp only [stepV, ghost]
      cases sop with
      | «show» =>
        simp only [scrStep, hrun, if_true, ScrW.step, Scr.show]
        split
        · exact inv_silent ad v a hinv _ (by simp [silentEv]) hrun.symm (fixW_flags _ _)
        · have ff := fixW_flags currentResizeChecksCells st.wd
          have rf := resize_flags (fixW currentResizeChecksCells st.wd).s
            (some ((fixW currentResizeChecksCells st.wd).ttyw, (fixW currentResizeChecksCells st.wd).ttyh))
          exact inv_frame ad v a rw payload corner hp hinv hrun rfl _ ⟨rf.1.trans ff.1, rf.2.trans ff.2⟩ rfl
      | sync =>
        simp only [scrStep, hrun, if_true, ScrW.step, Scr.sync]
        split
        · have ff := fixW_flags currentResizeChecksCells st.wd
          exact inv_silent ad v a hinv _ (by simp [silentEv]) hrun.symm (by simp [Scr.forgetCursor, ff.1, ff.2])
        · have ff := fixW_flags currentResizeChecksCells st.wd
          have rf := resize_flags (fixW currentResizeChecksCells st.wd).s.forgetCursor
            (some ((fixW currentResizeChecksCells st.wd).ttyw, (fixW currentResizeChecksCells st.wd).ttyh))
          refine inv_frame ad v a rw payload corner hp hinv hrun rfl _ ?_ rfl
          simp only [Scr.prepSync]
          exact ⟨rf.1.trans ff.1, rf.2.trans ff.2⟩
      | ttyResizeNotify w h => simp only [scrStep]; exact inv_silent ad v a hinv [] (by simp) rfl ⟨rfl, rfl⟩
      | setContent x y m c s0 =>
        simp only [scrStep]; exact inv_silent ad v a hinv [] (by simp) rfl (scr_flags _ _ _ (by simp) (by simp) (by simp))
      | fill x s0 =>
        simp only [scrStep]; exact inv_silent ad v a hinv [] (by simp) rfl (scr_flags _ _ _ (by simp) (by simp) (by simp))
      | setStyle s0 =>
        simp only [scrStep]; exact inv_silent ad v a hinv [] (by simp) rfl (scr_flags _ _ _ (by simp) (by simp) (by simp))
      | showCursor x y =>
        simp only [scrStep]; exact inv_silent ad v a hinv [] (by simp) rfl (scr_flags _ _ _ (by simp) (by simp) (by simp))
      | setCursorStyle x y =>
        simp only [scrStep]; exact inv_silent ad v a hinv [] (by simp) rfl (scr_flags _ _ _ (by simp) (by simp) (by simp))
      | lockRegion x y w h l =>
        simp only [scrStep]; exact inv_silent ad v a hinv [] (by simp) rfl (scr_flags _ _ _ (by simp) (by simp) (by simp))
      | ttyResizeQuiet w h =>
        simp only [scrStep]; exact inv_silent ad v a hinv [] (by simp) rfl (scr_flags _ _ _ (by simp) (by simp) (by simp))
      | corrupt =>
        simp only [scrStep]; exact inv_silent ad v a hinv [] (by simp) rfl (scr_flags _ _ _ (by simp) (by simp) (by simp))
  · -- suspended, finished or not yet initialised
    have hrun' : st.running = false := by simpa using hrun
    have same : ∀ st' : MState, st'.running = false → st'.wd = st.wd → ∀ evs, (∀ e ∈ evs, silentEv e = true) →
        Inv ad v a st' (applyEvs ad evs r) g base :=
      fun st' h1 h2 evs h3 => inv_silent ad v a hinv evs h3 (h1.trans hrun'.symm) (by rw [h2]; exact ⟨rfl, rfl⟩)
    cases op with
    | enableMouse f =>
      simp only [stepV, hrun', ghost, Bool.false_eq_true, if_false]
      refine same _ ?_ ?_ [] (by simp) <;> rfl
    | disableMouse =>
      simp only [stepV, hrun', ghost, Bool.false_eq_true, if_false]
      refine same _ ?_ ?_ [] (by simp) <;> rfl
    | enablePaste =>
      simp only [stepV, hrun', ghost, Bool.false_eq_true, if_false]
      refine same _ ?_ ?_ [] (by simp) <;> rfl
    | disablePaste =>
      simp only [stepV, hrun', ghost, Bool.false_eq_true, if_false]
      refine same _ ?_ ?_ [] (by simp) <;> rfl
    | enableFocus =>
      simp only [stepV, hrun', ghost, Bool.false_eq_true, if_false]
      refine same _ ?_ ?_ [] (by simp) <;> rfl
    | disableFocus =>
      simp only [stepV, hrun', ghost, Bool.false_eq_true, if_false]
      refine same _ ?_ ?_ [] (by simp) <;> rfl
    | setTitle t =>
      simp only [stepV, hrun', ghost, Bool.false_eq_true, and_false, if_false]
      refine same _ ?_ ?_ [] (by simp) <;> rfl
    | beep => simp only [stepV, ghost]; exact same st hrun' rfl _ (by simp [silentEv])
    | suspend =>
      simp only [stepV, disengageV, hrun', ghost, Bool.not_false, if_true]
      exact same st hrun' rfl [] (by simp)
    | resume =>
      simp only [stepV, ghost, hrun']
      exact inv_engage ad v a rw payload corner hinv hrun'
    | fini =>
      simp only [stepV, finiV, disengageV, hrun', ghost, Bool.not_false, if_true]
      split
      · exact same st hrun' rfl [] (by simp)
      · refine same _ ?_ ?_ _ (by simp [silentEv])
        · rfl
        · rfl
    | scr sop =>
      simp only [stepV, ghost]
      cases sop with
      | «show» => simp only [scrStep, hrun', Bool.false_eq_true, if_false]; exact same st hrun' rfl [] (by simp)
      | sync =>
        simp only [scrStep, hrun', Bool.false_eq_true, if_false]
        exact inv_silent ad v a hinv [] (by simp) hrun'.symm (by simp [Scr.forgetCursor])
      | ttyResizeNotify w h => simp only [scrStep]; exact same st hrun' rfl [] (by simp)
      | setContent x y m c s0 =>
        simp only [scrStep]; exact inv_silent ad v a hinv [] (by simp) rfl (scr_flags _ _ _ (by simp) (by simp) (by simp))
      | fill x s0 =>
        simp only [scrStep]; exact inv_silent ad v a hinv [] (by simp) rfl (scr_flags _ _ _ (by simp) (by simp) (by simp))
      | setStyle s0 =>
        simp only [scrStep]; exact inv_silent ad v a hinv [] (by simp) rfl (scr_flags _ _ _ (by simp) (by simp) (by simp))
      | showCursor x y =>
        simp only [scrStep]; exact inv_silent ad v a hinv [] (by simp) rfl (scr_flags _ _ _ (by simp) (by simp) (by simp))
      | setCursorStyle x y =>
        simp only [scrStep]; exact inv_silent ad v a hinv [] (by simp) rfl (scr_flags _ _ _ (by simp) (by simp) (by simp))
      | lockRegion x y w h l =>
        simp only [scrStep]; exact inv_silent ad v a hinv [] (by simp) rfl (scr_flags _ _ _ (by simp) (by simp) (by simp))
      | ttyResizeQuiet w h =>
        simp only [scrStep]; exact inv_silent ad v a hinv [] (by simp) rfl (scr_flags _ _ _ (by simp) (by simp) (by simp))
      | corrupt =>
        simp only [scrStep]; exact inv_silent ad v a hinv [] (by simp) rfl (scr_flags _ _ _ (by simp) (by simp) (by simp))

end

end Tcell.ModesA
