import Tcell.Model.Parser
import Tcell.Model.KeySort
import Tcell.Lemmas.MouseSeq
/-
Prefix-freeness of key tables from a linear certificate: a table sorted by sequence in which no sequence is a prefix of
its successor is pairwise prefix-free; consequences for `parseFunctionKey` (unique match, no `ambiguous`).
-/
namespace Tcell.Lemmas.PrefixFree
open Tcell Tcell.Model

theorem beq_iff {a b : Nat} : Nat.beq a b = true ↔ a = b := ⟨Nat.eq_of_beq_eq_true, fun h => h ▸ Nat.beq_refl a⟩
theorem blt_iff {a b : Nat} : Nat.blt a b = true ↔ a < b := by
  unfold Nat.blt; rw [Nat.ble_eq]; omega

theorem blt_false {a b : Nat} (h : ¬ a < b) : Nat.blt a b = false := by
  cases hb : Nat.blt a b with
  | true => exact absurd (blt_iff.mp hb) h
  | false => rfl
theorem beq_false {a b : Nat} (h : a ≠ b) : Nat.beq a b = false := by
  cases hb : Nat.beq a b with
  | true => exact absurd (beq_iff.mp hb) h
  | false => rfl

theorem hasPrefix_refl : ∀ a : Bytes, hasPrefix a a = true
  | [] => rfl
  | x :: a => by simp [hasPrefix, Nat.beq_refl, hasPrefix_refl a]

theorem lexLe_trans : ∀ a b c : Bytes, lexLe a b = true → lexLe b c = true → lexLe a c = true := by
  intro a
  induction a with
  | nil => intro b c _ _; rfl
  | cons x a ih =>
    intro b c hab hbc
    cases b with
    | nil => simp [lexLe] at hab
    | cons y b =>
      cases c with
      | nil => simp [lexLe] at hbc
      | cons z c =>
        simp only [lexLe] at hab hbc ⊢
        by_cases hxy : x < y
        · by_cases hyz : y < z
          · simp [blt_iff.mpr (show x < z by omega)]
          · by_cases hyz' : y = z
            · subst hyz'; simp [blt_iff.mpr hxy]
            · have : Nat.blt y z = false := blt_false hyz
              have h2 : Nat.beq y z = false := by
                cases h : Nat.beq y z with
                | true => exact absurd (beq_iff.mp h) hyz'
                | false => rfl
              simp [this, h2] at hbc
        · have h1 : Nat.blt x y = false := by
            cases h : Nat.blt x y with
            | true => exact absurd (blt_iff.mp h) hxy
            | false => rfl
          by_cases hxy' : x = y
          · subst hxy'
            simp only [h1, Nat.beq_refl] at hab
            by_cases hyz : x < z
            · simp [blt_iff.mpr hyz]
            · have h3 : Nat.blt x z = false := by
                cases h : Nat.blt x z with
                | true => exact absurd (blt_iff.mp h) hyz
                | false => rfl
              simp only [h3] at hbc ⊢
              by_cases hxz : x = z
              · subst hxz
                simp only [Nat.beq_refl] at hbc ⊢
                simp at hab hbc ⊢
                exact ih b c hab hbc
              · have h4 : Nat.beq x z = false := by
                  cases h : Nat.beq x z with
                  | true => exact absurd (beq_iff.mp h) hxz
                  | false => rfl
                simp [h4] at hbc
          · have h2 : Nat.beq x y = false := by
              cases h : Nat.beq x y with
              | true => exact absurd (beq_iff.mp h) hxy'
              | false => rfl
            simp [h1, h2] at hab

/-- `a` is a prefix of `c` and `a ≤ b ≤ c` lexicographically ⇒ `a` is a prefix of `b` -/
theorem prefix_between : ∀ a b c : Bytes, lexLe a b = true → lexLe b c = true → hasPrefix c a = true → hasPrefix b a = true := by
  intro a
  induction a with
  | nil => intro b c _ _ _; cases b <;> rfl
  | cons x a ih =>
    intro b c hab hbc hca
    cases c with
    | nil => simp [hasPrefix] at hca
    | cons z c =>
      cases b with
      | nil => simp [lexLe] at hab
      | cons y b =>
        simp only [hasPrefix, Bool.and_eq_true] at hca ⊢
        have hxz : x = z := (beq_iff.mp hca.1).symm
        subst hxz
        simp only [lexLe] at hab hbc
        have hxy : x = y := by
          by_cases h1 : x < y
          · -- then y ≤ x from hbc is impossible
            by_cases h2 : y < x
            · omega
            · have : Nat.blt y x = false := by
                cases h : Nat.blt y x with
                | true => exact absurd (blt_iff.mp h) h2
                | false => rfl
              simp only [this] at hbc
              by_cases h3 : y = x
              · omega
              · have : Nat.beq y x = false := by
                  cases h : Nat.beq y x with
                  | true => exact absurd (beq_iff.mp h) h3
                  | false => rfl
                simp [this] at hbc
          · have : Nat.blt x y = false := by
              cases h : Nat.blt x y with
              | true => exact absurd (blt_iff.mp h) h1
              | false => rfl
            simp only [this] at hab
            by_cases h3 : x = y
            · exact h3
            · have : Nat.beq x y = false := by
                cases h : Nat.beq x y with
                | true => exact absurd (beq_iff.mp h) h3
                | false => rfl
              simp [this] at hab
        subst hxy
        have hlt : Nat.blt x x = false := by
          cases h : Nat.blt x x with
          | true => exact absurd (blt_iff.mp h) (by omega)
          | false => rfl
        simp only [hlt, Nat.beq_refl] at hab hbc
        simp at hab hbc
        exact ⟨Nat.beq_refl _, ih b c hab hbc hca.2⟩

/-- `c` is a prefix of `a` and `a ≤ c` ⇒ `a` is a prefix of `c` too (they are equal) -/
theorem prefix_le_eq : ∀ a c : Bytes, lexLe a c = true → hasPrefix a c = true → hasPrefix c a = true := by
  intro a
  induction a with
  | nil => intro c _ _; cases c <;> rfl
  | cons x a ih =>
    intro c hac hp
    cases c with
    | nil => simp [lexLe] at hac
    | cons z c =>
      simp only [hasPrefix, Bool.and_eq_true] at hp ⊢
      have hxz : x = z := beq_iff.mp hp.1
      subst hxz
      have hlt : Nat.blt x x = false := by
        cases h : Nat.blt x x with
        | true => exact absurd (blt_iff.mp h) (by omega)
        | false => rfl
      simp only [lexLe, hlt, Nat.beq_refl] at hac
      simp at hac
      exact ⟨Nat.beq_refl _, ih c hac hp.2⟩

/-- neither sequence is a prefix of the other (in particular they differ) -/
def Incomparable (a b : KeyEntry) : Prop := hasPrefix b.seq a.seq = false ∧ hasPrefix a.seq b.seq = false

/-- pairwise prefix-freeness of a key table -/
def PrefixFree (T : KeyTable) : Prop := T.Pairwise Incomparable

/-- the linear certificate: sorted by sequence, and no sequence is a prefix of its successor -/
def chainOK : KeyTable → Bool
  | a :: b :: rest => lexLe a.seq b.seq && !hasPrefix b.seq a.seq && chainOK (b :: rest)
  | _ => true

theorem chain_head (a : KeyEntry) : ∀ (T : KeyTable), chainOK (a :: T) = true →
    ∀ c ∈ T, lexLe a.seq c.seq = true ∧ Incomparable a c := by
  intro T
  induction T generalizing a with
  | nil => intro _ c hc; simp at hc
  | cons b T ih =>
    intro h c hc
    simp only [chainOK, Bool.and_eq_true, Bool.not_eq_true'] at h
    obtain ⟨⟨hab, hnp⟩, hrest⟩ := h
    have inc_of (c : KeyEntry) (hle : lexLe a.seq c.seq = true) (hn : hasPrefix c.seq a.seq = false) : Incomparable a c := by
      refine ⟨hn, ?_⟩
      cases h : hasPrefix a.seq c.seq with
      | false => rfl
      | true => rw [prefix_le_eq _ _ hle h] at hn; cases hn
    rcases List.mem_cons.mp hc with rfl | hc'
    · exact ⟨hab, inc_of _ hab hnp⟩
    · have hb := ih b hrest c hc'
      have hle := lexLe_trans _ _ _ hab hb.1
      refine ⟨hle, inc_of c hle ?_⟩
      cases h : hasPrefix c.seq a.seq with
      | false => rfl
      | true => rw [prefix_between _ _ _ hab hb.1 h] at hnp; cases hnp

/-- **certificate ⇒ pairwise prefix-free** -/
theorem prefixFree_of_chain : ∀ (T : KeyTable), chainOK T = true → PrefixFree T := by
  intro T
  induction T with
  | nil => intro _; exact List.Pairwise.nil
  | cons a T ih =>
    intro h
    refine List.Pairwise.cons (fun c hc => (chain_head a T h c hc).2) (ih ?_)
    cases T with
    | nil => rfl
    | cons b T => simp only [chainOK, Bool.and_eq_true] at h; exact h.2

/-- in a prefix-free table an entry whose sequence is a prefix of another entry's sequence is that entry -/
theorem pf_unique : ∀ (T : KeyTable), PrefixFree T → ∀ x ∈ T, ∀ y ∈ T, hasPrefix y.seq x.seq = true → x = y := by
  intro T hT
  induction hT with
  | nil => intro x hx; simp at hx
  | cons hhead _ ih =>
    intro x hx y hy hp
    rcases List.mem_cons.mp hx with rfl | hx' <;> rcases List.mem_cons.mp hy with rfl | hy'
    · rfl
    · have := (hhead y hy').1; rw [this] at hp; cases hp
    · have := (hhead x hx').2; rw [this] at hp; cases hp
    · exact ih x hx' y hy' hp

theorem filter_unique (p : KeyEntry → Bool) : ∀ (T : KeyTable), PrefixFree T → ∀ e ∈ T, p e = true →
    (∀ x ∈ T, p x = true → x = e) → T.filter p = [e] := by
  intro T hT
  induction hT with
  | nil => intro e he; simp at he
  | @cons a T hhead _ ih =>
    intro e he hpe huniq
    by_cases hae : a = e
    · subst hae
      have : T.filter p = [] := by
        rw [List.filter_eq_nil_iff]
        intro x hx hpx
        have := huniq x (by simp [hx]) hpx
        subst this
        have := (hhead x hx).1
        rw [hasPrefix_refl] at this; cases this
      simp [List.filter, hpe, this]
    · have hpa : p a = false := by
        cases h : p a with
        | false => rfl
        | true => exact absurd (huniq a (by simp) h) hae
      have he' : e ∈ T := by
        rcases List.mem_cons.mp he with h | h
        · exact absurd h.symm hae
        · exact h
      simp only [List.filter, hpa]
      exact ih e he' hpe (fun x hx => huniq x (by simp [hx]))

/-- **unique match**: in a prefix-free table the entries matching a buffer that starts with the sequence of `e` are
exactly `[e]` — `parseFunctionKey` cannot depend on map iteration order -/
theorem keyMatches_unique (T : KeyTable) (hT : PrefixFree T) (e : KeyEntry) (he : e ∈ T) (hne : bytesEq e.seq [27] = false)
    (rest : Bytes) : keyMatches T (e.seq ++ rest) = [e] := by
  unfold keyMatches
  apply filter_unique _ T hT e he
  · simp [hne, Tcell.Lemmas.MouseSeq.hasPrefix_append]
  · intro x hx hpx
    simp only [Bool.and_eq_true, Bool.not_eq_true'] at hpx
    have hself : hasPrefix (e.seq ++ rest) e.seq = true := Tcell.Lemmas.MouseSeq.hasPrefix_append _ _
    rcases Tcell.Lemmas.MouseSeq.hasPrefix_comparable _ _ _ hpx.2 hself with h | h
    · exact pf_unique T hT x hx e he h
    · exact (pf_unique T hT e he x hx h).symm

end Tcell.Lemmas.PrefixFree
