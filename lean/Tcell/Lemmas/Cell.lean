import Tcell.Model.CellOps
namespace Tcell

namespace Cell
/-- the triple Dirty compares against -/
def last (c : Cell) : Content := (c.lastMain, c.lastComb, c.lastStyle)

@[simp] theorem markDirty_currMain (c : Cell) : c.markDirty.currMain = c.currMain := rfl
@[simp] theorem markDirty_currComb (c : Cell) : c.markDirty.currComb = c.currComb := rfl
@[simp] theorem markDirty_currStyle (c : Cell) : c.markDirty.currStyle = c.currStyle := rfl
@[simp] theorem markDirty_lastMain (c : Cell) : c.markDirty.lastMain = 0 := rfl
@[simp] theorem markDirty_width (c : Cell) : c.markDirty.width = c.width := rfl
@[simp] theorem markDirty_lock (c : Cell) : c.markDirty.lock = c.lock := rfl
@[simp] theorem markDirty_content (c : Cell) : c.markDirty.content = c.content := rfl
@[simp] theorem markDirty_idem (c : Cell) : c.markDirty.markDirty = c.markDirty := rfl

@[simp] theorem setLock_content (c : Cell) (v) : (c.setLock v).content = c.content := rfl
@[simp] theorem setLock_last (c : Cell) (v) : (c.setLock v).last = c.last := rfl
@[simp] theorem setLock_lastMain (c : Cell) (v) : (c.setLock v).lastMain = c.lastMain := rfl
@[simp] theorem setLock_width (c : Cell) (v) : (c.setLock v).width = c.width := rfl
@[simp] theorem setLock_currMain (c : Cell) (v) : (c.setLock v).currMain = c.currMain := rfl
@[simp] theorem setLock_lock (c : Cell) (v) : (c.setLock v).lock = v := rfl

@[simp] theorem store_last (rw) (c : Cell) (m cc s) : (c.store rw m cc s).last = c.last := rfl
@[simp] theorem store_lastMain (rw) (c : Cell) (m cc s) : (c.store rw m cc s).lastMain = c.lastMain := rfl
@[simp] theorem store_lock (rw) (c : Cell) (m cc s) : (c.store rw m cc s).lock = c.lock := rfl
@[simp] theorem store_currMain (rw) (c : Cell) (m cc s) : (c.store rw m cc s).currMain = m := rfl
@[simp] theorem store_currComb (rw) (c : Cell) (m cc s) : (c.store rw m cc s).currComb = cc := rfl
@[simp] theorem store_currStyle (rw) (c : Cell) (m cc s) : (c.store rw m cc s).currStyle = c.currStyle.merge s := rfl
@[simp] theorem store_width (rw) (c : Cell) (m cc s) :
    (c.store rw m cc s).width = if c.currMain ≠ m then rw m else c.width := rfl

@[simp] theorem filled_last (c : Cell) (r s) : (c.filled r s).last = c.last := rfl
@[simp] theorem filled_lastMain (c : Cell) (r s) : (c.filled r s).lastMain = c.lastMain := rfl
@[simp] theorem filled_lock (c : Cell) (r s) : (c.filled r s).lock = c.lock := rfl
@[simp] theorem filled_content (c : Cell) (r s) : (c.filled r s).content = (r, [], c.currStyle.merge s) := rfl
@[simp] theorem filled_width (c : Cell) (r s) : (c.filled r s).width = 1 := rfl

theorem fillRune_false (rw : Rune → Int) (r : Rune) : fillRune false rw r = r := by simp [fillRune]
theorem fillRune_ne0 (fz : Bool) (rw : Rune → Int) (r : Rune) (h : rw r ≠ 0) : fillRune fz rw r = r := by
  simp [fillRune, h]
theorem fillRune_true_zero (rw : Rune → Int) (r : Rune) (h : rw r = 0) : fillRune true rw r = 32 := by
  simp [fillRune, h]
/-- the rune the repaired Fill stores always has width 1 when `r` is not wider than one column -/
theorem fillRune_true_width (rw : Rune → Int) (r : Rune) (h32 : rw 32 = 1) (h0 : 0 ≤ rw r) (h1 : rw r ≤ 1) :
    rw (fillRune true rw r) = 1 := by
  by_cases h : rw r = 0
  · rw [fillRune_true_zero rw r h, h32]
  · rw [fillRune_ne0 true rw r h]; omega

@[simp] theorem carry_lastMain (c : Cell) : c.carry.lastMain = 0 := rfl
@[simp] theorem carry_content (c : Cell) : c.carry.content = c.content := rfl
@[simp] theorem carry_width (c : Cell) : c.carry.width = c.width := rfl
@[simp] theorem carry_lock (c : Cell) : c.carry.lock = false := rfl
@[simp] theorem carry_currMain (c : Cell) : c.carry.currMain = c.currMain := rfl

@[simp] theorem markClean_last (c : Cell) : c.markClean.last = c.markClean.content := rfl
@[simp] theorem markClean_lock (c : Cell) : c.markClean.lock = c.lock := rfl
@[simp] theorem markClean_width (c : Cell) : c.markClean.width = c.width := rfl
theorem markClean_lastMain_ne (c : Cell) : c.markClean.lastMain ≠ 0 := by
  unfold markClean; simp only; split <;> simp_all
@[simp] theorem markClean_currMain (c : Cell) : c.markClean.currMain = if c.currMain = 0 then 32 else c.currMain := rfl

/-- Dirty's comparison in closed form -/
theorem isDirty_eq (c : Cell) : c.isDirty = (!c.lock && (decide (c.lastMain = 0) || decide (c.last ≠ c.content))) := by
  unfold isDirty last content
  cases hl : c.lock <;> simp
  by_cases h0 : c.lastMain = 0 <;> simp [h0]
  by_cases h1 : c.lastMain = c.currMain <;> simp [h1]
  by_cases h2 : c.lastStyle = c.currStyle <;> simp [h2]

theorem isDirty_false_iff (c : Cell) (hl : c.lock = false) :
    c.isDirty = false ↔ (c.lastMain ≠ 0 ∧ c.last = c.content) := by
  rw [isDirty_eq]; simp [hl]
end Cell

namespace Buf

@[simp] theorem upd_w (b : Buf) (x y f) : (b.upd x y f).w = b.w := rfl
@[simp] theorem upd_h (b : Buf) (x y f) : (b.upd x y f).h = b.h := rfl
theorem upd_cells (b : Buf) (x y f i j) :
    (b.upd x y f).cells i j = if i = x ∧ j = y then f (b.cells i j) else b.cells i j := rfl

@[simp] theorem setDirty_w (b : Buf) (x y d) : (b.setDirty x y d).w = b.w := by
  unfold setDirty; split
  · split <;> rfl
  · rfl
@[simp] theorem setDirty_h (b : Buf) (x y d) : (b.setDirty x y d).h = b.h := by
  unfold setDirty; split
  · split <;> rfl
  · rfl

theorem setDirty_true_cells (b : Buf) (x y i j) :
    (b.setDirty x y true).cells i j =
      if i = x ∧ j = y ∧ b.inRange x y then (b.cells i j).markDirty else b.cells i j := by
  unfold setDirty
  by_cases h : b.inRange x y <;> simp [h, upd_cells]

theorem setDirty_false_cells (b : Buf) (x y i j) :
    (b.setDirty x y false).cells i j =
      if i = x ∧ j = y ∧ b.inRange x y then (b.cells i j).markClean else b.cells i j := by
  unfold setDirty
  by_cases h : b.inRange x y <;> simp [h, upd_cells]

@[simp] theorem dirtySpan_w (b : Buf) (x y n) : (b.dirtySpan x y n).w = b.w := by
  induction n with
  | zero => rfl
  | succ n ih => simp [dirtySpan, ih]
@[simp] theorem dirtySpan_h (b : Buf) (x y n) : (b.dirtySpan x y n).h = b.h := by
  induction n with
  | zero => rfl
  | succ n ih => simp [dirtySpan, ih]

/-- closed form of the wide-rune dirtying loop -/
theorem dirtySpan_cells (b : Buf) (x y : Int) (n : Nat) (i j : Int) :
    (b.dirtySpan x y n).cells i j =
      if j = y ∧ x ≤ i ∧ i < x + n ∧ b.inRange i j then (b.cells i j).markDirty else b.cells i j := by
  induction n with
  | zero => simp only [dirtySpan]; split
            · omega
            · rfl
  | succ n ih =>
    simp only [dirtySpan, setDirty_true_cells, ih, inRange_iff, dirtySpan_w, dirtySpan_h]
    have hc : ((n + 1 : Nat) : Int) = (n : Int) + 1 := by omega
    rw [hc]
    split <;> split <;> (try split) <;> first | rfl | (exfalso; omega) | (rw [Cell.markDirty_idem]) | skip

/-- what preDirty (step 1 of SetContent) does to any cell: nothing, or mark it dirty -/
theorem preDirty_cells (b : Buf) (x y : Int) (m : Rune) (c : List Rune) (i j : Int) :
    (b.preDirty x y m c).cells i j =
      if ((b.cells x y).width > 0 ∧ (m ≠ (b.cells x y).currMain ∨ c ≠ (b.cells x y).currComb)) ∧
          j = y ∧ x ≤ i ∧ i < x + (b.cells x y).width ∧ b.inRange i j
      then (b.cells i j).markDirty else b.cells i j := by
  unfold preDirty
  by_cases h : (b.cells x y).width > 0 ∧ (m ≠ (b.cells x y).currMain ∨ c ≠ (b.cells x y).currComb)
  · rw [if_pos h, dirtySpan_cells]
    have hw : (((b.cells x y).width.toNat : Nat) : Int) = (b.cells x y).width := by omega
    rw [hw]; simp only [h, true_and]
  · rw [if_neg h]; simp only [h, false_and, if_false]

@[simp] theorem preDirty_w (b : Buf) (x y m c) : (b.preDirty x y m c).w = b.w := by
  unfold preDirty; split <;> simp
@[simp] theorem preDirty_h (b : Buf) (x y m c) : (b.preDirty x y m c).h = b.h := by
  unfold preDirty; split <;> simp

theorem preDirty_cases (b : Buf) (x y : Int) (m : Rune) (c : List Rune) (i j : Int) :
    (b.preDirty x y m c).cells i j = b.cells i j ∨ (b.preDirty x y m c).cells i j = (b.cells i j).markDirty := by
  rw [preDirty_cells]; split <;> simp

@[simp] theorem setContent_w (rw) (b : Buf) (x y m c s) : (b.setContent rw x y m c s).w = b.w := by
  unfold setContent; split <;> simp
@[simp] theorem setContent_h (rw) (b : Buf) (x y m c s) : (b.setContent rw x y m c s).h = b.h := by
  unfold setContent; split <;> simp

theorem setContent_cells (rw) (b : Buf) (x y m c s i j) :
    (b.setContent rw x y m c s).cells i j =
      if b.inRange x y then
        (if i = x ∧ j = y then ((b.preDirty x y m c).cells i j).store rw m c s else (b.preDirty x y m c).cells i j)
      else b.cells i j := by
  unfold setContent; split <;> simp [upd_cells]

@[simp] theorem lockCell_w (b : Buf) (x y) : (b.lockCell x y).w = b.w := by unfold lockCell; split <;> simp
@[simp] theorem lockCell_h (b : Buf) (x y) : (b.lockCell x y).h = b.h := by unfold lockCell; split <;> simp
theorem lockCell_cells (b : Buf) (x y i j) :
    (b.lockCell x y).cells i j = if i = x ∧ j = y ∧ b.inRange x y then (b.cells i j).setLock true else b.cells i j := by
  unfold lockCell; by_cases h : b.inRange x y <;> simp [h, upd_cells]

@[simp] theorem unlockCell_w (b : Buf) (x y) : (b.unlockCell x y).w = b.w := by unfold unlockCell; split <;> simp
@[simp] theorem unlockCell_h (b : Buf) (x y) : (b.unlockCell x y).h = b.h := by unfold unlockCell; split <;> simp
theorem unlockCell_cells (b : Buf) (x y i j) :
    (b.unlockCell x y).cells i j =
      if i = x ∧ j = y ∧ b.inRange x y then ((b.cells i j).setLock false).markDirty else b.cells i j := by
  unfold unlockCell
  by_cases h : b.inRange x y
  · have h' : (b.upd x y (·.setLock false)).inRange x y := by simpa [inRange_iff] using h
    rw [if_pos h, setDirty_true_cells]
    simp only [h', h, and_true, upd_cells]
    split <;> rfl
  · simp [h]

@[simp] theorem invalidate_w (b : Buf) : b.invalidate.w = b.w := rfl
@[simp] theorem invalidate_h (b : Buf) : b.invalidate.h = b.h := rfl
@[simp] theorem invalidate_cells (b : Buf) (i j) : b.invalidate.cells i j = (b.cells i j).markDirty := rfl
@[simp] theorem fill_w (b : Buf) (r s) : (b.fill r s).w = b.w := rfl
@[simp] theorem fill_h (b : Buf) (r s) : (b.fill r s).h = b.h := rfl
@[simp] theorem fill_cells (b : Buf) (r s i j) : (b.fill r s).cells i j = (b.cells i j).filled r s := rfl

@[simp] theorem fillV_w (fz rw) (b : Buf) (r s) : (b.fillV fz rw r s).w = b.w := rfl
@[simp] theorem fillV_h (fz rw) (b : Buf) (r s) : (b.fillV fz rw r s).h = b.h := rfl
theorem fillV_eq (fz rw) (b : Buf) (r s) : b.fillV fz rw r s = b.fill (Cell.fillRune fz rw r) s := rfl
@[simp] theorem fillV_cells (fz rw) (b : Buf) (r s i j) :
    (b.fillV fz rw r s).cells i j = (b.cells i j).filled (Cell.fillRune fz rw r) s := rfl
/-- the pinned variant of `fillV` is `fill` -/
theorem fillV_false (rw) (b : Buf) (r s) : b.fillV false rw r s = b.fill r s := by
  rw [fillV_eq, Cell.fillRune_false]
/-- the two trees agree on every rune that is not zero-width -/
theorem fillV_of_ne0 (fz rw) (b : Buf) (r s) (h : rw r ≠ 0) : b.fillV fz rw r s = b.fill r s := by
  rw [fillV_eq, Cell.fillRune_ne0 fz rw r h]

theorem resize_same (b : Buf) : b.resize b.w b.h = b := by simp [resize]
theorem resize_cells (b : Buf) (w h i j) (hne : ¬ (b.h = h ∧ b.w = w)) :
    (b.resize w h).cells i j =
      if 0 ≤ i ∧ 0 ≤ j ∧ i < w ∧ j < h ∧ i < b.w ∧ j < b.h then (b.cells i j).carry else {} := by
  unfold resize; rw [if_neg hne]
theorem resize_w (b : Buf) (w h) : (b.resize w h).w = w := by
  unfold resize; split
  · rename_i hh; exact hh.2
  · rfl
theorem resize_h (b : Buf) (w h) : (b.resize w h).h = h := by
  unfold resize; split
  · rename_i hh; exact hh.1
  · rfl

end Buf
end Tcell
