import Tcell.Gen.TerminfoStruct
/-!
Prefix-freeness of a finite set of byte strings by a **linear certificate**: sort lexicographically, then check adjacent
pairs only.  `check_sound` lifts the certificate to all pairs (an all-pairs `decide` over a key table takes minutes).
-/
namespace Tcell.PrefixFree
open Tcell

/-- lexicographic `≤` on byte strings -/
def le : Bytes → Bytes → Bool
  | [], _ => true
  | _ :: _, [] => false
  | a :: as, b :: bs => if a < b then true else if a = b then le as bs else false

theorem le_nil (b : Bytes) : le [] b = true := by cases b <;> rfl

theorem le_cons (x y : Nat) (xs ys : Bytes) :
    le (x :: xs) (y :: ys) = true ↔ x < y ∨ (x = y ∧ le xs ys = true) := by
  simp only [le]
  by_cases h : x < y
  · simp [h]
  · by_cases h2 : x = y
    · subst h2; simp
    · simp [h, h2]

theorem le_refl : ∀ a : Bytes, le a a = true
  | [] => rfl
  | x :: xs => (le_cons x x xs xs).mpr (.inr ⟨rfl, le_refl xs⟩)

theorem le_total : ∀ a b : Bytes, le a b = true ∨ le b a = true
  | [], b => .inl (le_nil b)
  | _ :: _, [] => .inr rfl
  | x :: xs, y :: ys => by
    rw [le_cons, le_cons]
    rcases Nat.lt_trichotomy x y with h | h | h
    · exact .inl (.inl h)
    · rcases le_total xs ys with h' | h'
      · exact .inl (.inr ⟨h, h'⟩)
      · exact .inr (.inr ⟨h.symm, h'⟩)
    · exact .inr (.inl h)

theorem le_trans : ∀ a b c : Bytes, le a b = true → le b c = true → le a c = true
  | [], _, c, _, _ => le_nil c
  | _ :: _, [], _, h, _ => by cases h
  | _ :: _, _ :: _, [], _, h => by cases h
  | x :: xs, y :: ys, z :: zs, h1, h2 => by
    rw [le_cons] at h1 h2 ⊢
    rcases h1 with h1 | ⟨h1, h1'⟩ <;> rcases h2 with h2 | ⟨h2, h2'⟩
    · exact .inl (by omega)
    · exact .inl (by omega)
    · exact .inl (by omega)
    · exact .inr ⟨by omega, le_trans xs ys zs h1' h2'⟩

theorem le_antisymm : ∀ a b : Bytes, le a b = true → le b a = true → a = b
  | [], [], _, _ => rfl
  | [], _ :: _, _, h => by cases h
  | _ :: _, [], h, _ => by cases h
  | x :: xs, y :: ys, h1, h2 => by
    rw [le_cons] at h1 h2
    rcases h1 with h1 | ⟨h1, h1'⟩ <;> rcases h2 with h2 | ⟨h2, h2'⟩
    · omega
    · omega
    · omega
    · subst h1; rw [le_antisymm xs ys h1' h2']

theorem prefix_le : ∀ a b : Bytes, a <+: b → le a b = true
  | [], b, _ => le_nil b
  | x :: xs, [], h => by simp at h
  | x :: xs, y :: ys, h => by
    rw [List.cons_prefix_cons] at h
    exact (le_cons ..).mpr (.inr ⟨h.1, prefix_le xs ys h.2⟩)

/-- anything lexicographically between a string and one of its extensions is itself an extension of it -/
theorem sandwich : ∀ a b c : Bytes, a <+: b → le a c = true → le c b = true → a <+: c
  | [], _, c, _, _, _ => List.nil_prefix
  | x :: xs, [], _, h, _, _ => by simp at h
  | _ :: _, _ :: _, [], _, h, _ => by cases h
  | x :: xs, y :: ys, z :: zs, h, h1, h2 => by
    rw [List.cons_prefix_cons] at h
    rw [le_cons] at h1 h2
    obtain ⟨hxy, hp⟩ := h
    rcases h1 with h1 | ⟨h1, h1'⟩ <;> rcases h2 with h2 | ⟨h2, h2'⟩
    · omega
    · omega
    · omega
    · rw [List.cons_prefix_cons]
      exact ⟨h1, sandwich xs ys zs hp h1' h2'⟩

/-! ### insertion sort -/

def ins (x : Bytes) : List Bytes → List Bytes
  | [] => [x]
  | y :: ys => if le x y then x :: y :: ys else y :: ins x ys

def isort (l : List Bytes) : List Bytes := l.foldr ins []

theorem mem_ins (x a : Bytes) : ∀ l : List Bytes, a ∈ ins x l ↔ a = x ∨ a ∈ l
  | [] => by simp [ins]
  | y :: ys => by
    simp only [ins]
    split
    · simp
    · simp only [List.mem_cons, mem_ins x a ys]
      constructor
      · rintro (h | h | h)
        · exact .inr (.inl h)
        · exact .inl h
        · exact .inr (.inr h)
      · rintro (h | h | h)
        · exact .inr (.inl h)
        · exact .inl h
        · exact .inr (.inr h)

theorem mem_isort (a : Bytes) : ∀ l : List Bytes, a ∈ isort l ↔ a ∈ l
  | [] => by simp [isort]
  | x :: xs => by
    show a ∈ ins x (isort xs) ↔ _
    rw [mem_ins, mem_isort a xs]; simp

abbrev Sorted (l : List Bytes) : Prop := l.Pairwise (fun a b => le a b = true)

theorem sorted_ins (x : Bytes) : ∀ l : List Bytes, Sorted l → Sorted (ins x l)
  | [], _ => by simp [ins, Sorted]
  | y :: ys, h => by
    simp only [ins]
    have hy := List.pairwise_cons.mp h
    split
    · rename_i hxy
      refine List.pairwise_cons.mpr ⟨?_, h⟩
      intro b hb
      rcases List.mem_cons.mp hb with rfl | hb
      · exact hxy
      · exact le_trans _ _ _ hxy (hy.1 b hb)
    · rename_i hxy
      have hyx : le y x = true := (le_total x y).resolve_left hxy
      refine List.pairwise_cons.mpr ⟨?_, sorted_ins x ys hy.2⟩
      intro b hb
      rcases (mem_ins x b ys).mp hb with rfl | hb
      · exact hyx
      · exact hy.1 b hb

theorem sorted_isort : ∀ l : List Bytes, Sorted (isort l)
  | [] => List.Pairwise.nil
  | x :: xs => sorted_ins x _ (sorted_isort xs)

/-! ### the certificate -/

/-- adjacent pairs: equal, or the first is not a prefix of the second -/
def adjOK : List Bytes → Bool
  | a :: b :: r => (a == b || !a.isPrefixOf b) && adjOK (b :: r)
  | _ => true

def check (l : List Bytes) : Bool := adjOK (isort l)

/-- no string of the list is a proper prefix of another -/
def PrefixFree (l : List Bytes) : Prop := ∀ a ∈ l, ∀ b ∈ l, a ≠ b → ¬ a <+: b

theorem adjOK_sound : ∀ s : List Bytes, Sorted s → adjOK s = true → PrefixFree s
  | [], _, _ => by intro a ha; cases ha
  | [x], _, _ => by
    intro a ha b hb hne
    simp only [List.mem_singleton] at ha hb
    exact absurd (ha.trans hb.symm) hne
  | x :: c :: r, hs, hadj => by
    have hsx := List.pairwise_cons.mp hs
    simp only [adjOK, Bool.and_eq_true, Bool.or_eq_true, beq_iff_eq, Bool.not_eq_true'] at hadj
    have ih := adjOK_sound (c :: r) hsx.2 hadj.2
    intro a ha b hb hne hp
    rcases List.mem_cons.mp ha with rfl | ha' <;> rcases List.mem_cons.mp hb with rfl | hb'
    · exact hne rfl
    · -- a = x is a proper prefix of b further right: then of its neighbour c (or x = c)
      have hxc : le a c = true := hsx.1 c (List.mem_cons_self ..)
      have hcb : le c b = true := by
        rcases List.mem_cons.mp hb' with rfl | hb''
        · exact le_refl _
        · exact (List.pairwise_cons.mp hsx.2).1 b hb''
      have hpc : a <+: c := sandwich a b c hp hxc hcb
      rcases hadj.1 with heq | hnp
      · subst heq
        exact ih a (List.mem_cons_self ..) b hb' hne hp
      · have := List.isPrefixOf_iff_prefix.mpr hpc
        rw [this] at hnp; cases hnp
    · -- b = x is leftmost, a to its right is a prefix of it: then a = b
      have h1 : le b a = true := hsx.1 a ha'
      have h2 : le a b = true := prefix_le a b hp
      exact hne (le_antisymm a b h2 h1)
    · exact ih a ha' b hb' hne hp

theorem check_sound (l : List Bytes) (h : check l = true) : PrefixFree l := by
  intro a ha b hb
  exact adjOK_sound (isort l) (sorted_isort l) h a ((mem_isort a l).mpr ha) b ((mem_isort b l).mpr hb)

example : check [[27, 79, 65], [27, 79, 66], [27, 91, 65], [27, 79, 65]] = true := by decide
example : check [[27, 79, 65], [27, 79]] = false := by decide

end Tcell.PrefixFree
