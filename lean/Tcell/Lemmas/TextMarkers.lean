import Tcell.Lemmas.TextParse
/-
C11: the bracketed-paste markers `ESC [ 2 0 0 ~` / `ESC [ 2 0 1 ~` (internal keys registered by
`prepareBracketedPaste`, tscreen.go:344) and the focus reports `ESC [ I` / `ESC [ O` (`parseFocus`, tscreen.go:1486) are
good tokens when the key table satisfies `pasteKeys` / `focusClear`.
-/
namespace Tcell.Lemmas.Text
open Tcell Tcell.Model Tcell.Lemmas.Collect Tcell.Lemmas.PrefixFree

/-! ### hasPrefix -/

theorem hasPrefix_nil (a : Bytes) : hasPrefix a [] = true := by cases a <;> rfl

theorem hasPrefix_cons_cons (a b : Nat) (as bs : Bytes) :
    hasPrefix (a :: as) (b :: bs) = (Nat.beq a b && hasPrefix as bs) := rfl

theorem hasPrefix_append_self : ∀ (s t : Bytes), hasPrefix (s ++ t) s = true
  | [], t => hasPrefix_nil _
  | a :: s, t => by
    rw [List.cons_append, hasPrefix_cons_cons, hasPrefix_append_self s t]; simp [Nat.beq_refl]

theorem hasPrefix_length : ∀ (a b : Bytes), hasPrefix a b = true → b.length ≤ a.length
  | _, [], _ => by simp
  | [], _ :: _, h => by simp [hasPrefix] at h
  | a :: as, b :: bs, h => by
    rw [hasPrefix_cons_cons, Bool.and_eq_true] at h
    have := hasPrefix_length as bs h.2
    simp; omega

theorem hasPrefix_trans : ∀ (a b c : Bytes), hasPrefix a b = true → hasPrefix b c = true → hasPrefix a c = true
  | _, _, [], _, _ => hasPrefix_nil _
  | _, [], _ :: _, _, h => by simp [hasPrefix] at h
  | [], _ :: _, _ :: _, h, _ => by simp [hasPrefix] at h
  | a :: as, b :: bs, c :: cs, h1, h2 => by
    rw [hasPrefix_cons_cons, Bool.and_eq_true] at h1 h2 ⊢
    have e1 := beq_iff.mp h1.1
    have e2 := beq_iff.mp h2.1
    exact ⟨beq_iff.mpr (e1.trans e2), hasPrefix_trans as bs cs h1.2 h2.2⟩

theorem hasPrefix_take : ∀ (s : Bytes) (l : Nat), hasPrefix s (s.take l) = true
  | [], l => by simp [hasPrefix_nil]
  | _ :: _, 0 => by simp [hasPrefix_nil]
  | a :: s, l + 1 => by
    rw [List.take_succ_cons, hasPrefix_cons_cons, hasPrefix_take s l]; simp [Nat.beq_refl]

/-- an entry that is a prefix of `s ++ t` is comparable with `s` -/
theorem hasPrefix_append_cases : ∀ (s t x : Bytes), hasPrefix (s ++ t) x = true →
    hasPrefix s x = true ∨ hasPrefix x s = true
  | [], _, x, _ => Or.inr (hasPrefix_nil x)
  | _ :: _, _, [], _ => Or.inl (hasPrefix_nil _)
  | a :: s, t, b :: x, h => by
    rw [List.cons_append, hasPrefix_cons_cons, Bool.and_eq_true] at h
    have e := beq_iff.mp h.1
    rcases hasPrefix_append_cases s t x h.2 with h' | h'
    · left; rw [hasPrefix_cons_cons, h', h.1]; rfl
    · right; rw [hasPrefix_cons_cons, h', beq_iff.mpr e.symm]; rfl

/-! ### parseFunctionKey around a sequence `s` whose only comparable entry is `x` -/

theorem filter_through {α : Type} (p q : α → Bool) (l : List α) (h : ∀ a ∈ l, p a = true → q a = true) :
    l.filter p = (l.filter q).filter p := by
  rw [List.filter_filter]
  apply List.filter_congr
  intro a ha
  cases hp : p a with
  | false => simp
  | true => simp [h a ha hp]

theorem keyMatches_whole (T : KeyTable) (s : Bytes) (x : KeyEntry) (hx : x.seq = s) (hl : bytesEq s [27] = false)
    (hc : comparable T s = [x]) (t : Bytes) : keyMatches T (s ++ t) = [x] := by
  unfold keyMatches
  rw [filter_through _ (fun e => !bytesEq e.seq [27] && (hasPrefix s e.seq || hasPrefix e.seq s)) T]
  · have : comparable T s = T.filter (fun e => !bytesEq e.seq [27] && (hasPrefix s e.seq || hasPrefix e.seq s)) := rfl
    rw [← this, hc]
    simp [List.filter, hx, hl, hasPrefix_append_self]
  · intro e _ he
    rw [Bool.and_eq_true] at he ⊢
    refine ⟨he.1, ?_⟩
    rcases hasPrefix_append_cases s t e.seq he.2 with h | h <;> simp [h]

theorem keyMatches_piece (T : KeyTable) (s : Bytes) (x : KeyEntry) (hx : x.seq = s)
    (hc : comparable T s = [x]) (l : Nat) (hl : l < s.length) : keyMatches T (s.take l) = [] := by
  unfold keyMatches
  rw [filter_through _ (fun e => !bytesEq e.seq [27] && (hasPrefix s e.seq || hasPrefix e.seq s)) T]
  · have : comparable T s = T.filter (fun e => !bytesEq e.seq [27] && (hasPrefix s e.seq || hasPrefix e.seq s)) := rfl
    rw [← this, hc]
    have hno : hasPrefix (s.take l) s = false := by
      cases h : hasPrefix (s.take l) s with
      | false => rfl
      | true =>
        have := hasPrefix_length _ _ h
        simp at this; omega
    simp [List.filter, hx, hno]
  · intro e _ he
    rw [Bool.and_eq_true] at he ⊢
    refine ⟨he.1, ?_⟩
    have := hasPrefix_trans s (s.take l) e.seq (hasPrefix_take s l) he.2
    simp [this]

theorem keyPartial_piece (T : KeyTable) (s : Bytes) (x : KeyEntry) (hx : x.seq = s) (hl : bytesEq s [27] = false)
    (hc : comparable T s = [x]) (l : Nat) : keyPartial T (s.take l) = true := by
  unfold keyPartial
  rw [List.any_eq_true]
  have hm : x ∈ comparable T s := by rw [hc]; simp
  have hxT : x ∈ T := (List.mem_filter.mp hm).1
  exact ⟨x, hxT, by simp [hx, hl, hasPrefix_take]⟩

theorem keyMatches_clear (T : KeyTable) (s : Bytes) (hc : (comparable T s).isEmpty = true) (t : Bytes) :
    keyMatches T (s ++ t) = [] := by
  unfold keyMatches
  rw [filter_through _ (fun e => !bytesEq e.seq [27] && (hasPrefix s e.seq || hasPrefix e.seq s)) T]
  · have : comparable T s = T.filter (fun e => !bytesEq e.seq [27] && (hasPrefix s e.seq || hasPrefix e.seq s)) := rfl
    rw [← this, List.isEmpty_iff.mp hc]
    rfl
  · intro e _ he
    rw [Bool.and_eq_true] at he ⊢
    refine ⟨he.1, ?_⟩
    rcases hasPrefix_append_cases s t e.seq he.2 with h | h <;> simp [h]

theorem keyMatches_clear_piece (T : KeyTable) (s : Bytes) (hc : (comparable T s).isEmpty = true) (l : Nat) :
    keyMatches T (s.take l) = [] := by
  unfold keyMatches
  rw [filter_through _ (fun e => !bytesEq e.seq [27] && (hasPrefix s e.seq || hasPrefix e.seq s)) T]
  · have : comparable T s = T.filter (fun e => !bytesEq e.seq [27] && (hasPrefix s e.seq || hasPrefix e.seq s)) := rfl
    rw [← this, List.isEmpty_iff.mp hc]
    rfl
  · intro e _ he
    rw [Bool.and_eq_true] at he ⊢
    refine ⟨he.1, ?_⟩
    have := hasPrefix_trans s (s.take l) e.seq (hasPrefix_take s l) he.2
    simp [this]

/-! ### generic marker tokens -/

/-- the parsers after `parseFunctionKey` are silent on `q` -/
def LaterSilent (cfg : Cfg) (st : PState) (q : Bytes) : Prop :=
  Silent (parseFocus st q) ∧ Silent (parseXtermMouse cfg st q) ∧ Silent (parseSgrMouse cfg st q) ∧
    Silent (parseClipboardV cfg.clipFixed st q)

theorem later_of (cfg : Cfg) (st : PState) (q : Bytes) (ps : List (PState → Bytes → Verdict))
    (hps : ∀ p ∈ ps, p = parseXtermMouse cfg ∨ p = parseSgrMouse cfg ∨ p = parseClipboardV cfg.clipFixed)
    (h : LaterSilent cfg st q) : ∀ p ∈ parseFocus :: ps, Silent (p st q) := by
  intro p hp
  rcases List.mem_cons.mp hp with e | hp
  · subst e; exact h.1
  rcases hps p hp with e | e | e <;> subst e
  · exact h.2.1
  · exact h.2.2.1
  · exact h.2.2.2

/-- a key sequence starting with ESC whose only comparable table entry is `x` is a good token -/
theorem keyTok_good (cfg : Cfg) (st : PState) (s : Bytes) (s' : Bytes) (hesc : s = 27 :: s') (x : KeyEntry) (ev : Event)
    (hx : x.seq = s) (hlone : bytesEq s [27] = false) (hcmp : comparable cfg.keys s = [x])
    (hev : ∀ b, keyEvent st b x = .complete s.length [ev] st)
    (hsil : ∀ l, 0 < l → l < s.length → LaterSilent cfg st (s.take l)) : GoodTok cfg st ⟨s, ev⟩ := by
  obtain ⟨ps, hps, hmem⟩ := parsers_cons cfg
  refine ⟨by simp [hesc], ?_, ?_⟩
  · intro t
    show step1 cfg st (s ++ t) false = _
    unfold step1
    rw [hps]
    have h1 : parseRune cfg.dec st (s ++ t) = .reject := by rw [hesc]; exact parseRune_esc _ _ _
    have h2 : parseFunctionKey cfg.keys st (s ++ t) = .complete s.length [ev] st := by
      unfold parseFunctionKey
      rw [keyMatches_whole cfg.keys s x hx hlone hcmp t]
      exact hev _
    rw [tryParsers_reject _ _ _ _ _ _ h1, tryParsers_hit _ _ _ _ _ _ _ _ h2]
    simp
  · intro l h0 hl
    show step1 cfg st (s.take l) false = _
    unfold step1
    rw [hps]
    have hcons : s.take l = 27 :: s'.take (l - 1) := by
      rw [hesc]; cases l with
      | zero => omega
      | succ l' => simp
    have h1 : parseRune cfg.dec st (s.take l) = .reject := by rw [hcons]; exact parseRune_esc _ _ _
    have h2 : parseFunctionKey cfg.keys st (s.take l) = .part := by
      unfold parseFunctionKey
      rw [keyMatches_piece cfg.keys s x hx hcmp l hl, keyPartial_piece cfg.keys s x hx hlone hcmp l]
      simp
    rw [tryParsers_reject _ _ _ _ _ _ h1, tryParsers_part _ _ _ _ _ _ h2]
    exact tryParsers_wait _ _ _ _ (later_of cfg st _ ps hmem (hsil l h0 hl)) (Or.inl (by omega))

/-! ### the concrete markers -/

theorem later_paste_prefix (cfg : Cfg) (st : PState) (q : Bytes)
    (hq : q = [27] ∨ q = [27, 91] ∨ q = [27, 91, 50] ∨ q = [27, 91, 50, 48] ∨ q = [27, 91, 50, 48, 48] ∨
      q = [27, 91, 50, 48, 49]) : LaterSilent cfg st q := by
  rcases hq with rfl | rfl | rfl | rfl | rfl | rfl
  all_goals
    refine ⟨?_, ?_, ?_, ?_⟩
    all_goals first
      | exact Or.inl rfl
      | exact Or.inr rfl
      | (rw [parseClipboardV_short _ _ _ (by decide)]; first | exact Or.inl rfl | exact Or.inr rfl)
      | exact parseSgrMouse_short cfg st _ (by decide)
      | (cases hst : cfg.sgrStrict <;> simp [Silent, parseSgrMouse, sgrRun, sgrStepV, sgrKnown, sgrStep, inNum, hst])

theorem pasteStart_good (cfg : Cfg) (hp : pasteKeys cfg.keys = true) (st : PState) (hs : st.escaped = false) :
    GoodTok cfg st ⟨pasteStartSeq, .paste true⟩ := by
  unfold pasteKeys at hp
  rw [Bool.and_eq_true, decide_eq_true_eq, decide_eq_true_eq] at hp
  refine keyTok_good cfg st pasteStartSeq _ rfl ⟨pasteStartSeq, keyPasteStart, modNone⟩ _ rfl (by decide) hp.1 ?_ ?_
  · intro b
    simp [keyEvent, st_unescape st hs, pasteStartSeq]
  · intro l h0 hl
    apply later_paste_prefix
    have : l = 1 ∨ l = 2 ∨ l = 3 ∨ l = 4 ∨ l = 5 := by simp [pasteStartSeq] at hl; omega
    rcases this with rfl | rfl | rfl | rfl | rfl <;> simp [pasteStartSeq]

theorem pasteEnd_good (cfg : Cfg) (hp : pasteKeys cfg.keys = true) (st : PState) (hs : st.escaped = false) :
    GoodTok cfg st ⟨pasteEndSeq, .paste false⟩ := by
  unfold pasteKeys at hp
  rw [Bool.and_eq_true, decide_eq_true_eq, decide_eq_true_eq] at hp
  refine keyTok_good cfg st pasteEndSeq _ rfl ⟨pasteEndSeq, keyPasteEnd, modNone⟩ _ rfl (by decide) hp.2 ?_ ?_
  · intro b
    have : keyPasteEnd ≠ keyPasteStart := by decide
    simp [keyEvent, st_unescape st hs, pasteEndSeq, this]
  · intro l h0 hl
    apply later_paste_prefix
    have : l = 1 ∨ l = 2 ∨ l = 3 ∨ l = 4 ∨ l = 5 := by simp [pasteEndSeq] at hl; omega
    rcases this with rfl | rfl | rfl | rfl | rfl <;> simp [pasteEndSeq]

/-- a focus report `ESC [ c` (c = `I` focus in, `O` focus out) -/
theorem focus_good (cfg : Cfg) (st : PState) (c : Nat) (hc : c = 73 ∨ c = 79)
    (hk : (comparable cfg.keys [27, 91, c]).isEmpty = true) :
    GoodTok cfg st ⟨[27, 91, c], .focus (c = 73)⟩ := by
  obtain ⟨ps, hps, hmem⟩ := parsers_cons cfg
  refine ⟨by simp, ?_, ?_⟩
  · intro t
    show step1 cfg st ([27, 91, c] ++ t) false = _
    unfold step1
    rw [hps]
    have h1 : parseRune cfg.dec st ([27, 91, c] ++ t) = .reject := parseRune_esc _ _ _
    have h2 : Silent (parseFunctionKey cfg.keys st ([27, 91, c] ++ t)) :=
      parseFunctionKey_silent _ _ _ (keyMatches_clear cfg.keys _ hk t)
    have h3 : parseFocus st ([27, 91, c] ++ t) = .complete 3 [.focus (c = 73)] st := by
      simp [parseFocus, hc]
    rw [tryParsers_reject _ _ _ _ _ _ h1]
    obtain ⟨n', hn'⟩ := tryParsers_skip st ([27, 91, c] ++ t) false _ (parseFocus :: ps) h2 0
    rw [hn', tryParsers_hit _ _ _ _ _ _ _ _ h3]
    simp
  · intro l h0 hl
    show step1 cfg st (List.take l [27, 91, c]) false = _
    unfold step1
    rw [hps]
    have hsil : Silent (parseFunctionKey cfg.keys st (List.take l [27, 91, c])) :=
      parseFunctionKey_silent _ _ _ (keyMatches_clear_piece cfg.keys _ hk l)
    have : l = 1 ∨ l = 2 := by simp at hl; omega
    have h1 : parseRune cfg.dec st (List.take l [27, 91, c]) = .reject := by
      rcases this with rfl | rfl <;> exact parseRune_esc _ _ _
    rw [tryParsers_reject _ _ _ _ _ _ h1]
    apply tryParsers_wait
    · intro p hp
      rcases List.mem_cons.mp hp with e | hp
      · subst e; exact hsil
      · refine later_of cfg st _ ps hmem ?_ p hp
        rcases this with rfl | rfl
        all_goals
          refine ⟨?_, ?_, ?_, ?_⟩
          all_goals first
            | exact Or.inl rfl
            | exact Or.inr rfl
            | (rw [parseClipboardV_short _ _ _ (by simp)]; first | exact Or.inl rfl | exact Or.inr rfl)
            | exact parseSgrMouse_short cfg st _ (by simp)
    · right
      refine ⟨parseFocus, by simp, ?_⟩
      rcases this with rfl | rfl <;> rfl

end Tcell.Lemmas.Text
