import Tcell.Model.TParm
import Tcell.Model.TPuts
import Tcell.Spec.Terminfo5
import Tcell.Spec.TermCaps
/- Helper lemmas for C07 / C15. -/
namespace Tcell.TParm

theorem length_dropWhile_le {α} (p : α → Bool) (l : List α) : (l.dropWhile p).length ≤ l.length := by
  induction l with
  | nil => simp
  | cons a t ih => simp only [List.dropWhile]; split <;> simp <;> omega

theorem readInt_length (l : Bytes) (acc : Int) : (readInt l acc).2.length ≤ l.length := by
  induction l generalizing acc with
  | nil => simp [readInt]
  | cons c cs ih =>
    simp only [readInt]; split
    · exact Nat.le_trans (ih _) (by simp)
    · simp

theorem fmt_key (all : Bytes) :
    (((all.dropWhile isFlag).dropWhile isNum).drop 1).length ≤ all.length - 1 := by
  have h1 := length_dropWhile_le isNum (all.dropWhile isFlag)
  have h2 := length_dropWhile_le isFlag all
  simp only [List.length_drop] at *; omega

theorem ite_le' {p : Prop} [Decidable p] {a b n : Nat} (ha : a ≤ n) (hb : b ≤ n) : (if p then a else b) ≤ n := by
  split <;> assumption

theorem stepFmt_length (c : Nat) (rest : Bytes) (s : St) : (stepFmt c rest s).1.length ≤ rest.length := by
  unfold stepFmt
  have := fmt_key (fmtChars c rest)
  have h2 : (fmtChars c rest).length - 1 ≤ rest.length := by
    unfold fmtChars; split <;> simp
  exact Nat.le_trans this h2

theorem execOp_length (v : Variant) (c : Nat) (rest : Bytes) (s : St) :
    (execOp v c rest s).1.length ≤ rest.length := by
  unfold execOp
  have hf := stepFmt_length c rest s
  have hr := readInt_length rest 0
  simp only [apply_ite Prod.fst, apply_ite List.length, List.length_drop]
  repeat' (first | apply ite_le' | omega)
theorem step_length (v : Variant) (inp : Bytes) (s : St) (k : Skip) (h : inp ≠ []) :
    (step v inp s k).1.length < inp.length := by
  cases inp with
  | nil => exact absurd rfl h
  | cons ch rest =>
    simp only [step]
    split
    · simp
    · cases rest with
      | nil => simp
      | cons c r =>
        simp only
        cases k with
        | emit => have := execOp_length v c r s; simp only [List.length_cons]; omega
        | toEnd d => simp only [List.length_cons]; omega
        | toElse d => simp only [List.length_cons]; omega

theorem run_nil (v : Variant) (f : Nat) (s : St) (k : Skip) : run v f [] s k = s := by
  cases f <;> simp [run]

/-- fuel ≥ input length is always enough -/
theorem run_extra_fuel (v : Variant) (f : Nat) (inp : Bytes) (s : St) (k : Skip) (extra : Nat)
    (h : inp.length ≤ f) : run v (f + extra) inp s k = run v f inp s k := by
  induction f generalizing inp s k with
  | zero =>
    have : inp = [] := List.length_eq_zero_iff.mp (Nat.le_zero.mp h)
    subst this; simp [run_nil]
  | succ f ih =>
    cases inp with
    | nil => simp [run_nil]
    | cons b r =>
      have hs := step_length v (b :: r) s k (by simp)
      rw [show f + 1 + extra = (f + extra) + 1 by omega]
      simp only [run]
      apply ih
      simp only [List.length_cons] at hs h; omega

open Tcell.Spec.Terminfo5

/-- tokens whose meaning is proved equal in model and reference (everything but `%{n}`, printf formats, `%A`/`%O`) -/
def simpleTok : Tok → Bool
  | .num _ | .fmt _ | .bin .logAnd | .bin .logOr => false
  | _ => true

theorem step_tok (v : Variant) (t : Tok) (hs : simpleTok t = true) (hv : t.valid = true) (rest : Bytes) (s : St) :
    step v (t.render ++ rest) s .emit = (rest, sem t s, .emit) := by
  cases t with
  | lit b =>
    simp only [Tok.valid, Bool.and_eq_true, bne_iff_ne, ne_eq, decide_eq_true_eq] at hv
    simp [Tok.render, step, sem, hv.1]
  | pct => simp [Tok.render, step, execOp, sem]
  | param i =>
    simp only [Tok.valid, Bool.and_eq_true, decide_eq_true_eq] at hv
    have : 48 + i - 49 = i - 1 := by omega
    have h1 : 49 ≤ 48 + i := by omega
    have h2 : 48 + i ≤ 57 := by omega
    simp [Tok.render, step, execOp, sem, hd0, isDigit, h1, h2, this]
  | incr => simp [Tok.render, step, execOp, sem, isDigit]
  | outD => simp [Tok.render, step, execOp, sem, isDigit]
  | outC => simp [Tok.render, step, execOp, sem, isDigit]
  | outS => simp [Tok.render, step, execOp, sem, isDigit]
  | fmt f => simp [simpleTok] at hs
  | num ds => simp [simpleTok] at hs
  | setDyn i =>
    simp only [Tok.valid, decide_eq_true_eq] at hv
    have h1 : 97 ≤ 97 + i := by omega
    have h2 : 97 + i ≤ 122 := by omega
    have h3 : ¬ (97 + i ≤ 90) := by omega
    simp [Tok.render, step, execOp, sem, hd0, isDigit, h1, h2, h3]
  | setStat i =>
    simp only [Tok.valid, decide_eq_true_eq] at hv
    have h1 : 65 ≤ 65 + i := by omega
    have h2 : 65 + i ≤ 90 := by omega
    simp [Tok.render, step, execOp, sem, hd0, isDigit, h1, h2]
  | getDyn i =>
    simp only [Tok.valid, decide_eq_true_eq] at hv
    have h1 : 97 ≤ 97 + i := by omega
    have h2 : 97 + i ≤ 122 := by omega
    have h3 : ¬ (97 + i ≤ 90) := by omega
    simp [Tok.render, step, execOp, sem, hd0, isDigit, h1, h2, h3]
  | getStat i =>
    simp only [Tok.valid, decide_eq_true_eq] at hv
    have h1 : 65 ≤ 65 + i := by omega
    have h2 : 65 + i ≤ 90 := by omega
    simp [Tok.render, step, execOp, sem, hd0, isDigit, h1, h2]
  | chr c => simp [Tok.render, step, execOp, sem, hd0, isDigit]
  | strlen => simp [Tok.render, step, execOp, sem, isDigit]
  | lnot => simp [Tok.render, step, execOp, sem, isDigit]
  | bnot => simp [Tok.render, step, execOp, sem, isDigit]
  | bin o =>
    cases o <;> first
      | (simp [simpleTok] at hs; done)
      | (simp [Tok.render, BinOp.byte, step, execOp, sem, isDigit, binop, pop2, BinOp.apply]
         try (first | rfl | (split <;> rfl) | (congr 1; apply propext; rfl) | congr))

/-- straight-line program from a token list -/
def ofToks : List Tok → Prog
  | [] => .nil
  | t :: r => .tok t (ofToks r)

theorem render_ofToks (ts : List Tok) : (ofToks ts).render = ts.flatMap Tok.render := by
  induction ts with
  | nil => simp [ofToks, Prog.render]
  | cons t r ih => simp [ofToks, Prog.render, ih]

theorem tok_render_ne_nil (t : Tok) : t.render ≠ [] := by
  cases t <;> simp [Tok.render, FmtSpec.render]

theorem run_straight (v : Variant) (ts : List Tok) (h : ∀ t ∈ ts, simpleTok t = true ∧ t.valid = true)
    (s : St) (f : Nat) (hf : (ofToks ts).render.length ≤ f) :
    run v f (ofToks ts).render s .emit = eval (ofToks ts) s := by
  induction ts generalizing s f with
  | nil => simp [ofToks, Prog.render, run_nil, eval, Prog.evalG]
  | cons t r ih =>
    have ht := h t (by simp)
    have hne := tok_render_ne_nil t
    simp only [ofToks, Prog.render] at hf ⊢
    cases f with
    | zero =>
      have : t.render.length = 0 := by simp only [List.length_append] at hf; omega
      exact absurd (List.length_eq_zero_iff.mp this) hne
    | succ f =>
      cases hr : t.render with
      | nil => exact absurd hr hne
      | cons b bs =>
        have hst := step_tok v t ht.1 ht.2 (ofToks r).render s
        rw [hr] at hst
        simp only [List.cons_append] at hst ⊢
        simp only [run, hst]
        rw [ih (fun t' ht' => h t' (by simp [ht'])) (sem t s) f (by
          rw [hr] at hf; simp only [List.length_append, List.length_cons] at hf; omega)]
        simp [eval, Prog.evalG]
end Tcell.TParm
