import Tcell.Model.TParm
import Tcell.Model.TPuts
import Tcell.Spec.Terminfo5
import Tcell.Spec.TermCaps
