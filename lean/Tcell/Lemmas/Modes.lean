/-
Layer A of C04: an abstract register file of terminal modes (`Regs`), the meaning of every event of the mode
model (`Tcell.Modes`) on it, for a terminal description given *in the abstract* (`AD`: which capability strings
exist, and what the existing ones mean), and the invariant that carries the property through every history.
-/
import Tcell.Model.Modes
import Tcell.Lemmas.Draw
namespace Tcell.ModesA
open Tcell Tcell.Modes

/-- a terminal description in the abstract: which of the strings the mode path uses exist.  An existing string is
    taken to mean what terminfo(5) / ctlseqs say it means (`capEffect`); Layer B (Props/C04, kernel evaluation on the
    reference emulator) checks that for every ECMA-family entry of the regenerated database. -/
structure AD where
  mouse : Bool          -- ti.Mouse ≠ ""
  pasteOn : Bool
  pasteOff : Bool
  focusOn : Bool
  focusOff : Bool
  saveTitle : Bool
  restoreTitle : Bool
  setTitle : Bool
  cursorFg : Bool       -- cursor colour reset string (OSC 112)
  cursorRGB : Bool      -- cursor colour set string (OSC 12)
  cursorStyles : Option (Nat → Bool)  -- none: no cursor style map; some p: a map for styles 0..6, p s = its string for s is non-empty
  enterCA : Bool        -- smcup
  exitCA : Bool         -- rmcup
  caTitle : Bool        -- smcup / rmcup also push / pop the window title (xterm's `\E[22;0;0t` / `\E[23;0;0t`)
  showCursor : Bool     -- cnorm
  hideCursor : Bool     -- civis
  enterKeypad : Bool    -- smkx
  exitKeypad : Bool     -- rmkx
  disableAM : Bool      -- rmam
  enableAM : Bool       -- smam
  attrOff : Bool        -- sgr0
  resetFgBg : Bool      -- op
  url : Bool            -- enterUrl / exitUrl (OSC 8)

@[reducible] def AD.caps (ad : AD) : ModeCaps :=
  { mouse := ad.mouse, pasteOn := ad.pasteOn, pasteOff := ad.pasteOff, focusOn := ad.focusOn, focusOff := ad.focusOff,
    saveTitle := ad.saveTitle, restoreTitle := ad.restoreTitle, setTitle := ad.setTitle,
    cursorStyles := ad.cursorStyles.isSome, cursorFg := ad.cursorFg }

/-- `t.cursorStyles` has an entry for style `cs` -/
def AD.hasStyle (ad : AD) (cs : Nat) : Bool :=
  match ad.cursorStyles with
  | some _ => decide (cs < 7)
  | none => false

/-- … and that entry is a non-empty string -/
def AD.styleStr (ad : AD) (cs : Nat) : Bool :=
  match ad.cursorStyles with
  | some p => decide (cs < 7) && p cs
  | none => false

/-- the configuration of the model for an abstract description; `rw`, `payload`, `corner` do not matter for modes -/
@[reducible] def mkCf (ad : AD) (rw : Rune → Int) (payload : Rune → List Rune → List Nat) (corner alt : Bool) : ModeCfg :=
  { dc := { rw := rw, payload := payload, hasHide := ad.hideCursor, hasCursorStyle := ad.hasStyle,
            hasCursorRGB := ad.cursorRGB, cornerTrick := corner },
    caps := ad.caps, altscreen := alt }

/-- the mode registers of the user's terminal, in the abstract -/
structure Regs where
  alt : Bool := false           -- alternate screen shown
  cv : Bool := true             -- cursor visible
  shape : Nat := 0              -- DECSCUSR shape, 0 = default
  tinted : Bool := false        -- a cursor colour is set
  penSet : Bool := false        -- some colour / attribute may be in force (SGR state not known to be reset)
  link : Bool := false          -- a hyperlink is open
  keypad : Bool := false        -- keypad-transmit (application) mode
  m1000 : Bool := false
  m1002 : Bool := false
  m1003 : Bool := false
  m1006 : Bool := false
  paste : Bool := false         -- 2004
  focus : Bool := false         -- 1004
  am : Bool := true             -- auto-margin
  title : Bytes := []
  tstack : List Bytes := []     -- the terminal's stack of saved titles
deriving DecidableEq, Repr

/-- one register (or a group of coupled registers) with the effect of every capability string and draw command on it -/
structure Comp (α : Type) where
  cap : AD → Cap → α → α
  cmd : AD → Cmd → α → α

def Comp.ev {α : Type} (c : Comp α) (ad : AD) (e : Ev) (a : α) : α :=
  match e with
  | .call _ => a
  | .put k => c.cap ad k a
  | .frame cmds => cmds.foldl (fun a k => c.cmd ad k a) a

def Comp.run {α : Type} (c : Comp α) (ad : AD) (evs : List Ev) (a : α) : α := evs.foldl (fun a e => c.ev ad e a) a

/-- alternate screen: smcup / rmcup -/
def cAlt : Comp Bool where
  cap ad k b := match k with
    | .enterCA => if ad.enterCA then true else b
    | .exitCA => if ad.exitCA then false else b
    | _ => b
  cmd _ _ b := b

/-- cursor visibility: civis / cnorm, from engage / disengage and from every draw -/
def cCv : Comp Bool where
  cap ad k b := match k with
    | .hideCursor => if ad.hideCursor then false else b
    | .showCursor => if ad.showCursor then true else b
    | _ => b
  cmd ad k b := match k with
    | .hideCursor => if ad.hideCursor then false else b
    | .showCursor _ _ => if ad.showCursor then true else b
    | _ => b

/-- cursor shape (DECSCUSR) -/
def cShape : Comp Nat where
  cap ad k n := match k with
    | .cursorDefault => if ad.styleStr 0 then 0 else n
    | _ => n
  cmd ad k n := match k with
    | .showCursor cs _ => if ad.styleStr cs then cs else n
    | _ => n

/-- cursor colour set (OSC 12 / 112) -/
def cTint : Comp Bool where
  cap _ k b := match k with
    | .cursorColorReset => false
    | _ => b
  cmd ad k b := match k with
    | .showCursor _ cc =>
      if ad.cursorRGB then
        (if cc = colorReset then (if ad.cursorFg then false else b) else if cc / 2^32 % 2 = 1 then true else b)
      else b
    | _ => b

/-- some colour / attribute possibly in force.  `op` of some entries selects explicit colours, hence `true`. -/
def cPen : Comp Bool where
  cap ad k b := match k with
    | .resetFgBg => if ad.resetFgBg then true else b
    | .attrOff => if ad.attrOff then false else b
    | _ => b
  cmd _ k b := match k with
    | .setPen _ => true
    | .clear _ => true
    | _ => b

/-- hyperlink open (OSC 8) -/
def cLink : Comp Bool where
  cap ad k b := match k with
    | .exitUrl => if ad.url then false else b
    | _ => b
  cmd ad k b := match k with
    | .setPen s => if ad.url then decide (s.url ≠ "") else b
    | .clear _ => if ad.url then false else b
    | _ => b

/-- keypad-transmit mode: smkx / rmkx -/
def cKeypad : Comp Bool where
  cap ad k b := match k with
    | .enterKeypad => if ad.enterKeypad then true else b
    | .exitKeypad => if ad.exitKeypad then false else b
    | _ => b
  cmd _ _ b := b

/-- mouse tracking mode `n` (1000 / 1002 / 1003 / 1006) -/
def cMouse (n : Nat) : Comp Bool where
  cap _ k b := match k with
    | .mouseOff => false
    | .mouseOn m => if m = n then true else b
    | _ => b
  cmd _ _ b := b

def cPaste : Comp Bool where
  cap _ k b := match k with
    | .pasteOn => true
    | .pasteOff => false
    | _ => b
  cmd _ _ b := b

def cFocus : Comp Bool where
  cap _ k b := match k with
    | .focusOn => true
    | .focusOff => false
    | _ => b
  cmd _ _ b := b

/-- auto-margin: rmam / smam -/
def cAm : Comp Bool where
  cap ad k b := match k with
    | .disableAM => if ad.disableAM then false else b
    | .enableAM => if ad.enableAM then true else b
    | _ => b
  cmd _ _ b := b

def ttlPush (p : Bytes × List Bytes) : Bytes × List Bytes := (p.1, p.1 :: p.2)
def ttlPop (p : Bytes × List Bytes) : Bytes × List Bytes :=
  match p.2 with
  | [] => p
  | t :: s => (t, s)

/-- window title and the terminal's stack of saved titles -/
def cTtl : Comp (Bytes × List Bytes) where
  cap ad k p := match k with
    | .enterCA => if ad.enterCA ∧ ad.caTitle then ttlPush p else p
    | .exitCA => if ad.exitCA ∧ ad.caTitle then ttlPop p else p
    | .saveTitle => ttlPush p
    | .restoreTitle => ttlPop p
    | .setTitle t => (t, p.2)
    | _ => p
  cmd _ _ p := p

/-- what an event does to the register file: every register follows its own component -/
def evEffect (ad : AD) (e : Ev) (r : Regs) : Regs :=
  { alt := cAlt.ev ad e r.alt, cv := cCv.ev ad e r.cv, shape := cShape.ev ad e r.shape, tinted := cTint.ev ad e r.tinted,
    penSet := cPen.ev ad e r.penSet, link := cLink.ev ad e r.link, keypad := cKeypad.ev ad e r.keypad,
    m1000 := (cMouse 1000).ev ad e r.m1000, m1002 := (cMouse 1002).ev ad e r.m1002, m1003 := (cMouse 1003).ev ad e r.m1003,
    m1006 := (cMouse 1006).ev ad e r.m1006, paste := cPaste.ev ad e r.paste, focus := cFocus.ev ad e r.focus,
    am := cAm.ev ad e r.am, title := (cTtl.ev ad e (r.title, r.tstack)).1, tstack := (cTtl.ev ad e (r.title, r.tstack)).2 }

def applyEvs (ad : AD) (evs : List Ev) (r : Regs) : Regs := evs.foldl (fun r e => evEffect ad e r) r

@[simp] theorem applyEvs_nil (ad : AD) (r : Regs) : applyEvs ad [] r = r := rfl
@[simp] theorem applyEvs_cons (ad : AD) (e : Ev) (l : List Ev) (r : Regs) :
    applyEvs ad (e :: l) r = applyEvs ad l (evEffect ad e r) := rfl

/-! ### projections: each register of `applyEvs` is the run of its component -/

theorem applyEvs_alt (ad : AD) (evs : List Ev) (r : Regs) : (applyEvs ad evs r).alt = cAlt.run ad evs r.alt := by
  induction evs generalizing r with
  | nil => rfl
  | cons e l ih => rw [applyEvs_cons, ih]; rfl
theorem applyEvs_cv (ad : AD) (evs : List Ev) (r : Regs) : (applyEvs ad evs r).cv = cCv.run ad evs r.cv := by
  induction evs generalizing r with
  | nil => rfl
  | cons e l ih => rw [applyEvs_cons, ih]; rfl
theorem applyEvs_shape (ad : AD) (evs : List Ev) (r : Regs) : (applyEvs ad evs r).shape = cShape.run ad evs r.shape := by
  induction evs generalizing r with
  | nil => rfl
  | cons e l ih => rw [applyEvs_cons, ih]; rfl
theorem applyEvs_tinted (ad : AD) (evs : List Ev) (r : Regs) : (applyEvs ad evs r).tinted = cTint.run ad evs r.tinted := by
  induction evs generalizing r with
  | nil => rfl
  | cons e l ih => rw [applyEvs_cons, ih]; rfl
theorem applyEvs_penSet (ad : AD) (evs : List Ev) (r : Regs) : (applyEvs ad evs r).penSet = cPen.run ad evs r.penSet := by
  induction evs generalizing r with
  | nil => rfl
  | cons e l ih => rw [applyEvs_cons, ih]; rfl
theorem applyEvs_link (ad : AD) (evs : List Ev) (r : Regs) : (applyEvs ad evs r).link = cLink.run ad evs r.link := by
  induction evs generalizing r with
  | nil => rfl
  | cons e l ih => rw [applyEvs_cons, ih]; rfl
theorem applyEvs_keypad (ad : AD) (evs : List Ev) (r : Regs) : (applyEvs ad evs r).keypad = cKeypad.run ad evs r.keypad := by
  induction evs generalizing r with
  | nil => rfl
  | cons e l ih => rw [applyEvs_cons, ih]; rfl
theorem applyEvs_m1000 (ad : AD) (evs : List Ev) (r : Regs) : (applyEvs ad evs r).m1000 = (cMouse 1000).run ad evs r.m1000 := by
  induction evs generalizing r with
  | nil => rfl
  | cons e l ih => rw [applyEvs_cons, ih]; rfl
theorem applyEvs_m1002 (ad : AD) (evs : List Ev) (r : Regs) : (applyEvs ad evs r).m1002 = (cMouse 1002).run ad evs r.m1002 := by
  induction evs generalizing r with
  | nil => rfl
  | cons e l ih => rw [applyEvs_cons, ih]; rfl
theorem applyEvs_m1003 (ad : AD) (evs : List Ev) (r : Regs) : (applyEvs ad evs r).m1003 = (cMouse 1003).run ad evs r.m1003 := by
  induction evs generalizing r with
  | nil => rfl
  | cons e l ih => rw [applyEvs_cons, ih]; rfl
theorem applyEvs_m1006 (ad : AD) (evs : List Ev) (r : Regs) : (applyEvs ad evs r).m1006 = (cMouse 1006).run ad evs r.m1006 := by
  induction evs generalizing r with
  | nil => rfl
  | cons e l ih => rw [applyEvs_cons, ih]; rfl
theorem applyEvs_paste (ad : AD) (evs : List Ev) (r : Regs) : (applyEvs ad evs r).paste = cPaste.run ad evs r.paste := by
  induction evs generalizing r with
  | nil => rfl
  | cons e l ih => rw [applyEvs_cons, ih]; rfl
theorem applyEvs_focus (ad : AD) (evs : List Ev) (r : Regs) : (applyEvs ad evs r).focus = cFocus.run ad evs r.focus := by
  induction evs generalizing r with
  | nil => rfl
  | cons e l ih => rw [applyEvs_cons, ih]; rfl
theorem applyEvs_am (ad : AD) (evs : List Ev) (r : Regs) : (applyEvs ad evs r).am = cAm.run ad evs r.am := by
  induction evs generalizing r with
  | nil => rfl
  | cons e l ih => rw [applyEvs_cons, ih]; rfl
theorem applyEvs_ttl (ad : AD) (evs : List Ev) (r : Regs) :
    ((applyEvs ad evs r).title, (applyEvs ad evs r).tstack) = cTtl.run ad evs (r.title, r.tstack) := by
  induction evs generalizing r with
  | nil => rfl
  | cons e l ih => rw [applyEvs_cons, ih]; rfl

theorem applyEvs_title (ad : AD) (evs : List Ev) (r : Regs) :
    (applyEvs ad evs r).title = (cTtl.run ad evs (r.title, r.tstack)).1 := by rw [← applyEvs_ttl]
theorem applyEvs_tstack (ad : AD) (evs : List Ev) (r : Regs) :
    (applyEvs ad evs r).tstack = (cTtl.run ad evs (r.title, r.tstack)).2 := by rw [← applyEvs_ttl]

/-! ### evaluating a component over the event lists of the model -/

section
variable {α : Type} (c : Comp α) (ad : AD)
@[simp] theorem Comp.run_nil (a : α) : c.run ad [] a = a := rfl
@[simp] theorem Comp.run_cons (e : Ev) (l : List Ev) (a : α) : c.run ad (e :: l) a = c.run ad l (c.ev ad e a) := rfl
@[simp] theorem Comp.run_append (x y : List Ev) (a : α) : c.run ad (x ++ y) a = c.run ad y (c.run ad x a) := by
  simp [Comp.run, List.foldl_append]
@[simp] theorem Comp.run_ite (p : Prop) [Decidable p] (x y : List Ev) (a : α) :
    c.run ad (if p then x else y) a = if p then c.run ad x a else c.run ad y a := by split <;> rfl
@[simp] theorem Comp.ev_call (k : TtyCall) (a : α) : c.ev ad (.call k) a = a := rfl
@[simp] theorem Comp.ev_put (k : Cap) (a : α) : c.ev ad (.put k) a = c.cap ad k a := rfl
theorem Comp.ev_frame (cmds : List Cmd) (a : α) : c.ev ad (.frame cmds) a = cmds.foldl (fun a k => c.cmd ad k a) a := rfl
/-- a component no draw command touches ignores frames -/
theorem Comp.ev_frame_id (h : ∀ k a, c.cmd ad k a = a) (cmds : List Cmd) (a : α) : c.ev ad (.frame cmds) a = a := by
  rw [Comp.ev_frame]
  induction cmds generalizing a with
  | nil => rfl
  | cons k l ih => rw [List.foldl_cons, h, ih]
end

/-! ### unfolding lemmas (the components themselves are never unfolded, so that `run_*` keep matching) -/

@[simp] theorem cAlt_cap (ad : AD) (k : Cap) (b : Bool) : cAlt.cap ad k b =
    (match k with | .enterCA => if ad.enterCA then true else b | .exitCA => if ad.exitCA then false else b | _ => b) := rfl
@[simp] theorem cCv_cap (ad : AD) (k : Cap) (b : Bool) : cCv.cap ad k b =
    (match k with | .hideCursor => if ad.hideCursor then false else b | .showCursor => if ad.showCursor then true else b | _ => b) := rfl
@[simp] theorem cShape_cap (ad : AD) (k : Cap) (n : Nat) : cShape.cap ad k n =
    (match k with | .cursorDefault => if ad.styleStr 0 then 0 else n | _ => n) := rfl
@[simp] theorem cTint_cap (ad : AD) (k : Cap) (b : Bool) : cTint.cap ad k b =
    (match k with | .cursorColorReset => false | _ => b) := rfl
@[simp] theorem cPen_cap (ad : AD) (k : Cap) (b : Bool) : cPen.cap ad k b =
    (match k with | .resetFgBg => if ad.resetFgBg then true else b | .attrOff => if ad.attrOff then false else b | _ => b) := rfl
@[simp] theorem cLink_cap (ad : AD) (k : Cap) (b : Bool) : cLink.cap ad k b =
    (match k with | .exitUrl => if ad.url then false else b | _ => b) := rfl
@[simp] theorem cKeypad_cap (ad : AD) (k : Cap) (b : Bool) : cKeypad.cap ad k b =
    (match k with | .enterKeypad => if ad.enterKeypad then true else b | .exitKeypad => if ad.exitKeypad then false else b | _ => b) := rfl
@[simp] theorem cMouse_cap (n : Nat) (ad : AD) (k : Cap) (b : Bool) : (cMouse n).cap ad k b =
    (match k with | .mouseOff => false | .mouseOn m => if m = n then true else b | _ => b) := rfl
@[simp] theorem cPaste_cap (ad : AD) (k : Cap) (b : Bool) : cPaste.cap ad k b =
    (match k with | .pasteOn => true | .pasteOff => false | _ => b) := rfl
@[simp] theorem cFocus_cap (ad : AD) (k : Cap) (b : Bool) : cFocus.cap ad k b =
    (match k with | .focusOn => true | .focusOff => false | _ => b) := rfl
@[simp] theorem cAm_cap (ad : AD) (k : Cap) (b : Bool) : cAm.cap ad k b =
    (match k with | .disableAM => if ad.disableAM then false else b | .enableAM => if ad.enableAM then true else b | _ => b) := rfl
@[simp] theorem cTtl_cap (ad : AD) (k : Cap) (p : Bytes × List Bytes) : cTtl.cap ad k p =
    (match k with
     | .enterCA => if ad.enterCA ∧ ad.caTitle then ttlPush p else p
     | .exitCA => if ad.exitCA ∧ ad.caTitle then ttlPop p else p
     | .saveTitle => ttlPush p
     | .restoreTitle => ttlPop p
     | .setTitle t => (t, p.2)
     | _ => p) := rfl

theorem cAlt_cmd (ad : AD) (k : Cmd) (b : Bool) : cAlt.cmd ad k b = b := rfl
theorem cKeypad_cmd (ad : AD) (k : Cmd) (b : Bool) : cKeypad.cmd ad k b = b := rfl
theorem cMouse_cmd (n : Nat) (ad : AD) (k : Cmd) (b : Bool) : (cMouse n).cmd ad k b = b := rfl
theorem cPaste_cmd (ad : AD) (k : Cmd) (b : Bool) : cPaste.cmd ad k b = b := rfl
theorem cFocus_cmd (ad : AD) (k : Cmd) (b : Bool) : cFocus.cmd ad k b = b := rfl
theorem cAm_cmd (ad : AD) (k : Cmd) (b : Bool) : cAm.cmd ad k b = b := rfl
theorem cTtl_cmd (ad : AD) (k : Cmd) (p : Bytes × List Bytes) : cTtl.cmd ad k p = p := rfl

@[simp] theorem cAlt_frame (ad : AD) (l : List Cmd) (b : Bool) : cAlt.ev ad (.frame l) b = b := Comp.ev_frame_id _ _ (cAlt_cmd ad) l b
@[simp] theorem cKeypad_frame (ad : AD) (l : List Cmd) (b : Bool) : cKeypad.ev ad (.frame l) b = b := Comp.ev_frame_id _ _ (cKeypad_cmd ad) l b
@[simp] theorem cMouse_frame (n : Nat) (ad : AD) (l : List Cmd) (b : Bool) : (cMouse n).ev ad (.frame l) b = b :=
  Comp.ev_frame_id _ _ (cMouse_cmd n ad) l b
@[simp] theorem cPaste_frame (ad : AD) (l : List Cmd) (b : Bool) : cPaste.ev ad (.frame l) b = b := Comp.ev_frame_id _ _ (cPaste_cmd ad) l b
@[simp] theorem cFocus_frame (ad : AD) (l : List Cmd) (b : Bool) : cFocus.ev ad (.frame l) b = b := Comp.ev_frame_id _ _ (cFocus_cmd ad) l b
@[simp] theorem cAm_frame (ad : AD) (l : List Cmd) (b : Bool) : cAm.ev ad (.frame l) b = b := Comp.ev_frame_id _ _ (cAm_cmd ad) l b
@[simp] theorem cTtl_frame (ad : AD) (l : List Cmd) (p : Bytes × List Bytes) : cTtl.ev ad (.frame l) p = p :=
  Comp.ev_frame_id _ _ (cTtl_cmd ad) l p

/-! ### draw commands: only the final showCursor touches shape / colour -/

/-- a command of the body of a draw: anything but the cursor show -/
def bodyCmd : Cmd → Bool
  | .showCursor _ _ => false
  | _ => true

theorem foldl_body_shape (ad : AD) (cmds : List Cmd) (n : Nat) (h : ∀ c ∈ cmds, bodyCmd c = true) :
    cmds.foldl (fun a k => cShape.cmd ad k a) n = n := by
  induction cmds generalizing n with
  | nil => rfl
  | cons c l ih =>
    rw [List.foldl_cons, ih _ (fun c hc => h c (by simp [hc]))]
    have := h c (by simp)
    cases c <;> simp_all [cShape, bodyCmd]

theorem foldl_body_tint (ad : AD) (cmds : List Cmd) (b : Bool) (h : ∀ c ∈ cmds, bodyCmd c = true) :
    cmds.foldl (fun a k => cTint.cmd ad k a) b = b := by
  induction cmds generalizing b with
  | nil => rfl
  | cons c l ih =>
    rw [List.foldl_cons, ih _ (fun c hc => h c (by simp [hc]))]
    have := h c (by simp)
    cases c <;> simp_all [cTint, bodyCmd]

/-- a hyperlink can only be open on a terminal description that has the hyperlink strings -/
theorem foldl_link (ad : AD) (cmds : List Cmd) (b : Bool) (h : b = true → ad.url = true) :
    cmds.foldl (fun a k => cLink.cmd ad k a) b = true → ad.url = true := by
  induction cmds generalizing b with
  | nil => exact h
  | cons c l ih =>
    rw [List.foldl_cons]
    apply ih
    cases c <;> simp [cLink] <;> (try exact h) <;> (intro h1; by_cases hu : ad.url = true <;> simp_all)

/-- the screen fields the draw body leaves alone -/
def sameCursorFlags (s s' : Scr) : Prop :=
  s'.cursorShaped = s.cursorShaped ∧ s'.cursorTinted = s.cursorTinted ∧ s'.cursorStyle = s.cursorStyle ∧
  s'.cursorColor = s.cursorColor ∧ s'.cursorx = s.cursorx ∧ s'.cursory = s.cursory ∧ s'.cells.w = s.cells.w ∧
  s'.cells.h = s.cells.h

theorem sameCursorFlags.refl (s : Scr) : sameCursorFlags s s := by simp [sameCursorFlags]
theorem sameCursorFlags.trans {a b c : Scr} (h1 : sameCursorFlags a b) (h2 : sameCursorFlags b c) : sameCursorFlags a c := by
  unfold sameCursorFlags at *
  refine ⟨?_, ?_, ?_, ?_, ?_, ?_, ?_, ?_⟩ <;> simp_all

/-- result of a piece of the draw body: flags untouched, only body commands -/
def BodyOk (s : Scr) (s' : Scr) (cmds : List Cmd) : Prop := sameCursorFlags s s' ∧ ∀ c ∈ cmds, bodyCmd c = true

theorem pen_body (p : Prop) [Decidable p] (st : Style) (k : Cmd) (hk : k ∈ (if p then [Cmd.setPen st] else [])) :
    bodyCmd k = true := by
  split at hk
  · rw [List.mem_singleton] at hk; subst hk; rfl
  · cases hk

theorem paint_body (c : DrawCfg) (s : Scr) (x y : Int) : BodyOk s (s.paint c x y).1 (s.paint c x y).2.1 := by
  constructor
  · simp [Scr.paint, sameCursorFlags]
  · intro k hk
    simp only [Scr.paint] at hk
    rcases List.mem_append.mp hk with hk | hk
    · exact pen_body _ _ k hk
    · rw [List.mem_singleton] at hk; subst hk; rfl

theorem drawCellPlain_body (c : DrawCfg) (s : Scr) (x y : Int) :
    BodyOk s (s.drawCellPlain c x y).1 (s.drawCellPlain c x y).2.1 := by
  unfold Scr.drawCellPlain
  split
  · exact ⟨sameCursorFlags.refl s, by simp⟩
  · simp only
    split
    · have h := paint_body c { s with cx := x, cy := y } x y
      refine ⟨?_, ?_⟩
      · exact sameCursorFlags.trans (by simp [sameCursorFlags]) h.1
      · intro k hk
        simp only [List.mem_append, List.mem_singleton] at hk
        rcases hk with hk | hk
        · subst hk; rfl
        · exact h.2 k hk
    · have h := paint_body c s x y
      exact ⟨h.1, by intro k hk; simp only [List.nil_append] at hk; exact h.2 k hk⟩

theorem drawCell_body (c : DrawCfg) (s : Scr) (x y : Int) : BodyOk s (s.drawCell c x y).1 (s.drawCell c x y).2.1 := by
  unfold Scr.drawCell
  split
  · exact ⟨sameCursorFlags.refl s, by simp⟩
  · split
    · simp only
      have h1 := paint_body c s x y
      generalize Scr.cornerPx (s.paint c x y).1 x y = px
      have h3 := drawCellPlain_body c
        { (s.paint c x y).1 with cy := y, cx := x - 1, cells := (s.paint c x y).1.cells.setDirty px y true } px y
      refine ⟨?_, ?_⟩
      · have h2 : sameCursorFlags (s.paint c x y).1
            { (s.paint c x y).1 with cy := y, cx := x - 1, cells := (s.paint c x y).1.cells.setDirty px y true } := by
          simp [sameCursorFlags]
        exact sameCursorFlags.trans (sameCursorFlags.trans (sameCursorFlags.trans h1.1 h2) h3.1) (by simp [sameCursorFlags])
      · intro k hk
        simp only [List.mem_append, List.mem_cons, List.mem_singleton, List.not_mem_nil, or_false] at hk
        rcases hk with (((hk | hk) | hk | hk) | hk) | hk
        · subst hk; rfl
        · exact h1.2 k hk
        · subst hk; rfl
        · subst hk; rfl
        · exact h3.2 k hk
        · subst hk; rfl
    · exact drawCellPlain_body c s x y

theorem visit_body (c : DrawCfg) (s : Scr) (x y : Int) : BodyOk s (s.visit c x y).1 (s.visit c x y).2.1 := by
  have h := drawCell_body c s x y
  unfold Scr.visit
  simp only
  refine ⟨?_, h.2⟩
  split
  · exact sameCursorFlags.trans h.1 (by simp [sameCursorFlags])
  · exact h.1

theorem drawRow_body (c : DrawCfg) (y : Int) : ∀ (fuel : Nat) (x : Int) (s : Scr),
    BodyOk s (Scr.drawRow c y fuel x s).1 (Scr.drawRow c y fuel x s).2 := by
  intro fuel
  induction fuel with
  | zero => intro x s; exact ⟨sameCursorFlags.refl s, by simp [Scr.drawRow]⟩
  | succ n ih =>
    intro x s
    rw [drawRow_succ]
    split
    · have h1 := visit_body c s x y
      have h2 := ih (x + (s.visit c x y).2.2) (s.visit c x y).1
      refine ⟨sameCursorFlags.trans h1.1 h2.1, ?_⟩
      intro k hk
      simp only [List.mem_append] at hk
      rcases hk with hk | hk
      · exact h1.2 k hk
      · exact h2.2 k hk
    · exact ⟨sameCursorFlags.refl s, by simp⟩

theorem drawRows_body (c : DrawCfg) : ∀ (fuel : Nat) (y : Int) (s : Scr),
    BodyOk s (Scr.drawRows c fuel y s).1 (Scr.drawRows c fuel y s).2 := by
  intro fuel
  induction fuel with
  | zero => intro y s; exact ⟨sameCursorFlags.refl s, by simp [Scr.drawRows]⟩
  | succ n ih =>
    intro y s
    rw [drawRows_succ]
    split
    · have h1 := drawRow_body c y s.w.toNat 0 s
      have h2 := ih (y + 1) (Scr.drawRow c y s.w.toNat 0 s).1
      refine ⟨sameCursorFlags.trans h1.1 h2.1, ?_⟩
      intro k hk
      simp only [List.mem_append] at hk
      rcases hk with hk | hk
      · exact h1.2 k hk
      · exact h2.2 k hk
    · exact ⟨sameCursorFlags.refl s, by simp⟩

end Tcell.ModesA
