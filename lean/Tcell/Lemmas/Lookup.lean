import Tcell.Model.Lookup
/-! Helper lemmas about the lookup model (`Tcell.Model.Lookup`): suffix stripping, congruence in the recursive
    call, fuel adequacy (termination made explicit), frame lemmas for the repaired variant and for failing lookups. -/
namespace Tcell.Lookup
open Tcell

abbrev Look := Registry → Name → Option Res × Registry

/-! ## suffixes -/

theorem stripSuffix_some {suf name base : Name} (h : stripSuffix suf name = some base) : name = base ++ suf := by
  unfold stripSuffix at h
  split at h
  · rename_i hs
    obtain ⟨t, rfl⟩ := List.isSuffixOf_iff_suffix.mp hs
    simp only [Option.some.injEq] at h
    subst h
    simp
  · cases h

theorem stripSuffix_append (suf base : Name) : stripSuffix suf (base ++ suf) = some base := by
  unfold stripSuffix
  have : suf.isSuffixOf (base ++ suf) = true := List.isSuffixOf_iff_suffix.mpr ⟨base, rfl⟩
  simp [this]

theorem stripSuffix_length {suf name base : Name} (h : stripSuffix suf name = some base) :
    name.length = base.length + suf.length := by
  rw [stripSuffix_some h]; simp

theorem stripSuffix_none_of_not_suffix {suf name : Name} (h : suf.isSuffixOf name = false) : stripSuffix suf name = none := by
  simp [stripSuffix, h]

/-- a name ending in `-256color` does not end in `-truecolor` -/
theorem stripSuffix_truecolor_256 (base : Name) : stripSuffix sfxTruecolor (base ++ sfx256color) = none := by
  apply stripSuffix_none_of_not_suffix
  simp [List.isSuffixOf, sfxTruecolor, sfx256color, List.isPrefixOf]

theorem sufTrue_shorter {s : Name} (h : s ∈ sufTrue) : s.length < sfxTruecolor.length := by
  simp [sufTrue] at h
  rcases h with rfl | rfl | rfl | rfl <;> decide

theorem suf256_shorter {s : Name} (h : s ∈ suf256) : s.length < sfx256color.length := by
  simp [suf256] at h
  rcases h with rfl | rfl <;> decide

/-! ## congruence: the body only calls `look` on strictly shorter names -/

theorem firstFound_congr {look look' : Look} {base : Name} :
    ∀ (ss : List Name) (R : Registry), (∀ s ∈ ss, ∀ R, look R (base ++ s) = look' R (base ++ s)) →
      firstFound look base ss R = firstFound look' base ss R
  | [], _, _ => rfl
  | s :: ss, R, h => by
    simp only [firstFound]
    rw [h s (List.mem_cons_self ..) R]
    split
    · rfl
    · exact firstFound_congr ss _ (fun s' hs' => h s' (List.mem_cons_of_mem _ hs'))

theorem searchTC_congr {look look' : Look} (env : Env) (R : Registry) (name : Name)
    (h : ∀ m : Name, m.length < name.length → ∀ R, look R m = look' R m) :
    searchTC look env R name = searchTC look' env R name := by
  unfold searchTC
  split
  · rfl
  · split
    · rename_i base hb
      have hl := stripSuffix_length hb
      rw [firstFound_congr sufTrue R (fun s hs R => h _ (by have := sufTrue_shorter hs; simp; omega) R)]
    · rfl

theorem search256_congr {look look' : Look} (t : Option Res) (R : Registry) (name : Name)
    (h : ∀ m : Name, m.length < name.length → ∀ R, look R m = look' R m) :
    search256 look t R name = search256 look' t R name := by
  unfold search256
  split
  · rfl
  · split
    · rename_i base hb
      have hl := stripSuffix_length hb
      rw [firstFound_congr suf256 R (fun s hs R => h _ (by have := suf256_shorter hs; simp; omega) R)]
    · rfl

theorem lookupBody_congr {look look' : Look} (copy : Bool) (env : Env) (R : Registry) (name : Name)
    (h : ∀ m : Name, m.length < name.length → ∀ R, look R m = look' R m) :
    lookupBody copy env look R name = lookupBody copy env look' R name := by
  unfold lookupBody
  rw [searchTC_congr env R name h]
  simp only [search256_congr _ _ name h]

/-- **Termination made explicit**: any fuel larger than the name length gives the same result, i.e. the fuel
    `name.length + 1` used by `lookupG` never runs out (every recursive call is on a strictly shorter name). -/
theorem lookupF_fuel (copy : Bool) (env : Env) :
    ∀ (f f' : Nat) (R : Registry) (n : Name), n.length < f → n.length < f' →
      lookupF copy env f R n = lookupF copy env f' R n
  | 0, _, _, _, h, _ => absurd h (Nat.not_lt_zero _)
  | _ + 1, 0, _, _, _, h => absurd h (Nat.not_lt_zero _)
  | f + 1, f' + 1, R, n, h, h' => by
    simp only [lookupF]
    exact lookupBody_congr copy env R n (fun m hm R => lookupF_fuel copy env f f' R m (by omega) (by omega))

/-- the recursion equation of `LookupTerminfo`, free of fuel -/
theorem lookupG_eq (copy : Bool) (env : Env) (R : Registry) (n : Name) :
    lookupG copy env R n = lookupBody copy env (lookupG copy env) R n := by
  show lookupF copy env (n.length + 1) R n = _
  simp only [lookupF]
  exact lookupBody_congr copy env R n
    (fun m hm R => lookupF_fuel copy env n.length (m.length + 1) R m hm (Nat.lt_succ_self _))

/-! ## frame: the repaired variant never writes the registry -/

theorem amend_true_reg (R : Registry) (r : Res) (f : Terminfo → Terminfo) : (amend true R r f).2 = R := rfl

theorem finish_true_reg (env : Env) (R : Registry) (r : Res) (a b : Bool) : (finish true env R r a b).2 = R := by
  unfold finish
  split <;> split <;> simp_all [amend_true_reg]

theorem firstFound_reg {look : Look} (h : ∀ R n, (look R n).2 = R) (base : Name) :
    ∀ (ss : List Name) (R : Registry), (firstFound look base ss R).2 = R
  | [], _ => rfl
  | s :: ss, R => by
    simp only [firstFound]
    have := h R (base ++ s)
    split
    · rename_i r R' heq; rw [heq] at this; exact this
    · rename_i R' heq
      rw [heq] at this
      simp only at this
      subst this
      exact firstFound_reg h base ss _

theorem searchTC_reg {look : Look} (h : ∀ R n, (look R n).2 = R) (env : Env) (R : Registry) (name : Name) :
    (searchTC look env R name).2.2 = R := by
  unfold searchTC
  split
  · rfl
  · split
    · rename_i base _
      have := firstFound_reg h base sufTrue R
      split <;> (rename_i heq; rw [heq] at this; exact this)
    · rfl

theorem search256_reg {look : Look} (h : ∀ R n, (look R n).2 = R) (t : Option Res) (R : Registry) (name : Name) :
    (search256 look t R name).2.2 = R := by
  unfold search256
  split
  · rfl
  · split
    · rename_i base _
      have := firstFound_reg h base suf256 R
      split <;> (rename_i heq; rw [heq] at this; exact this)
    · rfl

theorem lookupBody_true_reg {look : Look} (h : ∀ R n, (look R n).2 = R) (env : Env) (R : Registry) (name : Name) :
    (lookupBody true env look R name).2 = R := by
  unfold lookupBody
  split
  · rfl
  · simp only
    split
    · simp only [search256_reg h, searchTC_reg h]
    · simp only [finish_true_reg, search256_reg h, searchTC_reg h]

theorem lookupF_true_reg (env : Env) : ∀ (f : Nat) (R : Registry) (n : Name), (lookupF true env f R n).2 = R
  | 0, _, _ => rfl
  | f + 1, R, n => by
    simp only [lookupF]
    exact lookupBody_true_reg (lookupF_true_reg env f) env R n

/-! ## frame: a failing lookup writes nothing (either variant) -/

theorem firstFound_none_reg {look : Look} (h : ∀ R n, (look R n).1 = none → (look R n).2 = R) (base : Name) :
    ∀ (ss : List Name) (R : Registry), (firstFound look base ss R).1 = none → (firstFound look base ss R).2 = R
  | [], _, _ => rfl
  | s :: ss, R, hn => by
    simp only [firstFound] at hn ⊢
    have hs := h R (base ++ s)
    cases hlk : look R (base ++ s) with
    | mk o R' =>
      simp only [hlk] at hn hs ⊢
      cases o with
      | some r => simp at hn
      | none =>
        simp only at hn hs ⊢
        have := hs trivial
        subst this
        exact firstFound_none_reg h base ss _ hn

theorem searchTC_none_reg {look : Look} (h : ∀ R n, (look R n).1 = none → (look R n).2 = R)
    (env : Env) (R : Registry) (name : Name) (hn : (searchTC look env R name).1 = none) :
    (searchTC look env R name).2.2 = R := by
  unfold searchTC at hn ⊢
  cases hf : R.find name with
  | some id => simp [hf] at hn
  | none =>
    simp only [hf] at hn ⊢
    cases hs : stripSuffix sfxTruecolor name with
    | none => rfl
    | some base =>
      simp only [hs] at hn ⊢
      have := firstFound_none_reg h base sufTrue R
      cases hff : firstFound look base sufTrue R with
      | mk o R' =>
        simp only [hff] at hn this ⊢
        cases o with
        | some r => simp at hn
        | none => exact this rfl

theorem search256_none_reg {look : Look} (h : ∀ R n, (look R n).1 = none → (look R n).2 = R)
    (t : Option Res) (R : Registry) (name : Name) (hn : (search256 look t R name).1 = none) :
    (search256 look t R name).2.2 = R := by
  unfold search256 at hn ⊢
  cases t with
  | some r => simp at hn
  | none =>
    simp only at hn ⊢
    cases hs : stripSuffix sfx256color name with
    | none => rfl
    | some base =>
      simp only [hs] at hn ⊢
      have := firstFound_none_reg h base suf256 R
      cases hff : firstFound look base suf256 R with
      | mk o R' =>
        simp only [hff] at hn this ⊢
        cases o with
        | some r => simp at hn
        | none => exact this rfl

theorem search256_none_input {look : Look} (t : Option Res) (R : Registry) (name : Name)
    (hn : (search256 look t R name).1 = none) : t = none := by
  unfold search256 at hn
  split at hn
  · simp at hn
  · rfl

theorem lookupBody_none_reg {look : Look} (h : ∀ R n, (look R n).1 = none → (look R n).2 = R)
    (copy : Bool) (env : Env) (R : Registry) (name : Name) (hn : (lookupBody copy env look R name).1 = none) :
    (lookupBody copy env look R name).2 = R := by
  unfold lookupBody at hn ⊢
  split
  · rfl
  · rename_i hne
    simp only [hne, if_false] at hn
    simp only at hn ⊢
    split
    · rename_i h2
      have h1 := search256_none_input _ _ _ h2
      rw [search256_none_reg h _ _ _ h2, searchTC_none_reg h _ _ _ h1]
    · rename_i r h2
      simp [h2] at hn

theorem lookupF_none_reg (copy : Bool) (env : Env) :
    ∀ (f : Nat) (R : Registry) (n : Name), (lookupF copy env f R n).1 = none → (lookupF copy env f R n).2 = R
  | 0, _, _, _ => rfl
  | f + 1, R, n, hn => by
    simp only [lookupF] at hn ⊢
    exact lookupBody_none_reg (lookupF_none_reg copy env f) copy env R n hn

/-- a name ending in `-truecolor` does not end in `-256color` -/
theorem stripSuffix_256_truecolor (base : Name) : stripSuffix sfx256color (base ++ sfxTruecolor) = none := by
  apply stripSuffix_none_of_not_suffix
  simp [List.isSuffixOf, sfxTruecolor, sfx256color, List.isPrefixOf]

/-! ## values: what the caller sees; the amendments as a function on values -/

/-- value of the entry after terminfo.go:750-779, as a function of the value found -/
def finishVal (env : Env) (t : Terminfo) (addTC add256 : Bool) : Terminfo :=
  let t1 := if env.finalTC addTC && rgbAllEmpty t then addRGB t else t
  if add256 then set256 t1 else t1

theorem get_amend (copy : Bool) (R : Registry) (r : Res) (f : Terminfo → Terminfo) :
    (amend copy R r f).2.get (amend copy R r f).1 = f (R.get r) := by
  cases copy <;> cases r <;> simp [amend, Registry.get, Registry.update, Registry.deref]

theorem get_finish (copy : Bool) (env : Env) (R : Registry) (r : Res) (a b : Bool) :
    (finish copy env R r a b).2.get (finish copy env R r a b).1 = finishVal env (R.get r) a b := by
  unfold finish finishVal
  by_cases h1 : (env.finalTC a && rgbAllEmpty (R.get r)) = true <;> cases b <;> simp [h1, get_amend]

/-! ## the first resolving sibling -/

theorem firstFound_some {look : Look} (hnone : ∀ R n, (look R n).1 = none → (look R n).2 = R) (base : Name) :
    ∀ (ss : List Name) (R : Registry) (r : Res) (R' : Registry), firstFound look base ss R = (some r, R') →
      ∃ s ∈ ss, look R (base ++ s) = (some r, R')
  | [], _, _, _, h => by cases h
  | s0 :: ss, R, r, R', h => by
    simp only [firstFound] at h
    have hn := hnone R (base ++ s0)
    cases hl : look R (base ++ s0) with
    | mk o R0 =>
      rw [hl] at h hn
      cases o with
      | some r0 =>
        simp only at h
        exact ⟨s0, List.mem_cons_self .., hl.trans h⟩
      | none =>
        simp only at h hn
        have : R0 = R := hn trivial
        subst this
        obtain ⟨s, hs, hls⟩ := firstFound_some hnone base ss _ r R' h
        exact ⟨s, List.mem_cons_of_mem _ hs, hls⟩

theorem firstFound_isSome_of_exists {look : Look} (hnone : ∀ R n, (look R n).1 = none → (look R n).2 = R) (base : Name) :
    ∀ (ss : List Name) (R : Registry), (∃ s ∈ ss, (look R (base ++ s)).1.isSome = true) →
      (firstFound look base ss R).1.isSome = true
  | [], _, ⟨_, hs, _⟩ => by cases hs
  | s0 :: ss, R, ⟨s, hs, h⟩ => by
    simp only [firstFound]
    have hn := hnone R (base ++ s0)
    cases hl : look R (base ++ s0) with
    | mk o R0 =>
      rw [hl] at hn
      cases o with
      | some r0 => rfl
      | none =>
        simp only at hn ⊢
        have : R0 = R := hn trivial
        subst this
        rcases List.mem_cons.mp hs with rfl | hs'
        · rw [hl] at h; cases h
        · exact firstFound_isSome_of_exists hnone base ss _ ⟨s, hs', h⟩

/-! ## pinned and repaired code agree on the value of a lookup in the same registry -/

theorem firstFound_agree {l1 l2 : Look}
    (h1 : ∀ R n, (l1 R n).1 = none → (l1 R n).2 = R) (h2 : ∀ R n, (l2 R n).1 = none → (l2 R n).2 = R)
    (h : ∀ R n, resultOf (l1 R n) = resultOf (l2 R n)) (base : Name) :
    ∀ (ss : List Name) (R : Registry), resultOf (firstFound l1 base ss R) = resultOf (firstFound l2 base ss R)
  | [], _ => rfl
  | s0 :: ss, R => by
    simp only [firstFound]
    have e := h R (base ++ s0)
    have n1 := h1 R (base ++ s0)
    have n2 := h2 R (base ++ s0)
    cases hl1 : l1 R (base ++ s0) with
    | mk o1 R1 =>
      cases hl2 : l2 R (base ++ s0) with
      | mk o2 R2 =>
        rw [hl1] at n1 e; rw [hl2] at n2 e
        cases o1 <;> cases o2
        · simp only at n1 n2 ⊢
          have e1 : R1 = R := n1 trivial
          have e2 : R2 = R := n2 trivial
          subst e1; subst e2
          exact firstFound_agree h1 h2 h base ss _
        · simp [resultOf] at e
        · simp [resultOf] at e
        · exact e

theorem lookupBody_agree {l1 l2 : Look}
    (h1 : ∀ R n, (l1 R n).1 = none → (l1 R n).2 = R) (h2 : ∀ R n, (l2 R n).1 = none → (l2 R n).2 = R)
    (h : ∀ R n, resultOf (l1 R n) = resultOf (l2 R n)) (env : Env) (R : Registry) (n : Name) :
    resultOf (lookupBody false env l1 R n) = resultOf (lookupBody true env l2 R n) := by
  unfold lookupBody
  by_cases hn : n = []
  · simp [hn, resultOf]
  · simp only [hn, if_false]
    -- common tail: same value found, same flags
    have tail : ∀ (R1 R2 : Registry) (r1 r2 : Res) (a b : Bool), R1.get r1 = R2.get r2 →
        resultOf (some (finish false env R1 r1 a b).1, (finish false env R1 r1 a b).2) =
        resultOf (some (finish true env R2 r2 a b).1, (finish true env R2 r2 a b).2) := by
      intro R1 R2 r1 r2 a b hv
      simp only [resultOf, Option.map_some]
      rw [get_finish, get_finish, hv]
    cases hf : R.find n with
    | some id =>
      simp only [searchTC, hf, search256]
      exact tail R R _ _ _ _ rfl
    | none =>
      cases hs : stripSuffix sfxTruecolor n with
      | some base =>
        have hnb := stripSuffix_some hs
        have e := firstFound_agree h1 h2 h base sufTrue R
        have n1 := firstFound_none_reg h1 base sufTrue R
        have n2 := firstFound_none_reg h2 base sufTrue R
        cases hl1 : firstFound l1 base sufTrue R with
        | mk o1 R1 =>
          cases hl2 : firstFound l2 base sufTrue R with
          | mk o2 R2 =>
            rw [hl1] at n1 e; rw [hl2] at n2 e
            cases o1 <;> cases o2
            · have h256 : stripSuffix sfx256color n = none := by rw [hnb]; exact stripSuffix_256_truecolor base
              simp [searchTC, hf, hs, hl1, hl2, search256, h256, resultOf]
            · simp [resultOf] at e
            · simp [resultOf] at e
            · simp only [searchTC, hf, hs, hl1, hl2, search256]
              simp only [resultOf, Option.map_some, Option.some.injEq] at e
              exact tail _ _ _ _ _ _ e
      | none =>
        cases hs2 : stripSuffix sfx256color n with
        | some base =>
          have e := firstFound_agree h1 h2 h base suf256 R
          cases hl1 : firstFound l1 base suf256 R with
          | mk o1 R1 =>
            cases hl2 : firstFound l2 base suf256 R with
            | mk o2 R2 =>
              rw [hl1, hl2] at e
              cases o1 <;> cases o2
              · simp [searchTC, hf, hs, hl1, hl2, search256, hs2, resultOf]
              · simp [resultOf] at e
              · simp [resultOf] at e
              · simp only [searchTC, hf, hs, hl1, hl2, search256, hs2]
                simp only [resultOf, Option.map_some, Option.some.injEq] at e
                exact tail _ _ _ _ _ _ e
        | none => simp [searchTC, hf, hs, search256, hs2, resultOf]

theorem lookupF_agree (env : Env) :
    ∀ (f : Nat) (R : Registry) (n : Name), resultOf (lookupF false env f R n) = resultOf (lookupF true env f R n)
  | 0, _, _ => rfl
  | f + 1, R, n => by
    simp only [lookupF]
    exact lookupBody_agree (lookupF_none_reg false env f) (lookupF_none_reg true env f) (lookupF_agree env f) env R n

/-! ## frame: no lookup (either variant) registers or unregisters a name -/

theorem amend_names (copy : Bool) (R : Registry) (r : Res) (f : Terminfo → Terminfo) :
    (amend copy R r f).2.names = R.names := by
  cases copy <;> cases r <;> rfl

theorem finish_names (copy : Bool) (env : Env) (R : Registry) (r : Res) (a b : Bool) :
    (finish copy env R r a b).2.names = R.names := by
  unfold finish
  split <;> split <;> simp [amend_names]

theorem firstFound_names {look : Look} (h : ∀ R n, (look R n).2.names = R.names) (base : Name) :
    ∀ (ss : List Name) (R : Registry), (firstFound look base ss R).2.names = R.names
  | [], _ => rfl
  | s :: ss, R => by
    simp only [firstFound]
    have := h R (base ++ s)
    cases hl : look R (base ++ s) with
    | mk o R' =>
      rw [hl] at this
      cases o with
      | some r => exact this
      | none => exact (firstFound_names h base ss R').trans this

theorem searchTC_names {look : Look} (h : ∀ R n, (look R n).2.names = R.names) (env : Env) (R : Registry) (name : Name) :
    (searchTC look env R name).2.2.names = R.names := by
  unfold searchTC
  split
  · rfl
  · split
    · rename_i base _
      have := firstFound_names h base sufTrue R
      split <;> (rename_i heq; rw [heq] at this; exact this)
    · rfl

theorem search256_names {look : Look} (h : ∀ R n, (look R n).2.names = R.names) (t : Option Res) (R : Registry) (name : Name) :
    (search256 look t R name).2.2.names = R.names := by
  unfold search256
  split
  · rfl
  · split
    · rename_i base _
      have := firstFound_names h base suf256 R
      split <;> (rename_i heq; rw [heq] at this; exact this)
    · rfl

theorem lookupBody_names {look : Look} (h : ∀ R n, (look R n).2.names = R.names) (copy : Bool) (env : Env)
    (R : Registry) (name : Name) : (lookupBody copy env look R name).2.names = R.names := by
  unfold lookupBody
  split
  · rfl
  · simp only
    split
    · exact (search256_names h _ _ _).trans (searchTC_names h _ _ _)
    · exact (finish_names ..).trans ((search256_names h _ _ _).trans (searchTC_names h _ _ _))

theorem lookupF_names (copy : Bool) (env : Env) :
    ∀ (f : Nat) (R : Registry) (n : Name), (lookupF copy env f R n).2.names = R.names
  | 0, _, _ => rfl
  | f + 1, R, n => by
    simp only [lookupF]
    exact lookupBody_names (lookupF_names copy env f) copy env R n

end Tcell.Lookup
