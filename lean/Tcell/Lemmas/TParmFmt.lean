import Tcell.Lemmas.TParmRefine
/-
C07: Go's `fmt.Sprintf` (as the machine uses it, `Tcell.TParm.fmtEffect`) and the reference's C printf (`cFmtInt`,
`cFmtStr`) agree on every valid printf token wherever the reference specifies the result (`unspecified = false`):
`semM_eq_sem`.  Then `evalG semM = evalG sem` on every run the reference calls specified (`evalG_semM_eq`).
-/
namespace Tcell.TParm
open Tcell.Spec.Terminfo5

theorem decVal_cons_zero (l : Bytes) : decVal (48 :: l) = decVal l := by simp [decVal]

theorem decVal_dropZeros (l : Bytes) : decVal (l.dropWhile (· == 48)) = decVal l := by
  induction l with
  | nil => rfl
  | cons x l ih =>
    simp only [List.dropWhile]
    split
    · rename_i h
      simp only [beq_iff_eq] at h
      subst h; rw [ih, decVal_cons_zero]
    · rfl

theorem dropZeros_empty_decVal (l : Bytes) (h : (l.dropWhile (· == 48)).isEmpty = true) : decVal l = 0 := by
  rw [← decVal_dropZeros l]
  simp only [List.isEmpty_iff] at h
  rw [h]; rfl

theorem takeZeros_isEmpty (l : Bytes) : (!(l.takeWhile (· == 48)).isEmpty) = (l.head? == some 48) := by
  cases l with
  | nil => rfl
  | cons x l =>
    simp only [List.takeWhile, List.head?_cons]
    by_cases h : x = 48
    · subst h; rfl
    · have : (x == 48) = false := by simpa using h
      simp [this, h]

theorem parseFmt_noPrec (flags w : Bytes) (hw : ∀ x ∈ w, isDigit x = true) :
    parseFmt flags w =
              { sharp := flags.contains 35, zero := w.head? == some 48, plus := flags.contains 43,
                minus := flags.contains 45, space := flags.contains 32,
                wid := if (w.dropWhile (· == 48)).isEmpty then none else some (decVal w), prec := none } := by
  have hwd : ∀ x ∈ w.dropWhile (· == 48), isDigit x = true :=
    fun x hx => hw x ((List.dropWhile_sublist _).subset hx)
  have h2 := takeWhile_all isDigit _ hwd
  unfold parseFmt
  simp only [h2.1, h2.2, takeZeros_isEmpty, decVal_dropZeros]

theorem parseFmt_prec (flags w p : Bytes) (hw : ∀ x ∈ w, isDigit x = true) (hp : ∀ x ∈ p, isDigit x = true) :
    parseFmt flags (w ++ 46 :: p) =
              { sharp := flags.contains 35, zero := w.head? == some 48, plus := flags.contains 43,
                minus := flags.contains 45, space := flags.contains 32,
                wid := if (w.dropWhile (· == 48)).isEmpty then none else some (decVal w),
                prec := some (decVal p) } := by
  have h1 := takeWhile_append_stop (· == 48) w (46 :: p) (by intro x hx; simp at hx; subst hx; decide)
  have hwd : ∀ x ∈ w.dropWhile (· == 48), isDigit x = true :=
    fun x hx => hw x ((List.dropWhile_sublist _).subset hx)
  have h2 := takeWhile_all_append isDigit _ (46 :: p) hwd (by intro x hx; simp at hx; subst hx; decide)
  unfold parseFmt
  simp only [h1.1, h1.2, h2.1, h2.2, takeZeros_isEmpty, decVal_dropZeros, (takeWhile_all isDigit p hp).1]

/-- the flags, width and precision Go's `fmt` sees for a valid printf token -/
theorem goFmt_eq (f : FmtSpec) (hv : f.valid = true) :
    goFmt f = { sharp := f.flags.contains 35, zero := f.width.head? == some 48, plus := f.flags.contains 43,
                minus := f.flags.contains 45, space := f.flags.contains 32,
                wid := if (f.width.dropWhile (· == 48)).isEmpty then none else some (decVal f.width),
                prec := f.prec.map decVal } := by
  simp only [FmtSpec.valid, Bool.and_eq_true, List.all_eq_true] at hv
  obtain ⟨⟨⟨⟨⟨_, hw⟩, hp⟩, _⟩, _⟩, _⟩ := hv
  unfold goFmt
  cases hpp : f.prec with
  | none => simp only [List.append_nil, Option.map_none]; exact parseFmt_noPrec _ _ hw
  | some p =>
    have hpd : ∀ x ∈ p, isDigit x = true := fun x hx => hp x (by simpa [hpp] using hx)
    simp only [Option.map_some]; exact parseFmt_prec _ _ _ hw hpd

/-! ### strings and characters -/

theorem spaces_zero (c : Nat) : spaces 0 c = [] := rfl

theorem fmtStr_eq (f : FmtSpec) (hv : f.valid = true) (a : Bytes) (hz : (f.width.head? == some 48) = false) :
    fmtStr (goFmt f) a = cFmtStr f a := by
  rw [goFmt_eq f hv]
  simp only [fmtStr, cFmtStr, pad, hz]
  by_cases hwn : (f.width.dropWhile (· == 48)).isEmpty = true
  · have hW := dropZeros_empty_decVal f.width hwn
    simp only [hwn, if_true, hW, Nat.zero_sub, spaces, List.replicate_zero, List.append_nil, List.nil_append]
    cases f.prec <;> simp
  · simp only [hwn]
    cases f.prec <;> cases f.flags.contains 45 <;> simp [spaces]

theorem fmtChar_eq (f : FmtSpec) (hv : f.valid = true) (a : Int) (hz : (f.width.head? == some 48) = false)
    (h0 : 0 ≤ a) (h1 : a < 128) :
    fmtChar (goFmt f) a = cFmtStr { f with prec := none } [(a % 256).toNat] := by
  rw [goFmt_eq f hv]
  have he : encodeRune a = [(a % 256).toNat] := by
    have h2 : a.toNat < 128 := by omega
    have h3 : (a % 256).toNat = a.toNat := by omega
    have hn1 : ¬ a < 0 := by omega
    have hn2 : ¬ a > 1114111 := by omega
    have hn3 : ¬ (55296 ≤ a ∧ a ≤ 57343) := by omega
    simp [encodeRune, hn1, hn2, hn3, h2, h3]
  simp only [fmtChar, cFmtStr, he, hz]
  by_cases hwn : (f.width.dropWhile (· == 48)).isEmpty = true
  · have hW := dropZeros_empty_decVal f.width hwn
    simp [hwn, hW, spaces]
  · simp only [hwn]
    by_cases hW : decVal f.width = 0
    · simp [hW, spaces]
    · cases f.flags.contains 45 <;> simp [spaces, hW]

/-! ### integers -/

def cDigits (cv : Conv) (mag : Nat) : Bytes :=
  match cv with
  | .o => baseDigits 8 false mag
  | .x => baseDigits 16 false mag
  | .X => baseDigits 16 true mag
  | _ => natDigits mag

def cPrefix (cv : Conv) (sharp plus space : Bool) (v : Int) (digits : Bytes) : Bytes :=
  match cv with
  | .d => if v < 0 then [45] else if plus then [43] else if space then [32] else []
  | .o => if sharp && digits.head? != some 48 then [48] else []
  | .x => if sharp && v.natAbs != 0 then [48, 120] else []
  | .X => if sharp && v.natAbs != 0 then [48, 88] else []
  | _ => []

/-- `cFmtInt` with the flags, width and precision as values -/
def cInt (sharp plus minus space zero : Bool) (W : Nat) (P : Option Nat) (cv : Conv) (v : Int) : Bytes :=
  let digits := if P == some 0 && v.natAbs == 0 then [] else cDigits cv v.natAbs
  let digits := spaces ((P.getD 0) - digits.length) 48 ++ digits
  let pre := cPrefix cv sharp plus space v digits
  let body := pre ++ digits
  if minus then body ++ spaces (W - body.length)
  else if zero && P.isNone then pre ++ spaces (W - body.length) 48 ++ digits
  else spaces (W - body.length) ++ body

theorem cFmtInt_eq (f : FmtSpec) (v : Int) :
    cFmtInt f v = cInt (f.flags.contains 35) (f.flags.contains 43) (f.flags.contains 45) (f.flags.contains 32)
      (f.width.head? == some 48) (decVal f.width) (f.prec.map decVal) f.conv v := by
  obtain ⟨c, fl, w, p, cv⟩ := f
  cases cv <;> rfl

theorem fmtInteger_wid0 (g : Fmt) (v : Int) (b : Nat) (u : Bool) (h : g.wid = none) :
    fmtInteger g v b u = fmtInteger { g with wid := some 0 } v b u := by
  simp only [fmtInteger, h, pad, Option.getD_none, Option.getD_some, Option.isSome_none, Option.isSome_some,
    Bool.and_false, Bool.and_true, Nat.zero_sub, spaces, List.replicate_zero, List.append_nil, List.nil_append]
  simp

theorem fmtInt_d (sharp plus minus space zero : Bool) (W : Nat) (P : Option Nat) (v : Int)
    (hs : ¬ (v = 0 ∧ P = some 0 ∧ (plus = true ∨ space = true))) :
    fmtInteger { sharp := sharp, zero := zero, plus := plus, minus := minus, space := space, wid := some W, prec := P }
      v 10 false = cInt sharp plus minus space zero W P .d v := by
  by_cases hblank : P = some 0 ∧ v.natAbs = 0
  · obtain ⟨hP, hv0⟩ := hblank
    have hv : v = 0 := by omega
    subst hv; subst hP
    have hp : plus = false := by cases plus <;> simp_all
    have hsp : space = false := by cases space <;> simp_all
    subst hp; subst hsp
    cases minus <;> cases zero <;> simp [fmtInteger, cInt, cDigits, cPrefix, spaces]
  · have hcond : (P == some 0 && v.natAbs == 0) = false := by
      cases hc : (P == some 0 && v.natAbs == 0) with
      | false => rfl
      | true =>
        simp only [Bool.and_eq_true, beq_iff_eq] at hc
        exact absurd hc hblank
    simp only [fmtInteger, cInt, cDigits, cPrefix, pad, hcond]
    cases P with
    | some p =>
      by_cases hneg : v < 0 <;> cases plus <;> cases space <;> cases minus <;> simp [hneg, spaces]
    | none =>
      cases minus with
      | true => by_cases hneg : v < 0 <;> cases plus <;> cases space <;> simp [hneg, spaces]
      | false =>
        cases zero with
        | false => by_cases hneg : v < 0 <;> cases plus <;> cases space <;> simp [hneg, spaces]
        | true =>
          by_cases hneg : v < 0 <;> cases plus <;> cases space <;> simp [hneg, spaces]
          all_goals
            generalize List.length (natDigits v.natAbs) = l
            first
              | omega
              | (rw [show W - (W - 1 - l + l + 1) = 0 by omega, show W - 1 - l = W - (l + 1) by omega]; rfl)

def convBase : Conv → Nat
  | .o => 8 | .x => 16 | .X => 16 | _ => 10
def convUpper : Conv → Bool
  | .X => true | _ => false

theorem fmtInt_oxX (cv : Conv) (hcv : cv = .o ∨ cv = .x ∨ cv = .X) (sharp minus zero : Bool) (W : Nat) (P : Option Nat)
    (v : Int) (h0 : 0 ≤ v) (hs : ¬ (sharp = true ∧ (v = 0 ∨ zero = true))) :
    fmtInteger { sharp := sharp, zero := zero, plus := false, minus := minus, space := false, wid := some W, prec := P }
      v (convBase cv) (convUpper cv) = cInt sharp false minus false zero W P cv v := by
  have hneg : ¬ v < 0 := by omega
  by_cases hblank : P = some 0 ∧ v.natAbs = 0
  · obtain ⟨hP, hv0⟩ := hblank
    have hv : v = 0 := by omega
    subst hv; subst hP
    have hsh : sharp = false := by cases sharp <;> simp_all
    subst hsh
    rcases hcv with rfl | rfl | rfl <;> cases minus <;> cases zero <;>
      simp [fmtInteger, cInt, cDigits, cPrefix, spaces, convBase, convUpper]
  · have hcond : (P == some 0 && v.natAbs == 0) = false := by
      cases hc : (P == some 0 && v.natAbs == 0) with
      | false => rfl
      | true =>
        simp only [Bool.and_eq_true, beq_iff_eq] at hc
        exact absurd hc hblank
    cases sharp with
    | false =>
      rcases hcv with rfl | rfl | rfl
      all_goals
        simp only [fmtInteger, cInt, cDigits, cPrefix, pad, hcond, convBase, convUpper]
        cases P with
        | some p => cases minus <;> simp [hneg, spaces]
        | none =>
          cases minus with
          | true => simp [hneg, spaces]
          | false =>
            cases zero with
            | false => simp [hneg, spaces]
            | true =>
              simp [hneg, spaces]
              try omega
    | true =>
      have hv0 : v.natAbs ≠ 0 := by
        intro h; apply hs; exact ⟨rfl, Or.inl (by omega)⟩
      have hz : zero = false := by cases zero <;> simp_all
      subst hz
      rcases hcv with rfl | rfl | rfl
      · cases P with
        | some p =>
          simp only [fmtInteger, cInt, cDigits, cPrefix, pad, hcond, convBase, convUpper, Option.getD_some,
            (by decide : (8 == 10) = false), (by decide : (8 == 8) = true), Bool.false_eq_true, if_false, if_true, hneg,
            Bool.true_and]
          generalize spaces (p - (baseDigits 8 false v.natAbs).length) 48 ++ baseDigits 8 false v.natAbs = D
          by_cases h : D.head? = some 48 <;> cases minus <;> simp [h, spaces]
        | none =>
          simp only [fmtInteger, cInt, cDigits, cPrefix, pad, hcond, convBase, convUpper, Option.getD_none,
            (by decide : (8 == 10) = false), (by decide : (8 == 8) = true), Bool.false_eq_true, if_false, if_true, hneg,
            Bool.true_and, Bool.false_and, Nat.zero_sub, spaces, List.replicate_zero, List.nil_append]
          generalize baseDigits 8 false v.natAbs = D
          by_cases h : D.head? = some 48 <;> cases minus <;> simp [h]
      all_goals
        simp only [fmtInteger, cInt, cDigits, cPrefix, pad, hcond, convBase, convUpper]
        cases P with
        | some p => cases minus <;> simp [hneg, spaces, hv0]
        | none => cases minus <;> simp [hneg, spaces, hv0]

theorem goInt_eq (f : FmtSpec) (hv : f.valid = true) (a : Int) (b : Nat) (u : Bool) :
    fmtInteger (goFmt f) a b u =
      fmtInteger { sharp := f.flags.contains 35, zero := f.width.head? == some 48, plus := f.flags.contains 43,
                   minus := f.flags.contains 45, space := f.flags.contains 32, wid := some (decVal f.width),
                   prec := f.prec.map decVal } a b u := by
  rw [goFmt_eq f hv]
  by_cases hwn : (f.width.dropWhile (· == 48)).isEmpty = true
  · have hW := dropZeros_empty_decVal f.width hwn
    simp only [hwn, if_true, hW]
    exact fmtInteger_wid0 _ a b u rfl
  · simp only [hwn]; rfl

/-- **formatter equivalence**: on every valid token, in every state where the reference specifies the result, the
machine's token meaning (Go `fmt`) is the reference meaning (C printf) -/
theorem semM_eq_sem (t : Tok) (hv : t.valid = true) (s : St) (hu : unspecified t s = false) : semM t s = sem t s := by
  cases t with
  | fmt f =>
    have hfv : f.valid = true := hv
    cases hc : f.conv with
    | s =>
      simp only [unspecified, hc, Bool.or_eq_false_iff] at hu
      simp only [semM, sem, hc, fmtEffect, Conv.byte]
      simp [fmtStr_eq f hfv _ hu.1]
    | c =>
      simp only [unspecified, hc, Bool.or_eq_false_iff, decide_eq_false_iff_not] at hu
      simp only [semM, sem, hc, fmtEffect, Conv.byte]
      have ha0 : 0 ≤ (popInt s.stk).1 := by omega
      have ha1 : (popInt s.stk).1 < 128 := by omega
      simp [fmtChar_eq f hfv _ hu.1.1 ha0 ha1, hc]
    | d =>
      simp only [unspecified, hc] at hu
      simp only [semM, sem, hc, fmtEffect, Conv.byte]
      have key : fmtInteger (goFmt f) (popInt s.stk).1 10 false = cFmtInt f (popInt s.stk).1 := by
        rw [goInt_eq f hfv, cFmtInt_eq, hc]
        apply fmtInt_d
        intro ⟨h1, h2, h3⟩
        rcases h3 with h3 | h3 <;> simp [h1, h2] at hu <;> simp at h3 <;> simp [h3] at hu
      simp [key]
    | o =>
      simp only [unspecified, hc, Bool.or_eq_false_iff, decide_eq_false_iff_not] at hu
      simp only [semM, sem, hc, fmtEffect, Conv.byte]
      have key : fmtInteger (goFmt f) (popInt s.stk).1 8 false = cFmtInt f (popInt s.stk).1 := by
        rw [goInt_eq f hfv, cFmtInt_eq, hc, hu.1.1.2, hu.1.2]
        apply fmtInt_oxX .o (Or.inl rfl) _ _ _ _ _ _ (by omega)
        intro ⟨h1, h2⟩
        have := hu.2
        rw [h1] at this
        rcases h2 with h2 | h2 <;> simp [h2] at this
      simp [key]
    | x =>
      simp only [unspecified, hc, Bool.or_eq_false_iff, decide_eq_false_iff_not] at hu
      simp only [semM, sem, hc, fmtEffect, Conv.byte]
      have key : fmtInteger (goFmt f) (popInt s.stk).1 16 false = cFmtInt f (popInt s.stk).1 := by
        rw [goInt_eq f hfv, cFmtInt_eq, hc, hu.1.1.2, hu.1.2]
        apply fmtInt_oxX .x (Or.inr (Or.inl rfl)) _ _ _ _ _ _ (by omega)
        intro ⟨h1, h2⟩
        have := hu.2
        rw [h1] at this
        rcases h2 with h2 | h2 <;> simp [h2] at this
      simp [key]
    | X =>
      simp only [unspecified, hc, Bool.or_eq_false_iff, decide_eq_false_iff_not] at hu
      simp only [semM, sem, hc, fmtEffect, Conv.byte]
      have key : fmtInteger (goFmt f) (popInt s.stk).1 16 true = cFmtInt f (popInt s.stk).1 := by
        rw [goInt_eq f hfv, cFmtInt_eq, hc, hu.1.1.2, hu.1.2]
        apply fmtInt_oxX .X (Or.inr (Or.inr rfl)) _ _ _ _ _ _ (by omega)
        intro ⟨h1, h2⟩
        have := hu.2
        rw [h1] at this
        rcases h2 with h2 | h2 <;> simp [h2] at this
      simp [key]
  | _ => rfl

/-! ### runs the reference calls specified -/

/-- the token meaning and the test of `Spec.Terminfo5.specified` (evaluation with a "still specified" flag) -/
def semP (t : Tok) (p : St × Bool) : St × Bool := (sem t p.1, p.2 && !unspecified t p.1)
def testP (p : St × Bool) : Bool × (St × Bool) := let r := test p.1; (r.1, (r.2, p.2))

theorem specified_eq (a : Prog) (params : List Value) (svars : Vars) :
    specified a params svars = (a.evalG semP testP ({ params := pad9 params, svars := svars }, true)).2 := rfl

section unfold
variable {σ : Type} (sm : Tok → σ → σ) (ts : σ → Bool × σ)
theorem evalG_fi (a b : Prog) (s : σ) : Chain.evalG sm ts (.fi a b) s =
    if (ts (a.evalG sm ts s)).1 = true then b.evalG sm ts (ts (a.evalG sm ts s)).2 else (ts (a.evalG sm ts s)).2 := by
  simp only [Chain.evalG]
theorem evalG_els (a b c : Prog) (s : σ) : Chain.evalG sm ts (.els a b c) s =
    if (ts (a.evalG sm ts s)).1 = true then b.evalG sm ts (ts (a.evalG sm ts s)).2
    else c.evalG sm ts (ts (a.evalG sm ts s)).2 := by
  simp only [Chain.evalG]
theorem evalG_elif (a b : Prog) (n : Chain) (s : σ) : Chain.evalG sm ts (.elif a b n) s =
    if (ts (a.evalG sm ts s)).1 = true then b.evalG sm ts (ts (a.evalG sm ts s)).2
    else n.evalG sm ts (ts (a.evalG sm ts s)).2 := by
  simp only [Chain.evalG]
end unfold

theorem testP_1 (q : St × Bool) : (testP q).1 = (test q.1).1 := rfl
theorem testP_21 (q : St × Bool) : (testP q).2.1 = (test q.1).2 := rfl
theorem testP_22 (q : St × Bool) : (testP q).2.2 = q.2 := rfl

mutual
theorem evalP_prog : ∀ (a : Prog) (p : St × Bool),
    (a.evalG semP testP p).1 = a.evalG sem test p.1 ∧ ((a.evalG semP testP p).2 = true → p.2 = true)
  | .nil, p => by simp [Prog.evalG]
  | .tok t r, p => by
    have ih := evalP_prog r (semP t p)
    simp only [Prog.evalG]
    refine ⟨ih.1, fun h => ?_⟩
    have := ih.2 h
    simp only [semP, Bool.and_eq_true] at this
    exact this.1
  | .cond c r, p => by
    have ihc := evalP_chain c p
    have ihr := evalP_prog r (c.evalG semP testP p)
    simp only [Prog.evalG]
    refine ⟨by rw [ihr.1, ihc.1], fun h => ihc.2 (ihr.2 h)⟩
theorem evalP_chain : ∀ (c : Chain) (p : St × Bool),
    (c.evalG semP testP p).1 = c.evalG sem test p.1 ∧ ((c.evalG semP testP p).2 = true → p.2 = true)
  | .fi a b, p => by
    have iha := evalP_prog a p
    have ihb := evalP_prog b (testP (a.evalG semP testP p)).2
    rw [testP_21, testP_22] at ihb
    rw [evalG_fi, evalG_fi, testP_1, ← iha.1]
    by_cases ht : (test (a.evalG semP testP p).1).1 = true
    · rw [if_pos ht, if_pos ht]; exact ⟨ihb.1, fun h => iha.2 (ihb.2 h)⟩
    · rw [if_neg ht, if_neg ht]; exact ⟨testP_21 _, fun h => iha.2 h⟩
  | .els a b c, p => by
    have iha := evalP_prog a p
    have ihb := evalP_prog b (testP (a.evalG semP testP p)).2
    have ihc := evalP_prog c (testP (a.evalG semP testP p)).2
    rw [testP_21, testP_22] at ihb ihc
    rw [evalG_els, evalG_els, testP_1, ← iha.1]
    by_cases ht : (test (a.evalG semP testP p).1).1 = true
    · rw [if_pos ht, if_pos ht]; exact ⟨ihb.1, fun h => iha.2 (ihb.2 h)⟩
    · rw [if_neg ht, if_neg ht]; exact ⟨ihc.1, fun h => iha.2 (ihc.2 h)⟩
  | .elif a b n, p => by
    have iha := evalP_prog a p
    have ihb := evalP_prog b (testP (a.evalG semP testP p)).2
    have ihn := evalP_chain n (testP (a.evalG semP testP p)).2
    rw [testP_21, testP_22] at ihb ihn
    rw [evalG_elif, evalG_elif, testP_1, ← iha.1]
    by_cases ht : (test (a.evalG semP testP p).1).1 = true
    · rw [if_pos ht, if_pos ht]; exact ⟨ihb.1, fun h => iha.2 (ihb.2 h)⟩
    · rw [if_neg ht, if_neg ht]; exact ⟨ihn.1, fun h => iha.2 (ihn.2 h)⟩
end

mutual
theorem evalM_prog : ∀ (a : Prog), a.valid = true → ∀ (p : St × Bool), (a.evalG semP testP p).2 = true →
    a.evalG semM test p.1 = a.evalG sem test p.1
  | .nil, _, _, _ => rfl
  | .tok t r, hv, p, h => by
    simp only [Prog.valid, Bool.and_eq_true] at hv
    simp only [Prog.evalG] at h ⊢
    have hp := (evalP_prog r (semP t p)).2 h
    simp only [semP, Bool.and_eq_true, Bool.not_eq_true'] at hp
    rw [semM_eq_sem t hv.1 p.1 hp.2]
    exact evalM_prog r hv.2 (semP t p) h
  | .cond c r, hv, p, h => by
    simp only [Prog.valid, Bool.and_eq_true] at hv
    simp only [Prog.evalG] at h ⊢
    have hc := (evalP_prog r (c.evalG semP testP p)).2 h
    rw [evalM_chain c hv.1 p hc, ← (evalP_chain c p).1]
    exact evalM_prog r hv.2 _ h
theorem evalM_chain : ∀ (c : Chain), c.valid = true → ∀ (p : St × Bool), (c.evalG semP testP p).2 = true →
    c.evalG semM test p.1 = c.evalG sem test p.1
  | .fi a b, hv, p, h => by
    simp only [Chain.valid, Bool.and_eq_true] at hv
    have iha := evalP_prog a p
    rw [evalG_fi, testP_1] at h
    rw [evalG_fi, evalG_fi]
    by_cases ht : (test (a.evalG semP testP p).1).1 = true
    · rw [if_pos ht] at h
      have hq : (a.evalG semP testP p).2 = true := by have := (evalP_prog b _).2 h; rwa [testP_22] at this
      have hb := evalM_prog b hv.2 _ h
      rw [testP_21] at hb
      rw [evalM_prog a hv.1 p hq, ← iha.1, if_pos ht, if_pos ht]
      exact hb
    · rw [if_neg ht] at h
      rw [testP_22] at h
      rw [evalM_prog a hv.1 p h, ← iha.1, if_neg ht, if_neg ht]
  | .els a b c, hv, p, h => by
    simp only [Chain.valid, Bool.and_eq_true] at hv
    have iha := evalP_prog a p
    rw [evalG_els, testP_1] at h
    rw [evalG_els, evalG_els]
    by_cases ht : (test (a.evalG semP testP p).1).1 = true
    · rw [if_pos ht] at h
      have hq : (a.evalG semP testP p).2 = true := by have := (evalP_prog b _).2 h; rwa [testP_22] at this
      have hb := evalM_prog b hv.1.2 _ h
      rw [testP_21] at hb
      rw [evalM_prog a hv.1.1 p hq, ← iha.1, if_pos ht, if_pos ht]
      exact hb
    · rw [if_neg ht] at h
      have hq : (a.evalG semP testP p).2 = true := by have := (evalP_prog c _).2 h; rwa [testP_22] at this
      have hb := evalM_prog c hv.2 _ h
      rw [testP_21] at hb
      rw [evalM_prog a hv.1.1 p hq, ← iha.1, if_neg ht, if_neg ht]
      exact hb
  | .elif a b n, hv, p, h => by
    simp only [Chain.valid, Bool.and_eq_true] at hv
    have iha := evalP_prog a p
    rw [evalG_elif, testP_1] at h
    rw [evalG_elif, evalG_elif]
    by_cases ht : (test (a.evalG semP testP p).1).1 = true
    · rw [if_pos ht] at h
      have hq : (a.evalG semP testP p).2 = true := by have := (evalP_prog b _).2 h; rwa [testP_22] at this
      have hb := evalM_prog b hv.1.2 _ h
      rw [testP_21] at hb
      rw [evalM_prog a hv.1.1 p hq, ← iha.1, if_pos ht, if_pos ht]
      exact hb
    · rw [if_neg ht] at h
      have hq : (a.evalG semP testP p).2 = true := by have := (evalP_chain n _).2 h; rwa [testP_22] at this
      have hb := evalM_chain n hv.2 _ h
      rw [testP_21] at hb
      rw [evalM_prog a hv.1.1 p hq, ← iha.1, if_neg ht, if_neg ht]
      exact hb
end

/-- on a run the reference calls specified, the machine's token meanings give the reference result -/
theorem evalG_semM_eq (a : Prog) (hv : a.valid = true) (params : List Value) (svars : Vars)
    (hs : specified a params svars = true) :
    a.evalG semM test { params := pad9 params, svars := svars } = eval a { params := pad9 params, svars := svars } :=
  evalM_prog a hv ({ params := pad9 params, svars := svars }, true) hs

/-- tokens other than printf formats: the reference specifies every run of a program made of them -/
def notFmt : Tok → Bool
  | .fmt _ => false
  | _ => true

theorem unspecified_notFmt (t : Tok) (hv : t.valid = true) (hn : notFmt t = true) (s : St) : unspecified t s = false := by
  cases t <;> simp_all [unspecified, notFmt, Tok.valid]

mutual
theorem specP_prog : ∀ (a : Prog), a.valid = true → a.all notFmt = true → ∀ (p : St × Bool), p.2 = true →
    (a.evalG semP testP p).2 = true
  | .nil, _, _, _, h => h
  | .tok t r, hv, hn, p, h => by
    simp only [Prog.valid, Bool.and_eq_true] at hv
    simp only [Prog.all, Bool.and_eq_true] at hn
    simp only [Prog.evalG]
    exact specP_prog r hv.2 hn.2 _ (by simp [semP, h, unspecified_notFmt t hv.1 hn.1])
  | .cond c r, hv, hn, p, h => by
    simp only [Prog.valid, Bool.and_eq_true] at hv
    simp only [Prog.all, Bool.and_eq_true] at hn
    simp only [Prog.evalG]
    exact specP_prog r hv.2 hn.2 _ (specP_chain c hv.1 hn.1 p h)
theorem specP_chain : ∀ (c : Chain), c.valid = true → c.all notFmt = true → ∀ (p : St × Bool), p.2 = true →
    (c.evalG semP testP p).2 = true
  | .fi a b, hv, hn, p, h => by
    simp only [Chain.valid, Bool.and_eq_true] at hv
    simp only [Chain.all, Bool.and_eq_true] at hn
    have ha := specP_prog a hv.1 hn.1 p h
    rw [evalG_fi]
    by_cases ht : (testP (a.evalG semP testP p)).1 = true
    · rw [if_pos ht]; exact specP_prog b hv.2 hn.2 _ ha
    · rw [if_neg ht]; exact ha
  | .els a b c, hv, hn, p, h => by
    simp only [Chain.valid, Bool.and_eq_true] at hv
    simp only [Chain.all, Bool.and_eq_true] at hn
    have ha := specP_prog a hv.1.1 hn.1.1 p h
    rw [evalG_els]
    by_cases ht : (testP (a.evalG semP testP p)).1 = true
    · rw [if_pos ht]; exact specP_prog b hv.1.2 hn.1.2 _ ha
    · rw [if_neg ht]; exact specP_prog c hv.2 hn.2 _ ha
  | .elif a b n, hv, hn, p, h => by
    simp only [Chain.valid, Bool.and_eq_true] at hv
    simp only [Chain.all, Bool.and_eq_true] at hn
    have ha := specP_prog a hv.1.1 hn.1.1 p h
    rw [evalG_elif]
    by_cases ht : (testP (a.evalG semP testP p)).1 = true
    · rw [if_pos ht]; exact specP_prog b hv.1.2 hn.1.2 _ ha
    · rw [if_neg ht]; exact specP_chain n hv.2 hn.2 _ ha
end

theorem specified_of_notFmt (a : Prog) (hv : a.valid = true) (hn : a.all notFmt = true) (params : List Value)
    (svars : Vars) : specified a params svars = true :=
  specP_prog a hv hn _ rfl

mutual
theorem Prog.all_imp (p q : Tok → Bool) (h : ∀ t, p t = true → q t = true) : ∀ (a : Prog), a.all p = true → a.all q = true
  | .nil, _ => rfl
  | .tok t r, ha => by
    simp only [Prog.all, Bool.and_eq_true] at ha ⊢
    exact ⟨h t ha.1, Prog.all_imp p q h r ha.2⟩
  | .cond c r, ha => by
    simp only [Prog.all, Bool.and_eq_true] at ha ⊢
    exact ⟨Chain.all_imp p q h c ha.1, Prog.all_imp p q h r ha.2⟩
theorem Chain.all_imp (p q : Tok → Bool) (h : ∀ t, p t = true → q t = true) : ∀ (c : Chain), c.all p = true → c.all q = true
  | .fi a b, ha => by
    simp only [Chain.all, Bool.and_eq_true] at ha ⊢
    exact ⟨Prog.all_imp p q h a ha.1, Prog.all_imp p q h b ha.2⟩
  | .els a b c, ha => by
    simp only [Chain.all, Bool.and_eq_true] at ha ⊢
    exact ⟨⟨Prog.all_imp p q h a ha.1.1, Prog.all_imp p q h b ha.1.2⟩, Prog.all_imp p q h c ha.2⟩
  | .elif a b n, ha => by
    simp only [Chain.all, Bool.and_eq_true] at ha ⊢
    exact ⟨⟨Prog.all_imp p q h a ha.1.1, Prog.all_imp p q h b ha.1.2⟩, Chain.all_imp p q h n ha.2⟩
end

theorem Prog.all_true (a : Prog) (q : Tok → Bool) (h : ∀ t, q t = true) : a.all q = true := by
  have : ∀ (a : Prog), a.all (fun _ => true) = true := by
    intro a
    exact (Prog.rec (motive_1 := fun a => a.all (fun _ => true) = true) (motive_2 := fun c => c.all (fun _ => true) = true)
      rfl (fun t r ih => by simp [Prog.all, ih]) (fun c r ihc ihr => by simp [Prog.all, ihc, ihr])
      (fun a b iha ihb => by simp [Chain.all, iha, ihb]) (fun a b c iha ihb ihc => by simp [Chain.all, iha, ihb, ihc])
      (fun a b n iha ihb ihn => by simp [Chain.all, iha, ihb, ihn]) a)
  exact Prog.all_imp (fun _ => true) q (fun t _ => h t) a (this a)

end Tcell.TParm
