import Tcell.Lemmas.TextTokens
import Tcell.Lemmas.KeyPrefixFree
import Tcell.Lemmas.SgrStrict
/-
C11: the individual parsers on text.  A character whose encoding obeys the codec laws (`CodecChar`) is a good token;
so are the bracketed-paste markers and the focus reports when the key table satisfies the decidable conditions
`keysAscii`, `pasteKeys`, `focusClear`.
-/
namespace Tcell.Lemmas.Text
open Tcell Tcell.Model Tcell.Lemmas.Collect Tcell.Lemmas.PrefixFree

/-! ### the codec laws, per character -/

/-- what `parseRune` needs from the decoder for the character with encoding `e.1` and rune `e.2` -/
structure CodecChar (dec : Bytes → DecResult) (e : Bytes × Int) : Prop where
  /-- the encoding starts with an 8-bit byte (7-bit bytes never reach the decoder, tscreen.go:1698-1713) -/
  high : ∃ b0 t, e.1 = b0 :: t ∧ 128 ≤ b0
  /-- at most four bytes (a non-empty proper prefix is too short to be a mouse report) -/
  bounded : e.1.length ≤ 4
  /-- the decoder, given exactly the encoding, produces the rune and consumes all of it -/
  full : dec e.1 = .out e.2 e.1.length
  /-- on every non-empty proper prefix the decoder produces nothing (`ErrShortSrc`, or no output) -/
  short : ∀ l, 0 < l → l < e.1.length → dec (e.1.take l) = .shortSrc ∨ dec (e.1.take l) = .nothing
  /-- the rune is not a C0 control / DEL (`NewEventKey` turns those into keys) and not U+FFFD (dropped) -/
  printable : 32 ≤ e.2 ∧ e.2 ≠ 127 ∧ e.2 ≠ runeError

/-- a character of a text: printable ASCII sent as itself, or a character obeying the codec laws -/
def TextChar (dec : Bytes → DecResult) (e : Bytes × Int) : Prop :=
  (∃ n : Nat, 32 ≤ n ∧ n ≤ 126 ∧ e = ([n], (n : Int))) ∨ CodecChar dec e

def charTok (e : Bytes × Int) : Tok := ⟨e.1, runeEvent e.2⟩

/-! ### small facts -/

theorem st_unescape (st : PState) (h : st.escaped = false) : { st with escaped := false } = st := by
  cases st; simp_all

theorem altOf_none (st : PState) (h : st.escaped = false) : altOf st = modNone := by simp [altOf, h]

theorem newEventKey_rune (c : Int) (h1 : 32 ≤ c) (h2 : c ≠ 127) : newEventKey keyRune c modNone = runeEvent c := by
  unfold newEventKey runeEvent
  have h : ¬ (c < 32 ∨ c = 127) := by omega
  simp [h]

theorem parsers_cons (cfg : Cfg) : ∃ ps, parsers cfg = parseRune cfg.dec :: parseFunctionKey cfg.keys :: parseFocus :: ps ∧
    ∀ p ∈ ps, p = parseXtermMouse cfg ∨ p = parseSgrMouse cfg ∨ p = parseClipboardV cfg.clipFixed := by
  unfold parsers
  cases cfg.mouse <;> cases cfg.clipboard <;> simp

theorem tryParsers_part (st : PState) (b : Bytes) (e : Bool) (p : PState → Bytes → Verdict)
    (ps : List (PState → Bytes → Verdict)) (n : Nat) (h : p st b = .part) :
    tryParsers st b e (p :: ps) n = tryParsers st b e ps (n + 1) := by
  simp [tryParsers, h]

theorem tryParsers_reject (st : PState) (b : Bytes) (e : Bool) (p : PState → Bytes → Verdict)
    (ps : List (PState → Bytes → Verdict)) (n : Nat) (h : p st b = .reject) :
    tryParsers st b e (p :: ps) n = tryParsers st b e ps n := by
  simp [tryParsers, h]

/-- all parsers silent, at least one partial (or one already counted): the scan waits for more input -/
theorem tryParsers_wait (st : PState) (b : Bytes) : ∀ (ps : List (PState → Bytes → Verdict)) (n : Nat),
    (∀ p ∈ ps, Silent (p st b)) → (0 < n ∨ ∃ p ∈ ps, p st b = .part) → tryParsers st b false ps n = .wait := by
  intro ps
  induction ps with
  | nil =>
    intro n _ h
    rcases h with h | ⟨p, hp, _⟩
    · have hn : n ≠ 0 := by omega
      simp [tryParsers, hn]
    · simp at hp
  | cons p ps ih =>
    intro n hs h
    rcases hs p (by simp) with hp | hp
    · rw [tryParsers_part _ _ _ _ _ _ hp]
      exact ih (n + 1) (fun q hq => hs q (by simp [hq])) (Or.inl (by omega))
    · rw [tryParsers_reject _ _ _ _ _ _ hp]
      refine ih n (fun q hq => hs q (by simp [hq])) ?_
      rcases h with h | ⟨q, hq, hqp⟩
      · exact Or.inl h
      · right
        rcases List.mem_cons.mp hq with e | hq'
        · subst e; rw [hp] at hqp; cases hqp
        · exact ⟨q, hq', hqp⟩

/-! ### the parsers after parseRune on a short buffer starting with an 8-bit byte -/

theorem hasPrefix_high (b0 : Nat) (t : Bytes) (s : Bytes) (c : Nat) (r : Bytes) (hs : s = c :: r) (hc : c < 128)
    (hb : 128 ≤ b0) : hasPrefix (b0 :: t) s = false := by
  subst hs
  have : Nat.beq b0 c = false := beq_false (by omega)
  simp [hasPrefix, this]

theorem keyMatches_high (T : KeyTable) (hk : keysAscii T = true) (b0 : Nat) (t : Bytes) (hb : 128 ≤ b0) :
    keyMatches T (b0 :: t) = [] := by
  unfold keyMatches
  rw [List.filter_eq_nil_iff]
  intro e he
  have := (List.all_eq_true.mp hk) e he
  cases hs : e.seq with
  | nil => rw [hs] at this; simp at this
  | cons c r =>
    rw [hs] at this
    have hc : c < 128 := blt_iff.mp this
    rw [← hs, hasPrefix_high b0 t e.seq c r hs hc hb]
    simp

theorem parseFocus_high (st : PState) (b0 : Nat) (t : Bytes) (hb : 128 ≤ b0) : parseFocus st (b0 :: t) = .reject := by
  have : b0 ≠ 27 := by omega
  simp [parseFocus, this]

theorem x11Body_short (cfg : Cfg) (st : PState) (n : Nat) (r : Bytes) (h : r.length ≤ 3) : Silent (x11Body cfg st n r) := by
  unfold x11Body Silent
  match r, h with
  | [], _ => simp
  | [m], _ => by_cases hm : m = 77 <;> simp [hm]
  | [m, a], _ => by_cases hm : m = 77 <;> simp [hm]
  | [m, a, b], _ => by_cases hm : m = 77 <;> simp [hm]
  | _ :: _ :: _ :: _ :: _, h => simp at h

theorem parseXtermMouse_high (cfg : Cfg) (st : PState) (b0 : Nat) (t : Bytes) (hb : 128 ≤ b0) (hl : t.length ≤ 3) :
    Silent (parseXtermMouse cfg st (b0 :: t)) := by
  have h27 : b0 ≠ 27 := by omega
  unfold parseXtermMouse
  simp only [h27, if_false]
  by_cases h9 : b0 = 0x9b
  · simp only [h9, if_true]; exact x11Body_short cfg st 1 t hl
  · simp only [h9, if_false]; exact Or.inr rfl

/-- progress of the SGR state machine: the start state counts as 1 because `0x9B` jumps from 0 to 2 -/
def sgrRank (s : SgrSt) : Nat := if s.state = 0 then 1 else s.state

theorem sgrStep_rank (s s' : SgrSt) (c : Nat) (h : sgrStep s c = .cont s') : sgrRank s' ≤ sgrRank s + 1 := by
  unfold sgrStep at h
  unfold sgrRank
  repeat' split at h
  all_goals (first | cases h | skip)
  all_goals (try (injection h with h; subst h))
  all_goals (simp_all <;> omega)

theorem sgrStep_fin (s : SgrSt) (c : Nat) (x y btn : Int) (rel : Bool) (h : sgrStep s c = .fin x y btn rel) :
    sgrRank s = 5 := by
  unfold sgrStep at h
  unfold sgrRank
  repeat' split at h
  all_goals (first | cases h | skip)
  all_goals (simp_all)

/-- a complete SGR report takes at least 6 − rank bytes: a buffer shorter than that is never completed -/
theorem sgrRun_short (cfg : Cfg) (st : PState) : ∀ (b : Bytes) (s : SgrSt) (i : Nat), sgrRank s + b.length ≤ 5 →
    Silent (sgrRun cfg st s b i) := by
  intro b
  induction b with
  | nil => intro s i _; exact Or.inl rfl
  | cons c rest ih =>
    intro s i h
    unfold sgrRun
    cases hs : sgrStepV cfg.sgrStrict s c with
    | rej => exact Or.inr rfl
    | cont s' =>
      have := sgrStep_rank s s' c (Tcell.Lemmas.SgrStrict.sgrStepV_cont _ s s' c hs)
      exact ih s' (i + 1) (by simp at h; omega)
    | fin x y btn rel =>
      have := sgrStep_fin s c x y btn rel (Tcell.Lemmas.SgrStrict.sgrStepV_fin _ s c x y btn rel hs)
      simp at h; omega

theorem parseSgrMouse_short (cfg : Cfg) (st : PState) (b : Bytes) (h : b.length ≤ 4) : Silent (parseSgrMouse cfg st b) := by
  unfold parseSgrMouse
  exact sgrRun_short cfg st b {} 0 (by simp [sgrRank]; omega)

theorem parseClipboard_high (st : PState) (b0 : Nat) (t : Bytes) (hb : 128 ≤ b0) (hl : t.length ≤ 3) :
    parseClipboard st (b0 :: t) = .reject := by
  unfold parseClipboard
  have h1 : (b0 :: t).length ≤ 7 := by simp; omega
  have h2 : Nat.beq 27 b0 = false := beq_false (by omega)
  rw [if_pos h1]
  simp [clipPrefix, hasPrefix, h2]

/-- both clipboard parsers (pinned and repaired) decide a buffer of at most seven bytes by comparing it with the OSC 52 prefix -/
theorem parseClipboardV_short (fixed : Bool) (st : PState) (b : Bytes) (h : b.length ≤ 7) :
    parseClipboardV fixed st b = if hasPrefix clipPrefix b then .part else .reject := by
  cases fixed <;> simp [parseClipboardV, parseClipboard, parseClipboardF, h]

theorem parseClipboardV_high (fixed : Bool) (st : PState) (b0 : Nat) (t : Bytes) (hb : 128 ≤ b0) (hl : t.length ≤ 3) :
    parseClipboardV fixed st (b0 :: t) = .reject := by
  rw [parseClipboardV_short fixed st _ (by simp; omega)]
  have h2 : Nat.beq 27 b0 = false := beq_false (by omega)
  simp [clipPrefix, hasPrefix, h2]

/-- every parser after `parseRune` is silent on a buffer of at most four bytes that starts with an 8-bit byte -/
theorem later_parsers_silent_high (cfg : Cfg) (hk : keysAscii cfg.keys = true) (st : PState) (b0 : Nat) (t : Bytes)
    (hb : 128 ≤ b0) (hl : t.length ≤ 3) (ps : List (PState → Bytes → Verdict))
    (hps : ∀ p ∈ ps, p = parseXtermMouse cfg ∨ p = parseSgrMouse cfg ∨ p = parseClipboardV cfg.clipFixed) :
    ∀ p ∈ parseFunctionKey cfg.keys :: parseFocus :: ps, Silent (p st (b0 :: t)) := by
  intro p hp
  rcases List.mem_cons.mp hp with e | hp
  · subst e; exact parseFunctionKey_silent _ _ _ (keyMatches_high _ hk b0 t hb)
  rcases List.mem_cons.mp hp with e | hp
  · subst e; exact Or.inr (parseFocus_high st b0 t hb)
  rcases hps p hp with e | e | e
  · subst e; exact parseXtermMouse_high cfg st b0 t hb hl
  · subst e; exact parseSgrMouse_short cfg st _ (by simp; omega)
  · subst e; exact Or.inr (parseClipboardV_high _ st b0 t hb hl)

/-! ### parseRune on a character -/

/-- the loop passes over prefixes on which the decoder is silent -/
theorem runeLoop_part (dec : Bytes → DecResult) (st : PState) (b : Bytes) : ∀ (fuel l : Nat),
    (∀ l', l ≤ l' → l' < l + fuel → dec (b.take l') = .shortSrc ∨ dec (b.take l') = .nothing) →
    runeLoop dec st b fuel l = .part := by
  intro fuel
  induction fuel with
  | zero => intro l _; rfl
  | succ f ih =>
    intro l h
    unfold runeLoop
    have hl := h l (Nat.le_refl _) (by omega)
    have hrec := ih (l + 1) (fun l' h1 h2 => h l' (by omega) (by omega))
    rcases hl with hl | hl <;> simp only [hl] <;> exact hrec

/-- the loop stops at the first prefix length `n` at which the decoder yields a rune -/
theorem runeLoop_hit (dec : Bytes → DecResult) (st : PState) (b : Bytes) (n : Nat) (r : Int) (nIn : Nat)
    (hout : dec (b.take n) = .out r nIn) (hr : r ≠ runeError) : ∀ (k fuel l : Nat), l + k = n → k < fuel →
    (∀ l', l ≤ l' → l' < n → dec (b.take l') = .shortSrc ∨ dec (b.take l') = .nothing) →
    runeLoop dec st b fuel l = .complete nIn [newEventKey keyRune r (altOf st)] { st with escaped := false } := by
  intro k
  induction k with
  | zero =>
    intro fuel l hl hf _
    cases fuel with
    | zero => omega
    | succ f =>
      have : l = n := by omega
      subst this
      unfold runeLoop
      simp only [hout]
      simp [hr]
  | succ k ih =>
    intro fuel l hl hf hs
    cases fuel with
    | zero => omega
    | succ f =>
      unfold runeLoop
      have h1 := hs l (Nat.le_refl _) (by omega)
      have hrec := ih f (l + 1) (by omega) (by omega) (fun l' h1 h2 => hs l' (by omega) h2)
      rcases h1 with h1 | h1 <;> simp only [h1] <;> exact hrec

theorem parseRune_ascii (dec : Bytes → DecResult) (st : PState) (hs : st.escaped = false) (n : Nat) (t : Bytes)
    (h1 : 32 ≤ n) (h2 : n ≤ 126) : parseRune dec st (n :: t) = .complete 1 [runeEvent (n : Int)] st := by
  unfold parseRune
  have : 32 ≤ n ∧ n ≤ 127 := by omega
  simp only [this, and_self, if_true]
  rw [altOf_none st hs, st_unescape st hs, newEventKey_rune _ (by omega) (by omega)]

theorem parseRune_codec (dec : Bytes → DecResult) (st : PState) (hs : st.escaped = false) (e : Bytes × Int)
    (hc : CodecChar dec e) (t : Bytes) : parseRune dec st (e.1 ++ t) = .complete e.1.length [runeEvent e.2] st := by
  obtain ⟨b0, t0, he, hb⟩ := hc.high
  unfold parseRune
  rw [he, List.cons_append]
  have h1 : ¬ (32 ≤ b0 ∧ b0 ≤ 127) := by omega
  have h2 : ¬ b0 < 128 := by omega
  simp only [h1, h2, if_false]
  rw [← List.cons_append, ← he]
  have htake : ∀ l, l ≤ e.1.length → (e.1 ++ t).take l = e.1.take l := by
    intro l hl
    rw [List.take_append_of_le_length hl]
  have hfull : dec ((e.1 ++ t).take e.1.length) = .out e.2 e.1.length := by
    rw [htake _ (Nat.le_refl _), List.take_length]; exact hc.full
  have hlen : 0 < e.1.length := by rw [he]; simp
  have := runeLoop_hit dec st (e.1 ++ t) e.1.length e.2 e.1.length hfull hc.printable.2.2 (e.1.length - 1)
    (e.1 ++ t).length 1 (by omega) (by simp; omega)
    (fun l' h1 h2 => by rw [htake l' (by omega)]; exact hc.short l' (by omega) h2)
  rw [this, altOf_none st hs, st_unescape st hs, newEventKey_rune _ hc.printable.1 hc.printable.2.1]

theorem parseRune_codec_prefix (dec : Bytes → DecResult) (st : PState) (e : Bytes × Int) (hc : CodecChar dec e)
    (l : Nat) (h0 : 0 < l) (hl : l < e.1.length) : parseRune dec st (e.1.take l) = .part := by
  obtain ⟨b0, t0, he, hb⟩ := hc.high
  unfold parseRune
  have hcons : e.1.take l = b0 :: t0.take (l - 1) := by
    rw [he]; cases l with
    | zero => omega
    | succ l' => simp
  rw [hcons]
  have h1 : ¬ (32 ≤ b0 ∧ b0 ≤ 127) := by omega
  have h2 : ¬ b0 < 128 := by omega
  simp only [h1, h2, if_false]
  rw [← hcons]
  apply runeLoop_part
  intro l' h1' h2'
  have hlen : (e.1.take l).length = l := by simp; omega
  rw [hlen] at h2'
  rw [List.take_take]
  have : min l' l = l' := by omega
  rw [this]
  exact hc.short l' (by omega) (by omega)

/-! ### a text character is a good token -/

theorem charTok_good (cfg : Cfg) (hk : keysAscii cfg.keys = true) (st : PState) (hs : st.escaped = false)
    (e : Bytes × Int) (he : TextChar cfg.dec e) : GoodTok cfg st (charTok e) := by
  obtain ⟨ps, hps, hmem⟩ := parsers_cons cfg
  rcases he with ⟨n, h1, h2, rfl⟩ | hc
  · refine ⟨by simp [charTok], ?_, ?_⟩
    · intro t
      unfold step1
      rw [hps]
      have := parseRune_ascii cfg.dec st hs n t h1 h2
      simp only [charTok, List.cons_append, List.nil_append]
      rw [tryParsers_hit st (n :: t) false _ _ 1 _ st this]
      simp
    · intro l h0 hl
      simp [charTok] at hl
      omega
  · obtain ⟨b0, t0, he0, hb⟩ := hc.high
    refine ⟨by simp [charTok, he0], ?_, ?_⟩
    · intro t
      unfold step1
      rw [hps]
      have := parseRune_codec cfg.dec st hs e hc t
      simp only [charTok]
      rw [tryParsers_hit st (e.1 ++ t) false _ _ e.1.length _ st this]
      simp
    · intro l h0 hl
      simp only [charTok] at hl ⊢
      have hpart := parseRune_codec_prefix cfg.dec st e hc l h0 hl
      have hcons : e.1.take l = b0 :: t0.take (l - 1) := by
        rw [he0]; cases l with
        | zero => omega
        | succ l' => simp
      have hb4 := hc.bounded
      have hlen : (t0.take (l - 1)).length ≤ 3 := by
        rw [he0] at hl hb4; simp at hl hb4 ⊢; omega
      unfold step1
      rw [hps]
      rw [tryParsers_part _ _ _ _ _ _ hpart]
      apply tryParsers_wait
      · rw [hcons]; exact later_parsers_silent_high cfg hk st b0 _ hb hlen ps hmem
      · exact Or.inl (by omega)

end Tcell.Lemmas.Text
