/-
Layer B of C01/C13/C09, part 2: emulator-side lemmas that do not depend on the terminal description — what a
cell payload (UTF-8 of a base glyph followed by combining marks) does to the reference emulator in *any* grid
context (halves of wide glyphs around the cursor included), in closed form, cell by cell.
-/
import Tcell.Spec.Ecma48Lemmas
import Tcell.Base.Utf8
namespace Tcell.LayerB
open Tcell Tcell.Spec.Ecma48 Tcell.Spec.Ecma48.Term

/-- static part of the simulation invariant: parser in the ground state, UTF-8 mode, primary font, no alternate
    character set invoked, replace mode, no complaint so far, the library's width table -/
structure Good (rw : Int → Int) (t : Term) : Prop where
  st : t.st = .ground
  utf8 : t.cfg.utf8 = true
  font : t.modes.altFont = 0
  g0 : t.modes.acsG0 = false
  so : t.modes.shiftOut = false
  irm : t.modes.insertMode = false
  mal : t.malformed = []
  rw : t.cfg.rw = rw

/-- requirements on the rune-width function beyond `RwOk`: printable ASCII is narrow; a rune with a non-zero
    width is a Unicode scalar value that is not DEL or a C1 control.  (`Props.C01B.rwClip_ok`: the regenerated
    go-runewidth table, restricted to Go's `rune` range, satisfies them.) -/
structure RwB (rw : Int → Int) : Prop where
  ascii : ∀ b : Int, 32 ≤ b → b < 127 → rw b = 1
  scalar : ∀ r, rw r ≠ 0 → Utf8.validRune r = true ∧ ¬ (127 ≤ r ∧ r ≤ 159)
  nonneg : ∀ r, 0 ≤ rw r
  le2 : ∀ r, rw r ≤ 2

/-- a combining rune the property admits: zero width, a scalar value, not a control -/
def CombOk (rw : Int → Int) (c : Int) : Prop := rw c = 0 ∧ Utf8.validRune c = true ∧ 160 ≤ c

theorem acs_off {rw} {t : Term} (g : Good rw t) : acsActive t.modes = false := by
  simp [acsActive, g.so, g.g0]

/-! ## grid: closed form of `clobber` -/

theorem get_cont_inrange (g : Grid) (x y : Nat) (h : (g.get x y).cont = true) : x < g.w ∧ y < g.h := by
  by_cases hin : x < g.w ∧ y < g.h
  · exact hin
  · rw [Grid.get_out g x y hin] at h; simp at h

theorem get_clobber (g : Grid) (s x y i j : Nat) :
    (g.clobber s x y).get i j =
      if j = y ∧ i + 1 = x ∧ (g.get x y).cont = true then Grid.halfBlank (g.get i j) s
      else if j = y ∧ i = x + 1 ∧ (g.get (x + 1) y).cont = true then Grid.halfBlank (g.get i j) s
      else g.get i j := by
  unfold Grid.clobber
  by_cases h0 : (g.get x y).cont = true ∧ 0 < x
  · have hr := get_cont_inrange g x y h0.1
    have e1 : (g.set (x - 1) y (Grid.halfBlank (g.get (x - 1) y) s)).get (x + 1) y = g.get (x + 1) y :=
      Grid.get_set_other _ _ _ _ _ _ (by omega)
    simp only [h0, and_self, if_true, e1]
    by_cases h1 : (g.get (x + 1) y).cont = true
    · have hr1 := get_cont_inrange g (x + 1) y h1
      simp only [h1, if_true, Grid.get_set, Grid.set_w, Grid.set_h]
      by_cases c1 : j = y ∧ i + 1 = x
      · obtain ⟨rfl, rfl⟩ := c1
        have : ¬ (i = i + 1 + 1) := by omega
        simp [this, hr.2]; omega
      · by_cases c2 : j = y ∧ i = x + 1
        · obtain ⟨rfl, rfl⟩ := c2
          have a1 : ¬ (x + 1 + 1 = x) := by omega
          have a2 : ¬ (x + 1 = x - 1) := by omega
          simp [a1, a2, hr1.1, hr1.2]
        · have a1 : ¬ (i = x + 1 ∧ j = y ∧ x + 1 < g.w ∧ y < g.h) := fun h => c2 ⟨h.2.1, h.1⟩
          have a2 : ¬ (i = x - 1 ∧ j = y ∧ x - 1 < g.w ∧ y < g.h) := fun h => c1 ⟨h.2.1, by omega⟩
          have a3 : ¬ (j = y ∧ i + 1 = x ∧ True) := fun h => c1 ⟨h.1, h.2.1⟩
          have a4 : ¬ (j = y ∧ i = x + 1 ∧ True) := fun h => c2 ⟨h.1, h.2.1⟩
          simp only [a1, a2, if_false]
          rw [if_neg (fun h => c1 ⟨h.1, h.2.1⟩), if_neg (fun h => c2 ⟨h.1, h.2.1⟩)]
    · simp only [h1, Bool.false_eq_true, if_false, and_false, Grid.get_set]
      by_cases c1 : j = y ∧ i + 1 = x
      · obtain ⟨rfl, rfl⟩ := c1
        simp [hr.2]; omega
      · have a2 : ¬ (i = x - 1 ∧ j = y ∧ x - 1 < g.w ∧ y < g.h) := fun h => c1 ⟨h.2.1, by omega⟩
        simp only [a2, if_false]
        rw [if_neg (fun h => c1 ⟨h.1, h.2.1⟩)]
  · have h0' : ¬ (j = y ∧ i + 1 = x ∧ (g.get x y).cont = true) := fun h => h0 ⟨h.2.2, by omega⟩
    simp only [h0, if_false]
    rw [if_neg h0']
    by_cases h1 : (g.get (x + 1) y).cont = true
    · have hr1 := get_cont_inrange g (x + 1) y h1
      simp only [h1, if_true, Grid.get_set, and_true]
      by_cases c2 : j = y ∧ i = x + 1
      · obtain ⟨rfl, rfl⟩ := c2; simp [hr1.1, hr1.2]
      · have a1 : ¬ (i = x + 1 ∧ j = y ∧ x + 1 < g.w ∧ y < g.h) := fun h => c2 ⟨h.2.1, h.1⟩
        simp only [a1, if_false]; rw [if_neg c2]
    · simp only [h1, Bool.false_eq_true, if_false, and_false]

@[simp] theorem clobber_w (g : Grid) (s x y : Nat) : (g.clobber s x y).w = g.w := by
  unfold Grid.clobber; simp only; split <;> split <;> simp
@[simp] theorem clobber_h (g : Grid) (s x y : Nat) : (g.clobber s x y).h = g.h := by
  unfold Grid.clobber; simp only; split <;> split <;> simp

/-! ## what printing leaves alone -/

/-- everything but the grid contents, the cursor and `last` is the same -/
structure Same (t t' : Term) : Prop where
  st : t'.st = t.st
  cfg : t'.cfg = t.cfg
  modes : t'.modes = t.modes
  pen : t'.pen = t.pen
  penKnown : t'.penKnown = t.penKnown
  linkKnown : t'.linkKnown = t.linkKnown
  cursorKnown : t'.cursorKnown = t.cursorKnown
  mal : t'.malformed = t.malformed
  blocks : t'.blocks = t.blocks
  w : t'.grid.w = t.grid.w
  h : t'.grid.h = t.grid.h

theorem Same.refl (t : Term) : Same t t := ⟨rfl, rfl, rfl, rfl, rfl, rfl, rfl, rfl, rfl, rfl, rfl⟩
theorem Same.trans {a b c : Term} (h1 : Same a b) (h2 : Same b c) : Same a c :=
  ⟨h2.st.trans h1.st, h2.cfg.trans h1.cfg, h2.modes.trans h1.modes, h2.pen.trans h1.pen, h2.penKnown.trans h1.penKnown,
   h2.linkKnown.trans h1.linkKnown, h2.cursorKnown.trans h1.cursorKnown, h2.mal.trans h1.mal, h2.blocks.trans h1.blocks,
   h2.w.trans h1.w, h2.h.trans h1.h⟩

theorem Good.of_same {rw} {t t' : Term} (g : Good rw t) (s : Same t t') : Good rw t' :=
  { st := s.st.trans g.st, utf8 := by rw [s.cfg]; exact g.utf8, font := by rw [s.modes]; exact g.font,
    g0 := by rw [s.modes]; exact g.g0, so := by rw [s.modes]; exact g.so, irm := by rw [s.modes]; exact g.irm,
    mal := s.mal.trans g.mal, rw := by rw [s.cfg]; exact g.rw }

/-! ## one glyph -/

theorem encodeNat_hi (n : Nat) (h : 0x80 ≤ n) : Utf8.encodeNat n = utf8Enc n := by
  unfold Utf8.encodeNat utf8Enc
  have : ¬ n < 0x80 := by omega
  simp [this]

theorem widthOf_eq {rw} {t : Term} (g : Good rw t) (cp : Int) :
    t.widthOf cp = if rw cp ≤ 0 then 0 else if rw cp = 1 then 1 else 2 := by
  simp [widthOf, g.utf8, g.rw]

/-- the UTF-8 bytes of a printable scalar value print that glyph with its table width -/
theorem feed_encode {rw} {t : Term} (g : Good rw t) (m : Int) (hv : Utf8.validRune m = true) (h32 : 32 ≤ m)
    (hc : ¬ (127 ≤ m ∧ m ≤ 159)) : t.feed (Utf8.encode m) = t.putGlyph m (t.widthOf m) := by
  simp only [Utf8.validRune, Bool.and_eq_true, decide_eq_true_eq, Bool.not_eq_true', decide_eq_false_iff_not] at hv
  have hm : m = ((m.toNat : Nat) : Int) := by omega
  unfold Utf8.encode
  rw [if_pos (by simp [Utf8.validRune]; omega)]
  generalize m.toNat = n at hm
  subst hm
  by_cases hlo : n < 0x80
  · have e : Utf8.encodeNat n = [n] := by simp [Utf8.encodeNat, hlo]
    have h1 : ¬ n < 0x20 := by omega
    have h2 : n ≠ 0x7f := by omega
    rw [e]
    simp [feedByte, g.st, feedGround, h1, h2, hlo, printByte, g.font, acs_off g]
  · rw [encodeNat_hi n (by omega), feed_utf8Enc t g.st g.utf8 n (by omega) (by omega) (by omega)]
    have : ¬ n < 0xA0 := by omega
    simp [printCp, this]

/-- closed form of printing a narrow glyph with the cursor known and no wrap pending -/
theorem putNarrow_eq {rw} {t : Term} (g : Good rw t) (cp : Int) (hk : t.cursorKnown = true) (hpw : t.pendingWrap = false) :
    t.putNarrow cp =
      { t with
        grid := (t.grid.clobber t.blocks t.cx t.cy).set t.cx t.cy (t.glyphCell cp)
        cx := if t.cx + 1 < t.grid.w then t.cx + 1 else t.cx
        pendingWrap := if t.cx + 1 < t.grid.w then false else t.modes.autoMargin
        last := some (t.cx, t.cy, (if t.cx + 1 < t.grid.w then t.cx + 1 else t.cx), t.cy,
                      (if t.cx + 1 < t.grid.w then false else t.modes.autoMargin)) } := by
  by_cases hx : t.cx + 1 < t.grid.w
  · simp [putNarrow, hk, doWrap, hpw, g.irm, putNarrowAt, hx]
  · simp [putNarrow, hk, doWrap, hpw, g.irm, putNarrowAt, hx]

/-- closed form of printing a wide glyph that fits, cursor known, no wrap pending -/
theorem putWide_eq {rw} {t : Term} (g : Good rw t) (cp : Int) (hk : t.cursorKnown = true) (hpw : t.pendingWrap = false)
    (hfit : t.cx + 2 ≤ t.grid.w) :
    t.putWide cp =
      { t with
        grid := (((t.grid.clobber t.blocks t.cx t.cy).set t.cx t.cy (t.glyphCell cp)).clobber t.blocks (t.cx + 1) t.cy).set
                  (t.cx + 1) t.cy { t.glyphCell cp with runes := [], cont := true }
        cx := if t.cx + 2 < t.grid.w then t.cx + 2 else t.cx + 1
        pendingWrap := if t.cx + 2 < t.grid.w then false else t.modes.autoMargin
        last := some (t.cx, t.cy, (if t.cx + 2 < t.grid.w then t.cx + 2 else t.cx + 1), t.cy,
                      (if t.cx + 2 < t.grid.w then false else t.modes.autoMargin)) } := by
  have hfit' : ¬ t.grid.w < t.cx + 2 := by omega
  by_cases hx : t.cx + 2 < t.grid.w
  · simp [putWide, hk, doWrap, hpw, g.irm, w, hfit', putWideAt, hx]
  · simp [putWide, hk, doWrap, hpw, g.irm, w, hfit', putWideAt, hx]

/-! ## combining marks after a glyph -/

theorem addMark_same (t : Term) (x y : Nat) (cp : Int) : Same t (t.addMark x y cp) := by
  refine ⟨rfl, rfl, rfl, rfl, rfl, rfl, rfl, rfl, rfl, ?_, ?_⟩ <;> simp [addMark]

/-- the marks of a cell payload all join the cell of the glyph printed just before them -/
theorem feed_marks {rw} (hrw : RwB rw) (x y : Nat) : ∀ (comb : List Int) (t : Term), Good rw t → t.cursorKnown = true →
    t.last = some (x, y, t.cx, t.cy, t.pendingWrap) → x < t.grid.w → y < t.grid.h → (t.grid.get x y).runes ≠ [] →
    (∀ c ∈ comb, CombOk rw c) →
    let t' := t.feed (comb.flatMap Utf8.encode)
    Same t t' ∧ t'.cx = t.cx ∧ t'.cy = t.cy ∧ t'.pendingWrap = t.pendingWrap ∧
    (∀ i j, ¬ (i = x ∧ j = y) → t'.grid.get i j = t.grid.get i j) ∧
    (t'.grid.get x y).runes = (t.grid.get x y).runes ++ comb ∧ (t'.grid.get x y).pen = (t.grid.get x y).pen ∧
    (t'.grid.get x y).cont = (t.grid.get x y).cont ∧ (t'.grid.get x y).garbage = (t.grid.get x y).garbage := by
  intro comb
  induction comb with
  | nil => intro t _ _ _ _ _ _ _; simp [Same.refl]
  | cons c cs ih =>
    intro t g hk hl hx hy hne hc
    have hcc := hc c (by simp)
    have e1 : t.feed (Utf8.encode c) = t.addMark x y c := by
      rw [feed_encode g c hcc.2.1 (by have := hcc.2.2; omega) (by have := hcc.2.2; omega), widthOf_eq g, hcc.1]
      simp [putGlyph, putCombining, hk, hl]
    simp only [List.flatMap_cons]
    rw [← feed_append, e1]
    have s1 := addMark_same t x y c
    have g1 := g.of_same s1
    have hget : ∀ i j, (t.addMark x y c).grid.get i j =
        if i = x ∧ j = y then { t.grid.get x y with runes := (t.grid.get x y).runes ++ [c], stamp := t.blocks } else t.grid.get i j := by
      intro i j
      have hne' : (t.grid.get x y).runes.isEmpty = false := by
        cases h : (t.grid.get x y).runes with
        | nil => exact absurd h hne
        | cons _ _ => rfl
      simp only [addMark, hne', Bool.false_eq_true, if_false, Grid.get_set]
      by_cases hij : i = x ∧ j = y
      · simp [hij, hx, hy]
      · have : ¬ (i = x ∧ j = y ∧ x < t.grid.w ∧ y < t.grid.h) := fun h => hij ⟨h.1, h.2.1⟩
        simp [hij, this]
    have r := ih (t.addMark x y c) g1 (by simpa [addMark] using hk) (by simpa [addMark] using hl)
      (by rw [s1.w]; exact hx) (by rw [s1.h]; exact hy) (by rw [hget]; simp) (fun c' h' => hc c' (by simp [h']))
    obtain ⟨r1, r2, r3, r4, r5, r6, r7, r8, r9⟩ := r
    refine ⟨s1.trans r1, by rw [r2]; simp [addMark], by rw [r3]; simp [addMark], by rw [r4]; simp [addMark], ?_, ?_, ?_, ?_, ?_⟩
    · intro i j hij; rw [r5 i j hij, hget, if_neg hij]
    · rw [r6, hget]; simp
    · rw [r7, hget]; simp
    · rw [r8, hget]; simp
    · rw [r9, hget]; simp

end Tcell.LayerB
