/-
Layer B of C04, part 3: the simulation between the reference emulator's mode registers (`MR`) and Layer A's abstract
register file (`ModesA.Regs`).

* `absOf : MR → Regs` (the emulator's registers read as Layer-A registers; SGR state / hyperlink are NOT transported:
  `penSet` and `link` are erased on both sides, `eraseP`),
* `capEffD ad sel k` — the effect (as data) Layer A's meaning of capability `k` corresponds to on the emulator,
  `cap_abs`: `absOf ∘ (capEffD ad sel k).apply = evEffect ad (.put k) ∘ absOf` (modulo `eraseP`, under the invariant `J`
  that the keypad-related private modes the description never switches stay off),
* `Known rc ad sel` — the DECIDABLE class of descriptions: every fixed string the mode path can write tokenizes
  (`effOfBytes`) with exactly the effect `capEffD` (kernel evaluation per entry in `Props/C04B.lean`),
* `EvSim` / `evs_sim`: per-event simulation composed over ANY list of events with `feed_append`.
-/
import Tcell.Lemmas.ModesBSeq
import Tcell.Lemmas.ModesInv
import Tcell.Lemmas.LayerBCaps
namespace Tcell.ModesB
open Tcell Tcell.Modes Tcell.ModesA Tcell.Spec.Ecma48 Tcell.Spec.Ecma48.Term

/-- a title as Layer A sees it: its code points (equal to its bytes for the ASCII titles of `PlainTitle`) -/
def cps (s : String) : Bytes := s.toList.map Char.toNat

theorem map_toNat_inj : ∀ (a b : List Char), a.map Char.toNat = b.map Char.toNat → a = b
  | [], [], _ => rfl
  | [], _ :: _, h => by simp at h
  | _ :: _, [], h => by simp at h
  | x :: xs, y :: ys, h => by
    simp only [List.map_cons, List.cons.injEq] at h
    rw [Char.toNat_inj.mp h.1, map_toNat_inj xs ys h.2]

theorem cps_inj {s s' : String} (h : cps s = cps s') : s = s' :=
  String.toList_inj.mp (map_toNat_inj _ _ h)

def absOf (m : MR) : Regs :=
  { alt := m.alt, cv := m.cv, shape := m.shape, tinted := m.color.isSome || !m.colorName.isEmpty, penSet := false, link := false,
    keypad := m.kpApp || m.ckApp || m.smooth, m1000 := m.m1000, m1002 := m.m1002, m1003 := m.m1003, m1006 := m.m1006,
    paste := m.paste, focus := m.focus, am := m.am, title := cps m.title, tstack := m.tstack.map cps }

/-- forget the two registers Layer B does not transport -/
def eraseP (r : Regs) : Regs := { r with penSet := false, link := false }

theorem eraseP_evEffect (ad : AD) (e : Ev) (r : Regs) : eraseP (evEffect ad e (eraseP r)) = eraseP (evEffect ad e r) := rfl

/-- which of the three keypad-related modes the description's smkx / rmkx switch -/
structure Sel where
  kp : Bool
  ck : Bool
  ss : Bool
deriving DecidableEq, Repr

def Sel.any (s : Sel) : Bool := s.kp || s.ck || s.ss

/-- the keypad-related modes the description never touches are off -/
def J (sel : Sel) (m : MR) : Prop :=
  (sel.kp = false → m.kpApp = false) ∧ (sel.ck = false → m.ckApp = false) ∧ (sel.ss = false → m.smooth = false)

def kpEff (sel : Sel) (on : Bool) : Eff :=
  { kp := if sel.kp then some on else none, ck := if sel.ck then some on else none, ss := if sel.ss then some on else none }

/-- the emulator-side effect that Layer A's meaning of a capability amounts to -/
def capEffD (ad : AD) (sel : Sel) : Cap → Eff
  | .mouseOff => { m1000 := some false, m1002 := some false, m1003 := some false, m1006 := some false }
  | .mouseOn n =>
    if n = 1000 then { m1000 := some true } else if n = 1002 then { m1002 := some true }
    else if n = 1003 then { m1003 := some true } else if n = 1006 then { m1006 := some true } else {}
  | .pasteOn => { paste := some true }
  | .pasteOff => { paste := some false }
  | .focusOn => { focus := some true }
  | .focusOff => { focus := some false }
  | .enterCA => if ad.enterCA then { alt := some true, ttl := if ad.caTitle then [.push] else [] } else {}
  | .exitCA => if ad.exitCA then { alt := some false, ttl := if ad.caTitle then [.pop] else [] } else {}
  | .saveTitle => { ttl := [.push] }
  | .restoreTitle => { ttl := [.pop] }
  | .enterKeypad => kpEff sel true
  | .exitKeypad => kpEff sel false
  | .hideCursor => if ad.hideCursor then { cv := some false } else {}
  | .showCursor => if ad.showCursor then { cv := some true } else {}
  | .disableAM => if ad.disableAM then { am := some false } else {}
  | .enableAM => if ad.enableAM then { am := some true } else {}
  | .cursorDefault => if ad.styleStr 0 then { shape := some 0 } else {}
  | .cursorColorReset => { colorReset := true }
  | _ => {}

theorem J_apply (sel : Sel) (e : Eff) (m : MR) (hj : J sel m)
    (h1 : sel.kp = false → e.kp = none) (h2 : sel.ck = false → e.ck = none) (h3 : sel.ss = false → e.ss = none) :
    J sel (e.apply m) := by
  unfold Eff.apply
  rw [runTtl_base]
  obtain ⟨j1, j2, j3⟩ := hj
  have t1 : ∀ l (m : MR), (runTtl m l).kpApp = m.kpApp ∧ (runTtl m l).ckApp = m.ckApp ∧ (runTtl m l).smooth = m.smooth := by
    intro l
    induction l with
    | nil => intro m; exact ⟨rfl, rfl, rfl⟩
    | cons o r ih =>
      intro m
      cases o
      · simp only [runTtl]; exact ih m.push
      · simp only [runTtl]
        have := ih m.pop
        have hp : m.pop.kpApp = m.kpApp ∧ m.pop.ckApp = m.ckApp ∧ m.pop.smooth = m.smooth := by
          unfold MR.pop; split <;> exact ⟨rfl, rfl, rfl⟩
        exact ⟨this.1.trans hp.1, this.2.1.trans hp.2.1, this.2.2.trans hp.2.2⟩
  obtain ⟨a1, a2, a3⟩ := t1 e.ttl m
  refine ⟨fun h => ?_, fun h => ?_, fun h => ?_⟩
  · simp [Eff.base, h1 h, a1, j1 h]
  · simp [Eff.base, h2 h, a2, j2 h]
  · simp [Eff.base, h3 h, a3, j3 h]

theorem absOf_push (m : MR) : absOf m.push = { absOf m with tstack := (absOf m).title :: (absOf m).tstack } := rfl

theorem absOf_pop (m : MR) :
    absOf m.pop = { absOf m with title := (ttlPop ((absOf m).title, (absOf m).tstack)).1,
                                 tstack := (ttlPop ((absOf m).title, (absOf m).tstack)).2 } := by
  unfold MR.pop ttlPop
  cases h : m.tstack with
  | nil => simp [absOf, h]
  | cons s r => simp [absOf, h]

/-- **capability by capability, the emulator-side effect is Layer A's effect** (title-setting apart) -/
theorem cap_abs (ad : AD) (sel : Sel) (k : Cap) (m : MR) (hk1 : ad.enterKeypad = sel.any) (hk2 : ad.exitKeypad = sel.any)
    (hj : J sel m) (hnt : ∀ t, k ≠ .setTitle t) :
    absOf ((capEffD ad sel k).apply m) = eraseP (evEffect ad (.put k) (absOf m)) ∧ J sel ((capEffD ad sel k).apply m) := by
  refine ⟨?_, ?_⟩
  · obtain ⟨j1, j2, j3⟩ := hj
    cases k
    case setTitle t => exact absurd rfl (hnt t)
    case enterKeypad =>
      cases hkp : sel.kp <;> cases hck : sel.ck <;> cases hss : sel.ss <;>
        simp_all [capEffD, kpEff, Eff.apply, Eff.base, runTtl, absOf, eraseP, evEffect, Sel.any, ttlPush, ttlPop]
    case exitKeypad =>
      cases hkp : sel.kp <;> cases hck : sel.ck <;> cases hss : sel.ss <;>
        simp_all [capEffD, kpEff, Eff.apply, Eff.base, runTtl, absOf, eraseP, evEffect, Sel.any, ttlPush, ttlPop]
    case enterCA =>
      cases h1 : ad.enterCA <;> cases h2 : ad.caTitle <;>
        simp [capEffD, Eff.apply, Eff.base, runTtl, absOf, eraseP, evEffect, ttlPush, h1, h2, MR.push]
    case exitCA =>
      cases h1 : ad.exitCA <;> cases h2 : ad.caTitle <;>
        simp [capEffD, Eff.apply, Eff.base, runTtl, eraseP, evEffect, h1, h2, absOf_pop] <;> simp [absOf]
    case restoreTitle =>
      simp [capEffD, Eff.apply, Eff.base, runTtl, eraseP, evEffect, absOf_pop]; simp [absOf]
    case saveTitle => simp [capEffD, Eff.apply, Eff.base, runTtl, absOf, eraseP, evEffect, ttlPush, MR.push]
    case mouseOn n =>
      by_cases h0 : n = 1000
      · subst h0; simp [capEffD, Eff.apply, Eff.base, runTtl, absOf, eraseP, evEffect]
      by_cases h2 : n = 1002
      · subst h2; simp [capEffD, Eff.apply, Eff.base, runTtl, absOf, eraseP, evEffect]
      by_cases h3 : n = 1003
      · subst h3; simp [capEffD, Eff.apply, Eff.base, runTtl, absOf, eraseP, evEffect]
      by_cases h6 : n = 1006
      · subst h6; simp [capEffD, Eff.apply, Eff.base, runTtl, absOf, eraseP, evEffect]
      simp [capEffD, Eff.apply, Eff.base, runTtl, absOf, eraseP, evEffect, h0, h2, h3, h6]
    case hideCursor => cases h1 : ad.hideCursor <;> simp [capEffD, Eff.apply, Eff.base, runTtl, absOf, eraseP, evEffect, h1]
    case showCursor => cases h1 : ad.showCursor <;> simp [capEffD, Eff.apply, Eff.base, runTtl, absOf, eraseP, evEffect, h1]
    case disableAM => cases h1 : ad.disableAM <;> simp [capEffD, Eff.apply, Eff.base, runTtl, absOf, eraseP, evEffect, h1]
    case enableAM => cases h1 : ad.enableAM <;> simp [capEffD, Eff.apply, Eff.base, runTtl, absOf, eraseP, evEffect, h1]
    case cursorDefault =>
      cases h1 : ad.styleStr 0 <;> simp [capEffD, Eff.apply, Eff.base, runTtl, absOf, eraseP, evEffect, h1]
    all_goals simp [capEffD, Eff.apply, Eff.base, runTtl, absOf, eraseP, evEffect]
  · apply J_apply sel _ m hj <;> intro h <;> cases k <;> simp [capEffD, kpEff, h] <;> (repeat' split) <;> rfl

/-! ## bytes of the model's events, and the simulation of one event -/

def evBytes (rc : RenderCfg) : Ev → Bytes
  | .call _ => []
  | .put k => capBytes rc k
  | .frame cmds => Render.renderAll rc cmds

/-- the bytes of an event do on the emulator's registers what Layer A says the event does, and keep `J` -/
def EvSim (rc : RenderCfg) (ad : AD) (sel : Sel) (e : Ev) : Prop :=
  ∃ f : MR → MR, Sim (evBytes rc e) f ∧
    ∀ m, J sel m → absOf (f m) = eraseP (evEffect ad e (absOf m)) ∧ J sel (f m)

/-- the same for one draw command -/
def CmdOk (rc : RenderCfg) (ad : AD) (sel : Sel) (c : Cmd) : Prop := EvSim rc ad sel (.frame [c])

theorem evSim_call (rc : RenderCfg) (ad : AD) (sel : Sel) (c : TtyCall) : EvSim rc ad sel (.call c) :=
  ⟨id, Sim.nil, fun _ hj => ⟨rfl, hj⟩⟩

theorem evEffect_frame_cons (ad : AD) (c : Cmd) (cs : List Cmd) (r : Regs) :
    evEffect ad (.frame (c :: cs)) r = evEffect ad (.frame cs) (evEffect ad (.frame [c]) r) := rfl

/-- a frame is the sequence of its commands -/
theorem evSim_frame (rc : RenderCfg) (ad : AD) (sel : Sel) (cmds : List Cmd) (h : ∀ c ∈ cmds, CmdOk rc ad sel c) :
    EvSim rc ad sel (.frame cmds) := by
  induction cmds with
  | nil => exact ⟨id, Sim.nil, fun _ hj => ⟨rfl, hj⟩⟩
  | cons c cs ih =>
    obtain ⟨f1, s1, a1⟩ := h c (by simp)
    obtain ⟨f2, s2, a2⟩ := ih (fun c' hc' => h c' (by simp [hc']))
    refine ⟨f2 ∘ f1, ?_, ?_⟩
    · have e : evBytes rc (.frame (c :: cs)) = evBytes rc (.frame [c]) ++ evBytes rc (.frame cs) := by
        simp [evBytes, Render.renderAll]
      rw [e]; exact s1.append s2
    · intro m hj
      obtain ⟨b1, b2⟩ := a1 m hj
      obtain ⟨c1, c2⟩ := a2 (f1 m) b2
      refine ⟨?_, c2⟩
      show absOf (f2 (f1 m)) = _
      rw [c1, b1, eraseP_evEffect]; rfl

/-- discharging `CmdOk` for a concrete command whose bytes tokenize -/
theorem cmdOk_of_eff (rc : RenderCfg) (ad : AD) (sel : Sel) (c : Cmd) (e : Eff)
    (h : effOfBytes (Render.render rc c) = some e)
    (habs : ∀ m, J sel m → absOf (e.apply m) = eraseP (evEffect ad (.frame [c]) (absOf m)) ∧ J sel (e.apply m)) :
    CmdOk rc ad sel c := by
  refine ⟨e.apply, ?_, habs⟩
  have : evBytes rc (.frame [c]) = Render.render rc c := by simp [evBytes, Render.renderAll]
  rw [this]; exact effOfBytes_sim _ _ h

/-! ## composition over any list of events -/

theorem evs_sim (rc : RenderCfg) (ad : AD) (sel : Sel) : ∀ (evs : List Ev), (∀ e ∈ evs, EvSim rc ad sel e) →
    ∀ (t : Term) (r : Regs), t.st = .ground → absOf (mr t) = eraseP r → J sel (mr t) →
    (t.feed (evs.flatMap (evBytes rc))).st = .ground ∧
    absOf (mr (t.feed (evs.flatMap (evBytes rc)))) = eraseP (applyEvs ad evs r) ∧
    J sel (mr (t.feed (evs.flatMap (evBytes rc)))) := by
  intro evs
  induction evs with
  | nil => intro _ t r hst hR hj; exact ⟨hst, hR, hj⟩
  | cons e l ih =>
    intro h t r hst hR hj
    obtain ⟨f, sf, af⟩ := h e (by simp)
    obtain ⟨s1, s2⟩ := sf t hst
    obtain ⟨a1, a2⟩ := af (mr t) hj
    have e1 : (e :: l).flatMap (evBytes rc) = evBytes rc e ++ l.flatMap (evBytes rc) := by simp
    rw [e1, ← feed_append, applyEvs_cons]
    refine ih (fun e' he' => h e' (by simp [he'])) _ _ s1 ?_ (by rw [s2]; exact a2)
    rw [s2, a1, hR, eraseP_evEffect]

/-! ## the decidable class of descriptions -/

/-- a capability the model can emit for this description (guarded ones only when their string exists) -/
def emit (ad : AD) : Cap → Bool
  | .mouseOff | .mouseOn _ => ad.mouse
  | .pasteOn => ad.pasteOn | .pasteOff => ad.pasteOff | .focusOn => ad.focusOn | .focusOff => ad.focusOff
  | .saveTitle => ad.saveTitle | .restoreTitle => ad.restoreTitle | .setTitle _ => ad.setTitle
  | .cursorDefault => ad.cursorStyles.isSome | .cursorColorReset => ad.cursorFg
  | _ => true

/-- every capability without a free parameter -/
def fixedCaps : List Cap :=
  [.mouseOff, .mouseOn 1000, .mouseOn 1002, .mouseOn 1003, .mouseOn 1006, .pasteOn, .pasteOff, .focusOn, .focusOff,
   .enterCA, .saveTitle, .enterKeypad, .hideCursor, .enableAcs, .disableAM, .clear, .showCursor,
   .cursorDefault, .cursorColorReset, .resetFgBg, .attrOff, .exitKeypad, .enableAM, .restoreTitle, .exitCA, .exitUrl, .bell]

/-- `ESC [ > 2 t ESC ] 2 ; %p1%s ESC \` — the only title-setting program the constructor derives -/
def stdSetTitle : Bytes := [27,91,62,50,116,27,93,50,59,37,112,49,37,115,27,92]

/-- **the class**: every fixed string of the mode path is a list of known tokens with exactly Layer A's effect; the
    keypad strings switch exactly the modes `sel`; the title program, if any, is the standard one -/
def Known (rc : RenderCfg) (ad : AD) (sel : Sel) : Bool :=
  (fixedCaps.all fun k => !emit ad k || effOfBytes (capBytes rc k) == some (capEffD ad sel k)) &&
  (ad.enterKeypad == sel.any) && (ad.exitKeypad == sel.any) && (!ad.setTitle || rc.d.setTitle == stdSetTitle)

/-- the keypad selection read off the description's smkx -/
def selOf (rc : RenderCfg) : Sel :=
  match effOfBytes (capBytes rc .enterKeypad) with
  | some e => { kp := e.kp.isSome, ck := e.ck.isSome, ss := e.ss.isSome }
  | none => { kp := false, ck := false, ss := false }

def okMouse : Cap → Bool
  | .mouseOn n => n == 1000 || n == 1002 || n == 1003 || n == 1006
  | _ => true

theorem fixed_mem (k : Cap) (h1 : ∀ t, k ≠ .setTitle t) (h2 : okMouse k = true) : k ∈ fixedCaps := by
  cases k
  case setTitle t => exact absurd rfl (h1 t)
  case mouseOn n =>
    simp only [okMouse, Bool.or_eq_true, beq_iff_eq] at h2
    rcases h2 with ((h | h) | h) | h <;> subst h <;> simp [fixedCaps]
  all_goals simp [fixedCaps]

theorem evSim_put (rc : RenderCfg) (ad : AD) (sel : Sel) (hk : Known rc ad sel = true) (k : Cap)
    (h1 : ∀ t, k ≠ .setTitle t) (h2 : okMouse k = true) (h3 : emit ad k = true) : EvSim rc ad sel (.put k) := by
  simp only [Known, Bool.and_eq_true, beq_iff_eq, List.all_eq_true, Bool.or_eq_true, Bool.not_eq_true'] at hk
  obtain ⟨⟨⟨hall, hk1⟩, hk2⟩, _⟩ := hk
  have := hall k (fixed_mem k h1 h2)
  rcases this with h | h
  · rw [h3] at h; cases h
  · exact ⟨(capEffD ad sel k).apply, effOfBytes_sim _ _ h, fun m hj => cap_abs ad sel k m hk1 hk2 hj h1⟩

/-! ### SetTitle with a plain title -/

/-- printable ASCII without `$` (TPuts would read `$<…>` as padding) -/
def PlainTitle (t : Bytes) : Prop := ∀ b ∈ t, 0x20 ≤ b ∧ b < 0x7f ∧ b ≠ 36

open Tcell.TParm in
set_option maxRecDepth 4000 in
theorem parm_title (title : Bytes) :
    Render.parm stdSetTitle [Value.str title] = [27,91,62,50,116] ++ ([27,93] ++ (50 :: 59 :: title) ++ [27,92]) := by
  simp [Render.parm, tparm, tparmV, stdSetTitle, TParm.run, TParm.step, execOp, pad9, put, hd0, TParm.isDigit, popStr, Value.toStr]

theorem decodeText_ascii (u : Bool) (s : List Nat) (h : ∀ b ∈ s, b < 0x80) : decodeText u s = s.map Char.ofNat := by
  have key : ∀ (s : List Nat) (acc : List Char), (∀ b ∈ s, b < 0x80) →
      s.foldl (textStep u) { out := acc } = { out := (s.map Char.ofNat).reverse ++ acc } := by
    intro s
    induction s with
    | nil => intro acc _; rfl
    | cons b r ih =>
      intro acc hb
      have hb0 : b < 0x80 := hb b (by simp)
      have e : textStep u { out := acc } b = { out := Char.ofNat b :: acc } := by
        cases u <;> simp [textStep, textStart, hb0]
      rw [List.foldl_cons, e, ih _ (fun x hx => hb x (by simp [hx]))]
      simp
  unfold decodeText
  rw [key s [] h]
  simp

theorem cps_ascii (s : List Nat) (h : ∀ b ∈ s, b < 0x80) : cps (String.ofList (s.map Char.ofNat)) = s := by
  unfold cps
  rw [String.toList_ofList, List.map_map]
  conv => rhs; rw [← List.map_id s]
  apply List.map_congr_left
  intro b hb
  have hv : b.isValidChar := by unfold Nat.isValidChar; have := h b hb; omega
  simp [Char.ofNat, hv, Char.toNat, Char.ofNatAux]

theorem evSim_setTitle (rc : RenderCfg) (ad : AD) (sel : Sel) (hk : Known rc ad sel = true) (hs : ad.setTitle = true)
    (title : Bytes) (hp : PlainTitle title) : EvSim rc ad sel (.put (.setTitle title)) := by
  simp only [Known, Bool.and_eq_true, beq_iff_eq, Bool.or_eq_true, Bool.not_eq_true'] at hk
  obtain ⟨_, hst⟩ := hk
  rcases hst with h | h
  · rw [hs] at h; cases h
  have hbytes : evBytes rc (.put (.setTitle title)) = [27,91,62,50,116] ++ ([27,93] ++ (50 :: 59 :: title) ++ [27,92]) := by
    show Render.tp rc (Render.parm rc.d.setTitle [TParm.Value.str title]) = _
    rw [h, parm_title, LayerB.tp_clean]
    intro b hb
    simp only [List.mem_append, List.mem_cons, List.not_mem_nil, or_false] at hb
    rcases hb with (h | h | h | h | h) | ((h | h) | (h | h | h)) | (h | h)
    all_goals first | (subst h; decide) | exact (hp b h).2.2
  refine ⟨fun m => { m with title := String.ofList (title.map Char.ofNat) }, ?_, ?_⟩
  · rw [hbytes]
    have s2 : Sim ([27,93] ++ (50 :: 59 :: title) ++ [27,92]) (fun m => { m with title := String.ofList (title.map Char.ofNat) }) := by
      intro t hst0
      have key : t.feed ([27,93] ++ (50 :: 59 :: title) ++ [27,92]) =
          { t with modes := { t.modes with title := String.ofList (title.map Char.ofNat) } } := by
        rw [feed_osc_st t hst0 (50 :: 59 :: title) (by
          intro b hb
          rcases List.mem_cons.mp hb with h | h
          · subst h; simp
          rcases List.mem_cons.mp h with h | h
          · subst h; simp
          · have := hp b h; exact ⟨this.1, by omega, fun e => by omega⟩)]
        have h1 : splitFirst (50 :: 59 :: title) = ([50], some title) := by simp [splitFirst, List.span, List.span.loop]
        have h2 : t.text title = String.ofList (title.map Char.ofNat) := by
          unfold Term.text
          rw [decodeText_ascii _ _ (fun b hb => by have := hp b hb; omega)]
        simp [dispatchOsc, h1, isDigit, parseNat, h2]
      rw [key]; exact ⟨hst0, rfl⟩
    exact (sim_xtTitle.append s2).congr (fun m => rfl)
  · intro m hj
    refine ⟨?_, hj⟩
    have := cps_ascii title (fun b hb => by have := hp b hb; omega)
    simp [absOf, eraseP, evEffect, this]

/-! ### what the model emits -/

/-- an event the simulation covers: a capability the description has, with one of the four mouse modes -/
def putOk (ad : AD) : Ev → Bool
  | .put k => emit ad k && okMouse k
  | _ => true

section
variable (ad : AD) (v alt : Bool) (rw : Rune → Int) (payload : Rune → List Rune → List Nat) (corner : Bool)

theorem all_iteP (p : Prop) [Decidable p] (k : Cap) (h : p → putOk ad (.put k) = true) :
    (if p then [Ev.put k] else []).all (putOk ad) = true := by
  split <;> simp_all

theorem enableMouse_ok (f : Nat) : (Modes.enableMouse (mkCf ad rw payload corner alt) f).all (putOk ad) = true := by
  unfold Modes.enableMouse
  split
  · rename_i h
    have hm : ad.mouse = true := h
    simp only [List.all_append, Bool.and_eq_true]
    refine ⟨⟨⟨⟨?_, ?_⟩, ?_⟩, ?_⟩, ?_⟩
    · simp [putOk, emit, okMouse, hm]
    all_goals exact all_iteP ad _ _ (fun _ => by simp [putOk, emit, okMouse, hm])
  · rfl

theorem enablePasting_ok (on : Bool) : (Modes.enablePasting (mkCf ad rw payload corner alt) on).all (putOk ad) = true := by
  unfold Modes.enablePasting
  split
  · exact all_iteP ad _ _ (fun h => by have h' : ad.pasteOn = true := h; simp [putOk, emit, okMouse, h'])
  · exact all_iteP ad _ _ (fun h => by have h' : ad.pasteOff = true := h; simp [putOk, emit, okMouse, h'])

theorem focusOn_ok : (Modes.enableFocusReporting (mkCf ad rw payload corner alt)).all (putOk ad) = true := by
  unfold Modes.enableFocusReporting
  exact all_iteP ad _ _ (fun h => by have h' : ad.focusOn = true := h; simp [putOk, emit, okMouse, h'])

theorem focusOff_ok : (Modes.disableFocusReporting (mkCf ad rw payload corner alt)).all (putOk ad) = true := by
  unfold Modes.disableFocusReporting
  exact all_iteP ad _ _ (fun h => by have h' : ad.focusOff = true := h; simp [putOk, emit, okMouse, h'])

theorem all_ite (p : Prop) [Decidable p] (x y : List Ev) (f : Ev → Bool) (hx : x.all f = true) (hy : y.all f = true) :
    (if p then x else y).all f = true := by split <;> assumption

theorem engageEvs_ok (q : ModeReq) : (engageEvs (mkCf ad rw payload corner alt) q).all (putOk ad) = true := by
  unfold engageEvs
  simp only [List.all_append, Bool.and_eq_true]
  refine ⟨⟨⟨⟨⟨enableMouse_ok ad alt rw payload corner _, enablePasting_ok ad alt rw payload corner _⟩, ?_⟩, ?_⟩, ?_⟩, ?_⟩
  · exact all_ite _ _ _ _ (focusOn_ok ad alt rw payload corner) rfl
  · refine all_ite _ _ _ _ ?_ rfl
    simp only [List.all_append, Bool.and_eq_true]
    refine ⟨by simp [putOk, emit, okMouse], ?_⟩
    exact all_iteP ad _ _ (fun h => by have h' : ad.saveTitle = true := h; simp [putOk, emit, okMouse, h'])
  · simp [putOk, emit, okMouse]
  · exact all_iteP ad _ _ (fun h => by have h' : ad.setTitle = true := h.2; simp [putOk, emit, okMouse, h'])

theorem disengageEvs_ok (sh ti : Bool) : (disengageEvsV v (mkCf ad rw payload corner alt) sh ti).all (putOk ad) = true := by
  unfold disengageEvsV
  simp only [List.all_append, Bool.and_eq_true]
  refine ⟨⟨⟨⟨⟨⟨⟨⟨⟨?_, ?_⟩, ?_⟩, ?_⟩, ?_⟩, ?_⟩, ?_⟩, enableMouse_ok ad alt rw payload corner _⟩,
    enablePasting_ok ad alt rw payload corner _⟩, focusOff_ok ad alt rw payload corner⟩
  · simp [putOk, emit, okMouse]
  · exact all_iteP ad _ _ (fun h => by have h' : ad.cursorStyles.isSome = true := h.1; simp [putOk, emit, okMouse, h'])
  · exact all_iteP ad _ _ (fun h => by have h' : ad.cursorFg = true := h.1; simp [putOk, emit, okMouse, h'])
  · simp [putOk, emit, okMouse]
  · exact all_iteP ad _ _ (fun _ => by simp [putOk, emit, okMouse])
  · simp [putOk, emit, okMouse]
  · refine all_ite _ _ _ _ ?_ rfl
    simp only [List.all_append, Bool.and_eq_true]
    refine ⟨?_, by simp [putOk, emit, okMouse]⟩
    exact all_iteP ad _ _ (fun h => by have h' : ad.restoreTitle = true := h; simp [putOk, emit, okMouse, h'])

/-- every event of every step of the model is one the simulation covers -/
theorem step_ok (st : MState) (op : MOp) : (stepV v (mkCf ad rw payload corner alt) st op).2.all (putOk ad) = true := by
  cases op <;> simp only [stepV]
  case enableMouse f => exact all_ite _ _ _ _ (enableMouse_ok ad alt rw payload corner _) rfl
  case disableMouse => exact all_ite _ _ _ _ (enableMouse_ok ad alt rw payload corner _) rfl
  case enablePaste => exact all_ite _ _ _ _ (enablePasting_ok ad alt rw payload corner _) rfl
  case disablePaste => exact all_ite _ _ _ _ (enablePasting_ok ad alt rw payload corner _) rfl
  case enableFocus => exact all_ite _ _ _ _ (focusOn_ok ad alt rw payload corner) rfl
  case disableFocus => exact all_ite _ _ _ _ (focusOff_ok ad alt rw payload corner) rfl
  case setTitle t =>
    exact all_iteP ad _ _ (fun h => by have h' : ad.setTitle = true := h.1; simp [putOk, emit, okMouse, h'])
  case beep => simp [putOk, emit, okMouse]
  case suspend =>
    unfold disengageV; split
    · rfl
    · simp only [List.all_append, Bool.and_eq_true]
      exact ⟨⟨by simp [putOk], disengageEvs_ok ad v alt rw payload corner _ _⟩, by simp [putOk]⟩
  case resume =>
    unfold engage; split
    · simp [putOk]
    · simp only [List.all_append, Bool.and_eq_true]
      exact ⟨by simp [putOk], engageEvs_ok ad alt rw payload corner _⟩
  case fini =>
    unfold finiV; split
    · rfl
    · unfold disengageV; split
      · simp [putOk]
      · simp only [List.all_append, Bool.and_eq_true]
        exact ⟨⟨⟨by simp [putOk], disengageEvs_ok ad v alt rw payload corner _ _⟩, by simp [putOk]⟩, by simp [putOk]⟩
  case scr sop => cases sop <;> simp only [scrStep] <;> (try split) <;> simp [putOk]

end

/-! ### a decidable certificate for concrete draw frames -/

/-- the effect a draw command must have on the emulator's registers to match Layer A (cursor-colour *setting* excluded) -/
def cmdEffD (ad : AD) : Cmd → Eff
  | .hideCursor => if ad.hideCursor then { cv := some false } else {}
  | .showCursor cs _ =>
    (if ad.showCursor then ({ cv := some true } : Eff) else {}).seq (if ad.styleStr cs then { shape := some cs } else {})
  | _ => {}

/-- certificate for one concrete command: its bytes tokenize with the expected effect; a cursor command sets no colour -/
def cmdCert (rc : RenderCfg) (ad : AD) (c : Cmd) : Bool :=
  (effOfBytes (Render.render rc c) == some (cmdEffD ad c)) &&
  (match c with
   | .showCursor _ cc => !ad.cursorRGB || (cc != colorReset && cc / 2^32 % 2 != 1)
   | _ => true)

def framesCert (rc : RenderCfg) (ad : AD) (evs : List Ev) : Bool :=
  evs.all fun e => match e with
    | .frame cmds => cmds.all (cmdCert rc ad)
    | _ => true

theorem cmdOk_of_cert (rc : RenderCfg) (ad : AD) (sel : Sel) (c : Cmd) (h : cmdCert rc ad c = true) : CmdOk rc ad sel c := by
  simp only [cmdCert, Bool.and_eq_true, beq_iff_eq] at h
  refine cmdOk_of_eff rc ad sel c _ h.1 (fun m hj => ⟨?_, ?_⟩)
  · cases c
    case hideCursor =>
      cases h1 : ad.hideCursor <;>
        simp [cmdEffD, Eff.apply, Eff.base, runTtl, absOf, eraseP, evEffect, Comp.ev_frame, cCv, cShape, cTint, h1,
          cAlt_cmd, cKeypad_cmd, cMouse_cmd, cPaste_cmd, cFocus_cmd, cAm_cmd, cTtl_cmd]
    case showCursor cs cc =>
      have hc := h.2
      simp only [Bool.or_eq_true, Bool.not_eq_true', Bool.and_eq_true, bne_iff_ne, ne_eq] at hc
      have htint : ∀ b, cTint.cmd ad (.showCursor cs cc) b = b := by
        intro b
        simp only [cTint]
        rcases hc with hc | hc
        · simp [hc]
        · simp [hc.1, hc.2]
      cases h1 : ad.showCursor <;> cases h2 : ad.styleStr cs <;>
        simp [cmdEffD, Eff.seq, Eff.apply, Eff.base, runTtl, absOf, eraseP, evEffect, Comp.ev_frame, cCv, cShape, htint, h1, h2,
          cAlt_cmd, cKeypad_cmd, cMouse_cmd, cPaste_cmd, cFocus_cmd, cAm_cmd, cTtl_cmd]
    all_goals
      simp [cmdEffD, Eff.apply, Eff.base, runTtl, absOf, eraseP, evEffect, Comp.ev_frame, cCv, cShape, cTint,
        cAlt_cmd, cKeypad_cmd, cMouse_cmd, cPaste_cmd, cFocus_cmd, cAm_cmd, cTtl_cmd]
  · apply J_apply sel _ m hj <;> intro _ <;> cases c <;> simp [cmdEffD, Eff.seq] <;> (repeat' split) <;>
      first | rfl | exact ⟨rfl, rfl⟩

theorem framesOk_of_cert (rc : RenderCfg) (ad : AD) (sel : Sel) (evs : List Ev) (h : framesCert rc ad evs = true) :
    ∀ cmds, Ev.frame cmds ∈ evs → ∀ c ∈ cmds, CmdOk rc ad sel c := by
  intro cmds he c hc
  have := List.all_eq_true.mp h _ he
  exact cmdOk_of_cert rc ad sel c (List.all_eq_true.mp this c hc)

end Tcell.ModesB
