/-
Lemmas about lock skeletons (C19): the deterministic run is one of the enumerated paths, soundness of the
`balanced` checker, and its consequence for one API call.
-/
import Tcell.Model.WLock
namespace Tcell.WLock

/-- The deterministic run of a skeleton under any evaluation of its conditions is one of the outcomes the
path semantics `post` enumerates (conditions abstracted to both branches). -/
theorem run_mem_post {E : Type} (sem : Sem E) (sk : Sk) :
    ∀ (s : LS) (e : E), (run sem sk s e).1 ∈ post sk s := by
  induction sk with
  | nil => intro s e; simp [run, post]
  | ret => intro s e; simp [run, post]
  | lock k ih => intro s e; simp only [run, post]; split <;> simp [ih]
  | unlock k ih => intro s e; simp only [run, post]; split <;> simp [ih]
  | deferUnlock k ih => intro s e; simp only [run, post]; exact ih _ _
  | setRunning b k ih => intro s e; simp only [run, post]; exact ih _ _
  | callLocking n k ih => intro s e; simp only [run, post]; split <;> simp [ih]
  | post k ih => intro s e; simp only [run, WLock.post]; exact ih _ _
  | ite c t f k iht ihf ihk =>
    intro s e
    simp only [run, post]
    have hb : (if sem.cond e c = true then run sem t s e else run sem f s e).1 ∈ post t s ++ post f s := by
      split
      · exact List.mem_append_left _ (iht s e)
      · exact List.mem_append_right _ (ihf s e)
    generalize (if sem.cond e c = true then run sem t s e else run sem f s e) = r at hb ⊢
    obtain ⟨o, e'⟩ := r
    cases o with
    | fall s' => exact List.mem_flatMap.2 ⟨_, hb, ihk s' e'⟩
    | returned s' => exact List.mem_flatMap.2 ⟨_, hb, by simp⟩
    | selfDeadlock => exact List.mem_flatMap.2 ⟨_, hb, by simp⟩
    | badUnlock => exact List.mem_flatMap.2 ⟨_, hb, by simp⟩
  | loop b k ihb ihk =>
    intro s e
    simp only [run, post]
    have hb : (if sem.loopOnce e = true then run sem b s e else (Out.fall s, e)).1 ∈ post b s ++ [Out.fall s] := by
      split
      · exact List.mem_append_left _ (ihb s e)
      · exact List.mem_append_right _ (by simp)
    generalize (if sem.loopOnce e = true then run sem b s e else (Out.fall s, e)) = r at hb ⊢
    obtain ⟨o, e'⟩ := r
    cases o with
    | fall s' => exact List.mem_flatMap.2 ⟨_, hb, ihk s' e'⟩
    | returned s' => exact List.mem_flatMap.2 ⟨_, hb, by simp⟩
    | selfDeadlock => exact List.mem_flatMap.2 ⟨_, hb, by simp⟩
    | badUnlock => exact List.mem_flatMap.2 ⟨_, hb, by simp⟩

theorem exitFree_exitHeld (s : LS) (h : exitFree s = true) : exitHeld s = some false := by
  unfold exitFree at h; unfold exitHeld
  split at h
  · simp_all
  · simp_all
  · simp at h

/-- soundness of the checker.  If `balanced sk` evaluates to true then *every* execution of the
method – whatever its conditions evaluate to – entered with the mutex free never locks it twice, never unlocks a
free mutex, and has released it when the function exits (deferred unlocks included). -/
theorem balanced_sound {E : Type} (sem : Sem E) (sk : Sk) (hb : balanced sk = true) (e : E) :
    ∃ s', ((run sem sk {} e).1 = Out.fall s' ∨ (run sem sk {} e).1 = Out.returned s') ∧ exitHeld s' = some false := by
  have hm := run_mem_post sem sk {} e
  have hok : Out.ok (run sem sk {} e).1 = true := by
    unfold balanced at hb
    exact (List.all_eq_true.1 hb) _ hm
  generalize (run sem sk {} e).1 = o at hok
  cases o with
  | fall s' => exact ⟨s', Or.inl rfl, exitFree_exitHeld s' hok⟩
  | returned s' => exact ⟨s', Or.inr rfl, exitFree_exitHeld s' hok⟩
  | selfDeadlock => simp [Out.ok] at hok
  | badUnlock => simp [Out.ok] at hok

theorem callM_balanced (facts : List (String × Sk)) (name : String) (running same : Bool)
    (hb : balancedAt facts name = true) :
    ∃ r, callM facts name false running same = some (false, r) := by
  unfold callM
  unfold balancedAt at hb
  cases hl : facts.lookup name with
  | none => exact ⟨running, rfl⟩
  | some sk =>
    rw [hl] at hb
    obtain ⟨s', hs, hx⟩ := balanced_sound lsem sk hb { running := running, sameSize := same }
    simp only
    generalize hr : run lsem sk { held := false } { running := running, sameSize := same } = r at hs
    obtain ⟨o, e'⟩ := r
    rcases hs with hs | hs
    · simp only at hs; subst hs; exact ⟨e'.running, by simp [hx]⟩
    · simp only at hs; subst hs; exact ⟨e'.running, by simp [hx]⟩

theorem lookup_of_mem : ∀ {l : List (String × Nat)}, (l.map (·.1)).Nodup → ∀ {n : String} {k : Nat}, (n, k) ∈ l → l.lookup n = some k
  | [], _, _, _, h => by simp at h
  | (a, b) :: l, hnd, n, k, h => by
    simp only [List.map_cons, List.nodup_cons] at hnd
    rcases List.mem_cons.1 h with h1 | h1
    · cases h1; simp [List.lookup]
    · have hne : n ≠ a := by
        intro he; subst he
        exact hnd.1 (List.mem_map.2 ⟨(n, k), h1, rfl⟩)
      have : (n == a) = false := by simpa using hne
      simp [List.lookup, this, lookup_of_mem hnd.2 h1]


end Tcell.WLock
