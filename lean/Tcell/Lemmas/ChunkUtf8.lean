import Tcell.Lemmas.ChunkStable
/-
C02: the decoder laws `DecLaws` for the UTF-8 decoder instance `decUtf8` (model of
`encoding.UTF8Validator.Transform(dst[12], src, atEOF = true)`).
-/
namespace Tcell.Lemmas.ChunkUtf8
open Tcell Tcell.Model Tcell.Lemmas.Chunk

/-- encoded length reported by `utf8.DecodeRune` -/
def u8size (p : Bytes) : Nat := (utf8DecodeRune p).2

theorem snd_ite {α β : Type} (c : Prop) [Decidable c] (a b : α × β) : (if c then a else b).2 = if c then a.2 else b.2 := by
  split <;> rfl

theorem u8size_bounds (p : Bytes) : u8size p ≤ p.length ∧ (p ≠ [] → 1 ≤ u8size p) ∧ u8size p ≤ 4 := by
  unfold u8size utf8DecodeRune
  repeat' split
  all_goals simp only [snd_ite, List.length_cons, List.length_nil, ne_eq, not_true_eq_false, List.cons_ne_nil, not_false_eq_true]
  all_goals (repeat' split)
  all_goals first | omega | simp

/-- `utf8.DecodeRune` looks at no more than the first four bytes -/
theorem u8size_append4 (b0 b1 b2 b3 : Nat) (t q : Bytes) :
    u8size ((b0 :: b1 :: b2 :: b3 :: t) ++ q) = u8size (b0 :: b1 :: b2 :: b3 :: t) := rfl

theorem validate_ge : ∀ (fuel i n : Nat) (src : Bytes), i ≤ utf8Validate fuel i n src := by
  intro fuel
  induction fuel with
  | zero => intro i n src; simp [utf8Validate]
  | succ f ih =>
    intro i n src
    unfold utf8Validate
    split
    · omega
    · split
      · omega
      · split
        · have := ih (i + 1) n ‹_›; omega
        · simp only
          split
          · omega
          · split
            · omega
            · have := ih (i + (utf8DecodeRune (‹Nat› :: ‹List Nat›)).2) n ((‹Nat› :: ‹List Nat›).drop (utf8DecodeRune (‹Nat› :: ‹List Nat›)).2)
              omega

theorem validate_le : ∀ (fuel i n : Nat) (src : Bytes), utf8Validate fuel i n src ≤ i + src.length := by
  intro fuel
  induction fuel with
  | zero => intro i n src; simp [utf8Validate]
  | succ f ih =>
    intro i n src
    unfold utf8Validate
    split
    · omega
    · split
      · omega
      · rename_i c rest
        split
        · have := ih (i + 1) n rest; simp only [List.length_cons]; omega
        · simp only
          split
          · omega
          · split
            · omega
            · have h1 := ih (i + (utf8DecodeRune (c :: rest)).2) n ((c :: rest).drop (utf8DecodeRune (c :: rest)).2)
              have h2 := (u8size_bounds (c :: rest)).1
              unfold u8size at h2
              rw [List.length_drop] at h1
              omega

/-- whether the validator accepts anything is decided by the first rune -/
theorem validate_first (f n c : Nat) (rest : Bytes) (hn : 1 ≤ n) :
    utf8Validate (f + 1) 0 n (c :: rest) ≠ 0 ↔ (c < 0x80 ∨ u8size (c :: rest) ≠ 1) := by
  unfold utf8Validate
  have h0 : ¬ (0 ≥ n) := by omega
  simp only [h0, if_false]
  have hb := u8size_bounds (c :: rest)
  have hpos : 1 ≤ u8size (c :: rest) := hb.2.1 (by simp)
  unfold u8size at hb hpos ⊢
  by_cases hc : c < 0x80
  · simp only [hc, if_true, true_or, iff_true]
    have := validate_ge f (0 + 1) n rest
    omega
  · simp only [hc, if_false, false_or]
    by_cases h1 : (utf8DecodeRune (c :: rest)).2 = 1
    · simp [h1]
    · simp only [h1, if_false]
      have h4 : (utf8DecodeRune (c :: rest)).2 ≤ 4 := hb.2.2
      have h12 : ¬ (0 + (utf8DecodeRune (c :: rest)).2 > 12) := by omega
      simp only [h12, if_false]
      have := validate_ge f (0 + (utf8DecodeRune (c :: rest)).2) n ((c :: rest).drop (utf8DecodeRune (c :: rest)).2)
      constructor
      · intro _; exact h1
      · intro _; omega

theorem decUtf8_out_iff (c : Nat) (rest : Bytes) :
    (∃ r n, decUtf8 (c :: rest) = .out r n) ↔ (c < 0x80 ∨ u8size (c :: rest) ≠ 1) := by
  have hv := validate_first (c :: rest).length (min (c :: rest).length 12) c rest (by simp only [List.length_cons]; omega)
  unfold decUtf8
  simp only
  by_cases h0 : utf8Validate ((c :: rest).length + 1) 0 (min (c :: rest).length 12) (c :: rest) = 0
  · simp only [h0, if_true]
    constructor
    · intro ⟨r, n, h⟩; cases h
    · intro h; exact absurd h0 (hv.mpr h)
  · simp only [h0, if_false]
    constructor
    · intro _; exact hv.mp h0
    · intro _; exact ⟨_, _, rfl⟩

theorem decLaws_utf8 : DecLaws decUtf8 where
  bound := by
    intro p r n h
    unfold decUtf8 at h
    simp only at h
    split at h
    · cases h
    · rename_i hne
      injection h with _ hn
      have := validate_le (p.length + 1) 0 (min p.length 12) p
      omega
  local4 := by
    intro p q r n hl h
    rcases p with _ | ⟨b0, _ | ⟨b1, _ | ⟨b2, _ | ⟨b3, t⟩⟩⟩⟩
    · simp at hl
    · simp at hl
    · simp at hl
    · simp at hl
    · have h1 := (decUtf8_out_iff b0 ((b1 :: b2 :: b3 :: t) ++ q)).mp ⟨r, n, h⟩
      have h2 : u8size (b0 :: ((b1 :: b2 :: b3 :: t) ++ q)) = u8size (b0 :: b1 :: b2 :: b3 :: t) := u8size_append4 b0 b1 b2 b3 t q
      rw [h2] at h1
      exact (decUtf8_out_iff b0 (b1 :: b2 :: b3 :: t)).mpr h1

end Tcell.Lemmas.ChunkUtf8
