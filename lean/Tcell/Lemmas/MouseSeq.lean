import Tcell.Lemmas.MouseStep
/-
X11 reports, the table-level condition `mouseClear` (no key sequence is comparable with the start of a mouse
report), and `collect` over an arbitrary sequence of rendered reports.
-/
namespace Tcell.Lemmas.MouseSeq
open Tcell Tcell.Model Tcell.Dec Tcell.Lemmas.SgrMouse Tcell.Lemmas.Collect Tcell.Lemmas.MouseStep

/-! ### prefixes -/

theorem beq_eq {a b : Nat} (h : Nat.beq a b = true) : a = b := Nat.eq_of_beq_eq_true h

theorem hasPrefix_comparable : ∀ (buf s p : Bytes), hasPrefix buf s = true → hasPrefix buf p = true →
    hasPrefix p s = true ∨ hasPrefix s p = true := by
  intro buf
  induction buf with
  | nil =>
    intro s p hs hp
    cases s with
    | nil => left; cases p <;> rfl
    | cons _ _ => simp [hasPrefix] at hs
  | cons c buf ih =>
    intro s p hs hp
    cases s with
    | nil => left; cases p <;> rfl
    | cons a s =>
      cases p with
      | nil => right; rfl
      | cons b p =>
        simp only [hasPrefix, Bool.and_eq_true] at hs hp ⊢
        have e1 := beq_eq hs.1
        have e2 := beq_eq hp.1
        subst e1; subst e2
        rcases ih s p hs.2 hp.2 with h | h
        · left; exact ⟨Nat.beq_refl _, h⟩
        · right; exact ⟨Nat.beq_refl _, h⟩

theorem hasPrefix_append (p rest : Bytes) : hasPrefix (p ++ rest) p = true := by
  induction p with
  | nil => cases rest <;> rfl
  | cons a p ih => simp [hasPrefix, ih, Nat.beq_refl]

/-- starts of mouse reports: `ESC [ <`, `ESC [ M`, `9B <`, `9B M` -/
def mouseStarts : List Bytes := [[27, 91, 60], [27, 91, 77], [0x9b, 60], [0x9b, 77]]

def clearSeq (s : Bytes) : Bool := mouseStarts.all (fun p => !hasPrefix p s && !hasPrefix s p)

/-- no key sequence (other than the lone ESC, which parseFunctionKey skips) is a prefix of, or extends, the start of a
mouse report -/
def mouseClear (T : KeyTable) : Bool := T.all (fun e => bytesEq e.seq [27] || clearSeq e.seq)

theorem keyMatches_clear (T : KeyTable) (hT : mouseClear T = true) (p : Bytes) (hp : p ∈ mouseStarts) (rest : Bytes) :
    keyMatches T (p ++ rest) = [] := by
  unfold keyMatches
  rw [List.filter_eq_nil_iff]
  intro e he
  have h := (List.all_eq_true.mp hT) e he
  intro hm
  simp only [Bool.and_eq_true, Bool.not_eq_true', Bool.or_eq_true] at hm h
  rcases h with h | h
  · rw [h] at hm; exact absurd hm.1 (by simp)
  · have hc := (List.all_eq_true.mp h) p hp
    simp only [Bool.and_eq_true, Bool.not_eq_true'] at hc
    rcases hasPrefix_comparable (p ++ rest) e.seq p hm.2 (hasPrefix_append p rest) with h1 | h1
    · rw [h1] at hc; exact absurd hc.1 (by simp)
    · rw [h1] at hc; exact absurd hc.2 (by simp)

/-! ### X11 -/

/-- what the model produces for `CSI M cb cx cy` -/
def x11Out (cfg : Cfg) (st : PState) (cb cx cy : Nat) : Event × PState :=
  if cfg.x11Fixed then
    let c := (((cb : Int) - 32) % 128).toNat
    let rel : Bool := c % 4 = 3 ∧ c / 64 % 2 = 0 ∧ c / 32 % 2 = 0
    let p := sgrButtons st ((cb : Int) - 32) rel
    (buildMouseEvent cfg ((cx : Int) - 32 - 1) ((cy : Int) - 32 - 1) (p.1 : Int), { st with buttondn := p.2 })
  else (buildMouseEvent cfg ((cx : Int) - 32 - 1) ((cy : Int) - 32 - 1) (cb : Int), st)

def renderX11 (intro : Bytes) (cb cx cy : Nat) : Bytes := intro ++ [77, cb, cx, cy]

theorem parseX11_report (cfg : Cfg) (st : PState) (intro : Bytes) (hi : IsIntro intro) (cb cx cy : Nat) (rest : Bytes) :
    parseXtermMouse cfg st (renderX11 intro cb cx cy ++ rest)
      = .complete (renderX11 intro cb cx cy).length [(x11Out cfg st cb cx cy).1] (x11Out cfg st cb cx cy).2 := by
  rcases hi with rfl | rfl <;>
  · simp only [renderX11, parseXtermMouse, x11Body, x11Out, sgrFinish, List.cons_append, List.nil_append]
    by_cases hfx : cfg.x11Fixed = true <;> simp [hfx]

theorem step1_x11 (cfg : Cfg) (hc : MouseOK cfg) (st : PState) (intro : Bytes) (hi : IsIntro intro) (cb cx cy : Nat)
    (rest : Bytes) (e : Bool) (hk : keyMatches cfg.keys (renderX11 intro cb cx cy ++ rest) = []) :
    step1 cfg st (renderX11 intro cb cx cy ++ rest) e
      = .emit [(x11Out cfg st cb cx cy).1] (x11Out cfg st cb cx cy).2 rest := by
  have hx := parseX11_report cfg st intro hi cb cx cy rest
  have hkey := parseFunctionKey_silent cfg.keys st _ hk
  unfold step1 parsers
  simp only [hc.mouse, if_true]
  generalize hbuf : renderX11 intro cb cx cy ++ rest = buf at *
  have hrune : Silent (parseRune cfg.dec st buf) := by
    rw [← hbuf]
    rcases hi with rfl | rfl
    · right; exact parseRune_esc _ _ _
    · left; exact parseRune_silent _ _ _ _ (by decide) hc.dec
  have hfocus : Silent (parseFocus st buf) := by
    rw [← hbuf]
    rcases hi with rfl | rfl <;> (right; simp [parseFocus, renderX11])
  simp only [List.cons_append, List.nil_append]
  obtain ⟨n1, h1⟩ := tryParsers_skip st buf e _ _ hrune 0
  rw [h1]
  obtain ⟨n2, h2⟩ := tryParsers_skip st buf e _ _ hkey n1
  rw [h2]
  obtain ⟨n3, h3⟩ := tryParsers_skip st buf e _ _ hfocus n2
  rw [h3, tryParsers_hit st buf e _ _ _ _ _ hx n3, ← hbuf]
  simp

/-! ### sequences of reports -/

/-- a mouse report as the terminal sends it -/
inductive MRep where
  | sgr (intro : Bytes) (b x y : Int) (fin : Nat)
  | x11 (intro : Bytes) (cb cx cy : Nat)

def MRep.bytes : MRep → Bytes
  | .sgr intro b x y fin => render intro b x y fin
  | .x11 intro cb cx cy => renderX11 intro cb cx cy

def MRep.Valid : MRep → Prop
  | .sgr intro b x y fin => IsIntro intro ∧ Fits b ∧ Fits x ∧ Fits y ∧ (fin = 77 ∨ fin = 109)
  | .x11 intro _ _ _ => IsIntro intro

/-- event and new parser state the model produces for one report -/
def MRep.out (cfg : Cfg) (st : PState) : MRep → Event × PState
  | .sgr _ b x y fin => (sgrEvent cfg st b x y fin, sgrState st b fin)
  | .x11 _ cb cx cy => x11Out cfg st cb cx cy

def renderAll : List MRep → Bytes
  | [] => []
  | r :: rs => r.bytes ++ renderAll rs

/-- events and final state of a report sequence -/
def outs (cfg : Cfg) : PState → List MRep → List Event × PState
  | st, [] => ([], st)
  | st, r :: rs => let o := r.out cfg st; let t := outs cfg o.2 rs; (o.1 :: t.1, t.2)

theorem MRep.starts (r : MRep) (hv : r.Valid) : ∃ p ∈ mouseStarts, ∃ tail, r.bytes = p ++ tail := by
  cases r with
  | sgr intro b x y fin =>
    rcases hv.1 with rfl | rfl
    · exact ⟨[27, 91, 60], by simp [mouseStarts], showInt b ++ 59 :: (showInt x ++ 59 :: (showInt y ++ [fin])), by simp [MRep.bytes, render]⟩
    · exact ⟨[0x9b, 60], by simp [mouseStarts], showInt b ++ 59 :: (showInt x ++ 59 :: (showInt y ++ [fin])), by simp [MRep.bytes, render]⟩
  | x11 intro cb cx cy =>
    rcases hv with rfl | rfl
    · exact ⟨[27, 91, 77], by simp [mouseStarts], [cb, cx, cy], by simp [MRep.bytes, renderX11]⟩
    · exact ⟨[0x9b, 77], by simp [mouseStarts], [cb, cx, cy], by simp [MRep.bytes, renderX11]⟩

theorem MRep.bytes_ne_nil (r : MRep) (hv : r.Valid) : r.bytes ≠ [] := by
  obtain ⟨p, hp, tail, h⟩ := r.starts hv
  rw [h]
  simp [mouseStarts] at hp
  rcases hp with rfl | rfl | rfl | rfl <;> simp

theorem step1_rep (cfg : Cfg) (hc : MouseOK cfg) (hT : mouseClear cfg.keys = true) (st : PState) (r : MRep)
    (hv : r.Valid) (rest : Bytes) (e : Bool) :
    step1 cfg st (r.bytes ++ rest) e = .emit [(r.out cfg st).1] (r.out cfg st).2 rest := by
  have hk : keyMatches cfg.keys (r.bytes ++ rest) = [] := by
    obtain ⟨p, hp, tail, h⟩ := r.starts hv
    rw [h, List.append_assoc]
    exact keyMatches_clear cfg.keys hT p hp _
  cases r with
  | sgr intro b x y fin =>
    exact step1_sgr cfg hc st intro hv.1 b x y hv.2.1 hv.2.2.1 hv.2.2.2.1 fin hv.2.2.2.2 rest e hk
  | x11 intro cb cx cy => exact step1_x11 cfg hc st intro hv cb cx cy rest e hk

theorem collectAux_emit' (cfg : Cfg) (e : Bool) (fuel : Nat) (st st' : PState) (b rest : Bytes) (hb : b ≠ [])
    (evs : List Event) (h : step1 cfg st b e = .emit evs st' rest) :
    collectAux cfg e (fuel + 1) st b =
      { collectAux cfg e fuel st' rest with evs := evs ++ (collectAux cfg e fuel st' rest).evs } := by
  cases b with
  | nil => exact absurd rfl hb
  | cons c t => simp [collectAux, h]

theorem collectAux_reports (cfg : Cfg) (hc : MouseOK cfg) (hT : mouseClear cfg.keys = true) (e : Bool) :
    ∀ (rs : List MRep), (∀ r ∈ rs, r.Valid) → ∀ (st : PState) (fuel : Nat), (renderAll rs).length ≤ fuel →
      collectAux cfg e fuel st (renderAll rs) = ⟨(outs cfg st rs).1, (outs cfg st rs).2, [], false⟩ := by
  intro rs
  induction rs with
  | nil => intro _ st fuel _; simp [renderAll, outs, collectAux_nil]
  | cons r rs ih =>
    intro hv st fuel hf
    have hvr : r.Valid := hv r (by simp)
    have hne := r.bytes_ne_nil hvr
    have hlen : 0 < r.bytes.length := by cases hb : r.bytes with | nil => exact absurd hb hne | cons _ _ => simp
    simp only [renderAll, List.length_append] at hf ⊢
    cases fuel with
    | zero => omega
    | succ f =>
      rw [collectAux_emit' cfg e f st _ _ _ (by simp [hne]) _ (step1_rep cfg hc hT st r hvr (renderAll rs) e)]
      rw [ih (fun x hx => hv x (by simp [hx])) _ f (by omega)]
      simp [outs]

/-- `collect` on the concatenation of any sequence of valid reports: exactly the model's events, nothing left -/
theorem collect_reports (cfg : Cfg) (hc : MouseOK cfg) (hT : mouseClear cfg.keys = true) (e : Bool)
    (rs : List MRep) (hv : ∀ r ∈ rs, r.Valid) (st : PState) :
    collect cfg st (renderAll rs) e = ⟨(outs cfg st rs).1, (outs cfg st rs).2, [], false⟩ :=
  collectAux_reports cfg hc hT e rs hv st _ (Nat.le_refl _)

end Tcell.Lemmas.MouseSeq
