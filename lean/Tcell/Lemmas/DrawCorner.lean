/-
The bottom-right corner trick of drawCell (tscreen.go drawCell, "our solution is somewhat goofy"; Model/Draw.lean
`Scr.drawCell`, branch `cornerTrick`) carried through the cross-Show invariant: one loop iteration at the corner
cell re-establishes `PassInv` (`visit_corner`), given what the pass knows about the last row (`CornerGhost`) and the
side condition that no cell of that row is locked.
-/
import Tcell.Lemmas.DrawVisit
namespace Tcell
open Buf

/-! ### the `px` loop of the trick and the draw loop's walk -/

theorem rawW_pos (b : Buf) (x y : Int) : 1 ≤ rawW b x y := by unfold rawW; split <;> omega

theorem rawW_congr (b b' : Buf) (x y : Int) (h : b'.getContent x y = b.getContent x y) : rawW b' x y = rawW b x y := by
  unfold rawW; rw [h]

theorem coverStart_succ (b : Buf) (y : Int) (fuel : Nat) (cx x : Int) :
    Scr.coverStart b y (fuel + 1) cx x =
      if cx + rawW b cx y < x then Scr.coverStart b y fuel (cx + rawW b cx y) x else cx := rfl

theorem coverStart_congr (b b' : Buf) (y : Int) (h : ∀ i, b'.getContent i y = b.getContent i y) :
    ∀ (fuel : Nat) (cx x : Int), Scr.coverStart b' y fuel cx x = Scr.coverStart b y fuel cx x := by
  intro fuel
  induction fuel with
  | zero => intro cx x; rfl
  | succ n ih => intro cx x; rw [coverStart_succ, coverStart_succ, rawW_congr b b' cx y (h cx), ih]

theorem RawReach.le {b : Buf} {y a p : Int} (h : RawReach b y a p) : a ≤ p := by
  induction h with
  | refl a => exact Int.le_refl _
  | step a p _ ih => have := rawW_pos b a y; omega

theorem RawReach.snoc {b : Buf} {y a p : Int} (h : RawReach b y a p) : RawReach b y a (p + rawW b p y) := by
  induction h with
  | refl a => exact .step _ _ (.refl _)
  | step a p _ ih => exact .step _ _ ih

theorem RawReach.congr {b b' : Buf} {y a p : Int} (hg : ∀ i, b'.getContent i y = b.getContent i y)
    (h : RawReach b y a p) : RawReach b' y a p := by
  induction h with
  | refl a => exact .refl _
  | step a p _ ih => refine .step _ _ ?_; rw [rawW_congr b b' a y (hg a)]; exact ih

/-- the `px` loop stops at the last column it reaches before `x` -/
theorem coverStart_reach {b : Buf} {y a p : Int} (h : RawReach b y a p) (x : Int) (hpx : p < x) (hxp : x ≤ p + rawW b p y) :
    ∀ fuel : Nat, (x - a).toNat ≤ fuel → Scr.coverStart b y fuel a x = p := by
  induction h with
  | refl a =>
    intro fuel hf
    cases fuel with
    | zero => omega
    | succ n => rw [coverStart_succ, if_neg (by omega)]
  | step a p hr ih =>
    intro fuel hf
    have hle := hr.le
    have hpos := rawW_pos b a y
    cases fuel with
    | zero => omega
    | succ n => rw [coverStart_succ, if_pos (by omega)]; exact ih hpx hxp n (by omega)

/-- SetDirty(true) on a cell that already needs repainting changes nothing -/
theorem setDirty_true_idem (b : Buf) (x y : Int) (h : (b.cells x y).lastMain = 0) : b.setDirty x y true = b := by
  unfold setDirty
  split
  · simp only [if_true, upd]
    cases b with
    | mk w hh cells =>
      simp only [Buf.mk.injEq, true_and]
      funext i j
      split
      · rename_i hij; obtain ⟨rfl, rfl⟩ := hij
        simp only at h
        generalize cells i j = cl at h
        cases cl; simp only [Cell.markDirty] at *; simp [h]
      · rfl
  · rfl

/-- marking a clean cell dirty and clean again gives the cell back -/
theorem Cell.markClean_markDirty (cl : Cell) (h1 : cl.lastMain ≠ 0) (h2 : cl.last = cl.content) : cl.markDirty.markClean = cl := by
  cases cl
  simp only [Cell.last, Cell.content, Prod.mk.injEq] at h2
  simp only [Cell.markDirty, Cell.markClean] at *
  obtain ⟨a, b, c⟩ := h2
  subst a b c
  simp [h1]

end Tcell

namespace Tcell
namespace ATerm

theorem mem_rowFrom (t : ATerm) (x y : Int) (p : Int × Int) (h : p ∈ t.rowFrom x y) : p.2 = y ∧ x ≤ p.1 ∧ p.1 < t.w := by
  simp only [rowFrom, List.mem_map, List.mem_reverse, List.mem_range] at h
  obtain ⟨k, hk, rfl⟩ := h
  have e : Int.ofNat k = (k : Int) := rfl
  rw [e]
  refine ⟨rfl, ?_, ?_⟩ <;> simp only <;> omega

/-- the terminal after "write one narrow glyph at column `a`, go back, insert a character" when `a` is the second to last
column: the glyph is in the last column, column `a` holds an erased cell nothing is claimed about, and a wide glyph
whose right half was at `a` has been destroyed -/
theorem ich_after_put_grid (t : ATerm) (a y : Int) (b : List Nat) (st : Style) (ha : a + 2 = t.w) (i j : Int) :
    (({ (t.putAt a y b 1 st) with cur := some (a, y) } : ATerm).insertAt a y).grid i j =
      if j = y ∧ i = a then .garbage
      else if j = y ∧ i = a + 1 then .shown b false st
      else if j = y ∧ i = a - 1 ∧ t.grid a y = .cont then .garbage
      else t.grid i j := by
  have hpa : (t.putAt a y b 1 st).grid a y = .shown b false st := by
    rw [putAt_grid]
    have n1 : ¬ (a = a + 1 ∧ y = y ∧ (1 : Int) > 1) := by omega
    rw [if_neg n1, if_pos ⟨rfl, rfl⟩]; simp
  show (if j = y ∧ i = a then ACell.garbage
        else if j = y ∧ i = a - 1 ∧ (t.putAt a y b 1 st).grid a y = .cont then .garbage
        else if j = y ∧ a < i ∧ i < (t.putAt a y b 1 st).w then
          (match (t.putAt a y b 1 st).grid (i - 1) j with
           | .shown b false st => .shown b false st
           | .shown b true st => if i + 1 < (t.putAt a y b 1 st).w then .shown b true st else .garbage
           | .cont => if i - 1 = a then .garbage else .cont
           | .garbage => .garbage)
        else (t.putAt a y b 1 st).grid i j) = _
  rw [putAt_w, hpa]
  by_cases h1 : j = y ∧ i = a
  · rw [if_pos h1, if_pos h1]
  · rw [if_neg h1, if_neg h1]
    have h2 : ¬ (j = y ∧ i = a - 1 ∧ ACell.shown b false st = ACell.cont) := by intro h; exact absurd h.2.2 (by simp)
    rw [if_neg h2]
    by_cases h3 : j = y ∧ a < i ∧ i < t.w
    · have hi : i = a + 1 := by omega
      rw [if_pos h3, if_pos (show j = y ∧ i = a + 1 from ⟨h3.1, hi⟩)]
      have : (t.putAt a y b 1 st).grid (i - 1) j = .shown b false st := by
        rw [← hpa]; congr 1 <;> omega
      rw [this]
    · rw [if_neg h3]
      have n0 : ¬ (j = y ∧ i = a + 1) := by omega
      rw [if_neg n0, putAt_grid]
      have m1 : ¬ (i = a + 1 ∧ j = y ∧ (1 : Int) > 1) := by omega
      have m2 : ¬ (i = a ∧ j = y) := fun h => h1 ⟨h.2, h.1⟩
      have m3 : ¬ (i = a + 2 ∧ j = y ∧ (1 : Int) > 1 ∧ t.grid (a + 2) y = .cont) := by omega
      have m4 : ¬ (i = a + 1 ∧ j = y ∧ (1 : Int) ≤ 1 ∧ t.grid (a + 1) y = .cont) := fun h => n0 ⟨h.2.1, h.1⟩
      rw [if_neg m1, if_neg m2, if_neg m3, if_neg m4]
      by_cases h5 : i = a - 1 ∧ j = y ∧ t.grid a y = .cont
      · rw [if_pos h5, if_pos ⟨h5.2.1, h5.1, h5.2.2⟩]
      · rw [if_neg h5, if_neg (fun h => h5 ⟨h.2.1, h.1, h.2.2⟩)]

end ATerm
end Tcell

namespace Tcell
open Buf

/-! ### the trick branch of drawCell, unfolded -/

theorem Scr.paint_eq (c : DrawCfg) (s : Scr) (x y : Int) :
    s.paint c x y =
      ({ s with curstyle := resolveStyle s.style (s.cells.getContent x y).2.2.1,
                cx := if (s.txAt c x y).2 > 1 then -1 else s.cx + (s.txAt c x y).2,
                cells := s.cells.setDirty x y false },
       (if resolveStyle s.style (s.cells.getContent x y).2.2.1 ≠ s.curstyle
          then [Cmd.setPen (resolveStyle s.style (s.cells.getContent x y).2.2.1)] else []) ++
         [Cmd.put (s.txAt c x y).1 (s.txAt c x y).2],
       (s.txAt c x y).2) := by
  simp only [Scr.paint, resolveStyle, Scr.txAt]
  rfl

/-- the screen handed to the inner drawCell of the trick: corner cell marked clean, cell `p` marked dirty, cursor cache on
the second to last column -/
def Scr.cornerS2 (s : Scr) (x y p : Int) : Scr :=
  { s with curstyle := resolveStyle s.style (s.cells.getContent x y).2.2.1, cx := x - 1, cy := y,
           cells := (s.cells.setDirty x y false).setDirty p y true }

theorem Scr.drawCell_corner (c : DrawCfg) (s : Scr) (x y p : Int) (hd : s.cells.dirty x y = true)
    (hcor : y = s.h - 1 ∧ x = s.w - 1 ∧ c.cornerTrick = true)
    (hpx : Scr.coverStart (s.cells.setDirty x y false) y x.toNat 0 x = p) :
    s.drawCell c x y =
      ({ ((s.cornerS2 x y p).drawCellPlain c p y).1 with cx := 0, cy := 0 },
       [Cmd.goto (x - 1) y] ++ (s.paint c x y).2.1 ++ [.goto (x - 1) y, .insertChar] ++
         ((s.cornerS2 x y p).drawCellPlain c p y).2.1 ++ [.goto 0 0],
       (s.paint c x y).2.2) := by
  unfold Scr.drawCell
  rw [if_neg (by simp [hd]), if_pos hcor]
  have e : Scr.cornerPx (s.paint c x y).1 x y = p := by
    rw [Scr.paint_eq]; simp only [Scr.cornerPx, Scr.currentCornerRepaintsCover, if_true]; exact hpx
  simp only [e]
  rw [Scr.paint_eq]
  rfl

end Tcell

namespace Tcell
open Buf

theorem unlocked_of_locked_false (b : Buf) (x y : Int) (hr : b.inRange x y) (h : b.locked x y = false) :
    (b.cells x y).lock = false := by
  cases hl : (b.cells x y).lock
  · rfl
  · have := (locked_true_iff b x y).2 ⟨hr, hl⟩; rw [this] at h; exact absurd h (by decide)

/-- the text painted for the cell in the last column is one column wide -/
theorem txAt_last_col (c : DrawCfg) (s : Scr) (x y : Int) (hx : x = s.w - 1) (hl : s.cells.locked (x + 1) y = false) :
    (s.txAt c x y).2 = 1 := by
  simp only [Scr.txAt, hl, Bool.and_false, Scr.cellTextG_false, Scr.cellText]
  split
  · split <;> rfl
  · rename_i h
    split
    · rfl
    · simp only; omega

/-- one loop iteration at the bottom-right corner cell of a terminal that needs the insert-character trick -/
theorem visit_corner {c : DrawCfg} (hrw : RwOk c.rw) (hct : c.Walk) {d : Option Style} {s : Scr} {t : ATerm} {x y : Int}
    (inv : PassInv c d s t x y) (hr : s.cells.inRange x y) (hd : s.cells.dirty x y = true)
    (hcor : y = s.h - 1 ∧ x = s.w - 1 ∧ c.cornerTrick = true)
    (hw2 : 2 ≤ s.w) (hul : ∀ i, s.cells.locked i y = false) (gh : CornerGhost s x y) :
    VisitPost c d s t x y (s.visit c x y).1 (t.applyAll (s.visit c x y).2.1) (s.visit c x y).2.2 := by
  have hy := hcor.1; have hx := hcor.2.1
  have hcw := inv.cw; have hch := inv.ch; have htw := inv.tw; have hth := inv.th
  have hxy : 0 ≤ x ∧ x < s.w ∧ 0 ≤ y ∧ y < s.h := by simp only [inRange_iff] at hr; omega
  have hlock : (s.cells.cells x y).lock = false := by apply isDirty_true_unlocked; simpa [dirty, hr] using hd
  have hgc := getContent_wok hrw s.cells x y hr (inv.wok x y)
  -- the cell the pass came from
  obtain ⟨p, hp0, hpreach, hpx, hpm, hplast, hpnb⟩ := gh.pred (by omega)
  have hrwp := rawW_pos s.cells p y
  have hrp : s.cells.inRange p y := by simp only [inRange_iff]; omega
  have hgcp := getContent_wok hrw s.cells p y hrp (inv.wok p y)
  have hpw : rawW s.cells p y = (s.cells.getContent p y).2.2.2 ∧ (rawW s.cells p y = 1 ∨ rawW s.cells p y = 2) := by
    have := obsWidth_pos hrw (s.cells.cells p y).currMain
    unfold rawW; rw [hgcp]; simp only; split <;> omega
  have hplock : (s.cells.cells p y).lock = false := unlocked_of_locked_false _ _ _ hrp (hul p)
  have hpne : p ≠ x := by omega
  -- buffers
  have hc1 : ∀ i j, (s.cells.setDirty x y false).cells i j =
      if i = x ∧ j = y then (s.cells.cells i j).markClean else s.cells.cells i j := by
    intro i j; rw [setDirty_false_cells]; simp [hr]
  have hwok1 : ∀ i j, WOk c.rw ((s.cells.setDirty x y false).cells i j) := by
    intro i j; rw [hc1]; split
    · exact wok_markClean hrw _ (inv.wok i j)
    · exact inv.wok i j
  have hgc1 : ∀ i j, (s.cells.setDirty x y false).getContent i j = s.cells.getContent i j :=
    getContent_setDirty hrw s.cells x y false inv.wok
  have hrp1 : (s.cells.setDirty x y false).inRange p y := by simpa [inRange_iff] using hrp
  have hc2 : ∀ i j, ((s.cells.setDirty x y false).setDirty p y true).cells i j =
      if i = p ∧ j = y then (s.cells.cells i j).markDirty
      else if i = x ∧ j = y then (s.cells.cells i j).markClean else s.cells.cells i j := by
    intro i j; rw [setDirty_true_cells, hc1]
    by_cases h1 : i = p ∧ j = y
    · rw [if_pos ⟨h1.1, h1.2, hrp1⟩, if_pos h1, if_neg (by omega)]
    · rw [if_neg (fun h => h1 ⟨h.1, h.2.1⟩), if_neg h1]
  have hwok2 : ∀ i j, WOk c.rw (((s.cells.setDirty x y false).setDirty p y true).cells i j) := by
    intro i j; rw [hc2]; split
    · exact wok_markDirty _ (inv.wok i j)
    · split
      · exact wok_markClean hrw _ (inv.wok i j)
      · exact inv.wok i j
  have hgc2 : ∀ i j, ((s.cells.setDirty x y false).setDirty p y true).getContent i j = s.cells.getContent i j := by
    intro i j; rw [getContent_setDirty hrw _ p y true hwok1 i j, hgc1]
  -- the `px` loop finds the cell the pass came from
  have hpxeq : Scr.coverStart (s.cells.setDirty x y false) y x.toNat 0 x = p := by
    rw [coverStart_congr s.cells _ y (fun i => hgc1 i y)]
    exact coverStart_reach hpreach x (by omega) (by omega) _ (by omega)
  have hdcell := Scr.drawCell_corner c s x y p hd hcor hpxeq
  have htx1 : (s.txAt c x y).2 = 1 := txAt_last_col c s x y hx (hul _)
  have hpaintw : (s.paint c x y).2.2 = 1 := by rw [Scr.paint_eq]; exact htx1
  -- names
  generalize hcm : (s.cells.cells x y).currMain = cm at hgc
  generalize hcomb : (s.cells.cells x y).currComb = comb at hgc
  generalize hcst : (s.cells.cells x y).currStyle = cst at hgc
  obtain ⟨style, hstyle⟩ : ∃ st, st = resolveStyle s.style (s.cells.getContent x y).2.2.1 := ⟨_, rfl⟩
  have hstyle' : style = resolveStyle s.style cst := by rw [hstyle, hgc]
  have hstv : style ≠ styleInvalid := by
    rw [hstyle']; apply resolveStyle_valid _ _ inv.valid.1
    have := inv.valid.2 x y; rw [hcst] at this; exact this
  have hstyle1 : cst ≠ {} → style = cst := by intro h; rw [hstyle']; simp [resolveStyle, h]
  have hstyle2 : cst = {} → ∀ d', d = some d' → style = d' := by
    intro h d' hd'; rw [hstyle']; simp only [resolveStyle, h, if_true]; exact (inv.dcompat d' hd').symm
  obtain ⟨tx, htx⟩ : ∃ tx, tx = s.txAt c x y := ⟨_, rfl⟩
  have htx2 : tx.2 = 1 := by rw [htx]; exact htx1
  have htxdef : tx = Scr.cellTextG c s.w x (obsMain c.rw cm) comb (obsWidth c.rw cm) false := by
    rw [htx]; simp only [Scr.txAt, hgc, hul, Bool.and_false]
  have hshown : shownOfG c s.w x (if cm = 0 then 32 else cm) comb style false = .shown tx.1 false style := by
    have := obsMain_markClean hrw cm
    simp only [shownOfG, this.1, this.2, ← htxdef, htx2]
    simp
  have hpaintcmds : (s.paint c x y).2.1 = (if style ≠ s.curstyle then [Cmd.setPen style] else []) ++ [Cmd.put tx.1 1] := by
    rw [Scr.paint_eq]; simp only [← hstyle, ← htx, htx2]
  -- the terminal after "go to w-2, set the pen, write the corner glyph, go back, ich1"
  have happ : ∀ (t1 : ATerm) (l1 l2 : List Cmd), t1.applyAll (l1 ++ l2) = (t1.applyAll l1).applyAll l2 := by
    intro t1 l1 l2; simp [ATerm.applyAll, List.foldl_append]
  have hgoto : ∀ t1 : ATerm, t1.w = t.w → t1.h = t.h → t1.apply (Cmd.goto (x - 1) y) = { t1 with cur := some (x - 1, y) } := by
    intro t1 e1 e2
    simp only [ATerm.apply, ATerm.clampX, ATerm.clampY]
    have h1 : ¬ x - 1 < 0 := by omega
    have h2 : ¬ x - 1 ≥ t1.w := by omega
    have h3 : ¬ y < 0 := by omega
    have h4 : ¬ y ≥ t1.h := by omega
    simp only [h1, h2, h3, h4, if_false]
  have hterm1 : t.applyAll ([Cmd.goto (x - 1) y] ++ (s.paint c x y).2.1 ++ [.goto (x - 1) y, .insertChar]) =
      (({ (({ t with cur := some (x - 1, y), pen := some style } : ATerm).putAt (x - 1) y tx.1 1 style) with
          cur := some (x - 1, y) } : ATerm).insertAt (x - 1) y) := by
    rw [hpaintcmds, happ, happ, happ]
    have e1 : t.applyAll [Cmd.goto (x - 1) y] = { t with cur := some (x - 1, y) } := hgoto t rfl rfl
    rw [e1]
    have e2 : (({ t with cur := some (x - 1, y) } : ATerm).applyAll (if style ≠ s.curstyle then [Cmd.setPen style] else [])) =
        { t with cur := some (x - 1, y), pen := some style } := by
      by_cases hp : style ≠ s.curstyle
      · rw [if_pos hp]; rfl
      · have he : style = s.curstyle := by
          by_cases h : style = s.curstyle
          · exact h
          · exact absurd h hp
        have := inv.kpen (by rw [← he]; exact hstv)
        rw [← he] at this
        rw [if_neg hp]
        show ({ t with cur := some (x - 1, y) } : ATerm) = _
        cases t; simp_all
    rw [e2]
    have hig : ({ t with cur := some (x - 1, y), pen := some style } : ATerm).inGrid (x - 1) y := by
      simp only [ATerm.inGrid]; omega
    have e3 : ({ t with cur := some (x - 1, y), pen := some style } : ATerm).applyAll [Cmd.put tx.1 1] =
        ({ t with cur := some (x - 1, y), pen := some style } : ATerm).putAt (x - 1) y tx.1 1 style := by
      show ({ t with cur := some (x - 1, y), pen := some style } : ATerm).apply (Cmd.put tx.1 1) = _
      simp only [ATerm.apply, hig, if_true]
    rw [e3]
    show ((({ t with cur := some (x - 1, y), pen := some style } : ATerm).putAt (x - 1) y tx.1 1 style).apply
      (Cmd.goto (x - 1) y)).apply Cmd.insertChar = _
    rw [hgoto _ (by simp) (by simp)]
    have hig2 : ({ (({ t with cur := some (x - 1, y), pen := some style } : ATerm).putAt (x - 1) y tx.1 1 style) with
          cur := some (x - 1, y) } : ATerm).inGrid (x - 1) y := by
      simp only [ATerm.inGrid, ATerm.putAt_w, ATerm.putAt_h]; omega
    simp only [ATerm.apply, hig2, if_true]
  generalize htC : (({ (({ t with cur := some (x - 1, y), pen := some style } : ATerm).putAt (x - 1) y tx.1 1 style) with
          cur := some (x - 1, y) } : ATerm).insertAt (x - 1) y) = tC at hterm1
  have hCg : ∀ i j, tC.grid i j =
      if j = y ∧ i = x - 1 then .garbage
      else if j = y ∧ i = x then .shown tx.1 false style
      else if j = y ∧ i = x - 2 ∧ t.grid (x - 1) y = .cont then .garbage
      else t.grid i j := by
    intro i j
    rw [← htC, ATerm.ich_after_put_grid _ (x - 1) y tx.1 style (by show x - 1 + 2 = t.w; omega)]
    have e1 : x - 1 + 1 = x := by omega
    have e2 : x - 1 - 1 = x - 2 := by omega
    rw [e1, e2]
  have hCcur : tC.cur = some (x - 1, y) := by rw [← htC]; rfl
  have hCpen : tC.pen = some style := by rw [← htC]; show (ATerm.putAt _ _ _ _ _ _).pen = _; rw [ATerm.putAt_pen]
  have hCd : tC.w = t.w ∧ tC.h = t.h := by
    rw [← htC]; exact ⟨by show (ATerm.putAt _ _ _ _ _ _).w = _; rw [ATerm.putAt_w], by show (ATerm.putAt _ _ _ _ _ _).h = _; rw [ATerm.putAt_h]⟩
  have hCv : tC.visible = t.visible ∧ tC.shape = t.shape := by
    rw [← htC]
    exact ⟨by show (ATerm.putAt _ _ _ _ _ _).visible = _; rw [ATerm.putAt_visible],
           by show (ATerm.putAt _ _ _ _ _ _).shape = _; rw [ATerm.putAt_shape]⟩
  have hCwr : ∃ l, tC.writes = l ++ t.writes ∧ tC.covered = l ++ t.covered ∧ ∀ q ∈ l, q.2 = y ∧ x - 1 ≤ q.1 ∧ q.1 < s.w := by
    refine ⟨ATerm.rowFrom ({ (({ t with cur := some (x - 1, y), pen := some style } : ATerm).putAt (x - 1) y tx.1 1 style) with
          cur := some (x - 1, y) } : ATerm) (x - 1) y ++ [(x - 1, y)], ?_, ?_, ?_⟩
    · rw [← htC]
      show ATerm.rowFrom _ _ _ ++ (ATerm.putAt ({ t with cur := some (x - 1, y), pen := some style } : ATerm) (x - 1) y tx.1 1 style).writes = _
      rw [ATerm.putAt_writes]; simp
    · rw [← htC]
      show ATerm.rowFrom _ _ _ ++ (ATerm.putAt ({ t with cur := some (x - 1, y), pen := some style } : ATerm) (x - 1) y tx.1 1 style).covered = _
      rw [ATerm.putAt_covered]; simp
    · intro q hq
      rcases List.mem_append.1 hq with hq | hq
      · have := ATerm.mem_rowFrom _ _ _ _ hq
        simp only [ATerm.putAt_w] at this
        refine ⟨this.1, this.2.1, ?_⟩; have := this.2.2; omega
      · simp only [List.mem_singleton] at hq; subst hq; exact ⟨rfl, by simp, by simp; omega⟩
  -- the cell the pass came from is not the right half of anything on the terminal
  have hpnc : t.grid p y ≠ .cont := by
    intro h
    rcases inv.g2 p y hrp h with h' | h'
    · rw [hplock] at h'; exact absurd h' (by decide)
    · exact hpm h'
  have hpcase : p = x - 1 ∨ (p = x - 2 ∧ (s.cells.cells (x - 1) y).lastMain = 0) := by
    rcases hpw.2 with h | h
    · left; omega
    · right
      have e : p = x - 2 := by omega
      refine ⟨e, ?_⟩
      have := hpnb (by omega)
      rw [e] at this
      have e2 : x - 2 + 1 = x - 1 := by omega
      rw [e2] at this; exact this
  have hchg : t.grid (x - 1) y = .cont → p = x - 2 := by
    intro h
    rcases hpcase with h' | h'
    · rw [h'] at hpnc; exact absurd h hpnc
    · exact h'.1
  have key2 : ∀ (cells' : Buf), (cells'.w = s.cells.w ∧ cells'.h = s.cells.h) →
      (∀ i j, cells'.cells i j =
        if i = p ∧ j = y then (s.cells.cells i j).markDirty
        else if i = x ∧ j = y then (s.cells.cells i j).markClean else s.cells.cells i j) →
      (∀ i j, cells'.getContent i j = s.cells.getContent i j) →
      PassInv c d { s with curstyle := style, cx := x - 1, cy := y, cells := cells' } tC p y := by
    intro cells' hdims hcells hgcs
    have hir : ∀ i j, cells'.inRange i j ↔ s.cells.inRange i j := by
      intro i j; simp only [inRange_iff, hdims.1, hdims.2]
    have hlks : ∀ i j, (cells'.cells i j).lock = (s.cells.cells i j).lock := by
      intro i j; rw [hcells]; split
      · simp
      · split <;> simp [Cell.markClean]
    have hlk : ∀ i j, cells'.locked i j = s.cells.locked i j := locked_congr _ _ hdims.1 hdims.2 hlks
    have hwds : ∀ i j, (cells'.cells i j).width = (s.cells.cells i j).width := by
      intro i j; rw [hcells]; split
      · simp [Cell.markDirty]
      · split <;> simp [Cell.markClean]
    have hkeep : ∀ i j, ¬ (i = p ∧ j = y) → ¬ (i = x ∧ j = y) → (s.cells.cells i j).lastMain ≠ 0 →
        tC.grid i j = t.grid i j := by
      intro i j h1 h2 hm
      rw [hCg]
      have n1 : ¬ (j = y ∧ i = x - 1) := by
        intro h
        rcases hpcase with h' | h'
        · exact h1 ⟨by omega, h.1⟩
        · apply hm; rw [h.1, h.2]; exact h'.2
      have n2 : ¬ (j = y ∧ i = x) := fun h => h2 ⟨h.2, h.1⟩
      have n3 : ¬ (j = y ∧ i = x - 2 ∧ t.grid (x - 1) y = .cont) := by
        intro h; exact h1 ⟨by have := hchg h.2.2; omega, h.1⟩
      rw [if_neg n1, if_neg n2, if_neg n3]
    refine { tw := ?_, th := ?_, cw := ?_, ch := ?_, wok := ?_, valid := ?_, g1 := ?_, g2 := ?_, wf := ?_, g3 := ?_,
             kcur := ?_, kpen := ?_, q := ?_, dcompat := inv.dcompat }
    · simp [hCd.1, htw]
    · simp [hCd.2, hth]
    · simp [hdims.1, hcw]
    · simp [hdims.2, hch]
    · intro i j; simp only [hcells]; split
      · exact wok_markDirty _ (inv.wok i j)
      · split
        · exact wok_markClean hrw _ (inv.wok i j)
        · exact inv.wok i j
    · refine ⟨inv.valid.1, ?_⟩
      intro i j; simp only [hcells]; split
      · simpa using inv.valid.2 i j
      · split
        · simpa using inv.valid.2 i j
        · exact inv.valid.2 i j
    · -- g1
      intro i j hrij hl hm
      have hrij' := (hir i j).1 hrij
      simp only at hrij hl hm ⊢
      by_cases h1 : i = p ∧ j = y
      · rw [hcells, if_pos h1] at hm; simp at hm
      · by_cases h2 : i = x ∧ j = y
        · have hcxy := hcells i j
          rw [if_neg h1, if_pos h2] at hcxy
          obtain ⟨rfl, rfl⟩ := h2
          rw [hcxy]
          simp only [Cell.markClean_lastMain, Cell.markClean_lastComb, Cell.markClean_lastStyle, hcm, hcomb, hcst]
          refine ⟨style, false, ?_, hstyle1, hstyle2, by intro h; exact absurd h (by decide)⟩
          rw [hCg, hshown]
          have n1 : ¬ (j = j ∧ i = i - 1) := by omega
          rw [if_neg n1, if_pos ⟨rfl, rfl⟩]
        · have hce : cells'.cells i j = s.cells.cells i j := by rw [hcells, if_neg h1, if_neg h2]
          rw [hce] at hl hm ⊢
          obtain ⟨st', nl, hg, hs1, hs2, hb⟩ := inv.g1 i j hrij' hl hm
          refine ⟨st', nl, ?_, hs1, hs2, fun a1 a2 => ⟨(hb a1 a2).1, (hb a1 a2).2.congr (hwds i j) (hlk _ _) (hgcs i j)⟩⟩
          rw [← hg]; exact hkeep i j h1 h2 hm
    · -- g2
      intro i j hrij hcont
      have hrij' := (hir i j).1 hrij
      simp only at hrij hcont ⊢
      rw [hCg] at hcont
      by_cases c1 : j = y ∧ i = x - 1
      · rw [if_pos c1] at hcont; exact absurd hcont (by simp)
      · rw [if_neg c1] at hcont
        by_cases c2 : j = y ∧ i = x
        · rw [if_pos c2] at hcont; exact absurd hcont (by simp)
        · rw [if_neg c2] at hcont
          by_cases c3 : j = y ∧ i = x - 2 ∧ t.grid (x - 1) y = .cont
          · rw [if_pos c3] at hcont; exact absurd hcont (by simp)
          · rw [if_neg c3] at hcont
            rw [hcells]
            by_cases h1 : i = p ∧ j = y
            · rw [if_pos h1]; right; simp
            · rw [if_neg h1, if_neg (fun h => c2 ⟨h.2, h.1⟩)]
              exact inv.g2 i j hrij' hcont
    · -- wf
      intro i j hrij hcont
      have hrij' := (hir i j).1 hrij
      have hi : 0 ≤ i ∧ i < s.w ∧ 0 ≤ j ∧ j < s.h := by simp only [inRange_iff] at hrij'; omega
      simp only at hrij hcont ⊢
      rw [hCg] at hcont
      by_cases c1 : j = y ∧ i = x - 1
      · rw [if_pos c1] at hcont; exact absurd hcont (by simp)
      · rw [if_neg c1] at hcont
        by_cases c2 : j = y ∧ i = x
        · rw [if_pos c2] at hcont; exact absurd hcont (by simp)
        · rw [if_neg c2] at hcont
          by_cases c3 : j = y ∧ i = x - 2 ∧ t.grid (x - 1) y = .cont
          · rw [if_pos c3] at hcont; exact absurd hcont (by simp)
          · rw [if_neg c3] at hcont
            obtain ⟨b, st, hb⟩ := inv.wf i j hrij' hcont
            refine ⟨b, st, ?_⟩
            rw [hCg, ← hb]
            have m1 : ¬ (j = y ∧ i - 1 = x - 1) := fun h => c2 ⟨h.1, by omega⟩
            have m2 : ¬ (j = y ∧ i - 1 = x) := by omega
            have m3 : ¬ (j = y ∧ i - 1 = x - 2 ∧ t.grid (x - 1) y = .cont) := fun h => c1 ⟨h.1, by omega⟩
            rw [if_neg m1, if_neg m2, if_neg m3]
    · -- g3
      intro i j hrij hl hm b st hsh hlt
      have hrij' := (hir i j).1 hrij
      have hi : 0 ≤ i ∧ i < s.w ∧ 0 ≤ j ∧ j < s.h := by simp only [inRange_iff] at hrij'; omega
      simp only at hrij hl hm hsh hlt ⊢
      by_cases h1 : i = p ∧ j = y
      · rw [hcells, if_pos h1] at hm; simp at hm
      · by_cases h2 : i = x ∧ j = y
        · exfalso; omega
        · have hce : cells'.cells i j = s.cells.cells i j := by rw [hcells, if_neg h1, if_neg h2]
          rw [hce] at hl hm
          rw [hkeep i j h1 h2 hm] at hsh
          have hold := inv.g3 i j hrij' hl hm b st hsh hlt
          rw [hCg]
          have c1 : ¬ (j = y ∧ i = x - 1) := by
            intro h
            -- then (x, y) would be a continuation cell, but the corner cell is dirty and unlocked … only g2 is needed
            rcases hpcase with h' | h'
            · exact h1 ⟨by omega, h.1⟩
            · apply hm; rw [h.1, h.2]; exact h'.2
          have n1 : ¬ (j = y ∧ i + 1 = x - 1) := by
            intro h
            have e : i + 1 = x - 1 := h.2
            rw [e, h.1] at hold
            have := hchg hold
            exact h1 ⟨by omega, h.1⟩
          have n2 : ¬ (j = y ∧ i + 1 = x) := fun h => c1 ⟨h.1, by omega⟩
          have n3 : ¬ (j = y ∧ i + 1 = x - 2 ∧ t.grid (x - 1) y = .cont) := by
            intro h
            have hr1 : s.cells.inRange (x - 1) y := by simp only [inRange_iff]; omega
            obtain ⟨b', st'', hb⟩ := inv.wf (x - 1) y hr1 h.2.2
            have e : i + 1 = x - 2 := h.2.1
            rw [e, h.1] at hold
            have e2 : x - 1 - 1 = x - 2 := by omega
            rw [e2, hold] at hb; exact absurd hb (by simp)
          rw [if_neg n1, if_neg n2, if_neg n3]; exact hold
    · intro _; exact hCcur
    · intro _; exact hCpen
    · -- q at p
      intro h1 h2 _ hl hm b st hsh
      simp only at h1 h2 hl hm hsh
      have n1 : ¬ (p - 1 = p ∧ y = y) := by omega
      have n2 : ¬ (p - 1 = x ∧ y = y) := by omega
      have hce : cells'.cells (p - 1) y = s.cells.cells (p - 1) y := by rw [hcells, if_neg n1, if_neg n2]
      rw [hce] at hl hm
      rw [hkeep (p - 1) y n1 n2 hm] at hsh
      have hr1 : s.cells.inRange (p - 1) y := by simp only [inRange_iff]; omega
      have := inv.g3 (p - 1) y hr1 hl hm b st hsh (by omega)
      have e : p - 1 + 1 = p := by omega
      rw [e] at this; exact hpnc this
  -- the inner drawCell on the cell the pass came from is an ordinary visit of a dirty cell
  have hS2 : s.cornerS2 x y p =
      { s with curstyle := style, cx := x - 1, cy := y, cells := (s.cells.setDirty x y false).setDirty p y true } := by
    rw [hstyle]; rfl
  have inv2 := key2 _ ⟨by simp, by simp⟩ hc2 hgc2
  rw [← hS2] at inv2
  have hS2c : (s.cornerS2 x y p).cells = (s.cells.setDirty x y false).setDirty p y true := rfl
  have hS2d : (s.cornerS2 x y p).w = s.w ∧ (s.cornerS2 x y p).h = s.h ∧ (s.cornerS2 x y p).style = s.style ∧
      (s.cornerS2 x y p).cursorx = s.cursorx ∧ (s.cornerS2 x y p).cursory = s.cursory ∧
      (s.cornerS2 x y p).cursorStyle = s.cursorStyle ∧ (s.cornerS2 x y p).cursorColor = s.cursorColor ∧
      (s.cornerS2 x y p).clear = s.clear ∧ (s.cornerS2 x y p).fini = s.fini := ⟨rfl, rfl, rfl, rfl, rfl, rfl, rfl, rfl, rfl⟩
  have hr2 : (s.cornerS2 x y p).cells.inRange p y := by rw [hS2c]; simpa [inRange_iff] using hrp
  have hd2 : (s.cornerS2 x y p).cells.dirty p y = true := by
    have hcp := hc2 p y
    rw [if_pos ⟨rfl, rfl⟩] at hcp
    have hr2' : ((s.cells.setDirty x y false).setDirty p y true).inRange p y := by simpa [inRange_iff] using hrp
    rw [hS2c]
    simp only [dirty, if_pos hr2', hcp, Cell.isDirty]
    simp [Cell.markDirty, hplock]
  have hnc2 : ¬ (y = (s.cornerS2 x y p).h - 1 ∧ p = (s.cornerS2 x y p).w - 1 ∧ c.cornerTrick = true) := by
    intro h; have := h.2.1; rw [hS2d.1] at this; omega
  have vp3 := visit_dirty hrw hct inv2 hr2 hd2 hnc2
  -- the repainted cell is clean again, exactly as the pass left it
  have hdp := Scr.drawCellPlain_dirty c (s.cornerS2 x y p) p y hd2
  have hc3 : ∀ i j, ((s.cornerS2 x y p).cells.setDirty p y false).cells i j =
      if i = x ∧ j = y then (s.cells.cells i j).markClean else s.cells.cells i j := by
    intro i j
    rw [setDirty_false_cells, hS2c, hc2]
    by_cases h1 : i = p ∧ j = y
    · have hr2' : ((s.cells.setDirty x y false).setDirty p y true).inRange p y := by rw [← hS2c]; exact hr2
      rw [if_pos ⟨h1.1, h1.2, hr2'⟩, if_pos h1, if_neg (by omega)]
      obtain ⟨rfl, rfl⟩ := h1
      exact Cell.markClean_markDirty _ hpm hplast
    · rw [if_neg (fun h => h1 ⟨h.1, h.2.1⟩), if_neg h1]
  have hv2 : (s.cornerS2 x y p).visit c p y =
      (((s.cornerS2 x y p).drawCellPlain c p y).1, ((s.cornerS2 x y p).drawCellPlain c p y).2.1,
       ((s.cornerS2 x y p).drawCellPlain c p y).2.2) := by
    have hdc : (s.cornerS2 x y p).drawCell c p y = (s.cornerS2 x y p).drawCellPlain c p y := by
      simp [Scr.drawCell, hd2, hnc2]
    simp only [Scr.visit, hdc]
    by_cases hmark : ((s.cornerS2 x y p).drawCellPlain c p y).2.2 > 1 ∧ p + 1 < ((s.cornerS2 x y p).drawCellPlain c p y).1.w
    · rw [if_pos hmark]
      have hwide : ((s.cornerS2 x y p).txAt c p y).2 > 1 := by have := hmark.1; rw [hdp] at this; exact this
      have hraw : rawW s.cells p y > 1 := by
        rcases hpw.2 with h | h
        · exfalso
          have hle : ((s.cornerS2 x y p).cells.getContent p y).2.2.2 ≤ 1 := by rw [hS2c, hgc2, ← hpw.1]; omega
          have := cellTextG_narrow c (s.cornerS2 x y p).w p ((s.cornerS2 x y p).cells.getContent p y).1
            ((s.cornerS2 x y p).cells.getContent p y).2.1 _ (c.guardLocked && (s.cornerS2 x y p).cells.locked (p + 1) y) hle
          simp only [Scr.txAt] at hwide; omega
        · omega
      have hz : (((s.cornerS2 x y p).drawCellPlain c p y).1.cells.cells (p + 1) y).lastMain = 0 := by
        rw [hdp]; simp only
        rw [hc3, if_neg (by omega)]
        exact hpnb hraw
      rw [setDirty_true_idem _ _ _ hz]
    · rw [if_neg hmark]
  have hv : s.visit c x y =
      ({ ((s.cornerS2 x y p).visit c p y).1 with cx := 0, cy := 0 },
       [Cmd.goto (x - 1) y] ++ (s.paint c x y).2.1 ++ [.goto (x - 1) y, .insertChar] ++
         ((s.cornerS2 x y p).visit c p y).2.1 ++ [.goto 0 0], 1) := by
    rw [hv2]
    simp only [Scr.visit, hdcell, hpaintw]
    have : ¬ ((1 : Int) > 1 ∧ x + 1 < ((s.cornerS2 x y p).drawCellPlain c p y).1.w) := by omega
    simp only [this, if_false]
  rw [hv]; simp only
  rw [happ, happ, hterm1]
  generalize hS3 : ((s.cornerS2 x y p).visit c p y).1 = S3 at vp3 ⊢
  generalize ht3 : tC.applyAll ((s.cornerS2 x y p).visit c p y).2.1 = t3 at vp3 ⊢
  generalize hwd3 : ((s.cornerS2 x y p).visit c p y).2.2 = wd3 at vp3
  have hS3c : ∀ i j, S3.cells.cells i j = if i = x ∧ j = y then (s.cells.cells i j).markClean else s.cells.cells i j := by
    intro i j; rw [← hS3, hv2]; simp only; rw [hdp]; exact hc3 i j
  have hS3w : S3.w = s.w := by rw [vp3.w_same, hS2d.1]
  have hS3h : S3.h = s.h := by rw [vp3.h_same, hS2d.2.1]
  have ht3d : t3.w = s.w ∧ t3.h = s.h := ⟨by rw [vp3.inv.tw, hS3w], by rw [vp3.inv.th, hS3h]⟩
  have htF : t3.applyAll [Cmd.goto 0 0] = { t3 with cur := some (0, 0) } := by
    show t3.apply (Cmd.goto 0 0) = _
    simp only [ATerm.apply, ATerm.clampX, ATerm.clampY]
    have h2 : ¬ (0 : Int) ≥ t3.w := by omega
    have h4 : ¬ (0 : Int) ≥ t3.h := by omega
    simp [h2, h4]
  rw [htF]
  have hgcF : ∀ i j, S3.cells.getContent i j = s.cells.getContent i j := by
    intro i j; rw [vp3.gc_same, hS2c, hgc2]
  have hlkF : ∀ i j, (S3.cells.cells i j).lock = (s.cells.cells i j).lock := by
    intro i j; rw [hS3c]; split <;> simp [Cell.markClean]
  have hstep1 : 1 ≤ stepW c s.cells x y := by
    have := obsWidth_pos hrw cm
    unfold stepW; rw [hgc]; simp only; split <;> omega
  have hcsp : Scr.coverStart s.cells y x.toNat 0 x = p := coverStart_reach hpreach x (by omega) (by omega) _ (by omega)
  refine { inv := ?_, wd_pos := by omega, wd_eq := Or.inr ⟨by omega, by omega⟩, gc_same := hgcF, lock_same := hlkF,
           other_same := ?_, done := ?_, w_same := hS3w, h_same := hS3h, style_same := by rw [vp3.style_same, hS2d.2.2.1],
           cursor_same := ?_, flags_same := ?_, writes := ?_, covers := ?_, vis_same := ?_,
           nb := by intro h; omega }
  · refine { toSyncInv := vp3.inv.toSyncInv.congr rfl rfl rfl rfl rfl rfl rfl, kcur := fun _ => rfl,
             kpen := vp3.inv.kpen, q := ?_, dcompat := vp3.inv.dcompat }
    intro _ h2; exfalso; simp only [hS3w] at h2; omega
  · intro i j hne; simp only; rw [hS3c, if_neg (by omega)]
  · intro _; simp only; rw [hS3c, if_pos ⟨rfl, rfl⟩]
    exact ⟨Cell.markClean_lastMain_ne _, by simp⟩
  · obtain ⟨a1, a2, a3, a4⟩ := vp3.cursor_same
    exact ⟨a1.trans hS2d.2.2.2.1, a2.trans hS2d.2.2.2.2.1, a3.trans hS2d.2.2.2.2.2.1, a4.trans hS2d.2.2.2.2.2.2.1⟩
  · exact ⟨vp3.flags_same.1.trans hS2d.2.2.2.2.2.2.2.1, vp3.flags_same.2.trans hS2d.2.2.2.2.2.2.2.2⟩
  · obtain ⟨ws3, hw3, _, hm3⟩ := vp3.writes
    obtain ⟨l, hl1, _, hl3⟩ := hCwr
    refine ⟨ws3 ++ l, by simp only; rw [hw3, hl1]; simp, fun h => by rw [hd] at h; exact absurd h (by decide), ?_⟩
    intro q hq
    rcases List.mem_append.1 hq with hq | hq
    · rcases hm3 q hq with h | h
      · right; refine ⟨hcor.2.2, hy, hx, by rw [h], Or.inr ?_⟩; rw [h, hcsp]
      · exfalso; have := h.2.2.1; rw [hS2d.1] at this; omega
    · obtain ⟨q1, q2, q3⟩ := hl3 q hq
      by_cases hqx : q.1 = x
      · left; exact Prod.ext hqx q1
      · right; exact ⟨hcor.2.2, hy, hx, q1, Or.inl (by omega)⟩
  · obtain ⟨cs3, hcv3, hm3⟩ := vp3.covers
    obtain ⟨l, _, hl2, hl3⟩ := hCwr
    refine ⟨cs3 ++ l, by simp only; rw [hcv3, hl2]; simp, ?_⟩
    intro hg q hq
    rcases List.mem_append.1 hq with hq | hq
    · have := hm3 hg q hq
      rw [locked_congr s.cells (s.cornerS2 x y p).cells (by rw [hS2c]; simp) (by rw [hS2c]; simp)
        (by intro i j; rw [hS2c, hc2]; split
            · simp
            · split <;> simp [Cell.markClean])] at this
      exact this
    · obtain ⟨q1, _, _⟩ := hl3 q hq
      rw [q1]; exact hul _
  · exact ⟨vp3.vis_same.1.trans hCv.1, vp3.vis_same.2.trans hCv.2⟩

end Tcell
