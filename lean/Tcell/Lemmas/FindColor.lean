import Tcell.Model.Color
/-
Lemmas about the FindColor scan (colorfit.go) for an arbitrary metric.
-/
namespace Tcell.Color

/-- What the theorems need from float64 `<` restricted to non-NaN values: a strict weak order
(irreflexive, transitive, and `a < b → a < c ∨ c < b`), and `+Inf` is not a NaN.  IEEE-754 `<` on non-NaN values is a
strict total order, which is a special case (`Props.C16.bitsMetric_ordered`). -/
structure Metric.Ordered (m : Metric α) : Prop where
  inf_num : m.isNaN m.inf = false
  irrefl : ∀ a, m.isNaN a = false → m.lt a a = false
  trans : ∀ a b c, m.isNaN a = false → m.isNaN b = false → m.isNaN c = false →
    m.lt a b = true → m.lt b c = true → m.lt a c = true
  weak : ∀ a b c, m.isNaN a = false → m.isNaN b = false → m.isNaN c = false →
    m.lt a b = true → m.lt a c = true ∨ m.lt c b = true

variable {α : Type} (m : Metric α)

theorem Metric.nd_num (h : m.Ordered) (c q : Nat) : m.isNaN (m.nd c q) = false := by
  unfold Metric.nd
  by_cases hn : m.isNaN (m.dist c q) = true
  · simp [hn, h.inf_num]
  · simp only [hn, if_false]; simpa using hn

theorem fcScan_nil (c : Nat) (st : FCState α) : fcScan m c st [] = st := rfl

theorem fcScan_cons (c : Nat) (st : FCState α) (q : Nat) (t : List Nat) :
    fcScan m c st (q :: t) = fcScan m c (fcStep m c st q) t := rfl

theorem fcStep_of_default (c : Nat) (x : α) (q : Nat) : fcStep m c (cDefault, x) q = (q, m.nd c q) := by
  simp [fcStep]

theorem fcStep_of_ne (c : Nat) (st : FCState α) (q : Nat) (h : st.1 ≠ cDefault) :
    fcStep m c st q = if m.lt (m.nd c q) st.2 = true then (q, m.nd c q) else st := by
  unfold fcStep
  have : (st.1 == cDefault) = false := by simpa using h
  simp [this]

/-- The scan from a state that already holds a (non-default) match: either nothing closer is found, or the result is the
first strictly-improving position that is not improved upon later. -/
theorem fcScan_firstMin (h : m.Ordered) (c : Nat) :
    ∀ (l : List Nat) (st : FCState α), cDefault ∉ l → st.1 ≠ cDefault → m.isNaN st.2 = false →
      (fcScan m c st l = st ∧ ∀ q ∈ l, m.lt (m.nd c q) st.2 = false) ∨
      (∃ pre suf, l = pre ++ (fcScan m c st l).1 :: suf ∧
        (fcScan m c st l).2 = m.nd c (fcScan m c st l).1 ∧
        m.lt (fcScan m c st l).2 st.2 = true ∧
        (∀ q ∈ pre, m.lt (fcScan m c st l).2 (m.nd c q) = true) ∧
        (∀ q ∈ suf, m.lt (m.nd c q) (fcScan m c st l).2 = false)) := by
  intro l
  induction l with
  | nil => intro st _ _ _; left; exact ⟨rfl, by simp⟩
  | cons q t ih =>
    intro st hl hst hnum
    have hq : q ≠ cDefault := by
      intro e; apply hl; simp [e]
    have ht : cDefault ∉ t := fun e => hl (List.mem_cons_of_mem _ e)
    rw [fcScan_cons, fcStep_of_ne m c st q hst]
    have hndq := m.nd_num h c q
    by_cases hlt : m.lt (m.nd c q) st.2 = true
    · rw [if_pos hlt]
      rcases ih (q, m.nd c q) ht hq hndq with ⟨he, hall⟩ | ⟨pre, suf, hsplit, hval, hlt2, hpre, hsuf⟩
      · right
        refine ⟨[], t, ?_, ?_, ?_, ?_, ?_⟩
        · rw [he]; rfl
        · rw [he]
        · rw [he]; exact hlt
        · simp
        · rw [he]; exact hall
      · right
        have hrnum : m.isNaN (fcScan m c (q, m.nd c q) t).2 = false := by rw [hval]; exact m.nd_num h c _
        refine ⟨q :: pre, suf, ?_, hval, ?_, ?_, hsuf⟩
        · rw [List.cons_append, ← hsplit]
        · exact h.trans _ _ _ hrnum hndq hnum hlt2 hlt
        · intro p hp
          rcases List.mem_cons.mp hp with e | hp'
          · rw [e]; exact hlt2
          · exact hpre p hp'
    · have hlt' : m.lt (m.nd c q) st.2 = false := by simpa using hlt
      rw [if_neg hlt]
      rcases ih st ht hst hnum with ⟨he, hall⟩ | ⟨pre, suf, hsplit, hval, hlt2, hpre, hsuf⟩
      · left
        refine ⟨he, ?_⟩
        intro p hp
        rcases List.mem_cons.mp hp with e | hp'
        · rw [e]; exact hlt'
        · exact hall p hp'
      · right
        have hrnum : m.isNaN (fcScan m c st t).2 = false := by rw [hval]; exact m.nd_num h c _
        refine ⟨q :: pre, suf, ?_, hval, hlt2, ?_, hsuf⟩
        · rw [List.cons_append, ← hsplit]
        · intro p hp
          rcases List.mem_cons.mp hp with e | hp'
          · rw [e]
            rcases h.weak _ _ (m.nd c q) hrnum hnum hndq hlt2 with h1 | h2
            · exact h1
            · rw [hlt'] at h2; cases h2
          · exact hpre p hp'

/-- first-minimum characterisation of a palette position -/
def IsFirstMin (c : Nat) (pal : List Nat) (r : Nat) : Prop :=
  ∃ pre suf, pal = pre ++ r :: suf ∧
    (∀ q ∈ pre, m.lt (m.nd c r) (m.nd c q) = true) ∧
    (∀ q ∈ suf, m.lt (m.nd c q) (m.nd c r) = false)

theorem findColor_cons (c q : Nat) (t : List Nat) :
    findColor m c (q :: t) = (fcScan m c (q, m.nd c q) t).1 := by
  unfold findColor
  rw [fcScan_cons, fcStep_of_default]

theorem findColor_isFirstMin (h : m.Ordered) (c : Nat) (pal : List Nat) (hne : pal ≠ []) (hd : cDefault ∉ pal) :
    IsFirstMin m c pal (findColor m c pal) := by
  cases pal with
  | nil => exact absurd rfl hne
  | cons q t =>
    have hq : q ≠ cDefault := by intro e; apply hd; simp [e]
    have ht : cDefault ∉ t := fun e => hd (List.mem_cons_of_mem _ e)
    rw [findColor_cons]
    rcases fcScan_firstMin m h c t (q, m.nd c q) ht hq (m.nd_num h c q) with ⟨he, hall⟩ | ⟨pre, suf, hsplit, hval, hlt2, hpre, hsuf⟩
    · refine ⟨[], t, ?_, by simp, ?_⟩
      · rw [he]; rfl
      · rw [he]; exact hall
    · refine ⟨q :: pre, suf, ?_, ?_, ?_⟩
      · rw [List.cons_append, ← hsplit]
      · intro p hp
        rw [← hval]
        rcases List.mem_cons.mp hp with e | hp'
        · rw [e]; exact hlt2
        · exact hpre p hp'
      · intro p hp; rw [← hval]; exact hsuf p hp

theorem IsFirstMin.mem {c : Nat} {pal : List Nat} {r : Nat} (h : IsFirstMin m c pal r) : r ∈ pal := by
  obtain ⟨pre, suf, hs, _, _⟩ := h
  rw [hs]; simp

theorem IsFirstMin.argmin (ho : m.Ordered) {c : Nat} {pal : List Nat} {r : Nat} (h : IsFirstMin m c pal r) :
    ∀ q ∈ pal, m.lt (m.nd c q) (m.nd c r) = false := by
  obtain ⟨pre, suf, hs, hpre, hsuf⟩ := h
  intro q hq
  rw [hs] at hq
  rcases List.mem_append.mp hq with h1 | h2
  · -- asymmetry
    have hlt := hpre q h1
    cases hc : m.lt (m.nd c q) (m.nd c r) with
    | false => rfl
    | true =>
      have := ho.trans _ _ _ (m.nd_num ho c r) (m.nd_num ho c q) (m.nd_num ho c r) hlt hc
      rw [ho.irrefl _ (m.nd_num ho c r)] at this; cases this
  · rcases List.mem_cons.mp h2 with e | h3
    · rw [e]; exact ho.irrefl _ (m.nd_num ho c r)
    · exact hsuf q h3

/-- membership needs no hypothesis at all: the first iteration always takes the first element -/
theorem fcScan_mem (c : Nat) : ∀ (l : List Nat) (st : FCState α), (fcScan m c st l).1 = st.1 ∨ (fcScan m c st l).1 ∈ l := by
  intro l
  induction l with
  | nil => intro st; left; rfl
  | cons q t ih =>
    intro st
    rw [fcScan_cons]
    have hs : fcStep m c st q = (q, m.nd c q) ∨ fcStep m c st q = st := by
      unfold fcStep
      by_cases hc : (st.1 == cDefault || m.lt (m.nd c q) st.2) = true
      · left; rw [if_pos hc]
      · right; rw [if_neg hc]
    rcases ih (fcStep m c st q) with h1 | h2
    · rcases hs with e | e
      · right; rw [h1, e]; simp
      · left; rw [h1, e]
    · right; exact List.mem_cons_of_mem _ h2

theorem findColor_mem' (c : Nat) (pal : List Nat) (hne : pal ≠ []) : findColor m c pal ∈ pal := by
  cases pal with
  | nil => exact absurd rfl hne
  | cons q t =>
    rw [findColor_cons]
    rcases fcScan_mem m c t (q, m.nd c q) with h | h
    · rw [h]; simp
    · exact List.mem_cons_of_mem _ h

/-- the scan does not depend on the distance stored next to a default match -/
theorem fcScan_default_irrel (c : Nat) (x y : α) (l : List Nat) :
    (fcScan m c (cDefault, x) l).1 = (fcScan m c (cDefault, y) l).1 := by
  induction l generalizing x y with
  | nil => rfl
  | cons q t ih => rw [fcScan_cons, fcScan_cons, fcStep_of_default, fcStep_of_default]

theorem fcScan_append (c : Nat) (st : FCState α) (l₁ l₂ : List Nat) :
    fcScan m c st (l₁ ++ l₂) = fcScan m c (fcScan m c st l₁) l₂ := by
  unfold fcScan; rw [List.foldl_append]

end Tcell.Color
