import Tcell.Model.Parser
/-
Generic lemmas about `tryParsers` / `step1` / `collectAux`: skipping parsers that do not complete, the first
completing parser wins, iteration over a buffer that is a concatenation of recognised items.
-/
namespace Tcell.Lemmas.Collect
open Tcell Tcell.Model

/-- the parser neither completes nor is order dependent -/
def Silent (v : Verdict) : Prop := v = .part ∨ v = .reject

theorem tryParsers_skip (st : PState) (b : Bytes) (e : Bool) (p : PState → Bytes → Verdict)
    (ps : List (PState → Bytes → Verdict)) (h : Silent (p st b)) (n : Nat) :
    ∃ n', tryParsers st b e (p :: ps) n = tryParsers st b e ps n' := by
  rcases h with h | h
  · exact ⟨n + 1, by simp [tryParsers, h]⟩
  · exact ⟨n, by simp [tryParsers, h]⟩

theorem tryParsers_hit (st : PState) (b : Bytes) (e : Bool) (p : PState → Bytes → Verdict)
    (ps : List (PState → Bytes → Verdict)) (k : Nat) (evs : List Event) (st' : PState)
    (h : p st b = .complete k evs st') (n : Nat) :
    tryParsers st b e (p :: ps) n = .emit evs st' (b.drop k) := by
  simp [tryParsers, h]

/-- decoder never produces a rune from input starting with byte `c` -/
def DecSilent (dec : Bytes → DecResult) (c : Nat) : Prop := ∀ p r n, dec (c :: p) ≠ .out r n

theorem runeLoop_silent (dec : Bytes → DecResult) (st : PState) (c : Nat) (t : Bytes) (h : DecSilent dec c) :
    ∀ fuel l, runeLoop dec st (c :: t) fuel (l + 1) = .part := by
  intro fuel
  induction fuel with
  | zero => intro l; rfl
  | succ f ih =>
    intro l
    unfold runeLoop
    have : (c :: t).take (l + 1) = c :: t.take l := rfl
    rw [this]
    cases hd : dec (c :: t.take l) with
    | shortSrc => exact ih (l + 1)
    | nothing => exact ih (l + 1)
    | out r n => exact absurd hd (h _ r n)

theorem parseRune_esc (dec : Bytes → DecResult) (st : PState) (t : Bytes) : parseRune dec st (27 :: t) = .reject := by
  simp [parseRune]

theorem parseRune_ctrl (dec : Bytes → DecResult) (st : PState) (c : Nat) (t : Bytes) (h : c < 32) :
    parseRune dec st (c :: t) = .reject := by
  unfold parseRune
  have h1 : ¬ (32 ≤ c ∧ c ≤ 127) := by omega
  have h2 : c < 128 := by omega
  simp [h1, h2]

theorem parseRune_silent (dec : Bytes → DecResult) (st : PState) (c : Nat) (t : Bytes) (hc : 128 ≤ c)
    (h : DecSilent dec c) : parseRune dec st (c :: t) = .part := by
  unfold parseRune
  have h1 : ¬ (32 ≤ c ∧ c ≤ 127) := by omega
  have h2 : ¬ c < 128 := by omega
  simp only [h1, h2, if_false]
  exact runeLoop_silent dec st c t h _ 0

theorem parseFunctionKey_silent (T : KeyTable) (st : PState) (b : Bytes) (h : keyMatches T b = []) :
    Silent (parseFunctionKey T st b) := by
  unfold parseFunctionKey Silent
  rw [h]
  by_cases hp : keyPartial T b <;> simp [hp]

/-- the result of `collectAux` when the buffer is empty -/
theorem collectAux_nil (cfg : Cfg) (e : Bool) (fuel : Nat) (st : PState) :
    collectAux cfg e fuel st [] = ⟨[], st, [], false⟩ := by
  cases fuel <;> rfl

/-- one productive iteration -/
theorem collectAux_emit (cfg : Cfg) (e : Bool) (fuel : Nat) (st st' : PState) (c : Nat) (t rest : Bytes)
    (evs : List Event) (h : step1 cfg st (c :: t) e = .emit evs st' rest) :
    collectAux cfg e (fuel + 1) st (c :: t) =
      { collectAux cfg e fuel st' rest with evs := evs ++ (collectAux cfg e fuel st' rest).evs } := by
  simp [collectAux, h]

end Tcell.Lemmas.Collect
