import Tcell.Lemmas.DrawDefs
namespace Tcell
open Buf

/-! ### GetContent under the width invariant -/

theorem getContent_wok {rw : Rune → Int} (hrw : RwOk rw) (b : Buf) (x y : Int) (hr : b.inRange x y)
    (hw : WOk rw (b.cells x y)) :
    b.getContent x y = (obsMain rw (b.cells x y).currMain, (b.cells x y).currComb, (b.cells x y).currStyle,
                        obsWidth rw (b.cells x y).currMain) := by
  simp only [getContent, if_pos hr, obsMain, obsWidth]
  rcases hw with hw | ⟨hw, hm⟩
  · rw [hw]; split <;> rfl
  · rw [hw, hm, hrw.space]; simp

theorem obsWidth_pos {rw : Rune → Int} (hrw : RwOk rw) (m : Rune) : 1 ≤ obsWidth rw m ∧ obsWidth rw m ≤ 2 := by
  unfold obsWidth
  have := hrw.nonneg m; have := hrw.le2 m
  split <;> omega

theorem obsMain_markClean {rw : Rune → Int} (hrw : RwOk rw) (m : Rune) :
    obsMain rw (if m = 0 then 32 else m) = obsMain rw m ∧ obsWidth rw (if m = 0 then 32 else m) = obsWidth rw m := by
  by_cases h : m = 0
  · subst h; simp [obsMain, obsWidth, hrw.zero, hrw.space]
  · simp [h]

/-! ### the abstract terminal: closed form of printing a glyph -/

namespace ATerm

@[simp] theorem set_w (t : ATerm) (x y c) : (t.set x y c).w = t.w := rfl
@[simp] theorem set_h (t : ATerm) (x y c) : (t.set x y c).h = t.h := rfl
theorem set_grid (t : ATerm) (x y c i j) : (t.set x y c).grid i j = if i = x ∧ j = y then c else t.grid i j := rfl

theorem putAt_grid (t : ATerm) (x y : Int) (bytes : List Nat) (width : Int) (st : Style) (i j : Int) :
    (t.putAt x y bytes width st).grid i j =
      if i = x + 1 ∧ j = y ∧ width > 1 then .cont
      else if i = x ∧ j = y then .shown bytes (decide (width > 1)) st
      else if i = x + 2 ∧ j = y ∧ width > 1 ∧ t.grid (x + 2) y = .cont then .garbage
      else if i = x + 1 ∧ j = y ∧ width ≤ 1 ∧ t.grid (x + 1) y = .cont then .garbage
      else if i = x - 1 ∧ j = y ∧ t.grid x y = .cont then .garbage
      else t.grid i j := by
  unfold putAt
  by_cases hw : width > 1
  · have hw' : ¬ width ≤ 1 := by omega
    simp only [hw, hw', false_and, true_and, if_true, if_false, and_true, decide_true]
    by_cases h1 : t.grid x y = .cont <;> by_cases h3 : t.grid (x + 2) y = .cont <;>
      simp only [h1, h3, if_true, if_false, set_grid, and_true, and_false] <;>
      (repeat' split) <;> first | rfl | (exfalso; omega)
  · have hw' : width ≤ 1 := by omega
    simp only [hw, hw', false_and, true_and, if_false, and_false, decide_false]
    by_cases h1 : t.grid x y = .cont <;> by_cases h2 : t.grid (x + 1) y = .cont <;>
      simp only [h1, h2, if_true, if_false, set_grid, and_true, and_false] <;>
      (repeat' split) <;> first | rfl | (exfalso; omega)

@[simp] theorem putAt_w (t : ATerm) (x y b w st) : (t.putAt x y b w st).w = t.w := by
  unfold putAt; simp only; (repeat' split) <;> rfl
@[simp] theorem putAt_h (t : ATerm) (x y b w st) : (t.putAt x y b w st).h = t.h := by
  unfold putAt; simp only; (repeat' split) <;> rfl
@[simp] theorem putAt_cur (t : ATerm) (x y b w st) : (t.putAt x y b w st).cur = some (x + w, y) := rfl
@[simp] theorem putAt_pen (t : ATerm) (x y b w st) : (t.putAt x y b w st).pen = t.pen := by
  unfold putAt; simp only; (repeat' split) <;> rfl
@[simp] theorem putAt_chaos (t : ATerm) (x y b w st) : (t.putAt x y b w st).chaos = t.chaos := by
  unfold putAt; simp only; (repeat' split) <;> rfl
@[simp] theorem putAt_visible (t : ATerm) (x y b w st) : (t.putAt x y b w st).visible = t.visible := by
  unfold putAt; simp only; (repeat' split) <;> rfl
@[simp] theorem putAt_shape (t : ATerm) (x y b w st) : (t.putAt x y b w st).shape = t.shape := by
  unfold putAt; simp only; (repeat' split) <;> rfl
@[simp] theorem putAt_writes (t : ATerm) (x y b w st) : (t.putAt x y b w st).writes = (x, y) :: t.writes := rfl
theorem putAt_covered (t : ATerm) (x y b w st) : (t.putAt x y b w st).covered =
    if w > 1 then (x + 1, y) :: (x, y) :: t.covered else (x, y) :: t.covered := rfl

end ATerm
end Tcell

namespace Tcell
open Buf

/-! ### explicit form of drawCell on a dirty cell -/

theorem Scr.drawCellPlain_clean (c : DrawCfg) (s : Scr) (x y : Int) (hd : s.cells.dirty x y = false) :
    s.drawCellPlain c x y = (s, [], s.retWidth c x y) := by
  simp [Scr.drawCellPlain, hd]

@[simp] theorem Scr.cellTextG_false (c : DrawCfg) (w x : Int) (m : Rune) (comb : List Rune) (width : Int) :
    Scr.cellTextG c w x m comb width false = Scr.cellText c w x m comb width := by
  simp [Scr.cellTextG]

/-- the text of a dirty cell at (x,y): `cellTextG` of what GetContent reports, narrowed when the guard is compiled in and
the next column is locked -/
def Scr.txAt (c : DrawCfg) (s : Scr) (x y : Int) : List Nat × Int :=
  Scr.cellTextG c s.w x (s.cells.getContent x y).1 (s.cells.getContent x y).2.1 (s.cells.getContent x y).2.2.2
    (c.guardLocked && s.cells.locked (x + 1) y)

theorem Scr.drawCellPlain_dirty (c : DrawCfg) (s : Scr) (x y : Int) (hd : s.cells.dirty x y = true) :
    s.drawCellPlain c x y =
      ({ s with curstyle := resolveStyle s.style (s.cells.getContent x y).2.2.1,
                cx := if (s.txAt c x y).2 > 1 then -1 else x + (s.txAt c x y).2,
                cy := y, cells := s.cells.setDirty x y false },
       (if s.cy ≠ y ∨ s.cx ≠ x then [Cmd.goto x y] else []) ++
         ((if resolveStyle s.style (s.cells.getContent x y).2.2.1 ≠ s.curstyle
            then [Cmd.setPen (resolveStyle s.style (s.cells.getContent x y).2.2.1)] else []) ++
          [Cmd.put (s.txAt c x y).1 (s.txAt c x y).2]),
       (s.txAt c x y).2) := by
  simp only [Scr.drawCellPlain, hd, not_true_eq_false, if_false, Scr.paint, resolveStyle, Scr.txAt]
  by_cases hgo : s.cy ≠ y ∨ s.cx ≠ x
  · simp only [hgo, if_true]; rfl
  · have hx : s.cx = x := by
      by_cases h : s.cx = x
      · exact h
      · exact absurd (Or.inr h) hgo
    have hy : s.cy = y := by
      by_cases h : s.cy = y
      · exact h
      · exact absurd (Or.inl h) hgo
    simp only [hgo, if_false, List.nil_append]
    cases s; simp_all

end Tcell

namespace Tcell
open Buf

theorem cellText_width {c : DrawCfg} (hrw : RwOk c.rw) (w x : Int) (m : Rune) (comb : List Rune) :
    let tx := Scr.cellText c w x (obsMain c.rw m) comb (obsWidth c.rw m)
    (tx.2 = 1 ∨ tx.2 = 2) := by
  have h := obsWidth_pos hrw m
  simp only [Scr.cellText]
  have h1 : ¬ obsWidth c.rw m < 1 := by omega
  simp only [h1, if_false]
  split
  · left; rfl
  · simp only; omega

theorem isDirty_true_unlocked (c : Cell) (h : c.isDirty = true) : c.lock = false := by
  cases hl : c.lock
  · rfl
  · simp [Cell.isDirty, hl] at h

theorem wok_markClean {rw : Rune → Int} (hrw : RwOk rw) (c : Cell) (h : WOk rw c) : WOk rw c.markClean := by
  simp only [WOk, Cell.markClean_width, Cell.markClean_currMain] at h ⊢
  by_cases hz : c.currMain = 0
  · simp only [hz, if_true, and_true]
    rcases h with h1 | h1
    · right; rw [h1, hz, hrw.zero]
    · exact absurd h1.2 (by rw [hz]; decide)
  · simpa [hz] using h

theorem wok_markDirty {rw : Rune → Int} (c : Cell) (h : WOk rw c) : WOk rw c.markDirty := by
  simpa [WOk] using h

@[simp] theorem Cell.markClean_currStyle (c : Cell) : c.markClean.currStyle = c.currStyle := rfl
@[simp] theorem Cell.markClean_currComb (c : Cell) : c.markClean.currComb = c.currComb := rfl
@[simp] theorem Cell.markClean_lastComb (c : Cell) : c.markClean.lastComb = c.currComb := rfl
@[simp] theorem Cell.markClean_lastStyle (c : Cell) : c.markClean.lastStyle = c.currStyle := rfl
@[simp] theorem Cell.markClean_lastMain (c : Cell) : c.markClean.lastMain = if c.currMain = 0 then 32 else c.currMain := rfl
@[simp] theorem Cell.markDirty_lastComb (c : Cell) : c.markDirty.lastComb = c.lastComb := rfl
@[simp] theorem Cell.markDirty_lastStyle (c : Cell) : c.markDirty.lastStyle = c.lastStyle := rfl

/-- GetContent does not see the normalisation done by SetDirty(false) nor the dirty marker -/
theorem getContent_setDirty {rw : Rune → Int} (hrw : RwOk rw) (b : Buf) (x y : Int) (v : Bool)
    (hw : ∀ i j, WOk rw (b.cells i j)) (i j : Int) :
    (b.setDirty x y v).getContent i j = b.getContent i j := by
  have hr : (b.setDirty x y v).inRange i j ↔ b.inRange i j := by simp [inRange_iff]
  by_cases hij : b.inRange i j
  · rw [getContent_wok hrw b i j hij (hw i j)]
    have hw' : WOk rw ((b.setDirty x y v).cells i j) := by
      cases v
      · rw [setDirty_false_cells]; split
        · exact wok_markClean hrw _ (hw i j)
        · exact hw i j
      · rw [setDirty_true_cells]; split
        · exact wok_markDirty _ (hw i j)
        · exact hw i j
    rw [getContent_wok hrw _ i j (hr.2 hij) hw']
    cases v
    · rw [setDirty_false_cells]; split
      · have := obsMain_markClean hrw (b.cells i j).currMain
        simp [this.1, this.2]
      · rfl
    · rw [setDirty_true_cells]; split <;> simp
  · have : ¬ (b.setDirty x y v).inRange i j := fun h => hij (hr.1 h)
    simp [getContent, hij, this]

end Tcell

namespace Tcell
open Buf

theorem shown_wide_ne {b1 b2 : List Nat} {s1 s2 : Style} : ACell.shown b1 false s1 ≠ ACell.shown b2 true s2 := by
  intro h; injection h with _ h2 _; exact absurd h2 (by decide)

/-! ### the guard-aware cell text -/

theorem cellTextG_width {c : DrawCfg} (hrw : RwOk c.rw) (w x : Int) (m : Rune) (comb : List Rune) (nl : Bool) :
    let tx := Scr.cellTextG c w x (obsMain c.rw m) comb (obsWidth c.rw m) nl
    (tx.2 = 1 ∨ tx.2 = 2) := by
  simp only [Scr.cellTextG]
  split
  · left; rfl
  · exact cellText_width hrw w x m comb

theorem cellTextG_true_width (c : DrawCfg) (w x : Int) (m : Rune) (comb : List Rune) (width : Int) :
    (Scr.cellTextG c w x m comb width true).2 = 1 := by
  unfold Scr.cellTextG
  split
  · rfl
  · rename_i h
    have hw : ¬ width > 1 := fun h' => h ⟨rfl, h'⟩
    have e : (if width < 1 then 1 else width) = 1 := by split <;> omega
    simp only [Scr.cellText, e]
    split <;> rfl

theorem cellTextG_narrow (c : DrawCfg) (w x : Int) (m : Rune) (comb : List Rune) (width : Int) (nl : Bool)
    (hw : width ≤ 1) : (Scr.cellTextG c w x m comb width nl).2 = 1 := by
  unfold Scr.cellTextG
  split
  · rfl
  · have e : (if width < 1 then 1 else width) = 1 := by split <;> omega
    simp only [Scr.cellText, e]
    split <;> rfl

theorem cellTextG_of_not (c : DrawCfg) (w x : Int) (m : Rune) (comb : List Rune) (width : Int) (nl : Bool)
    (h : ¬ (nl = true ∧ width > 1)) : Scr.cellTextG c w x m comb width nl = Scr.cellText c w x m comb width := by
  unfold Scr.cellTextG; rw [if_neg h]

theorem cellTextG_of_guard (c : DrawCfg) (w x : Int) (m : Rune) (comb : List Rune) (width : Int) (nl : Bool)
    (h : nl = true ∧ width > 1) : Scr.cellTextG c w x m comb width nl = ([32], 1) := by
  unfold Scr.cellTextG; rw [if_pos h]

@[simp] theorem shownOfG_false (c : DrawCfg) (w x : Int) (m : Rune) (comb : List Rune) (st : Style) :
    shownOfG c w x m comb st false = shownOf c w x m comb st := by
  simp [shownOfG, shownOf]

/-- a rune GetContent reports as one column wide is never shown as a two-column glyph -/
theorem shownOfG_narrow (c : DrawCfg) (w x : Int) (m : Rune) (comb : List Rune) (st : Style) (nl : Bool)
    (h : obsWidth c.rw m ≤ 1) (b : List Nat) (st' : Style) : shownOfG c w x m comb st nl ≠ .shown b true st' := by
  intro h'
  simp only [shownOfG, cellTextG_narrow c w x _ comb _ nl h] at h'
  injection h' with _ h2 _
  simp at h2

/-- the guarded blank is not a two-column glyph either -/
theorem shownOfG_guard (c : DrawCfg) (w x : Int) (m : Rune) (comb : List Rune) (st : Style)
    (h : obsWidth c.rw m > 1) : shownOfG c w x m comb st true = .shown [32] false st := by
  simp only [shownOfG, cellTextG_of_guard c w x _ comb _ true ⟨rfl, h⟩]
  simp

theorem dirty_unlocked (b : Buf) (x y : Int) (hd : b.dirty x y = true) : b.locked x y = false := by
  simp only [dirty] at hd
  simp only [Buf.locked]
  split at hd
  · rename_i hr; rw [if_pos hr]; exact isDirty_true_unlocked _ hd
  · exact absurd hd (by simp)

theorem locked_true_iff (b : Buf) (x y : Int) : b.locked x y = true ↔ (b.inRange x y ∧ (b.cells x y).lock = true) := by
  simp only [Buf.locked]
  split
  · rename_i h; simp [h]
  · rename_i h; simp [h]

/-- `locked` only reads the dimensions and the lock flags -/
theorem locked_congr (b b' : Buf) (hw : b'.w = b.w) (hh : b'.h = b.h) (hl : ∀ i j, (b'.cells i j).lock = (b.cells i j).lock)
    (i j : Int) : b'.locked i j = b.locked i j := by
  simp only [Buf.locked, inRange_iff, hw, hh, hl]

theorem BlankOk.congr {b b' : Buf} {i j : Int} (h : BlankOk b i j) (hw : (b'.cells i j).width = (b.cells i j).width)
    (hl : b'.locked (i + 1) j = b.locked (i + 1) j) (hg : b'.getContent i j = b.getContent i j) : BlankOk b' i j := by
  unfold BlankOk at h ⊢
  rw [hw, hl, hg]; exact h

/-- a clean cell returns the loop's step -/
theorem retWidth_eq_stepW {c : DrawCfg} (hct : c.Walk) (s : Scr) (x y : Int) (hd : s.cells.dirty x y = false) :
    s.retWidth c x y = stepW c s.cells x y := by
  unfold Scr.retWidth stepW
  cases hw : c.walkGuard
  · simp [hd]
  · have := hct.wg hw; simp [this]

theorem retWidth_cases (c : DrawCfg) (s : Scr) (x y : Int) :
    s.retWidth c x y = (s.cells.getContent x y).2.2.2 ∨ (s.retWidth c x y = 1 ∧ s.cells.locked (x + 1) y = true) := by
  unfold Scr.retWidth; split
  · rename_i h; right; exact ⟨rfl, h.2.2⟩
  · left; rfl

/-- the clean branch of one loop iteration -/
theorem visit_clean {c : DrawCfg} (hrw : RwOk c.rw) (hct : c.Walk) {d : Option Style} {s : Scr} {t : ATerm} {x y : Int}
    (inv : PassInv c d s t x y) (hr : s.cells.inRange x y) (hd : s.cells.dirty x y = false) :
    VisitPost c d s t x y (s.visit c x y).1 (t.applyAll (s.visit c x y).2.1) (s.visit c x y).2.2 := by
  have hgc := getContent_wok hrw s.cells x y hr (inv.wok x y)
  have hdc : s.drawCell c x y = (s, [], s.retWidth c x y) := by simp [Scr.drawCell, hd]
  have hwpos := obsWidth_pos hrw (s.cells.cells x y).currMain
  have hgw : (s.cells.getContent x y).2.2.2 = obsWidth c.rw (s.cells.cells x y).currMain := by rw [hgc]
  have hstep := retWidth_eq_stepW hct s x y hd
  have hret := retWidth_cases c s x y
  generalize hrv : s.retWidth c x y = rv at hdc hstep hret
  have hrv1 : 1 ≤ rv := by rcases hret with h | h <;> omega
  -- if the cell is unlocked it is clean with last = curr
  have hclean : (s.cells.cells x y).lock = false →
      (s.cells.cells x y).lastMain ≠ 0 ∧ (s.cells.cells x y).last = (s.cells.cells x y).content := by
    intro hl
    have : (s.cells.cells x y).isDirty = false := by simpa [dirty, hr] using hd
    exact (Cell.isDirty_false_iff _ hl).1 this
  by_cases hwide : rv > 1 ∧ x + 1 < s.w
  · -- wide and not in the last column: the right neighbour is marked dirty
    have hw2 : rv = 2 := by rcases hret with h | h <;> omega
    have hv : s.visit c x y = ({ s with cells := s.cells.setDirty (x + 1) y true }, [], rv) := by
      simp only [Scr.visit, hdc, hwide, and_self, if_true]
    rw [hv]
    have hr1 : s.cells.inRange (x + 1) y := by
      have := inv.cw; simp only [inRange_iff] at hr ⊢; omega
    have hcells : ∀ i j, (s.cells.setDirty (x + 1) y true).cells i j =
        if i = x + 1 ∧ j = y then (s.cells.cells i j).markDirty else s.cells.cells i j := by
      intro i j; rw [setDirty_true_cells]; simp [hr1]
    have hir : ∀ i j, (s.cells.setDirty (x + 1) y true).inRange i j ↔ s.cells.inRange i j := by
      intro i j; simp [inRange_iff]
    have hgcs : ∀ i j, (s.cells.setDirty (x + 1) y true).getContent i j = s.cells.getContent i j :=
      getContent_setDirty hrw s.cells (x + 1) y true inv.wok
    have hlk : ∀ i j, (s.cells.setDirty (x + 1) y true).locked i j = s.cells.locked i j := by
      intro i j; apply locked_congr _ _ (by simp) (by simp)
      intro i' j'; rw [hcells]; split <;> simp
    refine { inv := ?_, wd_pos := hrv1, wd_eq := Or.inl hstep, gc_same := hgcs, lock_same := ?_, other_same := ?_,
             done := ?_, w_same := rfl, h_same := rfl, style_same := rfl, cursor_same := ⟨rfl, rfl, rfl, rfl⟩,
             flags_same := ⟨rfl, rfl⟩, writes := ⟨[], by simp [ATerm.applyAll], fun _ => rfl, by simp⟩, vis_same := ⟨rfl, rfl⟩,
             covers := ⟨[], by simp [ATerm.applyAll], by intro _ p hp; simp at hp⟩,
             nb := by intro _ _; simp only [hcells]; simp }
    · refine { tw := inv.tw, th := inv.th, cw := ?_, ch := ?_, wok := ?_, valid := ?_, g1 := ?_, g2 := ?_, wf := ?_,
               g3 := ?_, kcur := ?_, kpen := inv.kpen, q := ?_, dcompat := inv.dcompat }
      · simpa using inv.cw
      · simpa using inv.ch
      · intro i j; simp only [hcells]; split
        · exact wok_markDirty _ (inv.wok i j)
        · exact inv.wok i j
      · refine ⟨inv.valid.1, ?_⟩
        intro i j; simp only [hcells]; split
        · simpa using inv.valid.2 i j
        · exact inv.valid.2 i j
      · intro i j hrij hl hm
        simp only [hcells] at hl hm ⊢
        simp only [ATerm.applyAll, List.foldl_nil]
        split at hm
        · simp at hm
        · rename_i hne; rw [if_neg hne] at hl ⊢
          obtain ⟨st', nl, a1, a2, a3, a4⟩ := inv.g1 i j ((hir i j).1 hrij) hl hm
          refine ⟨st', nl, a1, a2, a3, fun h1 h2 => ⟨(a4 h1 h2).1, (a4 h1 h2).2.congr ?_ (hlk _ _) (hgcs _ _)⟩⟩
          rw [hcells, if_neg hne]
      · intro i j hrij hcont
        simp only [hcells, ATerm.applyAll, List.foldl_nil] at hcont ⊢
        split
        · right; simp
        · exact inv.g2 i j ((hir i j).1 hrij) hcont
      · intro i j hrij hcont
        exact inv.wf i j ((hir i j).1 hrij) hcont
      · intro i j hrij hl hm b st hsh hlt
        simp only [hcells] at hl hm
        simp only [ATerm.applyAll, List.foldl_nil] at hsh ⊢
        split at hm
        · simp at hm
        · rename_i hne; rw [if_neg hne] at hl; exact inv.g3 i j ((hir i j).1 hrij) hl hm b st hsh hlt
      · intro hcr; exact inv.kcur ((hir _ _).1 hcr)
      · intro h1 h2 _ hl hm
        -- the cell left of x + wd is x + 1 (just marked dirty) since wd = 2
        simp only [hw2, hcells] at hl hm ⊢
        have : x + 2 - 1 = x + 1 := by omega
        rw [this] at hm; simp at hm
    · intro i j; simp only [hcells]; split <;> simp
    · intro i j hne; simp only [hcells]
      simp only [hw2] at hne
      have : ¬ (i = x + 1 ∧ j = y) := by omega
      rw [if_neg this]
    · intro hl
      have hne : ¬ (x = x + 1 ∧ y = y) := by omega
      rw [hcells, if_neg hne]; exact hclean hl
  · have hv : s.visit c x y = (s, [], rv) := by
      simp only [Scr.visit, hdc, hwide, if_false]
    rw [hv]
    refine { inv := ?_, wd_pos := hrv1, wd_eq := Or.inl hstep, gc_same := fun _ _ => rfl, lock_same := fun _ _ => rfl,
             other_same := fun _ _ _ => rfl, done := hclean, w_same := rfl, h_same := rfl, style_same := rfl,
             cursor_same := ⟨rfl, rfl, rfl, rfl⟩, flags_same := ⟨rfl, rfl⟩, writes := ⟨[], by simp [ATerm.applyAll], fun _ => rfl, by simp⟩,
             vis_same := ⟨rfl, rfl⟩, covers := ⟨[], by simp [ATerm.applyAll], by intro _ p hp; simp at hp⟩,
             nb := by intro h1 h2; exact absurd ⟨h1, h2⟩ hwide }
    refine { toSyncInv := inv.toSyncInv, kcur := inv.kcur, kpen := inv.kpen, q := ?_, dcompat := inv.dcompat }
    intro h1 h2 hlx hl hm b st hsh
    simp only [ATerm.applyAll, List.foldl_nil] at hsh
    simp only at h1 h2 hlx hl hm hsh
    by_cases hw1 : rv = 1
    · -- one column: the cell left of x+1 is x itself
      have e : x + rv - 1 = x := by omega
      rw [e] at hl hm hsh
      rw [hw1] at hlx
      rcases hret with hg | hg
      · -- narrow rune: if unlocked it is clean with last = curr, of width 1
        have hc := hclean hl
        have hlm : (s.cells.cells x y).lastMain = (s.cells.cells x y).currMain := by
          have := hc.2; simp only [Cell.last, Cell.content] at this; injection this
        obtain ⟨st', nl, a1, _⟩ := inv.g1 x y hr hl hm
        rw [a1, hlm] at hsh
        exact shownOfG_narrow c s.w x _ _ st' nl (by omega) b st hsh
      · -- a wide rune counted as one column: its right neighbour is locked, but the visit position is not
        have := ((locked_true_iff _ _ _).1 hg.2).2
        rw [this] at hlx; exact absurd hlx (by decide)
    · -- wide in the last column: x + wd ≥ w, nothing to show
      exfalso; rcases hret with h | h <;> omega

end Tcell

namespace Tcell
open Buf

theorem resolveStyle_valid (dflt st : Style) (h1 : dflt.attrs ≠ attrInvalid) (h2 : st.attrs ≠ attrInvalid) :
    resolveStyle dflt st ≠ styleInvalid := by
  unfold resolveStyle styleInvalid
  split
  · intro h; apply h1; rw [h]
  · intro h; apply h2; rw [h]

/-- the dirty branch of one loop iteration (no bottom-right corner trick; locked-neighbour guard compiled in or not) -/
theorem visit_dirty {c : DrawCfg} (hrw : RwOk c.rw) (hct : c.Walk) {d : Option Style} {s : Scr} {t : ATerm}
    {x y : Int} (inv : PassInv c d s t x y) (hr : s.cells.inRange x y) (hd : s.cells.dirty x y = true)
    (hnc : ¬ (y = s.h - 1 ∧ x = s.w - 1 ∧ c.cornerTrick = true)) :
    VisitPost c d s t x y (s.visit c x y).1 (t.applyAll (s.visit c x y).2.1) (s.visit c x y).2.2 := by
  have hgc := getContent_wok hrw s.cells x y hr (inv.wok x y)
  have hdc : s.drawCell c x y = s.drawCellPlain c x y := by simp [Scr.drawCell, hd, hnc]
  have hlock : (s.cells.cells x y).lock = false := by
    apply isDirty_true_unlocked; simpa [dirty, hr] using hd
  have hcw := inv.cw; have hch := inv.ch; have htw := inv.tw; have hth := inv.th
  have hxy : 0 ≤ x ∧ x < s.w ∧ 0 ≤ y ∧ y < s.h := by simp only [inRange_iff] at hr; omega
  have hwokxy : (s.cells.cells x y).width = c.rw (s.cells.cells x y).currMain ∨
      ((s.cells.cells x y).width = 0 ∧ (s.cells.cells x y).currMain = 32) := inv.wok x y
  -- abbreviations
  generalize hnlb : (c.guardLocked && s.cells.locked (x + 1) y) = nlb
  generalize hcwd : (s.cells.cells x y).width = cwd at hwokxy
  generalize hcm : (s.cells.cells x y).currMain = cm at *
  generalize hcomb : (s.cells.cells x y).currComb = comb at *
  generalize hcst : (s.cells.cells x y).currStyle = cst at *
  have htxw := cellTextG_width hrw s.w x cm comb nlb
  -- the loop's step, computed before the text is abbreviated
  have hwdeq : (Scr.cellTextG c s.w x (obsMain c.rw cm) comb (obsWidth c.rw cm) nlb).2 = stepW c s.cells x y ∨
      (x + (Scr.cellTextG c s.w x (obsMain c.rw cm) comb (obsWidth c.rw cm) nlb).2 ≥ s.w ∧ x + stepW c s.cells x y ≥ s.w) := by
    have hp := obsWidth_pos hrw cm
    unfold stepW; rw [hgc]; simp only [hd, or_true, and_true]
    by_cases hg : c.guardLocked = true ∧ obsWidth c.rw cm > 1 ∧ s.cells.locked (x + 1) y = true
    · rw [if_pos hg]
      have : nlb = true := by rw [← hnlb, hg.1, hg.2.2]; rfl
      left; rw [cellTextG_of_guard _ _ _ _ _ _ _ ⟨this, hg.2.1⟩]
    · rw [if_neg hg]
      have hn : ¬ (nlb = true ∧ obsWidth c.rw cm > 1) := by
        intro h; apply hg
        have h1 := h.1; rw [← hnlb, Bool.and_eq_true] at h1
        exact ⟨h1.1, h.2, h1.2⟩
      rw [cellTextG_of_not _ _ _ _ _ _ _ hn]
      simp only [Scr.cellText]
      have h1 : ¬ obsWidth c.rw cm < 1 := by omega
      simp only [h1, if_false]
      split
      · right; simp only; omega
      · left; rfl
  -- with the guard compiled in, a two-column text is only produced when the next column is not locked
  have hguard : c.guardLocked = true → (Scr.cellTextG c s.w x (obsMain c.rw cm) comb (obsWidth c.rw cm) nlb).2 > 1 →
      s.cells.locked (x + 1) y = false := by
    intro hg hw
    cases hl : s.cells.locked (x + 1) y
    · rfl
    · have : nlb = true := by rw [← hnlb, hg, hl]; rfl
      rw [this, cellTextG_true_width] at hw; omega
  -- the guarded blank: what the invariant remembers
  have hblank : nlb = true → obsWidth c.rw cm > 1 → c.guardLocked = true ∧ 0 < cwd ∧ s.cells.locked (x + 1) y = true := by
    intro h1 h2
    rw [← hnlb, Bool.and_eq_true] at h1
    refine ⟨h1.1, ?_, h1.2⟩
    have hz : ¬ (c.rw cm = 0 ∨ cm < 32) := by intro h; simp only [obsWidth, if_pos h] at h2; omega
    simp only [obsWidth, if_neg hz] at h2
    rcases hwokxy with h | h
    · omega
    · rw [h.2, hrw.space] at h2; omega
  generalize htx : Scr.cellTextG c s.w x (obsMain c.rw cm) comb (obsWidth c.rw cm) nlb = tx at *
  generalize hstyle : resolveStyle s.style cst = style at *
  have hstv : style ≠ styleInvalid := by
    rw [← hstyle]; apply resolveStyle_valid _ _ inv.valid.1
    have := inv.valid.2 x y; rw [hcst] at this; exact this
  -- explicit result of drawCell
  have hdp := Scr.drawCellPlain_dirty c s x y hd
  simp only [Scr.txAt, hgc, hnlb, htx, hstyle] at hdp
  -- the terminal just before the glyph is printed
  have hterm : t.applyAll ((if s.cy ≠ y ∨ s.cx ≠ x then [Cmd.goto x y] else []) ++
      ((if style ≠ s.curstyle then [Cmd.setPen style] else []) ++ [Cmd.put tx.1 tx.2])) =
      ({ t with cur := some (x, y), pen := some style } : ATerm).putAt x y tx.1 tx.2 style := by
    have happ : ∀ (t1 : ATerm) (l1 l2 : List Cmd), t1.applyAll (l1 ++ l2) = (t1.applyAll l1).applyAll l2 := by
      intro t1 l1 l2; simp [ATerm.applyAll, List.foldl_append]
    have hcur : (t.applyAll (if s.cy ≠ y ∨ s.cx ≠ x then [Cmd.goto x y] else [])) = { t with cur := some (x, y) } := by
      by_cases hg : s.cy ≠ y ∨ s.cx ≠ x
      · rw [if_pos hg]
        show t.apply (Cmd.goto x y) = _
        simp only [ATerm.apply, ATerm.clampX, ATerm.clampY]
        have h1 : ¬ x < 0 := by omega
        have h2 : ¬ x ≥ t.w := by omega
        have h3 : ¬ y < 0 := by omega
        have h4 : ¬ y ≥ t.h := by omega
        simp only [h1, h2, h3, h4, if_false]
      · have hx : s.cx = x := by
          by_cases h : s.cx = x
          · exact h
          · exact absurd (Or.inr h) hg
        have hy : s.cy = y := by
          by_cases h : s.cy = y
          · exact h
          · exact absurd (Or.inl h) hg
        have := inv.kcur (by rw [hx, hy]; exact hr)
        rw [hx, hy] at this
        rw [if_neg hg]
        show t = _
        cases t; simp_all
    have hpen : (({ t with cur := some (x, y) } : ATerm).applyAll (if style ≠ s.curstyle then [Cmd.setPen style] else [])) =
        { t with cur := some (x, y), pen := some style } := by
      by_cases hp : style ≠ s.curstyle
      · rw [if_pos hp]; rfl
      · have he : style = s.curstyle := by
          by_cases h : style = s.curstyle
          · exact h
          · exact absurd h hp
        have := inv.kpen (by rw [← he]; exact hstv)
        rw [← he] at this
        rw [if_neg hp]
        show ({ t with cur := some (x, y) } : ATerm) = _
        cases t; simp_all
    rw [happ, happ, hcur, hpen]
    show ({ t with cur := some (x, y), pen := some style } : ATerm).apply (Cmd.put tx.1 tx.2) = _
    have hig : ({ t with cur := some (x, y), pen := some style } : ATerm).inGrid x y := by
      simp only [ATerm.inGrid]; omega
    simp only [ATerm.apply, hig, if_true]
  -- name the terminal before the print
  generalize ht0 : ({ t with cur := some (x, y), pen := some style } : ATerm) = t0 at hterm
  have ht0g : ∀ i j, t0.grid i j = t.grid i j := by intro i j; rw [← ht0]
  have ht0w : t0.writes = t.writes := by rw [← ht0]
  have ht0cov : t0.covered = t.covered := by rw [← ht0]
  have ht0c : t0.chaos = t.chaos := by rw [← ht0]
  have ht0v : t0.visible = t.visible ∧ t0.shape = t.shape := by rw [← ht0]; exact ⟨rfl, rfl⟩
  have ht0d : t0.w = t.w ∧ t0.h = t.h := by rw [← ht0]; exact ⟨rfl, rfl⟩
  -- facts about the printed terminal, phrased on the original grid
  have hgrid : ∀ i j, (t0.putAt x y tx.1 tx.2 style).grid i j =
      if i = x + 1 ∧ j = y ∧ tx.2 > 1 then .cont
      else if i = x ∧ j = y then .shown tx.1 (decide (tx.2 > 1)) style
      else if i = x + 2 ∧ j = y ∧ tx.2 > 1 ∧ t.grid (x + 2) y = .cont then .garbage
      else if i = x + 1 ∧ j = y ∧ tx.2 ≤ 1 ∧ t.grid (x + 1) y = .cont then .garbage
      else if i = x - 1 ∧ j = y ∧ t.grid x y = .cont then .garbage
      else t.grid i j := by
    intro i j; rw [ATerm.putAt_grid]; simp only [ht0g]
  -- the cell left of x, if clean and unlocked, is narrow on the terminal, hence (x,y) is not a continuation of it
  have hq : ∀ (hx1 : 1 ≤ x), (s.cells.cells (x - 1) y).lock = false → (s.cells.cells (x - 1) y).lastMain ≠ 0 →
      t.grid x y ≠ .cont := by
    intro hx1 hl hm hcont
    obtain ⟨b, st, hwf⟩ := inv.wf x y hr hcont
    exact inv.q hx1 hxy.2.1 hlock hl hm b st hwf
  -- new last of the painted cell shows exactly what was printed
  have hshown : shownOfG c s.w x (if cm = 0 then 32 else cm) comb style nlb = .shown tx.1 (decide (tx.2 > 1)) style := by
    have := obsMain_markClean hrw cm
    simp only [shownOfG, this.1, this.2, htx]
  have hstyle1 : cst ≠ {} → style = cst := by
    intro h; rw [← hstyle]; simp [resolveStyle, h]
  have hstyle2 : cst = {} → ∀ d', d = some d' → style = d' := by
    intro h d' hd'; rw [← hstyle]; simp only [resolveStyle, h, if_true]; exact (inv.dcompat d' hd').symm
  -- the common part of the new buffer: (x,y) marked clean
  have hc1 : ∀ i j, (s.cells.setDirty x y false).cells i j =
      if i = x ∧ j = y then (s.cells.cells i j).markClean else s.cells.cells i j := by
    intro i j; rw [setDirty_false_cells]; simp [hr]
  have hwok1 : ∀ i j, WOk c.rw ((s.cells.setDirty x y false).cells i j) := by
    intro i j; rw [hc1]; split
    · exact wok_markClean hrw _ (inv.wok i j)
    · exact inv.wok i j
  have hgc1 : ∀ i j, (s.cells.setDirty x y false).getContent i j = s.cells.getContent i j :=
    getContent_setDirty hrw s.cells x y false inv.wok
  have hwd12 : tx.2 = 1 ∨ tx.2 = 2 := htxw
  -- generic re-establishment of the invariant, given the closed form of the new cells
  have key : ∀ (cells' : Buf) (cx' : Int),
      (cells'.w = s.cells.w ∧ cells'.h = s.cells.h) →
      (∀ i j, cells'.cells i j =
        if i = x ∧ j = y then (s.cells.cells i j).markClean
        else if i = x + 1 ∧ j = y ∧ tx.2 > 1 ∧ x + 1 < s.w then (s.cells.cells i j).markDirty
        else s.cells.cells i j) →
      (∀ i j, cells'.getContent i j = s.cells.getContent i j) →
      (cx' = if tx.2 > 1 then -1 else x + tx.2) →
      PassInv c d { s with curstyle := style, cx := cx', cy := y, cells := cells' }
        (t0.putAt x y tx.1 tx.2 style) (x + tx.2) y := by
    intro cells' cx' hdims hcells hgcs hcx
    have hir : ∀ i j, cells'.inRange i j ↔ s.cells.inRange i j := by
      intro i j; simp only [inRange_iff, hdims.1, hdims.2]
    have hlks : ∀ i j, (cells'.cells i j).lock = (s.cells.cells i j).lock := by
      intro i j; rw [hcells]; split
      · simp [Cell.markClean]
      · split <;> simp
    have hlk : ∀ i j, cells'.locked i j = s.cells.locked i j := locked_congr _ _ hdims.1 hdims.2 hlks
    have hwds : ∀ i j, (cells'.cells i j).width = (s.cells.cells i j).width := by
      intro i j; rw [hcells]; split
      · simp [Cell.markClean]
      · split <;> simp [Cell.markDirty]
    -- a kept clean cell shows on the new terminal what it showed before
    have hkeepgrid : ∀ i j, s.cells.inRange i j → (s.cells.cells i j).lock = false → (s.cells.cells i j).lastMain ≠ 0 →
        ¬ (i = x ∧ j = y) → ¬ (i = x + 1 ∧ j = y ∧ tx.2 > 1 ∧ x + 1 < s.w) →
        (t0.putAt x y tx.1 tx.2 style).grid i j = t.grid i j := by
      intro i j hrij' hl hm h1 h2
      rw [hgrid]
      have hi : 0 ≤ i ∧ i < s.w ∧ 0 ≤ j ∧ j < s.h := by simp only [inRange_iff] at hrij'; omega
      have n1 : ¬ (i = x + 1 ∧ j = y ∧ tx.2 > 1) := by
        intro h; exact h2 ⟨h.1, h.2.1, h.2.2, by omega⟩
      have n3 : ¬ (i = x + 2 ∧ j = y ∧ tx.2 > 1 ∧ t.grid (x + 2) y = .cont) := by
        intro h
        rcases inv.g2 i j hrij' (by rw [h.1, h.2.1]; exact h.2.2.2) with h' | h'
        · rw [hl] at h'; exact absurd h' (by decide)
        · exact hm h'
      have n4 : ¬ (i = x + 1 ∧ j = y ∧ tx.2 ≤ 1 ∧ t.grid (x + 1) y = .cont) := by
        intro h
        rcases inv.g2 i j hrij' (by rw [h.1, h.2.1]; exact h.2.2.2) with h' | h'
        · rw [hl] at h'; exact absurd h' (by decide)
        · exact hm h'
      have n5 : ¬ (i = x - 1 ∧ j = y ∧ t.grid x y = .cont) := by
        intro h
        have hl' := hl; have hm' := hm
        rw [h.1, h.2.1] at hl' hm'
        exact hq (by omega) hl' hm' h.2.2
      simp only [n1, h1, n3, n4, n5, if_false]
    refine { tw := ?_, th := ?_, cw := ?_, ch := ?_, wok := ?_, valid := ?_, g1 := ?_, g2 := ?_, wf := ?_, g3 := ?_,
             kcur := ?_, kpen := ?_, q := ?_, dcompat := inv.dcompat }
    · simp [ht0d.1, htw]
    · simp [ht0d.2, hth]
    · simp [hdims.1, hcw]
    · simp [hdims.2, hch]
    · intro i j; simp only [hcells]; split
      · exact wok_markClean hrw _ (inv.wok i j)
      · split
        · exact wok_markDirty _ (inv.wok i j)
        · exact inv.wok i j
    · refine ⟨inv.valid.1, ?_⟩
      intro i j; simp only [hcells]; split
      · simpa using inv.valid.2 i j
      · split
        · simpa using inv.valid.2 i j
        · exact inv.valid.2 i j
    · -- g1
      intro i j hrij hl hm
      have hrij' := (hir i j).1 hrij
      simp only at hrij hl hm ⊢
      by_cases h1 : i = x ∧ j = y
      · obtain ⟨rfl, rfl⟩ := h1
        have hcxy := hcells i j
        rw [if_pos ⟨rfl, rfl⟩] at hcxy
        rw [hcxy]
        simp only [Cell.markClean_lastMain, Cell.markClean_lastComb, Cell.markClean_lastStyle, hcm, hcomb, hcst]
        refine ⟨style, nlb, ?_, hstyle1, hstyle2, ?_⟩
        · rw [hgrid, hshown]
          have : ¬ (i = i + 1 ∧ j = j ∧ tx.2 > 1) := by omega
          rw [if_neg this, if_pos ⟨rfl, rfl⟩]
        · intro hn hwide
          rw [(obsMain_markClean hrw cm).2] at hwide
          obtain ⟨b1, b2, b3⟩ := hblank hn hwide
          refine ⟨b1, ?_, Or.inl ?_⟩
          · rw [hwds, hcwd]; exact b2
          · rw [hlk]; exact b3
      · have hce : cells'.cells i j = if i = x + 1 ∧ j = y ∧ tx.2 > 1 ∧ x + 1 < s.w then (s.cells.cells i j).markDirty
            else s.cells.cells i j := by rw [hcells, if_neg h1]
        by_cases h2 : i = x + 1 ∧ j = y ∧ tx.2 > 1 ∧ x + 1 < s.w
        · rw [hce, if_pos h2] at hm; simp at hm
        · rw [if_neg h2] at hce
          rw [hce] at hl hm ⊢
          obtain ⟨st', nl, hg, hs1, hs2, hb⟩ := inv.g1 i j hrij' hl hm
          refine ⟨st', nl, ?_, hs1, hs2, fun a1 a2 => ⟨(hb a1 a2).1, (hb a1 a2).2.congr (hwds i j) (hlk _ _) (hgcs i j)⟩⟩
          rw [← hg]; exact hkeepgrid i j hrij' hl hm h1 h2
    · -- g2
      intro i j hrij hcont
      have hrij' := (hir i j).1 hrij
      have hi : 0 ≤ i ∧ i < s.w ∧ 0 ≤ j ∧ j < s.h := by simp only [inRange_iff] at hrij'; omega
      rw [hgrid] at hcont
      simp only [hcells]
      by_cases c1 : i = x + 1 ∧ j = y ∧ tx.2 > 1
      · have h1 : ¬ (i = x ∧ j = y) := by omega
        have h2 : i = x + 1 ∧ j = y ∧ tx.2 > 1 ∧ x + 1 < s.w := ⟨c1.1, c1.2.1, c1.2.2, by omega⟩
        rw [if_neg h1, if_pos h2]; right; simp
      · rw [if_neg c1] at hcont
        by_cases h1 : i = x ∧ j = y
        · rw [if_pos h1] at hcont; exact absurd hcont (by simp)
        · rw [if_neg h1] at hcont ⊢
          have h2 : ¬ (i = x + 1 ∧ j = y ∧ tx.2 > 1 ∧ x + 1 < s.w) := fun h => c1 ⟨h.1, h.2.1, h.2.2.1⟩
          rw [if_neg h2]
          split at hcont
          · exact absurd hcont (by simp)
          · split at hcont
            · exact absurd hcont (by simp)
            · split at hcont
              · exact absurd hcont (by simp)
              · exact inv.g2 i j hrij' hcont
    · -- wf
      intro i j hrij hcont
      have hrij' := (hir i j).1 hrij
      rw [hgrid] at hcont
      by_cases c1 : i = x + 1 ∧ j = y ∧ tx.2 > 1
      · refine ⟨tx.1, style, ?_⟩
        rw [hgrid]
        have e : i - 1 = x := by omega
        have n1 : ¬ (i - 1 = x + 1 ∧ j = y ∧ tx.2 > 1) := by omega
        rw [if_neg n1, if_pos ⟨e, c1.2.1⟩]; simp [c1.2.2]
      · rw [if_neg c1] at hcont
        by_cases h1 : i = x ∧ j = y
        · rw [if_pos h1] at hcont; exact absurd hcont (by simp)
        · rw [if_neg h1] at hcont
          by_cases c3 : i = x + 2 ∧ j = y ∧ tx.2 > 1 ∧ t.grid (x + 2) y = .cont
          · rw [if_pos c3] at hcont; exact absurd hcont (by simp)
          · rw [if_neg c3] at hcont
            by_cases c4 : i = x + 1 ∧ j = y ∧ tx.2 ≤ 1 ∧ t.grid (x + 1) y = .cont
            · rw [if_pos c4] at hcont; exact absurd hcont (by simp)
            · rw [if_neg c4] at hcont
              by_cases c5 : i = x - 1 ∧ j = y ∧ t.grid x y = .cont
              · rw [if_pos c5] at hcont; exact absurd hcont (by simp)
              · rw [if_neg c5] at hcont
                obtain ⟨b, st, hb⟩ := inv.wf i j hrij' hcont
                refine ⟨b, st, ?_⟩
                rw [hgrid, ← hb]
                have m1 : ¬ (i - 1 = x + 1 ∧ j = y ∧ tx.2 > 1) := by
                  intro h; apply c3; refine ⟨by omega, h.2.1, h.2.2, ?_⟩
                  have : i = x + 2 := by omega
                  rw [← this, ← h.2.1]; exact hcont
                have m2 : ¬ (i - 1 = x ∧ j = y) := by
                  intro h
                  have hi : i = x + 1 := by omega
                  by_cases hw : tx.2 > 1
                  · exact c1 ⟨hi, h.2, hw⟩
                  · apply c4; refine ⟨hi, h.2, by omega, ?_⟩
                    rw [← hi, ← h.2]; exact hcont
                have m3 : ¬ (i - 1 = x + 2 ∧ j = y ∧ tx.2 > 1 ∧ t.grid (x + 2) y = .cont) := by
                  intro h; rw [h.1, h.2.1] at hb; rw [hb] at h; exact absurd h.2.2.2 (by simp)
                have m4 : ¬ (i - 1 = x + 1 ∧ j = y ∧ tx.2 ≤ 1 ∧ t.grid (x + 1) y = .cont) := by
                  intro h; rw [h.1, h.2.1] at hb; rw [hb] at h; exact absurd h.2.2.2 (by simp)
                have m5 : ¬ (i - 1 = x - 1 ∧ j = y ∧ t.grid x y = .cont) := by
                  intro h; exact h1 ⟨by omega, h.2.1⟩
                simp only [m1, m2, m3, m4, m5, if_false]
    · -- g3
      intro i j hrij hl hm b st hsh hlt
      have hrij' := (hir i j).1 hrij
      have hi : 0 ≤ i ∧ i < s.w ∧ 0 ≤ j ∧ j < s.h := by simp only [inRange_iff] at hrij'; omega
      simp only at hrij hl hm hsh hlt ⊢
      by_cases h1 : i = x ∧ j = y
      · obtain ⟨rfl, rfl⟩ := h1
        rw [hgrid] at hsh
        have n0 : ¬ (i = i + 1 ∧ j = j ∧ tx.2 > 1) := by omega
        rw [if_neg n0, if_pos ⟨rfl, rfl⟩] at hsh
        injection hsh with _ hwd _
        have hwd' : tx.2 > 1 := by simpa using hwd
        rw [hgrid, if_pos ⟨rfl, rfl, hwd'⟩]
      · have hce : cells'.cells i j = if i = x + 1 ∧ j = y ∧ tx.2 > 1 ∧ x + 1 < s.w then (s.cells.cells i j).markDirty
            else s.cells.cells i j := by rw [hcells, if_neg h1]
        by_cases h2 : i = x + 1 ∧ j = y ∧ tx.2 > 1 ∧ x + 1 < s.w
        · rw [hce, if_pos h2] at hm; simp at hm
        · rw [if_neg h2] at hce
          rw [hce] at hl hm
          rw [hkeepgrid i j hrij' hl hm h1 h2] at hsh
          have hold := inv.g3 i j hrij' hl hm b st hsh hlt
          rw [hgrid]
          by_cases c1 : i + 1 = x + 1 ∧ j = y ∧ tx.2 > 1
          · rw [if_pos c1]
          · rw [if_neg c1]
            have n2 : ¬ (i + 1 = x ∧ j = y) := by
              intro h
              have e : i = x - 1 := by omega
              have hl' := hl; have hm' := hm; have hs' := hsh
              rw [e, h.2] at hl' hm' hs'
              exact inv.q (by omega) hxy.2.1 hlock hl' hm' b st hs'
            have n3 : ¬ (i + 1 = x + 2 ∧ j = y ∧ tx.2 > 1 ∧ t.grid (x + 2) y = .cont) := by
              intro h; exact h2 ⟨by omega, h.2.1, h.2.2.1, by omega⟩
            have n4 : ¬ (i + 1 = x + 1 ∧ j = y ∧ tx.2 ≤ 1 ∧ t.grid (x + 1) y = .cont) := by
              intro h; exact h1 ⟨by omega, h.2.1⟩
            have n5 : ¬ (i + 1 = x - 1 ∧ j = y ∧ t.grid x y = .cont) := by
              intro h
              obtain ⟨b', st'', hb⟩ := inv.wf x y hr h.2.2
              have e : i + 1 = x - 1 := h.1
              rw [e, h.2.1] at hold
              rw [hold] at hb; exact absurd hb (by simp)
            simp only [n2, n3, n4, n5, if_false]; exact hold
    · -- kcur
      intro hcr
      simp only at hcr ⊢
      rw [ATerm.putAt_cur, hcx]
      by_cases hw : tx.2 > 1
      · exfalso; rw [hcx, if_pos hw] at hcr
        have := (hir _ _).1 hcr; simp only [inRange_iff] at this; omega
      · rw [if_neg hw]
    · intro _; simp only; rw [ATerm.putAt_pen, ← ht0]
    · -- q at x + tx.2
      intro h1 h2 _ hl hm b st hsh
      simp only at h1 h2 hl hm hsh
      rcases hwd12 with hw | hw
      · have e : x + tx.2 - 1 = x := by omega
        rw [e, hgrid] at hsh
        have n0 : ¬ (x = x + 1 ∧ y = y ∧ tx.2 > 1) := by omega
        rw [if_neg n0, if_pos ⟨rfl, rfl⟩] at hsh
        injection hsh with _ hwd _
        have : tx.2 > 1 := by simpa using hwd
        omega
      · exfalso
        have e : x + tx.2 - 1 = x + 1 := by omega
        have n1 : ¬ (x + 1 = x ∧ y = y) := by omega
        have h2' : x + 1 = x + 1 ∧ y = y ∧ tx.2 > 1 ∧ x + 1 < s.w := ⟨rfl, rfl, by omega, by omega⟩
        have hc := hcells (x + 1) y
        rw [if_neg n1, if_pos h2'] at hc
        apply hm; rw [e, hc]; rfl
  -- the cells this payload occupies
  have hcov : ∃ cs, (t0.putAt x y tx.1 tx.2 style).covered = cs ++ t.covered ∧
      (c.guardLocked = true → ∀ p ∈ cs, s.cells.locked p.1 p.2 = false) := by
    rw [ATerm.putAt_covered, ht0cov]
    by_cases hw : tx.2 > 1
    · rw [if_pos hw]
      refine ⟨[(x + 1, y), (x, y)], rfl, ?_⟩
      intro hg p hp
      simp only [List.mem_cons, List.mem_nil_iff, or_false] at hp
      rcases hp with rfl | rfl
      · exact hguard hg hw
      · exact dirty_unlocked _ _ _ hd
    · rw [if_neg hw]
      refine ⟨[(x, y)], rfl, ?_⟩
      intro _ p hp
      simp only [List.mem_singleton] at hp; subst hp
      exact dirty_unlocked _ _ _ hd
  -- assemble, according to whether the right neighbour gets marked dirty
  by_cases hwide : tx.2 > 1 ∧ x + 1 < s.w
  · have hr1 : (s.cells.setDirty x y false).inRange (x + 1) y := by
      simp only [inRange_iff, setDirty_w, setDirty_h] at hr ⊢; omega
    have hv : s.visit c x y =
        ({ s with curstyle := style, cx := if tx.2 > 1 then -1 else x + tx.2, cy := y,
                  cells := (s.cells.setDirty x y false).setDirty (x + 1) y true },
         (if s.cy ≠ y ∨ s.cx ≠ x then [Cmd.goto x y] else []) ++
           ((if style ≠ s.curstyle then [Cmd.setPen style] else []) ++ [Cmd.put tx.1 tx.2]), tx.2) := by
      simp only [Scr.visit, hdc, hdp, hwide, and_self, if_true]
    have hcells : ∀ i j, ((s.cells.setDirty x y false).setDirty (x + 1) y true).cells i j =
        if i = x ∧ j = y then (s.cells.cells i j).markClean
        else if i = x + 1 ∧ j = y ∧ tx.2 > 1 ∧ x + 1 < s.w then (s.cells.cells i j).markDirty
        else s.cells.cells i j := by
      intro i j
      rw [setDirty_true_cells, hc1]
      by_cases h1 : i = x ∧ j = y
      · have n : ¬ (i = x + 1 ∧ j = y ∧ (s.cells.setDirty x y false).inRange (x + 1) y) := by omega
        simp only [if_neg n, if_pos h1]
      · by_cases h2 : i = x + 1 ∧ j = y
        · have p1 : i = x + 1 ∧ j = y ∧ (s.cells.setDirty x y false).inRange (x + 1) y := ⟨h2.1, h2.2, hr1⟩
          have p2 : i = x + 1 ∧ j = y ∧ tx.2 > 1 ∧ x + 1 < s.w := ⟨h2.1, h2.2, hwide.1, hwide.2⟩
          simp only [if_pos p1, if_neg h1, if_pos p2]
        · have n1 : ¬ (i = x + 1 ∧ j = y ∧ (s.cells.setDirty x y false).inRange (x + 1) y) := fun h => h2 ⟨h.1, h.2.1⟩
          have n2 : ¬ (i = x + 1 ∧ j = y ∧ tx.2 > 1 ∧ x + 1 < s.w) := fun h => h2 ⟨h.1, h.2.1⟩
          simp only [if_neg n1, if_neg h1, if_neg n2]
    have hgcs : ∀ i j, ((s.cells.setDirty x y false).setDirty (x + 1) y true).getContent i j = s.cells.getContent i j := by
      intro i j; rw [getContent_setDirty hrw _ (x + 1) y true hwok1 i j, hgc1]
    rw [hv]; simp only; rw [hterm]
    have hinv := key _ _ (by simp) hcells hgcs rfl
    refine { inv := hinv, wd_pos := by omega, wd_eq := hwdeq, gc_same := hgcs, lock_same := ?_, other_same := ?_, done := ?_,
             w_same := rfl, h_same := rfl, style_same := rfl, cursor_same := ⟨rfl, rfl, rfl, rfl⟩, flags_same := ⟨rfl, rfl⟩,
             writes := ⟨[(x, y)], by simp [ht0w], by simp [hd], by simp⟩, vis_same := by simp [ht0v], covers := hcov,
             nb := by
               intro h1 h2
               have hcc := hcells (x + 1) y
               rw [if_neg (by omega), if_pos (show x + 1 = x + 1 ∧ y = y ∧ tx.2 > 1 ∧ x + 1 < s.w from ⟨rfl, rfl, h1, h2⟩)] at hcc
               simp only [hcc]; rfl }
    · intro i j; simp only [hcells]; split
      · simp [Cell.markClean]
      · split <;> simp
    · intro i j hne; simp only [hcells]
      have n1 : ¬ (i = x ∧ j = y) := by omega
      have n2 : ¬ (i = x + 1 ∧ j = y ∧ tx.2 > 1 ∧ x + 1 < s.w) := by omega
      rw [if_neg n1, if_neg n2]
    · intro _; simp only [hcells, and_self, if_true]
      exact ⟨Cell.markClean_lastMain_ne _, by simp⟩
  · have hv : s.visit c x y =
        ({ s with curstyle := style, cx := if tx.2 > 1 then -1 else x + tx.2, cy := y,
                  cells := s.cells.setDirty x y false },
         (if s.cy ≠ y ∨ s.cx ≠ x then [Cmd.goto x y] else []) ++
           ((if style ≠ s.curstyle then [Cmd.setPen style] else []) ++ [Cmd.put tx.1 tx.2]), tx.2) := by
      simp only [Scr.visit, hdc, hdp, hwide, if_false]
    have hcells : ∀ i j, (s.cells.setDirty x y false).cells i j =
        if i = x ∧ j = y then (s.cells.cells i j).markClean
        else if i = x + 1 ∧ j = y ∧ tx.2 > 1 ∧ x + 1 < s.w then (s.cells.cells i j).markDirty
        else s.cells.cells i j := by
      intro i j; rw [hc1]
      have n2 : ¬ (i = x + 1 ∧ j = y ∧ tx.2 > 1 ∧ x + 1 < s.w) := fun h => hwide ⟨h.2.2.1, h.2.2.2⟩
      rw [if_neg n2]
    rw [hv]; simp only; rw [hterm]
    have hinv := key _ _ (by simp) hcells hgc1 rfl
    refine { inv := hinv, wd_pos := by omega, wd_eq := hwdeq, gc_same := hgc1, lock_same := ?_, other_same := ?_, done := ?_,
             w_same := rfl, h_same := rfl, style_same := rfl, cursor_same := ⟨rfl, rfl, rfl, rfl⟩, flags_same := ⟨rfl, rfl⟩,
             writes := ⟨[(x, y)], by simp [ht0w], by simp [hd], by simp⟩, vis_same := by simp [ht0v], covers := hcov,
             nb := by intro h1 h2; exact absurd ⟨h1, h2⟩ hwide }
    · intro i j; simp only [hc1]; split
      · simp [Cell.markClean]
      · rfl
    · intro i j hne; simp only [hc1]
      have n1 : ¬ (i = x ∧ j = y) := by omega
      rw [if_neg n1]
    · intro _; simp only [hc1, and_self, if_true]
      exact ⟨Cell.markClean_lastMain_ne _, by simp⟩

/-- the invariant only reads these components -/
theorem SyncInv.congr {c : DrawCfg} {d : Option Style} {s s' : Scr} {t t' : ATerm} (inv : SyncInv c d s t)
    (h1 : s'.cells = s.cells) (h2 : s'.w = s.w) (h3 : s'.h = s.h) (h4 : s'.style = s.style)
    (h5 : t'.grid = t.grid) (h6 : t'.w = t.w) (h7 : t'.h = t.h) : SyncInv c d s' t' := by
  refine { tw := by rw [h6, h2]; exact inv.tw, th := by rw [h7, h3]; exact inv.th, cw := by rw [h1, h2]; exact inv.cw,
           ch := by rw [h1, h3]; exact inv.ch, wok := by rw [h1]; exact inv.wok, valid := by rw [h1, h4]; exact inv.valid,
           g1 := ?_, g2 := ?_, wf := ?_, g3 := ?_ }
  · rw [h1, h2, h5]; exact inv.g1
  · rw [h1, h5]; exact inv.g2
  · rw [h1, h5]; exact inv.wf
  · rw [h1, h2, h5]; exact inv.g3

end Tcell
