/-
Layer B of C01/C13/C09, part 7: the effect on the reference emulator of the bytes rendered for each command, for
every terminal description in the class `XtermLike` — i.e. `CapsFx` holds for the class.  This part: the parameterless
strings (`sgr0` forms, attribute strings with or without padding, `civis` forms), cursor addressing, and the conjuncts of the
class predicate by name (`TiFacts`, `DFacts`).
-/
import Tcell.Lemmas.LayerBCmd
import Tcell.Lemmas.Color
namespace Tcell.LayerB
open Tcell Tcell.Spec.Ecma48 Tcell.Spec.Ecma48.Term
open Tcell.Render (tp parm ints)

/-! ## small emulator facts -/

theorem modes_g0 (m : Modes) (h : m.acsG0 = false) : ({ m with acsG0 := false } : Modes) = m := by cases m; simp_all
theorem modes_so (m : Modes) (h : m.shiftOut = false) : ({ m with shiftOut := false } : Modes) = m := by cases m; simp_all
theorem modes_font (m : Modes) (h : m.altFont = 0) : ({ m with altFont := 0 } : Modes) = m := by cases m; simp_all

/-- SGR reset -/
def reset (t : Term) : Term := { t with pen := { link := t.pen.link }, penKnown := true }
def withPen (t : Term) (p : Pen) : Term := { t with pen := p }

/-- the pen is in the state SGR reset leaves it in (sendFgBg is only ever called right after `sgr0`) -/
def PenReset (t : Term) : Prop := t.penKnown = true ∧ t.pen = { link := t.pen.link }

theorem reset_of_penReset {t : Term} (h : PenReset t) : reset t = t := by
  obtain ⟨h1, h2⟩ := h
  cases t with | mk cfg grid other cx cy pw pen pk lk ck modes st sv svo last mal blocks =>
  simp only at h1 h2
  subst h1
  show Term.mk cfg grid other cx cy pw { link := pen.link } true lk ck modes st sv svo last mal blocks = _
  rw [← h2]

theorem good_reset {rw} {t : Term} (g : Good rw t) : Good rw (reset t) := ⟨g.st, g.utf8, g.font, g.g0, g.so, g.irm, g.mal, g.rw⟩
theorem good_withPen {rw} {t : Term} (g : Good rw t) (p : Pen) : Good rw (withPen t p) :=
  ⟨g.st, g.utf8, g.font, g.g0, g.so, g.irm, g.mal, g.rw⟩

theorem escB_effect {rw} {t : Term} (g : Good rw t) : t.feed [27, 40, 66] = t := by
  have : t.feed [27, 40, 66] = { t with modes := { t.modes with acsG0 := false } } := by
    simp [feedByte, g.st, feedGround, c0, feedEsc, feedEscInter]
  rw [this, modes_g0 _ g.g0]

theorem si_effect {rw} {t : Term} (g : Good rw t) : t.feed [15] = t := by
  have : t.feed [15] = { t with modes := { t.modes with shiftOut := false } } := by
    simp [feedByte, g.st, feedGround, c0]
  rw [this, modes_so _ g.so]

theorem sgr0_10_effect {rw} {t : Term} (g : Good rw t) : t.feed [27, 91, 48, 59, 49, 48, 109] = reset t := by
  have h := sgr_two_effect t g.st 0 10 (by omega)
  have d0 : dec 0 = [48] := by decide
  have d10 : dec 10 = [49, 48] := by decide
  simp only [csiSeq, d0, d10, List.cons_append, List.nil_append] at h
  rw [h]
  simp [sgr, applySgr, reset]
  rw [modes_font _ g.font]

/-- `CSI " q` (DECSCA with the default parameter: characters not protected) changes nothing -/
theorem decsca_effect {rw} {t : Term} (g : Good rw t) : t.feed [27, 91, 34, 113] = t := by
  have e : ([27, 91, 34, 113] : List Nat) = csiSeq [34] 0x71 := rfl
  rw [e, feed_csi t g.st _ _ (by intro b hb; simp at hb; omega) (by omega)]
  have hp : parseCsiBody [34] = some { priv := 0, params := [[none]], inter := [34] } := by decide
  simp [dispatchCsi, hp, flat, arg]

theorem attrOff_effect {rw} {t : Term} (g : Good rw t) (s : Bytes) (hs : s ∈ attrOffForms) : t.feed s = reset t := by
  simp only [attrOffForms, List.mem_cons, List.not_mem_nil, or_false] at hs
  have r1 : ∀ {t : Term}, Good rw t → t.feed [27, 91, 109] = reset t := fun g => sgr_reset_effect _ g.st
  have r2 : ∀ {t : Term}, Good rw t → t.feed [27, 91, 48, 109] = reset t := fun g => sgr0_effect _ g.st
  rcases hs with rfl | rfl | rfl | rfl | rfl | rfl | rfl | rfl | rfl
  · show t.feed ([27, 40, 66] ++ [27, 91, 109]) = _
    rw [← feed_append, escB_effect g, r1 g]
  · show t.feed ([27, 91, 109] ++ [15]) = _
    rw [← feed_append, r1 g, si_effect (good_reset g)]
  · show t.feed ([27, 91, 109] ++ [27, 40, 66]) = _
    rw [← feed_append, r1 g, escB_effect (good_reset g)]
  · show t.feed ([27, 91, 48, 109] ++ [15]) = _
    rw [← feed_append, r2 g, si_effect (good_reset g)]
  · exact r1 g
  · exact r2 g
  · exact sgr0_10_effect g
  · show t.feed ([27, 91, 48, 59, 49, 48, 109] ++ [27, 40, 66]) = _
    rw [← feed_append, sgr0_10_effect g, escB_effect (good_reset g)]
  · show t.feed ([27, 91, 109] ++ ([15] ++ [27, 91, 34, 113])) = _
    rw [← feed_append, ← feed_append, r1 g, si_effect (good_reset g), decsca_effect (good_reset g)]

/-- a single-digit SGR -/
theorem sgr1_feed {rw} {t : Term} (g : Good rw t) (n : Nat) (hn : n < 10) : t.feed (sgr1 n) = t.sgr [[some n]] := by
  have := sgr_single t g.st n
  rw [dec_lt10 n hn] at this
  simpa [csiSeq, sgr1] using this

theorem bold_effect {rw} {t : Term} (g : Good rw t) : t.feed (sgr1 1) = withPen t { t.pen with bold := true } := by
  rw [sgr1_feed g 1 (by omega)]; simp [sgr, applySgr, sgrSimple, withPen]
theorem dim_effect {rw} {t : Term} (g : Good rw t) : t.feed (sgr1 2) = withPen t { t.pen with dim := true } := by
  rw [sgr1_feed g 2 (by omega)]; simp [sgr, applySgr, sgrSimple, withPen]
theorem italic_effect {rw} {t : Term} (g : Good rw t) : t.feed (sgr1 3) = withPen t { t.pen with italic := true } := by
  rw [sgr1_feed g 3 (by omega)]; simp [sgr, applySgr, sgrSimple, withPen]
theorem ul_effect {rw} {t : Term} (g : Good rw t) : t.feed (sgr1 4) = withPen t { t.pen with ul := 1 } := by
  rw [sgr1_feed g 4 (by omega)]; simp [sgr, applySgr, sgrSimple, withPen]
theorem blink_effect {rw} {t : Term} (g : Good rw t) : t.feed (sgr1 5) = withPen t { t.pen with blink := true } := by
  rw [sgr1_feed g 5 (by omega)]; simp [sgr, applySgr, sgrSimple, withPen]
theorem reverse_effect {rw} {t : Term} (g : Good rw t) : t.feed (sgr1 7) = withPen t { t.pen with reverse := true } := by
  rw [sgr1_feed g 7 (by omega)]; simp [sgr, applySgr, sgrSimple, withPen]
theorem strike_effect {rw} {t : Term} (g : Good rw t) : t.feed (sgr1 9) = withPen t { t.pen with strike := true } := by
  rw [sgr1_feed g 9 (by omega)]; simp [sgr, applySgr, sgrSimple, withPen]

theorem ulStyle_effect {rw} {t : Term} (g : Good rw t) (s : Nat) (hs : s ≤ 5) :
    t.feed (ulStyleStd s) = withPen t { t.pen with ul := s } := by
  have := sgr_ul_style_effect t g.st s hs
  rw [dec_lt10 s (by omega)] at this
  simpa [csiSeq, ulStyleStd, withPen] using this

theorem ulReset_effect {rw} {t : Term} (g : Good rw t) : t.feed ulResetStd = withPen t { t.pen with ulColor := .default } := by
  have := sgr_single t g.st 59
  have d : dec 59 = [53, 57] := by decide
  rw [d] at this
  have e : t.feed ulResetStd = t.sgr [[some 59]] := by simpa [csiSeq, ulResetStd] using this
  rw [e]; simp [sgr, applySgr, sgrSimple, withPen]

theorem fgbgReset_effect {rw} {t : Term} (g : Good rw t) :
    t.feed resetStd = withPen t { t.pen with fg := .default, bg := .default } := by
  have h := sgr_two_effect t g.st 39 49 (by omega)
  have d0 : dec 39 = [51, 57] := by decide
  have d1 : dec 49 = [52, 57] := by decide
  simp only [csiSeq, d0, d1, List.cons_append, List.nil_append] at h
  have e : t.feed resetStd = (t.sgr [[some 39]]).sgr [[some 49]] := by simpa [resetStd] using h
  rw [e]; simp [sgr, applySgr, sgrSimple, withPen]

/-- the three `op` forms: the pen's colours become `opSel` -/
theorem opAix_effect {rw} {t : Term} (g : Good rw t) :
    t.feed opAix = withPen t { t.pen with fg := .idx 2, bg := .idx 0 } := by
  show t.feed (csiSeq (dec (30 + 2)) 0x6d ++ csiSeq (dec (40 + 0)) 0x6d) = _
  rw [← feed_append, sgr_fg_idx_effect t g.st 2 (by omega),
    sgr_bg_idx_effect ({ t with pen := { t.pen with fg := .idx 2 } } : Term) g.st 0 (by omega)]
  rfl

theorem opPc_effect {rw} {t : Term} (g : Good rw t) :
    t.feed opPc = withPen t { t.pen with fg := .idx 7, bg := .idx 0 } := by
  have h := sgr_two_effect t g.st 37 40 (by omega)
  have d0 : dec 37 = [51, 55] := by decide
  have d1 : dec 40 = [52, 48] := by decide
  simp only [csiSeq, d0, d1, List.cons_append, List.nil_append] at h
  have e : t.feed opPc = (t.sgr [[some 37]]).sgr [[some 40]] := by simpa [opPc] using h
  rw [e]; simp [sgr, applySgr, sgrSimple, withPen]

theorem hide_effect {rw} {t : Term} (g : Good rw t) :
    t.feed hideStd = { t with modes := { t.modes with cursorVisible := false } } := by
  have := decrst_effect t g.st 25
  have d : dec 25 = [50, 53] := by decide
  rw [d] at this
  have e : t.feed hideStd = t.decMode 25 false := by simpa [csiSeq, hideStd] using this
  rw [e]; simp [decMode]

theorem urlClose_effect {rw} {t : Term} (g : Good rw t) :
    t.feed urlClose = { t with linkKnown := true, pen := { t.pen with link := none } } := osc8_close_effect t g.st

/-! ## the class: what `XtermLike` says, field by field -/

open Tcell.Spec.TermCaps (stripPadding)

theorem opt_of {s std : Bytes} (h : optForm s std = true) : s = [] ∨ s = std := by
  simpa [optForm] using h
theorem optSent_of {s std : Bytes} (h : optSent s std = true) : s = [] ∨ stripPadding s = std := by
  simpa [optSent] using h

/-- the conjuncts of `tiOk`, named -/
structure TiFacts (ti : Terminfo) : Prop where
  cup : ∃ p ∈ cupPads, ti.setCursor = cupStd ++ p
  attrOff : stripPadding ti.attrOff ∈ attrOffForms
  clear : stripPadding ti.clear ∈ clearForms
  vis : (stripPadding ti.showCursor ∈ showForms ∧ stripPadding ti.hideCursor ∈ hideForms) ∨ (ti.showCursor = [] ∧ ti.hideCursor = [])
  underline : ti.underline = [] ∨ stripPadding ti.underline = sgr1 4
  bold : ti.bold = [] ∨ stripPadding ti.bold = sgr1 1
  reverse : ti.reverse = [] ∨ stripPadding ti.reverse = sgr1 7
  blink : ti.blink = [] ∨ stripPadding ti.blink = sgr1 5
  dim : ti.dim = [] ∨ stripPadding ti.dim = sgr1 2
  italic : ti.italic = [] ∨ stripPadding ti.italic = sgr1 3
  strike : ti.strikeThrough = [] ∨ stripPadding ti.strikeThrough = sgr1 9
  col : ((palKind ti).isSome = true ∧ ti.resetFgBg ∈ opForms) ∨ monoOk ti = true
  fRGB : ti.setFgRGB = [] ∨ ti.setFgRGB = setfRGB
  bRGB : ti.setBgRGB = [] ∨ ti.setBgRGB = setbRGB
  fbRGB : ti.setFgBgRGB = [] ∨ ti.setFgBgRGB = setfbRGB
  coh1 : ti.setFgRGB.isEmpty = ti.setBgRGB.isEmpty
  coh2 : ti.setFgBgRGB.isEmpty = true ∨ ti.setFgRGB.isEmpty = false

theorem xl_tiOk {ti : Terminfo} (h : CapsOk ti = true) : tiCapsOk ti = true := by
  simp only [CapsOk, Bool.and_eq_true] at h; exact h.1

theorem xl_noCorner {ti : Terminfo} (h : XtermLike ti = true) :
    (ti.autoMargin && ti.disableAutoMargin.isEmpty && !ti.insertChar.isEmpty) = false := by
  simp only [XtermLike, tiOk, Bool.and_eq_true] at h; exact (Bool.not_eq_true' _).mp h.1.2

theorem tiFacts {ti : Terminfo} (h : CapsOk ti = true) : TiFacts ti := by
  have h1 := xl_tiOk h
  simp only [tiCapsOk, Bool.and_eq_true, and_assoc] at h1
  obtain ⟨a1, a2, a3, a4, a5, a6, a7, a8, a9, a10, a11, a12, a13, a14, a15, a17, a18⟩ := h1
  refine ⟨?_, by simpa using a2, by simpa using a3, ?_, optSent_of a5, optSent_of a6, optSent_of a7, optSent_of a8,
    optSent_of a9, optSent_of a10, optSent_of a11, ?_, opt_of a13, opt_of a14, opt_of a15,
    by simpa using a17, by simpa using a18⟩
  · simp only [List.any_eq_true, beq_iff_eq] at a1; exact a1
  · simp only [Bool.or_eq_true, Bool.and_eq_true, beq_iff_eq, List.contains_eq_mem, decide_eq_true_eq] at a4; exact a4
  · simp only [Bool.or_eq_true, Bool.and_eq_true, beq_iff_eq, List.contains_eq_mem, decide_eq_true_eq] at a12; exact a12

/-- the conjuncts of `dOk` -/
structure DFacts (d : Derived) : Prop where
  url : (d.enterUrl = urlOpen ∧ d.exitUrl = urlClose) ∨ (d.enterUrl = [] ∧ d.exitUrl = [])
  du : d.doubleUnder = [] ∨ d.doubleUnder = ulStyleStd 2
  cu : d.curlyUnder = [] ∨ d.curlyUnder = ulStyleStd 3
  dou : d.dottedUnder = [] ∨ d.dottedUnder = ulStyleStd 4
  dau : d.dashedUnder = [] ∨ d.dashedUnder = ulStyleStd 5
  uc : d.underColor = [] ∨ d.underColor = ulIdx
  urgb : d.underRGB = [] ∨ d.underRGB = ulRGB
  ufg : d.underFg = [] ∨ d.underFg = ulResetStd
  cstyles : d.cursorStyles = none ∨ d.cursorStyles = some cursorStylesStd
  coh : d.underRGB.isEmpty = d.underColor.isEmpty

theorem dFacts {rc : RenderCfg} (hx : CapsOk rc.ti = true) (hd : rc.d = derive rc.ti) : DFacts rc.d := by
  have h2 : dOk rc.d = true := by rw [hd]; simp only [CapsOk, Bool.and_eq_true] at hx; exact hx.2
  simp only [dOk, Bool.and_eq_true, Bool.or_eq_true, beq_iff_eq, and_assoc] at h2
  obtain ⟨b1, b3, b4, b5, b6, b7, b8, b9, b10, b11⟩ := h2
  exact ⟨b1, opt_of b3, opt_of b4, opt_of b5, opt_of b6, opt_of b7, opt_of b8, opt_of b9, b10, b11⟩

theorem csiSeq_clean (body : List Nat) (final : Nat) (hb : ∀ b ∈ body, b ≠ 36) (hf : final ≠ 36) :
    ∀ b ∈ csiSeq body final, b ≠ 36 := by
  intro b hb'
  simp only [csiSeq, List.mem_append, List.mem_cons, List.mem_singleton, List.not_mem_nil, or_false] at hb'
  rcases hb' with ((h | h) | h) | h <;> first | omega | exact hb b h

/-- **cursor addressing**: `TPuts(TGoto(x, y))` on a terminal of the class (standard `cup`, with or without the padding of
    the DEC entries), for every position a Go int can hold -/
theorem xl_goto_effect {rw} {rc : RenderCfg} (hx : CapsOk rc.ti = true) {t : Term} (g : Good rw t) (x y : Nat)
    (hx1 : (x : Int) + 1 < TParm.maxInt64) (hy1 : (y : Int) + 1 < TParm.maxInt64) :
    t.feed (Render.render rc (.goto x y)) =
      { t with cx := min x (t.w - 1), cy := min y (t.h - 1), pendingWrap := false, cursorKnown := true } := by
  obtain ⟨p, hp, hc⟩ := (tiFacts hx).cup
  have e : Render.render rc (.goto x y) = tp rc (parm (cupStd ++ p) (ints [(y : Int), (x : Int)])) := by
    simp only [Render.render, TPuts.tgoto, hc]; rfl
  have hs : stripPadding p = [] := by
    simp only [cupPads, List.mem_cons, List.not_mem_nil, or_false] at hp
    rcases hp with rfl | rfl | rfl <;> decide
  rw [e, parm_cup_pad p hp y x hy1 hx1, tp_padded rc _ p _ hs]
  · exact cup_effect t g.st y x
  · apply csiSeq_clean
    · intro b hb
      rcases List.mem_append.mp hb with h | h
      · exact dec_no_dollar _ b h
      · rcases List.mem_cons.mp h with h | h
        · omega
        · exact dec_no_dollar _ b h
    · omega

/-- the linux console's `CSI ? n c` only records the console cursor setting -/
theorem linuxCursor_effect {rw} {t : Term} (g : Good rw t) (n : Nat) (hn : n < 2) :
    t.feed (csiSeq [0x3f, 48 + n] 0x63) = { t with modes := { t.modes with linuxCursor := [n] } } := by
  rw [feed_csi t g.st _ _ (by intro b hb; simp at hb; omega) (by omega)]
  have hp : parseCsiBody [0x3f, 48 + n] = some { priv := 0x3f, params := [[some n]], inter := [] } := by
    have : n = 0 ∨ n = 1 := by omega
    rcases this with rfl | rfl <;> decide
  simp [dispatchCsi, hp, flat]

/-- the two `civis` forms: DECTCEM off; the linux console's `CSI ? 1 c` only records the console cursor setting -/
theorem hideForm_effect {rw} {t : Term} (g : Good rw t) (s : Bytes) (hs : s ∈ hideForms) :
    ∃ m', t.feed s = { t with modes := m' } ∧ ModesOk t.modes m' ∧ m'.cursorVisible = false ∧
      m'.cursorShape = t.modes.cursorShape := by
  simp only [hideForms, List.mem_cons, List.not_mem_nil, or_false] at hs
  rcases hs with rfl | rfl
  · exact ⟨_, hide_effect g, ⟨rfl, rfl, rfl, rfl, rfl⟩, rfl, rfl⟩
  · refine ⟨{ t.modes with cursorVisible := false, linuxCursor := [1] }, ?_, ⟨rfl, rfl, rfl, rfl, rfl⟩, rfl, rfl⟩
    show t.feed (hideStd ++ csiSeq [0x3f, 48 + 1] 0x63) = _
    rw [← feed_append, hide_effect g, linuxCursor_effect (t := { t with modes := { t.modes with cursorVisible := false } })
      (good_of_eq g rfl rfl ⟨rfl, rfl, rfl, rfl, rfl⟩ rfl) 1 (by omega)]

theorem xl_hide_effect {rw} {rc : RenderCfg} (hx : CapsOk rc.ti = true) {t : Term} (g : Good rw t)
    (hne : rc.ti.hideCursor ≠ []) :
    ∃ m', t.feed (Render.render rc .hideCursor) = { t with modes := m' } ∧ ModesOk t.modes m' ∧ m'.cursorVisible = false ∧
      m'.cursorShape = t.modes.cursorShape := by
  rcases (tiFacts hx).vis with h | h
  · have e : Render.render rc .hideCursor = stripPadding rc.ti.hideCursor := by simp only [Render.render]; exact tp_strip rc _
    rw [e]; exact hideForm_effect g _ h.2
  · exact absurd h.2 hne

/-- **attributes off** (`sgr0`) in any of the forms of the class = SGR reset -/
theorem xl_attrOff_effect {rw} {rc : RenderCfg} (hx : CapsOk rc.ti = true) {t : Term} (g : Good rw t) :
    t.feed (tp rc rc.ti.attrOff) = reset t := by
  rw [tp_strip]; exact attrOff_effect g _ (tiFacts hx).attrOff

/-! ## optional attribute strings -/

theorem isRGB_of_invalid (c : Nat) (h : Color.valid c = false) : Color.isRGB c = false := by
  rw [Color.isRGB_eq]; rw [Color.valid_eq] at h; simp [h]

/-- an attribute string that is absent or (padding removed) the standard form `std` with effect `f` on the pen -/
theorem opt_piece {rw} {rc : RenderCfg} {t : Term} (g : Good rw t) (b : Bool) (s std : Bytes) (ho : s = [] ∨ stripPadding s = std)
    (hstd : std ≠ []) (f : Pen → Pen) (heff : ∀ {t : Term}, Good rw t → t.feed std = withPen t (f t.pen)) :
    t.feed (if b then tp rc s else []) = withPen t (if (b && !s.isEmpty) = true then f t.pen else t.pen) := by
  cases b
  · simp [withPen]
  · rcases ho with rfl | h
    · simp [withPen]
    · simp only [if_true, tp_strip, h, Bool.true_and]
      cases hs : s.isEmpty
      · simp [heff g]
      · have : s = [] := by simpa using hs
        subst this
        exact absurd h.symm hstd

theorem ite_bold (c : Bool) (p : Pen) : (if c = true then ({ p with bold := true } : Pen) else p) = { p with bold := p.bold || c } := by
  cases c <;> cases p <;> simp
theorem ite_reverse (c : Bool) (p : Pen) : (if c = true then ({ p with reverse := true } : Pen) else p) = { p with reverse := p.reverse || c } := by
  cases c <;> cases p <;> simp
theorem ite_blink (c : Bool) (p : Pen) : (if c = true then ({ p with blink := true } : Pen) else p) = { p with blink := p.blink || c } := by
  cases c <;> cases p <;> simp
theorem ite_dim (c : Bool) (p : Pen) : (if c = true then ({ p with dim := true } : Pen) else p) = { p with dim := p.dim || c } := by
  cases c <;> cases p <;> simp
theorem ite_italic (c : Bool) (p : Pen) : (if c = true then ({ p with italic := true } : Pen) else p) = { p with italic := p.italic || c } := by
  cases c <;> cases p <;> simp
theorem ite_strike (c : Bool) (p : Pen) : (if c = true then ({ p with strike := true } : Pen) else p) = { p with strike := p.strike || c } := by
  cases c <;> cases p <;> simp

end Tcell.LayerB
