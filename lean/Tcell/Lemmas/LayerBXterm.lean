/-
Layer B of C01/C13/C09, part 7: the effect on the reference emulator of the bytes rendered for each command, for
every terminal description in the class `XtermLike` — i.e. `CapsFx` holds for the class.
-/
import Tcell.Lemmas.LayerBCmd
import Tcell.Lemmas.Color
namespace Tcell.LayerB
open Tcell Tcell.Spec.Ecma48 Tcell.Spec.Ecma48.Term
open Tcell.Render (tp parm ints)

/-! ## small emulator facts -/

theorem modes_g0 (m : Modes) (h : m.acsG0 = false) : ({ m with acsG0 := false } : Modes) = m := by cases m; simp_all
theorem modes_so (m : Modes) (h : m.shiftOut = false) : ({ m with shiftOut := false } : Modes) = m := by cases m; simp_all
theorem modes_font (m : Modes) (h : m.altFont = 0) : ({ m with altFont := 0 } : Modes) = m := by cases m; simp_all

/-- SGR reset -/
def reset (t : Term) : Term := { t with pen := { link := t.pen.link }, penKnown := true }
def withPen (t : Term) (p : Pen) : Term := { t with pen := p }

theorem good_reset {rw} {t : Term} (g : Good rw t) : Good rw (reset t) := ⟨g.st, g.utf8, g.font, g.g0, g.so, g.irm, g.mal, g.rw⟩
theorem good_withPen {rw} {t : Term} (g : Good rw t) (p : Pen) : Good rw (withPen t p) :=
  ⟨g.st, g.utf8, g.font, g.g0, g.so, g.irm, g.mal, g.rw⟩

theorem escB_effect {rw} {t : Term} (g : Good rw t) : t.feed [27, 40, 66] = t := by
  have : t.feed [27, 40, 66] = { t with modes := { t.modes with acsG0 := false } } := by
    simp [feedByte, g.st, feedGround, c0, feedEsc, feedEscInter]
  rw [this, modes_g0 _ g.g0]

theorem si_effect {rw} {t : Term} (g : Good rw t) : t.feed [15] = t := by
  have : t.feed [15] = { t with modes := { t.modes with shiftOut := false } } := by
    simp [feedByte, g.st, feedGround, c0]
  rw [this, modes_so _ g.so]

theorem sgr0_10_effect {rw} {t : Term} (g : Good rw t) : t.feed [27, 91, 48, 59, 49, 48, 109] = reset t := by
  have h := sgr_two_effect t g.st 0 10 (by omega)
  have d0 : dec 0 = [48] := by decide
  have d10 : dec 10 = [49, 48] := by decide
  simp only [csiSeq, d0, d10, List.cons_append, List.nil_append] at h
  rw [h]
  simp [sgr, applySgr, reset]
  rw [modes_font _ g.font]

theorem attrOff_effect {rw} {t : Term} (g : Good rw t) (s : Bytes) (hs : s ∈ attrOffForms) : t.feed s = reset t := by
  simp only [attrOffForms, List.mem_cons, List.not_mem_nil, or_false] at hs
  have r1 : ∀ {t : Term}, Good rw t → t.feed [27, 91, 109] = reset t := fun g => sgr_reset_effect _ g.st
  have r2 : ∀ {t : Term}, Good rw t → t.feed [27, 91, 48, 109] = reset t := fun g => sgr0_effect _ g.st
  rcases hs with rfl | rfl | rfl | rfl | rfl | rfl | rfl
  · show t.feed ([27, 40, 66] ++ [27, 91, 109]) = _
    rw [← feed_append, escB_effect g, r1 g]
  · show t.feed ([27, 91, 109] ++ [15]) = _
    rw [← feed_append, r1 g, si_effect (good_reset g)]
  · show t.feed ([27, 91, 109] ++ [27, 40, 66]) = _
    rw [← feed_append, r1 g, escB_effect (good_reset g)]
  · show t.feed ([27, 91, 48, 109] ++ [15]) = _
    rw [← feed_append, r2 g, si_effect (good_reset g)]
  · exact r1 g
  · exact r2 g
  · exact sgr0_10_effect g

/-- a single-digit SGR -/
theorem sgr1_feed {rw} {t : Term} (g : Good rw t) (n : Nat) (hn : n < 10) : t.feed (sgr1 n) = t.sgr [[some n]] := by
  have := sgr_single t g.st n
  rw [dec_lt10 n hn] at this
  simpa [csiSeq, sgr1] using this

theorem bold_effect {rw} {t : Term} (g : Good rw t) : t.feed (sgr1 1) = withPen t { t.pen with bold := true } := by
  rw [sgr1_feed g 1 (by omega)]; simp [sgr, applySgr, sgrSimple, withPen]
theorem dim_effect {rw} {t : Term} (g : Good rw t) : t.feed (sgr1 2) = withPen t { t.pen with dim := true } := by
  rw [sgr1_feed g 2 (by omega)]; simp [sgr, applySgr, sgrSimple, withPen]
theorem italic_effect {rw} {t : Term} (g : Good rw t) : t.feed (sgr1 3) = withPen t { t.pen with italic := true } := by
  rw [sgr1_feed g 3 (by omega)]; simp [sgr, applySgr, sgrSimple, withPen]
theorem ul_effect {rw} {t : Term} (g : Good rw t) : t.feed (sgr1 4) = withPen t { t.pen with ul := 1 } := by
  rw [sgr1_feed g 4 (by omega)]; simp [sgr, applySgr, sgrSimple, withPen]
theorem blink_effect {rw} {t : Term} (g : Good rw t) : t.feed (sgr1 5) = withPen t { t.pen with blink := true } := by
  rw [sgr1_feed g 5 (by omega)]; simp [sgr, applySgr, sgrSimple, withPen]
theorem reverse_effect {rw} {t : Term} (g : Good rw t) : t.feed (sgr1 7) = withPen t { t.pen with reverse := true } := by
  rw [sgr1_feed g 7 (by omega)]; simp [sgr, applySgr, sgrSimple, withPen]
theorem strike_effect {rw} {t : Term} (g : Good rw t) : t.feed (sgr1 9) = withPen t { t.pen with strike := true } := by
  rw [sgr1_feed g 9 (by omega)]; simp [sgr, applySgr, sgrSimple, withPen]

theorem ulStyle_effect {rw} {t : Term} (g : Good rw t) (s : Nat) (hs : s ≤ 5) :
    t.feed (ulStyleStd s) = withPen t { t.pen with ul := s } := by
  have := sgr_ul_style_effect t g.st s hs
  rw [dec_lt10 s (by omega)] at this
  simpa [csiSeq, ulStyleStd, withPen] using this

theorem ulReset_effect {rw} {t : Term} (g : Good rw t) : t.feed ulResetStd = withPen t { t.pen with ulColor := .default } := by
  have := sgr_single t g.st 59
  have d : dec 59 = [53, 57] := by decide
  rw [d] at this
  have e : t.feed ulResetStd = t.sgr [[some 59]] := by simpa [csiSeq, ulResetStd] using this
  rw [e]; simp [sgr, applySgr, sgrSimple, withPen]

theorem fgbgReset_effect {rw} {t : Term} (g : Good rw t) :
    t.feed resetStd = withPen t { t.pen with fg := .default, bg := .default } := by
  have h := sgr_two_effect t g.st 39 49 (by omega)
  have d0 : dec 39 = [51, 57] := by decide
  have d1 : dec 49 = [52, 57] := by decide
  simp only [csiSeq, d0, d1, List.cons_append, List.nil_append] at h
  have e : t.feed resetStd = (t.sgr [[some 39]]).sgr [[some 49]] := by simpa [resetStd] using h
  rw [e]; simp [sgr, applySgr, sgrSimple, withPen]

theorem hide_effect {rw} {t : Term} (g : Good rw t) :
    t.feed hideStd = { t with modes := { t.modes with cursorVisible := false } } := by
  have := decrst_effect t g.st 25
  have d : dec 25 = [50, 53] := by decide
  rw [d] at this
  have e : t.feed hideStd = t.decMode 25 false := by simpa [csiSeq, hideStd] using this
  rw [e]; simp [decMode]

theorem urlClose_effect {rw} {t : Term} (g : Good rw t) :
    t.feed urlClose = { t with linkKnown := true, pen := { t.pen with link := none } } := osc8_close_effect t g.st

/-! ## the class: what `XtermLike` says, field by field -/

theorem xl_tiOk {ti : Terminfo} (h : XtermLike ti = true) : tiOk ti = true := by
  simp only [XtermLike, Bool.and_eq_true] at h; exact h.1

theorem xl_cup {ti : Terminfo} (h : XtermLike ti = true) : ti.setCursor = cupStd := by
  have := xl_tiOk h; simp only [tiOk, Bool.and_eq_true, beq_iff_eq, and_assoc] at this; exact this.1

theorem xl_hide {ti : Terminfo} (h : XtermLike ti = true) : ti.hideCursor = hideStd := by
  have := xl_tiOk h; simp only [tiOk, Bool.and_eq_true, beq_iff_eq, and_assoc] at this; exact this.2.2.2.2.1

theorem xl_attrOff {ti : Terminfo} (h : XtermLike ti = true) : ti.attrOff ∈ attrOffForms := by
  have := xl_tiOk h; simp only [tiOk, Bool.and_eq_true, beq_iff_eq, and_assoc] at this
  simpa using this.2.1

theorem csiSeq_clean (body : List Nat) (final : Nat) (hb : ∀ b ∈ body, b ≠ 36) (hf : final ≠ 36) :
    ∀ b ∈ csiSeq body final, b ≠ 36 := by
  intro b hb'
  simp only [csiSeq, List.mem_append, List.mem_cons, List.mem_singleton, List.not_mem_nil, or_false] at hb'
  rcases hb' with ((h | h) | h) | h <;> first | omega | exact hb b h

/-- **cursor addressing**: `TPuts(TGoto(x, y))` on an `XtermLike` terminal, for every position a Go int can hold -/
theorem xl_goto_effect {rw} {rc : RenderCfg} (hx : XtermLike rc.ti = true) {t : Term} (g : Good rw t) (x y : Nat)
    (hx1 : (x : Int) + 1 < TParm.maxInt64) (hy1 : (y : Int) + 1 < TParm.maxInt64) :
    t.feed (Render.render rc (.goto x y)) =
      { t with cx := min x (t.w - 1), cy := min y (t.h - 1), pendingWrap := false, cursorKnown := true } := by
  have e : Render.render rc (.goto x y) = tp rc (parm cupStd (ints [(y : Int), (x : Int)])) := by
    simp only [Render.render, TPuts.tgoto, xl_cup hx]; rfl
  rw [e, parm_cup y x hy1 hx1, tp_clean]
  · exact cup_effect t g.st y x
  · apply csiSeq_clean
    · intro b hb
      rcases List.mem_append.mp hb with h | h
      · exact dec_no_dollar _ b h
      · rcases List.mem_cons.mp h with h | h
        · omega
        · exact dec_no_dollar _ b h
    · omega

theorem xl_hide_effect {rw} {rc : RenderCfg} (hx : XtermLike rc.ti = true) {t : Term} (g : Good rw t) :
    t.feed (Render.render rc .hideCursor) = { t with modes := { t.modes with cursorVisible := false } } := by
  have e : Render.render rc .hideCursor = hideStd := by
    simp only [Render.render, xl_hide hx]; exact tp_clean rc _ (by decide)
  rw [e]; exact hide_effect g

/-- **attributes off** (`sgr0`) in any of the seven forms of the class = SGR reset -/
theorem xl_attrOff_effect {rw} {rc : RenderCfg} (hx : XtermLike rc.ti = true) {t : Term} (g : Good rw t) :
    t.feed (tp rc rc.ti.attrOff) = reset t := by
  have hm := xl_attrOff hx
  have hc : tp rc rc.ti.attrOff = rc.ti.attrOff := by
    apply tp_clean
    revert hm; generalize rc.ti.attrOff = s; intro hm
    simp only [attrOffForms, List.mem_cons, List.not_mem_nil, or_false] at hm
    rcases hm with rfl | rfl | rfl | rfl | rfl | rfl | rfl <;> decide
  rw [hc]; exact attrOff_effect g _ hm

/-! ## the style block for styles without colours and underline (milestones a + c) -/

theorem isRGB_of_invalid (c : Nat) (h : Color.valid c = false) : Color.isRGB c = false := by
  rw [Color.isRGB_eq]; rw [Color.valid_eq] at h; simp [h]

/-- colours that make `sendFgBg` write nothing: not valid (e.g. `ColorDefault`) and not `ColorReset` -/
def NoColor (c : Nat) : Prop := Color.valid c = false ∧ c ≠ colorReset

theorem sendFgBg_none (rc : RenderCfg) (hcol : rc.ti.colors ≠ 0) (fg bg attrs : Nat) (hf : NoColor fg) (hb : NoColor bg) :
    Render.sendFgBg rc fg bg attrs = ([], attrs) := by
  have e1 := isRGB_of_invalid fg hf.1
  have e2 := isRGB_of_invalid bg hb.1
  simp [Render.sendFgBg, hcol, hf.1, hb.1, hf.2, hb.2, e1, e2]

theorem opt_piece {rw} {rc : RenderCfg} {t : Term} (g : Good rw t) (b : Bool) (s std : Bytes) (ho : s = [] ∨ s = std)
    (hstd : ∀ x ∈ std, x ≠ 36) (f : Pen → Pen) (heff : ∀ {t : Term}, Good rw t → t.feed std = withPen t (f t.pen)) :
    t.feed (if b then tp rc s else []) = withPen t (if (b && !s.isEmpty) = true then f t.pen else t.pen) := by
  cases b
  · simp [withPen]
  · rcases ho with rfl | rfl
    · simp [withPen]
    · simp only [if_true, tp_clean rc _ hstd, Bool.true_and]
      cases hs : s.isEmpty
      · simp [heff g]
      · have : s = [] := by simpa using hs
        subst this; simp [withPen]

theorem opt_of {s std : Bytes} (h : optForm s std = true) : s = [] ∨ s = std := by
  simpa [optForm] using h

theorem ite_bold (c : Bool) (p : Pen) : (if c = true then ({ p with bold := true } : Pen) else p) = { p with bold := p.bold || c } := by
  cases c <;> cases p <;> simp
theorem ite_reverse (c : Bool) (p : Pen) : (if c = true then ({ p with reverse := true } : Pen) else p) = { p with reverse := p.reverse || c } := by
  cases c <;> cases p <;> simp
theorem ite_blink (c : Bool) (p : Pen) : (if c = true then ({ p with blink := true } : Pen) else p) = { p with blink := p.blink || c } := by
  cases c <;> cases p <;> simp
theorem ite_dim (c : Bool) (p : Pen) : (if c = true then ({ p with dim := true } : Pen) else p) = { p with dim := p.dim || c } := by
  cases c <;> cases p <;> simp
theorem ite_italic (c : Bool) (p : Pen) : (if c = true then ({ p with italic := true } : Pen) else p) = { p with italic := p.italic || c } := by
  cases c <;> cases p <;> simp
theorem ite_strike (c : Bool) (p : Pen) : (if c = true then ({ p with strike := true } : Pen) else p) = { p with strike := p.strike || c } := by
  cases c <;> cases p <;> simp

/-- facts of the class used below -/
structure XL (rc : RenderCfg) : Prop where
  colors : rc.ti.colors ≠ 0
  bold : rc.ti.bold = sgr1 1
  reverse : rc.ti.reverse = sgr1 7
  blink : rc.ti.blink = [] ∨ rc.ti.blink = sgr1 5
  dim : rc.ti.dim = [] ∨ rc.ti.dim = sgr1 2
  italic : rc.ti.italic = [] ∨ rc.ti.italic = sgr1 3
  strike : rc.ti.strikeThrough = [] ∨ rc.ti.strikeThrough = sgr1 9
  enterUrl : rc.d.enterUrl = urlOpen
  exitUrl : rc.d.exitUrl = urlClose

theorem xl_facts {rc : RenderCfg} (hx : XtermLike rc.ti = true) (hd : rc.d = derive rc.ti) : XL rc := by
  have h1 := xl_tiOk hx
  have h2 : dOk rc.d = true := by rw [hd]; simp only [XtermLike, Bool.and_eq_true] at hx; exact hx.2
  simp only [tiOk, Bool.and_eq_true, beq_iff_eq, and_assoc] at h1
  obtain ⟨_, _, _, _, _, _, a7, a8, a9, a10, a11, a12, a13, _⟩ := h1
  simp only [dOk, Bool.and_eq_true, beq_iff_eq, and_assoc] at h2
  obtain ⟨b1, b2, _⟩ := h2
  refine ⟨?_, a7, a8, opt_of a9, opt_of a10, opt_of a11, opt_of a12, b1, b2⟩
  intro h0
  simp only [Bool.or_eq_true, Bool.and_eq_true, beq_iff_eq, decide_eq_true_eq] at a13
  rcases a13 with h | h
  · simp [h0] at h
  · simp [h0] at h

/-- **the whole style block of drawCell**, for every `XtermLike` terminal and every style without colours, underline
and hyperlink (any combination of bold / blink / reverse / dim / italic / strike-through): the emulator's pen becomes
exactly `penOf rc s`, pen and hyperlink state are known afterwards, nothing else changes.  (Superseded by
`xl_setPen_effect` in `LayerBXtermFx.lean`, which covers colours and underline as well; kept as the simple special case.) -/
theorem xl_setPen_attrs_effect {rw} {rc : RenderCfg} (hx : XtermLike rc.ti = true) (hd : rc.d = derive rc.ti) {t : Term}
    (g : Good rw t) (s : Style) (hf : NoColor s.fg) (hb : NoColor s.bg) (hu : s.ulStyle = 0) (hurl : s.url = "") :
    t.feed (Render.render rc (.setPen s)) = { t with pen := penOf rc s, penKnown := true, linkKnown := true } := by
  have X := xl_facts hx hd
  have hne : (!rc.d.enterUrl.isEmpty) = true := by rw [X.enterUrl]; decide
  have e : Render.render rc (.setPen s) =
      tp rc rc.ti.attrOff ++ (if bit s.attrs Render.attrBold then tp rc rc.ti.bold else []) ++
      (if bit s.attrs Render.attrReverse then tp rc rc.ti.reverse else []) ++
      (if bit s.attrs Render.attrBlink then tp rc rc.ti.blink else []) ++
      (if bit s.attrs Render.attrDim then tp rc rc.ti.dim else []) ++
      (if bit s.attrs Render.attrItalic then tp rc rc.ti.italic else []) ++
      (if bit s.attrs Render.attrStrike then tp rc rc.ti.strikeThrough else []) ++ urlClose := by
    simp only [Render.render, Render.setPen, sendFgBg_none rc X.colors _ _ _ hf hb, Render.underline, hu, hne, hurl, X.exitUrl,
      bit, if_true, List.append_nil, ne_eq, not_true_eq_false, if_false, tp_clean rc urlClose (by decide), decide_eq_true_eq]
  rw [e]
  simp only [← feed_append]
  rw [xl_attrOff_effect hx g]
  have g0 := good_reset g
  rw [opt_piece g0 _ _ (sgr1 1) (Or.inr X.bold) (by decide) (fun p => { p with bold := true }) bold_effect]
  generalize hp1 : (if (bit s.attrs Render.attrBold && !rc.ti.bold.isEmpty) = true then
    ({ (reset t).pen with bold := true } : Pen) else (reset t).pen) = p1
  have g1 := good_withPen g0 p1
  rw [opt_piece g1 _ _ (sgr1 7) (Or.inr X.reverse) (by decide) (fun p => { p with reverse := true }) reverse_effect]
  generalize hp2 : (if (bit s.attrs Render.attrReverse && !rc.ti.reverse.isEmpty) = true then
    ({ (withPen (reset t) p1).pen with reverse := true } : Pen) else (withPen (reset t) p1).pen) = p2
  have g2 := good_withPen g1 p2
  rw [opt_piece g2 _ _ (sgr1 5) X.blink (by decide) (fun p => { p with blink := true }) blink_effect]
  generalize hp3 : (if (bit s.attrs Render.attrBlink && !rc.ti.blink.isEmpty) = true then
    ({ (withPen (withPen (reset t) p1) p2).pen with blink := true } : Pen) else (withPen (withPen (reset t) p1) p2).pen) = p3
  have g3 := good_withPen g2 p3
  rw [opt_piece g3 _ _ (sgr1 2) X.dim (by decide) (fun p => { p with dim := true }) dim_effect]
  generalize hp4 : (if (bit s.attrs Render.attrDim && !rc.ti.dim.isEmpty) = true then
    ({ (withPen (withPen (withPen (reset t) p1) p2) p3).pen with dim := true } : Pen)
    else (withPen (withPen (withPen (reset t) p1) p2) p3).pen) = p4
  have g4 := good_withPen g3 p4
  rw [opt_piece g4 _ _ (sgr1 3) X.italic (by decide) (fun p => { p with italic := true }) italic_effect]
  generalize hp5 : (if (bit s.attrs Render.attrItalic && !rc.ti.italic.isEmpty) = true then
    ({ (withPen (withPen (withPen (withPen (reset t) p1) p2) p3) p4).pen with italic := true } : Pen)
    else (withPen (withPen (withPen (withPen (reset t) p1) p2) p3) p4).pen) = p5
  have g5 := good_withPen g4 p5
  rw [opt_piece g5 _ _ (sgr1 9) X.strike (by decide) (fun p => { p with strike := true }) strike_effect]
  generalize hp6 : (if (bit s.attrs Render.attrStrike && !rc.ti.strikeThrough.isEmpty) = true then
    ({ (withPen (withPen (withPen (withPen (withPen (reset t) p1) p2) p3) p4) p5).pen with strike := true } : Pen)
    else (withPen (withPen (withPen (withPen (withPen (reset t) p1) p2) p3) p4) p5).pen) = p6
  have g6 := good_withPen g5 p6
  rw [urlClose_effect g6]
  subst hp6; subst hp5; subst hp4; subst hp3; subst hp2; subst hp1
  -- the pen
  have c1 : colSel rc s.fg = .default := by simp [colSel, hf.1, isRGB_of_invalid _ hf.1]
  have c2 : colSel rc s.bg = .default := by simp [colSel, hb.1, isRGB_of_invalid _ hb.1]
  have hb1 : rc.ti.bold.isEmpty = false := by rw [X.bold]; decide
  have hb7 : rc.ti.reverse.isEmpty = false := by rw [X.reverse]; decide
  simp only [ite_bold, ite_reverse, ite_blink, ite_dim, ite_italic, ite_strike]
  simp [withPen, reset, penOf, c1, c2, hu, ulStyleOf, hurl, hb1, hb7]

end Tcell.LayerB
