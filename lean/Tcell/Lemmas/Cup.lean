import Tcell.Lemmas.TPuts
import Tcell.Lemmas.TParmRefine
import Tcell.Base.Dec
/-
C15: decimal rendering round trip for the model's `natDigits` / `itoa` and the reference's `readDec`; the
cursor-address decoders invert the encoders for every position.
-/
namespace Tcell.TParm
open Tcell.Spec.TermCaps

theorem natDigitsAux_eq (fuel n : Nat) (acc : Bytes) (h : n < fuel) :
    natDigitsAux fuel n acc = Dec.showDec n ++ acc := by
  induction fuel generalizing n acc with
  | zero => omega
  | succ fuel ih =>
    rw [Dec.showDec_eq]
    simp only [natDigitsAux]
    by_cases h10 : n < 10
    · simp [h10]
    · simp only [h10, if_false]
      rw [ih (n / 10) _ (by omega)]
      simp

theorem natDigits_eq (n : Nat) : natDigits n = Dec.showDec n := by
  simp [natDigits, natDigitsAux_eq (n + 1) n [] (by omega)]

theorem natDigits_digits (n : Nat) : ∀ c ∈ natDigits n, isDigit c = true := by
  rw [natDigits_eq]; exact Dec.showDec_allDigits n

theorem natDigits_ne_nil (n : Nat) : natDigits n ≠ [] := by
  rw [natDigits_eq]; exact Dec.showDec_ne_nil n

theorem decVal_snoc (a : Bytes) (d : Nat) : decVal (a ++ [d]) = decVal a * 10 + (d - 48) := by
  simp [decVal, List.foldl_append]

theorem decVal_showDec (n : Nat) : decVal (Dec.showDec n) = n := by
  induction n using Nat.strongRecOn with
  | _ n ih =>
    rw [Dec.showDec_eq]
    by_cases h : n < 10
    · simp [h, decVal]
    · simp only [h, if_false]
      rw [decVal_snoc, ih (n / 10) (by omega)]
      omega

theorem decVal_natDigits (n : Nat) : decVal (natDigits n) = n := by
  rw [natDigits_eq]; exact decVal_showDec n

/-- reading back a rendered number that is followed by a non-digit -/
theorem readDec_natDigits (n c : Nat) (rest : Bytes) (hc : isDigit c = false) :
    readDec (natDigits n ++ c :: rest) = some (n, c :: rest) := by
  have h := takeWhile_all_append isDigit (natDigits n) (c :: rest) (natDigits_digits n)
    (by intro x hx; simp at hx; subst hx; exact hc)
  unfold readDec
  simp only [h.1, h.2, decVal_natDigits]
  have := natDigits_ne_nil n
  cases hd : natDigits n with
  | nil => exact absurd hd this
  | cons x xs => simp

theorem itoa_nonneg (n : Nat) : itoa (n : Int) = natDigits n := by
  simp [itoa]

/-- every decoder inverts its encoder, for ALL positions -/
theorem decode_encode (fam : CupFamily) (r c : Nat) : fam.decode (fam.encode r c) = some (r, c) := by
  cases fam with
  | ansi =>
    simp only [CupFamily.encode, List.cons_append, List.nil_append, List.append_assoc, CupFamily.decode]
    rw [readDec_natDigits (r + 1) 59 _ (by decide)]
    simp only
    rw [readDec_natDigits (c + 1) 72 _ (by decide)]
    simp
  | vt52 => simp [CupFamily.encode, CupFamily.decode]
  | wyse => simp [CupFamily.encode, CupFamily.decode]
  | hp =>
    simp only [CupFamily.encode, List.cons_append, List.nil_append, List.append_assoc, CupFamily.decode]
    rw [readDec_natDigits r 121 _ (by decide)]
    simp only
    rw [readDec_natDigits c 67 _ (by decide)]
    rfl

end Tcell.TParm

namespace Tcell.TPuts
open Tcell.TParm Tcell.Spec.TermCaps

theorem strip_append_no36 (x y : Bytes) (h : ∀ b ∈ x, b ≠ 36) : stripPadding (x ++ y) = x ++ stripPadding y := by
  induction x with
  | nil => rfl
  | cons b r ih =>
    rw [List.cons_append, strip_cons, matchPad_none_of' b _ (by intro hh; exact h b (by simp) hh.1)]
    simp only
    rw [ih (fun z hz => h z (by simp [hz]))]
    rfl

theorem strip_no36 (x : Bytes) (h : ∀ b ∈ x, b ≠ 36) : stripPadding x = x := by
  have := strip_append_no36 x [] h
  simpa [strip_nil] using this

end Tcell.TPuts
