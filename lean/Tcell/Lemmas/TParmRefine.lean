import Tcell.Lemmas.TParm
/-
C07: the byte-level skip-register machine refines the structural terminfo(5) evaluator (DESIGN.md A.2).

Route.  `runL` is the loop with the fuel `tparmV` gives it; `runL_step` unfolds one iteration.  Every valid token is
executed by exactly one iteration in the emit state (`step_tokM`) and stepped over without any effect in a skip state
(`tok_skip`).  `skip_prog` / `skip_chain` are the **skip lemma**: the concrete syntax of a well-formed sub-tree leaves
a skip state unchanged (a nested `%? … %;` raises and lowers the nesting counter).  `exec_prog` / `exec_chain` then
show by induction on the AST that running the machine over `render a` computes `evalG semM test a`.
`semM` is the reference meaning of the tokens with Go's formatter in the printf tokens; `Tcell.Lemmas.TParmFmt`
proves `semM t s = sem t s` wherever the reference specifies the printf result.
-/
namespace Tcell.TParm
open Tcell.Spec.Terminfo5

/-! ### the loop with the fuel `tparmV` uses -/

def runL (v : Variant) (inp : Bytes) (s : St) (k : Skip) : St := run v inp.length inp s k

theorem runL_nil (v : Variant) (s : St) (k : Skip) : runL v [] s k = s := by simp [runL, run]

theorem runL_step (v : Variant) (inp : Bytes) (s : St) (k : Skip) (h : inp ≠ []) :
    runL v inp s k = runL v (step v inp s k).1 (step v inp s k).2.1 (step v inp s k).2.2 := by
  cases inp with
  | nil => exact absurd rfl h
  | cons b r =>
    have hs := step_length v (b :: r) s k (by simp)
    have hle : (step v (b :: r) s k).1.length ≤ r.length := by
      simp only [List.length_cons] at hs; omega
    obtain ⟨e, he⟩ := Nat.exists_eq_add_of_le hle
    show run v (r.length + 1) (b :: r) s k = _
    simp only [run]
    rw [he, run_extra_fuel _ _ _ _ _ _ (Nat.le_refl _)]
    rfl

theorem runL_of_step (v : Variant) (inp rest : Bytes) (s s' : St) (k k' : Skip) (h : inp ≠ [])
    (hs : step v inp s k = (rest, s', k')) : runL v inp s k = runL v rest s' k' := by
  rw [runL_step v inp s k h, hs]

/-! ### skip states: bytes that are stepped over -/

theorem skipOp_neutral (v : Variant) (c : Nat) (h1 : c ≠ 59) (h2 : c ≠ 63) (h3 : c ≠ 101) (k : Skip) :
    skipOp v c k = k := by
  cases k <;> simp [skipOp, h1, h2, h3]

theorem skip_lits (v : Variant) (l rest : Bytes) (s : St) (k : Skip) (hk : k ≠ .emit) (hl : ∀ b ∈ l, b ≠ 37) :
    runL v (l ++ rest) s k = runL v rest s k := by
  induction l with
  | nil => rfl
  | cons b l ih =>
    have hb : b ≠ 37 := hl b (by simp)
    have hst : step v (b :: (l ++ rest)) s k = (l ++ rest, s, k) := by
      simp [step, hb, hk]
    rw [List.cons_append, runL_of_step v _ _ _ _ _ _ (by simp) hst]
    exact ih (fun x hx => hl x (by simp [hx]))

theorem skip_pair (v : Variant) (c : Nat) (rest : Bytes) (s : St) (k : Skip) (hk : k ≠ .emit) :
    runL v (37 :: c :: rest) s k = runL v rest s (skipOp v c k) := by
  have hst : step v (37 :: c :: rest) s k = (rest, s, skipOp v c k) := by
    cases k with
    | emit => exact absurd rfl hk
    | toEnd d => simp [step]
    | toElse d => simp [step]
  exact runL_of_step v _ _ _ _ _ _ (by simp) hst

/-- a `%`-token whose first character is not a conditional marker and whose remaining bytes contain no `%` -/
theorem skip_body (v : Variant) (body rest : Bytes) (s : St) (k : Skip) (hk : k ≠ .emit) (hne : body ≠ [])
    (hh : ∀ c, body.head? = some c → c ≠ 59 ∧ c ≠ 63 ∧ c ≠ 101) (hl : ∀ b ∈ body.tail, b ≠ 37) :
    runL v (37 :: body ++ rest) s k = runL v rest s k := by
  cases body with
  | nil => exact absurd rfl hne
  | cons c tail =>
    have := hh c rfl
    rw [List.cons_append, List.cons_append, skip_pair v c _ s k hk, skipOp_neutral v c this.1 this.2.1 this.2.2]
    exact skip_lits v tail rest s k hk hl

theorem isDigit_iff (c : Nat) : isDigit c = true ↔ 48 ≤ c ∧ c ≤ 57 := by
  simp [isDigit]

theorem isFlagC_iff (c : Nat) : isFlagC c = true ↔ c = 45 ∨ c = 43 ∨ c = 35 ∨ c = 32 := by
  simp [isFlagC, or_assoc]

theorem conv_byte_cases (cv : Conv) :
    cv.byte = 100 ∨ cv.byte = 111 ∨ cv.byte = 120 ∨ cv.byte = 88 ∨ cv.byte = 115 ∨ cv.byte = 99 := by
  cases cv <;> simp [Conv.byte]

/-- the bytes of a printf token after the `%` -/
def FmtSpec.body (f : FmtSpec) : Bytes :=
  (if f.colon then [58] else []) ++ f.flags ++ f.width ++
    (match f.prec with | some p => 46 :: p | none => []) ++ [f.conv.byte]

theorem FmtSpec.render_eq (f : FmtSpec) : f.render = 37 :: FmtSpec.body f := rfl

theorem fmt_body_bytes (f : FmtSpec) (hv : f.valid = true) :
    ∀ b ∈ FmtSpec.body f, b ≠ 37 ∧ b ≠ 59 ∧ b ≠ 63 ∧ b ≠ 101 := by
  simp only [FmtSpec.valid, Bool.and_eq_true, List.all_eq_true] at hv
  obtain ⟨⟨⟨⟨⟨hfl, hw⟩, hp⟩, _⟩, _⟩, _⟩ := hv
  intro b hb
  simp only [FmtSpec.body, List.mem_append] at hb
  rcases hb with (((hb | hb) | hb) | hb) | hb
  · split at hb <;> simp at hb; omega
  · have := (isFlagC_iff b).mp (hfl b hb); omega
  · have := (isDigit_iff b).mp (hw b hb); omega
  · cases hpr : f.prec with
    | none => simp [hpr] at hb
    | some p =>
      simp only [hpr, List.mem_cons] at hb
      rcases hb with hb | hb
      · omega
      · have := (isDigit_iff b).mp (hp b (by simpa [hpr] using hb)); omega
  · simp only [List.mem_singleton] at hb
    have := conv_byte_cases f.conv; omega

theorem fmt_body_ne_nil (f : FmtSpec) : FmtSpec.body f ≠ [] := by
  simp [FmtSpec.body]

/-- a valid token is stepped over in a skip state without changing anything -/
theorem tok_skip (v : Variant) (t : Tok) (hv : t.valid = true) (rest : Bytes) (s : St) (k : Skip) (hk : k ≠ .emit) :
    runL v (t.render ++ rest) s k = runL v rest s k := by
  cases t with
  | lit b =>
    simp only [Tok.valid, Bool.and_eq_true, bne_iff_ne, ne_eq, decide_eq_true_eq] at hv
    exact skip_lits v [b] rest s k hk (by simp [hv.1])
  | chr c =>
    show runL v (37 :: 39 :: c :: 39 :: rest) s k = _
    rw [skip_pair v 39 _ s k hk, skipOp_neutral v 39 (by decide) (by decide) (by decide)]
    by_cases hc : c = 37
    · subst hc
      rw [skip_pair v 39 _ s k hk, skipOp_neutral v 39 (by decide) (by decide) (by decide)]
    · exact skip_lits v [c, 39] rest s k hk (by simp [hc])
  | fmt f =>
    have hb := fmt_body_bytes f hv
    show runL v (37 :: FmtSpec.body f ++ rest) s k = _
    apply skip_body v _ rest s k hk (fmt_body_ne_nil f)
    · intro c hc
      have := hb c (List.mem_of_mem_head? hc)
      exact ⟨this.2.1, this.2.2.1, this.2.2.2⟩
    · intro b hb'
      exact (hb b (List.mem_of_mem_tail hb')).1
  | num ds =>
    simp only [Tok.valid, Bool.and_eq_true, List.all_eq_true] at hv
    show runL v (37 :: (123 :: (ds ++ [125])) ++ rest) s k = _
    apply skip_body v _ rest s k hk (by simp)
    · intro c hc; simp at hc; omega
    · intro b hb'
      simp only [List.tail_cons, List.mem_append, List.mem_singleton] at hb'
      rcases hb' with hb' | hb'
      · have := (isDigit_iff b).mp (hv.1.2 b hb'); omega
      · omega
  | param i =>
    simp only [Tok.valid, Bool.and_eq_true, decide_eq_true_eq] at hv
    exact skip_body v [112, 48 + i] rest s k hk (by simp) (by intro c hc; simp at hc; omega) (by simp; omega)
  | setDyn i =>
    simp only [Tok.valid, decide_eq_true_eq] at hv
    exact skip_body v [80, 97 + i] rest s k hk (by simp) (by intro c hc; simp at hc; omega) (by simp; omega)
  | setStat i =>
    simp only [Tok.valid, decide_eq_true_eq] at hv
    exact skip_body v [80, 65 + i] rest s k hk (by simp) (by intro c hc; simp at hc; omega) (by simp; omega)
  | getDyn i =>
    simp only [Tok.valid, decide_eq_true_eq] at hv
    exact skip_body v [103, 97 + i] rest s k hk (by simp) (by intro c hc; simp at hc; omega) (by simp; omega)
  | getStat i =>
    simp only [Tok.valid, decide_eq_true_eq] at hv
    exact skip_body v [103, 65 + i] rest s k hk (by simp) (by intro c hc; simp at hc; omega) (by simp; omega)
  | bin o =>
    apply skip_body v [o.byte] rest s k hk (by simp) _ (by simp)
    intro c hc
    simp only [List.head?_cons, Option.some.injEq] at hc
    subst hc
    cases o <;> simp [BinOp.byte]
  | pct => exact skip_body v [37] rest s k hk (by simp) (by intro c hc; simp at hc; omega) (by simp)
  | incr => exact skip_body v [105] rest s k hk (by simp) (by intro c hc; simp at hc; omega) (by simp)
  | outD => exact skip_body v [100] rest s k hk (by simp) (by intro c hc; simp at hc; omega) (by simp)
  | outC => exact skip_body v [99] rest s k hk (by simp) (by intro c hc; simp at hc; omega) (by simp)
  | outS => exact skip_body v [115] rest s k hk (by simp) (by intro c hc; simp at hc; omega) (by simp)
  | strlen => exact skip_body v [108] rest s k hk (by simp) (by intro c hc; simp at hc; omega) (by simp)
  | lnot => exact skip_body v [33] rest s k hk (by simp) (by intro c hc; simp at hc; omega) (by simp)
  | bnot => exact skip_body v [126] rest s k hk (by simp) (by intro c hc; simp at hc; omega) (by simp)

/-! ### the emit state: one iteration per token -/

/-- Go's `fmt` flags/width/precision for a printf token as the machine's two scanning loops collect them -/
def goFmt (f : FmtSpec) : Fmt :=
  parseFmt f.flags (f.width ++ (match f.prec with | some p => 46 :: p | none => []))

/-- meaning of the simple tokens as the machine computes them: the reference `sem`, except that printf tokens are
formatted by Go's `fmt` (`fmtEffect`) instead of C's printf (`cFmtInt`/`cFmtStr`) -/
def semM (t : Tok) (s : St) : St :=
  match t with
  | .fmt f => fmtEffect (goFmt f) f.conv.byte s
  | t => sem t s

/-- tokens the variant implements: `%A`/`%O` and the `#`/space flags without a colon need the repairs -/
def tokOk (v : Variant) : Tok → Bool
  | .bin .logAnd | .bin .logOr => v.logAO
  | .fmt f => v.flagNoColon || f.colon || f.flags.isEmpty
  | _ => true

theorem tokOk_repaired (t : Tok) : tokOk repaired t = true := by
  cases t <;> simp [tokOk, repaired]
  rename_i o; cases o <;> simp [tokOk]

theorem tokOk_pinned (t : Tok) (h : t.pinnedOk = true) : tokOk pinned t = true := by
  cases t <;> simp_all [tokOk, pinned, Tok.pinnedOk]
  rename_i o; cases o <;> simp_all [tokOk, Tok.pinnedOk]

theorem takeWhile_append_stop {α} (p : α → Bool) (a b : List α) (hb : ∀ x, b.head? = some x → p x = false) :
    (a ++ b).takeWhile p = a.takeWhile p ∧ (a ++ b).dropWhile p = a.dropWhile p ++ b := by
  induction a with
  | nil =>
    cases b with
    | nil => simp
    | cons x b => simp [List.takeWhile, List.dropWhile, hb x rfl]
  | cons x a ih =>
    simp only [List.cons_append, List.takeWhile, List.dropWhile]
    cases p x <;> simp [ih]

theorem takeWhile_all {α} (p : α → Bool) (a : List α) (h : ∀ x ∈ a, p x = true) :
    a.takeWhile p = a ∧ a.dropWhile p = [] := by
  induction a with
  | nil => simp
  | cons x a ih =>
    simp only [List.takeWhile, List.dropWhile, h x (by simp)]
    simp [ih (fun y hy => h y (by simp [hy]))]

theorem takeWhile_all_append {α} (p : α → Bool) (a b : List α) (h : ∀ x ∈ a, p x = true)
    (hb : ∀ x, b.head? = some x → p x = false) :
    (a ++ b).takeWhile p = a ∧ (a ++ b).dropWhile p = b := by
  have h1 := takeWhile_append_stop p a b hb
  have h2 := takeWhile_all p a h
  rw [h1.1, h1.2, h2.1, h2.2]; simp

theorem isFlag_eq (c : Nat) : isFlag c = isFlagC c := by
  simp only [isFlag, isFlagC]
  cases (c == 43) <;> cases (c == 45) <;> rfl

theorem isNum_iff (c : Nat) : isNum c = true ↔ (48 ≤ c ∧ c ≤ 57) ∨ c = 46 := by
  simp [isNum, isDigit]

/-- the two scanning loops of the printf path find exactly the flags and the width/precision as written -/
theorem fmt_scan (f : FmtSpec) (hv : f.valid = true) (rest : Bytes) :
    let all := f.flags ++ (f.width ++ ((match f.prec with | some p => 46 :: p | none => []) ++ (f.conv.byte :: rest)))
    all.takeWhile isFlag = f.flags ∧
    (all.dropWhile isFlag).takeWhile isNum = f.width ++ (match f.prec with | some p => 46 :: p | none => []) ∧
    (all.dropWhile isFlag).dropWhile isNum = f.conv.byte :: rest := by
  have hv' := hv
  simp only [FmtSpec.valid, Bool.and_eq_true, List.all_eq_true] at hv'
  obtain ⟨⟨⟨⟨⟨hfl, hw⟩, hp⟩, _⟩, hpw⟩, _⟩ := hv'
  have hcv := conv_byte_cases f.conv
  have hflag : ∀ x ∈ f.flags, isFlag x = true := fun x hx => by rw [isFlag_eq]; exact hfl x hx
  have hstop1 : ∀ x, (f.width ++ ((match f.prec with | some p => 46 :: p | none => []) ++ (f.conv.byte :: rest))).head? = some x →
      isFlag x = false := by
    intro x hx
    cases hwd : f.width with
    | cons d ds =>
      simp only [hwd, List.cons_append, List.head?_cons, Option.some.injEq] at hx
      subst hx
      have := (isDigit_iff d).mp (hw d (by simp [hwd]))
      simp [isFlag]; omega
    | nil =>
      have hpn : f.prec = none := by
        cases hpp : f.prec with
        | none => rfl
        | some p => simp [hpp, hwd] at hpw
      simp only [hwd, hpn, List.nil_append, List.head?_cons, Option.some.injEq] at hx
      subst hx
      simp [isFlag]; omega
  have h1 := takeWhile_all_append isFlag f.flags _ hflag hstop1
  have hnum : ∀ x ∈ f.width ++ (match f.prec with | some p => 46 :: p | none => []), isNum x = true := by
    intro x hx
    rw [isNum_iff]
    rcases List.mem_append.mp hx with hx | hx
    · exact Or.inl ((isDigit_iff x).mp (hw x hx))
    · cases hpp : f.prec with
      | none => simp [hpp] at hx
      | some p =>
        simp only [hpp, List.mem_cons] at hx
        rcases hx with hx | hx
        · exact Or.inr hx
        · exact Or.inl ((isDigit_iff x).mp (hp x (by simpa [hpp] using hx)))
  have hstop2 : ∀ x, (f.conv.byte :: rest).head? = some x → isNum x = false := by
    intro x hx
    simp only [List.head?_cons, Option.some.injEq] at hx
    subst hx
    have : ¬ ((48 ≤ f.conv.byte ∧ f.conv.byte ≤ 57) ∨ f.conv.byte = 46) := by omega
    cases hn : isNum f.conv.byte with
    | false => rfl
    | true => exact absurd ((isNum_iff _).mp hn) this
  have h2 := takeWhile_all_append isNum _ (f.conv.byte :: rest) hnum hstop2
  refine ⟨h1.1, ?_, ?_⟩
  · rw [h1.2, ← List.append_assoc]; exact h2.1
  · rw [h1.2, ← List.append_assoc]; exact h2.2

theorem stepFmt_render (f : FmtSpec) (hv : f.valid = true) (c : Nat) (r rest : Bytes) (s : St)
    (hcr : c :: r = FmtSpec.body f ++ rest) :
    stepFmt c r s = (rest, fmtEffect (goFmt f) f.conv.byte s) := by
  have hsc := fmt_scan f hv rest
  have hcv := conv_byte_cases f.conv
  have hall : fmtChars c r =
      f.flags ++ (f.width ++ ((match f.prec with | some p => 46 :: p | none => []) ++ (f.conv.byte :: rest))) := by
    unfold fmtChars
    by_cases hcol : f.colon = true
    · simp only [FmtSpec.body, hcol, if_true, List.append_assoc, List.cons_append, List.nil_append,
        List.cons.injEq] at hcr
      obtain ⟨rfl, rfl⟩ := hcr
      simp only [beq_self_eq_true, if_true]
      generalize hg : f.flags ++ (f.width ++ ((match f.prec with | some p => 46 :: p | none => []) ++ (f.conv.byte :: rest))) = g
      cases g with
      | nil => simp at hg
      | cons x g => simp [hd0]
    · have hb := fmt_body_bytes f hv
      have hc58 : c ≠ 58 := by
        have hmem : c ∈ FmtSpec.body f := by
          cases hbd : FmtSpec.body f with
          | nil => exact absurd hbd (fmt_body_ne_nil f)
          | cons x xs => rw [hbd] at hcr; simp at hcr; simp [hcr.1]
        simp only [FmtSpec.body, hcol, List.mem_append] at hmem
        simp only [FmtSpec.valid, Bool.and_eq_true, List.all_eq_true] at hv
        obtain ⟨⟨⟨⟨⟨hfl, hw⟩, hp⟩, _⟩, _⟩, _⟩ := hv
        rcases hmem with (((hm | hm) | hm) | hm) | hm
        · simp at hm
        · have := (isFlagC_iff c).mp (hfl c hm); omega
        · have := (isDigit_iff c).mp (hw c hm); omega
        · cases hpr : f.prec with
          | none => simp [hpr] at hm
          | some p =>
            simp only [hpr, List.mem_cons] at hm
            rcases hm with hm | hm
            · omega
            · have := (isDigit_iff c).mp (hp c (by simpa [hpr] using hm)); omega
        · simp only [List.mem_singleton] at hm; omega
      simp only [beq_iff_eq, hc58, if_false]
      rw [hcr]
      simp [FmtSpec.body, hcol]
  unfold stepFmt
  simp only [hall]
  rw [hsc.1, hsc.2.1, hsc.2.2]
  simp [hd0, goFmt]

theorem foldl_dec_ge (ds : Bytes) (acc : Nat) : acc ≤ ds.foldl (fun a c => a * 10 + (c - 48)) acc := by
  induction ds generalizing acc with
  | nil => simp
  | cons c cs ih => simp only [List.foldl_cons]; exact Nat.le_trans (by omega) (ih _)

theorem readInt_digits (ds rest : Bytes) (acc : Nat) (hd : ∀ c ∈ ds, isDigit c = true)
    (hb : ds.foldl (fun a c => a * 10 + (c - 48)) acc < 9223372036854775808) :
    readInt (ds ++ 125 :: rest) (acc : Int) = (((ds.foldl (fun a c => a * 10 + (c - 48)) acc : Nat) : Int), rest) := by
  induction ds generalizing acc with
  | nil => simp [readInt, isDigit]
  | cons c cs ih =>
    have hc : isDigit c = true := hd c (by simp)
    simp only [List.cons_append, readInt, hc, if_true, List.foldl_cons]
    simp only [List.foldl_cons] at hb
    have hge := foldl_dec_ge cs (acc * 10 + (c - 48))
    have hw : wrap64 (wrap64 ((acc : Int) * 10) + ((c - 48 : Nat) : Int)) = ((acc * 10 + (c - 48) : Nat) : Int) := by
      unfold wrap64 two63 two64
      omega
    rw [hw]
    exact ih _ (fun x hx => hd x (by simp [hx])) hb

theorem step_tokM (v : Variant) (t : Tok) (hok : tokOk v t = true) (hv : t.valid = true) (rest : Bytes) (s : St) :
    step v (t.render ++ rest) s .emit = (rest, semM t s, .emit) := by
  by_cases hs : simpleTok t = true
  · rw [step_tok v t hs hv rest s]
    cases t <;> first | rfl | simp [simpleTok] at hs
  · cases t with
    | num ds =>
      simp only [Tok.valid, Bool.and_eq_true, List.all_eq_true, decide_eq_true_eq] at hv
      have hr := readInt_digits ds rest 0 hv.1.2 hv.2
      simp only [Int.natCast_zero] at hr
      show step v (37 :: 123 :: (ds ++ [125]) ++ rest) s .emit = _
      simp only [List.append_assoc, List.cons_append, List.nil_append]
      simp [step, execOp, isDigit, hr, semM, sem, decVal]
    | fmt f =>
      have hbd : FmtSpec.body f ≠ [] := fmt_body_ne_nil f
      have hb := fmt_body_bytes f hv
      show step v (37 :: FmtSpec.body f ++ rest) s .emit = _
      cases hbody : FmtSpec.body f with
      | nil => exact absurd hbody hbd
      | cons c r =>
        have hst := stepFmt_render f hv c (r ++ rest) rest s (by rw [hbody]; rfl)
        -- dispatch of `c`
        have hdisp : (isDigit c || c == 120 || c == 88 || c == 111 || c == 58
            || (v.flagNoColon && (c == 35 || c == 32))) = true := by
          have hv' : f.valid = true := hv
          simp only [FmtSpec.valid, Bool.and_eq_true, List.all_eq_true] at hv'
          obtain ⟨⟨⟨⟨⟨hfl, hw⟩, hp⟩, hcf⟩, hpw⟩, hplain⟩ := hv'
          simp only [tokOk] at hok
          by_cases hcol : f.colon = true
          · simp only [FmtSpec.body, hcol, if_true, List.append_assoc, List.cons_append, List.nil_append,
              List.cons.injEq] at hbody
            simp [← hbody.1]
          · simp only [hcol, Bool.false_or] at hcf hplain hok
            simp only [FmtSpec.body, hcol, Bool.false_eq_true, if_false, List.nil_append, List.append_assoc] at hbody
            cases hfl' : f.flags with
            | cons x xs =>
              simp only [hfl', List.cons_append, List.cons.injEq] at hbody
              have hx := (isFlagC_iff x).mp (hfl x (by simp [hfl']))
              simp only [hfl', List.head?_cons, bne_iff_ne, ne_eq, Option.some.injEq, Bool.and_eq_true,
                decide_eq_true_eq] at hcf
              have hfn : v.flagNoColon = true := by simpa [hfl'] using hok
              rw [← hbody.1]
              have : x = 35 ∨ x = 32 := by omega
              rcases this with h | h <;> simp [h, hfn]
            | nil =>
              simp only [hfl', List.nil_append] at hbody
              cases hwd : f.width with
              | cons d ds =>
                simp only [hwd, List.cons_append, List.cons.injEq] at hbody
                have hd := hw d (by simp [hwd])
                rw [← hbody.1]; simp [hd]
              | nil =>
                have hpn : f.prec = none := by
                  cases hpp : f.prec with
                  | none => rfl
                  | some p => simp [hpp, hwd] at hpw
                simp only [hwd, hpn, List.nil_append, List.cons.injEq] at hbody
                simp only [hfl', hwd, List.isEmpty_nil, Bool.not_true, Bool.false_or] at hplain
                rw [← hbody.1]
                cases hcv : f.conv <;> simp [hcv] at hplain <;> simp [Conv.byte]
        have hne := hb c (by simp [hbody])
        have hexec : execOp v c (r ++ rest) s = (rest, semM (.fmt f) s, .emit) := by
          have hnot : c ≠ 37 ∧ c ≠ 105 ∧ c ≠ 115 ∧ c ≠ 99 ∧ c ≠ 100 := by
            simp only [Bool.or_eq_true, Bool.and_eq_true, beq_iff_eq, isDigit, decide_eq_true_eq] at hdisp
            omega
          unfold execOp
          simp only [beq_iff_eq, hnot.1, hnot.2.1, hnot.2.2.1, hnot.2.2.2.1, hnot.2.2.2.2, if_false]
          rw [if_pos hdisp, hst]
          rfl
        simp only [List.cons_append, step]
        simpa using hexec
    | bin o =>
      cases o <;> first
        | (simp [simpleTok] at hs; done)
        | (simp only [tokOk] at hok
           simp [Tok.render, BinOp.byte, step, execOp, semM, sem, isDigit, binop, pop2, BinOp.apply, hok])
    | _ => simp [simpleTok] at hs

/-! ### the skip lemma -/

/-- skip states in which `%t` and `%e` of a chain are stepped over: any skip-to-end state, and a skip-to-else state
inside a nested conditional (repaired machine only) -/
def deepV (v : Variant) : Skip → Prop
  | .emit => False
  | .toEnd _ => True
  | .toElse d => v.nesting = true ∧ d > 0

theorem deepV_ne_emit {v : Variant} {k : Skip} (h : deepV v k) : k ≠ .emit := by
  cases k <;> simp_all [deepV]

theorem skipOp_else_deep (v : Variant) (k : Skip) (h : deepV v k) : skipOp v 101 k = k := by
  cases k with
  | emit => simp [deepV] at h
  | toEnd d => simp [skipOp]
  | toElse d =>
    simp only [deepV] at h
    have : ¬ d = 0 := by omega
    simp [skipOp, h.1, h.2]

/-- what `%?` … `%;` do to a skip state of the machine with the nesting counter -/
theorem skipOp_open_close (v : Variant) (hn : v.nesting = true) (k : Skip) (hk : k ≠ .emit) :
    deepV v (skipOp v 63 k) ∧ skipOp v 59 (skipOp v 63 k) = k := by
  cases k with
  | emit => exact absurd rfl hk
  | toEnd d => simp [skipOp, hn, deepV]
  | toElse d => simp [skipOp, hn, deepV]

mutual
/-- **skip lemma**, programs: in a skip state the concrete syntax of a well-formed program is stepped over and the
skip state afterwards is the one before (the repaired machine counts nested `%?`/`%;`; the pinned machine has no
counter, there the statement holds for programs without conditionals). -/
theorem skip_prog (v : Variant) : ∀ (a : Prog), a.valid = true → (v.nesting = true ∨ a.depth = 0) →
    ∀ (rest : Bytes) (s : St) (k : Skip), k ≠ .emit → runL v (a.render ++ rest) s k = runL v rest s k
  | .nil, _, _, rest, s, k, _ => by simp [Prog.render]
  | .tok t r, hv, hd, rest, s, k, hk => by
    simp only [Prog.valid, Bool.and_eq_true] at hv
    simp only [Prog.depth] at hd
    simp only [Prog.render, List.append_assoc]
    rw [tok_skip v t hv.1 _ s k hk]
    exact skip_prog v r hv.2 hd rest s k hk
  | .cond c r, hv, hd, rest, s, k, hk => by
    simp only [Prog.valid, Bool.and_eq_true] at hv
    simp only [Prog.depth] at hd
    have hn : v.nesting = true := by
      rcases hd with h | h
      · exact h
      · omega
    have hoc := skipOp_open_close v hn k hk
    simp only [Prog.render, List.append_assoc, List.cons_append, List.nil_append]
    rw [skip_pair v 63 _ s k hk, skip_chain v c hv.1 (Or.inl hn) _ s _ hoc.1,
      skip_pair v 59 _ s _ (deepV_ne_emit hoc.1), hoc.2]
    exact skip_prog v r hv.2 (Or.inl hn) rest s k hk
/-- skip lemma, the inside of a conditional (`test %t then %e …`): stepped over in every state of `deepV` -/
theorem skip_chain (v : Variant) : ∀ (c : Chain), c.valid = true → (v.nesting = true ∨ c.depth = 0) →
    ∀ (rest : Bytes) (s : St) (k : Skip), deepV v k → runL v (c.render ++ rest) s k = runL v rest s k
  | .fi a b, hv, hd, rest, s, k, hk => by
    simp only [Chain.valid, Bool.and_eq_true] at hv
    simp only [Chain.depth] at hd
    have hne := deepV_ne_emit hk
    simp only [Chain.render, List.append_assoc, List.cons_append, List.nil_append]
    rw [skip_prog v a hv.1 (hd.imp id (fun h => by omega)) _ s k hne, skip_pair v 116 _ s k hne,
      skipOp_neutral v 116 (by decide) (by decide) (by decide)]
    exact skip_prog v b hv.2 (hd.imp id (fun h => by omega)) rest s k hne
  | .els a b c, hv, hd, rest, s, k, hk => by
    simp only [Chain.valid, Bool.and_eq_true] at hv
    simp only [Chain.depth] at hd
    have hne := deepV_ne_emit hk
    simp only [Chain.render, List.append_assoc, List.cons_append, List.nil_append]
    rw [skip_prog v a hv.1.1 (hd.imp id (fun h => by omega)) _ s k hne, skip_pair v 116 _ s k hne,
      skipOp_neutral v 116 (by decide) (by decide) (by decide),
      skip_prog v b hv.1.2 (hd.imp id (fun h => by omega)) _ s k hne, skip_pair v 101 _ s k hne, skipOp_else_deep v k hk]
    exact skip_prog v c hv.2 (hd.imp id (fun h => by omega)) rest s k hne
  | .elif a b n, hv, hd, rest, s, k, hk => by
    simp only [Chain.valid, Bool.and_eq_true] at hv
    simp only [Chain.depth] at hd
    have hne := deepV_ne_emit hk
    simp only [Chain.render, List.append_assoc, List.cons_append, List.nil_append]
    rw [skip_prog v a hv.1.1 (hd.imp id (fun h => by omega)) _ s k hne, skip_pair v 116 _ s k hne,
      skipOp_neutral v 116 (by decide) (by decide) (by decide),
      skip_prog v b hv.1.2 (hd.imp id (fun h => by omega)) _ s k hne, skip_pair v 101 _ s k hne, skipOp_else_deep v k hk]
    exact skip_chain v n hv.2 (hd.imp id (fun h => by omega)) rest s k hk
end

/-! ### the emit state on the four conditional markers -/

theorem step_qm (v : Variant) (rest : Bytes) (s : St) : step v (37 :: 63 :: rest) s .emit = (rest, s, .emit) := by
  simp [step, execOp, isDigit]

theorem step_semi (v : Variant) (rest : Bytes) (s : St) : step v (37 :: 59 :: rest) s .emit = (rest, s, .emit) := by
  simp [step, execOp, isDigit]

theorem step_then (v : Variant) (rest : Bytes) (s : St) :
    step v (37 :: 116 :: rest) s .emit = (rest, (test s).2, if (test s).1 then .emit else .toElse 0) := by
  simp only [step, execOp, test]
  simp [isDigit]

theorem step_else (v : Variant) (rest : Bytes) (s : St) : step v (37 :: 101 :: rest) s .emit = (rest, s, .toEnd 0) := by
  simp [step, execOp, isDigit]

theorem runL_qm (v : Variant) (rest : Bytes) (s : St) : runL v (37 :: 63 :: rest) s .emit = runL v rest s .emit :=
  runL_of_step v _ _ _ _ _ _ (by simp) (step_qm v rest s)

theorem runL_semi (v : Variant) (rest : Bytes) (s : St) : runL v (37 :: 59 :: rest) s .emit = runL v rest s .emit :=
  runL_of_step v _ _ _ _ _ _ (by simp) (step_semi v rest s)

theorem runL_then (v : Variant) (rest : Bytes) (s : St) :
    runL v (37 :: 116 :: rest) s .emit = runL v rest (test s).2 (if (test s).1 then .emit else .toElse 0) :=
  runL_of_step v _ _ _ _ _ _ (by simp) (step_then v rest s)

theorem runL_else (v : Variant) (rest : Bytes) (s : St) : runL v (37 :: 101 :: rest) s .emit = runL v rest s (.toEnd 0) :=
  runL_of_step v _ _ _ _ _ _ (by simp) (step_else v rest s)

theorem skipOp_semi_zero (v : Variant) : skipOp v 59 (.toElse 0) = .emit ∧ skipOp v 59 (.toEnd 0) = .emit ∧
    skipOp v 101 (.toElse 0) = .emit := by
  simp [skipOp]

theorem tok_render_cons (t : Tok) : ∃ b bs, t.render = b :: bs := by
  cases h : t.render with
  | nil => exact absurd h (tok_render_ne_nil t)
  | cons b bs => exact ⟨b, bs, rfl⟩

/-! ### execution = structural evaluation -/

mutual
/-- running the machine over the concrete syntax of a well-formed program in the emit state computes what the
structural evaluator computes, and continues in the emit state with what follows -/
theorem exec_prog (v : Variant) : ∀ (a : Prog), a.valid = true → a.all (tokOk v) = true →
    (v.nesting = true ∨ a.depth ≤ 1) →
    ∀ (rest : Bytes) (s : St), runL v (a.render ++ rest) s .emit = runL v rest (a.evalG semM test s) .emit
  | .nil, _, _, _, rest, s => by simp [Prog.render, Prog.evalG]
  | .tok t r, hv, hok, hd, rest, s => by
    simp only [Prog.valid, Bool.and_eq_true] at hv
    simp only [Prog.all, Bool.and_eq_true] at hok
    simp only [Prog.depth] at hd
    obtain ⟨b, bs, hb⟩ := tok_render_cons t
    have hst := step_tokM v t hok.1 hv.1 (r.render ++ rest) s
    simp only [Prog.render, List.append_assoc, Prog.evalG]
    rw [runL_of_step v _ _ _ _ _ _ (by rw [hb]; simp) hst]
    exact exec_prog v r hv.2 hok.2 hd rest _
  | .cond c r, hv, hok, hd, rest, s => by
    simp only [Prog.valid, Bool.and_eq_true] at hv
    simp only [Prog.all, Bool.and_eq_true] at hok
    simp only [Prog.depth] at hd
    simp only [Prog.render, List.append_assoc, List.cons_append, List.nil_append, Prog.evalG]
    rw [runL_qm, exec_chain v c hv.1 hok.1 (hd.imp id (fun h => by omega)) _ s]
    exact exec_prog v r hv.2 hok.2 (hd.imp id (fun h => by omega)) rest _
/-- … and the same for the inside of a conditional up to and including its `%;` -/
theorem exec_chain (v : Variant) : ∀ (c : Chain), c.valid = true → c.all (tokOk v) = true →
    (v.nesting = true ∨ c.depth = 0) →
    ∀ (rest : Bytes) (s : St),
      runL v (c.render ++ 37 :: 59 :: rest) s .emit = runL v rest (c.evalG semM test s) .emit
  | .fi a b, hv, hok, hd, rest, s => by
    simp only [Chain.valid, Bool.and_eq_true] at hv
    simp only [Chain.all, Bool.and_eq_true] at hok
    simp only [Chain.depth] at hd
    simp only [Chain.render, List.append_assoc, List.cons_append, List.nil_append, Chain.evalG]
    rw [exec_prog v a hv.1 hok.1 (hd.imp id (fun h => by omega)) _ s, runL_then]
    cases ht : (test (a.evalG semM test s)).1 with
    | true =>
      simp only [if_true]
      rw [exec_prog v b hv.2 hok.2 (hd.imp id (fun h => by omega)) _ _, runL_semi]
    | false =>
      simp only [Bool.false_eq_true, if_false]
      rw [skip_prog v b hv.2 (hd.imp id (fun h => by omega)) _ _ _ (by simp), skip_pair v 59 _ _ _ (by simp), (skipOp_semi_zero v).1]
  | .els a b c, hv, hok, hd, rest, s => by
    simp only [Chain.valid, Bool.and_eq_true] at hv
    simp only [Chain.all, Bool.and_eq_true] at hok
    simp only [Chain.depth] at hd
    simp only [Chain.render, List.append_assoc, List.cons_append, List.nil_append, Chain.evalG]
    rw [exec_prog v a hv.1.1 hok.1.1 (hd.imp id (fun h => by omega)) _ s, runL_then]
    cases ht : (test (a.evalG semM test s)).1 with
    | true =>
      simp only [if_true]
      rw [exec_prog v b hv.1.2 hok.1.2 (hd.imp id (fun h => by omega)) _ _, runL_else,
        skip_prog v c hv.2 (hd.imp id (fun h => by omega)) _ _ _ (by simp), skip_pair v 59 _ _ _ (by simp), (skipOp_semi_zero v).2.1]
    | false =>
      simp only [Bool.false_eq_true, if_false]
      rw [skip_prog v b hv.1.2 (hd.imp id (fun h => by omega)) _ _ _ (by simp), skip_pair v 101 _ _ _ (by simp),
        (skipOp_semi_zero v).2.2, exec_prog v c hv.2 hok.2 (hd.imp id (fun h => by omega)) _ _, runL_semi]
  | .elif a b n, hv, hok, hd, rest, s => by
    simp only [Chain.valid, Bool.and_eq_true] at hv
    simp only [Chain.all, Bool.and_eq_true] at hok
    simp only [Chain.depth] at hd
    simp only [Chain.render, List.append_assoc, List.cons_append, List.nil_append, Chain.evalG]
    rw [exec_prog v a hv.1.1 hok.1.1 (hd.imp id (fun h => by omega)) _ s, runL_then]
    cases ht : (test (a.evalG semM test s)).1 with
    | true =>
      simp only [if_true]
      rw [exec_prog v b hv.1.2 hok.1.2 (hd.imp id (fun h => by omega)) _ _, runL_else,
        skip_chain v n hv.2 (hd.imp id (fun h => by omega)) _ _ _ (by simp [deepV]), skip_pair v 59 _ _ _ (by simp),
        (skipOp_semi_zero v).2.1]
    | false =>
      simp only [Bool.false_eq_true, if_false]
      rw [skip_prog v b hv.1.2 (hd.imp id (fun h => by omega)) _ _ _ (by simp), skip_pair v 101 _ _ _ (by simp),
        (skipOp_semi_zero v).2.2]
      exact exec_chain v n hv.2 hok.2 (hd.imp id (fun h => by omega)) rest _
end

/-- the machine on the concrete syntax of a well-formed AST = the structural evaluator (Go formatter in printf tokens) -/
theorem run_render (v : Variant) (a : Prog) (hv : a.valid = true) (hok : a.all (tokOk v) = true)
    (hd : v.nesting = true ∨ a.depth ≤ 1) (s : St) :
    run v a.render.length a.render s .emit = a.evalG semM test s := by
  have := exec_prog v a hv hok hd [] s
  simpa [runL, run_nil] using this

end Tcell.TParm
