/-
Layer B of C01/C13/C09, part 6: histories.  The byte-level world: Layer A's `World` (library state, tty size, abstract
terminal, ghosts) together with the reference emulator, which is fed the bytes `Render.renderAll rc cmds` of every
command list the library emits and suffers the environment's moves (`corrupt`, `resize`).  Theorem `rep_reach`: after
every history of valid operations the emulator represents the abstract terminal.
-/
import Tcell.Lemmas.LayerBAdmit
namespace Tcell.LayerB
open Tcell Tcell.Buf Tcell.Spec.Ecma48

/-- domain of the Layer-B statement, per operation (beyond `ScrOp.Valid`): combining runes are zero-width non-control
    scalar values, styles carry no hyperlink, no cursor colour is requested, window sizes are non-negative Go ints -/
def OpB (c : DrawCfg) : ScrOp → Prop
  | .setContent _ _ _ comb st => (∀ k ∈ comb, CombOk c.rw k) ∧ st.url = ""
  | .fill _ st => st.url = ""
  | .setStyle st => st.url = ""
  | .setCursorStyle _ cc => Color.valid cc = false ∧ cc ≠ colorReset
  | .ttyResizeQuiet w h => 0 ≤ w ∧ 0 ≤ h ∧ w + 1 < TParm.maxInt64 ∧ h + 1 < TParm.maxInt64
  | .ttyResizeNotify w h => 0 ≤ w ∧ 0 ≤ h ∧ w + 1 < TParm.maxInt64 ∧ h + 1 < TParm.maxInt64
  | _ => True

def SizeOk (w h : Int) : Prop := 0 ≤ w ∧ 0 ≤ h ∧ w + 1 < TParm.maxInt64 ∧ h + 1 < TParm.maxInt64

structure BWInv (c : DrawCfg) (wd : World) : Prop where
  b : BInv c wd.sw.s
  tty : SizeOk wd.sw.ttyw wd.sw.ttyh

theorem BInv.congr {c : DrawCfg} {s s' : Scr} (h : BInv c s) (h1 : s'.cells = s.cells) (h2 : s'.style = s.style)
    (h3 : s'.w = s.w) (h4 : s'.h = s.h) (h5 : s'.cursorColor = s.cursorColor) : BInv c s' :=
  { buf := by rw [h1]; exact h.buf, style := by rw [h2]; exact h.style, size := by rw [h3, h4]; exact h.size,
    ccol := by rw [h5]; exact h.ccol }

theorem BInv.resize {c : DrawCfg} {s : Scr} (h : BInv c s) (w' h' : Int) (hs : SizeOk w' h') :
    BInv c (s.resize (some (w', h'))) := by
  unfold Scr.resize; simp only
  split
  · exact h
  · exact { buf := (h.buf.resize w' h').invalidate, style := h.style, size := hs, ccol := h.ccol }

theorem BInv.draw {c : DrawCfg} {s : Scr} (h : BInv c s) : BInv c (s.draw c).1 := by
  have r := (draw_rel c s).1
  have h' : BInv c { s with clear := false } := h.congr rfl rfl rfl rfl rfl
  exact h'.of_rel r

theorem BInv.prepSync {c : DrawCfg} {s : Scr} (h : BInv c s) (w' h' : Int) (hs : SizeOk w' h') :
    BInv c (s.prepSync (some (w', h'))) := by
  unfold Scr.prepSync; simp only
  have h1 : BInv c (s.forgetCursor.resize (some (w', h'))) := (h.congr (s' := s.forgetCursor) rfl rfl rfl rfl rfl).resize w' h' hs
  exact { buf := h1.buf.invalidate, style := h1.style, size := h1.size, ccol := h1.ccol }

theorem BInv.prepResize {c : DrawCfg} {s : Scr} (h : BInv c s) (w' h' : Int) (hs : SizeOk w' h') :
    BInv c (s.prepResize (some (w', h'))) := by
  unfold Scr.prepResize; simp only
  have h1 : BInv c (s.forgetCursor.resize (some (w', h'))) := (h.congr (s' := s.forgetCursor) rfl rfl rfl rfl rfl).resize w' h' hs
  exact { buf := h1.buf.invalidate, style := h1.style, size := h1.size, ccol := h1.ccol }

theorem bwinv_step {c : DrawCfg} {wd : World} (inv : WInv c wd) (bi : BWInv c wd) (op : ScrOp) (hb : OpB c op) :
    BWInv c (wd.step c op) := by
  have hf := inv.fini
  cases op with
  | setContent x y m comb st =>
    exact ⟨{ buf := bi.b.buf.setContent x y m comb st hb.1 hb.2, style := bi.b.style, size := bi.b.size, ccol := bi.b.ccol }, bi.tty⟩
  | fill r st => exact ⟨{ buf := bi.b.buf.fill r st hb, style := bi.b.style, size := bi.b.size, ccol := bi.b.ccol }, bi.tty⟩
  | setStyle st =>
    refine ⟨?_, bi.tty⟩
    simp only [World.step, ScrW.step, hf, Bool.false_eq_true, if_false]
    exact { buf := bi.b.buf, style := hb, size := bi.b.size, ccol := bi.b.ccol }
  | showCursor x y => exact ⟨bi.b.congr rfl rfl rfl rfl rfl, bi.tty⟩
  | setCursorStyle cs cc => exact ⟨{ buf := bi.b.buf, style := bi.b.style, size := bi.b.size, ccol := hb }, bi.tty⟩
  | lockRegion x y w h lock =>
    refine ⟨{ buf := ?_, style := bi.b.style, size := bi.b.size, ccol := bi.b.ccol }, bi.tty⟩
    show BufB c.rw (if c.guardLocked then lockRowsG wd.sw.s.cells x y w lock h.toNat else lockRows wd.sw.s.cells x y w lock h.toNat)
    split
    · exact bi.b.buf.lockRowsG x y w lock _
    · exact bi.b.buf.lockRows x y w lock _
  | «show» =>
    have e : (wd.step c .show).sw = { wd.sw with s := ((wd.sw.s.resize (some (wd.sw.ttyw, wd.sw.ttyh))).draw c).1 } := by
      simp only [World.step, ScrW.step, Scr.show, hf, Bool.false_eq_true, if_false]; split <;> rfl
    exact ⟨by rw [e]; exact (bi.b.resize _ _ bi.tty).draw, by rw [e]; exact bi.tty⟩
  | sync =>
    have e : (wd.step c .sync).sw = { wd.sw with s := ((wd.sw.s.prepSync (some (wd.sw.ttyw, wd.sw.ttyh))).draw c).1 } := by
      simp only [World.step, ScrW.step, Scr.sync, hf, Bool.false_eq_true, if_false]
    exact ⟨by rw [e]; exact (bi.b.prepSync _ _ bi.tty).draw, by rw [e]; exact bi.tty⟩
  | ttyResizeQuiet w h => exact ⟨bi.b, hb⟩
  | ttyResizeNotify w h =>
    have e : (wd.step c (.ttyResizeNotify w h)).sw = { s := ((wd.sw.s.prepResize (some (w, h))).draw c).1, ttyw := w, ttyh := h } := by
      simp only [World.step, ScrW.step, Scr.onResize]
    exact ⟨by rw [e]; exact (bi.b.prepResize _ _ hb).draw, by rw [e]; exact hb⟩
  | corrupt => exact ⟨bi.b, bi.tty⟩

/-! ## the byte-level world -/

structure BWorld where
  wd : World := {}
  e : Term

/-- the environment disturbing the display (`Term.corrupt`: every cell garbage; pen, hyperlink state and cursor unknown).  On a
    terminal for which the screen has no hyperlink strings the disturbance leaves the hyperlink state alone: the library has no
    way to re-establish it there (tscreen.go:905 writes nothing), so no statement about the display could survive it — such
    terminals do not know OSC 8 in the first place. -/
def corruptFor (rc : RenderCfg) (t : Term) : Term :=
  if rc.d.enterUrl = [] then { t.corrupt with linkKnown := t.linkKnown } else t.corrupt

def BWorld.step (c : DrawCfg) (rc : RenderCfg) (b : BWorld) (op : ScrOp) : BWorld :=
  let cmds := (b.wd.sw.step c op).2
  { wd := b.wd.step c op,
    e := match op with
      | .corrupt => corruptFor rc b.e
      | .ttyResizeQuiet w h => b.e.resize w.toNat h.toNat
      | .ttyResizeNotify w h => (b.e.resize w.toNat h.toNat).feed (Render.renderAll rc cmds)
      | _ => b.e.feed (Render.renderAll rc cmds) }

def BWorld.run (c : DrawCfg) (rc : RenderCfg) (b : BWorld) (ops : List ScrOp) : BWorld := ops.foldl (BWorld.step c rc) b

theorem run_wd (c : DrawCfg) (rc : RenderCfg) (ops : List ScrOp) : ∀ b : BWorld, (b.run c rc ops).wd = b.wd.run c ops := by
  induction ops with
  | nil => intro b; rfl
  | cons o os ih => intro b; simp only [BWorld.run, List.foldl_cons, World.run] at ih ⊢; rw [ih]; rfl

theorem rep_corrupt {dc : DrawCfg} {rc : RenderCfg} {t : Term} {a : ATerm} (R : Rep dc rc t a) :
    Rep dc rc (corruptFor rc t) a.corrupt := by
  have hw : (corruptFor rc t).grid.w = t.grid.w := by unfold corruptFor; split <;> rfl
  have hh : (corruptFor rc t).grid.h = t.grid.h := by unfold corruptFor; split <;> rfl
  exact
  { good := by unfold corruptFor; split <;> exact ⟨R.good.st, R.good.utf8, R.good.font, R.good.g0, R.good.so, R.good.irm, R.good.mal, R.good.rw⟩
    quiet := ⟨fun h => by unfold corruptFor; rw [if_pos h]; exact R.quiet.link h,
              fun h => by unfold corruptFor; split <;> exact R.quiet.vis h,
              fun h => by unfold corruptFor; split <;> exact R.quiet.ff h⟩
    w := by rw [hw]; exact R.w, h := by rw [hh]; exact R.h
    cells := fun _ _ _ _ => trivial
    conts := fun _ _ _ => Or.inr rfl
    cur := by intro x y h; simp [ATerm.corrupt] at h
    pen := by intro s h; simp [ATerm.corrupt] at h
    vis := by intro b h; simp [ATerm.corrupt] at h
    shape := by
      intro cs cc h h7 hn
      have : (corruptFor rc t).modes = t.modes := by unfold corruptFor; split <;> rfl
      rw [this]; exact R.shape cs cc h h7 hn }

theorem rep_resize {dc : DrawCfg} {rc : RenderCfg} {t : Term} {a : ATerm} (R : Rep dc rc t a) (w h : Int) (hw : 0 ≤ w) (hh : 0 ≤ h) :
    Rep dc rc (t.resize w.toNat h.toNat) (a.resized w h) :=
  { good := ⟨R.good.st, R.good.utf8, R.good.font, R.good.g0, R.good.so, R.good.irm, R.good.mal, R.good.rw⟩
    quiet := ⟨R.quiet.link, R.quiet.vis, R.quiet.ff⟩
    w := by show ((w.toNat : Nat) : Int) = w; omega
    h := by show ((h.toNat : Nat) : Int) = h; omega
    cells := fun _ _ _ _ => trivial
    conts := fun _ _ _ => Or.inr rfl
    cur := by intro x y h; simp [ATerm.resized, ATerm.corrupt] at h
    pen := by intro s h; simp [ATerm.resized, ATerm.corrupt] at h
    vis := by intro b h; simp [ATerm.resized, ATerm.corrupt] at h
    shape := R.shape }

/-- hypotheses on the configuration shared by all Layer-B history theorems.  The bottom-right corner trick is allowed
    (`walk`: `cornerTrick` arbitrary); on a terminal that uses it the insert-character string has to be ICH (`ich`) and the
    histories have to satisfy Layer A's side condition (`World.SafeRun`, a hypothesis of the theorems, vacuous without the trick). -/
structure CfgB (c : DrawCfg) (rc : RenderCfg) : Prop where
  rwOk : RwOk c.rw
  rwB : RwB c.rw
  pay : Utf8Payload c
  walk : c.Walk
  fx : CapsFx c rc
  ich : c.cornerTrick = true → IchFx c rc

/-- of the side condition `CornerSafe` the byte-level simulation needs the width only -/
theorem w2_of_safe {c : DrawCfg} {s : Scr} (h : CornerSafe c (s.draw c).1) : c.cornerTrick = true → 2 ≤ s.w :=
  fun hc => ((CornerSafe.of_draw h) hc).1

theorem rep_step {c : DrawCfg} {rc : RenderCfg} (hc : CfgB c rc) {b : BWorld} (inv : WInv c b.wd) (bi : BWInv c b.wd)
    (R : Rep c rc b.e b.wd.t) (op : ScrOp) (hb : OpB c op) (hsafe : b.wd.SafeAt c op) :
    Rep c rc (b.step c rc op).e (b.step c rc op).wd.t := by
  have hf := inv.fini
  have simA := fun {t a} (R : Rep c rc t a) cmds (h : AdmitAll c a cmds) => sim_all hc.rwB hc.fx hc.ich cmds R h
  cases op with
  | setContent x y m comb st => simpa [BWorld.step, World.step, ScrW.step, Render.renderAll, ATerm.applyAll] using R
  | fill r st => simpa [BWorld.step, World.step, ScrW.step, Render.renderAll, ATerm.applyAll] using R
  | setStyle st => simpa [BWorld.step, World.step, ScrW.step, Render.renderAll, ATerm.applyAll] using R
  | showCursor x y => simpa [BWorld.step, World.step, ScrW.step, Render.renderAll, ATerm.applyAll] using R
  | setCursorStyle cs cc => simpa [BWorld.step, World.step, ScrW.step, Render.renderAll, ATerm.applyAll] using R
  | lockRegion x y w h lock => simpa [BWorld.step, World.step, ScrW.step, Render.renderAll, ATerm.applyAll] using R
  | corrupt => exact rep_corrupt R
  | ttyResizeQuiet w h => exact rep_resize R w h hb.1 hb.2.1
  | «show» =>
    have ecmd : (b.wd.sw.step c .show).2 = ((b.wd.sw.s.resize (some (b.wd.sw.ttyw, b.wd.sw.ttyh))).draw c).2 := by
      simp only [ScrW.step, Scr.show, hf, Bool.false_eq_true, if_false]
    have et : (b.wd.step c .show).t = b.wd.t.applyAll (b.wd.sw.step c .show).2 := by
      simp only [World.step]; split <;> rfl
    show Rep c rc (b.e.feed (Render.renderAll rc (b.wd.sw.step c .show).2)) (b.wd.step c .show).t
    rw [et]
    apply simA R
    rw [ecmd]
    apply draw_admits hc.rwOk hc.rwB hc.pay
    have hsz : (b.wd.sw.s.resize (some (b.wd.sw.ttyw, b.wd.sw.ttyh))).w = b.wd.sw.ttyw ∧
        (b.wd.sw.s.resize (some (b.wd.sw.ttyw, b.wd.sw.ttyh))).h = b.wd.sw.ttyh ∧
        BufOkS c (b.wd.sw.s.resize (some (b.wd.sw.ttyw, b.wd.sw.ttyh))) := by
      by_cases hs : b.wd.sw.ttyw = b.wd.sw.s.w ∧ b.wd.sw.ttyh = b.wd.sw.s.h
      · rw [hs.1, hs.2, resize_same_size]; exact ⟨rfl, rfl, inv.buf⟩
      · rw [resize_diff _ _ _ hs]
        exact ⟨rfl, rfl, (resize_invalidate_ok hc.rwOk _ _ _ inv.buf).1⟩
    have hs' : (b.wd.step c .show).sw.s = ((b.wd.sw.s.resize (some (b.wd.sw.ttyw, b.wd.sw.ttyh))).draw c).1 := by
      simp only [World.step, ScrW.step, Scr.show, hf, Bool.false_eq_true, if_false]; split <;> rfl
    have hsafe' : CornerSafe c (b.wd.step c .show).sw.s := hsafe
    rw [hs'] at hsafe'
    exact { tw := by rw [hsz.1]; exact inv.tdim.1, th := by rw [hsz.2.1]; exact inv.tdim.2, buf := hsz.2.2,
            ext := bi.b.resize _ _ bi.tty, w2 := w2_of_safe hsafe' }
  | sync =>
    have ecmd : (b.wd.sw.step c .sync).2 = ((b.wd.sw.s.prepSync (some (b.wd.sw.ttyw, b.wd.sw.ttyh))).draw c).2 := by
      simp only [ScrW.step, Scr.sync, hf, Bool.false_eq_true, if_false]
    show Rep c rc (b.e.feed (Render.renderAll rc (b.wd.sw.step c .sync).2)) (b.wd.t.applyAll (b.wd.sw.step c .sync).2)
    apply simA R
    rw [ecmd]
    apply draw_admits hc.rwOk hc.rwB hc.pay
    obtain ⟨okb, _, e1, e2, _⟩ := (prep_ok hc.rwOk b.wd.sw.s b.wd.sw.ttyw b.wd.sw.ttyh inv.buf inv.fini inv.clear).1
    have hs' : (b.wd.step c .sync).sw.s = ((b.wd.sw.s.prepSync (some (b.wd.sw.ttyw, b.wd.sw.ttyh))).draw c).1 := by
      simp only [World.step, ScrW.step, Scr.sync, hf, Bool.false_eq_true, if_false]
    have hsafe' : CornerSafe c (b.wd.step c .sync).sw.s := hsafe
    rw [hs'] at hsafe'
    exact { tw := by rw [e1]; exact inv.tdim.1, th := by rw [e2]; exact inv.tdim.2, buf := okb, ext := bi.b.prepSync _ _ bi.tty,
            w2 := w2_of_safe hsafe' }
  | ttyResizeNotify w h =>
    have ecmd : (b.wd.sw.step c (.ttyResizeNotify w h)).2 = ((b.wd.sw.s.prepResize (some (w, h))).draw c).2 := by
      simp only [ScrW.step, Scr.onResize]
    show Rep c rc ((b.e.resize w.toNat h.toNat).feed (Render.renderAll rc (b.wd.sw.step c (.ttyResizeNotify w h)).2))
      ((b.wd.t.resized w h).applyAll (b.wd.sw.step c (.ttyResizeNotify w h)).2)
    apply simA (rep_resize R w h hb.1 hb.2.1)
    rw [ecmd]
    apply draw_admits hc.rwOk hc.rwB hc.pay
    obtain ⟨okb, _, e1, e2, _⟩ := (prep_ok hc.rwOk b.wd.sw.s w h inv.buf inv.fini inv.clear).2
    have hs' : (b.wd.step c (.ttyResizeNotify w h)).sw.s = ((b.wd.sw.s.prepResize (some (w, h))).draw c).1 := by
      simp only [World.step, ScrW.step, Scr.onResize]
    have hsafe' : CornerSafe c (b.wd.step c (.ttyResizeNotify w h)).sw.s := hsafe
    rw [hs'] at hsafe'
    exact { tw := by rw [e1]; rfl, th := by rw [e2]; rfl, buf := okb, ext := bi.b.prepResize _ _ hb, w2 := w2_of_safe hsafe' }

/-- **after every history the emulator represents the abstract terminal** (on corner-trick terminals: every history along which
    Layer A's side condition `World.SafeRun` holds) -/
theorem rep_reach {c : DrawCfg} {rc : RenderCfg} (hc : CfgB c rc) (ops : List ScrOp) :
    ∀ (b : BWorld), WInv c b.wd → BWInv c b.wd → Rep c rc b.e b.wd.t →
      (∀ op ∈ ops, op.Valid c ∧ OpB c op) → World.SafeRun c b.wd ops → Rep c rc (b.run c rc ops).e (b.run c rc ops).wd.t := by
  induction ops with
  | nil => intro b _ _ R _ _; exact R
  | cons o os ih =>
    intro b inv bi R hv hs
    have ho := hv o (List.mem_cons_self ..)
    simp only [BWorld.run, List.foldl_cons]
    exact ih (b.step c rc o) (step_inv_c hc.rwOk hc.walk inv o ho.1 hs.1) (bwinv_step inv bi o ho.2)
      (rep_step hc inv bi R o ho.2 hs.1) (fun o' h' => hv o' (List.mem_cons_of_mem _ h')) hs.2

/-- the side condition along `ops ++ [op]`, taken apart -/
theorem safeRun_split {c : DrawCfg} : ∀ (ops : List ScrOp) (wd : World) (op : ScrOp),
    World.SafeRun c wd (ops ++ [op]) → World.SafeRun c wd ops ∧ (wd.run c ops).SafeAt c op
  | [], _, _, h => ⟨trivial, h.1⟩
  | o :: ops, wd, op, h => by
    have r := safeRun_split ops (wd.step c o) op h.2
    exact ⟨⟨h.1, r.1⟩, by simpa [World.run] using r.2⟩

end Tcell.LayerB
