/-
Layer B of C01/C13/C09, part 8: `CapsFx` for the whole class `XtermLike` — the hypothesis `CfgB.fx` discharged.

* `xl_sendFgBg_effect` — tscreen.go sendFgBg on the emulator: default / reset colours, palette colours through
  `setaf`/`setab`/`setfgbg` (8-colour and 256-colour forms), direct colour through the three RGB strings, the fitted
  palette colour (`rc.fit`) for RGB colours on palette terminals and for palette indices the terminal does not have;
* `xl_underline_effect` — underline colour (indexed / direct / reset) + `smul` + underline style;
* `xl_setPen_effect` — the whole style block of drawCell for EVERY style without hyperlink: pen = `penOf rc s`;
* `xl_show_effect` (all four `cnorm` forms + DECSCUSR for the seven cursor styles), `xl_clear_effect` (the three `clear` forms: two CSI spellings, FF);
* `xl_capsFx : XtermLike rc.ti → rc.d = derive rc.ti → FitOk rc → CapsFx dc rc`.

`FitOk rc` is the only thing asked of the colour-fitting function `rc.fit` (go-colorful's nearest-palette-colour search, an
external function and a parameter of the Render model): its result is one of the screen's palette entries.
-/
import Tcell.Lemmas.LayerBXterm
import Tcell.Lemmas.FindColor
namespace Tcell.LayerB
open Tcell Tcell.Spec.Ecma48 Tcell.Spec.Ecma48.Term
open Tcell.Render (tp parm ints)

/-! ## SGR bodies: parsing and composition -/

/-- a purely numeric SGR body together with its parsed parameter list -/
structure SgrBody (a : List Nat) (pa : List Param) : Prop where
  num : ∀ b ∈ a, (48 ≤ b ∧ b ≤ 57) ∨ b = 0x3b ∨ b = 0x3a
  parse : parseParams a = some pa

theorem SgrBody.feed {a pa} (h : SgrBody a pa) (t : Term) (hst : t.st = .ground) :
    t.feed (csiSeq a 0x6d) = t.sgr pa := by
  rw [feed_csi_plain t hst a 0x6d pa h.num (by omega) h.parse]; simp [dispatchPlain]

theorem SgrBody.append {a b pa pb} (ha : SgrBody a pa) (hb : SgrBody b pb) : SgrBody (a ++ 0x3b :: b) (pa ++ pb) :=
  ⟨by
    intro x hx
    rcases List.mem_append.mp hx with h | h
    · exact ha.num x h
    · rcases List.mem_cons.mp h with h | h
      · exact Or.inr (Or.inl h)
      · exact hb.num x h,
   parseParams_append _ _ _ _ ha.parse hb.parse⟩

theorem SgrBody.clean {a pa} (h : SgrBody a pa) : ∀ b ∈ csiSeq a 0x6d, b ≠ 36 :=
  csiSeq_clean a 0x6d (fun b hb => by rcases h.num b hb with h1 | h1 | h1 <;> omega) (by omega)

theorem body_dec (n : Nat) : SgrBody (dec n) [[some n]] :=
  ⟨numeric_dec n, by rw [parseParams_last _ (semi_not_mem_dec _), parseParam_dec]; rfl⟩
theorem body_ext5 (w n : Nat) : SgrBody (ext5 w n) [[some w], [some 5], [some n]] := ⟨numeric_ext5 w n, parseParams_ext5 w n⟩
theorem body_ext2 (w r g b : Nat) : SgrBody (ext2 w r g b) [[some w], [some 2], [some r], [some g], [some b]] :=
  ⟨numeric_ext2 w r g b, parseParams_ext2 w r g b⟩

/-- `ESC [ a ; b m` = `ESC [ a m` followed by `ESC [ b m` whenever the parameters of `a` are processed on their own -/
theorem feed_join {a b pa pb} (ha : SgrBody a pa) (hb : SgrBody b pb)
    (hs : ∀ t : Term, t.sgr (pa ++ pb) = (t.sgr pa).sgr pb) (t : Term) (hst : t.st = .ground) :
    t.feed (csiSeq (a ++ 0x3b :: b) 0x6d) = (t.feed (csiSeq a 0x6d)).feed (csiSeq b 0x6d) := by
  rw [(ha.append hb).feed t hst, hs, ha.feed t hst, hb.feed _ (by rw [sgr_st]; exact hst)]

/-- the parameter list of `idxBody` -/
def idxParams (base bright which n : Nat) : List Param :=
  if n < 8 then [[some (base + n)]] else if n < 16 then [[some (bright + (n - 8))]] else [[some which], [some 5], [some n]]

theorem body_idx (base bright which n : Nat) : SgrBody (idxBody base bright which n) (idxParams base bright which n) := by
  unfold idxBody idxParams
  split
  · exact body_dec _
  · split
    · exact body_dec _
    · exact body_ext5 _ _

theorem sgr_split_single (t : Term) (k : Nat) (rest : List Param) (hk : k ≠ 38 ∧ k ≠ 48 ∧ k ≠ 58) :
    t.sgr ([[some k]] ++ rest) = (t.sgr [[some k]]).sgr rest :=
  sgr_cons t [some k] rest (by refine ⟨?_, ?_, ?_⟩ <;> intro h <;> simp at h <;> omega)

theorem sgr_split_fgIdx (n : Nat) (hn : n ≤ 255) (rest : List Param) (t : Term) :
    t.sgr (idxParams 30 90 38 n ++ rest) = (t.sgr (idxParams 30 90 38 n)).sgr rest := by
  unfold idxParams
  split
  · exact sgr_split_single t _ rest (by omega)
  · split
    · exact sgr_split_single t _ rest (by omega)
    · show t.sgr ([some 38] :: [some 5] :: [some n] :: rest) = (t.sgr ([some 38] :: [some 5] :: [some n] :: [])).sgr rest
      rw [sgr_cons_ext5 t 38 n rest (Or.inl rfl) hn, sgr_cons_ext5 t 38 n [] (Or.inl rfl) hn, sgr_nil]

theorem sgr_split_fgRGB (r g b : Nat) (hr : r ≤ 255) (hg : g ≤ 255) (hb : b ≤ 255) (rest : List Param) (t : Term) :
    t.sgr ([[some 38], [some 2], [some r], [some g], [some b]] ++ rest) =
      (t.sgr [[some 38], [some 2], [some r], [some g], [some b]]).sgr rest := by
  show t.sgr ([some 38] :: [some 2] :: [some r] :: [some g] :: [some b] :: rest) =
    (t.sgr ([some 38] :: [some 2] :: [some r] :: [some g] :: [some b] :: [])).sgr rest
  rw [sgr_cons_ext2 t 38 r g b rest (Or.inl rfl) hr hg hb, sgr_cons_ext2 t 38 r g b [] (Or.inl rfl) hr hg hb, sgr_nil]

/-! ## effects of the colour strings -/

theorem withPen_withPen (t : Term) (p q : Pen) : withPen (withPen t p) q = withPen t q := rfl
theorem withPen_self (t : Term) : withPen t t.pen = t := rfl

/-- palette foreground, the way `setaf` of the 256-colour entries writes it (`3n` / `9(n-8)` / `38;5;n`) -/
theorem setaf_effect {rw} {t : Term} (g : Good rw t) (n : Nat) (hn : n ≤ 255) :
    t.feed (csiSeq (idxBody 30 90 38 n) 0x6d) = withPen t { t.pen with fg := .idx n } := by
  unfold idxBody
  split
  · rename_i h; exact sgr_fg_idx_effect t g.st n h
  · split
    · rename_i h8 h16
      have := sgr_fg_bright_effect t g.st (n - 8) (by omega)
      rw [show n - 8 + 8 = n by omega] at this
      exact this
    · exact sgr_fg_256_effect t g.st n hn

theorem setab_effect {rw} {t : Term} (g : Good rw t) (n : Nat) (hn : n ≤ 255) :
    t.feed (csiSeq (idxBody 40 100 48 n) 0x6d) = withPen t { t.pen with bg := .idx n } := by
  unfold idxBody
  split
  · rename_i h; exact sgr_bg_idx_effect t g.st n h
  · split
    · rename_i h8 h16
      have := sgr_bg_bright_effect t g.st (n - 8) (by omega)
      rw [show n - 8 + 8 = n by omega] at this
      exact this
    · exact sgr_bg_256_effect t g.st n hn

/-- `setfgbg`: both palette colours in one sequence -/
theorem setfgbg_effect {rw} {t : Term} (g : Good rw t) (f b : Nat) (hf : f ≤ 255) (hb : b ≤ 255) :
    t.feed (csiSeq (idxBody 30 90 38 f ++ 0x3b :: idxBody 40 100 48 b) 0x6d) =
      withPen t { t.pen with fg := .idx f, bg := .idx b } := by
  rw [feed_join (body_idx 30 90 38 f) (body_idx 40 100 48 b) (sgr_split_fgIdx f hf _) t g.st, setaf_effect g f hf,
    setab_effect (good_withPen g _) b hb]
  rfl

theorem fRGB_effect {rw} {t : Term} (g : Good rw t) (r gg b : Nat) (hr : r ≤ 255) (hg : gg ≤ 255) (hb : b ≤ 255) :
    t.feed (csiSeq (ext2 38 r gg b) 0x6d) = withPen t { t.pen with fg := .rgb r gg b } := sgr_fg_rgb_effect t g.st r gg b hr hg hb
theorem bRGB_effect {rw} {t : Term} (g : Good rw t) (r gg b : Nat) (hr : r ≤ 255) (hg : gg ≤ 255) (hb : b ≤ 255) :
    t.feed (csiSeq (ext2 48 r gg b) 0x6d) = withPen t { t.pen with bg := .rgb r gg b } := sgr_bg_rgb_effect t g.st r gg b hr hg hb

theorem fbRGB_effect {rw} {t : Term} (g : Good rw t) (r gg b r' g' b' : Nat) (hr : r ≤ 255) (hg : gg ≤ 255) (hb : b ≤ 255)
    (hr' : r' ≤ 255) (hg' : g' ≤ 255) (hb' : b' ≤ 255) :
    t.feed (csiSeq (ext2 38 r gg b ++ 0x3b :: ext2 48 r' g' b') 0x6d) =
      withPen t { t.pen with fg := .rgb r gg b, bg := .rgb r' g' b' } := by
  rw [feed_join (body_ext2 38 r gg b) (body_ext2 48 r' g' b') (sgr_split_fgRGB r gg b hr hg hb _) t g.st,
    fRGB_effect g r gg b hr hg hb, bRGB_effect (good_withPen g _) r' g' b' hr' hg' hb']
  rfl

theorem ulIdx_effect {rw} {t : Term} (g : Good rw t) (n : Nat) (hn : n ≤ 255) :
    t.feed (csiSeq (ulIdxBody n) 0x6d) = withPen t { t.pen with ulColor := .idx n } := by
  have := sgr_colon_idx_effect t g.st 58 n (Or.inr (Or.inr rfl)) hn
  simpa [ulIdxBody, withPen, setExt] using this

theorem ulRGB_effect {rw} {t : Term} (g : Good rw t) (r gg b : Nat) (hr : r ≤ 255) (hg : gg ≤ 255) (hb : b ≤ 255) :
    t.feed (csiSeq (ulRGBBody r gg b) 0x6d) = withPen t { t.pen with ulColor := .rgb r gg b } := by
  have := sgr_colon_rgb_effect t g.st 58 r gg b (Or.inr (Or.inr rfl)) hr hg hb
  simpa [ulRGBBody, withPen, setExt] using this


/-! ## colours: facts about colour values -/

theorem valid_of_range (v : Nat) (h1 : 2^32 ≤ v) (h2 : v < 2^32 + 256) : Color.valid v = true := by
  rw [Color.valid_eq]
  obtain ⟨k, rfl⟩ : ∃ k, v = 2^32 + k := ⟨v - 2^32, by omega⟩
  rw [Nat.testBit_two_pow_add_eq, Nat.testBit_lt_two_pow (by omega)]; rfl

theorem rgb_of_isRGB (c : Nat) (h : Color.isRGB c = true) :
    ∃ r g b : Nat, r ≤ 255 ∧ g ≤ 255 ∧ b ≤ 255 ∧ Color.rgb c = ((r : Int), (g : Int), (b : Int)) := by
  rw [Color.isRGB_eq] at h; simp only [Bool.and_eq_true] at h
  have hh := Color.hex_of_rgbBit c h.1 h.2
  have := Color.rgb_of_hex_nonneg c (by rw [hh]; omega)
  rw [hh] at this
  refine ⟨c % 2^24 / 65536 % 256, c % 2^24 / 256 % 256, c % 2^24 % 256, by omega, by omega, by omega, ?_⟩
  rw [this]; refine Prod.ext ?_ (Prod.ext ?_ ?_) <;> simp only [] <;> omega

theorem valid_of_isRGB (c : Nat) (h : Color.isRGB c = true) : Color.valid c = true := by
  rw [Color.isRGB_eq] at h; rw [Color.valid_eq]; simp only [Bool.and_eq_true] at h; exact h.1

theorem valid_zero : Color.valid 0 = false := by decide

/-- all that is asked of the colour-fitting function (go-colorful's nearest-colour search over the screen's palette):
    its result is an entry of that palette -/
def FitOk0 (rc : RenderCfg) : Prop := ∀ col, 2^32 ≤ rc.fit col ∧ rc.fit col < 2^32 + Render.nColors rc

/-- … asked only of screens that have a palette at all (on a monochrome terminal nothing is ever fitted to a palette) -/
def FitOk (rc : RenderCfg) : Prop := Render.nColors rc ≠ 0 → FitOk0 rc

theorem nColors_le (rc : RenderCfg) : Render.nColors rc ≤ 256 := by
  unfold Render.nColors; split <;> omega

theorem fitColor_range {rc : RenderCfg} (hfit : FitOk0 rc) (c : Nat) :
    2^32 ≤ Render.fitColor rc c ∧ Render.fitColor rc c < 2^32 + Render.nColors rc := by
  unfold Render.fitColor; split
  · rename_i h; exact h
  · exact hfit c

theorem fitColor_valid {rc : RenderCfg} (hfit : FitOk0 rc) (c : Nat) : Color.valid (Render.fitColor rc c) = true := by
  have := fitColor_range hfit c; have := nColors_le rc
  exact valid_of_range _ (by omega) (by omega)

theorem fitColor_idx {rc : RenderCfg} (hfit : FitOk0 rc) (c : Nat) : Render.fitColor rc c % 256 < Render.nColors rc := by
  have := fitColor_range hfit c; have := nColors_le rc
  omega

/-- the palette the screen keeps (tscreen.go:226-236: `t.palette[i] = Color(i) | ColorValid`, `i < nColors`; `FindColor(fg, t.palette)` at 791, 801, 896) -/
def screenPalette (rc : RenderCfg) : List Nat := (List.range (Render.nColors rc)).map (2^32 + ·)

/-- **`FitOk` holds for tcell's own `FindColor`** (colorfit.go, model `Color.findColor`) over the screen's palette, whatever
the colour distance is (go-colorful's CIE76 `float64` distance is an arbitrary `Metric` here): the scan returns one of the
colours it was given.  So for a screen with at least one colour `FitOk` is not an assumption about tcell. -/
theorem fitOk_findColor {α : Type} (m : Color.Metric α) (rc : RenderCfg)
    (hf : ∀ c, rc.fit c = Color.findColor m c (screenPalette rc)) : FitOk rc := by
  intro hn col
  have hne : screenPalette rc ≠ [] := by
    intro h
    have := congrArg List.length h
    simp [screenPalette] at this
    exact hn this
  have := Color.findColor_mem' m col (screenPalette rc) hne
  rw [← hf] at this
  simp only [screenPalette, List.mem_map, List.mem_range] at this
  obtain ⟨k, hk, e⟩ := this
  rw [← e]; omega

/-! ## sendFgBg -/

/-- the colour is written as direct colour -/
def dirF (rc : RenderCfg) (c : Nat) : Prop := rc.truecolor = true ∧ Color.isRGB c = true ∧ (!rc.ti.setFgRGB.isEmpty) = true
def dirB (rc : RenderCfg) (c : Nat) : Prop := rc.truecolor = true ∧ Color.isRGB c = true ∧ (!rc.ti.setBgRGB.isEmpty) = true
instance (rc : RenderCfg) (c : Nat) : Decidable (dirF rc c) := by unfold dirF; infer_instance
instance (rc : RenderCfg) (c : Nat) : Decidable (dirB rc c) := by unfold dirB; infer_instance

/-- tscreen.go sendFgBg with the local rebindings of `fg` / `bg` resolved -/
theorem sendFgBg_unfold (rc : RenderCfg) (hcol : rc.ti.colors ≠ 0) (hfit : FitOk0 rc) (fg bg attr : Nat) :
    Render.sendFgBg rc fg bg attr =
      ((if fg = colorReset ∨ bg = colorReset then tp rc rc.ti.resetFgBg else []) ++
       (if rc.truecolor = true ∧ (!rc.ti.setFgBgRGB.isEmpty) = true ∧ Color.isRGB fg = true ∧ Color.isRGB bg = true then
          tp rc (parm rc.ti.setFgBgRGB (ints (Render.rgbOf fg ++ Render.rgbOf bg)))
        else
          (if dirF rc fg then tp rc (parm rc.ti.setFgRGB (ints (Render.rgbOf fg))) else []) ++
          ((if dirB rc bg then tp rc (parm rc.ti.setBgRGB (ints (Render.rgbOf bg))) else []) ++
          (if (¬ dirF rc fg ∧ Color.valid fg = true) ∧ (¬ dirB rc bg ∧ Color.valid bg = true) ∧ (!rc.ti.setFgBg.isEmpty) = true then
             tp rc (parm rc.ti.setFgBg (ints [((Render.fitColor rc fg % 256 : Nat) : Int), ((Render.fitColor rc bg % 256 : Nat) : Int)]))
           else
             (if (¬ dirF rc fg ∧ Color.valid fg = true) ∧ (!rc.ti.setFg.isEmpty) = true then
                tp rc (parm rc.ti.setFg (ints [((Render.fitColor rc fg % 256 : Nat) : Int)])) else []) ++
             (if (¬ dirB rc bg ∧ Color.valid bg = true) ∧ (!rc.ti.setBg.isEmpty) = true then
                tp rc (parm rc.ti.setBg (ints [((Render.fitColor rc bg % 256 : Nat) : Int)])) else [])))), attr) := by
  unfold Render.sendFgBg dirF dirB
  simp only [hcol, if_false]
  by_cases hA : rc.truecolor = true ∧ (!rc.ti.setFgBgRGB.isEmpty) = true ∧ Color.isRGB fg = true ∧ Color.isRGB bg = true
  · simp only [hA, and_self, if_true]
  · simp only [hA, if_false]
    by_cases hF : rc.truecolor = true ∧ Color.isRGB fg = true ∧ (!rc.ti.setFgRGB.isEmpty) = true <;>
    by_cases hB : rc.truecolor = true ∧ Color.isRGB bg = true ∧ (!rc.ti.setBgRGB.isEmpty) = true <;>
    by_cases vF : Color.valid fg = true <;>
    by_cases vB : Color.valid bg = true <;>
      (first | simp only [eq_false hF] | simp only [eq_true hF]) <;>
      (first | simp only [eq_false hB] | simp only [eq_true hB]) <;>
      simp only [vF, vB, if_true, if_false, and_true, true_and, and_self, not_true_eq_false, not_false_eq_true,
        false_and, and_false, valid_zero, fitColor_valid hfit, List.append_nil, List.nil_append, Bool.false_eq_true,
        List.append_assoc]


/-- what the class says about the colour strings of a terminal that has colours, in the form the effect lemmas use: the
    *effect on the emulator* of `setaf` / `setab` / `setfgbg` for every palette index the screen has (the five families of
    `palKind` write different bytes for the same colour) -/
structure ColCaps (rc : RenderCfg) : Prop where
  colors : rc.ti.colors ≠ 0
  ncol : Render.nColors rc ≠ 0
  fgNe : (!rc.ti.setFg.isEmpty) = true
  bgNe : (!rc.ti.setBg.isEmpty) = true
  af : ∀ {rw : Int → Int} {t : Term}, Good rw t → ∀ n, n < Render.nColors rc →
    t.feed (tp rc (parm rc.ti.setFg (ints [((n : Nat) : Int)]))) = withPen t { t.pen with fg := .idx n }
  ab : ∀ {rw : Int → Int} {t : Term}, Good rw t → ∀ n, n < Render.nColors rc →
    t.feed (tp rc (parm rc.ti.setBg (ints [((n : Nat) : Int)]))) = withPen t { t.pen with bg := .idx n }
  afab : rc.ti.setFgBg = [] ∨ ∀ {rw : Int → Int} {t : Term}, Good rw t → ∀ f b, f < Render.nColors rc → b < Render.nColors rc →
    t.feed (tp rc (parm rc.ti.setFgBg (ints [((f : Nat) : Int), ((b : Nat) : Int)]))) =
      withPen t { t.pen with fg := .idx f, bg := .idx b }
  /-- `op`, written where sendFgBg writes it: right after `sgr0` (`PenReset`) -/
  reset : ∀ {rw : Int → Int} {t : Term}, Good rw t → PenReset t →
    t.feed (tp rc rc.ti.resetFgBg) = withPen t { t.pen with fg := (opSel rc).1, bg := (opSel rc).2 }
  fRGB : rc.ti.setFgRGB = [] ∨ rc.ti.setFgRGB = setfRGB
  bRGB : rc.ti.setBgRGB = [] ∨ rc.ti.setBgRGB = setbRGB
  fbRGB : rc.ti.setFgBgRGB = [] ∨ rc.ti.setFgBgRGB = setfbRGB
  coh1 : rc.ti.setFgRGB.isEmpty = rc.ti.setBgRGB.isEmpty
  coh2 : rc.ti.setFgBgRGB.isEmpty = true ∨ rc.ti.setFgRGB.isEmpty = false

/-- a monochrome description: no colours, no colour strings -/
structure Mono (rc : RenderCfg) : Prop where
  colors : rc.ti.colors = 0
  setFg : rc.ti.setFg = []
  setBg : rc.ti.setBg = []
  setFgBg : rc.ti.setFgBg = []
  reset : rc.ti.resetFgBg = []
  fRGB : rc.ti.setFgRGB = []
  bRGB : rc.ti.setBgRGB = []
  fbRGB : rc.ti.setFgBgRGB = []

theorem idxBody_lt8_fg (n : Nat) (h : n < 8) : idxBody 30 90 38 n = 0x33 :: dec n := by
  unfold idxBody; rw [if_pos h, dec_30 n h]
theorem idxBody_lt8_bg (n : Nat) (h : n < 8) : idxBody 40 100 48 n = 0x34 :: dec n := by
  unfold idxBody; rw [if_pos h, dec_40 n h]
theorem idxBody_lt8 (base bright which n : Nat) (h : n < 8) : idxBody base bright which n = dec (base + n) := by
  unfold idxBody; rw [if_pos h]

/-! ### the extended form `38;5;n` for every index (rxvt-unicode) and the colon form (foot) -/

theorem setafExt_effect {rw} {t : Term} (g : Good rw t) (n : Nat) (hn : n ≤ 255) :
    t.feed (csiSeq (ext5 38 n) 0x6d) = withPen t { t.pen with fg := .idx n } := sgr_fg_256_effect t g.st n hn
theorem setabExt_effect {rw} {t : Term} (g : Good rw t) (n : Nat) (hn : n ≤ 255) :
    t.feed (csiSeq (ext5 48 n) 0x6d) = withPen t { t.pen with bg := .idx n } := sgr_bg_256_effect t g.st n hn

theorem sgr_split_ext5 (n : Nat) (hn : n ≤ 255) (rest : List Param) (t : Term) :
    t.sgr ([[some 38], [some 5], [some n]] ++ rest) = (t.sgr [[some 38], [some 5], [some n]]).sgr rest := by
  show t.sgr ([some 38] :: [some 5] :: [some n] :: rest) = (t.sgr ([some 38] :: [some 5] :: [some n] :: [])).sgr rest
  rw [sgr_cons_ext5 t 38 n rest (Or.inl rfl) hn, sgr_cons_ext5 t 38 n [] (Or.inl rfl) hn, sgr_nil]

theorem setfgbgExt_effect {rw} {t : Term} (g : Good rw t) (f b : Nat) (hf : f ≤ 255) (hb : b ≤ 255) :
    t.feed (csiSeq (ext5 38 f ++ 0x3b :: ext5 48 b) 0x6d) = withPen t { t.pen with fg := .idx f, bg := .idx b } := by
  rw [feed_join (body_ext5 38 f) (body_ext5 48 b) (sgr_split_ext5 f hf _) t g.st, setafExt_effect g f hf,
    setabExt_effect (good_withPen g _) b hb]
  rfl

theorem body_colon5 (w n : Nat) : SgrBody (colon5 w n) [[some w, some 5, some n]] := by
  have hp : parseParam (dec w ++ 0x3a :: ([0x35] ++ 0x3a :: dec n)) = some [some w, some 5, some n] := by
    rw [parseParam_cons _ _ (colon_not_mem_dec _), parseNum_dec, parseParam_cons _ _ (by decide),
      parseParam_last _ (colon_not_mem_dec n), parseNum_dec]
    rfl
  have hsemi : 0x3b ∉ (dec w ++ 0x3a :: 0x35 :: 0x3a :: dec n) := by
    intro h
    simp only [List.mem_append, List.mem_cons] at h
    rcases h with h | h | h | h | h
    · exact semi_not_mem_dec _ h
    · omega
    · omega
    · omega
    · exact semi_not_mem_dec _ h
  refine ⟨?_, ?_⟩
  · intro b hb
    simp only [colon5, List.mem_append, List.mem_cons] at hb
    rcases hb with h | h | h | h | h
    · exact numeric_dec _ b h
    · exact Or.inr (Or.inr h)
    · subst h; decide
    · exact Or.inr (Or.inr h)
    · exact numeric_dec _ b h
  · show parseParams (dec w ++ 0x3a :: 0x35 :: 0x3a :: dec n) = _
    rw [parseParams_last _ hsemi]
    show Option.map _ (parseParam (dec w ++ 0x3a :: ([0x35] ++ 0x3a :: dec n))) = _
    rw [hp]; rfl

def idxParamsC (base bright which n : Nat) : List Param :=
  if n < 8 then [[some (base + n)]] else if n < 16 then [[some (bright + (n - 8))]] else [[some which, some 5, some n]]

theorem body_idxC (base bright which n : Nat) : SgrBody (idxBodyC base bright which n) (idxParamsC base bright which n) := by
  unfold idxBodyC idxParamsC
  split
  · exact body_dec _
  · split
    · exact body_dec _
    · exact body_colon5 _ _

theorem sgr_split_fgIdxC (n : Nat) (rest : List Param) (t : Term) :
    t.sgr (idxParamsC 30 90 38 n ++ rest) = (t.sgr (idxParamsC 30 90 38 n)).sgr rest := by
  unfold idxParamsC
  split
  · exact sgr_split_single t _ rest (by omega)
  · split
    · exact sgr_split_single t _ rest (by omega)
    · exact sgr_cons t _ rest (by refine ⟨?_, ?_, ?_⟩ <;> intro h <;> simp at h)

theorem setafC_effect {rw} {t : Term} (g : Good rw t) (n : Nat) (hn : n ≤ 255) :
    t.feed (csiSeq (idxBodyC 30 90 38 n) 0x6d) = withPen t { t.pen with fg := .idx n } := by
  unfold idxBodyC
  split
  · rename_i h; exact sgr_fg_idx_effect t g.st n h
  · split
    · rename_i h8 h16
      have := sgr_fg_bright_effect t g.st (n - 8) (by omega)
      rw [show n - 8 + 8 = n by omega] at this
      exact this
    · have := sgr_colon_idx_effect t g.st 38 n (Or.inl rfl) hn
      simpa [colon5, withPen, setExt] using this

theorem setabC_effect {rw} {t : Term} (g : Good rw t) (n : Nat) (hn : n ≤ 255) :
    t.feed (csiSeq (idxBodyC 40 100 48 n) 0x6d) = withPen t { t.pen with bg := .idx n } := by
  unfold idxBodyC
  split
  · rename_i h; exact sgr_bg_idx_effect t g.st n h
  · split
    · rename_i h8 h16
      have := sgr_bg_bright_effect t g.st (n - 8) (by omega)
      rw [show n - 8 + 8 = n by omega] at this
      exact this
    · have := sgr_colon_idx_effect t g.st 48 n (Or.inr (Or.inl rfl)) hn
      simpa [colon5, withPen, setExt] using this

theorem setfgbgC_effect {rw} {t : Term} (g : Good rw t) (f b : Nat) (hf : f ≤ 255) (hb : b ≤ 255) :
    t.feed (csiSeq (idxBodyC 30 90 38 f ++ 0x3b :: idxBodyC 40 100 48 b) 0x6d) =
      withPen t { t.pen with fg := .idx f, bg := .idx b } := by
  rw [feed_join (body_idxC 30 90 38 f) (body_idxC 40 100 48 b) (sgr_split_fgIdxC f _) t g.st, setafC_effect g f hf,
    setabC_effect (good_withPen g _) b hb]
  rfl

theorem palKind_cases {ti : Terminfo} (h : (palKind ti).isSome = true) :
    (ti.colors = 8 ∧ ti.setFg = setafBasic ∧ ti.setBg = setabBasic ∧ (ti.setFgBg = [] ∨ ti.setFgBg = setfgbgBasic)) ∨
    (ti.colors = 8 ∧ ti.setFg = setafAdd ∧ ti.setBg = setabAdd ∧ (ti.setFgBg = [] ∨ ti.setFgBg = setfgbgAdd)) ∨
    (8 ≤ ti.colors ∧ ti.setFg = setaf256 ∧ ti.setBg = setab256 ∧ (ti.setFgBg = [] ∨ ti.setFgBg = setfgbg256)) ∨
    (8 ≤ ti.colors ∧ ti.setFg = setafExt ∧ ti.setBg = setabExt ∧ (ti.setFgBg = [] ∨ ti.setFgBg = setfgbgExt)) ∨
    (8 ≤ ti.colors ∧ ti.setFg = setafColon ∧ ti.setBg = setabColon ∧ (ti.setFgBg = [] ∨ ti.setFgBg = setfgbgColon)) := by
  unfold palKind at h
  split at h
  · rename_i c; simp only [Bool.and_eq_true, beq_iff_eq] at c; exact Or.inl ⟨c.1.1.1, c.1.1.2, c.1.2, opt_of c.2⟩
  · split at h
    · rename_i c; simp only [Bool.and_eq_true, beq_iff_eq] at c; exact Or.inr (Or.inl ⟨c.1.1.1, c.1.1.2, c.1.2, opt_of c.2⟩)
    · split at h
      · rename_i c; simp only [Bool.and_eq_true, beq_iff_eq, decide_eq_true_eq] at c
        exact Or.inr (Or.inr (Or.inl ⟨c.1.1.1, c.1.1.2, c.1.2, opt_of c.2⟩))
      · split at h
        · rename_i c; simp only [Bool.and_eq_true, beq_iff_eq, decide_eq_true_eq] at c
          exact Or.inr (Or.inr (Or.inr (Or.inl ⟨c.1.1.1, c.1.1.2, c.1.2, opt_of c.2⟩)))
        · split at h
          · rename_i c; simp only [Bool.and_eq_true, beq_iff_eq, decide_eq_true_eq] at c
            exact Or.inr (Or.inr (Or.inr (Or.inr ⟨c.1.1.1, c.1.1.2, c.1.2, opt_of c.2⟩)))
          · simp at h

theorem pen_eta_fgbg (p : Pen) (h1 : p.fg = .default) (h2 : p.bg = .default) :
    ({ p with fg := .default, bg := .default } : Pen) = p := by
  cases p; simp_all

/-- **the colour strings of the class**: a colour terminal of one of the five palette families, or a monochrome one -/
theorem xl_colcaps {rc : RenderCfg} (hx : CapsOk rc.ti = true) : ColCaps rc ∨ Mono rc := by
  have F := tiFacts hx
  rcases F.col with ⟨hk, hop'⟩ | hm
  · left
    have hop : ∀ {rw : Int → Int} {t : Term}, Good rw t → PenReset t →
        t.feed (tp rc rc.ti.resetFgBg) = withPen t { t.pen with fg := (opSel rc).1, bg := (opSel rc).2 } := by
      intro rw t g hpr
      have hkeep : withPen t { t.pen with fg := .default, bg := .default } = t := by
        have : ({ t.pen with fg := .default, bg := .default } : Pen) = t.pen := by
          apply pen_eta_fgbg <;> rw [hpr.2]
        rw [this]; rfl
      simp only [opForms, List.mem_cons, List.not_mem_nil, or_false] at hop'
      rcases hop' with h | h | h | h | h
      · have e : opSel rc = (.default, .default) := by
          unfold opSel; rw [h, if_neg (by decide), if_neg (by decide)]
        rw [e, h, tp_clean rc _ (by decide)]; exact fgbgReset_effect g
      · have e : opSel rc = (.idx 2, .idx 0) := by unfold opSel; rw [h, if_pos rfl]
        rw [e, h, tp_clean rc _ (by decide)]; exact opAix_effect g
      · have e : opSel rc = (.idx 7, .idx 0) := by unfold opSel; rw [h, if_neg (by decide), if_pos rfl]
        rw [e, h, tp_clean rc _ (by decide)]; exact opPc_effect g
      · -- `CSI m`: a full SGR reset, right after `sgr0`
        have e : opSel rc = (.default, .default) := by
          unfold opSel; rw [h, if_neg (by decide), if_neg (by decide)]
        rw [e, h, tp_clean rc _ (by decide), hkeep]
        show t.feed [27, 91, 109] = t
        rw [sgr_reset_effect _ g.st]; exact reset_of_penReset hpr
      · have e : opSel rc = (.default, .default) := by
          unfold opSel; rw [h, if_neg (by decide), if_neg (by decide)]
        rw [e, h, tp_clean rc _ (by decide), hkeep]
        show t.feed [27, 91, 48, 109] = t
        rw [sgr0_effect _ g.st]; exact reset_of_penReset hpr
    have l := (show Render.nColors rc ≤ 256 by unfold Render.nColors; split <;> omega)
    have cleanF : ∀ n, tp rc (csiSeq (idxBody 30 90 38 n) 0x6d) = csiSeq (idxBody 30 90 38 n) 0x6d :=
      fun n => tp_clean rc _ (body_idx 30 90 38 n).clean
    have cleanB : ∀ n, tp rc (csiSeq (idxBody 40 100 48 n) 0x6d) = csiSeq (idxBody 40 100 48 n) 0x6d :=
      fun n => tp_clean rc _ (body_idx 40 100 48 n).clean
    have cleanFB : ∀ f b, tp rc (csiSeq (idxBody 30 90 38 f ++ 0x3b :: idxBody 40 100 48 b) 0x6d) =
        csiSeq (idxBody 30 90 38 f ++ 0x3b :: idxBody 40 100 48 b) 0x6d :=
      fun f b => tp_clean rc _ ((body_idx 30 90 38 f).append (body_idx 40 100 48 b)).clean
    rcases palKind_cases hk with ⟨hc, hf, hb, hfb⟩ | ⟨hc, hf, hb, hfb⟩ | ⟨hc, hf, hb, hfb⟩ | ⟨hc, hf, hb, hfb⟩ | ⟨hc, hf, hb, hfb⟩
    · -- 8 colours, `3n` / `4n`
      have hn : Render.nColors rc = 8 := by simp [Render.nColors, hc]
      refine ⟨by omega, by omega, by rw [hf]; decide, by rw [hb]; decide, ?_, ?_, ?_, hop, F.fRGB, F.bRGB, F.fbRGB, F.coh1, F.coh2⟩
      · intro rw t g n h; rw [hn] at h
        rw [hf, parm_setafBasic, ← idxBody_lt8_fg n h, cleanF]; exact setaf_effect g n (by omega)
      · intro rw t g n h; rw [hn] at h
        rw [hb, parm_setabBasic, ← idxBody_lt8_bg n h, cleanB]; exact setab_effect g n (by omega)
      · rcases hfb with e | e
        · exact Or.inl e
        · right; intro rw t g f b h h'; rw [hn] at h h'
          rw [e, parm_setfgbgBasic, ← idxBody_lt8_fg f h, ← idxBody_lt8_bg b h', cleanFB]
          exact setfgbg_effect g f b (by omega) (by omega)
    · -- 8 colours, `%p1%{30}%+%d` (Eterm)
      have hn : Render.nColors rc = 8 := by simp [Render.nColors, hc]
      refine ⟨by omega, by omega, by rw [hf]; decide, by rw [hb]; decide, ?_, ?_, ?_, hop, F.fRGB, F.bRGB, F.fbRGB, F.coh1, F.coh2⟩
      · intro rw t g n h; rw [hn] at h
        rw [hf, parm_setafAdd n (by omega), ← idxBody_lt8 30 90 38 n h, cleanF]; exact setaf_effect g n (by omega)
      · intro rw t g n h; rw [hn] at h
        rw [hb, parm_setabAdd n (by omega), ← idxBody_lt8 40 100 48 n h, cleanB]; exact setab_effect g n (by omega)
      · rcases hfb with e | e
        · exact Or.inl e
        · right; intro rw t g f b h h'; rw [hn] at h h'
          rw [e, parm_setfgbgAdd f b (by omega) (by omega), ← idxBody_lt8 30 90 38 f h, ← idxBody_lt8 40 100 48 b h', cleanFB]
          exact setfgbg_effect g f b (by omega) (by omega)
    · -- 16 / 88 / 256 colours, the conditional form
      have hn : Render.nColors rc ≠ 0 := by unfold Render.nColors; split <;> omega
      refine ⟨by omega, hn, by rw [hf]; decide, by rw [hb]; decide, ?_, ?_, ?_, hop, F.fRGB, F.bRGB, F.fbRGB, F.coh1, F.coh2⟩
      · intro rw t g n h; rw [hf, parm_setaf256, cleanF]; exact setaf_effect g n (by omega)
      · intro rw t g n h; rw [hb, parm_setab256, cleanB]; exact setab_effect g n (by omega)
      · rcases hfb with e | e
        · exact Or.inl e
        · right; intro rw t g f b h h'; rw [e, parm_setfgbg256, cleanFB]; exact setfgbg_effect g f b (by omega) (by omega)
    · -- always `38;5;n` (rxvt-unicode)
      have hn : Render.nColors rc ≠ 0 := by unfold Render.nColors; split <;> omega
      refine ⟨by omega, hn, by rw [hf]; decide, by rw [hb]; decide, ?_, ?_, ?_, hop, F.fRGB, F.bRGB, F.fbRGB, F.coh1, F.coh2⟩
      · intro rw t g n h; rw [hf, parm_setafExt, tp_clean rc _ (body_ext5 38 n).clean]; exact setafExt_effect g n (by omega)
      · intro rw t g n h; rw [hb, parm_setabExt, tp_clean rc _ (body_ext5 48 n).clean]; exact setabExt_effect g n (by omega)
      · rcases hfb with e | e
        · exact Or.inl e
        · right; intro rw t g f b h h'
          rw [e, parm_setfgbgExt, tp_clean rc _ ((body_ext5 38 f).append (body_ext5 48 b)).clean]
          exact setfgbgExt_effect g f b (by omega) (by omega)
    · -- the conditional form with `38:5:n` (foot)
      have hn : Render.nColors rc ≠ 0 := by unfold Render.nColors; split <;> omega
      refine ⟨by omega, hn, by rw [hf]; decide, by rw [hb]; decide, ?_, ?_, ?_, hop, F.fRGB, F.bRGB, F.fbRGB, F.coh1, F.coh2⟩
      · intro rw t g n h; rw [hf, parm_setafColon, tp_clean rc _ (body_idxC 30 90 38 n).clean]; exact setafC_effect g n (by omega)
      · intro rw t g n h; rw [hb, parm_setabColon, tp_clean rc _ (body_idxC 40 100 48 n).clean]; exact setabC_effect g n (by omega)
      · rcases hfb with e | e
        · exact Or.inl e
        · right; intro rw t g f b h h'
          rw [e, parm_setfgbgColon, tp_clean rc _ ((body_idxC 30 90 38 f).append (body_idxC 40 100 48 b)).clean]
          exact setfgbgC_effect g f b (by omega) (by omega)
  · right
    simp only [monoOk, Bool.and_eq_true, beq_iff_eq, and_assoc] at hm
    obtain ⟨m1, m2, m3, m4, m5, m6, m7, m8⟩ := hm
    exact ⟨m1, m2, m3, m4, m5, m6, m7, m8⟩


theorem feed_ite {t : Term} (c : Prop) [Decidable c] (bs : Bytes) (p : Pen)
    (h : c → t.feed bs = withPen t p) : t.feed (if c then bs else []) = withPen t (if c then p else t.pen) := by
  by_cases hc : c
  · simp only [if_pos hc]; exact h hc
  · simp only [if_neg hc]; rfl

theorem rgb_forms (c : Nat) (h : Color.isRGB c = true) :
    ∃ r g b : Nat, r ≤ 255 ∧ g ≤ 255 ∧ b ≤ 255 ∧ Render.rgbOf c = [(r : Int), (g : Int), (b : Int)] ∧ rgbSel c = .rgb r g b := by
  obtain ⟨r, g, b, hr, hg, hb, e⟩ := rgb_of_isRGB c h
  exact ⟨r, g, b, hr, hg, hb, by simp [Render.rgbOf, e], by simp [rgbSel, e]⟩

theorem fPiece {rw} {rc : RenderCfg} (C : ColCaps rc) {t : Term} (g : Good rw t) (fg : Nat) :
    t.feed (if dirF rc fg then tp rc (parm rc.ti.setFgRGB (ints (Render.rgbOf fg))) else []) =
      withPen t (if dirF rc fg then { t.pen with fg := rgbSel fg } else t.pen) := by
  apply feed_ite
  intro hd
  obtain ⟨r, gg, b, hr, hg, hb, e1, e2⟩ := rgb_forms fg hd.2.1
  have hne : rc.ti.setFgRGB = setfRGB := by
    rcases C.fRGB with h | h
    · have := hd.2.2; simp [h] at this
    · exact h
  rw [hne, e1]
  show t.feed (tp rc (parm setfRGB (ints [(r : Int), (gg : Int), (b : Int)]))) = _
  rw [parm_setfRGB, tp_clean rc _ (body_ext2 38 r gg b).clean, fRGB_effect g r gg b hr hg hb, e2]

theorem bPiece {rw} {rc : RenderCfg} (C : ColCaps rc) {t : Term} (g : Good rw t) (bg : Nat) :
    t.feed (if dirB rc bg then tp rc (parm rc.ti.setBgRGB (ints (Render.rgbOf bg))) else []) =
      withPen t (if dirB rc bg then { t.pen with bg := rgbSel bg } else t.pen) := by
  apply feed_ite
  intro hd
  obtain ⟨r, gg, b, hr, hg, hb, e1, e2⟩ := rgb_forms bg hd.2.1
  have hne : rc.ti.setBgRGB = setbRGB := by
    rcases C.bRGB with h | h
    · have := hd.2.2; simp [h] at this
    · exact h
  rw [hne, e1]
  show t.feed (tp rc (parm setbRGB (ints [(r : Int), (gg : Int), (b : Int)]))) = _
  rw [parm_setbRGB, tp_clean rc _ (body_ext2 48 r gg b).clean, bRGB_effect g r gg b hr hg hb, e2]

theorem palPiece {rw} {rc : RenderCfg} (C : ColCaps rc) {t : Term} (g : Good rw t) (pF pB : Prop) [Decidable pF] [Decidable pB]
    (nF nB : Nat) (hF : nF < Render.nColors rc) (hB : nB < Render.nColors rc) :
    t.feed (if pF ∧ pB ∧ (!rc.ti.setFgBg.isEmpty) = true then
        tp rc (parm rc.ti.setFgBg (ints [((nF : Nat) : Int), ((nB : Nat) : Int)]))
      else
        (if pF ∧ (!rc.ti.setFg.isEmpty) = true then tp rc (parm rc.ti.setFg (ints [((nF : Nat) : Int)])) else []) ++
        (if pB ∧ (!rc.ti.setBg.isEmpty) = true then tp rc (parm rc.ti.setBg (ints [((nB : Nat) : Int)])) else [])) =
      withPen t { t.pen with fg := if pF then .idx nF else t.pen.fg, bg := if pB then .idx nB else t.pen.bg } := by
  have eF : ∀ {t : Term}, Good rw t → t.feed (tp rc (parm rc.ti.setFg (ints [((nF : Nat) : Int)]))) = withPen t { t.pen with fg := .idx nF } :=
    fun g => C.af g nF hF
  have eB : ∀ {t : Term}, Good rw t → t.feed (tp rc (parm rc.ti.setBg (ints [((nB : Nat) : Int)]))) = withPen t { t.pen with bg := .idx nB } :=
    fun g => C.ab g nB hB
  by_cases hpF : pF <;> by_cases hpB : pB
  · by_cases hE : (!rc.ti.setFgBg.isEmpty) = true
    · rw [if_pos ⟨hpF, hpB, hE⟩]
      rcases C.afab with h | h
      · simp [h] at hE
      · rw [h g nF nB hF hB]; simp [hpF, hpB]
    · rw [if_neg (fun h => hE h.2.2), if_pos ⟨hpF, C.fgNe⟩, if_pos ⟨hpB, C.bgNe⟩, ← feed_append, eF g, eB (good_withPen g _)]
      simp [hpF, hpB, withPen]
  · rw [if_neg (fun h => hpB h.2.1), if_pos ⟨hpF, C.fgNe⟩, if_neg (fun h => hpB h.1), List.append_nil, eF g]
    simp [hpF, hpB]
  · rw [if_neg (fun h => hpF h.1), if_neg (fun h => hpF h.1), if_pos ⟨hpB, C.bgNe⟩, List.nil_append, eB g]
    simp [hpF, hpB]
  · rw [if_neg (fun h => hpF h.1), if_neg (fun h => hpF h.1), if_neg (fun h => hpB h.1)]
    simp [hpF, hpB, withPen]

theorem hasRGB_iff_dirF (rc : RenderCfg) (c : Nat) : (hasRGB rc && Color.isRGB c) = true ↔ dirF rc c := by
  simp only [hasRGB, dirF, Bool.and_eq_true]; constructor
  · rintro ⟨⟨a, b⟩, c⟩; exact ⟨a, c, b⟩
  · rintro ⟨a, c, b⟩; exact ⟨⟨a, b⟩, c⟩

theorem dirB_iff_dirF {rc : RenderCfg} (C : ColCaps rc) (c : Nat) : dirB rc c ↔ dirF rc c := by
  simp only [dirB, dirF, C.coh1]

/-- **sendFgBg on the emulator**: with default colours in the pen (the style block and clearScreen call it right
after `sgr0`), the colours become what the two colour values denote on this terminal (`colSel`): default for
`ColorDefault`/`ColorReset`/invalid, the exact RGB value in direct-colour mode, the palette index for palette colours
the terminal has, and the FITTED palette colour (`rc.fit`) for everything else -/
theorem col_sendFgBg_effect {rw} {rc : RenderCfg} (C : ColCaps rc) (hfit : FitOk0 rc) {t : Term} (g : Good rw t)
    (hpr : PenReset t) (fg bg attr : Nat) :
    t.feed (Render.sendFgBg rc fg bg attr).1 = withPen t { t.pen with fg := fgSel rc fg bg, bg := bgSel rc fg bg } ∧
      (Render.sendFgBg rc fg bg attr).2 = attr := by
  have h1 : t.pen.fg = .default := by rw [hpr.2]
  have h2 : t.pen.bg = .default := by rw [hpr.2]
  rw [sendFgBg_unfold rc C.colors hfit]
  refine ⟨?_, rfl⟩
  simp only []
  rw [← feed_append]
  -- `op`, when either colour is ColorReset
  generalize hp0 : (if fg = colorReset ∨ bg = colorReset then ({ t.pen with fg := (opSel rc).1, bg := (opSel rc).2 } : Pen) else t.pen) = p0
  have e0 : t.feed (if fg = colorReset ∨ bg = colorReset then tp rc rc.ti.resetFgBg else []) = withPen t p0 := by
    rw [← hp0]; split
    · exact C.reset g hpr
    · rfl
  rw [e0]
  have g0 := good_withPen g p0
  have hover : ∀ a b : ColorSel, ({ p0 with fg := a, bg := b } : Pen) = { t.pen with fg := a, bg := b } := by
    intro a b; rw [← hp0]; split <;> rfl
  by_cases hA : rc.truecolor = true ∧ (!rc.ti.setFgBgRGB.isEmpty) = true ∧ Color.isRGB fg = true ∧ Color.isRGB bg = true
  · rw [if_pos hA]
    obtain ⟨r, gg, b, hr, hg, hb, e1, e2⟩ := rgb_forms fg hA.2.2.1
    obtain ⟨r', g', b', hr', hg', hb', e1', e2'⟩ := rgb_forms bg hA.2.2.2
    have hne : rc.ti.setFgBgRGB = setfbRGB := by
      rcases C.fbRGB with h | h
      · have := hA.2.1; simp [h] at this
      · exact h
    have hF : dirF rc fg := by
      refine ⟨hA.1, hA.2.2.1, ?_⟩
      rcases C.coh2 with h | h
      · have := hA.2.1; simp [h] at this
      · simp [h]
    have hB : dirF rc bg := ⟨hA.1, hA.2.2.2, hF.2.2⟩
    have c1 : colSel rc fg = .rgb r gg b := by unfold colSel; rw [if_pos ((hasRGB_iff_dirF rc fg).2 hF), e2]
    have c2 : colSel rc bg = .rgb r' g' b' := by unfold colSel; rw [if_pos ((hasRGB_iff_dirF rc bg).2 hB), e2']
    have f1 : fgSel rc fg bg = .rgb r gg b := by unfold fgSel; rw [c1, if_neg (by simp)]
    have f2 : bgSel rc fg bg = .rgb r' g' b' := by unfold bgSel; rw [c2, if_neg (by simp)]
    rw [hne, e1, e1']
    show (withPen t p0).feed (tp rc (parm setfbRGB (ints [(r : Int), (gg : Int), (b : Int), (r' : Int), (g' : Int), (b' : Int)]))) = _
    rw [parm_setfbRGB, tp_clean rc _ ((body_ext2 38 r gg b).append (body_ext2 48 r' g' b')).clean,
      fbRGB_effect g0 r gg b r' g' b' hr hg hb hr' hg' hb', f1, f2]
    show withPen t { p0 with fg := _, bg := _ } = _
    rw [hover]
  · rw [if_neg hA, ← feed_append, fPiece C g0, ← feed_append, bPiece C (good_withPen g0 _),
      palPiece C (good_withPen (good_withPen g0 _) _) _ _ _ _ (fitColor_idx hfit fg) (fitColor_idx hfit bg)]
    have hb' := dirB_iff_dirF C bg
    have cf := hasRGB_iff_dirF rc fg
    have cb := hasRGB_iff_dirF rc bg
    have r1 : ∀ c, Color.isRGB c = true → rgbSel c ≠ .default := by intro c _; simp [rgbSel]
    subst hp0
    by_cases hR : fg = colorReset ∨ bg = colorReset <;>
    by_cases dF : dirF rc fg <;> by_cases dB : dirF rc bg <;> by_cases vF : Color.valid fg = true <;>
      by_cases vB : Color.valid bg = true <;>
      simp [withPen, fgSel, bgSel, colSel, hR, dF, dB, hb'.2, hb', cf.2, cb.2, cf, cb, vF, vB, h1, h2, C.colors, rgbSel]

/-! ### monochrome terminals, and both kinds together -/

/-- the attributes sendFgBg hands back: on a monochrome terminal a dark foreground flips reverse video (tscreen.go:756) -/
def effAttr (rc : RenderCfg) (fg attr : Nat) : Nat := if monoFlip rc fg = true then attr ^^^ Render.attrReverse else attr

theorem bit_tb (a i : Nat) : bit a (2^i) = a.testBit i := by
  unfold bit; rw [Nat.testBit_eq_decide_div_mod_eq]

theorem bit_xor4_4 (a : Nat) : bit (a ^^^ 4) 4 = !bit a 4 := by
  have := bit_tb (a ^^^ 4) 2
  have h2 := bit_tb a 2
  simp only [show (2:Nat)^2 = 4 from rfl] at this h2
  rw [this, h2, Nat.testBit_xor, show (4:Nat) = 2^2 from rfl, Nat.testBit_two_pow_self]; simp

theorem bit_xor4_other (a i : Nat) (hi : i ≠ 2) : bit (a ^^^ 4) (2^i) = bit a (2^i) := by
  rw [bit_tb, bit_tb, Nat.testBit_xor, show (4:Nat) = 2^2 from rfl, Nat.testBit_two_pow_of_ne (Ne.symm hi)]; simp

theorem bit_effAttr_rev (rc : RenderCfg) (fg a : Nat) :
    bit (effAttr rc fg a) Render.attrReverse = (bit a Render.attrReverse != monoFlip rc fg) := by
  unfold effAttr; cases monoFlip rc fg
  · simp
  · simp only [if_true]; show bit (a ^^^ 4) 4 = _; rw [bit_xor4_4]; simp [Render.attrReverse]
theorem bit_effAttr_bold (rc : RenderCfg) (fg a : Nat) : bit (effAttr rc fg a) Render.attrBold = bit a Render.attrBold := by
  unfold effAttr; split
  · exact bit_xor4_other a 0 (by omega)
  · rfl
theorem bit_effAttr_blink (rc : RenderCfg) (fg a : Nat) : bit (effAttr rc fg a) Render.attrBlink = bit a Render.attrBlink := by
  unfold effAttr; split
  · exact bit_xor4_other a 1 (by omega)
  · rfl
theorem bit_effAttr_dim (rc : RenderCfg) (fg a : Nat) : bit (effAttr rc fg a) Render.attrDim = bit a Render.attrDim := by
  unfold effAttr; split
  · exact bit_xor4_other a 4 (by omega)
  · rfl
theorem bit_effAttr_italic (rc : RenderCfg) (fg a : Nat) : bit (effAttr rc fg a) Render.attrItalic = bit a Render.attrItalic := by
  unfold effAttr; split
  · exact bit_xor4_other a 5 (by omega)
  · rfl
theorem bit_effAttr_strike (rc : RenderCfg) (fg a : Nat) : bit (effAttr rc fg a) Render.attrStrike = bit a Render.attrStrike := by
  unfold effAttr; split
  · exact bit_xor4_other a 6 (by omega)
  · rfl

/-- sendFgBg on a monochrome description (tscreen.go:741-758 and, for a foreground that fits neither black nor white, the
    fall-through into the colour code, where every string is empty): nothing is written; the attributes come back with
    reverse video flipped for a dark foreground -/
theorem mono_sendFgBg {rc : RenderCfg} (M : Mono rc) (fg bg attr : Nat) :
    Render.sendFgBg rc fg bg attr = ([], effAttr rc fg attr) := by
  have hwb : Render.colorWhite ≠ Render.colorBlack := by decide
  unfold Render.sendFgBg effAttr monoFlip
  simp only [M.colors, M.setFg, M.setBg, M.setFgBg, M.reset, M.fRGB, M.bRGB, M.fbRGB]
  by_cases hv : Color.valid fg = true
  · by_cases hw : rc.fit0 fg = Render.colorWhite
    · simp [hv, hw, hwb]
    · by_cases hb : rc.fit0 fg = Render.colorBlack
      · simp [hv, hb, Ne.symm hwb]
      · simp [hv, hw, hb]
  · simp [hv]

theorem colSel_mono {rc : RenderCfg} (M : Mono rc) (c : Nat) : colSel rc c = .default := by
  simp [colSel, hasRGB, M.fRGB, M.colors]

theorem fgSel_mono {rc : RenderCfg} (M : Mono rc) (f b : Nat) : fgSel rc f b = .default := by
  simp [fgSel, colSel_mono M, opSel, M.reset, opAix, opPc]
theorem bgSel_mono {rc : RenderCfg} (M : Mono rc) (f b : Nat) : bgSel rc f b = .default := by
  simp [bgSel, colSel_mono M, opSel, M.reset, opAix, opPc]

/-- **sendFgBg on the emulator, every terminal of the class**: with default colours in the pen (the style block and clearScreen
call it right after `sgr0`), the colours become what the two colour values denote on this terminal (`colSel`): default for
`ColorDefault`/`ColorReset`/invalid and on monochrome terminals, the exact RGB value in direct-colour mode, the palette index for
palette colours the terminal has, and the FITTED palette colour (`rc.fit`) for everything else; the attributes handed back are
`effAttr` -/
theorem xl_sendFgBg_effect {rw} {rc : RenderCfg} (hx : CapsOk rc.ti = true) (hfit : FitOk rc) {t : Term} (g : Good rw t)
    (hpr : PenReset t) (fg bg attr : Nat) :
    t.feed (Render.sendFgBg rc fg bg attr).1 = withPen t { t.pen with fg := fgSel rc fg bg, bg := bgSel rc fg bg } ∧
      (Render.sendFgBg rc fg bg attr).2 = effAttr rc fg attr := by
  rcases xl_colcaps hx with C | M
  · have := col_sendFgBg_effect C (hfit C.ncol) g hpr fg bg attr
    refine ⟨this.1, ?_⟩
    rw [this.2]; simp [effAttr, monoFlip, C.colors]
  · rw [mono_sendFgBg M, fgSel_mono M, bgSel_mono M]
    refine ⟨?_, rfl⟩
    rw [pen_eta_fgbg _ (by rw [hpr.2]) (by rw [hpr.2])]; rfl

/-! ## underline -/

/-- what the class says about the underline strings and the cursor strings -/
structure UCaps (rc : RenderCfg) : Prop where
  underline : rc.ti.underline = [] ∨ Tcell.Spec.TermCaps.stripPadding rc.ti.underline = sgr1 4
  du : rc.d.doubleUnder = [] ∨ rc.d.doubleUnder = ulStyleStd 2
  cu : rc.d.curlyUnder = [] ∨ rc.d.curlyUnder = ulStyleStd 3
  dou : rc.d.dottedUnder = [] ∨ rc.d.dottedUnder = ulStyleStd 4
  dau : rc.d.dashedUnder = [] ∨ rc.d.dashedUnder = ulStyleStd 5
  uc : rc.d.underColor = [] ∨ rc.d.underColor = ulIdx
  urgb : rc.d.underRGB = [] ∨ rc.d.underRGB = ulRGB
  ufg : rc.d.underFg = [] ∨ rc.d.underFg = ulResetStd
  coh : rc.d.underRGB.isEmpty = rc.d.underColor.isEmpty
  cstyles : rc.d.cursorStyles = none ∨ rc.d.cursorStyles = some cursorStylesStd

theorem xl_ucaps {rc : RenderCfg} (hx : CapsOk rc.ti = true) (hd : rc.d = derive rc.ti) : UCaps rc := by
  have F := tiFacts hx
  have D := dFacts hx hd
  exact ⟨F.underline, D.du, D.cu, D.dou, D.dau, D.uc, D.urgb, D.ufg, D.coh, D.cstyles⟩

theorem stylePiece {rw} {rc : RenderCfg} {t : Term} (g : Good rw t) (k : Nat) (hk : k ≤ 5) (s : Bytes)
    (hs : s = [] ∨ s = ulStyleStd k) :
    t.feed (tp rc s) = withPen t { t.pen with ul := if (!s.isEmpty) = true then k else t.pen.ul } := by
  rcases hs with rfl | rfl
  · simp [withPen]
  · have : ((!(ulStyleStd k).isEmpty) = true) := by simp [ulStyleStd]
    rw [if_pos this, tp_clean rc _ (by
      intro b hb; simp only [ulStyleStd, List.mem_cons, List.not_mem_nil, or_false] at hb
      rcases hb with h | h | h | h | h | h <;> omega), ulStyle_effect g k hk]

/-- **the underline part of the style block**: underline colour (indexed, direct, reset), `smul`, underline style -/
theorem xl_underline_effect {rw} {rc : RenderCfg} (U : UCaps rc) {t : Term} (g : Good rw t)
    (h1 : t.pen.ul = 0) (h2 : t.pen.ulColor = .default) (us uc : Nat) :
    t.feed (Render.underline rc us uc) =
      withPen t { t.pen with ul := ulStyleOf rc us, ulColor := if us = 0 then .default else ulSel rc uc } := by
  unfold Render.underline
  by_cases h0 : us = 0
  · simp only [h0, if_true, ulStyleOf]
    have : ({ t.pen with ul := 0, ulColor := .default } : Pen) = t.pen := by
      cases hp : t.pen; rw [hp] at h1 h2; simp_all
    rw [this]; rfl
  · simp only [h0, if_false]
    rw [← feed_append, ← feed_append]
    -- colour
    have eC : t.feed (if (!rc.d.underColor.isEmpty) = true ∨ (!rc.d.underRGB.isEmpty) = true then
          if uc = colorReset then tp rc rc.d.underFg
          else if Color.isRGB uc = true then
            if (!rc.d.underRGB.isEmpty) = true then tp rc (parm rc.d.underRGB (ints (Render.rgbOf uc)))
            else tp rc (parm rc.d.underColor (ints [((Render.fitColor rc uc % 256 : Nat) : Int)]))
          else if Color.valid uc = true then tp rc (parm rc.d.underColor (ints [((uc % 256 : Nat) : Int)]))
          else []
        else []) = withPen t { t.pen with ulColor := ulSel rc uc } := by
      have keep : ∀ c, c = ColorSel.default → t = withPen t { t.pen with ulColor := c } := by
        intro c hc; subst hc
        have : ({ t.pen with ulColor := .default } : Pen) = t.pen := by cases hp : t.pen; rw [hp] at h2; simp_all
        rw [this]; rfl
      rcases U.uc with e | e
      · have e' : rc.d.underRGB.isEmpty = true := by rw [U.coh, e]; rfl
        have e'' : rc.d.underColor.isEmpty = true := by rw [e]; rfl
        rw [if_neg (by simp [e', e''])]
        exact keep _ (by simp [ulSel, e''])
      · have ne : rc.d.underColor.isEmpty = false := by rw [e]; rfl
        have ne' : rc.d.underRGB.isEmpty = false := by rw [U.coh, ne]
        have eR : rc.d.underRGB = ulRGB := by
          rcases U.urgb with h | h
          · simp [h] at ne'
          · exact h
        rw [if_pos (by simp [ne])]
        by_cases hr : uc = colorReset
        · rw [if_pos hr]
          have : ulSel rc uc = .default := by simp [ulSel, hr]
          rw [this]
          rcases U.ufg with h | h
          · rw [h, tp_nil]; exact keep _ rfl
          · rw [h, tp_clean rc _ (by decide), ulReset_effect g]
        · rw [if_neg hr]
          by_cases hrgb : Color.isRGB uc = true
          · obtain ⟨r, gg, b, hr', hg, hb, e1, e2⟩ := rgb_forms uc hrgb
            rw [if_pos hrgb, if_pos (by simp [ne']), eR, e1]
            show t.feed (tp rc (parm ulRGB (ints [(r : Int), (gg : Int), (b : Int)]))) = _
            have cl : ∀ x ∈ csiSeq (ulRGBBody r gg b) 0x6d, x ≠ 36 := by
              apply csiSeq_clean _ _ _ (by omega)
              intro x hx
              simp only [ulRGBBody, List.mem_append, List.mem_cons] at hx
              rcases hx with h | h | h | h | h | h | h | h | h | h <;>
                first | omega | (have := dec_no_dollar _ x h; omega)
            have : ulSel rc uc = .rgb r gg b := by simp [ulSel, ne, hr, hrgb, e2]
            rw [parm_ulRGB, tp_clean rc _ cl, ulRGB_effect g r gg b hr' hg hb, this]
          · rw [if_neg hrgb]
            by_cases hv : Color.valid uc = true
            · rw [if_pos hv, e]
              have cl : ∀ x ∈ csiSeq (ulIdxBody (uc % 256)) 0x6d, x ≠ 36 := by
                apply csiSeq_clean _ _ _ (by omega)
                intro x hx
                simp only [ulIdxBody, List.mem_append, List.mem_cons] at hx
                rcases hx with h | h | h | h | h <;> first | omega | (have := dec_no_dollar _ x h; omega)
              have : ulSel rc uc = .idx (uc % 256) := by simp [ulSel, ne, hr, hrgb, hv]
              rw [parm_ulIdx, tp_clean rc _ cl, ulIdx_effect g _ (by omega), this]
            · rw [if_neg hv]
              exact keep _ (by simp [ulSel, ne, hr, hrgb, hv])
    rw [eC]
    -- `smul`, where the description has one
    obtain ⟨u1, hu1, eU⟩ : ∃ u1 : Nat, u1 = (if rc.ti.underline.isEmpty = true then 0 else 1) ∧
        (withPen t { t.pen with ulColor := ulSel rc uc }).feed (tp rc rc.ti.underline) =
          withPen (withPen t { t.pen with ulColor := ulSel rc uc })
            { (withPen t { t.pen with ulColor := ulSel rc uc }).pen with ul := u1 } := by
      rcases U.underline with e | e
      · refine ⟨0, by simp [e], ?_⟩
        rw [e, tp_nil]
        have hp : ({ ({ t.pen with ulColor := ulSel rc uc } : Pen) with ul := 0 } : Pen) = { t.pen with ulColor := ulSel rc uc } := by
          cases hq : t.pen; rw [hq] at h1; simp_all
        show withPen t _ = withPen t ({ ({ t.pen with ulColor := ulSel rc uc } : Pen) with ul := 0 } : Pen)
        rw [hp]
      · have hne : rc.ti.underline.isEmpty = false := by
          cases h : rc.ti.underline with
          | nil => rw [h] at e; exact absurd e (by decide)
          | cons a l => rfl
        refine ⟨1, by simp [hne], ?_⟩
        rw [tp_strip, e, ul_effect (good_withPen g _)]
    rw [eU]
    have g2 := good_withPen (good_withPen g { t.pen with ulColor := ulSel rc uc })
      { (withPen t { t.pen with ulColor := ulSel rc uc }).pen with ul := u1 }
    subst hu1
    -- style
    by_cases h2' : us = 2
    · rw [if_pos h2', stylePiece g2 2 (by omega) _ U.du]
      cases hE : rc.d.doubleUnder.isEmpty <;> simp [withPen, ulStyleOf, h2', hE]
    · rw [if_neg h2']
      by_cases h3 : us = 3
      · rw [if_pos h3, stylePiece g2 3 (by omega) _ U.cu]
        cases hE : rc.d.curlyUnder.isEmpty <;> simp [withPen, ulStyleOf, h3, hE]
      · rw [if_neg h3]
        by_cases h4 : us = 4
        · rw [if_pos h4, stylePiece g2 4 (by omega) _ U.dou]
          cases hE : rc.d.dottedUnder.isEmpty <;> simp [withPen, ulStyleOf, h4, hE]
        · rw [if_neg h4]
          by_cases h5 : us = 5
          · rw [if_pos h5, stylePiece g2 5 (by omega) _ U.dau]
            cases hE : rc.d.dashedUnder.isEmpty <;> simp [withPen, ulStyleOf, h5, hE]
          · rw [if_neg h5]
            simp [withPen, ulStyleOf, h0, h2', h3, h4, h5]


/-! ## the whole style block -/

theorem opt_piece' {rw} {rc : RenderCfg} {t : Term} (g : Good rw t) (b : Bool) (s std : Bytes)
    (ho : s = [] ∨ Tcell.Spec.TermCaps.stripPadding s = std) (hstd : std ≠ []) (f : Pen → Pen) (heff : ∀ {t : Term}, Good rw t → t.feed std = withPen t (f t.pen)) :
    ∃ p', t.feed (if b then tp rc s else []) = withPen t p' ∧ p' = (if (b && !s.isEmpty) = true then f t.pen else t.pen) :=
  ⟨_, opt_piece g b s std ho hstd f heff, rfl⟩

/-- the hyperlink part of the style block for a style without URL: OSC 8 off — or nothing at all on a terminal without
    hyperlink strings, where no hyperlink is active in the first place (`Quiet`) -/
theorem urlTail_effect {rw} {rc : RenderCfg} (D : DFacts rc.d) {t : Term} (g : Good rw t)
    (q : rc.d.enterUrl = [] → t.linkKnown = true ∧ t.pen.link = none) :
    t.feed (if (!rc.d.enterUrl.isEmpty) = true then tp rc rc.d.exitUrl else []) =
      { t with linkKnown := true, pen := { t.pen with link := none } } := by
  rcases D.url with ⟨h1, h2⟩ | ⟨h1, h2⟩
  · rw [if_pos (by rw [h1]; decide), h2, tp_clean rc urlClose (by decide)]; exact urlClose_effect g
  · rw [if_neg (by rw [h1]; decide)]
    obtain ⟨q1, q2⟩ := q h1
    show t = _
    cases t with | mk cfg grid other cx cy pw pen pk lk ck modes st sv svo last mal blocks =>
    cases pen
    simp only at q1 q2
    subst q1; subst q2; rfl

/-- **`CapsFx.pen` for the class**: the whole `if style != t.curstyle` block of drawCell (tscreen.go:841-910) — `sgr0`,
sendFgBg, bold, underline colour / `smul` / underline style, reverse, blink, dim, italic, strike-through, hyperlink off —
for EVERY style without hyperlink, on every terminal of the class: the emulator's pen becomes exactly `penOf rc s`, pen and
hyperlink state are known, the parser is back in the ground state and nothing else has changed. -/
theorem xl_setPen_effect {rw} {rc : RenderCfg} (hx : CapsOk rc.ti = true) (hd : rc.d = derive rc.ti) (hfit : FitOk rc)
    {t : Term} (g : Good rw t) (q : Quiet rc t) (s : Style) (hurl : s.url = "") :
    t.feed (Render.render rc (.setPen s)) = { t with pen := penOf rc s, penKnown := true, linkKnown := true } := by
  have F := tiFacts hx
  have D := dFacts hx hd
  have U := xl_ucaps hx hd
  have g0 := good_reset g
  obtain ⟨hs1, hs2⟩ := xl_sendFgBg_effect hx hfit g0 ⟨rfl, rfl⟩ s.fg s.bg s.attrs
  obtain ⟨cb, hcb⟩ : ∃ cb, Render.sendFgBg rc s.fg s.bg s.attrs = (cb, effAttr rc s.fg s.attrs) := ⟨_, Prod.ext rfl hs2⟩
  rw [hcb] at hs1
  have e : Render.render rc (.setPen s) =
      tp rc rc.ti.attrOff ++ cb ++ (if bit (effAttr rc s.fg s.attrs) Render.attrBold then tp rc rc.ti.bold else []) ++
      Render.underline rc s.ulStyle s.ulColor ++
      (if bit (effAttr rc s.fg s.attrs) Render.attrReverse then tp rc rc.ti.reverse else []) ++
      (if bit (effAttr rc s.fg s.attrs) Render.attrBlink then tp rc rc.ti.blink else []) ++
      (if bit (effAttr rc s.fg s.attrs) Render.attrDim then tp rc rc.ti.dim else []) ++
      (if bit (effAttr rc s.fg s.attrs) Render.attrItalic then tp rc rc.ti.italic else []) ++
      (if bit (effAttr rc s.fg s.attrs) Render.attrStrike then tp rc rc.ti.strikeThrough else []) ++
      (if (!rc.d.enterUrl.isEmpty) = true then tp rc rc.d.exitUrl else []) := by
    simp only [Render.render, Render.setPen, hcb, hurl,
      bit, ne_eq, not_true_eq_false, if_false, decide_eq_true_eq]
  rw [e]
  simp only [bit_effAttr_bold, bit_effAttr_rev, bit_effAttr_blink, bit_effAttr_dim, bit_effAttr_italic, bit_effAttr_strike]
  simp only [← feed_append]
  rw [xl_attrOff_effect hx g, hs1]
  generalize hp0 : ({ (reset t).pen with fg := fgSel rc s.fg s.bg, bg := bgSel rc s.fg s.bg } : Pen) = p0
  have g1 := good_withPen g0 p0
  obtain ⟨p1, e1, hp1⟩ := opt_piece' (rc := rc) g1 (bit s.attrs Render.attrBold) rc.ti.bold (sgr1 1) F.bold (by decide)
    (fun p => { p with bold := true }) bold_effect
  rw [e1]
  have g2 := good_withPen g1 p1
  have u1 : p1.ul = 0 := by
    rw [hp1]; show (if _ then ({ p0 with bold := true } : Pen) else p0).ul = 0
    rw [← hp0]; split <;> rfl
  have u2 : p1.ulColor = .default := by
    rw [hp1]; show (if _ then ({ p0 with bold := true } : Pen) else p0).ulColor = .default
    rw [← hp0]; split <;> rfl
  obtain ⟨p2, e2, hp2⟩ : ∃ p2, (withPen (withPen (reset t) p0) p1).feed (Render.underline rc s.ulStyle s.ulColor) =
      withPen (withPen (withPen (reset t) p0) p1) p2 ∧ p2 =
      { p1 with ul := ulStyleOf rc s.ulStyle, ulColor := if s.ulStyle = 0 then .default else ulSel rc s.ulColor } :=
    ⟨_, xl_underline_effect U g2 u1 u2 _ _, rfl⟩
  rw [e2]
  have g3 := good_withPen g2 p2
  obtain ⟨p3, e3, hp3⟩ := opt_piece' (rc := rc) g3 (bit s.attrs Render.attrReverse != monoFlip rc s.fg) rc.ti.reverse (sgr1 7)
    F.reverse (by decide) (fun p => { p with reverse := true }) reverse_effect
  rw [e3]
  have g4 := good_withPen g3 p3
  obtain ⟨p4, e4, hp4⟩ := opt_piece' (rc := rc) g4 (bit s.attrs Render.attrBlink) rc.ti.blink (sgr1 5) F.blink
    (by decide) (fun p => { p with blink := true }) blink_effect
  rw [e4]
  have g5 := good_withPen g4 p4
  obtain ⟨p5, e5, hp5⟩ := opt_piece' (rc := rc) g5 (bit s.attrs Render.attrDim) rc.ti.dim (sgr1 2) F.dim
    (by decide) (fun p => { p with dim := true }) dim_effect
  rw [e5]
  have g6 := good_withPen g5 p5
  obtain ⟨p6, e6, hp6⟩ := opt_piece' (rc := rc) g6 (bit s.attrs Render.attrItalic) rc.ti.italic (sgr1 3) F.italic
    (by decide) (fun p => { p with italic := true }) italic_effect
  rw [e6]
  have g7 := good_withPen g6 p6
  obtain ⟨p7, e7, hp7⟩ := opt_piece' (rc := rc) g7 (bit s.attrs Render.attrStrike) rc.ti.strikeThrough (sgr1 9) F.strike
    (by decide) (fun p => { p with strike := true }) strike_effect
  rw [e7]
  simp only [withPen_withPen]
  have g8 : Good rw (withPen (reset t) p7) := good_withPen g0 p7
  have hl : p7.link = t.pen.link := by
    subst hp7; subst hp6; subst hp5; subst hp4; subst hp3; subst hp2; subst hp1; subst hp0
    simp only [ite_bold, ite_reverse, ite_blink, ite_dim, ite_italic, ite_strike]
    rfl
  have ql : rc.d.enterUrl = [] → (withPen (reset t) p7).linkKnown = true ∧ (withPen (reset t) p7).pen.link = none :=
    fun h => ⟨(q.link h).1, hl.trans (q.link h).2⟩
  rw [urlTail_effect D g8 ql]
  subst hp7; subst hp6; subst hp5; subst hp4; subst hp3; subst hp2; subst hp1; subst hp0
  simp only [ite_bold, ite_reverse, ite_blink, ite_dim, ite_italic, ite_strike]
  simp [withPen, reset, penOf, hurl]


/-! ## showCursor -/

def withModes (t : Term) (m : Modes) : Term := { t with modes := m }

theorem good_withModes {rw} {t : Term} (g : Good rw t) {m : Modes} (h : ModesOk t.modes m) : Good rw (withModes t m) :=
  good_of_eq g rfl rfl h rfl

theorem ModesOk.trans {a b c : Modes} (h1 : ModesOk a b) (h2 : ModesOk b c) : ModesOk a c :=
  ⟨h2.font.trans h1.font, h2.g0.trans h1.g0, h2.so.trans h1.so, h2.irm.trans h1.irm, h2.am.trans h1.am⟩

theorem decset25_effect {rw} {t : Term} (g : Good rw t) :
    t.feed [27,91,63,50,53,104] = withModes t { t.modes with cursorVisible := true } := by
  have := decset_effect t g.st 25
  have d : dec 25 = [50, 53] := by decide
  rw [d] at this
  have e : t.feed [27,91,63,50,53,104] = t.decMode 25 true := by simpa [csiSeq] using this
  rw [e]; simp [decMode, withModes]

theorem decset12_effect {rw} {t : Term} (g : Good rw t) :
    t.feed [27,91,63,49,50,104] = withModes t { t.modes with cursorBlink12 := true } := by
  have := decset_effect t g.st 12
  have d : dec 12 = [49, 50] := by decide
  rw [d] at this
  have e : t.feed [27,91,63,49,50,104] = t.decMode 12 true := by simpa [csiSeq] using this
  rw [e]; simp [decMode, withModes]

theorem decrst12_effect {rw} {t : Term} (g : Good rw t) :
    t.feed [27,91,63,49,50,108] = withModes t { t.modes with cursorBlink12 := false } := by
  have := decrst_effect t g.st 12
  have d : dec 12 = [49, 50] := by decide
  rw [d] at this
  have e : t.feed [27,91,63,49,50,108] = t.decMode 12 false := by simpa [csiSeq] using this
  rw [e]; simp [decMode, withModes]

theorem sm34_effect {rw} {t : Term} (g : Good rw t) :
    t.feed [27,91,51,52,104] = withModes t { t.modes with sm34 := true } := by
  have := feed_csi_plain t g.st [51, 52] 0x68 [[some 34]] (by intro b hb; simp at hb; rcases hb with h | h <;> omega) (by omega)
    (by decide)
  simp only [csiSeq, List.cons_append, List.nil_append] at this
  rw [this]; simp [dispatchPlain, flat, eachParam, ansiMode, withModes]

/-- the five `cnorm` forms of the class: the cursor becomes visible; blink (`?12`) / `34` / the linux console cursor setting
    may change, nothing else -/
theorem showForm_effect {rw} {t : Term} (g : Good rw t) (s : Bytes) (hs : s ∈ showForms) :
    ∃ m', t.feed s = withModes t m' ∧ ModesOk t.modes m' ∧ m'.cursorVisible = true ∧ m'.cursorShape = t.modes.cursorShape := by
  simp only [showForms, List.mem_cons, List.not_mem_nil, or_false] at hs
  rcases hs with rfl | rfl | rfl | rfl | rfl
  · exact ⟨_, decset25_effect g, ⟨rfl, rfl, rfl, rfl, rfl⟩, rfl, rfl⟩
  · refine ⟨{ t.modes with cursorBlink12 := false, cursorVisible := true }, ?_, ⟨rfl, rfl, rfl, rfl, rfl⟩, rfl, rfl⟩
    show t.feed ([27,91,63,49,50,108] ++ [27,91,63,50,53,104]) = _
    rw [← feed_append, decrst12_effect g, decset25_effect (good_withModes g (m := { t.modes with cursorBlink12 := false }) ⟨rfl, rfl, rfl, rfl, rfl⟩)]; rfl
  · refine ⟨{ t.modes with sm34 := true, cursorVisible := true }, ?_, ⟨rfl, rfl, rfl, rfl, rfl⟩, rfl, rfl⟩
    show t.feed ([27,91,51,52,104] ++ [27,91,63,50,53,104]) = _
    rw [← feed_append, sm34_effect g, decset25_effect (good_withModes g (m := { t.modes with sm34 := true }) ⟨rfl, rfl, rfl, rfl, rfl⟩)]; rfl
  · refine ⟨{ t.modes with cursorBlink12 := true, cursorVisible := true }, ?_, ⟨rfl, rfl, rfl, rfl, rfl⟩, rfl, rfl⟩
    show t.feed ([27,91,63,49,50,104] ++ [27,91,63,50,53,104]) = _
    rw [← feed_append, decset12_effect g, decset25_effect (good_withModes g (m := { t.modes with cursorBlink12 := true }) ⟨rfl, rfl, rfl, rfl, rfl⟩)]; rfl
  · refine ⟨{ t.modes with cursorVisible := true, linuxCursor := [0] }, ?_, ⟨rfl, rfl, rfl, rfl, rfl⟩, rfl, rfl⟩
    show t.feed ([27,91,63,50,53,104] ++ csiSeq [0x3f, 48 + 0] 0x63) = _
    rw [← feed_append, decset25_effect g,
      linuxCursor_effect (good_withModes g (m := { t.modes with cursorVisible := true }) ⟨rfl, rfl, rfl, rfl, rfl⟩) 0 (by omega)]; rfl

/-- **DECSCUSR** `ESC [ n SP q` for the seven cursor styles tcell has (0 default … 6 steady bar) -/
theorem decscusr_effect {rw} {t : Term} (g : Good rw t) (n : Nat) (hn : n < 7) :
    t.feed (decscusr n) = withModes t { t.modes with cursorShape := n } := by
  have e : decscusr n = csiSeq [48 + n, 32] 0x71 := rfl
  rw [e, feed_csi t g.st _ _ (by intro b hb; simp at hb; rcases hb with h | h <;> omega) (by omega)]
  have hp : parseCsiBody [48 + n, 32] = some { priv := 0, params := [[some n]], inter := [32] } := by
    have : n = 0 ∨ n = 1 ∨ n = 2 ∨ n = 3 ∨ n = 4 ∨ n = 5 ∨ n = 6 := by omega
    rcases this with rfl | rfl | rfl | rfl | rfl | rfl | rfl <;> decide
  have h6 : n ≤ 6 := by omega
  simp [dispatchCsi, hp, flat, arg, h6, withModes]

theorem cursorStylesStd_get (cs : Nat) :
    cursorStylesStd[cs]? = if cs < 7 then some (decscusr cs) else none := by
  have : cs = 0 ∨ cs = 1 ∨ cs = 2 ∨ cs = 3 ∨ cs = 4 ∨ cs = 5 ∨ cs = 6 ∨ 7 ≤ cs := by omega
  rcases this with rfl | rfl | rfl | rfl | rfl | rfl | rfl | h
  all_goals first | rfl | skip
  have : ¬ cs < 7 := by omega
  rw [if_neg this]
  simp [cursorStylesStd]; omega

/-- **`CapsFx.show_` for the class**: showCursor (tscreen.go:977-991) with no cursor-colour request — `cnorm` in any of
the five forms of the class (nothing on a terminal without cursor-visibility strings, where the cursor is always visible), then DECSCUSR for the cursor styles 0…6 when the screen has cursor-style strings (styles ≥ 7
do not exist in tcell; nothing is written for them).  Only `modes` changes: the cursor is visible, the shape is the
requested one (or unchanged when no style string is written); the fields the draw invariant depends on are untouched. -/
theorem xl_show_effect {rw} {rc : RenderCfg} (hx : CapsOk rc.ti = true) (hd : rc.d = derive rc.ti) {t : Term} (g : Good rw t)
    (q : Quiet rc t) (cs cc : Nat) (hv : Color.valid cc = false) (hr : cc ≠ colorReset) :
    ∃ m', t.feed (Render.render rc (.showCursor cs cc)) = { t with modes := m' } ∧ ModesOk t.modes m' ∧
      m'.cursorVisible = true ∧ (cs < 7 → rc.d.cursorStyles ≠ none → m'.cursorShape = cs) ∧
      (7 ≤ cs ∨ rc.d.cursorStyles = none → m'.cursorShape = t.modes.cursorShape) := by
  have U := xl_ucaps hx hd
  have ecol : (if (!rc.d.cursorRGB.isEmpty) = true then
       (if cc = colorReset then tp rc rc.d.cursorFg
        else if Color.valid cc = true then tp rc (parm rc.d.cursorRGB (ints (Render.rgbOf cc))) else [])
     else []) = ([] : Bytes) := by
    simp [hv, hr]
  obtain ⟨m1, e1, mo1, v1, s1⟩ : ∃ m1, t.feed (tp rc rc.ti.showCursor) = withModes t m1 ∧ ModesOk t.modes m1 ∧
      m1.cursorVisible = true ∧ m1.cursorShape = t.modes.cursorShape := by
    rcases (tiFacts hx).vis with h | h
    · rw [tp_strip]; exact showForm_effect g _ h.1
    · rw [h.1, tp_nil]; exact ⟨t.modes, rfl, ModesOk.refl _, q.vis h.2, rfl⟩
  have g1 := good_withModes g mo1
  simp only [Render.render, ecol, List.append_nil]
  rw [← feed_append, e1]
  rcases U.cstyles with hn | hs
  · rw [hn]
    exact ⟨m1, rfl, mo1, v1, fun _ h => absurd rfl h, fun _ => s1⟩
  · rw [hs]
    simp only [cursorStylesStd_get]
    by_cases h7 : cs < 7
    · simp only [if_pos h7, tp_clean rc (decscusr cs) (by
        intro b hb; simp only [decscusr, List.mem_cons, List.not_mem_nil, or_false] at hb
        rcases hb with h | h | h | h | h <;> omega)]
      rw [decscusr_effect g1 cs h7]
      refine ⟨{ m1 with cursorShape := cs }, rfl, mo1.trans ⟨rfl, rfl, rfl, rfl, rfl⟩, v1, fun _ _ => rfl, ?_⟩
      rintro (h | h)
      · omega
      · cases h
    · simp only [if_neg h7]
      refine ⟨m1, rfl, mo1, v1, fun h => absurd h h7, fun _ => s1⟩


/-! ## clearScreen -/

/-- `ESC [ J` (ED 0) with the cursor at home erases every cell -/
theorem ed0_home_effect (t : Term) (hst : t.st = .ground) (hk : t.cursorKnown = true) (hx : t.cx = 0) (hy : t.cy = 0) :
    ∃ G : Grid, t.feed [27, 91, 74] = { t with grid := G } ∧ G.w = t.grid.w ∧ G.h = t.grid.h ∧
      ∀ x y, x < t.grid.w → y < t.grid.h → G.get x y = t.blankCell := by
  have := feed_csi_plain t hst [] 0x4a [[none]] (by simp) (by omega) rfl
  simp only [csiSeq, List.append_nil, List.cons_append, List.nil_append] at this
  refine ⟨(if (t.grid.get 0 0).cont then t.grid.clobber t.blocks 0 0 else t.grid).eraseSel t.blankCell
    (fun x y => decide (0 < y) || (decide (y = 0) && decide (0 ≤ x))), ?_, ?_, ?_, ?_⟩
  · rw [this]
    simp [dispatchPlain, flat, arg, eraseDisplay, hk, hx, hy]
  · simp only [Grid.eraseSel, Grid.build]; split <;> simp
  · simp only [Grid.eraseSel, Grid.build]; split <;> simp
  · intro x y hx' hy'
    simp only [Grid.eraseSel]
    rw [Grid.get_build _ _ _ _ _ (by split <;> simpa using hx') (by split <;> simpa using hy')]
    have : 0 < y ∨ y = 0 := by omega
    rcases this with h | h <;> simp [h]

/-- the three `clear` forms of the class (`ESC [ H ESC [ 2 J`, `ESC [ H ESC [ J`, and FF on a terminal that clears on FF —
    `Config.ffClears`, the Sun console): cursor home, every cell blank with the current background -/
theorem clearForm_effect {rw} {t : Term} (g : Good rw t) (s : Bytes) (hs : s ∈ clearForms) (hff : s = clearFF → t.cfg.ffClears = true) :
    ∃ G : Grid, t.feed s = { t with grid := G, cx := 0, cy := 0, pendingWrap := false, cursorKnown := true } ∧
      G.w = t.grid.w ∧ G.h = t.grid.h ∧ ∀ x y, x < t.grid.w → y < t.grid.h → G.get x y = t.blankCell := by
  simp only [clearForms, List.mem_cons, List.not_mem_nil, or_false] at hs
  rcases hs with rfl | rfl | rfl
  · exact ⟨_, clear_effect t g.st, rfl, rfl, fun x y hx hy => Grid.get_fill _ _ _ _ _ hx hy⟩
  · show ∃ G : Grid, t.feed ([27, 91, 72] ++ [27, 91, 74]) = _ ∧ _
    rw [← feed_append, cup_home_effect t g.st]
    obtain ⟨G, e, hw, hh, hc⟩ := ed0_home_effect
      { t with cx := 0, cy := 0, pendingWrap := false, cursorKnown := true } g.st rfl rfl rfl
    exact ⟨G, e, hw, hh, hc⟩
  · -- FF on a terminal that clears on it
    have e : t.feed [12] = t.clearHome := by
      have : t.feed [12] = if t.cfg.ffClears = true then t.clearHome else t.complain ("c0 " ++ hex2 12) := by
        simp [feedByte, g.st, feedGround, c0]
      rw [this, if_pos (hff rfl)]
    exact ⟨_, e, rfl, rfl, fun x y hx hy => Grid.get_fill _ _ _ _ _ hx hy⟩

/-- **`CapsFx.clear` for the class** — clearScreen (tscreen.go:1027): `sgr0`, hyperlink off, the colours of the style,
`clear`.  Every cell of the emulator grid becomes a known blank carrying the style's background (bce), the cursor is at
home, the pen is the style's colours and known; modes (cursor visibility and shape included) and size are unchanged. -/
theorem xl_clear_effect {rw} {rc : RenderCfg} (hx : CapsOk rc.ti = true) (hd : rc.d = derive rc.ti) (hfit : FitOk rc)
    {t : Term} (g : Good rw t) (q : Quiet rc t) (s : Style) :
    ∃ G : Grid, t.feed (Render.render rc (.clear s)) =
        { t with grid := G, cx := 0, cy := 0, pendingWrap := false, cursorKnown := true, penKnown := true, linkKnown := true,
                 pen := { fg := fgSel rc s.fg s.bg, bg := bgSel rc s.fg s.bg } } ∧
      G.w = t.grid.w ∧ G.h = t.grid.h ∧
      ∀ x y, x < t.grid.w → y < t.grid.h →
        G.get x y = { runes := [], pen := { bg := bgSel rc s.fg s.bg }, garbage := false, stamp := t.blocks } := by
  have F := tiFacts hx
  have D := dFacts hx hd
  have eu : tp rc rc.d.exitUrl = (if (!rc.d.enterUrl.isEmpty) = true then tp rc rc.d.exitUrl else []) := by
    rcases D.url with ⟨h1, h2⟩ | ⟨h1, h2⟩
    · rw [if_pos (by rw [h1]; decide)]
    · rw [if_neg (by rw [h1]; decide), h2, tp_nil]
  simp only [Render.render]
  rw [eu, tp_strip rc rc.ti.clear]
  simp only [← feed_append]
  rw [xl_attrOff_effect hx g, urlTail_effect D (good_reset g) q.link]
  have g1 : Good rw ({ reset t with linkKnown := true, pen := { (reset t).pen with link := none } } : Term) :=
    ⟨g.st, g.utf8, g.font, g.g0, g.so, g.irm, g.mal, g.rw⟩
  rw [(xl_sendFgBg_effect hx hfit g1 ⟨rfl, rfl⟩ s.fg s.bg 0).1]
  have g2 := good_withPen g1 { ({ reset t with linkKnown := true, pen := { (reset t).pen with link := none } } : Term).pen with
    fg := fgSel rc s.fg s.bg, bg := bgSel rc s.fg s.bg }
  obtain ⟨G, e, hw, hh, hc⟩ := clearForm_effect g2 _ F.clear (fun h => q.ff h)
  refine ⟨G, ?_, hw, hh, ?_⟩
  · rw [e]; rfl
  · intro x y hx' hy'; rw [hc x y hx' hy']; rfl


/-! ## `CapsFx` for the class -/

/-- **the hypothesis `CfgB.fx` holds for every terminal description of the class**, whatever the draw configuration (as long as
it knows whether there is a hide-cursor string), the truecolor switch and the colour-fitting function (as long as it returns
palette entries where there is a palette, `FitOk`) -/
theorem xl_capsFx (dc : DrawCfg) {rc : RenderCfg} (hx : CapsOk rc.ti = true) (hd : rc.d = derive rc.ti) (hfit : FitOk rc)
    (hh : dc.hasHide = !rc.ti.hideCursor.isEmpty) : CapsFx dc rc :=
  { goto := fun _ x y g h1 h2 => xl_goto_effect hx g x y h1 h2
    pen := fun _ s g q hs => xl_setPen_effect hx hd hfit g q s hs
    hide := fun _ g h => xl_hide_effect hx g (by intro e; rw [hh, e] at h; cases h)
    hideEq := fun h => by rw [hh] at h; simpa using h
    show_ := fun t cs cc g q hv hr => by
      obtain ⟨m', e, mo, v, sh, _⟩ := xl_show_effect hx hd g q cs cc hv hr
      exact ⟨m', e, mo, v, sh⟩
    clear := fun t s g q => by
      obtain ⟨G, e, hw, hh, _⟩ := xl_clear_effect hx hd hfit g q s
      refine ⟨_, rfl, ?_, ?_, ?_, ?_, ?_, ?_⟩
      · rw [e]; exact ⟨g.st, g.utf8, g.font, g.g0, g.so, g.irm, g.mal, g.rw⟩
      · rw [e]; exact ⟨fun _ => ⟨rfl, rfl⟩, q.vis, q.ff⟩
      · rw [e]; exact hw
      · rw [e]; exact hh
      · rw [e]
      · rw [e] }

end Tcell.LayerB
