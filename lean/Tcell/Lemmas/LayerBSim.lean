/-
Layer B of C01/C13/C09, part 3: the abstraction relation `Rep` between the byte-level reference emulator
(`Spec.Ecma48.Term`) and the abstract terminal of Layer A (`ATerm`), and the per-command simulation lemmas:
feeding the bytes `Render.render rc cmd` to an emulator that represents `a` yields an emulator that represents
`a.apply cmd` — for every terminal description in the class `XtermLike`.
-/
import Tcell.Lemmas.LayerBCaps
import Tcell.Lemmas.LayerBEmu
import Tcell.Lemmas.Draw
namespace Tcell.LayerB
open Tcell Tcell.Spec.Ecma48 Tcell.Spec.Ecma48.Term

/-! ## what a style denotes on a terminal -/

/-- direct colour is in use: the application asked for it and the description has the RGB strings -/
def hasRGB (rc : RenderCfg) : Bool := rc.truecolor && !rc.ti.setFgRGB.isEmpty

def rgbSel (col : Nat) : ColorSel := .rgb (Color.rgb col).1.toNat (Color.rgb col).2.1.toNat (Color.rgb col).2.2.toNat

/-- the colour selection a foreground / background colour value denotes: exact RGB on direct-colour terminals, the
    palette index (nearest palette entry for colours outside the palette) otherwise, default for invalid / reset -/
def colSel (rc : RenderCfg) (col : Nat) : ColorSel :=
  if hasRGB rc && Color.isRGB col then rgbSel col
  else if Color.valid col && decide (rc.ti.colors ≠ 0) then .idx (Render.fitColor rc col % 256)
  else .default

/-- the colours `op` (ResetFgBg) leaves in the pen: the defaults — except on aixterm (green on black) and pcansi (white on
    black), whose `op` sets colours -/
def opSel (rc : RenderCfg) : ColorSel × ColorSel :=
  if rc.ti.resetFgBg = opAix then (.idx 2, .idx 0) else if rc.ti.resetFgBg = opPc then (.idx 7, .idx 0) else (.default, .default)

/-- foreground / background of a style with colours `fg`, `bg`: sendFgBg (tscreen.go:760) writes `op` when either is
    `ColorReset`, then the colour strings for the valid ones — so a colour for which nothing is written shows what `op` left -/
def fgSel (rc : RenderCfg) (fg bg : Nat) : ColorSel :=
  if colSel rc fg = .default ∧ (fg = colorReset ∨ bg = colorReset) then (opSel rc).1 else colSel rc fg
def bgSel (rc : RenderCfg) (fg bg : Nat) : ColorSel :=
  if colSel rc bg = .default ∧ (fg = colorReset ∨ bg = colorReset) then (opSel rc).2 else colSel rc bg

/-- monochrome terminals (`Colors == 0`, tscreen.go:741-758): a valid foreground colour that is nearer to black than to
    white (`fit0` = `FindColor(fg, {black, white})`) is shown by flipping reverse video -/
def monoFlip (rc : RenderCfg) (fg : Nat) : Bool :=
  decide (rc.ti.colors = 0) && Color.valid fg && decide (rc.fit0 fg = Render.colorBlack)

def ulSel (rc : RenderCfg) (uc : Nat) : ColorSel :=
  if rc.d.underColor.isEmpty then .default
  else if uc = colorReset then .default
  else if Color.isRGB uc then rgbSel uc
  else if Color.valid uc then .idx (uc % 256)
  else .default

def ulStyleOf (rc : RenderCfg) (us : Nat) : Nat :=
  if us = 0 then 0
  else if us = 2 ∧ !rc.d.doubleUnder.isEmpty then 2
  else if us = 3 ∧ !rc.d.curlyUnder.isEmpty then 3
  else if us = 4 ∧ !rc.d.dottedUnder.isEmpty then 4
  else if us = 5 ∧ !rc.d.dashedUnder.isEmpty then 5
  else if rc.ti.underline.isEmpty then 0   -- no `smul` (sun, sun-color): nothing is written, nothing is underlined
  else 1

def bit (attrs b : Nat) : Bool := attrs / b % 2 = 1

/-- lossy UTF-8 text of an OSC argument as the emulator decodes it -/
def textOf (bs : Bytes) : String := String.ofList (decodeText true bs)

/-- **the SGR state a tcell `Style` denotes on the terminal `rc`** (attributes the description has no string for are
    not shown; underline follows the underline *style*, as the code does) -/
def penOf (rc : RenderCfg) (s : Style) : Pen :=
  { fg := fgSel rc s.fg s.bg, bg := bgSel rc s.fg s.bg,
    bold := bit s.attrs Render.attrBold && !rc.ti.bold.isEmpty,
    dim := bit s.attrs Render.attrDim && !rc.ti.dim.isEmpty,
    italic := bit s.attrs Render.attrItalic && !rc.ti.italic.isEmpty,
    blink := bit s.attrs Render.attrBlink && !rc.ti.blink.isEmpty,
    reverse := (bit s.attrs Render.attrReverse != monoFlip rc s.fg) && !rc.ti.reverse.isEmpty,
    strike := bit s.attrs Render.attrStrike && !rc.ti.strikeThrough.isEmpty,
    ul := ulStyleOf rc s.ulStyle,
    ulColor := if s.ulStyle = 0 then .default else ulSel rc s.ulColor,
    link := if s.url = "" then none else some (textOf (str s.urlId), textOf (str s.url)) }

/-! ## the abstraction relation -/

/-- an emulator cell represents an abstract cell -/
def CellRep (rc : RenderCfg) (g : GCell) : ACell → Prop
  | .garbage => True
  | .cont => g.cont = true ∧ g.garbage = false
  | .shown b _ st => g.cont = false ∧ g.garbage = false ∧ g.runes.flatMap Utf8.encode = b ∧ g.pen = penOf rc st

/-- the emulator cursor is where the abstract terminal knows it to be; column `w` (just past the last column) is
    the last column with the wrap pending (on auto-margin terminals) -/
def CurRep (t : Term) (x y : Int) : Prop :=
  t.cursorKnown = true ∧ t.cy = y.toNat ∧
  (x < t.grid.w → t.cx = x.toNat ∧ t.pendingWrap = false) ∧
  (x = t.grid.w → t.cx + 1 = t.grid.w ∧ t.pendingWrap = t.modes.autoMargin)

/-- state the library cannot re-establish on a terminal whose description lacks the capability — so it has to hold from the
    start and the environment must not disturb it: no hyperlink is active when the screen has no hyperlink strings
    (tscreen.go:905 writes nothing then); the cursor is visible when there is no cursor-visibility string (`cnorm`/`civis`
    absent: showCursor writes nothing, hideCursor parks the cursor in the bottom-right corner instead, tscreen.go:1037); and the
    terminal is of the kind the description describes as far as FF is concerned -/
structure Quiet (rc : RenderCfg) (t : Term) : Prop where
  link : rc.d.enterUrl = [] → t.linkKnown = true ∧ t.pen.link = none
  vis : rc.ti.hideCursor = [] → t.modes.cursorVisible = true
  /-- a terminal whose `clear` string is FF (form feed) is one that clears the display on FF — the Sun console; the reference
      emulator does so when configured with `ffClears` (a property of the terminal, not a state: no input changes it) -/
  ff : Tcell.Spec.TermCaps.stripPadding rc.ti.clear = [12] → t.cfg.ffClears = true

/-- `Rep dc rc t a`: the byte-level emulator state `t` represents the abstract terminal `a` -/
structure Rep (dc : DrawCfg) (rc : RenderCfg) (t : Term) (a : ATerm) : Prop where
  good : Good dc.rw t
  quiet : Quiet rc t
  w : (t.grid.w : Int) = a.w
  h : (t.grid.h : Int) = a.h
  /-- wherever the abstract terminal claims something about a cell, the emulator grid shows it -/
  cells : ∀ i j : Nat, i < t.grid.w → j < t.grid.h → CellRep rc (t.grid.get i j) (a.grid i j)
  /-- a right half in the emulator grid that the abstract terminal does not know about sits right of a cell it
      claims nothing about (needed for induction: overwriting such a half blanks its left neighbour) -/
  conts : ∀ i j : Nat, (t.grid.get (i + 1) j).cont = true → a.grid ((i : Int) + 1) j = .cont ∨ a.grid i j = .garbage
  cur : ∀ x y : Int, a.cur = some (x, y) → 0 ≤ x → 0 ≤ y → CurRep t x y
  pen : ∀ s, a.pen = some s → t.penKnown = true ∧ t.linkKnown = true ∧ t.pen = penOf rc s
  vis : ∀ b, a.visible = some b → t.modes.cursorVisible = b
  shape : ∀ cs cc, a.shape = some (cs, cc) → cs < 7 → rc.d.cursorStyles ≠ none → t.modes.cursorShape = cs

/-- payloads the draw path produces in a UTF-8 locale: a printable scalar value of table width `width` ∈ {1,2}
    followed by admissible combining runes -/
def PayloadOk (rw : Int → Int) (bytes : List Nat) (width : Int) : Prop :=
  ∃ (m : Int) (comb : List Int), bytes = Utf8.encode m ++ comb.flatMap Utf8.encode ∧ Utf8.validRune m = true ∧ 32 ≤ m ∧ ¬ (127 ≤ m ∧ m ≤ 159) ∧
    rw m = width ∧ (width = 1 ∨ width = 2) ∧ ∀ c ∈ comb, CombOk rw c

/-! ## printing a cell payload -/

theorem encode_ne_nil (m : Int) : Utf8.encode m ≠ [] := by
  unfold Utf8.encode Utf8.encodeNat; split
  · split
    · simp
    · split
      · simp
      · split <;> simp
  · simp

/-- the emulator after a whole cell payload at a known cursor position, in terms of cells -/
theorem feed_payload_narrow {rw} (hrw : RwB rw) {t : Term} (g : Good rw t) (m : Int) (comb : List Int)
    (hv : Utf8.validRune m = true) (h32 : 32 ≤ m) (hc : ¬ (127 ≤ m ∧ m ≤ 159)) (hw : rw m = 1)
    (hcomb : ∀ c ∈ comb, CombOk rw c)
    (hk : t.cursorKnown = true) (hpw : t.pendingWrap = false) (hx : t.cx < t.grid.w) (hy : t.cy < t.grid.h) :
    let t' := t.feed (Utf8.encode m ++ comb.flatMap Utf8.encode)
    Same t t' ∧ t'.cy = t.cy ∧
    t'.cx = (if t.cx + 1 < t.grid.w then t.cx + 1 else t.cx) ∧
    t'.pendingWrap = (if t.cx + 1 < t.grid.w then false else t.modes.autoMargin) ∧
    (∀ i j, ¬ (i = t.cx ∧ j = t.cy) → t'.grid.get i j = (t.grid.clobber t.blocks t.cx t.cy).get i j) ∧
    (t'.grid.get t.cx t.cy).runes = m :: comb ∧ (t'.grid.get t.cx t.cy).pen = t.pen ∧
    (t'.grid.get t.cx t.cy).cont = false ∧ (t'.grid.get t.cx t.cy).garbage = !(t.penKnown && t.linkKnown) := by
  intro t'
  have e1 : t.feed (Utf8.encode m) = t.putNarrow m := by
    rw [feed_encode g m hv h32 hc, widthOf_eq g, hw]; simp [putGlyph]
  have e2 := putNarrow_eq g m hk hpw
  generalize hT1 : t.putNarrow m = t1 at e1 e2
  have s1 : Same t t1 := by
    rw [e2]; refine ⟨rfl, rfl, rfl, rfl, rfl, rfl, rfl, rfl, rfl, ?_, ?_⟩ <;> simp
  have hg1 : ∀ i j, t1.grid.get i j = if i = t.cx ∧ j = t.cy then t.glyphCell m else (t.grid.clobber t.blocks t.cx t.cy).get i j := by
    intro i j; rw [e2]; simp only [Grid.get_set, clobber_w, clobber_h]
    by_cases hij : i = t.cx ∧ j = t.cy
    · simp [hij, hx, hy]
    · have : ¬ (i = t.cx ∧ j = t.cy ∧ t.cx < t.grid.w ∧ t.cy < t.grid.h) := fun h => hij ⟨h.1, h.2.1⟩
      simp [hij, this]
  have r := feed_marks hrw t.cx t.cy comb t1 (g.of_same s1) (by rw [s1.cursorKnown]; exact hk)
    (by rw [e2]) (by rw [s1.w]; exact hx) (by rw [s1.h]; exact hy) (by rw [hg1]; simp [glyphCell]) hcomb
  obtain ⟨r1, r2, r3, r4, r5, r6, r7, r8, r9⟩ := r
  have et' : t' = t1.feed (comb.flatMap Utf8.encode) := by
    show t.feed _ = _; rw [← feed_append, e1]
  rw [et']
  refine ⟨s1.trans r1, by rw [r3, e2], by rw [r2, e2], by rw [r4, e2], ?_, ?_, ?_, ?_, ?_⟩
  · intro i j hij; rw [r5 i j hij, hg1, if_neg hij]
  · rw [r6, hg1]; simp [glyphCell]
  · rw [r7, hg1]; simp [glyphCell]
  · rw [r8, hg1]; simp [glyphCell]
  · rw [r9, hg1]; simp [glyphCell]

/-- cells of the grid after a wide glyph has been placed at (x,y) -/
theorem wide_grid_get (g : Grid) (s x y : Nat) (c1 c2 : GCell) (hx : x + 1 < g.w) (hy : y < g.h) (i j : Nat) :
    ((((g.clobber s x y).set x y c1).clobber s (x + 1) y).set (x + 1) y c2).get i j =
      if i = x + 1 ∧ j = y then c2
      else if i = x ∧ j = y then (if c1.cont = true ∧ False then c1 else c1)
      else if j = y ∧ i = x + 2 ∧ (g.get (x + 2) y).cont = true then Grid.halfBlank (g.get (x + 2) y) s
      else (g.clobber s x y).get i j := by
  have hc1 : (((g.clobber s x y).set x y c1).get (x + 1) y).cont = false := by
    rw [Grid.get_set_other _ _ _ _ _ _ (by omega), get_clobber]
    by_cases h : (g.get (x + 1) y).cont = true
    · have : ¬ (x + 1 + 1 = x) := by omega
      simp [h, this, Grid.halfBlank]
    · have : ¬ (x + 1 + 1 = x) := by omega
      simp [this, h]
  have hc2 : ((g.clobber s x y).set x y c1).get (x + 1 + 1) y = g.get (x + 2) y := by
    rw [Grid.get_set_other _ _ _ _ _ _ (by omega), get_clobber]
    have a1 : ¬ (x + 1 + 1 + 1 = x) := by omega
    have a2 : ¬ (x + 1 + 1 = x + 1) := by omega
    simp [a1, a2]
  rw [Grid.get_set]
  simp only [Grid.set_w, Grid.set_h, clobber_w, clobber_h]
  by_cases h1 : i = x + 1 ∧ j = y
  · simp [h1, hx, hy]
  · have n1 : ¬ (i = x + 1 ∧ j = y ∧ x + 1 < g.w ∧ y < g.h) := fun h => h1 ⟨h.1, h.2.1⟩
    rw [if_neg n1, if_neg h1, get_clobber, hc1, hc2]
    simp only [Bool.false_eq_true, and_false, if_false, and_self]
    by_cases h2 : i = x ∧ j = y
    · obtain ⟨rfl, rfl⟩ := h2
      have : ¬ (i = i + 1 + 1) := by omega
      have hxx : i < g.w := by omega
      simp [this, Grid.get_set, hxx, hy]
    · rw [if_neg h2]
      by_cases h3 : j = y ∧ i = x + 2 ∧ (g.get (x + 2) y).cont = true
      · obtain ⟨rfl, rfl, h3⟩ := h3
        have e : ((g.clobber s x j).set x j c1).get (x + 2) j = g.get (x + 2) j := hc2
        simp [h3, e]
      · have : ¬ (j = y ∧ i = x + 1 + 1 ∧ (g.get (x + 2) y).cont = true) := fun h => h3 ⟨h.1, by omega, h.2.2⟩
        rw [if_neg this, if_neg h3, Grid.get_set_other _ _ _ _ _ _ h2]

theorem feed_payload_wide {rw} (hrw : RwB rw) {t : Term} (g : Good rw t) (m : Int) (comb : List Int)
    (hv : Utf8.validRune m = true) (h32 : 32 ≤ m) (hc : ¬ (127 ≤ m ∧ m ≤ 159)) (hw : rw m = 2)
    (hcomb : ∀ c ∈ comb, CombOk rw c)
    (hk : t.cursorKnown = true) (hpw : t.pendingWrap = false) (hx : t.cx + 2 ≤ t.grid.w) (hy : t.cy < t.grid.h) :
    let t' := t.feed (Utf8.encode m ++ comb.flatMap Utf8.encode)
    Same t t' ∧ t'.cy = t.cy ∧
    t'.cx = (if t.cx + 2 < t.grid.w then t.cx + 2 else t.cx + 1) ∧
    t'.pendingWrap = (if t.cx + 2 < t.grid.w then false else t.modes.autoMargin) ∧
    (∀ i j, ¬ (i = t.cx ∧ j = t.cy) → t'.grid.get i j =
      if i = t.cx + 1 ∧ j = t.cy then { t.glyphCell m with runes := [], cont := true }
      else if j = t.cy ∧ i = t.cx + 2 ∧ (t.grid.get (t.cx + 2) t.cy).cont = true then
        Grid.halfBlank (t.grid.get (t.cx + 2) t.cy) t.blocks
      else (t.grid.clobber t.blocks t.cx t.cy).get i j) ∧
    (t'.grid.get t.cx t.cy).runes = m :: comb ∧ (t'.grid.get t.cx t.cy).pen = t.pen ∧
    (t'.grid.get t.cx t.cy).cont = false ∧ (t'.grid.get t.cx t.cy).garbage = !(t.penKnown && t.linkKnown) := by
  intro t'
  have e1 : t.feed (Utf8.encode m) = t.putWide m := by
    rw [feed_encode g m hv h32 hc, widthOf_eq g, hw]; simp [putGlyph]
  have e2 := putWide_eq g m hk hpw hx
  generalize hT1 : t.putWide m = t1 at e1 e2
  have s1 : Same t t1 := by
    rw [e2]; refine ⟨rfl, rfl, rfl, rfl, rfl, rfl, rfl, rfl, rfl, ?_, ?_⟩ <;> simp
  have hg1 : ∀ i j, t1.grid.get i j =
      if i = t.cx + 1 ∧ j = t.cy then { t.glyphCell m with runes := [], cont := true }
      else if i = t.cx ∧ j = t.cy then t.glyphCell m
      else if j = t.cy ∧ i = t.cx + 2 ∧ (t.grid.get (t.cx + 2) t.cy).cont = true then
        Grid.halfBlank (t.grid.get (t.cx + 2) t.cy) t.blocks
      else (t.grid.clobber t.blocks t.cx t.cy).get i j := by
    intro i j; rw [e2]
    show ((((t.grid.clobber t.blocks t.cx t.cy).set t.cx t.cy (t.glyphCell m)).clobber t.blocks (t.cx + 1) t.cy).set
      (t.cx + 1) t.cy _).get i j = _
    rw [wide_grid_get _ _ _ _ _ _ (by omega) hy]
    simp
  have hxx : t.cx < t.grid.w := by omega
  have r := feed_marks hrw t.cx t.cy comb t1 (g.of_same s1) (by rw [s1.cursorKnown]; exact hk)
    (by rw [e2]) (by rw [s1.w]; exact hxx) (by rw [s1.h]; exact hy)
    (by rw [hg1]; have : ¬ (t.cx = t.cx + 1) := by omega
        simp [this, glyphCell]) hcomb
  obtain ⟨r1, r2, r3, r4, r5, r6, r7, r8, r9⟩ := r
  have et' : t' = t1.feed (comb.flatMap Utf8.encode) := by
    show t.feed _ = _; rw [← feed_append, e1]
  rw [et']
  have hself : t1.grid.get t.cx t.cy = t.glyphCell m := by
    rw [hg1]; have : ¬ (t.cx = t.cx + 1) := by omega
    simp [this]
  refine ⟨s1.trans r1, by rw [r3, e2], by rw [r2, e2], by rw [r4, e2], ?_, ?_, ?_, ?_, ?_⟩
  · intro i j hij; rw [r5 i j hij, hg1]
    by_cases h1 : i = t.cx + 1 ∧ j = t.cy
    · simp [h1]
    · simp [h1, hij]
  · rw [r6, hself]; simp [glyphCell]
  · rw [r7, hself]; simp [glyphCell]
  · rw [r8, hself]; simp [glyphCell]
  · rw [r9, hself]; simp [glyphCell]

/-! ## the abstract terminal's `putAt` at natural coordinates -/

theorem putAt_narrow_nat (a : ATerm) (cx cy i j : Nat) (b : List Nat) (st : Style) :
    (a.putAt cx cy b 1 st).grid i j =
      if i = cx ∧ j = cy then .shown b false st
      else if i = cx + 1 ∧ j = cy ∧ a.grid ((cx : Int) + 1) cy = .cont then .garbage
      else if i + 1 = cx ∧ j = cy ∧ a.grid cx cy = .cont then .garbage
      else a.grid i j := by
  rw [ATerm.putAt_grid]
  have n1 : ¬ ((1 : Int) > 1) := by omega
  simp only [n1, and_false, false_and, if_false, decide_false]
  by_cases h0 : i = cx ∧ j = cy
  · obtain ⟨rfl, rfl⟩ := h0; simp
  · have h0' : ¬ ((i : Int) = cx ∧ (j : Int) = cy) := fun h => h0 ⟨by omega, by omega⟩
    rw [if_neg h0', if_neg h0]
    by_cases h1 : i = cx + 1 ∧ j = cy ∧ a.grid ((cx : Int) + 1) cy = .cont
    · have : (i : Int) = (cx : Int) + 1 ∧ (j : Int) = cy ∧ (1 : Int) ≤ 1 ∧ a.grid ((cx : Int) + 1) cy = .cont :=
        ⟨by omega, by omega, by omega, h1.2.2⟩
      rw [if_pos this, if_pos h1]
    · have : ¬ ((i : Int) = (cx : Int) + 1 ∧ (j : Int) = cy ∧ (1 : Int) ≤ 1 ∧ a.grid ((cx : Int) + 1) cy = .cont) :=
        fun h => h1 ⟨by omega, by omega, h.2.2.2⟩
      rw [if_neg this, if_neg h1]
      by_cases h2 : i + 1 = cx ∧ j = cy ∧ a.grid cx cy = .cont
      · have : (i : Int) = (cx : Int) - 1 ∧ (j : Int) = cy ∧ a.grid cx cy = .cont := ⟨by omega, by omega, h2.2.2⟩
        rw [if_pos this, if_pos h2]
      · have : ¬ ((i : Int) = (cx : Int) - 1 ∧ (j : Int) = cy ∧ a.grid cx cy = .cont) :=
          fun h => h2 ⟨by omega, by omega, h.2.2⟩
        rw [if_neg this, if_neg h2]

theorem putAt_wide_nat (a : ATerm) (cx cy i j : Nat) (b : List Nat) (st : Style) :
    (a.putAt cx cy b 2 st).grid i j =
      if i = cx + 1 ∧ j = cy then .cont
      else if i = cx ∧ j = cy then .shown b true st
      else if i = cx + 2 ∧ j = cy ∧ a.grid ((cx : Int) + 2) cy = .cont then .garbage
      else if i + 1 = cx ∧ j = cy ∧ a.grid cx cy = .cont then .garbage
      else a.grid i j := by
  rw [ATerm.putAt_grid]
  have n1 : ((2 : Int) > 1) := by omega
  have n2 : ¬ ((2 : Int) ≤ 1) := by omega
  simp only [n1, n2, and_true, and_false, false_and, if_false, decide_true, true_and]
  by_cases h0 : i = cx + 1 ∧ j = cy
  · have : (i : Int) = (cx : Int) + 1 ∧ (j : Int) = cy := ⟨by omega, by omega⟩
    rw [if_pos this, if_pos h0]
  · have : ¬ ((i : Int) = (cx : Int) + 1 ∧ (j : Int) = cy) := fun h => h0 ⟨by omega, by omega⟩
    rw [if_neg this, if_neg h0]
    by_cases h1 : i = cx ∧ j = cy
    · obtain ⟨rfl, rfl⟩ := h1; simp
    · have : ¬ ((i : Int) = cx ∧ (j : Int) = cy) := fun h => h1 ⟨by omega, by omega⟩
      rw [if_neg this, if_neg h1]
      by_cases h2 : i = cx + 2 ∧ j = cy ∧ a.grid ((cx : Int) + 2) cy = .cont
      · have : (i : Int) = (cx : Int) + 2 ∧ (j : Int) = cy ∧ a.grid ((cx : Int) + 2) cy = .cont := ⟨by omega, by omega, h2.2.2⟩
        rw [if_pos this, if_pos h2]
      · have : ¬ ((i : Int) = (cx : Int) + 2 ∧ (j : Int) = cy ∧ a.grid ((cx : Int) + 2) cy = .cont) :=
          fun h => h2 ⟨by omega, by omega, h.2.2⟩
        rw [if_neg this, if_neg h2]
        by_cases h3 : i + 1 = cx ∧ j = cy ∧ a.grid cx cy = .cont
        · have : (i : Int) = (cx : Int) - 1 ∧ (j : Int) = cy ∧ a.grid cx cy = .cont := ⟨by omega, by omega, h3.2.2⟩
          rw [if_pos this, if_pos h3]
        · have : ¬ ((i : Int) = (cx : Int) - 1 ∧ (j : Int) = cy ∧ a.grid cx cy = .cont) :=
            fun h => h3 ⟨by omega, by omega, h.2.2⟩
          rw [if_neg this, if_neg h3]

theorem cellRep_cont_of {rc : RenderCfg} {g : GCell} {c : ACell} (h : CellRep rc g c) (hc : g.cont = true) :
    c = .cont ∨ c = .garbage := by
  cases c with
  | garbage => right; rfl
  | cont => left; rfl
  | shown b w st => simp [CellRep, hc] at h

theorem cellRep_halfBlank {rc : RenderCfg} (g : GCell) (s : Nat) : CellRep rc (Grid.halfBlank g s) .garbage := trivial

/-! ## simulation: cell payload -/

theorem rep_transfer {dc : DrawCfg} {rc : RenderCfg} {t t' : Term} {a a' : ATerm} (R : Rep dc rc t a) (s : Same t t')
    (hw : a'.w = a.w) (hh : a'.h = a.h) (hpen : a'.pen = a.pen) (hvis : a'.visible = a.visible) (hshape : a'.shape = a.shape)
    (cells : ∀ i j : Nat, i < t'.grid.w → j < t'.grid.h → CellRep rc (t'.grid.get i j) (a'.grid i j))
    (conts : ∀ i j : Nat, (t'.grid.get (i + 1) j).cont = true → a'.grid ((i : Int) + 1) j = .cont ∨ a'.grid i j = .garbage)
    (cur : ∀ x y : Int, a'.cur = some (x, y) → 0 ≤ x → 0 ≤ y → CurRep t' x y) : Rep dc rc t' a' :=
  { good := R.good.of_same s,
    quiet := ⟨fun h => by rw [s.linkKnown, s.pen]; exact R.quiet.link h, fun h => by rw [s.modes]; exact R.quiet.vis h,
              fun h => by rw [s.cfg]; exact R.quiet.ff h⟩,
    w := by rw [s.w, hw]; exact R.w, h := by rw [s.h, hh]; exact R.h, cells := cells, conts := conts,
    cur := cur,
    pen := by intro st h; rw [hpen] at h; rw [s.penKnown, s.linkKnown, s.pen]; exact R.pen st h,
    vis := by intro b h; rw [hvis] at h; rw [s.modes]; exact R.vis b h,
    shape := by intro cs cc h h7 hn; rw [hshape] at h; rw [s.modes]; exact R.shape cs cc h h7 hn }

theorem sim_put_narrow {dc : DrawCfg} {rc : RenderCfg} (hrw : RwB dc.rw) {t : Term} {a : ATerm} (R : Rep dc rc t a)
    (m : Int) (comb : List Int) (st : Style) (x y : Int)
    (hv : Utf8.validRune m = true) (h32 : 32 ≤ m) (hc : ¬ (127 ≤ m ∧ m ≤ 159)) (hw : dc.rw m = 1)
    (hcomb : ∀ c ∈ comb, CombOk dc.rw c)
    (hcur : a.cur = some (x, y)) (hpen : a.pen = some st) (hin : a.inGrid x y) :
    Rep dc rc (t.feed (Utf8.encode m ++ comb.flatMap Utf8.encode))
      (a.putAt x y (Utf8.encode m ++ comb.flatMap Utf8.encode) 1 st) := by
  obtain ⟨hx0, hxw, hy0, hyh⟩ := hin
  have C := R.cur x y hcur hx0 hy0
  obtain ⟨ck, ccy, c1, _⟩ := C
  have hxw' : x < (t.grid.w : Int) := by rw [R.w]; exact hxw
  obtain ⟨ccx, cpw⟩ := c1 hxw'
  have ex : x = (t.cx : Int) := by omega
  have ey : y = (t.cy : Int) := by omega
  have hxn : t.cx < t.grid.w := by omega
  have hyn : t.cy < t.grid.h := by have := R.h; omega
  subst ex; subst ey
  have P := feed_payload_narrow hrw R.good m comb hv h32 hc hw hcomb ck cpw hxn hyn
  generalize t.feed (Utf8.encode m ++ comb.flatMap Utf8.encode) = t' at P ⊢
  generalize hb : Utf8.encode m ++ comb.flatMap Utf8.encode = bytes
  obtain ⟨ps, pcy, pcx, ppw, pget, pr, pp, pc, pg⟩ := P
  obtain ⟨pk, lk, pe⟩ := R.pen st hpen
  have self_cont : (t'.grid.get t.cx t.cy).cont = false := pc
  apply rep_transfer R ps (by simp) (by simp) (by simp) (by simp) (by simp)
  · -- cells
    intro i j hi hj
    rw [ps.w] at hi; rw [ps.h] at hj
    rw [putAt_narrow_nat]
    by_cases h0 : i = t.cx ∧ j = t.cy
    · obtain ⟨rfl, rfl⟩ := h0
      simp only [and_self, if_true, CellRep]
      refine ⟨pc, by rw [pg, pk, lk]; rfl, ?_, by rw [pp, pe]⟩
      rw [pr, ← hb]; simp
    · rw [if_neg h0, pget i j h0, get_clobber]
      have old := R.cells i j hi hj
      by_cases h1 : j = t.cy ∧ i + 1 = t.cx ∧ (t.grid.get t.cx t.cy).cont = true
      · rw [if_pos h1]
        -- the left half of a wide glyph whose right half is overwritten
        have hne : ¬ (i = t.cx + 1 ∧ j = t.cy ∧ a.grid ((t.cx : Int) + 1) t.cy = .cont) := fun h => by omega
        rw [if_neg hne]
        by_cases h2 : i + 1 = t.cx ∧ j = t.cy ∧ a.grid t.cx t.cy = .cont
        · rw [if_pos h2]; trivial
        · rw [if_neg h2]
          have hc' := R.conts i j (by rw [h1.2.1, h1.1]; exact h1.2.2)
          rcases hc' with hc' | hc'
          · exfalso; apply h2; refine ⟨h1.2.1, h1.1, ?_⟩
            have : ((i : Int) + 1) = (t.cx : Int) := by omega
            rw [this, h1.1] at hc'; exact hc'
          · rw [hc']; trivial
      · rw [if_neg h1]
        by_cases h2 : j = t.cy ∧ i = t.cx + 1 ∧ (t.grid.get (t.cx + 1) t.cy).cont = true
        · rw [if_pos h2]
          have hcell := R.cells (t.cx + 1) t.cy (by omega) hyn
          have := cellRep_cont_of hcell h2.2.2
          obtain ⟨rfl, rfl, _⟩ := h2
          have e : ((t.cx + 1 : Nat) : Int) = (t.cx : Int) + 1 := by omega
          rw [e] at this
          rcases this with h | h
          · simp [h]; trivial
          · have n2 : ¬ (t.cx + 1 + 1 = t.cx) := by omega
            simp [h, n2, e]; trivial
        · rw [if_neg h2]
          split
          · trivial
          · split
            · trivial
            · exact old
  · -- conts
    intro i j hcj
    have hne0 : ¬ (i + 1 = t.cx ∧ j = t.cy) := by
      intro h; rw [h.1, h.2, self_cont] at hcj; simp at hcj
    rw [pget (i + 1) j hne0, get_clobber] at hcj
    have b1 : ¬ (j = t.cy ∧ i + 1 + 1 = t.cx ∧ (t.grid.get t.cx t.cy).cont = true) := by
      intro h; rw [if_pos h] at hcj; simp [Grid.halfBlank] at hcj
    rw [if_neg b1] at hcj
    have b2 : ¬ (j = t.cy ∧ i + 1 = t.cx + 1 ∧ (t.grid.get (t.cx + 1) t.cy).cont = true) := by
      intro h; rw [if_pos h] at hcj; simp [Grid.halfBlank] at hcj
    rw [if_neg b2] at hcj
    have old := R.conts i j hcj
    have e1 : ((i : Int) + 1) = ((i + 1 : Nat) : Int) := by omega
    rw [e1, putAt_narrow_nat, putAt_narrow_nat]
    rw [if_neg hne0]
    have c1' : ¬ (i + 1 = t.cx + 1 ∧ j = t.cy ∧ a.grid ((t.cx : Int) + 1) t.cy = .cont) := by
      intro h
      have hi : i = t.cx := by omega
      apply b2; refine ⟨h.2.1, h.1, ?_⟩
      rw [← hi, ← h.2.1]; exact hcj
    rw [if_neg c1']
    have c2' : ¬ (i + 1 + 1 = t.cx ∧ j = t.cy ∧ a.grid t.cx t.cy = .cont) := by
      intro h
      apply b1; refine ⟨h.2.1, h.1, ?_⟩
      have := R.cells t.cx t.cy hxn hyn
      rw [h.2.2] at this; exact this.1
    rw [if_neg c2']
    rcases old with old | old
    · left; rw [← e1]; exact old
    · right
      have n0 : ¬ (i = t.cx ∧ j = t.cy) := by
        intro h; apply b2; refine ⟨h.2, by omega, ?_⟩
        rw [← h.1, ← h.2]; exact hcj
      rw [if_neg n0]
      split
      · rfl
      · split
        · rfl
        · exact old
  · -- cursor
    intro x' y' hc' hx' hy'
    simp only [ATerm.putAt_cur, Option.some.injEq, Prod.mk.injEq] at hc'
    obtain ⟨rfl, rfl⟩ := hc'
    refine ⟨by rw [ps.cursorKnown]; exact ck, by rw [pcy]; omega, ?_, ?_⟩
    · intro hlt; rw [ps.w] at hlt
      have : t.cx + 1 < t.grid.w := by omega
      rw [pcx, ppw, if_pos this, if_pos this]; exact ⟨by omega, rfl⟩
    · intro heq; rw [ps.w] at heq
      have : ¬ (t.cx + 1 < t.grid.w) := by omega
      rw [pcx, ppw, if_neg this, if_neg this, ps.w, ps.modes]; exact ⟨by omega, rfl⟩

theorem sim_put_wide {dc : DrawCfg} {rc : RenderCfg} (hrw : RwB dc.rw) {t : Term} {a : ATerm} (R : Rep dc rc t a)
    (m : Int) (comb : List Int) (st : Style) (x y : Int)
    (hv : Utf8.validRune m = true) (h32 : 32 ≤ m) (hc : ¬ (127 ≤ m ∧ m ≤ 159)) (hw : dc.rw m = 2)
    (hcomb : ∀ c ∈ comb, CombOk dc.rw c)
    (hcur : a.cur = some (x, y)) (hpen : a.pen = some st) (hin : a.inGrid x y) (hfit : x + 2 ≤ a.w) :
    Rep dc rc (t.feed (Utf8.encode m ++ comb.flatMap Utf8.encode))
      (a.putAt x y (Utf8.encode m ++ comb.flatMap Utf8.encode) 2 st) := by
  obtain ⟨hx0, hxw, hy0, hyh⟩ := hin
  have C := R.cur x y hcur hx0 hy0
  obtain ⟨ck, ccy, c1, _⟩ := C
  have hxw' : x < (t.grid.w : Int) := by rw [R.w]; exact hxw
  obtain ⟨ccx, cpw⟩ := c1 hxw'
  have ex : x = (t.cx : Int) := by omega
  have ey : y = (t.cy : Int) := by omega
  have hxn : t.cx + 2 ≤ t.grid.w := by have := R.w; omega
  have hyn : t.cy < t.grid.h := by have := R.h; omega
  subst ex; subst ey
  have P := feed_payload_wide hrw R.good m comb hv h32 hc hw hcomb ck cpw hxn hyn
  generalize t.feed (Utf8.encode m ++ comb.flatMap Utf8.encode) = t' at P ⊢
  generalize hb : Utf8.encode m ++ comb.flatMap Utf8.encode = bytes
  obtain ⟨ps, pcy, pcx, ppw, pget, pr, pp, pc, pg⟩ := P
  obtain ⟨pk, lk, pe⟩ := R.pen st hpen
  have e2 : ((t.cx : Int) + 2) = ((t.cx + 2 : Nat) : Int) := by omega
  apply rep_transfer R ps (by simp) (by simp) (by simp) (by simp) (by simp)
  · -- cells
    intro i j hi hj
    rw [ps.w] at hi; rw [ps.h] at hj
    rw [putAt_wide_nat]
    by_cases h0 : i = t.cx ∧ j = t.cy
    · obtain ⟨rfl, rfl⟩ := h0
      have : ¬ (t.cx = t.cx + 1) := by omega
      simp only [this, false_and, if_false, and_self, if_true, CellRep]
      refine ⟨pc, by rw [pg, pk, lk]; rfl, ?_, by rw [pp, pe]⟩
      rw [pr, ← hb]; simp
    · rw [pget i j h0]
      by_cases hA : i = t.cx + 1 ∧ j = t.cy
      · rw [if_pos hA, if_pos hA]
        exact ⟨rfl, by simp [glyphCell, pk, lk]⟩
      · rw [if_neg hA, if_neg hA, if_neg h0]
        have old := R.cells i j hi hj
        by_cases hB : j = t.cy ∧ i = t.cx + 2 ∧ (t.grid.get (t.cx + 2) t.cy).cont = true
        · rw [if_pos hB]
          obtain ⟨rfl, rfl, hB⟩ := hB
          have := cellRep_cont_of old hB
          rw [← e2] at this
          have n2 : ¬ (t.cx + 2 + 1 = t.cx) := by omega
          rcases this with h | h
          · simp [h]; trivial
          · simp [h, n2, ← e2]; trivial
        · rw [if_neg hB, get_clobber]
          by_cases h1 : j = t.cy ∧ i + 1 = t.cx ∧ (t.grid.get t.cx t.cy).cont = true
          · rw [if_pos h1]
            have hne : ¬ (i = t.cx + 2 ∧ j = t.cy ∧ a.grid ((t.cx : Int) + 2) t.cy = .cont) := fun h => by omega
            rw [if_neg hne]
            by_cases h2 : i + 1 = t.cx ∧ j = t.cy ∧ a.grid t.cx t.cy = .cont
            · rw [if_pos h2]; trivial
            · rw [if_neg h2]
              have hc' := R.conts i j (by rw [h1.2.1, h1.1]; exact h1.2.2)
              rcases hc' with hc' | hc'
              · exfalso; apply h2; refine ⟨h1.2.1, h1.1, ?_⟩
                have : ((i : Int) + 1) = (t.cx : Int) := by omega
                rw [this, h1.1] at hc'; exact hc'
              · rw [hc']; trivial
          · rw [if_neg h1]
            have h2 : ¬ (j = t.cy ∧ i = t.cx + 1 ∧ (t.grid.get (t.cx + 1) t.cy).cont = true) := fun h => hA ⟨h.2.1, h.1⟩
            rw [if_neg h2]
            split
            · trivial
            · split
              · trivial
              · exact old
  · -- conts
    intro i j hcj
    have e1 : ((i : Int) + 1) = ((i + 1 : Nat) : Int) := by omega
    rw [e1, putAt_wide_nat, putAt_wide_nat]
    by_cases hA : i + 1 = t.cx + 1 ∧ j = t.cy
    · left; rw [if_pos hA]
    · rw [if_neg hA]
      have hne0 : ¬ (i + 1 = t.cx ∧ j = t.cy) := by
        intro h; rw [h.1, h.2, pc] at hcj; simp at hcj
      rw [if_neg hne0]
      rw [pget (i + 1) j hne0, if_neg hA] at hcj
      have bB : ¬ (j = t.cy ∧ i + 1 = t.cx + 2 ∧ (t.grid.get (t.cx + 2) t.cy).cont = true) := by
        intro h; rw [if_pos h] at hcj; simp [Grid.halfBlank] at hcj
      rw [if_neg bB, get_clobber] at hcj
      have b1 : ¬ (j = t.cy ∧ i + 1 + 1 = t.cx ∧ (t.grid.get t.cx t.cy).cont = true) := by
        intro h; rw [if_pos h] at hcj; simp [Grid.halfBlank] at hcj
      rw [if_neg b1] at hcj
      have b2 : ¬ (j = t.cy ∧ i + 1 = t.cx + 1 ∧ (t.grid.get (t.cx + 1) t.cy).cont = true) := fun h => hA ⟨h.2.1, h.1⟩
      rw [if_neg b2] at hcj
      have old := R.conts i j hcj
      have c1' : ¬ (i + 1 = t.cx + 2 ∧ j = t.cy ∧ a.grid ((t.cx : Int) + 2) t.cy = .cont) := by
        intro h
        apply bB; refine ⟨h.2.1, h.1, ?_⟩
        rw [← h.1, ← h.2.1]; exact hcj
      rw [if_neg c1']
      have c2' : ¬ (i + 1 + 1 = t.cx ∧ j = t.cy ∧ a.grid t.cx t.cy = .cont) := by
        intro h
        apply b1; refine ⟨h.2.1, h.1, ?_⟩
        have := R.cells t.cx t.cy (by omega) hyn
        rw [h.2.2] at this; exact this.1
      rw [if_neg c2']
      rcases old with old | old
      · left; rw [← e1]; exact old
      · right
        have nA : ¬ (i = t.cx + 1 ∧ j = t.cy) := by
          intro h; apply bB; refine ⟨h.2, by omega, ?_⟩
          have : t.cx + 2 = i + 1 := by omega
          rw [this, ← h.2]; exact hcj
        rw [if_neg nA]
        have n0 : ¬ (i = t.cx ∧ j = t.cy) := fun h => hA ⟨by omega, h.2⟩
        rw [if_neg n0]
        split
        · rfl
        · split
          · rfl
          · exact old
  · -- cursor
    intro x' y' hc' hx' hy'
    simp only [ATerm.putAt_cur, Option.some.injEq, Prod.mk.injEq] at hc'
    obtain ⟨rfl, rfl⟩ := hc'
    refine ⟨by rw [ps.cursorKnown]; exact ck, by rw [pcy]; omega, ?_, ?_⟩
    · intro hlt; rw [ps.w] at hlt
      have : t.cx + 2 < t.grid.w := by omega
      rw [pcx, ppw, if_pos this, if_pos this]; exact ⟨by omega, rfl⟩
    · intro heq; rw [ps.w] at heq
      have : ¬ (t.cx + 2 < t.grid.w) := by omega
      rw [pcx, ppw, if_neg this, if_neg this, ps.w, ps.modes]; exact ⟨by omega, rfl⟩

end Tcell.LayerB
