/-
Layer B of C01/C13/C09, part 1: the capability strings of the draw path in their standard ECMA-48 forms.

* `XtermLike ti` — decidable class of terminal descriptions whose draw-path capabilities are, once TPuts has removed
  their padding (`tp_strip`), one of a few standard ECMA-48 forms — or absent where the library tolerates it;
  `Tcell.Props.C01B.db_layerB` lists the entries of the regenerated database in the class (41 of 49);
  `CornerLike ti` — the sister class of the terminals on which drawCell uses the bottom-right insert-character trick (the same
  strings `CapsOk`, `ich1` = ICH; `db_cornerLike`: the other four ECMA-48 entries beterm, cygwin, sun, sun-color).
* closed forms of the TParm expansions of the parameterised strings of the class, for ALL parameter values
  (`parm_cup`, `parm_cup_pad`, `parm_setaf256`, `parm_setab256`, `parm_setfgbg256`, `parm_setafBasic`, `parm_setafAdd`,
  `parm_setafExt`, `parm_setafColon`, …, `parm_rgb…`, `parm_ul…`),
  stated with the decimal renderer `Ecma48.dec` the emulator lemmas use;
* `tp_clean`: TPuts is the identity on strings without `$`.
-/
import Tcell.Model.Render
import Tcell.Lemmas.TParm
import Tcell.Spec.Ecma48Lemmas
import Tcell.Lemmas.Cup
namespace Tcell.LayerB
open Tcell Tcell.TParm Tcell.Spec.Ecma48

/-! ## decimal rendering: `strconv.Itoa` of the model = `dec` of the emulator lemmas -/

theorem natDigitsAux_eq : ∀ (fuel n : Nat) (acc : Bytes), n < fuel → natDigitsAux fuel n acc = dec n ++ acc := by
  intro fuel
  induction fuel with
  | zero => intro n acc h; omega
  | succ f ih =>
    intro n acc h
    unfold natDigitsAux
    show (if n < 10 then (48 + n) :: acc else natDigitsAux f (n / 10) ((48 + n % 10) :: acc)) = Tcell.Dec.showDec n ++ acc
    rw [Tcell.Dec.showDec_eq]
    by_cases h10 : n < 10
    · simp [h10]
    · simp only [h10, if_false]
      rw [ih (n / 10) _ (by omega)]
      simp [dec]

theorem natDigits_eq (n : Nat) : natDigits n = dec n := by
  unfold natDigits; rw [natDigitsAux_eq _ _ _ (by omega)]; simp

theorem itoa_nat (n : Nat) : itoa (n : Int) = dec n := by
  unfold itoa
  have : ¬ ((n : Int) < 0) := by omega
  simp [this, natDigits_eq]

theorem wrap64_small (z : Int) (h0 : 0 ≤ z) (h1 : z < maxInt64) : wrap64 z = z := by
  unfold wrap64 two63 two64; unfold maxInt64 at h1; omega

/-- no byte of a decimal rendering is `$` -/
theorem dec_no_dollar (n : Nat) : ∀ b ∈ dec n, b ≠ 36 := fun b hb => by have := dec_digits n b hb; omega

/-! ## TPuts on strings without `$` -/

theorem findMarker_none (s : Bytes) (h : ∀ b ∈ s, b ≠ 36) : TPuts.findMarker s = none := by
  induction s with
  | nil => rfl
  | cons b r ih =>
    have hb : b ≠ 36 := h b (by simp)
    simp [TPuts.findMarker, hb, ih (fun x hx => h x (by simp [hx]))]

/-- TPuts writes a string without `$` unchanged (whatever the pad character) -/
theorem tp_clean (c : RenderCfg) (s : Bytes) (h : ∀ b ∈ s, b ≠ 36) : Render.tp c s = s := by
  simp [Render.tp, TPuts.tputs, TPuts.tputsV, TPuts.tputsAux, findMarker_none s h]

@[simp] theorem tp_nil (c : RenderCfg) : Render.tp c [] = [] := tp_clean c [] (by simp)

/-! ## the standard forms -/

def esc (l : List Nat) : Bytes := 27 :: l

/-- `ESC [ %i %p1 %d ; %p2 %d H` -/
def cupStd : Bytes := [27,91,37,105,37,112,49,37,100,59,37,112,50,37,100,72]
/-- `ESC [ 3 %p1 %d m` / `ESC [ 4 %p1 %d m` -/
def setafBasic : Bytes := [27,91,51,37,112,49,37,100,109]
def setabBasic : Bytes := [27,91,52,37,112,49,37,100,109]
/-- `ESC [ 3 %p1 %d ; 4 %p2 %d m` -/
def setfgbgBasic : Bytes := [27,91,51,37,112,49,37,100,59,52,37,112,50,37,100,109]
/-- `ESC [ %? %p1 %{8} %< %t 3 %p1 %d %e %p1 %{16} %< %t 9 %p1 %{8} %- %d %e 38;5; %p1 %d %; m` -/
def setaf256 : Bytes :=
  [27,91,37,63,37,112,49,37,123,56,125,37,60,37,116,51,37,112,49,37,100,37,101,37,112,49,37,123,49,54,125,
   37,60,37,116,57,37,112,49,37,123,56,125,37,45,37,100,37,101,51,56,59,53,59,37,112,49,37,100,37,59,109]
/-- `ESC [ %? %p1 %{8} %< %t 4 %p1 %d %e %p1 %{16} %< %t 10 %p1 %{8} %- %d %e 48;5; %p1 %d %; m` -/
def setab256 : Bytes :=
  [27,91,37,63,37,112,49,37,123,56,125,37,60,37,116,52,37,112,49,37,100,37,101,37,112,49,37,123,49,54,125,
   37,60,37,116,49,48,37,112,49,37,123,56,125,37,45,37,100,37,101,52,56,59,53,59,37,112,49,37,100,37,59,109]
/-- the two conditionals of `setaf256` / `setab256` in one sequence, separated by `;` -/
def setfgbg256 : Bytes :=
  [27,91,37,63,37,112,49,37,123,56,125,37,60,37,116,51,37,112,49,37,100,37,101,37,112,49,37,123,49,54,125,
   37,60,37,116,57,37,112,49,37,123,56,125,37,45,37,100,37,101,51,56,59,53,59,37,112,49,37,100,37,59,59,
   37,63,37,112,50,37,123,56,125,37,60,37,116,52,37,112,50,37,100,37,101,37,112,50,37,123,49,54,125,
   37,60,37,116,49,48,37,112,50,37,123,56,125,37,45,37,100,37,101,52,56,59,53,59,37,112,50,37,100,37,59,109]
/-- `ESC [ 38;2; %p1 %d ; %p2 %d ; %p3 %d m` and the 48 / combined forms -/
def setfRGB : Bytes := [27,91,51,56,59,50,59,37,112,49,37,100,59,37,112,50,37,100,59,37,112,51,37,100,109]
def setbRGB : Bytes := [27,91,52,56,59,50,59,37,112,49,37,100,59,37,112,50,37,100,59,37,112,51,37,100,109]
def setfbRGB : Bytes :=
  [27,91,51,56,59,50,59,37,112,49,37,100,59,37,112,50,37,100,59,37,112,51,37,100,59,
   52,56,59,50,59,37,112,52,37,100,59,37,112,53,37,100,59,37,112,54,37,100,109]
/-- `ESC [ 58:5: %p1 %d m`, `ESC [ 58:2:: %p1 %d : %p2 %d : %p3 %d m` (tcell's own underline-colour strings) -/
def ulIdx : Bytes := [27,91,53,56,58,53,58,37,112,49,37,100,109]
def ulRGB : Bytes := [27,91,53,56,58,50,58,58,37,112,49,37,100,58,37,112,50,37,100,58,37,112,51,37,100,109]
/-- `ESC ] 8 ; %p2 %s ; %p1 %s ESC \` -/
def urlOpen : Bytes := [27,93,56,59,37,112,50,37,115,59,37,112,49,37,115,27,92]
def urlClose : Bytes := [27,93,56,59,59,27,92]

/-! ## closed forms of the expansions (all parameter values) -/

open Tcell.Render (parm ints)

set_option maxRecDepth 4000 in
theorem parm_cup_int (row col : Int) :
    parm cupStd (ints [row, col]) = [27, 91] ++ itoa (wrap64 (row + 1)) ++ [59] ++ itoa (wrap64 (col + 1)) ++ [72] := by
  simp [parm, ints, tparm, tparmV, cupStd, run, step, execOp, pad9, put, popInt, hd0, isDigit, incParam, Value.toInt, List.modify]

/-- **cup** for every row and column a Go `int` can hold: `ESC [ row+1 ; col+1 H` -/
theorem parm_cup (r c : Nat) (hr : (r : Int) + 1 < maxInt64) (hc : (c : Int) + 1 < maxInt64) :
    parm cupStd (ints [(r : Int), (c : Int)]) = csiSeq (dec (r + 1) ++ 0x3b :: dec (c + 1)) 0x48 := by
  rw [parm_cup_int, wrap64_small _ (by omega) hr, wrap64_small _ (by omega) hc]
  have e1 : ((r : Int) + 1) = ((r + 1 : Nat) : Int) := by omega
  have e2 : ((c : Int) + 1) = ((c + 1 : Nat) : Int) := by omega
  rw [e1, e2, itoa_nat, itoa_nat]
  simp [csiSeq]

set_option maxRecDepth 4000 in
theorem parm_setafBasic (n : Nat) : parm setafBasic (ints [(n : Int)]) = csiSeq (0x33 :: dec n) 0x6d := by
  have : parm setafBasic (ints [(n : Int)]) = [27, 91, 51] ++ itoa (n : Int) ++ [109] := by
    simp [parm, ints, tparm, tparmV, setafBasic, run, step, execOp, pad9, put, popInt, hd0, isDigit, Value.toInt]
  rw [this, itoa_nat]; simp [csiSeq]

set_option maxRecDepth 4000 in
theorem parm_setabBasic (n : Nat) : parm setabBasic (ints [(n : Int)]) = csiSeq (0x34 :: dec n) 0x6d := by
  have : parm setabBasic (ints [(n : Int)]) = [27, 91, 52] ++ itoa (n : Int) ++ [109] := by
    simp [parm, ints, tparm, tparmV, setabBasic, run, step, execOp, pad9, put, popInt, hd0, isDigit, Value.toInt]
  rw [this, itoa_nat]; simp [csiSeq]

set_option maxRecDepth 4000 in
theorem parm_setfgbgBasic (f b : Nat) :
    parm setfgbgBasic (ints [(f : Int), (b : Int)]) = csiSeq ((0x33 :: dec f) ++ 0x3b :: (0x34 :: dec b)) 0x6d := by
  have : parm setfgbgBasic (ints [(f : Int), (b : Int)]) = [27, 91, 51] ++ itoa (f : Int) ++ [59, 52] ++ itoa (b : Int) ++ [109] := by
    simp [parm, ints, tparm, tparmV, setfgbgBasic, run, step, execOp, pad9, put, popInt, hd0, isDigit, Value.toInt]
  rw [this, itoa_nat, itoa_nat]; simp [csiSeq]

/-- the SGR parameter text selecting palette colour `n` as foreground (`which = 38`) or background (`48`) the way
    the 256-colour `setaf` / `setab` strings do -/
def idxBody (base bright which n : Nat) : List Nat :=
  if n < 8 then dec (base + n) else if n < 16 then dec (bright + (n - 8)) else Term.ext5 which n

theorem dec_two (a d : Nat) (ha : 0 < a) (ha' : a < 10) (hd : d < 10) : dec (a * 10 + d) = [48 + a, 48 + d] := by
  rw [dec_append_digit a d ha hd, dec_lt10 a ha']; rfl

theorem dec_30 (n : Nat) (h : n < 8) : dec (30 + n) = 0x33 :: dec n := by
  have := dec_two 3 n (by omega) (by omega) (by omega)
  rw [show 3 * 10 + n = 30 + n by omega] at this
  rw [this, dec_lt10 n (by omega)]
theorem dec_40 (n : Nat) (h : n < 8) : dec (40 + n) = 0x34 :: dec n := by
  have := dec_two 4 n (by omega) (by omega) (by omega)
  rw [show 4 * 10 + n = 40 + n by omega] at this
  rw [this, dec_lt10 n (by omega)]
theorem dec_90 (n : Nat) (h : n < 8) : dec (90 + n) = 0x39 :: dec n := by
  have := dec_two 9 n (by omega) (by omega) (by omega)
  rw [show 9 * 10 + n = 90 + n by omega] at this
  rw [this, dec_lt10 n (by omega)]
theorem dec_100 (n : Nat) (h : n < 8) : dec (100 + n) = 0x31 :: 0x30 :: dec n := by
  have h1 : dec (100 + n) = dec 10 ++ [48 + n] := by
    have := dec_append_digit 10 n (by omega) (by omega)
    rw [show 10 * 10 + n = 100 + n by omega] at this; exact this
  rw [h1, dec_lt10 n (by omega)]
  have : dec 10 = [0x31, 0x30] := by decide
  rw [this]; rfl

set_option maxRecDepth 8000 in
theorem parm_setaf256_raw (n : Int) :
    parm setaf256 (ints [n]) =
      [27,91] ++ (if n < 8 then 51 :: itoa n else if n < 16 then 57 :: itoa (wrap64 (n - 8))
                  else [51,56,59,53,59] ++ itoa n) ++ [109] := by
  by_cases h8 : n < 8
  · simp [parm, ints, tparm, tparmV, setaf256, run, step, execOp, skipOp, pad9, put, popInt, hd0, isDigit, Value.toInt, binop, readInt, ofBool, h8, wrap64, two63, two64]
  · by_cases h16 : n < 16
    · simp [parm, ints, tparm, tparmV, setaf256, run, step, execOp, skipOp, pad9, put, popInt, hd0, isDigit, Value.toInt, binop, readInt, ofBool, h8, h16, wrap64, two63, two64]
    · simp [parm, ints, tparm, tparmV, setaf256, run, step, execOp, skipOp, pad9, put, popInt, hd0, isDigit, Value.toInt, binop, readInt, ofBool, h8, h16, wrap64, two63, two64]

set_option maxRecDepth 8000 in
theorem parm_setab256_raw (n : Int) :
    parm setab256 (ints [n]) =
      [27,91] ++ (if n < 8 then 52 :: itoa n else if n < 16 then 49 :: 48 :: itoa (wrap64 (n - 8))
                  else [52,56,59,53,59] ++ itoa n) ++ [109] := by
  by_cases h8 : n < 8
  · simp [parm, ints, tparm, tparmV, setab256, run, step, execOp, skipOp, pad9, put, popInt, hd0, isDigit, Value.toInt, binop, readInt, ofBool, h8, wrap64, two63, two64]
  · by_cases h16 : n < 16
    · simp [parm, ints, tparm, tparmV, setab256, run, step, execOp, skipOp, pad9, put, popInt, hd0, isDigit, Value.toInt, binop, readInt, ofBool, h8, h16, wrap64, two63, two64]
    · simp [parm, ints, tparm, tparmV, setab256, run, step, execOp, skipOp, pad9, put, popInt, hd0, isDigit, Value.toInt, binop, readInt, ofBool, h8, h16, wrap64, two63, two64]

theorem ext5_38 (n : Nat) : Term.ext5 38 n = [51,56,59,53,59] ++ dec n := by
  have : dec 38 = [51, 56] := by decide
  simp [Term.ext5, this]
theorem ext5_48 (n : Nat) : Term.ext5 48 n = [52,56,59,53,59] ++ dec n := by
  have : dec 48 = [52, 56] := by decide
  simp [Term.ext5, this]

/-- `3n`, `9(n-8)` or `38;5;n` as one list -/
theorem fgPart_eq (n : Nat) :
    (if (n : Int) < 8 then 51 :: itoa (n : Int) else if (n : Int) < 16 then 57 :: itoa (wrap64 ((n : Int) - 8))
      else [51,56,59,53,59] ++ itoa (n : Int)) = idxBody 30 90 38 n := by
  unfold idxBody
  by_cases h8 : n < 8
  · have : (n : Int) < 8 := by omega
    simp only [this, h8, if_true]; rw [itoa_nat, dec_30 n h8]
  · by_cases h16 : n < 16
    · have a : ¬ (n : Int) < 8 := by omega
      have b : (n : Int) < 16 := by omega
      simp only [a, b, h8, h16, if_true, if_false]
      have e : (n : Int) - 8 = ((n - 8 : Nat) : Int) := by omega
      rw [e, wrap64_small _ (by omega) (by unfold maxInt64; omega), itoa_nat, dec_90 _ (by omega)]
    · have a : ¬ (n : Int) < 8 := by omega
      have b : ¬ (n : Int) < 16 := by omega
      simp only [a, b, h8, h16, if_false]; rw [itoa_nat, ext5_38]

theorem bgPart_eq (n : Nat) :
    (if (n : Int) < 8 then 52 :: itoa (n : Int) else if (n : Int) < 16 then 49 :: 48 :: itoa (wrap64 ((n : Int) - 8))
      else [52,56,59,53,59] ++ itoa (n : Int)) = idxBody 40 100 48 n := by
  unfold idxBody
  by_cases h8 : n < 8
  · have : (n : Int) < 8 := by omega
    simp only [this, h8, if_true]; rw [itoa_nat, dec_40 n h8]
  · by_cases h16 : n < 16
    · have a : ¬ (n : Int) < 8 := by omega
      have b : (n : Int) < 16 := by omega
      simp only [a, b, h8, h16, if_true, if_false]
      have e : (n : Int) - 8 = ((n - 8 : Nat) : Int) := by omega
      rw [e, wrap64_small _ (by omega) (by unfold maxInt64; omega), itoa_nat, dec_100 _ (by omega)]
    · have a : ¬ (n : Int) < 8 := by omega
      have b : ¬ (n : Int) < 16 := by omega
      simp only [a, b, h8, h16, if_false]; rw [itoa_nat, ext5_48]

/-- **setaf** (256-colour form) for every palette index -/
theorem parm_setaf256 (n : Nat) : parm setaf256 (ints [(n : Int)]) = csiSeq (idxBody 30 90 38 n) 0x6d := by
  rw [parm_setaf256_raw, fgPart_eq]; simp [csiSeq]

/-- **setab** (256-colour form) for every palette index -/
theorem parm_setab256 (n : Nat) : parm setab256 (ints [(n : Int)]) = csiSeq (idxBody 40 100 48 n) 0x6d := by
  rw [parm_setab256_raw, bgPart_eq]; simp [csiSeq]

set_option maxRecDepth 16000 in
theorem parm_setfgbg256_raw (f b : Int) :
    parm setfgbg256 (ints [f, b]) =
      [27,91] ++ (if f < 8 then 51 :: itoa f else if f < 16 then 57 :: itoa (wrap64 (f - 8))
                  else [51,56,59,53,59] ++ itoa f) ++ [59] ++
      (if b < 8 then 52 :: itoa b else if b < 16 then 49 :: 48 :: itoa (wrap64 (b - 8))
                  else [52,56,59,53,59] ++ itoa b) ++ [109] := by
  by_cases f8 : f < 8 <;> by_cases f16 : f < 16 <;> by_cases b8 : b < 8 <;> by_cases b16 : b < 16 <;>
    first
    | (exfalso; omega)
    | simp [parm, ints, tparm, tparmV, setfgbg256, run, step, execOp, skipOp, pad9, put, popInt, hd0, isDigit, Value.toInt,
        binop, readInt, ofBool, f8, f16, b8, b16, wrap64, two63, two64]

/-- **setfgbg** (256-colour form) for every pair of palette indices -/
theorem parm_setfgbg256 (f b : Nat) :
    parm setfgbg256 (ints [(f : Int), (b : Int)]) = csiSeq (idxBody 30 90 38 f ++ 0x3b :: idxBody 40 100 48 b) 0x6d := by
  rw [parm_setfgbg256_raw, fgPart_eq, bgPart_eq]; simp [csiSeq]

set_option maxRecDepth 4000 in
/-- **direct-colour foreground** for all components -/
theorem parm_setfRGB (r g b : Nat) :
    parm setfRGB (ints [(r : Int), (g : Int), (b : Int)]) = csiSeq (Term.ext2 38 r g b) 0x6d := by
  have : parm setfRGB (ints [(r : Int), (g : Int), (b : Int)]) =
      [27,91,51,56,59,50,59] ++ itoa (r : Int) ++ [59] ++ itoa (g : Int) ++ [59] ++ itoa (b : Int) ++ [109] := by
    simp [parm, ints, tparm, tparmV, setfRGB, run, step, execOp, pad9, put, popInt, hd0, isDigit, Value.toInt]
  have d38 : dec 38 = [51, 56] := by decide
  rw [this, itoa_nat, itoa_nat, itoa_nat]; simp [csiSeq, Term.ext2, d38]

set_option maxRecDepth 4000 in
theorem parm_setbRGB (r g b : Nat) :
    parm setbRGB (ints [(r : Int), (g : Int), (b : Int)]) = csiSeq (Term.ext2 48 r g b) 0x6d := by
  have : parm setbRGB (ints [(r : Int), (g : Int), (b : Int)]) =
      [27,91,52,56,59,50,59] ++ itoa (r : Int) ++ [59] ++ itoa (g : Int) ++ [59] ++ itoa (b : Int) ++ [109] := by
    simp [parm, ints, tparm, tparmV, setbRGB, run, step, execOp, pad9, put, popInt, hd0, isDigit, Value.toInt]
  have d48 : dec 48 = [52, 56] := by decide
  rw [this, itoa_nat, itoa_nat, itoa_nat]; simp [csiSeq, Term.ext2, d48]

set_option maxRecDepth 8000 in
theorem parm_setfbRGB (r g b r' g' b' : Nat) :
    parm setfbRGB (ints [(r : Int), (g : Int), (b : Int), (r' : Int), (g' : Int), (b' : Int)]) =
      csiSeq (Term.ext2 38 r g b ++ 0x3b :: Term.ext2 48 r' g' b') 0x6d := by
  have : parm setfbRGB (ints [(r : Int), (g : Int), (b : Int), (r' : Int), (g' : Int), (b' : Int)]) =
      [27,91,51,56,59,50,59] ++ itoa (r : Int) ++ [59] ++ itoa (g : Int) ++ [59] ++ itoa (b : Int) ++
      [59,52,56,59,50,59] ++ itoa (r' : Int) ++ [59] ++ itoa (g' : Int) ++ [59] ++ itoa (b' : Int) ++ [109] := by
    simp [parm, ints, tparm, tparmV, setfbRGB, run, step, execOp, pad9, put, popInt, hd0, isDigit, Value.toInt]
  have d38 : dec 38 = [51, 56] := by decide
  have d48 : dec 48 = [52, 56] := by decide
  rw [this]; simp only [itoa_nat]; simp [csiSeq, Term.ext2, d38, d48]

/-- body of `58:5:n` -/
def ulIdxBody (n : Nat) : List Nat := dec 58 ++ 0x3a :: 0x35 :: 0x3a :: dec n
/-- body of `58:2::r:g:b` -/
def ulRGBBody (r g b : Nat) : List Nat := dec 58 ++ 0x3a :: 0x32 :: 0x3a :: 0x3a :: (dec r ++ 0x3a :: (dec g ++ 0x3a :: dec b))

set_option maxRecDepth 4000 in
theorem parm_ulIdx (n : Nat) : parm ulIdx (ints [(n : Int)]) = csiSeq (ulIdxBody n) 0x6d := by
  have : parm ulIdx (ints [(n : Int)]) = [27,91,53,56,58,53,58] ++ itoa (n : Int) ++ [109] := by
    simp [parm, ints, tparm, tparmV, ulIdx, run, step, execOp, pad9, put, popInt, hd0, isDigit, Value.toInt]
  have d58 : dec 58 = [53, 56] := by decide
  rw [this, itoa_nat]; simp [csiSeq, ulIdxBody, d58]

set_option maxRecDepth 4000 in
theorem parm_ulRGB (r g b : Nat) :
    parm ulRGB (ints [(r : Int), (g : Int), (b : Int)]) = csiSeq (ulRGBBody r g b) 0x6d := by
  have : parm ulRGB (ints [(r : Int), (g : Int), (b : Int)]) =
      [27,91,53,56,58,50,58,58] ++ itoa (r : Int) ++ [58] ++ itoa (g : Int) ++ [58] ++ itoa (b : Int) ++ [109] := by
    simp [parm, ints, tparm, tparmV, ulRGB, run, step, execOp, pad9, put, popInt, hd0, isDigit, Value.toInt]
  have d58 : dec 58 = [53, 56] := by decide
  rw [this, itoa_nat, itoa_nat, itoa_nat]; simp [csiSeq, ulRGBBody, d58]

/-! ## padding: what TPuts writes -/

open Tcell.Spec.TermCaps (stripPadding)

/-- **TPuts writes the string with its padding specifications removed** (C15 `tputs_spec`; terminfo.go:596-644 sleeps instead
    of writing pad characters) -/
theorem tp_strip (c : RenderCfg) (s : Bytes) : Render.tp c s = stripPadding s := by
  have := TPuts.tputsAux_bytes c.ti.padChar (s.length + 1) s {} (Nat.lt_succ_self _)
  simpa [Render.tp, TPuts.tputs, TPuts.tputsV, TPuts.currentStrict] using this

/-- a clean string followed by padding -/
theorem tp_padded (c : RenderCfg) (s pad : Bytes) (h : ∀ b ∈ s, b ≠ 36) (hp : stripPadding pad = []) :
    Render.tp c (s ++ pad) = s := by
  rw [tp_strip, TPuts.strip_append_no36 s pad h, hp, List.append_nil]

/-! ## more standard forms -/

/-- `cup` followed by the padding the DEC entries carry: `$<5>` (vt100, vt102), `$<10>` (vt420) -/
def pad5 : Bytes := [36,60,53,62]
def pad10 : Bytes := [36,60,49,48,62]
def cupPads : List Bytes := [[], pad5, pad10]

set_option maxRecDepth 4000 in
theorem parm_cup5_int (row col : Int) :
    parm (cupStd ++ pad5) (ints [row, col]) = [27, 91] ++ itoa (wrap64 (row + 1)) ++ [59] ++ itoa (wrap64 (col + 1)) ++ [72] ++ pad5 := by
  simp [parm, ints, tparm, tparmV, cupStd, pad5, run, step, execOp, pad9, put, popInt, hd0, isDigit, incParam, Value.toInt, List.modify]

set_option maxRecDepth 4000 in
theorem parm_cup10_int (row col : Int) :
    parm (cupStd ++ pad10) (ints [row, col]) = [27, 91] ++ itoa (wrap64 (row + 1)) ++ [59] ++ itoa (wrap64 (col + 1)) ++ [72] ++ pad10 := by
  simp [parm, ints, tparm, tparmV, cupStd, pad10, run, step, execOp, pad9, put, popInt, hd0, isDigit, incParam, Value.toInt, List.modify]

/-- **cup with any of the paddings of the class**: the expansion is the standard one followed by the padding -/
theorem parm_cup_pad (pad : Bytes) (hp : pad ∈ cupPads) (r c : Nat) (hr : (r : Int) + 1 < maxInt64) (hc : (c : Int) + 1 < maxInt64) :
    parm (cupStd ++ pad) (ints [(r : Int), (c : Int)]) = csiSeq (dec (r + 1) ++ 0x3b :: dec (c + 1)) 0x48 ++ pad := by
  have e1 : ((r : Int) + 1) = ((r + 1 : Nat) : Int) := by omega
  have e2 : ((c : Int) + 1) = ((c + 1 : Nat) : Int) := by omega
  simp only [cupPads, List.mem_cons, List.not_mem_nil, or_false] at hp
  rcases hp with rfl | rfl | rfl
  · rw [List.append_nil, List.append_nil]; exact parm_cup r c hr hc
  · rw [parm_cup5_int, wrap64_small _ (by omega) hr, wrap64_small _ (by omega) hc, e1, e2, itoa_nat, itoa_nat]; simp [csiSeq]
  · rw [parm_cup10_int, wrap64_small _ (by omega) hr, wrap64_small _ (by omega) hc, e1, e2, itoa_nat, itoa_nat]; simp [csiSeq]

/-- Eterm's 8-colour strings: `ESC [ %p1 %{30} %+ %d m`, `ESC [ %p1 %'(' %+ %d m` and both in one sequence -/
def setafAdd : Bytes := [27, 91, 37, 112, 49, 37, 123, 51, 48, 125, 37, 43, 37, 100, 109]
def setabAdd : Bytes := [27, 91, 37, 112, 49, 37, 39, 40, 39, 37, 43, 37, 100, 109]
def setfgbgAdd : Bytes :=
  [27, 91, 37, 112, 49, 37, 123, 51, 48, 125, 37, 43, 37, 100, 59, 37, 112, 50, 37, 39, 40, 39, 37, 43, 37, 100, 109]
/-- rxvt-unicode's palette strings: always the extended form `ESC [ 38;5; %p1 %d m` / `48;5;` / both -/
def setafExt : Bytes := [27, 91, 51, 56, 59, 53, 59, 37, 112, 49, 37, 100, 109]
def setabExt : Bytes := [27, 91, 52, 56, 59, 53, 59, 37, 112, 49, 37, 100, 109]
def setfgbgExt : Bytes := [27, 91, 51, 56, 59, 53, 59, 37, 112, 49, 37, 100, 59, 52, 56, 59, 53, 59, 37, 112, 50, 37, 100, 109]
/-- foot's palette strings: the conditionals of the 256-colour form with the colon form `38:5:n` / `48:5:n` in the last branch -/
def setafColon : Bytes :=
  [27,91,37,63,37,112,49,37,123,56,125,37,60,37,116,51,37,112,49,37,100,37,101,37,112,49,37,123,49,54,125,
   37,60,37,116,57,37,112,49,37,123,56,125,37,45,37,100,37,101,51,56,58,53,58,37,112,49,37,100,37,59,109]
def setabColon : Bytes :=
  [27,91,37,63,37,112,49,37,123,56,125,37,60,37,116,52,37,112,49,37,100,37,101,37,112,49,37,123,49,54,125,
   37,60,37,116,49,48,37,112,49,37,123,56,125,37,45,37,100,37,101,52,56,58,53,58,37,112,49,37,100,37,59,109]
def setfgbgColon : Bytes :=
  [27,91,37,63,37,112,49,37,123,56,125,37,60,37,116,51,37,112,49,37,100,37,101,37,112,49,37,123,49,54,125,
   37,60,37,116,57,37,112,49,37,123,56,125,37,45,37,100,37,101,51,56,58,53,58,37,112,49,37,100,37,59,59,
   37,63,37,112,50,37,123,56,125,37,60,37,116,52,37,112,50,37,100,37,101,37,112,50,37,123,49,54,125,
   37,60,37,116,49,48,37,112,50,37,123,56,125,37,45,37,100,37,101,52,56,58,53,58,37,112,50,37,100,37,59,109]

set_option maxRecDepth 4000 in
theorem parm_setafAdd_raw (n : Int) : parm setafAdd (ints [n]) = [27, 91] ++ itoa (wrap64 (n + 30)) ++ [109] := by
  simp [parm, ints, tparm, tparmV, setafAdd, run, step, execOp, pad9, put, popInt, hd0, isDigit, Value.toInt, binop, readInt, wrap64, two63, two64]
set_option maxRecDepth 4000 in
theorem parm_setabAdd_raw (n : Int) : parm setabAdd (ints [n]) = [27, 91] ++ itoa (wrap64 (n + 40)) ++ [109] := by
  simp [parm, ints, tparm, tparmV, setabAdd, run, step, execOp, pad9, put, popInt, hd0, isDigit, Value.toInt, binop, readInt, wrap64, two63, two64]
set_option maxRecDepth 8000 in
theorem parm_setfgbgAdd_raw (f b : Int) :
    parm setfgbgAdd (ints [f, b]) = [27, 91] ++ itoa (wrap64 (f + 30)) ++ [59] ++ itoa (wrap64 (b + 40)) ++ [109] := by
  simp [parm, ints, tparm, tparmV, setfgbgAdd, run, step, execOp, pad9, put, popInt, hd0, isDigit, Value.toInt, binop, readInt, wrap64, two63, two64]

theorem parm_setafAdd (n : Nat) (hn : n < 256) : parm setafAdd (ints [(n : Int)]) = csiSeq (dec (30 + n)) 0x6d := by
  rw [parm_setafAdd_raw, wrap64_small _ (by omega) (by unfold maxInt64; omega)]
  have e : (n : Int) + 30 = ((30 + n : Nat) : Int) := by omega
  rw [e, itoa_nat]; simp [csiSeq]
theorem parm_setabAdd (n : Nat) (hn : n < 256) : parm setabAdd (ints [(n : Int)]) = csiSeq (dec (40 + n)) 0x6d := by
  rw [parm_setabAdd_raw, wrap64_small _ (by omega) (by unfold maxInt64; omega)]
  have e : (n : Int) + 40 = ((40 + n : Nat) : Int) := by omega
  rw [e, itoa_nat]; simp [csiSeq]
theorem parm_setfgbgAdd (f b : Nat) (hf : f < 256) (hb : b < 256) :
    parm setfgbgAdd (ints [(f : Int), (b : Int)]) = csiSeq (dec (30 + f) ++ 0x3b :: dec (40 + b)) 0x6d := by
  rw [parm_setfgbgAdd_raw, wrap64_small _ (by omega) (by unfold maxInt64; omega), wrap64_small _ (by omega) (by unfold maxInt64; omega)]
  have e : (f : Int) + 30 = ((30 + f : Nat) : Int) := by omega
  have e' : (b : Int) + 40 = ((40 + b : Nat) : Int) := by omega
  rw [e, e', itoa_nat, itoa_nat]; simp [csiSeq]

set_option maxRecDepth 4000 in
theorem parm_setafExt (n : Nat) : parm setafExt (ints [(n : Int)]) = csiSeq (Term.ext5 38 n) 0x6d := by
  have : parm setafExt (ints [(n : Int)]) = [27,91,51,56,59,53,59] ++ itoa (n : Int) ++ [109] := by
    simp [parm, ints, tparm, tparmV, setafExt, run, step, execOp, pad9, put, popInt, hd0, isDigit, Value.toInt]
  rw [this, itoa_nat, ext5_38]; simp [csiSeq]
set_option maxRecDepth 4000 in
theorem parm_setabExt (n : Nat) : parm setabExt (ints [(n : Int)]) = csiSeq (Term.ext5 48 n) 0x6d := by
  have : parm setabExt (ints [(n : Int)]) = [27,91,52,56,59,53,59] ++ itoa (n : Int) ++ [109] := by
    simp [parm, ints, tparm, tparmV, setabExt, run, step, execOp, pad9, put, popInt, hd0, isDigit, Value.toInt]
  rw [this, itoa_nat, ext5_48]; simp [csiSeq]
set_option maxRecDepth 8000 in
theorem parm_setfgbgExt (f b : Nat) :
    parm setfgbgExt (ints [(f : Int), (b : Int)]) = csiSeq (Term.ext5 38 f ++ 0x3b :: Term.ext5 48 b) 0x6d := by
  have : parm setfgbgExt (ints [(f : Int), (b : Int)]) =
      [27,91,51,56,59,53,59] ++ itoa (f : Int) ++ [59,52,56,59,53,59] ++ itoa (b : Int) ++ [109] := by
    simp [parm, ints, tparm, tparmV, setfgbgExt, run, step, execOp, pad9, put, popInt, hd0, isDigit, Value.toInt]
  rw [this, itoa_nat, itoa_nat, ext5_38, ext5_48]; simp [csiSeq]

/-- colon form of the extended palette selection: `38:5:n` -/
def colon5 (which n : Nat) : List Nat := dec which ++ 0x3a :: 0x35 :: 0x3a :: dec n
/-- `3n`, `9(n-8)` or `38:5:n` (foot) -/
def idxBodyC (base bright which n : Nat) : List Nat :=
  if n < 8 then dec (base + n) else if n < 16 then dec (bright + (n - 8)) else colon5 which n

set_option maxRecDepth 8000 in
theorem parm_setafColon_raw (n : Int) :
    parm setafColon (ints [n]) =
      [27,91] ++ (if n < 8 then 51 :: itoa n else if n < 16 then 57 :: itoa (wrap64 (n - 8))
                  else [51,56,58,53,58] ++ itoa n) ++ [109] := by
  by_cases h8 : n < 8
  · simp [parm, ints, tparm, tparmV, setafColon, run, step, execOp, skipOp, pad9, put, popInt, hd0, isDigit, Value.toInt, binop, readInt, ofBool, h8, wrap64, two63, two64]
  · by_cases h16 : n < 16
    · simp [parm, ints, tparm, tparmV, setafColon, run, step, execOp, skipOp, pad9, put, popInt, hd0, isDigit, Value.toInt, binop, readInt, ofBool, h8, h16, wrap64, two63, two64]
    · simp [parm, ints, tparm, tparmV, setafColon, run, step, execOp, skipOp, pad9, put, popInt, hd0, isDigit, Value.toInt, binop, readInt, ofBool, h8, h16, wrap64, two63, two64]

set_option maxRecDepth 8000 in
theorem parm_setabColon_raw (n : Int) :
    parm setabColon (ints [n]) =
      [27,91] ++ (if n < 8 then 52 :: itoa n else if n < 16 then 49 :: 48 :: itoa (wrap64 (n - 8))
                  else [52,56,58,53,58] ++ itoa n) ++ [109] := by
  by_cases h8 : n < 8
  · simp [parm, ints, tparm, tparmV, setabColon, run, step, execOp, skipOp, pad9, put, popInt, hd0, isDigit, Value.toInt, binop, readInt, ofBool, h8, wrap64, two63, two64]
  · by_cases h16 : n < 16
    · simp [parm, ints, tparm, tparmV, setabColon, run, step, execOp, skipOp, pad9, put, popInt, hd0, isDigit, Value.toInt, binop, readInt, ofBool, h8, h16, wrap64, two63, two64]
    · simp [parm, ints, tparm, tparmV, setabColon, run, step, execOp, skipOp, pad9, put, popInt, hd0, isDigit, Value.toInt, binop, readInt, ofBool, h8, h16, wrap64, two63, two64]

set_option maxRecDepth 16000 in
theorem parm_setfgbgColon_raw (f b : Int) :
    parm setfgbgColon (ints [f, b]) =
      [27,91] ++ (if f < 8 then 51 :: itoa f else if f < 16 then 57 :: itoa (wrap64 (f - 8))
                  else [51,56,58,53,58] ++ itoa f) ++ [59] ++
      (if b < 8 then 52 :: itoa b else if b < 16 then 49 :: 48 :: itoa (wrap64 (b - 8))
                  else [52,56,58,53,58] ++ itoa b) ++ [109] := by
  by_cases f8 : f < 8 <;> by_cases f16 : f < 16 <;> by_cases b8 : b < 8 <;> by_cases b16 : b < 16 <;>
    first
    | (exfalso; omega)
    | simp [parm, ints, tparm, tparmV, setfgbgColon, run, step, execOp, skipOp, pad9, put, popInt, hd0, isDigit, Value.toInt,
        binop, readInt, ofBool, f8, f16, b8, b16, wrap64, two63, two64]

theorem colon5_38 (n : Nat) : colon5 38 n = [51,56,58,53,58] ++ dec n := by
  have : dec 38 = [51, 56] := by decide
  simp [colon5, this]
theorem colon5_48 (n : Nat) : colon5 48 n = [52,56,58,53,58] ++ dec n := by
  have : dec 48 = [52, 56] := by decide
  simp [colon5, this]

theorem fgPartC_eq (n : Nat) :
    (if (n : Int) < 8 then 51 :: itoa (n : Int) else if (n : Int) < 16 then 57 :: itoa (wrap64 ((n : Int) - 8))
      else [51,56,58,53,58] ++ itoa (n : Int)) = idxBodyC 30 90 38 n := by
  unfold idxBodyC
  by_cases h8 : n < 8
  · have : (n : Int) < 8 := by omega
    simp only [this, h8, if_true]; rw [itoa_nat, dec_30 n h8]
  · by_cases h16 : n < 16
    · have a : ¬ (n : Int) < 8 := by omega
      have b : (n : Int) < 16 := by omega
      simp only [a, b, h8, h16, if_true, if_false]
      have e : (n : Int) - 8 = ((n - 8 : Nat) : Int) := by omega
      rw [e, wrap64_small _ (by omega) (by unfold maxInt64; omega), itoa_nat, dec_90 _ (by omega)]
    · have a : ¬ (n : Int) < 8 := by omega
      have b : ¬ (n : Int) < 16 := by omega
      simp only [a, b, h8, h16, if_false]; rw [itoa_nat, colon5_38]

theorem bgPartC_eq (n : Nat) :
    (if (n : Int) < 8 then 52 :: itoa (n : Int) else if (n : Int) < 16 then 49 :: 48 :: itoa (wrap64 ((n : Int) - 8))
      else [52,56,58,53,58] ++ itoa (n : Int)) = idxBodyC 40 100 48 n := by
  unfold idxBodyC
  by_cases h8 : n < 8
  · have : (n : Int) < 8 := by omega
    simp only [this, h8, if_true]; rw [itoa_nat, dec_40 n h8]
  · by_cases h16 : n < 16
    · have a : ¬ (n : Int) < 8 := by omega
      have b : (n : Int) < 16 := by omega
      simp only [a, b, h8, h16, if_true, if_false]
      have e : (n : Int) - 8 = ((n - 8 : Nat) : Int) := by omega
      rw [e, wrap64_small _ (by omega) (by unfold maxInt64; omega), itoa_nat, dec_100 _ (by omega)]
    · have a : ¬ (n : Int) < 8 := by omega
      have b : ¬ (n : Int) < 16 := by omega
      simp only [a, b, h8, h16, if_false]; rw [itoa_nat, colon5_48]

theorem parm_setafColon (n : Nat) : parm setafColon (ints [(n : Int)]) = csiSeq (idxBodyC 30 90 38 n) 0x6d := by
  rw [parm_setafColon_raw, fgPartC_eq]; simp [csiSeq]
theorem parm_setabColon (n : Nat) : parm setabColon (ints [(n : Int)]) = csiSeq (idxBodyC 40 100 48 n) 0x6d := by
  rw [parm_setabColon_raw, bgPartC_eq]; simp [csiSeq]
theorem parm_setfgbgColon (f b : Nat) :
    parm setfgbgColon (ints [(f : Int), (b : Int)]) = csiSeq (idxBodyC 30 90 38 f ++ 0x3b :: idxBodyC 40 100 48 b) 0x6d := by
  rw [parm_setfgbgColon_raw, fgPartC_eq, bgPartC_eq]; simp [csiSeq]

/-! ## the class -/

/-- `sgr0` as written (padding removed): SGR reset in its spellings, with the character-set resets `ESC ( B` / SI that come
    with it, `;10` (primary font) and the no-op `CSI " q` (DECSCA off, wy99) -/
def attrOffForms : List Bytes :=
  [[27,40,66,27,91,109], [27,91,109,15], [27,91,109,27,40,66], [27,91,48,109,15], [27,91,109], [27,91,48,109],
   [27,91,48,59,49,48,109], [27,91,48,59,49,48,109,27,40,66], [27,91,109,15,27,91,34,113]]
/-- `clear`: cursor home + erase display — or FF (form feed) on the terminals that clear on it (the Sun console) -/
def clearFF : Bytes := [12]
def clearForms : List Bytes := [[27,91,72,27,91,50,74], [27,91,72,27,91,74], clearFF]
/-- `cnorm`: DECTCEM on, alone or with a blink / `34` / linux-console cursor setting -/
def showForms : List Bytes :=
  [[27,91,63,50,53,104], [27,91,63,49,50,108,27,91,63,50,53,104], [27,91,51,52,104,27,91,63,50,53,104],
   [27,91,63,49,50,104,27,91,63,50,53,104], [27,91,63,50,53,104,27,91,63,48,99]]
def hideStd : Bytes := [27,91,63,50,53,108]
/-- `civis`: DECTCEM off, alone or followed by the linux console's `CSI ? 1 c` -/
def hideForms : List Bytes := [hideStd, [27,91,63,50,53,108,27,91,63,49,99]]
def sgr1 (n : Nat) : Bytes := [27,91,48 + n,109]
def resetStd : Bytes := [27,91,51,57,59,52,57,109]
/-- `op` of aixterm (`CSI 32 m CSI 40 m`) and pcansi (`CSI 37;40 m`): not a reset to the default colours — they SET colours -/
def opAix : Bytes := [27,91,51,50,109,27,91,52,48,109]
def opPc : Bytes := [27,91,51,55,59,52,48,109]
/-- `op` spelled as a full SGR reset (`CSI m`: beterm, `CSI 0 m`: sun-color): sendFgBg writes `op` right after `sgr0`, where
    resetting every attribute changes nothing -/
def opSgr : Bytes := [27,91,109]
def opSgr0 : Bytes := [27,91,48,109]
def opForms : List Bytes := [resetStd, opAix, opPc, opSgr, opSgr0]
def ulStyleStd (s : Nat) : Bytes := [27,91,52,58,48 + s,109]
def ulResetStd : Bytes := [27,91,53,57,109]
def decscusr (n : Nat) : Bytes := [27,91,48 + n,32,113]
def cursorStylesStd : List Bytes := [decscusr 0, decscusr 1, decscusr 2, decscusr 3, decscusr 4, decscusr 5, decscusr 6]

def optForm (s std : Bytes) : Bool := s == [] || s == std
/-- an optional attribute string: absent, or (once TPuts has removed its padding) the standard form -/
def optSent (s std : Bytes) : Bool := s == [] || stripPadding s == std

/-- the palette strings of the class: (setaf, setab, setfgbg) families -/
inductive PalKind | basic | add | cond | ext | colon
  deriving DecidableEq, Repr

def palKind (ti : Terminfo) : Option PalKind :=
  if ti.colors == 8 && ti.setFg == setafBasic && ti.setBg == setabBasic && optForm ti.setFgBg setfgbgBasic then some .basic
  else if ti.colors == 8 && ti.setFg == setafAdd && ti.setBg == setabAdd && optForm ti.setFgBg setfgbgAdd then some .add
  else if decide (8 ≤ ti.colors) && ti.setFg == setaf256 && ti.setBg == setab256 && optForm ti.setFgBg setfgbg256 then some .cond
  else if decide (8 ≤ ti.colors) && ti.setFg == setafExt && ti.setBg == setabExt && optForm ti.setFgBg setfgbgExt then some .ext
  else if decide (8 ≤ ti.colors) && ti.setFg == setafColon && ti.setBg == setabColon && optForm ti.setFgBg setfgbgColon then some .colon
  else none

/-- a monochrome description: no colours and no colour string of any kind (nothing is ever written for a colour) -/
def monoOk (ti : Terminfo) : Bool :=
  ti.colors == 0 && ti.setFg == [] && ti.setBg == [] && ti.setFgBg == [] && ti.resetFgBg == [] &&
  ti.setFgRGB == [] && ti.setBgRGB == [] && ti.setFgBgRGB == []

/-- the capability strings of the terminal description -/
def tiCapsOk (ti : Terminfo) : Bool :=
  (cupPads.any fun p => ti.setCursor == cupStd ++ p) &&
  attrOffForms.contains (stripPadding ti.attrOff) && clearForms.contains (stripPadding ti.clear) &&
  -- cursor visibility: both strings in a standard form, or neither
  ((showForms.contains (stripPadding ti.showCursor) && hideForms.contains (stripPadding ti.hideCursor)) ||
   (ti.showCursor == [] && ti.hideCursor == [])) &&
  optSent ti.underline (sgr1 4) && optSent ti.bold (sgr1 1) && optSent ti.reverse (sgr1 7) &&
  optSent ti.blink (sgr1 5) && optSent ti.dim (sgr1 2) && optSent ti.italic (sgr1 3) && optSent ti.strikeThrough (sgr1 9) &&
  -- colours: one of the palette families with `op` = `CSI 39;49 m` (or a full SGR reset, or one of the two colour-setting `op`s), or none at all
  (((palKind ti).isSome && opForms.contains ti.resetFgBg) || monoOk ti) &&
  optForm ti.setFgRGB setfRGB && optForm ti.setBgRGB setbRGB && optForm ti.setFgBgRGB setfbRGB &&
  -- coherence of the direct-colour strings (all three or none; tcell sets them together, terminfo.go addTrueColor)
  (ti.setFgRGB.isEmpty == ti.setBgRGB.isEmpty) && (ti.setFgBgRGB.isEmpty || !ti.setFgRGB.isEmpty)

/-- the terminal description itself: its strings, and the draw path does not use the bottom-right insert-character trick on it
    (tscreen.go:815: automatic margins that cannot be switched off and an insert-character string) -/
def tiOk (ti : Terminfo) : Bool :=
  tiCapsOk ti && !(ti.autoMargin && ti.disableAutoMargin.isEmpty && !ti.insertChar.isEmpty)

/-- the strings the screen constructor derives from it -/
def dOk (d : Derived) : Bool :=
  -- hyperlinks: tcell's OSC 8 pair, or no hyperlink strings (entries without mouse / xterm flag, the linux console)
  ((d.enterUrl == urlOpen && d.exitUrl == urlClose) || (d.enterUrl == [] && d.exitUrl == [])) &&
  optForm d.doubleUnder (ulStyleStd 2) && optForm d.curlyUnder (ulStyleStd 3) &&
  optForm d.dottedUnder (ulStyleStd 4) && optForm d.dashedUnder (ulStyleStd 5) &&
  optForm d.underColor ulIdx && optForm d.underRGB ulRGB && optForm d.underFg ulResetStd &&
  (d.cursorStyles == none || d.cursorStyles == some cursorStylesStd) &&
  -- underline colour: indexed and direct form together or not at all (prepareUnderlines derives one from the other)
  (d.underRGB.isEmpty == d.underColor.isEmpty)

/-- **the class of terminal descriptions Layer B is proved for**: every capability string the draw path uses is, once
    TPuts has removed its padding, one of the standard ECMA-48 / xterm forms listed above — or absent where the library
    tolerates that (no cursor-visibility strings, no underline / bold / reverse / blink / dim / italic / strike-through, no colours, no
    hyperlink, underline-style, underline-colour, cursor-style strings).  (The name is historical: the class started as the
    xterm family and now holds every ECMA-48 entry of the database except the four that use the bottom-right insert-character
    trick, see `Props.C01B.db_layerB`.) -/
def XtermLike (ti : Terminfo) : Bool := tiOk ti && dOk (derive ti)

/-- the class without the corner-trick condition: all that the per-command effects `CapsFx` depend on -/
def CapsOk (ti : Terminfo) : Bool := tiCapsOk ti && dOk (derive ti)

/-- `ich1` = ICH with the default count: `CSI @` -/
def ichStd : Bytes := [27,91,64]

/-- drawCell paints the bottom-right cell with the insert-character trick on this terminal (tscreen.go:815) -/
def usesCornerTrick (ti : Terminfo) : Bool := ti.autoMargin && ti.disableAutoMargin.isEmpty && !ti.insertChar.isEmpty

/-- **the class of corner-trick terminal descriptions Layer B is proved for**: the strings of the class (`CapsOk`), the draw path
    uses the bottom-right insert-character trick, and the insert-character string is (padding removed) ICH -/
def CornerLike (ti : Terminfo) : Bool := CapsOk ti && usesCornerTrick ti && (stripPadding ti.insertChar == ichStd)

theorem capsOk_of_cl {ti : Terminfo} (h : CornerLike ti = true) : CapsOk ti = true := by
  simp only [CornerLike, Bool.and_eq_true] at h; exact h.1.1
theorem cl_corner {ti : Terminfo} (h : CornerLike ti = true) : usesCornerTrick ti = true := by
  simp only [CornerLike, Bool.and_eq_true] at h; exact h.1.2
theorem cl_ich {ti : Terminfo} (h : CornerLike ti = true) : stripPadding ti.insertChar = [27, 91, 64] := by
  simp only [CornerLike, Bool.and_eq_true, beq_iff_eq] at h; exact h.2

theorem capsOk_of_xl {ti : Terminfo} (h : XtermLike ti = true) : CapsOk ti = true := by
  simp only [XtermLike, tiOk, CapsOk, Bool.and_eq_true] at h ⊢; exact ⟨h.1.1, h.2⟩

end Tcell.LayerB
