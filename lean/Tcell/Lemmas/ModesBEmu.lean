/-
Layer B of C04, part 1 (emulator side, independent of any terminal description): the *mode registers* of the
reference emulator (`MR`, a projection of `Spec.Ecma48.Term`), and which functions of the emulator leave them — and
the parser state — alone (`Keep`).  Main results: `keep_dispatchPlain` (every CSI sequence without private marker
and intermediate bytes, other than the window operations `CSI … t`, is neutral: SGR, cursor movement, erase, SM/RM …),
`keep_printByte` (printing a byte), `mr_decMode` (closed form of DECSET/DECRST on the registers).
-/
import Tcell.Spec.Ecma48Lemmas
namespace Tcell.ModesB
open Tcell Tcell.Spec.Ecma48 Tcell.Spec.Ecma48.Term

/-- the mode registers C04 talks about, exactly as the emulator keeps them -/
structure MR where
  alt : Bool := false
  cv : Bool := true
  kpApp : Bool := false        -- ESC = / ESC >
  ckApp : Bool := false        -- DECSET 1
  smooth : Bool := false       -- DECSET 4
  am : Bool := true
  m1000 : Bool := false
  m1002 : Bool := false
  m1003 : Bool := false
  m1006 : Bool := false
  paste : Bool := false
  focus : Bool := false
  shape : Nat := 0
  color : Option (Nat × Nat × Nat) := none
  colorName : String := ""
  tstack : List String := []
  title : String := ""
deriving DecidableEq, Repr

/-- projection of the emulator state -/
def mr (t : Term) : MR :=
  { alt := t.modes.altScreen, cv := t.modes.cursorVisible, kpApp := t.modes.keypadApp, ckApp := t.modes.cursorKeysApp,
    smooth := t.modes.smoothScroll, am := t.modes.autoMargin, m1000 := t.modes.mouse1000, m1002 := t.modes.mouse1002,
    m1003 := t.modes.mouse1003, m1006 := t.modes.mouse1006, paste := t.modes.paste2004, focus := t.modes.focus1004,
    shape := t.modes.cursorShape, color := t.modes.cursorColor, colorName := t.modes.cursorColorName,
    tstack := t.modes.titleStack, title := t.modes.title }

/-- parser state and mode registers untouched -/
def Keep (t t' : Term) : Prop := t'.st = t.st ∧ mr t' = mr t

theorem Keep.refl (t : Term) : Keep t t := ⟨rfl, rfl⟩
theorem Keep.trans {a b c : Term} (h1 : Keep a b) (h2 : Keep b c) : Keep a c := ⟨h2.1.trans h1.1, h2.2.trans h1.2⟩

/-- anything that changes neither `st` nor the registers of `modes` that `mr` reads -/
theorem keep_of (t t' : Term) (h1 : t'.st = t.st) (h2 : mr t' = mr t) : Keep t t' := ⟨h1, h2⟩

theorem keep_complain (t : Term) (msg : String) : Keep t (t.complain msg) := ⟨rfl, rfl⟩
theorem keep_garbageAll (t : Term) : Keep t t.garbageAll := ⟨rfl, rfl⟩

theorem keep_lineFeed (t : Term) : Keep t t.lineFeed := by
  unfold lineFeed; split
  · exact ⟨rfl, rfl⟩
  · split <;> exact ⟨rfl, rfl⟩

theorem keep_reverseIndex (t : Term) : Keep t t.reverseIndex := by
  unfold reverseIndex; split
  · exact ⟨rfl, rfl⟩
  · split <;> exact ⟨rfl, rfl⟩

theorem keep_doWrap (t : Term) : Keep t t.doWrap := by
  unfold doWrap; split
  · split
    · exact (keep_lineFeed t).trans ⟨rfl, rfl⟩
    · exact ⟨rfl, rfl⟩
  · exact Keep.refl t

theorem keep_insertChars (t : Term) (n : Nat) : Keep t (t.insertChars n) := by
  unfold insertChars; split <;> exact ⟨rfl, rfl⟩
theorem keep_deleteChars (t : Term) (n : Nat) : Keep t (t.deleteChars n) := by
  unfold deleteChars; split <;> exact ⟨rfl, rfl⟩

theorem keep_putNarrowAt (t : Term) (cp : Int) : Keep t (t.putNarrowAt cp) := by
  unfold putNarrowAt; simp only; split <;> exact ⟨rfl, rfl⟩
theorem keep_putWideAt (t : Term) (cp : Int) : Keep t (t.putWideAt cp) := by
  unfold putWideAt; simp only; split <;> exact ⟨rfl, rfl⟩

theorem keep_ite (t : Term) (p : Prop) [Decidable p] (a b : Term) (ha : Keep t a) (hb : Keep t b) :
    Keep t (if p then a else b) := by split <;> assumption

theorem keep_putNarrow (t : Term) (cp : Int) : Keep t (t.putNarrow cp) := by
  unfold putNarrow; split
  · exact keep_garbageAll t
  · simp only
    refine Keep.trans (b := if t.doWrap.modes.insertMode = true then t.doWrap.insertChars 1 else t.doWrap) ?_ (keep_putNarrowAt _ cp)
    exact keep_ite t _ _ _ ((keep_doWrap t).trans (keep_insertChars _ 1)) (keep_doWrap t)

theorem keep_putWide (t : Term) (cp : Int) : Keep t (t.putWide cp) := by
  unfold putWide; split
  · exact keep_garbageAll t
  · simp only
    have h1 : Keep t (if t.doWrap.w < t.doWrap.cx + 2 ∧ t.doWrap.modes.autoMargin = true then { t.doWrap.lineFeed with cx := 0 } else t.doWrap) :=
      keep_ite t _ _ _ ((keep_doWrap t).trans ((keep_lineFeed _).trans ⟨rfl, rfl⟩)) (keep_doWrap t)
    generalize (if t.doWrap.w < t.doWrap.cx + 2 ∧ t.doWrap.modes.autoMargin = true then { t.doWrap.lineFeed with cx := 0 } else t.doWrap) = u at h1
    split
    · exact h1
    · exact h1.trans (Keep.trans (keep_ite u _ _ _ (keep_insertChars u 2) (Keep.refl u)) (keep_putWideAt _ cp))

theorem keep_addMark (t : Term) (x y : Nat) (cp : Int) : Keep t (t.addMark x y cp) := ⟨rfl, rfl⟩

theorem keep_putCombiningPos (t : Term) (cp : Int) : Keep t (t.putCombiningPos cp) := by
  unfold putCombiningPos; simp only
  repeat' split
  all_goals first | exact Keep.refl t | exact keep_addMark _ _ _ _

theorem keep_putCombining (t : Term) (cp : Int) : Keep t (t.putCombining cp) := by
  unfold putCombining; split
  · exact keep_garbageAll t
  · split
    · split
      · exact keep_addMark _ _ _ _
      · exact keep_putCombiningPos t cp
    · exact keep_putCombiningPos t cp

theorem keep_putGlyph (t : Term) (cp : Int) (wd : Nat) : Keep t (t.putGlyph cp wd) := by
  unfold putGlyph; split
  · exact keep_putCombining t cp
  · exact keep_putNarrow t cp
  · exact keep_putWide t cp

theorem keep_printByte (t : Term) (b : Nat) : Keep t (t.printByte b) := by
  unfold printByte; split
  · exact keep_putGlyph _ _ _
  · split <;> exact keep_putGlyph _ _ _

theorem keep_eraseDisplay (t : Term) (mode : Nat) : Keep t (t.eraseDisplay mode) := by
  unfold eraseDisplay
  split
  · exact ⟨rfl, rfl⟩
  · split
    · exact Keep.refl t
    · split
      · exact keep_garbageAll t
      · split <;> exact ⟨rfl, rfl⟩

theorem keep_eraseLine (t : Term) (mode : Nat) : Keep t (t.eraseLine mode) := by
  unfold eraseLine
  split
  · exact keep_garbageAll t
  · split
    · exact ⟨rfl, rfl⟩
    · split <;> exact ⟨rfl, rfl⟩

theorem keep_ansiMode (t : Term) (n : Nat) (on : Bool) : Keep t (t.ansiMode n on) := by
  unfold ansiMode; split
  · exact ⟨rfl, rfl⟩
  · split
    · exact ⟨rfl, rfl⟩
    · exact keep_complain _ _

theorem keep_eachParam (f : Term → Nat → Term) (hf : ∀ t n, Keep t (f t n)) (ps : List Param) (t : Term) :
    Keep t (eachParam ps f t) := by
  unfold eachParam
  induction ps generalizing t with
  | nil => exact Keep.refl t
  | cons p r ih =>
    rw [List.foldl_cons]
    refine Keep.trans ?_ (ih _)
    split
    · exact hf _ _
    · exact keep_complain _ _

/-! ### SGR -/

theorem keep_sgrStep (k : List Param → Term → Term) (p : Param) (rest : List Param) (t : Term)
    (hk : ∀ r2 t', Keep t' (k r2 t')) : Keep t (sgrStep k p rest t) := by
  have K : ∀ r2 t', Keep t t' → Keep t (k r2 t') := fun r2 t' h => h.trans (hk r2 t')
  have C : ∀ msg, Keep t (t.complain msg) := fun msg => keep_complain t msg
  unfold sgrStep
  split
  · exact K _ _ ⟨rfl, rfl⟩
  · exact K _ _ ⟨rfl, rfl⟩
  · split
    · split
      · split
        · exact K _ _ ⟨rfl, rfl⟩
        · exact K _ _ (C _)
      · split
        · exact K _ _ ⟨rfl, rfl⟩
        · exact K _ _ (C _)
      · exact C _
    · split
      · exact K _ _ ⟨rfl, rfl⟩
      · split
        · exact K _ _ ⟨rfl, rfl⟩
        · split
          · exact K _ _ ⟨rfl, rfl⟩
          · exact K _ _ (C _)
  · split
    · split
      · split
        · exact K _ _ ⟨rfl, rfl⟩
        · exact K _ _ (C _)
      · exact K _ _ (C _)
    · split
      · split
        · split
          · exact K _ _ ⟨rfl, rfl⟩
          · exact K _ _ (C _)
        · exact K _ _ (C _)
      · exact K _ _ (C _)
  · exact K _ _ (C _)

theorem keep_applySgr : ∀ (f : Nat) (ps : List Param) (t : Term), Keep t (applySgr f ps t) := by
  intro f
  induction f with
  | zero => intro ps t; cases ps <;> exact Keep.refl t
  | succ f ih =>
    intro ps t
    cases ps with
    | nil => exact Keep.refl t
    | cons p rest =>
      rw [applySgr_step]
      exact keep_sgrStep _ _ _ _ (fun r2 t' => ih r2 t')

theorem keep_sgr (t : Term) (ps : List Param) : Keep t (t.sgr ps) := keep_applySgr _ _ _

/-! ### every plain CSI sequence but the window operations -/

theorem keep_dispatchPlain (t : Term) (ps : List Param) (final : Nat) (hf : final ≠ 0x74) :
    Keep t (dispatchPlain t ps final) := by
  unfold dispatchPlain
  by_cases h1 : final = 0x6d
  · rw [if_pos h1]; exact keep_sgr t ps
  rw [if_neg h1, if_neg hf]
  by_cases h2 : (!flat ps) = true
  · rw [if_pos h2]; exact keep_complain _ _
  rw [if_neg h2]
  by_cases h3 : final = 0x48 ∨ final = 0x66
  · rw [if_pos h3]; split
    · exact ⟨rfl, rfl⟩
    · exact keep_complain _ _
  rw [if_neg h3]
  by_cases h4 : final = 0x68
  · rw [if_pos h4]; exact keep_eachParam _ (fun t n => keep_ansiMode t n true) ps t
  rw [if_neg h4]
  by_cases h5 : final = 0x6c
  · rw [if_pos h5]; exact keep_eachParam _ (fun t n => keep_ansiMode t n false) ps t
  rw [if_neg h5]
  by_cases h6 : final = 0x72
  · rw [if_pos h6]; split
    · exact ⟨rfl, rfl⟩
    · exact keep_complain _ _
  rw [if_neg h6]
  by_cases h7 : 1 < ps.length
  · rw [if_pos h7]; exact keep_complain _ _
  rw [if_neg h7]
  by_cases h8 : final = 0x41
  · rw [if_pos h8]; exact ⟨rfl, rfl⟩
  rw [if_neg h8]
  by_cases h9 : final = 0x42
  · rw [if_pos h9]; exact ⟨rfl, rfl⟩
  rw [if_neg h9]
  by_cases h10 : final = 0x43
  · rw [if_pos h10]; exact ⟨rfl, rfl⟩
  rw [if_neg h10]
  by_cases h11 : final = 0x44
  · rw [if_pos h11]; exact ⟨rfl, rfl⟩
  rw [if_neg h11]
  by_cases h12 : final = 0x4a
  · rw [if_pos h12]; split
    · exact keep_eraseDisplay _ _
    · exact keep_complain _ _
  rw [if_neg h12]
  by_cases h13 : final = 0x4b
  · rw [if_pos h13]; split
    · exact keep_eraseLine _ _
    · exact keep_complain _ _
  rw [if_neg h13]
  by_cases h14 : final = 0x40
  · rw [if_pos h14]; exact keep_insertChars _ _
  rw [if_neg h14]
  by_cases h15 : final = 0x50
  · rw [if_pos h15]; exact keep_deleteChars _ _
  rw [if_neg h15]
  exact keep_complain _ _

/-! ### DECSET / DECRST on the registers -/

/-- what `CSI ? n h` (`on = true`) / `CSI ? n l` does to the mode registers -/
def MR.dec (m : MR) (n : Nat) (on : Bool) : MR :=
  if n = 1 then { m with ckApp := on }
  else if n = 4 then { m with smooth := on }
  else if n = 7 then { m with am := on }
  else if n = 25 then { m with cv := on }
  else if n = 47 ∨ n = 1049 then { m with alt := on }
  else if n = 1000 then { m with m1000 := on }
  else if n = 1002 then { m with m1002 := on }
  else if n = 1003 then { m with m1003 := on }
  else if n = 1004 then { m with focus := on }
  else if n = 1006 then { m with m1006 := on }
  else if n = 2004 then { m with paste := on }
  else m

theorem mr_decMode (t : Term) (n : Nat) (on : Bool) : mr (t.decMode n on) = (mr t).dec n on := by
  by_cases h1 : n = 1
  · subst h1; simp [decMode, MR.dec, mr]
  by_cases h4 : n = 4
  · subst h4; simp [decMode, MR.dec, mr]
  by_cases h7 : n = 7
  · subst h7; simp [decMode, MR.dec, mr]
  by_cases h12 : n = 12
  · subst h12; simp [decMode, MR.dec, mr]
  by_cases h25 : n = 25
  · subst h25; simp [decMode, MR.dec, mr]
  by_cases h47 : n = 47
  · subst h47
    cases on <;> cases ha : t.modes.altScreen <;> simp [decMode, MR.dec, mr, ha, swapScreens]
  by_cases h1049 : n = 1049
  · subst h1049
    cases on <;> cases ha : t.modes.altScreen <;>
      simp [decMode, MR.dec, mr, ha, swapScreens, saveCursor, restoreCursor, eraseAll]
  by_cases h1000 : n = 1000
  · subst h1000; simp [decMode, MR.dec, mr]
  by_cases h1002 : n = 1002
  · subst h1002; simp [decMode, MR.dec, mr]
  by_cases h1003 : n = 1003
  · subst h1003; simp [decMode, MR.dec, mr]
  by_cases h1004 : n = 1004
  · subst h1004; simp [decMode, MR.dec, mr]
  by_cases h1006 : n = 1006
  · subst h1006; simp [decMode, MR.dec, mr]
  by_cases h2004 : n = 2004
  · subst h2004; simp [decMode, MR.dec, mr]
  have e1 : t.decMode n on = t.complain "mode unknown private mode" := by
    unfold decMode
    simp only [if_neg h1, if_neg h4, if_neg h7, if_neg h12, if_neg h25, if_neg h47, if_neg h1049, if_neg h1000, if_neg h1002,
      if_neg h1003, if_neg h1004, if_neg h1006, if_neg h2004]
  have e2 : (mr t).dec n on = mr t := by
    unfold MR.dec
    have h : ¬ (n = 47 ∨ n = 1049) := by omega
    simp only [if_neg h1, if_neg h4, if_neg h7, if_neg h25, if_neg h, if_neg h1000, if_neg h1002,
      if_neg h1003, if_neg h1004, if_neg h1006, if_neg h2004]
  rw [e1, e2]; rfl

/-- title stack operations on the registers -/
def MR.push (m : MR) : MR := { m with tstack := m.title :: m.tstack }
def MR.pop (m : MR) : MR :=
  match m.tstack with
  | [] => m
  | s :: r => { m with title := s, tstack := r }

theorem mr_pushTitle (t : Term) : mr t.pushTitle = (mr t).push := rfl
theorem mr_popTitle (t : Term) : mr t.popTitle = (mr t).pop := by
  unfold popTitle MR.pop
  cases h : t.modes.titleStack with
  | nil => simp [mr, h]
  | cons s r => simp [mr, h]
theorem st_pushTitle (t : Term) : t.pushTitle.st = t.st := rfl
theorem st_popTitle (t : Term) : t.popTitle.st = t.st := by
  unfold popTitle; split <;> rfl

end Tcell.ModesB
