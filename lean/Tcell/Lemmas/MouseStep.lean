import Tcell.Lemmas.SgrMouse
import Tcell.Lemmas.Collect
/-
One iteration of `collectEventsFromInput` on a buffer that starts with a rendered SGR / X11 mouse report.
-/
namespace Tcell.Lemmas.MouseStep
open Tcell Tcell.Model Tcell.Dec Tcell.Lemmas.SgrMouse Tcell.Lemmas.Collect

/-- the two CSI introducers -/
def IsIntro (intro : Bytes) : Prop := intro = [27, 91] ∨ intro = [0x9b]

theorem render_append (intro : Bytes) (b x y : Int) (fin : Nat) (rest : Bytes) :
    render intro b x y fin ++ rest
      = intro ++ (60 :: (showInt b ++ (59 :: (showInt x ++ (59 :: (showInt y ++ fin :: rest)))))) := by
  simp [render]

/-- the event and state the model produces for an SGR report -/
def sgrEvent (cfg : Cfg) (st : PState) (b x y : Int) (fin : Nat) : Event :=
  buildMouseEvent cfg (x - 1) (y - 1) ((sgrButtons st b (fin = 109)).1 : Int)

def sgrState (st : PState) (b : Int) (fin : Nat) : PState :=
  { st with buttondn := (sgrButtons st b (fin = 109)).2 }

theorem parseSgr_report (cfg : Cfg) (st : PState) (intro : Bytes) (hi : IsIntro intro) (b x y : Int)
    (hb : Fits b) (hx : Fits x) (hy : Fits y) (fin : Nat) (hf : fin = 77 ∨ fin = 109) (rest : Bytes) :
    parseSgrMouse cfg st (render intro b x y fin ++ rest)
      = .complete (render intro b x y fin).length [sgrEvent cfg st b x y fin] (sgrState st b fin) := by
  rw [render_append, render_length]
  unfold parseSgrMouse
  rcases hi with rfl | rfl
  · have : sgrRun cfg st {} ([27, 91] ++ (60 :: (showInt b ++ (59 :: (showInt x ++ (59 :: (showInt y ++ fin :: rest))))))) 0
        = sgrRun cfg st { state := 2 } (60 :: (showInt b ++ (59 :: (showInt x ++ (59 :: (showInt y ++ fin :: rest)))))) 2 := by
      simp [sgrRun, sgrStepV, sgrKnown, sgrStep]
    rw [this, sgrRun_body cfg st b x y hb hx hy fin hf rest 2]
    simp [sgrFinish, sgrEvent, sgrState]
  · have : sgrRun cfg st {} ([0x9b] ++ (60 :: (showInt b ++ (59 :: (showInt x ++ (59 :: (showInt y ++ fin :: rest))))))) 0
        = sgrRun cfg st { state := 2 } (60 :: (showInt b ++ (59 :: (showInt x ++ (59 :: (showInt y ++ fin :: rest)))))) 1 := by
      simp [sgrRun, sgrStepV, sgrKnown, sgrStep]
    rw [this, sgrRun_body cfg st b x y hb hx hy fin hf rest 1]
    simp [sgrFinish, sgrEvent, sgrState]

/-- side conditions under which the earlier parsers stay silent on a mouse report: the terminal has mouse support,
the character decoder never produces a rune from the 8-bit introducer 0x9B (true for UTF-8, `decUtf8_silent_9b`) -/
structure MouseOK (cfg : Cfg) : Prop where
  mouse : cfg.mouse = true
  dec : DecSilent cfg.dec 0x9b

theorem step1_sgr (cfg : Cfg) (hc : MouseOK cfg) (st : PState) (intro : Bytes) (hi : IsIntro intro) (b x y : Int)
    (hb : Fits b) (hx : Fits x) (hy : Fits y) (fin : Nat) (hf : fin = 77 ∨ fin = 109) (rest : Bytes) (e : Bool)
    (hk : keyMatches cfg.keys (render intro b x y fin ++ rest) = []) :
    step1 cfg st (render intro b x y fin ++ rest) e = .emit [sgrEvent cfg st b x y fin] (sgrState st b fin) rest := by
  have hsgr := parseSgr_report cfg st intro hi b x y hb hx hy fin hf rest
  have hkey := parseFunctionKey_silent cfg.keys st _ hk
  unfold step1 parsers
  simp only [hc.mouse, if_true]
  generalize hbuf : render intro b x y fin ++ rest = buf at *
  have hrune : Silent (parseRune cfg.dec st buf) := by
    rw [← hbuf, render_append]
    rcases hi with rfl | rfl
    · right; exact parseRune_esc _ _ _
    · left; exact parseRune_silent _ _ _ _ (by decide) hc.dec
  have hfocus : Silent (parseFocus st buf) := by
    rw [← hbuf, render_append]
    rcases hi with rfl | rfl <;> (right; simp [parseFocus])
  have hx11 : Silent (parseXtermMouse cfg st buf) := by
    rw [← hbuf, render_append]
    rcases hi with rfl | rfl <;> (right; simp [parseXtermMouse, x11Body])
  simp only [List.cons_append, List.nil_append]
  obtain ⟨n1, h1⟩ := tryParsers_skip st buf e _ _ hrune 0
  rw [h1]
  obtain ⟨n2, h2⟩ := tryParsers_skip st buf e _ _ hkey n1
  rw [h2]
  obtain ⟨n3, h3⟩ := tryParsers_skip st buf e _ _ hfocus n2
  rw [h3]
  obtain ⟨n4, h4⟩ := tryParsers_skip st buf e _ _ hx11 n3
  rw [h4, tryParsers_hit st buf e _ _ _ _ _ hsgr n4, ← hbuf]
  simp

end Tcell.Lemmas.MouseStep
