/-
Definitions used to state the Layer-A theorems of C01/C13: what a cell is expected to look like on the
terminal, the cross-Show invariant, and which cells a draw pass visits.
-/
import Tcell.Spec.ATerm
import Tcell.Lemmas.Cell
namespace Tcell

/-- hypotheses on the rune-width function; each is a generated obligation on the regenerated table -/
structure RwOk (rw : Rune → Int) : Prop where
  zero : rw 0 = 0
  space : rw 32 = 1
  nonneg : ∀ r, 0 ≤ rw r
  le2 : ∀ r, rw r ≤ 2

/-- what GetContent reports as rune / width for a stored rune whose cell satisfies the width invariant -/
def obsMain (rw : Rune → Int) (m : Rune) : Rune := if rw m = 0 ∨ m < 32 then 32 else m
def obsWidth (rw : Rune → Int) (m : Rune) : Int := if rw m = 0 ∨ m < 32 then 1 else rw m

/-- width invariant of a cell whose Fill runes were narrow (cf. C08 `WidthOk`) -/
def WOk (rw : Rune → Int) (c : Cell) : Prop := c.width = rw c.currMain ∨ (c.width = 0 ∧ c.currMain = 32)

/-- the terminal cell expected at column `x` of a screen `w` columns wide for stored content (m, comb)
painted with resolved style `st`: the cell payload, two columns wide for a wide rune, a blank for a wide
rune that does not fit in the last column -/
def shownOf (c : DrawCfg) (w x : Int) (m : Rune) (comb : List Rune) (st : Style) : ACell :=
  let tx := Scr.cellText c w x (obsMain c.rw m) comb (obsWidth c.rw m)
  .shown tx.1 (decide (tx.2 > 1)) st

/-- columns occupied on the terminal by stored rune `m` at column `x` -/
def shownWidth (c : DrawCfg) (w x : Int) (m : Rune) (comb : List Rune) : Int :=
  (Scr.cellText c w x (obsMain c.rw m) comb (obsWidth c.rw m)).2

/-- the same when the locked-neighbour guard of the repaired drawCell is taken into account: `nl` = the guard is
compiled in and the next column was locked when the cell was painted (then a wide rune is a blank of width 1) -/
def shownOfG (c : DrawCfg) (w x : Int) (m : Rune) (comb : List Rune) (st : Style) (nl : Bool) : ACell :=
  let tx := Scr.cellTextG c w x (obsMain c.rw m) comb (obsWidth c.rw m) nl
  .shown tx.1 (decide (tx.2 > 1)) st

/-- the style a cell with style `st` is painted with when the screen default is `dflt` -/
def resolveStyle (dflt st : Style) : Style := if st = ({} : Style) then dflt else st

/-- what the invariant remembers about a cell that was painted as a blank because its right neighbour was locked:
the rune it holds has not been replaced since (its stored width is still positive), and either the neighbour is still
locked or the cell no longer holds a wide rune (then it is Dirty).  LockRegion(…, false) re-dirties the cell
(`redirtyLeft`), which is what keeps this true. -/
def BlankOk (b : Buf) (x y : Int) : Prop :=
  0 < (b.cells x y).width ∧ (b.locked (x + 1) y = true ∨ (b.getContent x y).2.2.2 ≤ 1)

/-- The cross-Show invariant (`d` = the default style every clean StyleDefault cell was painted with,
`none` if unknown/mixed). -/
structure SyncInv (c : DrawCfg) (d : Option Style) (s : Scr) (t : ATerm) : Prop where
  tw : t.w = s.w
  th : t.h = s.h
  cw : s.cells.w = s.w
  ch : s.cells.h = s.h
  wok : ∀ x y, WOk c.rw (s.cells.cells x y)
  valid : s.style.attrs ≠ attrInvalid ∧ ∀ x y, (s.cells.cells x y).currStyle.attrs ≠ attrInvalid
  /-- a clean unlocked cell shows what it held when it was marked clean — a wide rune possibly as the blank of width 1
  the repaired drawCell paints when the next column is locked (`nl`) -/
  g1 : ∀ x y, s.cells.inRange x y → (s.cells.cells x y).lock = false → (s.cells.cells x y).lastMain ≠ 0 →
        ∃ st' nl, t.grid x y = shownOfG c s.w x (s.cells.cells x y).lastMain (s.cells.cells x y).lastComb st' nl ∧
          ((s.cells.cells x y).lastStyle ≠ {} → st' = (s.cells.cells x y).lastStyle) ∧
          ((s.cells.cells x y).lastStyle = {} → ∀ d', d = some d' → st' = d') ∧
          (nl = true → obsWidth c.rw (s.cells.cells x y).lastMain > 1 → c.guardLocked = true ∧ BlankOk s.cells x y)
  /-- the right half of a wide glyph on the terminal belongs to a cell that is locked or needs repaint -/
  g2 : ∀ x y, s.cells.inRange x y → t.grid x y = .cont →
        ((s.cells.cells x y).lock = true ∨ (s.cells.cells x y).lastMain = 0)
  /-- well-formedness of the terminal grid: a continuation cell has a wide glyph to its left -/
  wf : ∀ x y, s.cells.inRange x y → t.grid x y = .cont → ∃ b st, t.grid (x - 1) y = .shown b true st
  /-- a clean unlocked cell that shows a wide glyph has its continuation on the terminal -/
  g3 : ∀ x y, s.cells.inRange x y → (s.cells.cells x y).lock = false → (s.cells.cells x y).lastMain ≠ 0 →
        ∀ b st, t.grid x y = .shown b true st → x + 1 < s.w → t.grid (x + 1) y = .cont

/-- width by which the column walk of the corner trick's `px` loop advances (tscreen.go: `if w < 1 { w = 1 }`) -/
def rawW (b : Buf) (x y : Int) : Int := if (b.getContent x y).2.2.2 < 1 then 1 else (b.getContent x y).2.2.2

/-- column `p` is reached from column `a` by the walk of the `px` loop over row `y` (stored widths, no lock test) -/
inductive RawReach (b : Buf) (y : Int) : Int → Int → Prop
  | refl (a : Int) : RawReach b y a a
  | step (a p : Int) : RawReach b y (a + rawW b a y) p → RawReach b y a p

/-- THE SIDE CONDITION of the corner-trick theorems, on the screen a draw starts from: on a terminal that needs the
bottom-right insert-character trick the screen is at least two columns wide and no cell of the last row is locked.
Why a whole row: drawCell's locked-neighbour guard makes the draw loop step over a wide rune beside a locked cell by one
column, while the trick's `px` loop (tscreen.go drawCell, "Repaint what belongs in the second to last column") walks by
stored widths; one locked cell anywhere in the last row can put the two walks out of phase, and then the trick repaints
a cell the display does not show (see `Props.C01.corner_trick_lock_desync`).  With the neighbour itself locked the trick
writes into a locked cell (open finding C13-corner-trick-locked-neighbour). -/
def CornerSafe (c : DrawCfg) (s : Scr) : Prop :=
  c.cornerTrick = true → 2 ≤ s.w ∧ ∀ i, s.cells.locked i (s.h - 1) = false

/-- what a pass over the last row knows when it is about to visit column `x`: the `px` loop reaches `x` as well, and
the cell the pass came from is clean, with its hidden right half marked dirty -/
structure CornerGhost (s : Scr) (x y : Int) : Prop where
  reach : RawReach s.cells y 0 x
  pred : 1 ≤ x → ∃ p, 0 ≤ p ∧ RawReach s.cells y 0 p ∧ p + rawW s.cells p y = x ∧
    (s.cells.cells p y).lastMain ≠ 0 ∧ (s.cells.cells p y).last = (s.cells.cells p y).content ∧
    (rawW s.cells p y > 1 → (s.cells.cells (p + 1) y).lastMain = 0)

/-- the extra context a pass carries on corner-trick terminals while it is in the last row -/
def CornerCtx (c : DrawCfg) (s : Scr) (x y : Int) : Prop :=
  c.cornerTrick = true → y = s.h - 1 → x < s.w →
    (2 ≤ s.w ∧ (∀ i, s.cells.locked i y = false) ∧ CornerGhost s x y)

/-- the number of columns the draw loop advances by at column `x` (drawCell's return value, tscreen.go:815-970): GetContent's
width, except that a wide rune whose right neighbour is locked counts one column when the repaired drawCell paints it
(`guardLocked`, only if the cell is Dirty — the tree as it is) or always (`walkGuard`, the proposed fix); a wide rune
in the last column leaves the row either way -/
def stepW (c : DrawCfg) (b : Buf) (x y : Int) : Int :=
  if c.guardLocked = true ∧ (b.getContent x y).2.2.2 > 1 ∧ b.locked (x + 1) y = true ∧
      (c.walkGuard = true ∨ b.dirty x y = true) then 1
  else (b.getContent x y).2.2.2

/-- which columns of row `y` the draw loop visits, starting at `x0` (the others are the right halves of
wide runes); mirrors the `x += width - 1` skipping of tscreen.go:1067-1080 -/
def visitsG (c : DrawCfg) (b : Buf) (y : Int) : Nat → Int → Int → Bool
  | 0, _, _ => false
  | fuel + 1, x0, i =>
    if x0 < b.w then
      if i = x0 then true
      else visitsG c b y fuel (x0 + stepW c b x0 y) i
    else false

/-- column `x` of row `y` is visited by a whole-row pass of a draw that starts with buffer `b` -/
def visitedG (c : DrawCfg) (b : Buf) (x y : Int) : Bool := visitsG c b y b.w.toNat 0 x

/-- C13's exception clause "the neighbour used to paint the bottom-right corner on auto-margin terminals": when the
corner cell is repainted, the second to last column of the last row and the cell covering it are written as well -/
def CornerWrite (c : DrawCfg) (b : Buf) (p : Int × Int) : Prop :=
  c.cornerTrick = true ∧ p.2 = b.h - 1 ∧ b.dirty (b.w - 1) (b.h - 1) = true ∧ visitedG c b (b.w - 1) (b.h - 1) = true ∧
    (p.1 = b.w - 2 ∨ p.1 = Scr.coverStart b (b.h - 1) (b.w - 1).toNat 0 (b.w - 1))

/-- the walk of the pinned drawCell (no locked-neighbour guard): it depends on the stored widths only -/
def visits (rw : Rune → Int) (b : Buf) (y : Int) : Nat → Int → Int → Bool
  | 0, _, _ => false
  | fuel + 1, x0, i =>
    if x0 < b.w then
      if i = x0 then true
      else visits rw b y fuel (x0 + (b.getContent x0 y).2.2.2) i
    else false

/-- column `i` of row `y` is visited by a whole-row pass (pinned drawCell) -/
def visited (rw : Rune → Int) (b : Buf) (x y : Int) : Bool := visits rw b y b.w.toNat 0 x

end Tcell

namespace Tcell

/-- one iteration of the inner loop of draw: drawCell, then the neighbour dirtying (tscreen.go:1069-1078) -/
def Scr.visit (c : DrawCfg) (s : Scr) (x y : Int) : Scr × List Cmd × Int :=
  let r := s.drawCell c x y
  let s1 := r.1
  let s2 := if r.2.2 > 1 ∧ x + 1 < s1.w then { s1 with cells := s1.cells.setDirty (x + 1) y true } else s1
  (s2, r.2.1, r.2.2)

/-- the invariant of a draw pass about to visit column `x` of row `y` -/
structure PassInv (c : DrawCfg) (d : Option Style) (s : Scr) (t : ATerm) (x y : Int) : Prop extends SyncInv c d s t where
  /-- the cursor cache is right whenever it names a cell -/
  kcur : s.cells.inRange s.cx s.cy → t.cur = some (s.cx, s.cy)
  /-- the pen cache is right unless it is the "unknown" marker -/
  kpen : s.curstyle ≠ styleInvalid → t.pen = some s.curstyle
  /-- when the visit position is unlocked, the cell just left of it, if clean and unlocked, is narrow on the terminal -/
  q : 1 ≤ x → x < s.w → (s.cells.cells x y).lock = false →
        (s.cells.cells (x - 1) y).lock = false → (s.cells.cells (x - 1) y).lastMain ≠ 0 →
        ∀ b st, t.grid (x - 1) y ≠ .shown b true st
  /-- cells painted in this pass use the current default style -/
  dcompat : ∀ d', d = some d' → d' = s.style

end Tcell

namespace Tcell

/-- what one loop iteration guarantees -/
structure VisitPost (c : DrawCfg) (d : Option Style) (s : Scr) (t : ATerm) (x y : Int)
    (s' : Scr) (t' : ATerm) (wd : Int) : Prop where
  inv : PassInv c d s' t' (x + wd) y
  wd_pos : 1 ≤ wd
  wd_eq : wd = stepW c s.cells x y ∨ (x + wd ≥ s.w ∧ x + stepW c s.cells x y ≥ s.w)
  gc_same : ∀ i j, s'.cells.getContent i j = s.cells.getContent i j
  lock_same : ∀ i j, (s'.cells.cells i j).lock = (s.cells.cells i j).lock
  other_same : ∀ i j, (j ≠ y ∨ i < x ∨ i ≥ x + wd) → s'.cells.cells i j = s.cells.cells i j
  done : (s.cells.cells x y).lock = false →
    (s'.cells.cells x y).lastMain ≠ 0 ∧ (s'.cells.cells x y).last = (s'.cells.cells x y).content
  w_same : s'.w = s.w
  h_same : s'.h = s.h
  style_same : s'.style = s.style
  cursor_same : s'.cursorx = s.cursorx ∧ s'.cursory = s.cursory ∧ s'.cursorStyle = s.cursorStyle ∧ s'.cursorColor = s.cursorColor
  flags_same : s'.clear = s.clear ∧ s'.fini = s.fini
  /-- payload goes to the visited cell only, and only if it is dirty — except in the bottom-right corner trick, which
  also writes the second to last column and the cell covering it (`cornerPx`) -/
  writes : ∃ ws, t'.writes = ws ++ t.writes ∧ (s.cells.dirty x y = false → ws = []) ∧
    ∀ p ∈ ws, p = (x, y) ∨ (c.cornerTrick = true ∧ y = s.h - 1 ∧ x = s.w - 1 ∧ p.2 = y ∧
      (p.1 = s.w - 2 ∨ p.1 = Scr.coverStart s.cells y x.toNat 0 x))
  /-- with the guard compiled in, no cell a payload of this iteration occupies — the addressed cell or the right half
  of a two-column glyph — is locked -/
  covers : ∃ cs, t'.covered = cs ++ t.covered ∧ (c.guardLocked = true → ∀ p ∈ cs, s.cells.locked p.1 p.2 = false)
  vis_same : t'.visible = t.visible ∧ t'.shape = t.shape
  /-- the draw loop marks the hidden right half of a two-column step dirty -/
  nb : wd > 1 → x + 1 < s.w → (s'.cells.cells (x + 1) y).lastMain = 0

end Tcell
