/-
Layer B of C01/C13, part 9: the bottom-right corner trick at the level of bytes.

On a terminal with automatic margins that cannot switch them off, drawCell (tscreen.go:815-836) never writes into the
bottom-right cell: it writes the glyph one column to the left, moves the cursor back onto it, inserts a character
(`ich1`), which pushes the glyph into the last cell, and repaints the cell it borrowed.  Layer A (`Lemmas/DrawCorner.lean`)
carries this through the cross-Show invariant on the abstract terminal (`ATerm.insertAt`).  Here:

* `ich_feed` — `CSI @` on the reference emulator is ICH with count 1; `ichFx_of`: hence `IchFx` for every description whose `ich1`
  is (padding removed) `CSI @`;
* (`sim_insertChar`, `AdmitIch`, `IchFx` live in `Lemmas/LayerBCmd.lean`: **the simulation step for `Cmd.insertChar`** is a case of
  `sim_cmd`; `Lemmas/LayerBAdmit.lean` `corner_step` proves every `ich1` of every draw admissible — the history theorems for
  corner-trick terminals are `Props.C01B.cl_show_faithful_bytes` …);
* `corner_trick_bytes` — the whole first half of the trick `goto (w-2, y); setPen s; put glyph; goto (w-2, y); ich1`, from ANY
  emulator state that represents the abstract terminal, for every terminal description with `CapsFx` and an `ich1` that is
  `CSI @`: the emulator shows the glyph with `penOf rc s` in the LAST column of row `y`, the cursor is known and in column
  `w-2` with no wrap pending (so the screen has not scrolled) and the tokenizer has not complained;
* `xl_corner_trick_bytes` / `Props.C01B.cygwin_corner_bytes` — `CapsFx` does not depend on the corner-trick conjunct of the class
  (`CapsOk`), so the statement holds without effect hypotheses for the database entries of `CornerLike`.
-/
import Tcell.Lemmas.LayerBXtermFx
namespace Tcell.LayerB
open Tcell Tcell.Spec.Ecma48 Tcell.Spec.Ecma48.Term
open Tcell.Render (tp)

/-- `CSI @` = ICH, one character -/
theorem ich_feed {rw} {t : Term} (g : Good rw t) : t.feed [27, 91, 64] = t.insertChars 1 := by
  have := feed_csi_plain t g.st [] 0x40 [[none]] (by simp) (by omega) rfl
  simp only [csiSeq, List.append_nil, List.cons_append, List.nil_append] at this
  rw [this]; simp [dispatchPlain, argCount, arg, flat]

theorem ichFx_of (dc : DrawCfg) (rc : RenderCfg) (h : Tcell.Spec.TermCaps.stripPadding rc.ti.insertChar = [27, 91, 64]) :
    IchFx dc rc := by
  intro t g
  simp only [Render.render, tp_strip, h]; exact ich_feed g

/-! ## the first half of the trick as a whole -/

theorem clampX_in (a : ATerm) (x : Int) (h0 : 0 ≤ x) (h1 : x < a.w) : a.clampX x = x := by
  unfold ATerm.clampX; split <;> (try split) <;> omega
theorem clampY_in (a : ATerm) (y : Int) (h0 : 0 ≤ y) (h1 : y < a.h) : a.clampY y = y := by
  unfold ATerm.clampY; split <;> (try split) <;> omega

/-- the statement of `corner_trick_bytes` for a draw / render configuration -/
def CornerTrickFx (dc : DrawCfg) (rc : RenderCfg) : Prop :=
  ∀ {t : Term} {a : ATerm}, Rep dc rc t a → ∀ (y : Int), 0 ≤ y → y < a.h → 2 ≤ a.w → a.w < TParm.maxInt64 → a.h < TParm.maxInt64 →
    ∀ (s : Style), StyleOk s → ∀ (bytes : List Nat), PayloadOk dc.rw bytes 1 →
    let cmds := [Cmd.goto (a.w - 2) y, .setPen s, .put bytes 1, .goto (a.w - 2) y, .insertChar]
    let t' := t.feed (Render.renderAll rc cmds)
    Rep dc rc t' (a.applyAll cmds) ∧
    (a.applyAll cmds).grid (a.w - 1) y = .shown bytes false s ∧
    (t'.grid.get (a.w - 1).toNat y.toNat).runes.flatMap Utf8.encode = bytes ∧
    (t'.grid.get (a.w - 1).toNat y.toNat).pen = penOf rc s ∧ (t'.grid.get (a.w - 1).toNat y.toNat).garbage = false ∧
    t'.cursorKnown = true ∧ (t'.cx : Int) = a.w - 2 ∧ (t'.cy : Int) = y ∧ t'.pendingWrap = false ∧ t'.malformed = []

/-- **the corner trick, bytes**: from any emulator state representing the abstract terminal `a` (at least two columns wide),
    the bytes of `goto (w-2, y); setPen s; put glyph; goto (w-2, y); ich1` leave an emulator that represents the abstract
    terminal after these five commands; in it the glyph, with the rendition `penOf rc s`, is in the LAST column of row `y`,
    the cursor is known, in column `w-2`, with no wrap pending (nothing has scrolled); the tokenizer has accepted every byte -/
theorem corner_trick_bytes {dc : DrawCfg} {rc : RenderCfg} (hrw : RwB dc.rw) (fx : CapsFx dc rc) (hich : IchFx dc rc) :
    CornerTrickFx dc rc := by
  intro t a R y hy0 hyh hw hwm hhm s hs bytes hp
  intro cmds t'
  -- the abstract side, step by step
  have hcx := clampX_in a (a.w - 2) (by omega) (by omega)
  have hcy := clampY_in a y hy0 hyh
  let a1 : ATerm := { a with cur := some (a.w - 2, y) }
  let a2 : ATerm := { a1 with pen := some s }
  let a3 : ATerm := a2.putAt (a.w - 2) y bytes 1 s
  let a4 : ATerm := { a3 with cur := some (a.w - 2, y) }
  have e1 : a.apply (.goto (a.w - 2) y) = a1 := by simp only [ATerm.apply, hcx, hcy]; rfl
  have e2 : a1.apply (.setPen s) = a2 := rfl
  have hin2 : a2.inGrid (a.w - 2) y := ⟨by omega, by show a.w - 2 < a.w; omega, hy0, hyh⟩
  have e3 : a2.apply (.put bytes 1) = a3 := by
    have : a2.apply (.put bytes 1) = if a2.inGrid (a.w - 2) y then a2.putAt (a.w - 2) y bytes 1 s
        else { a2.allGarbage with cur := none, chaos := true } := rfl
    rw [this, if_pos hin2]
  have hw3 : a3.w = a.w := by show (a2.putAt _ _ _ _ _).w = a.w; rw [ATerm.putAt_w]
  have hh3 : a3.h = a.h := by show (a2.putAt _ _ _ _ _).h = a.h; rw [ATerm.putAt_h]
  have e4 : a3.apply (.goto (a.w - 2) y) = a4 := by
    have c1 := clampX_in a3 (a.w - 2) (by omega) (by rw [hw3]; omega)
    have c2 := clampY_in a3 y hy0 (by rw [hh3]; exact hyh)
    simp only [ATerm.apply, c1, c2]; rfl
  have eall4 : a.applyAll [Cmd.goto (a.w - 2) y, .setPen s, .put bytes 1, .goto (a.w - 2) y] = a4 := by
    simp only [ATerm.applyAll, List.foldl_cons, List.foldl_nil, e1, e2, e3, e4]
  have eall : a.applyAll cmds = a4.apply .insertChar := by
    show a.applyAll ([Cmd.goto (a.w - 2) y, .setPen s, .put bytes 1, .goto (a.w - 2) y] ++ [.insertChar]) = _
    rw [applyAll_append, eall4]; rfl
  -- admissibility of the first four commands
  have ad : AdmitAll dc a [Cmd.goto (a.w - 2) y, .setPen s, .put bytes 1, .goto (a.w - 2) y] := by
    refine ⟨⟨by omega, hy0, by omega, by omega⟩, ?_⟩
    rw [e1]; refine ⟨hs, ?_⟩
    rw [e2]; refine ⟨⟨a.w - 2, y, s, rfl, rfl, hin2, by show a.w - 2 + 1 ≤ a.w; omega, hp⟩, ?_⟩
    rw [e3]; exact ⟨⟨by omega, hy0, by omega, by omega⟩, trivial⟩
  have R4 := sim_all hrw fx (fun _ => hich) _ R ad
  rw [eall4] at R4
  -- the insertion
  have g33 : a4.grid (a.w - 2) y = .shown bytes false s := by
    show (a2.putAt (a.w - 2) y bytes 1 s).grid (a.w - 2) y = _
    rw [ATerm.putAt_grid]; simp
  have g34 : a4.grid (a.w - 2 + 1) y ≠ .cont := by
    show (a2.putAt (a.w - 2) y bytes 1 s).grid (a.w - 2 + 1) y ≠ _
    rw [ATerm.putAt_grid]
    split
    · rename_i h; exact absurd h.2.2 (by omega)
    · split
      · intro h; cases h
      · split
        · intro h; cases h
        · split
          · intro h; cases h
          · rename_i h4
            split
            · intro h; cases h
            · intro hc; exact h4 ⟨rfl, rfl, by omega, hc⟩
  have hadm : AdmitIch a4 :=
    ⟨a.w - 2, y, bytes, s, rfl, ⟨by omega, by show a.w - 2 < a3.w; rw [hw3]; omega, hy0, by show y < a3.h; rw [hh3]; exact hyh⟩,
      g33, g34, by show a.w - 2 + 2 = a3.w; rw [hw3]; omega⟩
  have eins : a4.apply .insertChar = a4.insertAt (a.w - 2) y := by
    have : a4.apply .insertChar = if a4.inGrid (a.w - 2) y then a4.insertAt (a.w - 2) y
        else { a4.allGarbage with chaos := true } := rfl
    rw [this, if_pos ⟨by omega, by show a.w - 2 < a3.w; rw [hw3]; omega, hy0, by show y < a3.h; rw [hh3]; exact hyh⟩]
  have R5 := sim_insertChar hich R4 hadm
  have et : t' = (t.feed (Render.renderAll rc [Cmd.goto (a.w - 2) y, .setPen s, .put bytes 1, .goto (a.w - 2) y])).feed
      (Render.render rc .insertChar) := by
    show t.feed (Render.renderAll rc ([Cmd.goto (a.w - 2) y, .setPen s, .put bytes 1, .goto (a.w - 2) y] ++ [.insertChar])) = _
    rw [feed_append]
    simp [Render.renderAll]
  rw [← et, ← eall] at R5
  -- what the abstract terminal says about the last cell and the cursor
  have hlast : (a.applyAll cmds).grid (a.w - 1) y = .shown bytes false s := by
    rw [eall, eins, insertAt_corner_grid a4 (a.w - 2) y bytes s g33 (by show a.w - 2 + 2 = a3.w; rw [hw3]; omega),
      if_neg (show ¬ (y = y ∧ a.w - 1 = a.w - 2) from by omega), if_pos (show y = y ∧ a.w - 1 = a.w - 2 + 1 from ⟨rfl, by omega⟩)]
  have hcur : (a.applyAll cmds).cur = some (a.w - 2, y) := by
    rw [eall, eins]; rfl
  have hW : (t'.grid.w : Int) = a.w := by rw [R5.w, eall, eins]; exact hw3
  have hH : (t'.grid.h : Int) = a.h := by rw [R5.h, eall, eins]; exact hh3
  have cr := R5.cells (a.w - 1).toNat y.toNat (by omega) (by omega)
  rw [show (((a.w - 1).toNat : Nat) : Int) = a.w - 1 by omega, show ((y.toNat : Nat) : Int) = y by omega, hlast] at cr
  obtain ⟨ck, ccy, c1, _⟩ := R5.cur _ _ hcur (by omega) hy0
  obtain ⟨ccx, cpw⟩ := c1 (by omega)
  exact ⟨R5, hlast, cr.2.2.1, cr.2.2.2, cr.2.1, ck, by omega, by omega, cpw, R5.good.mal⟩

/-- **the corner trick on every description whose strings are in the class** (`CapsOk`: the class without its no-corner-trick
    condition) and whose `ich1` is `CSI @` -/
theorem xl_corner_trick_bytes {dc : DrawCfg} {rc : RenderCfg} (hrw : RwB dc.rw) (hx : CapsOk rc.ti = true) (hd : rc.d = derive rc.ti)
    (hfit : FitOk rc) (hh : dc.hasHide = !rc.ti.hideCursor.isEmpty)
    (hi : Tcell.Spec.TermCaps.stripPadding rc.ti.insertChar = [27, 91, 64]) : CornerTrickFx dc rc :=
  corner_trick_bytes hrw (xl_capsFx dc hx hd hfit hh) (ichFx_of dc rc hi)

end Tcell.LayerB
