import Tcell.Model.Color
/-
Helper lemmas for C16: the bit-level facts that turn the `&&&`/`|||` expressions of color.go into `testBit` / `%`
facts that `omega` and `simp` can finish (no `bv_decide`).
-/
namespace Tcell.Color

/-! ### generic bit facts -/

theorem and_two_pow_ne_zero (c k : Nat) : (c &&& 2^k != 0) = c.testBit k := by
  cases h : c.testBit k
  · have : c &&& 2^k = 0 := by
      apply Nat.eq_of_testBit_eq; intro i
      simp only [Nat.testBit_and, Nat.testBit_two_pow, Nat.zero_testBit]
      by_cases hk : k = i
      · subst hk; simp [h]
      · simp [hk]
    simp [this]
  · have h1 : (c &&& 2^k).testBit k = true := by simp [Nat.testBit_and, h]
    have : c &&& 2^k ≠ 0 := by
      intro h0; rw [h0] at h1; simp at h1
    simp [this]

theorem or_two_pow_of_testBit (c k : Nat) (h : c.testBit k = true) : c ||| 2^k = c := by
  apply Nat.eq_of_testBit_eq; intro i
  simp only [Nat.testBit_or, Nat.testBit_two_pow]
  by_cases hk : k = i
  · subst hk; simp [h]
  · simp [hk]

/-! ### the flags as bits -/

theorem valid_eq (c : Nat) : valid c = c.testBit 32 := and_two_pow_ne_zero c 32

theorem rgbBit_eq (c : Nat) : (c &&& fIsRGB != 0) = c.testBit 33 := and_two_pow_ne_zero c 33

theorem isRGB_eq (c : Nat) : isRGB c = (c.testBit 32 && c.testBit 33) := by
  unfold isRGB fValid fIsRGB
  have hm32 : (2^32 ||| 2^33 : Nat).testBit 32 = true := by decide
  have hm33 : (2^32 ||| 2^33 : Nat).testBit 33 = true := by decide
  by_cases h32 : c.testBit 32 = true
  · by_cases h33 : c.testBit 33 = true
    · rw [h32, h33]
      have : c &&& (2^32 ||| 2^33) = (2^32 ||| 2^33) := by
        apply Nat.eq_of_testBit_eq; intro i
        rw [Nat.testBit_and, Nat.testBit_or, Nat.testBit_two_pow, Nat.testBit_two_pow]
        by_cases h1 : 32 = i
        · subst h1; simp [h32]
        · by_cases h2 : 33 = i
          · subst h2; simp [h33]
          · simp [h1, h2]
      rw [this]; simp
    · have h33' : c.testBit 33 = false := by simpa using h33
      rw [h32, h33']
      have : c &&& (2^32 ||| 2^33) ≠ (2^32 ||| 2^33) := by
        intro h
        have : (c &&& (2^32 ||| 2^33)).testBit 33 = (2^32 ||| 2^33 : Nat).testBit 33 := by rw [h]
        rw [Nat.testBit_and, h33', hm33] at this
        simp at this
      simpa using this
  · have h32' : c.testBit 32 = false := by simpa using h32
    rw [h32']
    have : c &&& (2^32 ||| 2^33) ≠ (2^32 ||| 2^33) := by
      intro h
      have : (c &&& (2^32 ||| 2^33)).testBit 32 = (2^32 ||| 2^33 : Nat).testBit 32 := by rw [h]
      rw [Nat.testBit_and, h32', hm32] at this
      simp at this
    simpa using this

theorem testBit_or3 (a x b i : Nat) : (a ||| x ||| b).testBit i = (a.testBit i || x.testBit i || b.testBit i) := by
  simp [Nat.testBit_or]

/-! ### signed conversions -/

theorem ofSigned_lt (v : Int) : ofSigned v < 2^64 := by unfold ofSigned; omega

theorem ofSigned_of_nonneg (v : Int) (h0 : 0 ≤ v) (h1 : v < 2^64) : ofSigned v = v.toNat := by
  unfold ofSigned; omega

theorem ofSigned_natCast (n : Nat) (h : n < 2^64) : ofSigned (n : Int) = n := by
  unfold ofSigned; omega

theorem ofSigned_mod24 (v : Int) : ((ofSigned v % 2^24 : Nat) : Int) = v % 2^24 := by
  unfold ofSigned; omega

theorem ofSigned_neg_one : ofSigned (-1) = 2^64 - 1 := by decide

theorem and255_lt (x : Int) : and255 x < 256 := by unfold and255; omega

theorem and255_of_range (x : Int) (h0 : 0 ≤ x) (h1 : x < 256) : and255 x = x.toNat := by
  unfold and255; omega

/-! ### NewHexColor -/

theorem newHexColor_testBit (v : Int) (i : Nat) :
    (newHexColor v).testBit i = (decide (33 = i) || (ofSigned v).testBit i || decide (32 = i)) := by
  unfold newHexColor fIsRGB fValid
  simp only [Nat.testBit_or, Nat.testBit_two_pow]

theorem valid_newHexColor (v : Int) : valid (newHexColor v) = true := by
  rw [valid_eq, newHexColor_testBit]; simp

theorem isRGB_newHexColor (v : Int) : isRGB (newHexColor v) = true := by
  rw [isRGB_eq, newHexColor_testBit, newHexColor_testBit]; simp

theorem newHexColor_mod24 (v : Int) : newHexColor v % 2^24 = ofSigned v % 2^24 := by
  unfold newHexColor fIsRGB fValid
  rw [Nat.or_mod_two_pow, Nat.or_mod_two_pow]
  have h1 : 2^33 % 2^24 = 0 := by decide
  have h2 : 2^32 % 2^24 = 0 := by decide
  simp [h1, h2]

theorem and_ffffff (c : Nat) : c &&& 0xffffff = c % 2^24 := by
  have := Nat.and_two_pow_sub_one_eq_mod c 24
  simpa using this

theorem and_ff (c : Nat) : c &&& 0xff = c % 2^8 := by
  have := Nat.and_two_pow_sub_one_eq_mod c 8
  simpa using this

/-- Hex of an RGB-flagged valid colour is its low 24 bits -/
theorem hex_of_rgbBit (c : Nat) (hv : c.testBit 32 = true) (hr : c.testBit 33 = true) : hex c = ((c % 2^24 : Nat) : Int) := by
  unfold hex
  rw [valid_eq, hv, rgbBit_eq, hr, and_ffffff]
  simp

theorem hex_newHexColor_general (v : Int) : hex (newHexColor v) = v % 2^24 := by
  rw [hex_of_rgbBit _ (by rw [newHexColor_testBit]; simp) (by rw [newHexColor_testBit]; simp),
    newHexColor_mod24, ofSigned_mod24]

/-- the canonical value for an in-range argument -/
theorem newHexColor_of_range (v : Int) (h0 : 0 ≤ v) (h1 : v < 2^24) : newHexColor v = 2^33 + 2^32 + v.toNat := by
  unfold newHexColor fIsRGB fValid
  rw [ofSigned_of_nonneg v h0 (by omega)]
  have hlt : v.toNat < 2^24 := by omega
  have e1 : 2^33 ||| v.toNat = 2^33 + v.toNat := by
    have := Nat.two_pow_add_eq_or_of_lt (i := 33) (b := v.toNat) (by omega) 1
    simpa using this.symm
  rw [e1]
  have e2 : (2^33 + v.toNat) ||| 2^32 = 2^33 + v.toNat + 2^32 := by
    -- 2^33 + v = 2^32 * 2 + v with v < 2^32 ; bit 32 is clear
    have hb : (2^33 + v.toNat).testBit 32 = false := by
      have : 2^33 + v.toNat = 2^32 * 2 + v.toNat := by omega
      rw [this, Nat.testBit_two_pow_mul_add 2 (by omega : v.toNat < 2^32)]
      simp
    apply Nat.eq_of_testBit_eq; intro i
    have : 2^33 + v.toNat + 2^32 = 2^32 * 3 + v.toNat := by omega
    rw [this, Nat.testBit_two_pow_mul_add 3 (by omega : v.toNat < 2^32)]
    have h2 : 2^33 + v.toNat = 2^32 * 2 + v.toNat := by omega
    rw [Nat.testBit_or, h2, Nat.testBit_two_pow_mul_add 2 (by omega : v.toNat < 2^32), Nat.testBit_two_pow]
    by_cases hi : i < 32
    · simp [hi]; omega
    · simp only [hi, if_false]
      by_cases h32 : i = 32
      · subst h32; decide
      · have : ¬ (32 = i) := by omega
        simp only [this, decide_false, Bool.or_false]
        -- bits of 2 and 3 agree above bit 0
        have : i - 32 = (i - 33) + 1 := by omega
        rw [this, Nat.testBit_succ, Nat.testBit_succ]
  rw [e2]; omega

end Tcell.Color
