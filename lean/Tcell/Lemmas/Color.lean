import Tcell.Model.Color
/-
Helper lemmas for C16: the bit-level facts that turn the `&&&`/`|||` expressions of color.go into `testBit` / `%`
facts that `omega` and `simp` can finish (no `bv_decide`).
-/
namespace Tcell.Color

/-! ### generic bit facts -/

theorem and_two_pow_ne_zero (c k : Nat) : (c &&& 2^k != 0) = c.testBit k := by
  cases h : c.testBit k
  · have : c &&& 2^k = 0 := by
      apply Nat.eq_of_testBit_eq; intro i
      simp only [Nat.testBit_and, Nat.testBit_two_pow, Nat.zero_testBit]
      by_cases hk : k = i
      · subst hk; simp [h]
      · simp [hk]
    simp [this]
  · have h1 : (c &&& 2^k).testBit k = true := by simp [Nat.testBit_and, h]
    have : c &&& 2^k ≠ 0 := by
      intro h0; rw [h0] at h1; simp at h1
    simp [this]

theorem or_two_pow_of_testBit (c k : Nat) (h : c.testBit k = true) : c ||| 2^k = c := by
  apply Nat.eq_of_testBit_eq; intro i
  simp only [Nat.testBit_or, Nat.testBit_two_pow]
  by_cases hk : k = i
  · subst hk; simp [h]
  · simp [hk]

/-! ### the flags as bits -/

theorem valid_eq (c : Nat) : valid c = c.testBit 32 := and_two_pow_ne_zero c 32

theorem rgbBit_eq (c : Nat) : (c &&& fIsRGB != 0) = c.testBit 33 := and_two_pow_ne_zero c 33

theorem isRGB_eq (c : Nat) : isRGB c = (c.testBit 32 && c.testBit 33) := by
  unfold isRGB fValid fIsRGB
  have hm32 : (2^32 ||| 2^33 : Nat).testBit 32 = true := by decide
  have hm33 : (2^32 ||| 2^33 : Nat).testBit 33 = true := by decide
  by_cases h32 : c.testBit 32 = true
  · by_cases h33 : c.testBit 33 = true
    · rw [h32, h33]
      have : c &&& (2^32 ||| 2^33) = (2^32 ||| 2^33) := by
        apply Nat.eq_of_testBit_eq; intro i
        rw [Nat.testBit_and, Nat.testBit_or, Nat.testBit_two_pow, Nat.testBit_two_pow]
        by_cases h1 : 32 = i
        · subst h1; simp [h32]
        · by_cases h2 : 33 = i
          · subst h2; simp [h33]
          · simp [h1, h2]
      rw [this]; simp
    · have h33' : c.testBit 33 = false := by simpa using h33
      rw [h32, h33']
      have : c &&& (2^32 ||| 2^33) ≠ (2^32 ||| 2^33) := by
        intro h
        have : (c &&& (2^32 ||| 2^33)).testBit 33 = (2^32 ||| 2^33 : Nat).testBit 33 := by rw [h]
        rw [Nat.testBit_and, h33', hm33] at this
        simp at this
      simpa using this
  · have h32' : c.testBit 32 = false := by simpa using h32
    rw [h32']
    have : c &&& (2^32 ||| 2^33) ≠ (2^32 ||| 2^33) := by
      intro h
      have : (c &&& (2^32 ||| 2^33)).testBit 32 = (2^32 ||| 2^33 : Nat).testBit 32 := by rw [h]
      rw [Nat.testBit_and, h32', hm32] at this
      simp at this
    simpa using this

theorem testBit_or3 (a x b i : Nat) : (a ||| x ||| b).testBit i = (a.testBit i || x.testBit i || b.testBit i) := by
  simp [Nat.testBit_or]

/-! ### signed conversions -/

theorem ofSigned_lt (v : Int) : ofSigned v < 2^64 := by unfold ofSigned; omega

theorem ofSigned_of_nonneg (v : Int) (h0 : 0 ≤ v) (h1 : v < 2^64) : ofSigned v = v.toNat := by
  unfold ofSigned; omega

theorem ofSigned_natCast (n : Nat) (h : n < 2^64) : ofSigned (n : Int) = n := by
  unfold ofSigned; omega

theorem ofSigned_mod24 (v : Int) : ((ofSigned v % 2^24 : Nat) : Int) = v % 2^24 := by
  unfold ofSigned; omega

theorem ofSigned_neg_one : ofSigned (-1) = 2^64 - 1 := by decide

theorem and255_lt (x : Int) : and255 x < 256 := by unfold and255; omega

theorem and255_of_range (x : Int) (h0 : 0 ≤ x) (h1 : x < 256) : and255 x = x.toNat := by
  unfold and255; omega

/-! ### NewHexColor -/

theorem newHexColor_testBit (v : Int) (i : Nat) :
    (newHexColor v).testBit i = (decide (33 = i) || (ofSigned v).testBit i || decide (32 = i)) := by
  unfold newHexColor fIsRGB fValid
  simp only [Nat.testBit_or, Nat.testBit_two_pow]

theorem valid_newHexColor (v : Int) : valid (newHexColor v) = true := by
  rw [valid_eq, newHexColor_testBit]; simp

theorem isRGB_newHexColor (v : Int) : isRGB (newHexColor v) = true := by
  rw [isRGB_eq, newHexColor_testBit, newHexColor_testBit]; simp

theorem newHexColor_mod24 (v : Int) : newHexColor v % 2^24 = ofSigned v % 2^24 := by
  unfold newHexColor fIsRGB fValid
  rw [Nat.or_mod_two_pow, Nat.or_mod_two_pow]
  have h1 : 2^33 % 2^24 = 0 := by decide
  have h2 : 2^32 % 2^24 = 0 := by decide
  simp [h1]

theorem and_ffffff (c : Nat) : c &&& 0xffffff = c % 2^24 := by
  have := Nat.and_two_pow_sub_one_eq_mod c 24
  simpa using this

theorem and_ff (c : Nat) : c &&& 0xff = c % 2^8 := by
  have := Nat.and_two_pow_sub_one_eq_mod c 8
  simpa using this

/-- Hex of an RGB-flagged valid colour is its low 24 bits -/
theorem hex_of_rgbBit (c : Nat) (hv : c.testBit 32 = true) (hr : c.testBit 33 = true) : hex c = ((c % 2^24 : Nat) : Int) := by
  unfold hex
  rw [valid_eq, hv, rgbBit_eq, hr, and_ffffff]
  simp

theorem hex_newHexColor_general (v : Int) : hex (newHexColor v) = v % 2^24 := by
  rw [hex_of_rgbBit _ (by rw [newHexColor_testBit]; simp) (by rw [newHexColor_testBit]; simp),
    newHexColor_mod24, ofSigned_mod24]

/-- the canonical value for an in-range argument -/
theorem newHexColor_of_range (v : Int) (h0 : 0 ≤ v) (h1 : v < 2^24) : newHexColor v = 2^33 + 2^32 + v.toNat := by
  unfold newHexColor fIsRGB fValid
  rw [ofSigned_of_nonneg v h0 (by omega)]
  have hlt : v.toNat < 2^24 := by omega
  have e1 : 2^33 ||| v.toNat = 2^33 + v.toNat := by
    have := Nat.two_pow_add_eq_or_of_lt (i := 33) (b := v.toNat) (by omega) 1
    simpa using this.symm
  rw [e1]
  have e2 : (2^33 + v.toNat) ||| 2^32 = 2^33 + v.toNat + 2^32 := by
    -- 2^33 + v = 2^32 * 2 + v with v < 2^32 ; bit 32 is clear
    have hb : (2^33 + v.toNat).testBit 32 = false := by
      have : 2^33 + v.toNat = 2^32 * 2 + v.toNat := by omega
      rw [this, Nat.testBit_two_pow_mul_add 2 (by omega : v.toNat < 2^32)]
      simp
    apply Nat.eq_of_testBit_eq; intro i
    have : 2^33 + v.toNat + 2^32 = 2^32 * 3 + v.toNat := by omega
    rw [this, Nat.testBit_two_pow_mul_add 3 (by omega : v.toNat < 2^32)]
    have h2 : 2^33 + v.toNat = 2^32 * 2 + v.toNat := by omega
    rw [Nat.testBit_or, h2, Nat.testBit_two_pow_mul_add 2 (by omega : v.toNat < 2^32), Nat.testBit_two_pow]
    by_cases hi : i < 32
    · simp [hi]; omega
    · simp only [hi, if_false]
      by_cases h32 : i = 32
      · subst h32; decide
      · have : ¬ (32 = i) := by omega
        simp only [this, decide_false, Bool.or_false]
        -- bits of 2 and 3 agree above bit 0
        have : i - 32 = (i - 33) + 1 := by omega
        rw [this, Nat.testBit_succ, Nat.testBit_succ]
  rw [e2]; omega

/-! ### list lookup -/

theorem lookup_mem {α β} [BEq α] [LawfulBEq α] {l : List (α × β)} {k : α} {v : β} (h : l.lookup k = some v) : (k, v) ∈ l := by
  induction l with
  | nil => simp [List.lookup] at h
  | cons p t ih =>
    obtain ⟨a, b⟩ := p
    by_cases hk : k == a
    · simp only [List.lookup, hk] at h
      have : k = a := by simpa using hk
      subst this; cases h; simp
    · simp only [List.lookup, hk] at h
      exact List.mem_cons_of_mem _ (ih h)

theorem lookup_none_of_forall_ne {α β} [BEq α] [LawfulBEq α] {l : List (α × β)} {k : α} (h : ∀ p ∈ l, p.1 ≠ k) : l.lookup k = none := by
  induction l with
  | nil => rfl
  | cons p t ih =>
    obtain ⟨a, b⟩ := p
    have hne : (k == a) = false := by
      apply beq_false_of_ne
      intro e
      exact h (a, b) (by simp) e.symm
    simp only [List.lookup, hne]
    exact ih (fun q hq => h q (List.mem_cons_of_mem _ hq))

/-! ### Hex / RGB -/

/-- every value of the regenerated ColorValues table is a 24-bit RGB value -/
theorem colorValues_range : ∀ p ∈ Gen.colorValues, 0 ≤ p.2 ∧ p.2 < 2^24 := by decide +kernel

theorem hex_of_invalid (c : Nat) (h : valid c = false) : hex c = -1 := by
  unfold hex; simp [h]

theorem hex_of_palette (c : Nat) (hv : valid c = true) (hr : c.testBit 33 = false) :
    hex c = (lookupValue c).getD (-1) := by
  unfold hex
  rw [hv, rgbBit_eq, hr]
  cases lookupValue c <;> simp

/-- `Hex()` is -1 or a 24-bit value -/
theorem hex_range (c : Nat) : hex c = -1 ∨ (0 ≤ hex c ∧ hex c < 2^24) := by
  by_cases hv : valid c = true
  · by_cases hr : c.testBit 33 = true
    · right
      rw [hex_of_rgbBit c (by rw [← valid_eq]; exact hv) hr]
      omega
    · have hr' : c.testBit 33 = false := by simpa using hr
      rw [hex_of_palette c hv hr']
      cases hl : lookupValue c with
      | none => left; rfl
      | some v => right; exact colorValues_range (c, v) (lookup_mem (by unfold lookupValue at hl; exact hl))
  · left; exact hex_of_invalid c (by simpa using hv)

theorem rgb_of_hex_neg (c : Nat) (h : hex c < 0) : rgb c = (-1, -1, -1) := by
  unfold rgb; simp [h]

theorem rgb_of_hex_nonneg (c : Nat) (h : 0 ≤ hex c) :
    rgb c = (hex c / 65536 % 256, hex c / 256 % 256, hex c % 256) := by
  unfold rgb
  have hn : ¬ (hex c < 0) := by omega
  simp only [hn, if_false]
  rw [and_ff, and_ff, and_ff, Nat.shiftRight_eq_div_pow, Nat.shiftRight_eq_div_pow]
  refine Prod.ext ?_ (Prod.ext ?_ ?_) <;> simp only [] <;> omega

/-! ### NewRGBColor -/

theorem pack_eq (a b c : Nat) (_ha : a < 256) (hb : b < 256) (hc : c < 256) :
    (a <<< 16 ||| b <<< 8 ||| c) = a * 65536 + b * 256 + c := by
  rw [Nat.shiftLeft_eq, Nat.shiftLeft_eq, Nat.or_assoc]
  have e1 : b * 2^8 ||| c = b * 2^8 + c := by
    have := Nat.two_pow_add_eq_or_of_lt (i := 8) (b := c) (by omega) b
    rw [Nat.mul_comm] at this; exact this.symm
  rw [e1]
  have e2 : a * 2^16 ||| (b * 2^8 + c) = a * 2^16 + (b * 2^8 + c) := by
    have := Nat.two_pow_add_eq_or_of_lt (i := 16) (b := b * 2^8 + c) (by omega) a
    rw [Nat.mul_comm] at this; exact this.symm
  rw [e2]; omega

theorem newRGBColor_eq (r g b : Int) :
    newRGBColor r g b = newHexColor ((and255 r * 65536 + and255 g * 256 + and255 b : Nat) : Int) := by
  unfold newRGBColor
  rw [pack_eq _ _ _ (and255_lt r) (and255_lt g) (and255_lt b)]

theorem hex_newRGBColor (r g b : Int) :
    hex (newRGBColor r g b) = (r % 256) * 65536 + (g % 256) * 256 + b % 256 := by
  rw [newRGBColor_eq, hex_newHexColor_general]
  have := and255_lt r; have := and255_lt g; have := and255_lt b
  unfold and255 at *
  omega

theorem rgb_newRGBColor_general (r g b : Int) : rgb (newRGBColor r g b) = (r % 256, g % 256, b % 256) := by
  rw [rgb_of_hex_nonneg _ (by rw [hex_newRGBColor]; omega), hex_newRGBColor]
  refine Prod.ext ?_ (Prod.ext ?_ ?_) <;> simp only [] <;> omega

/-! ### TrueColor -/

theorem trueColor_of_invalid (c : Nat) (h : valid c = false) : trueColor c = cDefault := by
  unfold trueColor; simp [h]

theorem trueColor_of_rgbBit (c : Nat) (hv : valid c = true) (hr : c.testBit 33 = true) : trueColor c = c := by
  unfold trueColor
  rw [hv, rgbBit_eq, hr]
  simp only [Bool.not_true, Bool.false_eq_true, if_false, if_true]
  exact or_two_pow_of_testBit c 32 (by rw [← valid_eq]; exact hv)

theorem trueColor_of_palette (c : Nat) (hv : valid c = true) (hr : c.testBit 33 = false) :
    trueColor c = newHexColor (hex c) := by
  unfold trueColor newHexColor
  rw [hv, rgbBit_eq, hr]
  simp only [Bool.not_true, Bool.false_eq_true, if_false]
  rw [Nat.or_comm (ofSigned (hex c)) fIsRGB]

theorem valid_default : valid cDefault = false := by decide

/-! ### CSS() and GetColor("#rrggbb") -/

theorem utf8ByteSize_ofList (l : List Char) : (String.ofList l).utf8ByteSize = (l.map Char.utf8Size).sum := by
  induction l with
  | nil => simp
  | cons c t ih =>
    rw [String.ofList_cons, String.utf8ByteSize_append, String.utf8ByteSize_singleton, ih]
    simp

theorem hexDigit?_upper : ∀ k, k < 16 → hexDigit? (upperHexDigit k) = some k := by decide
theorem upperHexDigit_size : ∀ k, k < 16 → (upperHexDigit k).utf8Size = 1 := by decide
theorem upperHexDigit_not_sign : ∀ k, k < 16 → (upperHexDigit k == '+') = false ∧ (upperHexDigit k == '-') = false := by decide

/-- the six digits `%06X` prints for a 24-bit value -/
def sixDigits (n : Nat) : List Char :=
  [upperHexDigit (n / 16 / 16 / 16 / 16 / 16), upperHexDigit (n / 16 / 16 / 16 / 16 % 16), upperHexDigit (n / 16 / 16 / 16 % 16),
   upperHexDigit (n / 16 / 16 % 16), upperHexDigit (n / 16 % 16), upperHexDigit (n % 16)]

theorem hexDigitsPad_six (n : Nat) (h : n < 2^24) : hexDigitsPad 16 6 n = sixDigits n := by
  have h5 : n / 16 / 16 / 16 / 16 / 16 < 16 := by omega
  simp [hexDigitsPad, sixDigits, h5]

theorem fmt06X_of_range (v : Int) (h0 : 0 ≤ v) (h1 : v < 2^24) : fmt06X v = sixDigits v.toNat := by
  unfold fmt06X
  rw [if_neg (by omega)]
  exact hexDigitsPad_six _ (by omega)

theorem parseHexDigits_six (n : Nat) (h : n < 2^24) : parseHexDigits 0 (sixDigits n) = some n := by
  unfold sixDigits
  simp only [parseHexDigits]
  rw [hexDigit?_upper _ (by omega)]; simp only []
  rw [hexDigit?_upper _ (by omega)]; simp only []
  rw [hexDigit?_upper _ (by omega)]; simp only []
  rw [hexDigit?_upper _ (by omega)]; simp only []
  rw [hexDigit?_upper _ (by omega)]; simp only []
  rw [hexDigit?_upper _ (by omega)]; simp only []
  congr 1; omega

theorem parseInt16_six (n : Nat) (h : n < 2^24) : parseInt16 (sixDigits n) = some (n : Int) := by
  have hs := upperHexDigit_not_sign (n / 16 / 16 / 16 / 16 / 16) (by omega)
  unfold parseInt16
  have hh : (sixDigits n).head? = some (upperHexDigit (n / 16 / 16 / 16 / 16 / 16)) := rfl
  have e1 : ((sixDigits n).head? == some '-') = false := by rw [hh]; simpa using hs.2
  have e2 : ((sixDigits n).head? == some '+') = false := by rw [hh]; simpa using hs.1
  simp only [e1, e2, Bool.or_self, Bool.false_eq_true, if_false]
  rw [parseHexDigits_six n h]
  have : (sixDigits n).isEmpty = false := rfl
  simp only [this, Bool.false_eq_true, if_false]
  have : ¬ (n ≥ 2^31) := by omega
  simp [this]

/-- no name of the regenerated ColorNames table starts with '#' (so a CSS hex string is never shadowed by a name) -/
theorem colorNames_no_hash : ∀ p ∈ Gen.colorNames, (p.1.toList.head? == some '#') = false := by decide +kernel

theorem lookupName_hash (l : List Char) : lookupName (String.ofList ('#' :: l)) = none := by
  unfold lookupName
  apply lookup_none_of_forall_ne
  intro p hp e
  have := colorNames_no_hash p hp
  rw [e, String.toList_ofList] at this
  simp at this

theorem getColor_hash_six (n : Nat) (h : n < 2^24) :
    getColor (String.ofList ('#' :: sixDigits n)) = newHexColor (n : Int) := by
  unfold getColor
  rw [lookupName_hash]
  simp only [String.toList_ofList, List.head?_cons, List.tail_cons]
  have hsz : (String.ofList ('#' :: sixDigits n)).utf8ByteSize = 7 := by
    rw [utf8ByteSize_ofList]
    unfold sixDigits
    simp only [List.map_cons, List.map_nil, List.sum_cons, List.sum_nil]
    rw [upperHexDigit_size _ (by omega), upperHexDigit_size _ (by omega), upperHexDigit_size _ (by omega),
      upperHexDigit_size _ (by omega), upperHexDigit_size _ (by omega), upperHexDigit_size _ (by omega)]
    decide
  rw [hsz, parseInt16_six n h]
  simp

theorem css_of_invalid (c : Nat) (h : valid c = false) : css c = "" := by
  unfold css; simp [h]

theorem css_of_hex_nonneg (c : Nat) (hv : valid c = true) (h0 : 0 ≤ hex c) :
    css c = String.ofList ('#' :: sixDigits (hex c).toNat) := by
  have h1 : hex c < 2^24 := by rcases hex_range c with h | h <;> omega
  unfold css
  rw [hv, fmt06X_of_range _ h0 h1]; simp

/-- `GetColor(c.CSS())` for a valid colour with a known RGB value is the canonical RGB colour of that value -/
theorem getColor_css_of_hex_nonneg (c : Nat) (hv : valid c = true) (h0 : 0 ≤ hex c) :
    getColor (css c) = newHexColor (hex c) := by
  have h1 : hex c < 2^24 := by rcases hex_range c with h | h <;> omega
  rw [css_of_hex_nonneg c hv h0, getColor_hash_six _ (by omega)]
  congr 1; omega

theorem getColor_empty : getColor "" = cDefault := by decide +kernel
theorem getColor_minus_one : getColor (String.ofList ('#' :: fmt06X (-1))) = newHexColor (-1) := by decide +kernel

end Tcell.Color
