/-
Lemmas about the SimulationScreen model (C18): the history induction behind `sim_show_faithful` — every in-range,
unlocked cell the logical buffer reports clean shows, in the reported (front) cells, exactly `render` of its logical
content.  Dirty tracking is C08's specification ghost (`ghostInv_step`), reused as is (as in Lemmas/WScreen for C19);
the width invariant `WOk` / `RwOk` and `obsMain` / `obsWidth` are the definitions of Lemmas/DrawDefs (C01).
-/
import Tcell.Model.Sim
import Tcell.Lemmas.Cell
import Tcell.Lemmas.DrawDefs
import Tcell.Props.C08
namespace Tcell.SimL
open Tcell Tcell.Buf

variable (rw : Rune → Int) (v : SimVariant) (enc : Encoder) (fb : RuneMap) (scr : Style)

/-! ### width invariant (local copies of the small C01 lemmas, so that C18 does not depend on the C01 proof files) -/

theorem getContent_wok (hrw : RwOk rw) (b : Buf) (x y : Int) (hr : b.inRange x y) (hw : WOk rw (b.cells x y)) :
    b.getContent x y = (obsMain rw (b.cells x y).currMain, (b.cells x y).currComb, (b.cells x y).currStyle,
                        obsWidth rw (b.cells x y).currMain) := by
  simp only [getContent, if_pos hr, obsMain, obsWidth]
  rcases hw with hw | ⟨hw, hm⟩
  · rw [hw]; split <;> rfl
  · rw [hw, hm, hrw.space]; simp

theorem obs_markClean (hrw : RwOk rw) (m : Rune) :
    obsMain rw (if m = 0 then 32 else m) = obsMain rw m ∧ obsWidth rw (if m = 0 then 32 else m) = obsWidth rw m := by
  by_cases h : m = 0
  · subst h; simp [obsMain, obsWidth, hrw.zero, hrw.space]
  · simp [h]

theorem wok_markClean (hrw : RwOk rw) (c : Cell) (h : WOk rw c) : WOk rw c.markClean := by
  simp only [WOk, Cell.markClean_width, Cell.markClean_currMain] at h ⊢
  by_cases hz : c.currMain = 0
  · simp only [hz, if_true, and_true]
    rcases h with h1 | h1
    · right; rw [h1, hz, hrw.zero]
    · exact absurd h1.2 (by rw [hz]; decide)
  · simpa [hz] using h

theorem wok_markDirty (c : Cell) (h : WOk rw c) : WOk rw c.markDirty := by simpa [WOk] using h
theorem wok_setLock (c : Cell) (b : Bool) (h : WOk rw c) : WOk rw (c.setLock b) := by simpa [WOk] using h
theorem wok_carry (c : Cell) (h : WOk rw c) : WOk rw c.carry := by simpa [WOk] using h
theorem wok_default (hrw : RwOk rw) : WOk rw ({} : Cell) := by left; show (0 : Int) = rw 0; rw [hrw.zero]
theorem wok_filled (c : Cell) (r : Rune) (s : Style) (hr : rw r = 1) : WOk rw (c.filled r s) := by
  left; show (1 : Int) = rw r; rw [hr]
theorem wok_store (c : Cell) (m : Rune) (cc : List Rune) (s : Style) (h : WOk rw c) : WOk rw (c.store rw m cc s) := by
  simp only [WOk, Cell.store_width, Cell.store_currMain] at h ⊢
  by_cases hm : c.currMain = m
  · subst hm; simpa using h
  · left; simp [hm]

/-! ### what a cell shows, as a function of its stored content -/

def resolveS (st : Style) : Style := if st = {} then scr else st

/-- `Sim.render` as a function of the stored content triple, the screen width and the column -/
def renderC (pw x : Int) (c : Content) : SimCell :=
  if x > pw - obsWidth rw c.1 then { bytes := [32], style := resolveS scr c.2.2, runes := [32] }
  else { bytes := Sim.simBytes v enc fb (obsMain rw c.1 :: c.2.1), style := resolveS scr c.2.2,
         runes := obsMain rw c.1 :: c.2.1 }

theorem render_eq (hrw : RwOk rw) (s : Sim) (x y : Int) (hr : s.back.inRange x y) (hw : WOk rw (s.back.cells x y)) :
    s.render v enc x y = renderC rw v enc s.fallback s.style s.physw x (s.back.cells x y).content := by
  unfold Sim.render renderC
  rw [getContent_wok rw hrw s.back x y hr hw]
  rfl

theorem renderC_markClean (hrw : RwOk rw) (pw x : Int) (c : Cell) :
    renderC rw v enc fb scr pw x c.markClean.content = renderC rw v enc fb scr pw x c.content := by
  have := obs_markClean rw hrw c.currMain
  unfold renderC Cell.content
  simp only [Cell.markClean_currMain, this.1, this.2]
  rfl

/-! ### the invariant -/

/-- the reported cells show the ghost: whatever C08's specification ghost remembers as "content when last marked
clean" is what the front buffer holds for that (in-range) cell -/
def PG (b : Buf) (g : Ghost) (front : Int → Int → SimCell) : Prop :=
  ∀ x y c, b.inRange x y → g x y = some c → front x y = renderC rw v enc fb scr b.w x c

/-- invariant over the six components drawing reads or writes -/
def CI (st : Style) (fbk : RuneMap) (pw ph : Int) (b : Buf) (front : Int → Int → SimCell) : Prop :=
  st = scr ∧ fbk = fb ∧ pw = b.w ∧ ph = b.h ∧ (∀ x y, WOk rw (b.cells x y)) ∧
  ∃ g, Props.C08.GhostInv b g ∧ PG rw v enc fb scr b g front

def CInv (s : Sim) : Prop := CI rw v enc fb scr s.style s.fallback s.physw s.physh s.back s.front

def SInv (s : Sim) : Prop := CInv rw v enc fb scr s ∧ s.clear = false

theorem dirty_inRange (b : Buf) (x y : Int) (h : b.dirty x y = true) : b.inRange x y := by
  unfold dirty at h; by_cases hr : b.inRange x y
  · exact hr
  · rw [if_neg hr] at h; exact absurd h (by simp)

/-! ### drawCell -/

theorem drawCell_snd (s : Sim) (x y : Int) : (s.drawCell v enc x y).2 = (s.back.getContent x y).2.2.2 := by
  unfold Sim.drawCell; dsimp only; split
  · rfl
  · split
    · rfl
    · split <;> rfl

theorem drawCell_of_clean (s : Sim) (x y : Int) (hd : s.back.dirty x y = false) : (s.drawCell v enc x y).1 = s := by
  unfold Sim.drawCell; simp [hd]

theorem drawCell_of_dirty (hv : v.lastColClean = true) (s : Sim) (x y : Int) (hd : s.back.dirty x y = true) (hp : s.inPhys x y) :
    (s.drawCell v enc x y).1 = { (s.setFront x y (s.render v enc x y)) with back := s.back.setDirty x y false } := by
  have hp' : ¬ ¬ s.inPhys x y := fun h => h hp
  unfold Sim.drawCell; simp [hd, hp', hv]

theorem drawCell_cinv (hrw : RwOk rw) (hv : v.lastColClean = true) (s : Sim) (x y : Int) (h : CInv rw v enc fb scr s) :
    CInv rw v enc fb scr (s.drawCell v enc x y).1 := by
  by_cases hd : s.back.dirty x y = true
  · obtain ⟨hst, hfb, hpw, hph, hw, g, hg, hpg⟩ := h
    have hr := dirty_inRange s.back x y hd
    have hp : s.inPhys x y := by
      have := (inRange_iff s.back x y).1 hr
      unfold Sim.inPhys; rw [hpw, hph]; exact this
    rw [drawCell_of_dirty v enc hv s x y hd hp]
    refine ⟨hst, hfb, ?_, ?_, ?_, g.step s.back (s.back.setDirty x y false) (.setDirty x y false), ?_, ?_⟩
    · show s.physw = (s.back.setDirty x y false).w; rw [setDirty_w]; exact hpw
    · show s.physh = (s.back.setDirty x y false).h; rw [setDirty_h]; exact hph
    · intro i j
      show WOk rw ((s.back.setDirty x y false).cells i j)
      rw [setDirty_false_cells]; split
      · exact wok_markClean rw hrw _ (hw i j)
      · exact hw i j
    · exact Props.C08.ghostInv_step rw s.back g (.setDirty x y false) hg
    · intro i j c hri hc
      have hri' : s.back.inRange i j := by simpa [inRange_iff] using hri
      show (s.setFront x y (s.render v enc x y)).front i j = renderC rw v enc fb scr (s.back.setDirty x y false).w i c
      rw [setDirty_w]
      simp only [Ghost.step, hr, if_true] at hc
      simp only [Sim.setFront]
      by_cases hij : i = x ∧ j = y
      · rw [if_pos hij] at hc ⊢
        obtain ⟨rfl, rfl⟩ := hij
        simp only [Bool.false_eq_true, if_false, Option.some.injEq] at hc
        subst hc
        rw [setDirty_false_cells]
        simp only [hr, and_self, if_true]
        rw [renderC_markClean rw v enc fb scr hrw, render_eq rw v enc hrw s i j hr (hw i j), hst, hfb, hpw]
      · rw [if_neg hij] at hc ⊢
        exact hpg i j c hri' hc
  · have hd' : s.back.dirty x y = false := by simpa using hd
    rw [drawCell_of_clean v enc s x y hd']; exact h

/-! ### the loops -/

theorem drawRow_succ (y : Int) (n : Nat) (s : Sim) (x : Int) :
    Sim.drawRow v enc y (n + 1) s x =
      if x < s.back.w then Sim.drawRow v enc y n (s.drawCell v enc x y).1 (x + (s.drawCell v enc x y).2) else s := rfl

theorem drawRows_succ (n : Nat) (s : Sim) (y : Int) :
    Sim.drawRows v enc (n + 1) s y = Sim.drawRows v enc n (Sim.drawRow v enc y s.back.w.toNat s 0) (y + 1) := rfl

theorem drawRow_cinv (hrw : RwOk rw) (hv : v.lastColClean = true) (y : Int) : ∀ (fuel : Nat) (s : Sim) (x : Int),
    CInv rw v enc fb scr s → CInv rw v enc fb scr (Sim.drawRow v enc y fuel s x) := by
  intro fuel
  induction fuel with
  | zero => intro s x h; exact h
  | succ n ih =>
    intro s x h
    rw [drawRow_succ]
    split
    · exact ih _ _ (drawCell_cinv rw v enc fb scr hrw hv s x y h)
    · exact h

theorem drawRows_cinv (hrw : RwOk rw) (hv : v.lastColClean = true) : ∀ (n : Nat) (s : Sim) (y : Int),
    CInv rw v enc fb scr s → CInv rw v enc fb scr (Sim.drawRows v enc n s y) := by
  intro n
  induction n with
  | zero => intro s y h; exact h
  | succ n ih =>
    intro s y h
    rw [drawRows_succ]
    exact ih _ _ (drawRow_cinv rw v enc fb scr hrw hv y _ s 0 h)

/-- drawing never touches the `clear` flag -/
theorem drawCell_clear (s : Sim) (x y : Int) : (s.drawCell v enc x y).1.clear = s.clear := by
  unfold Sim.drawCell; dsimp only; split
  · rfl
  · split
    · rfl
    · split <;> rfl

theorem drawRow_clear (y : Int) : ∀ (fuel : Nat) (s : Sim) (x : Int), (Sim.drawRow v enc y fuel s x).clear = s.clear := by
  intro fuel
  induction fuel with
  | zero => intro s x; rfl
  | succ n ih =>
    intro s x
    rw [drawRow_succ]; split
    · rw [ih, drawCell_clear]
    · rfl

theorem drawRows_clear : ∀ (n : Nat) (s : Sim) (y : Int), (Sim.drawRows v enc n s y).clear = s.clear := by
  intro n
  induction n with
  | zero => intro s y; rfl
  | succ n ih => intro s y; rw [drawRows_succ, ih, drawRow_clear]

theorem showCursor_cinv (s : Sim) (h : CInv rw v enc fb scr s) : CInv rw v enc fb scr s.showCursor := h

theorem showCursor_clear (s : Sim) : s.showCursor.clear = s.clear := rfl

theorem draw_sinv (hrw : RwOk rw) (hv : v.lastColClean = true) (s : Sim) (h : CInv rw v enc fb scr s) (hc : s.clear = false) :
    SInv rw v enc fb scr (s.draw v enc) := by
  unfold Sim.draw
  simp only [hc, Bool.false_eq_true, if_false]
  constructor
  · apply showCursor_cinv
    apply drawRows_cinv rw v enc fb scr hrw hv
    exact h
  · rw [showCursor_clear, drawRows_clear]

theorem PG_none (b : Buf) (front : Int → Int → SimCell) : PG rw v enc fb scr b Ghost.none front := by
  intro x y c _ h; simp [Ghost.none] at h

theorem resize_noop (s : Sim) (hpw : s.physw = s.back.w) (hph : s.physh = s.back.h) : s.resize = s := by
  unfold Sim.resize; simp [hpw, hph]

/-! ### LockRegion (screen.go:424, `Tcell.lockRowsG`): a composition of LockCell / UnlockCell / SetDirty(true) steps, each of
which keeps the size and the stored content and only makes the ghost forget -/

/-- a buffer step that keeps `CI` whatever the front buffer is -/
def LStep (b b' : Buf) : Prop :=
  b'.w = b.w ∧ b'.h = b.h ∧ ((∀ x y, WOk rw (b.cells x y)) → ∀ x y, WOk rw (b'.cells x y)) ∧
  ∀ g, Props.C08.GhostInv b g → ∃ g', Props.C08.GhostInv b' g' ∧ ∀ x y c, g' x y = some c → g x y = some c

theorem LStep.refl (b : Buf) : LStep rw b b := ⟨rfl, rfl, fun h => h, fun g hg => ⟨g, hg, fun _ _ _ h => h⟩⟩

theorem LStep.trans {b1 b2 b3 : Buf} (h1 : LStep rw b1 b2) (h2 : LStep rw b2 b3) : LStep rw b1 b3 := by
  obtain ⟨w1, hh1, k1, g1⟩ := h1
  obtain ⟨w2, hh2, k2, g2⟩ := h2
  refine ⟨w2.trans w1, hh2.trans hh1, fun h => k2 (k1 h), ?_⟩
  intro g hg
  obtain ⟨ga, hga, la⟩ := g1 g hg
  obtain ⟨gb, hgb, lb⟩ := g2 ga hga
  exact ⟨gb, hgb, fun x y c h => la x y c (lb x y c h)⟩

theorem lstep_lockCell (b : Buf) (x y : Int) : LStep rw b (b.lockCell x y) := by
  refine ⟨lockCell_w .., lockCell_h .., ?_, ?_⟩
  · intro hw i j; rw [lockCell_cells]; split
    · exact wok_setLock rw _ _ (hw i j)
    · exact hw i j
  · intro g hg
    exact ⟨g, Props.C08.ghostInv_step rw b g (.lockCell x y) hg, fun _ _ _ h => h⟩

theorem lstep_unlockCell (b : Buf) (x y : Int) : LStep rw b (b.unlockCell x y) := by
  refine ⟨unlockCell_w .., unlockCell_h .., ?_, ?_⟩
  · intro hw i j; rw [unlockCell_cells]; split
    · exact wok_markDirty rw _ (wok_setLock rw _ _ (hw i j))
    · exact hw i j
  · intro g hg
    refine ⟨g.step b (b.unlockCell x y) (.unlockCell x y), Props.C08.ghostInv_step rw b g (.unlockCell x y) hg, ?_⟩
    intro i j cc hc
    simp only [Ghost.step] at hc
    split at hc
    · dsimp only at hc
      split at hc
      · exact absurd hc (by simp)
      · exact hc
    · exact hc

theorem lstep_setDirtyTrue (b : Buf) (x y : Int) : LStep rw b (b.setDirty x y true) := by
  refine ⟨by simp, by simp, ?_, ?_⟩
  · intro hw i j; rw [setDirty_true_cells]; split
    · exact wok_markDirty rw _ (hw i j)
    · exact hw i j
  · intro g hg
    refine ⟨g.step b (b.setDirty x y true) (.setDirty x y true), Props.C08.ghostInv_step rw b g (.setDirty x y true) hg, ?_⟩
    intro i j cc hc
    simp only [Ghost.step] at hc
    split at hc
    · dsimp only at hc
      split at hc
      · simp at hc
      · exact hc
    · exact hc

theorem lstep_lockRow (b : Buf) (x y : Int) (lock : Bool) : ∀ n, LStep rw b (lockRow b x y lock n) := by
  intro n
  induction n with
  | zero => exact LStep.refl rw b
  | succ n ih =>
    simp only [lockRow]
    split
    · exact ih.trans rw (lstep_lockCell rw _ _ _)
    · exact ih.trans rw (lstep_unlockCell rw _ _ _)

theorem lstep_lockRowsG (b : Buf) (x y w : Int) (lock : Bool) : ∀ m, LStep rw b (lockRowsG b x y w lock m) := by
  intro m
  induction m with
  | zero => exact LStep.refl rw b
  | succ m ih =>
    simp only [lockRowsG]
    have h1 := ih.trans rw (lstep_lockRow rw (lockRowsG b x y w lock m) x (y + m) lock w.toNat)
    split
    · unfold redirtyLeft; split
      · exact h1.trans rw (lstep_setDirtyTrue rw _ _ _)
      · exact h1
    · exact h1

/-! ### one operation -/

theorem stepS_inv (hrw : RwOk rw) (hv1 : v.lastColClean = true) (hv2 : v.setSizeEvent = true) (s : Sim) (op : SimOp)
    (hok : op.ok rw) (h : SInv rw v enc fb scr s) : SInv rw v enc fb scr (s.stepS rw v enc op) := by
  obtain ⟨⟨hst, hfb, hpw, hph, hw, g, hg, hpg⟩, hcl⟩ := h
  cases op with
  | setContent x y m c st =>
    refine ⟨⟨hst, hfb, ?_, ?_, ?_, g.step s.back (s.back.setContent rw x y m c st) (.setContent x y m c st), ?_, ?_⟩, hcl⟩
    · show s.physw = (s.back.setContent rw x y m c st).w; rw [setContent_w]; exact hpw
    · show s.physh = (s.back.setContent rw x y m c st).h; rw [setContent_h]; exact hph
    · intro i j
      show WOk rw ((s.back.setContent rw x y m c st).cells i j)
      rw [setContent_cells]
      have hpre : WOk rw ((s.back.preDirty x y m c).cells i j) := by
        rcases preDirty_cases s.back x y m c i j with h1 | h1 <;> rw [h1]
        · exact hw i j
        · exact wok_markDirty rw _ (hw i j)
      split
      · split
        · exact wok_store rw _ m c st hpre
        · exact hpre
      · exact hw i j
    · exact Props.C08.ghostInv_step rw s.back g (.setContent x y m c st) hg
    · intro i j cc hri hc
      have hri' : s.back.inRange i j := by simpa [Sim.stepS, inRange_iff] using hri
      show s.front i j = renderC rw v enc fb scr (s.back.setContent rw x y m c st).w i cc
      rw [setContent_w]
      apply hpg i j cc hri'
      simp only [Ghost.step] at hc
      split at hc
      · split at hc
        · dsimp only at hc
          split at hc
          · exact absurd hc (by simp)
          · exact hc
        · exact hc
      · exact hc
  | fill r st =>
    refine ⟨⟨hst, hfb, hpw, hph, ?_, g, ?_, ?_⟩, hcl⟩
    · intro i j; exact wok_filled rw _ r st hok
    · exact Props.C08.ghostInv_step rw s.back g (.fill r st) hg
    · intro i j cc hri hc; exact hpg i j cc hri hc
  | lockCell x y =>
    refine ⟨⟨hst, hfb, ?_, ?_, ?_, g, ?_, ?_⟩, hcl⟩
    · show s.physw = (s.back.lockCell x y).w; rw [lockCell_w]; exact hpw
    · show s.physh = (s.back.lockCell x y).h; rw [lockCell_h]; exact hph
    · intro i j
      show WOk rw ((s.back.lockCell x y).cells i j)
      rw [lockCell_cells]; split
      · exact wok_setLock rw _ _ (hw i j)
      · exact hw i j
    · exact Props.C08.ghostInv_step rw s.back g (.lockCell x y) hg
    · intro i j cc hri hc
      have hri' : s.back.inRange i j := by simpa [Sim.stepS, inRange_iff] using hri
      show s.front i j = renderC rw v enc fb scr (s.back.lockCell x y).w i cc
      rw [lockCell_w]; exact hpg i j cc hri' hc
  | unlockCell x y =>
    refine ⟨⟨hst, hfb, ?_, ?_, ?_, g.step s.back (s.back.unlockCell x y) (.unlockCell x y), ?_, ?_⟩, hcl⟩
    · show s.physw = (s.back.unlockCell x y).w; rw [unlockCell_w]; exact hpw
    · show s.physh = (s.back.unlockCell x y).h; rw [unlockCell_h]; exact hph
    · intro i j
      show WOk rw ((s.back.unlockCell x y).cells i j)
      rw [unlockCell_cells]; split
      · exact wok_markDirty rw _ (wok_setLock rw _ _ (hw i j))
      · exact hw i j
    · exact Props.C08.ghostInv_step rw s.back g (.unlockCell x y) hg
    · intro i j cc hri hc
      have hri' : s.back.inRange i j := by simpa [Sim.stepS, inRange_iff] using hri
      show s.front i j = renderC rw v enc fb scr (s.back.unlockCell x y).w i cc
      rw [unlockCell_w]
      apply hpg i j cc hri'
      simp only [Ghost.step] at hc
      split at hc
      · dsimp only at hc
        split at hc
        · exact absurd hc (by simp)
        · exact hc
      · exact hc
  | lockRegion x y w hh lock =>
    obtain ⟨e1, e2, k, gg⟩ := lstep_lockRowsG rw s.back x y w lock hh.toNat
    obtain ⟨g', hg', le⟩ := gg g hg
    refine ⟨⟨hst, hfb, ?_, ?_, k hw, g', hg', ?_⟩, hcl⟩
    · show s.physw = (lockRowsG s.back x y w lock hh.toNat).w; rw [e1]; exact hpw
    · show s.physh = (lockRowsG s.back x y w lock hh.toNat).h; rw [e2]; exact hph
    · intro i j cc hri hc
      have hri' : s.back.inRange i j := by simpa [Sim.stepS, inRange_iff, e1, e2] using hri
      show s.front i j = renderC rw v enc fb scr (lockRowsG s.back x y w lock hh.toNat).w i cc
      rw [e1]; exact hpg i j cc hri' (le i j cc hc)
  | present =>
    show SInv rw v enc fb scr ((s.resize).draw v enc)
    rw [resize_noop s hpw hph]
    exact draw_sinv rw v enc fb scr hrw hv1 s ⟨hst, hfb, hpw, hph, hw, g, hg, hpg⟩ hcl
  | sync =>
    show SInv rw v enc fb scr (s.sync v enc)
    unfold Sim.sync
    simp only
    rw [resize_noop { s with clear := true } hpw hph]
    unfold Sim.draw
    simp only [if_true]
    constructor
    · apply showCursor_cinv
      apply drawRows_cinv rw v enc fb scr hrw hv1
      refine ⟨hst, hfb, hpw, hph, ?_, Ghost.none, ?_, PG_none rw v enc fb scr _ _⟩
      · intro i j; exact wok_markDirty rw _ (hw i j)
      · exact Props.C08.ghostInv_step rw s.back g .invalidate hg
    · rw [showCursor_clear, drawRows_clear]; rfl
  | setSize w hh =>
    show SInv rw v enc fb scr (s.setSize v w hh)
    unfold Sim.setSize
    simp only [hv2, if_true]
    unfold Sim.resize
    by_cases hs : w ≠ s.back.w ∨ hh ≠ s.back.h
    · simp only [hs, if_true, Sim.post]
      have hne : ¬ (s.back.h = hh ∧ s.back.w = w) := by
        intro hh2; rcases hs with h1 | h1
        · exact h1 hh2.2.symm
        · exact h1 hh2.1.symm
      refine ⟨⟨hst, hfb, (resize_w s.back w hh).symm, (resize_h s.back w hh).symm, ?_, Ghost.none, ?_, PG_none rw v enc fb scr _ _⟩, hcl⟩
      · intro i j
        show WOk rw ((s.back.resize w hh).cells i j)
        rw [resize_cells s.back w hh i j hne]; split
        · exact wok_carry rw _ (hw i j)
        · exact wok_default rw hrw
      · have h2 := Props.C08.ghostInv_step rw s.back g (.resize w hh) hg
        simp only [Buf.apply, Ghost.step, hne, if_false] at h2
        exact h2
    · simp only [hs, if_false]
      have hs' : w = s.back.w ∧ hh = s.back.h := by
        constructor
        · exact Classical.byContradiction fun h1 => hs (Or.inl h1)
        · exact Classical.byContradiction fun h1 => hs (Or.inr h1)
      refine ⟨⟨hst, hfb, hs'.1, hs'.2, hw, g, hg, ?_⟩, hcl⟩
      intro i j cc hri hc
      have hr := (inRange_iff s.back i j).1 hri
      have : (0 ≤ i ∧ 0 ≤ j ∧ i < w ∧ j < hh ∧ i < s.physw ∧ j < s.physh) := by
        rw [hs'.1, hs'.2, hpw, hph]; omega
      simp only [this, and_self, if_true]
      exact hpg i j cc hri hc
  | setCursor x y => exact ⟨⟨hst, hfb, hpw, hph, hw, g, hg, hpg⟩, hcl⟩
  | injectKey k r m => exact ⟨⟨hst, hfb, hpw, hph, hw, g, hg, hpg⟩, hcl⟩
  | injectMouse x y b m => exact ⟨⟨hst, hfb, hpw, hph, hw, g, hg, hpg⟩, hcl⟩

theorem runS_inv (hrw : RwOk rw) (hv1 : v.lastColClean = true) (hv2 : v.setSizeEvent = true) :
    ∀ (ops : List SimOp) (s : Sim), (∀ op ∈ ops, op.ok rw) → SInv rw v enc fb scr s → SInv rw v enc fb scr (s.runS rw v enc ops) := by
  intro ops
  induction ops with
  | nil => intro s _ h; exact h
  | cons op ops ih =>
    intro s hok h
    simp only [Sim.runS, List.foldl]
    exact ih _ (fun o ho => hok o (List.mem_cons_of_mem _ ho))
      (stepS_inv rw v enc fb scr hrw hv1 hv2 s op (hok op (List.mem_cons_self ..)) h)

/-- a freshly initialised screen (80×25, nothing drawn) with screen style `scr` satisfies the invariant -/
theorem init_inv (hrw : RwOk rw) : SInv rw v enc fb scr { Sim.init fb with style := scr } := by
  refine ⟨⟨rfl, rfl, ?_, ?_, ?_, Ghost.none, ?_, PG_none rw v enc fb scr _ _⟩, rfl⟩
  · exact (resize_w _ 80 25).symm
  · exact (resize_h _ 80 25).symm
  · intro x y
    show WOk rw ((({} : Buf).resize 80 25).cells x y)
    rw [resize_cells _ _ _ _ _ (by decide)]
    split
    · exact wok_carry rw _ (wok_default rw hrw)
    · exact wok_default rw hrw
  · intro x y _ hl
    exfalso; apply hl
    show ((({} : Buf).resize 80 25).cells x y).lastMain = 0
    rw [resize_cells _ _ _ _ _ (by decide)]
    split <;> rfl

/-- the invariant gives the statement: a clean unlocked in-range cell shows `render` of its logical content -/
theorem faithful_of_inv (hrw : RwOk rw) (s : Sim) (h : SInv rw v enc fb scr s) (x y : Int)
    (hr : s.back.inRange x y) (hl : (s.back.cells x y).lock = false) (hd : s.back.dirty x y = false) :
    s.front x y = s.render v enc x y := by
  obtain ⟨⟨hst, hfb, hpw, hph, hw, g, hg, hpg⟩, _⟩ := h
  have hd' : (s.back.cells x y).isDirty = false := by
    unfold dirty at hd; rw [if_pos hr] at hd; exact hd
  obtain ⟨h1, h2⟩ := (Cell.isDirty_false_iff _ hl).1 hd'
  rw [hpg x y _ hr (hg x y hr h1), h2, render_eq rw v enc hrw s x y hr (hw x y), hst, hfb, hpw]


/-! ### the walk of one Show: only dirty cells are drawn, every position the loops stop at is clean afterwards -/

/-- `b'` has no dirty cell that `b` has not -/
def DirtyLe (b' b : Buf) : Prop := ∀ i j, b'.dirty i j = true → b.dirty i j = true

theorem DirtyLe.refl (b : Buf) : DirtyLe b b := fun _ _ h => h
theorem DirtyLe.trans {a b c : Buf} (h1 : DirtyLe a b) (h2 : DirtyLe b c) : DirtyLe a c := fun i j h => h2 i j (h1 i j h)

theorem setDirty_false_dirtyLe (b : Buf) (x y : Int) : DirtyLe (b.setDirty x y false) b := by
  intro i j h
  by_cases hxy : i = x ∧ j = y
  · obtain ⟨rfl, rfl⟩ := hxy
    rw [Props.C08.clean_after_setDirty_false] at h; exact absurd h (by simp)
  · unfold dirty at h ⊢
    have hr : (b.setDirty x y false).inRange i j ↔ b.inRange i j := by simp [inRange_iff]
    by_cases hin : b.inRange i j
    · rw [if_pos (hr.2 hin)] at h
      rw [if_pos hin]
      rw [setDirty_false_cells] at h
      rw [if_neg (fun hh => hxy ⟨hh.1, hh.2.1⟩)] at h
      exact h
    · rw [if_neg (fun hh => hin (hr.1 hh))] at h; exact absurd h (by simp)

theorem drawCell_back (s : Sim) (x y : Int) :
    (s.drawCell v enc x y).1.back = s.back ∨ (s.drawCell v enc x y).1.back = s.back.setDirty x y false := by
  unfold Sim.drawCell; dsimp only; split
  · exact Or.inl rfl
  · split
    · exact Or.inl rfl
    · split
      · exact Or.inl rfl
      · exact Or.inr rfl

theorem drawCell_dirtyLe (s : Sim) (x y : Int) : DirtyLe (s.drawCell v enc x y).1.back s.back := by
  rcases drawCell_back v enc s x y with h | h <;> rw [h]
  · exact DirtyLe.refl _
  · exact setDirty_false_dirtyLe _ _ _

theorem drawCell_clean_after (hv : v.lastColClean = true) (s : Sim) (x y : Int) (h : CInv rw v enc fb scr s) :
    (s.drawCell v enc x y).1.back.dirty x y = false := by
  by_cases hd : s.back.dirty x y = true
  · obtain ⟨_, _, hpw, hph, _⟩ := h
    have hr := dirty_inRange s.back x y hd
    have hp : s.inPhys x y := by
      have := (inRange_iff s.back x y).1 hr
      unfold Sim.inPhys; rw [hpw, hph]; exact this
    rw [drawCell_of_dirty v enc hv s x y hd hp]
    exact Props.C08.clean_after_setDirty_false s.back x y
  · have hd' : s.back.dirty x y = false := by simpa using hd
    rw [drawCell_of_clean v enc s x y hd']; exact hd'

theorem drawRow_dirtyLe (y : Int) : ∀ (fuel : Nat) (s : Sim) (x : Int), DirtyLe (Sim.drawRow v enc y fuel s x).back s.back := by
  intro fuel
  induction fuel with
  | zero => intro s x; exact DirtyLe.refl _
  | succ n ih =>
    intro s x
    rw [drawRow_succ]; split
    · exact DirtyLe.trans (ih _ _) (drawCell_dirtyLe v enc s x y)
    · exact DirtyLe.refl _

theorem drawRows_dirtyLe : ∀ (n : Nat) (s : Sim) (y : Int), DirtyLe (Sim.drawRows v enc n s y).back s.back := by
  intro n
  induction n with
  | zero => intro s y; exact DirtyLe.refl _
  | succ n ih =>
    intro s y
    rw [drawRows_succ]
    exact DirtyLe.trans (ih _ _) (drawRow_dirtyLe v enc y _ s 0)

/-- the columns the inner loop of `draw` stops at (same recursion as `Sim.drawRow`) -/
def rowVisits (y : Int) : Nat → Sim → Int → List Int
  | 0, _, _ => []
  | fuel + 1, s, x =>
    if x < s.back.w then x :: rowVisits y fuel (s.drawCell v enc x y).1 (x + (s.drawCell v enc x y).2) else []

/-- the positions the two loops stop at (same recursion as `Sim.drawRows`) -/
def visits : Nat → Sim → Int → List (Int × Int)
  | 0, _, _ => []
  | n + 1, s, y =>
    (rowVisits v enc y s.back.w.toNat s 0).map (fun x => (x, y)) ++ visits n (Sim.drawRow v enc y s.back.w.toNat s 0) (y + 1)

theorem rowVisits_clean (hrw : RwOk rw) (hv : v.lastColClean = true) (y : Int) : ∀ (fuel : Nat) (s : Sim) (x : Int),
    CInv rw v enc fb scr s → ∀ x' ∈ rowVisits v enc y fuel s x, (Sim.drawRow v enc y fuel s x).back.dirty x' y = false := by
  intro fuel
  induction fuel with
  | zero => intro s x _ x' h; simp [rowVisits] at h
  | succ n ih =>
    intro s x hinv x' h
    unfold rowVisits at h
    rw [drawRow_succ]
    by_cases hx : x < s.back.w
    · simp only [hx, if_true] at h ⊢
      rcases List.mem_cons.1 h with h1 | h2
      · subst h1
        have hcl := drawCell_clean_after rw v enc fb scr hv s x' y hinv
        have hle := drawRow_dirtyLe v enc y n (s.drawCell v enc x' y).1 (x' + (s.drawCell v enc x' y).2)
        cases hd : (Sim.drawRow v enc y n (s.drawCell v enc x' y).1 (x' + (s.drawCell v enc x' y).2)).back.dirty x' y
        · rfl
        · rw [hle _ _ hd] at hcl; exact absurd hcl (by simp)
      · exact ih _ _ (drawCell_cinv rw v enc fb scr hrw hv s x y hinv) x' h2
    · simp only [hx, if_false] at h; simp at h

theorem visited_clean (hrw : RwOk rw) (hv : v.lastColClean = true) : ∀ (n : Nat) (s : Sim) (y : Int),
    CInv rw v enc fb scr s → ∀ q ∈ visits v enc n s y, (Sim.drawRows v enc n s y).back.dirty q.1 q.2 = false := by
  intro n
  induction n with
  | zero => intro s y _ q h; simp [visits] at h
  | succ n ih =>
    intro s y hinv q h
    unfold visits at h
    rw [drawRows_succ]
    rcases List.mem_append.1 h with h1 | h2
    · obtain ⟨x', hx', rfl⟩ := List.mem_map.1 h1
      have hcl := rowVisits_clean rw v enc fb scr hrw hv y _ s 0 hinv x' hx'
      have hle := drawRows_dirtyLe v enc n (Sim.drawRow v enc y s.back.w.toNat s 0) (y + 1)
      cases hd : (Sim.drawRows v enc n (Sim.drawRow v enc y s.back.w.toNat s 0) (y + 1)).back.dirty x' y
      · rfl
      · rw [hle _ _ hd] at hcl; exact absurd hcl (by simp)
    · exact ih _ _ (drawRow_cinv rw v enc fb scr hrw hv y _ s 0 hinv) q h2

/-- the positions the `draw` of a `Show` on state `s` stops at -/
def showVisits (s : Sim) : List (Int × Int) := visits v enc s.back.h.toNat { s with cursorvis := false } 0

theorem draw_eq (s : Sim) (hc : s.clear = false) :
    s.draw v enc = (Sim.drawRows v enc s.back.h.toNat { s with cursorvis := false } 0).showCursor := by
  unfold Sim.draw; dsimp only; split
  · rename_i h; rw [hc] at h; exact absurd h (by simp)
  · rfl

/-- a `Show` only marks cells clean; it dirties nothing (frame) -/
theorem show_dirtyLe (s : Sim) (hpw : s.physw = s.back.w) (hph : s.physh = s.back.h) (hc : s.clear = false) :
    DirtyLe (s.showScr v enc).back s.back := by
  unfold Sim.showScr
  rw [resize_noop s hpw hph, draw_eq v enc s hc]
  exact drawRows_dirtyLe v enc _ { s with cursorvis := false } 0

theorem show_visits_clean (hrw : RwOk rw) (hv : v.lastColClean = true) (s : Sim) (h : SInv rw v enc fb scr s) :
    ∀ q ∈ showVisits v enc s, (s.showScr v enc).back.dirty q.1 q.2 = false := by
  intro q hq
  obtain ⟨hci, hc⟩ := h
  have hpw := hci.2.2.1
  have hph := hci.2.2.2.1
  unfold Sim.showScr
  rw [resize_noop s hpw hph, draw_eq v enc s hc]
  exact visited_clean rw v enc fb scr hrw hv _ { s with cursorvis := false } 0 hci q hq

theorem runS_append (s : Sim) (ops : List SimOp) (op : SimOp) :
    s.runS rw v enc (ops ++ [op]) = (s.runS rw v enc ops).stepS rw v enc op := by
  simp [Sim.runS, List.foldl_append]

end Tcell.SimL
